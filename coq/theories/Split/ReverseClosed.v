(** C09 — Reverse on CLOSED subpaths with every segment type, and the involution on them. *)
From Coq Require Import ZArith QArith List Bool Lia.
From CV Require Import PathEnc.Enc Split.Reverse Split.ReverseProofs.
Import ListNotations.
Open Scope Q_scope.

Definition is_line (s : seg) : bool := match s with SL _ => true | _ => false end.

Lemma pt_eqb_refl' a : pt_eqb a a = true.
Proof. unfold pt_eqb. rewrite !Qeq_bool_refl. reflexivity. Qed.

Lemma prev_end_app2 r (c : seg) p0 : prev_end (r ++ [c; SM p0]) = match r with [] => seg_end c | y :: _ => seg_end y end.
Proof. destruct r; reflexivity. Qed.

(** the loop with a Close pending, the first record of the body being a LineTo: it becomes the Close *)
Lemma rev_go_closed_line rs : forall q1 p0 first start, all_draw rs ->
  rev_go (rs ++ [SL q1; SM p0]) true first start = rev_spec rs q1 ++ [SZ first].
Proof.
  induction rs as [|x r IH]; intros q1 p0 first start Hd.
  - reflexivity.
  - inversion Hd as [|? ? Hx Hr]; subst.
    change ((x :: r) ++ [SL q1; SM p0]) with (x :: (r ++ [SL q1; SM p0])).
    assert (E1 : prev_end (r ++ [SL q1; SM p0]) = match r with [] => q1 | y :: _ => seg_end y end) by (destruct r; reflexivity).
    assert (E2 : at0 (r ++ [SL q1; SM p0]) = false) by (destruct r; reflexivity).
    assert (E3 : prev_is_move (r ++ [SL q1; SM p0]) = false).
    { destruct r as [|y r']; [reflexivity|]. inversion Hr as [|? ? Hy _]; subst. destruct y; try discriminate; reflexivity. }
    destruct x; try discriminate; cbn [rev_go]; rewrite E1, ?E2, ?E3; cbn [andb orb rev_spec retarget app];
      f_equal; apply IH; assumption.
Qed.

(** ... the first record being a curve: it is kept and the (zero-length) Close is emitted at the MoveTo *)
Lemma rev_go_closed_curve rs : forall c p0 first start, all_draw rs -> draws c = true -> is_line c = false ->
  rev_go (rs ++ [c; SM p0]) true first start = rev_spec (rs ++ [c]) p0 ++ [SZ first].
Proof.
  induction rs as [|x r IH]; intros c p0 first start Hd Hc Hl.
  - destruct c; try discriminate; reflexivity.
  - inversion Hd as [|? ? Hx Hr]; subst.
    change ((x :: r) ++ [c; SM p0]) with (x :: (r ++ [c; SM p0])).
    change ((x :: r) ++ [c]) with (x :: (r ++ [c])).
    assert (E1 : prev_end (r ++ [c; SM p0]) = match r ++ [c] with [] => p0 | y :: _ => seg_end y end) by (destruct r; reflexivity).
    assert (E2 : at0 (r ++ [c; SM p0]) = false) by (destruct r; reflexivity).
    assert (E3 : prev_is_move (r ++ [c; SM p0]) = false).
    { destruct r as [|y r']; [destruct c; try discriminate; reflexivity|].
      inversion Hr as [|? ? Hy _]; subst. destruct y; try discriminate; reflexivity. }
    destruct x; try discriminate; cbn [rev_go]; rewrite E1, ?E2, ?E3; cbn [andb orb rev_spec retarget app];
      f_equal; apply IH; assumption.
Qed.

(** Reverse of a closed subpath  M p0 f rest z  whose closing segment has positive length *)
Theorem reverse_closed_general p0 f rest : all_draw (f :: rest) ->
  pt_eqb p0 (end_of (f :: rest) p0) = false ->
  reverse (SM p0 :: (f :: rest) ++ [SZ p0]) =
  SM p0 :: SL (end_of (f :: rest) p0) ::
    (if is_line f then rev_spec (rev rest) (seg_end f) else rev_spec (rev (f :: rest)) p0) ++ [SZ p0].
Proof.
  intros Hd Hne. inversion Hd as [|? ? Hf Hr]; subst.
  unfold reverse. cbn [rev]. rewrite rev_app_distr. cbn [rev app seg_end].
  f_equal. cbn [rev_go].
  assert (Hrr : all_draw (rev rest)) by (apply Forall_rev; exact Hr).
  assert (Epe : prev_end ((rev rest ++ [f]) ++ [SM p0]) = end_of (f :: rest) p0).
  { unfold end_of. destruct (rev rest) as [|y r'] eqn:E.
    - assert (rest = []) by (apply (f_equal (@rev seg)) in E; rewrite rev_involutive in E; exact E). subst. reflexivity.
    - cbn [app prev_end].
      assert (Hl : last rest (SM p0) = y).
      { apply (f_equal (@rev seg)) in E. rewrite rev_involutive in E. subst rest. cbn [rev]. apply last_last. }
      assert (rest <> []) by (intro C; subst; discriminate E).
      change (last (f :: rest) (SM p0)) with (match rest with [] => f | _ :: _ => last rest (SM p0) end).
      destruct rest; [congruence|]. rewrite Hl. reflexivity. }
  rewrite Epe, Hne. cbn [app]. f_equal.
  rewrite <- app_assoc. cbn [app].
  destruct (is_line f) eqn:El.
  - destruct f; try discriminate. cbn [seg_end]. apply rev_go_closed_line. exact Hrr.
  - apply rev_go_closed_curve; assumption.
Qed.

(** reverse_involutive on closed subpaths with every segment type, in normal form: the closing segment has positive length, and
    a first LineTo has positive length *)
Theorem reverse_involutive_closed p0 f rest : all_draw (f :: rest) -> flags_ok (f :: rest) ->
  pt_eqb p0 (end_of (f :: rest) p0) = false ->
  (is_line f = true -> pt_eqb p0 (seg_end f) = false) ->
  reverse (reverse (SM p0 :: (f :: rest) ++ [SZ p0])) = SM p0 :: (f :: rest) ++ [SZ p0].
Proof.
  intros Hd Hf Hne Hl1. inversion Hd as [|? ? Hfd Hr]; subst. inversion Hf as [|? ? Ff Fr]; subst.
  rewrite (reverse_closed_general p0 f rest Hd Hne).
  set (qn := end_of (f :: rest) p0) in *.
  assert (Hrr : all_draw (rev rest)) by (apply Forall_rev; exact Hr).
  destruct (is_line f) eqn:El.
  - (* the first record is a line to q1 *)
    destruct f as [| q1 | | | |]; try discriminate. cbn [seg_end] in *. specialize (Hl1 eq_refl).
    set (rest' := rev_spec (rev rest) q1).
    assert (Hd' : all_draw (SL qn :: rest')) by (constructor; [reflexivity | apply all_draw_rev_spec; exact Hrr]).
    assert (Een : end_of (SL qn :: rest') p0 = q1).
    { destruct rest as [|s r].
      - cbn in *. unfold end_of. cbn. reflexivity.
      - rewrite end_of_cons. unfold end_of, rest'. apply last_rev_spec_end. cbn [rev]. destruct (rev r); cbn; congruence. }
    assert (Hne' : pt_eqb p0 (end_of (SL qn :: rest') p0) = false) by (rewrite Een; exact Hl1).
    change (SM p0 :: SL qn :: rest' ++ [SZ p0]) with (SM p0 :: (SL qn :: rest') ++ [SZ p0]).
    rewrite (reverse_closed_general p0 (SL qn) rest' Hd' Hne'). cbn [is_line seg_end]. rewrite Een.
    unfold rest'. rewrite rev_rev_spec.
    assert (Eq : qn = end_of rest q1) by (unfold qn; apply end_of_cons).
    rewrite Eq, rev_spec_to_starts by assumption. reflexivity.
  - (* the first record is a curve: the reversed subpath ends with that curve on the start point and a zero-length Close *)
    set (X := rev_spec (rev (f :: rest)) p0).
    assert (HX : rev X = to_starts (f :: rest) p0) by (unfold X; apply rev_rev_spec).
    unfold reverse.
    assert (Erev : rev (SM p0 :: SL qn :: X ++ [SZ p0]) = SZ p0 :: (rev X ++ [SL qn; SM p0])).
    { cbn [rev]. rewrite rev_app_distr. cbn [rev app]. rewrite <- !app_assoc. reflexivity. }
    rewrite Erev. cbn [seg_end]. f_equal. cbn [rev_go].
    assert (Epe : prev_end (rev X ++ [SL qn; SM p0]) = p0).
    { rewrite HX. cbn [to_starts app prev_end]. apply retarget_end. }
    rewrite Epe, pt_eqb_refl'. cbn [app].
    rewrite rev_go_closed_line.
    + rewrite HX. unfold qn. rewrite rev_spec_to_starts by assumption. reflexivity.
    + rewrite HX. clear -Hd. revert p0. induction (f :: rest) as [|s r IH]; intro p0; [constructor|].
      inversion Hd; subst. cbn [to_starts]. constructor; [rewrite retarget_draws; assumption | apply IH; assumption].
Qed.

Example reverse_involutive_closed_ex :
  let p := [SM (0, 0); SQ (2, 3) (4, 0); SC (5, 1) (6, -1) (7, 0); SL (3, -4); SZ (0, 0)] in
  reverse (reverse p) = p.
Proof. vm_compute. reflexivity. Qed.

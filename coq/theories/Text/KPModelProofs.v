(** C17 — invariants of the faithful model of Linebreak (KP.v), for EVERY number structure whose
    equality test is reflexive (true for Q; true for binary64 on non-NaN values):
    the returned breakpoints are legal, strictly increasing, skip no forced break, and end at the last
    item when that is a forced break; a restart strictly raises the tolerance. *)
From Coq Require Import ZArith List Bool Lia.
From CV Require Import Text.KPSpec Text.KP Text.KPProofs.
Import ListNotations.

Section Model.
Context {num : Type} (O : ops num) (P : params num).
Hypothesis neqb_refl : forall x, neqb O x x = true.
(** a forced penalty (p <= -Infinity) is below +Infinity: holds whenever 0 < Infinity *)
Hypothesis forced_lt_inf : forall it, forced O P it = true -> nltb O (ip it) (pInf P) = true.
Variable items : list (item num).
Variable width : num.

Notation node := (@node num).
Notation brk := (@brk num).
Notation chain_struct := (chain_struct O P items).
Notation forced_between := (forced_between O P items).

(** the real breaks on the parent chain of a node (the root is dropped), most recent first *)
Fixpoint chain_pos (pos : nat) (anc : list brk) : list nat :=
  match anc with [] => [] | p :: anc' => pos :: chain_pos (bPos p) anc' end.
Definition nchain (a : node) : list nat := chain_pos (nPos a) (nAnc a).

Definition hlt (ch : list nat) (k : nat) : Prop := match ch with [] => True | b :: _ => (b < k)%nat end.

(** a node that may start a line ending at k or later *)
Definition NodeOK (k : nat) (a : node) : Prop :=
  chain_struct (nchain a) = true /\ hlt (nchain a) k /\ forced_between (hd_error (nchain a)) k = false /\
  (nAnc a = [] -> nPos a = 0%nat).

Definition NewOK (b : nat) (a' : node) : Prop := exists a, NodeOK b a /\ nchain a' = b :: nchain a.

Lemma hlt_prev ch k : hlt ch k -> prev_lt (hd_error ch) k = true.
Proof. destruct ch as [|b t]; simpl; [reflexivity|]. intro H. apply Nat.ltb_lt; exact H. Qed.

Lemma new_node_ok b a' : legal O P items b = true -> NewOK b a' -> NodeOK (S b) a'.
Proof.
  intros Hleg (a & (H1 & H2 & H3 & _) & Hch). unfold NodeOK. rewrite Hch. split; [| split; [| split]].
  - cbn [KPProofs.chain_struct]. rewrite Hleg, (hlt_prev _ _ H2), H3, H1. reflexivity.
  - simpl. lia.
  - cbn [hd_error KPSpec.forced_between prev_lt]. rewrite Nat.ltb_irrefl. reflexivity.
  - intro Hn. unfold nchain in Hch. rewrite Hn in Hch. discriminate Hch.
Qed.

Lemma advance_ok b it a : nth_error items b = Some it -> forced O P it = false -> NodeOK b a -> NodeOK (S b) a.
Proof.
  intros Hnth Hf (H1 & H2 & H3 & H4). split; [exact H1 | split; [| split; [|exact H4]]].
  - destruct (nchain a); simpl in *; auto.
  - cbn [KPSpec.forced_between]. destruct (prev_lt (hd_error (nchain a)) b); [|reflexivity].
    unfold forced_at. rewrite Hnth, Hf, H3. reflexivity.
Qed.

(** ---- mainLoop ---- *)
Definition Gok (b : nat) (g : @gacc num) : Prop :=
  forall c d a r, nth c (gD g) None = Some (d, a, r) -> NodeOK b a.

Lemma nth_upd {A} (v : A) (dflt : A) : forall l c c', nth c' (upd c v l) dflt = v \/ nth c' (upd c v l) dflt = nth c' l dflt.
Proof.
  induction l as [|x l IH]; intros c c'.
  - destruct c; simpl; right; reflexivity.
  - destruct c as [|c]; destruct c' as [|c']; simpl; auto.
Qed.

Lemma Gok_empty b : Gok b g_empty.
Proof.
  intros c d a r H. unfold g_empty in H. cbn [gD] in H.
  destruct c as [|[|[|[|[|c]]]]]; simpl in H; discriminate.
Qed.

Lemma visit_ok tol b it cur a g ntol deact g' ntol' :
  visit O P items width tol it cur a g ntol = (deact, g', ntol') ->
  NodeOK b a -> Gok b g -> Gok b g' /\ (forced O P it = true -> deact = true).
Proof.
  unfold visit. intros H Ha Hg. cbv zeta in H.
  destruct (adj_ratio O P width cur it (nSums a)) as [|x].
  - inversion H; subst. split; [exact Hg | intro Hf; reflexivity].
  - destruct (nleb O (nm1 O) x && tol_leb O x tol).
    + destruct (line_dem O P it x (flag_at items (nPos a)) (nFit a)) as [dl c].
      destruct (match nth c (gD g) None with Some (d0, _, _) => nltb O (nadd O dl (nDem a)) d0 | None => true end).
      * inversion H; subst. split.
        -- intros c' d' a' r' Hn. cbn [gD] in Hn.
           destruct (nth_upd (A:=@cbest num) (Some (nadd O dl (nDem a), a, x)) None (gD g) c c') as [E|E].
           ++ pose proof (eq_trans (eq_sym E) Hn) as E2. inversion E2; subst. exact Ha.
           ++ exact (Hg _ _ _ _ (eq_trans (eq_sym E) Hn)).
        -- intro Hf. rewrite Hf. apply orb_true_r.
      * inversion H; subst. split; [exact Hg | intro Hf; rewrite Hf; apply orb_true_r].
    + destruct (tol_ltb O tol x); inversion H; subst; (split; [exact Hg | intro Hf; rewrite Hf; apply orb_true_r]).
Qed.

Lemma flush_ok b it cur g : Gok b g -> forall a', In a' (flush O P items b it cur g) -> NewOK b a'.
Proof.
  intros Hg a' Hin. unfold flush in Hin. destruct (gDmin g) as [dmin|]; [|destruct Hin].
  apply in_flat_map in Hin. destruct Hin as (c & _ & Hin).
  destruct (nth c (gD g) None) as [[[d a] r]|] eqn:E; [|destruct Hin].
  destruct (nleb O d (nadd O dmin (pDFit P))); [|destruct Hin].
  destruct Hin as [Hin|[]]. subst a'. exists a. split; [exact (Hg _ _ _ _ E) | reflexivity].
Qed.

Lemma mloop_ok tol b it cur : forall rest g inact ntol out inact' ntol',
  mloop O P items width tol b it cur rest g inact ntol = (out, inact', ntol') ->
  (forall a, In a rest -> NodeOK b a) -> Gok b g -> (forall a, In a inact -> NodeOK b a) ->
  (forall a, In a out -> (NodeOK b a /\ forced O P it = false) \/ NewOK b a) /\
  (forall a, In a inact' -> NodeOK b a) /\
  (forall a, In a rest \/ In a inact -> In a out \/ In a inact').
Proof.
  induction rest as [|a rest IH]; intros g inact ntol out inact' ntol' H Hrest Hg Hin.
  - cbn [mloop] in H. inversion H; subst. split; [| split].
    + intros a Ha. right. eapply flush_ok; eauto.
    + exact Hin.
    + intros a [[]|Ha]. right; exact Ha.
  - cbn [mloop] in H.
    destruct (visit O P items width tol it cur a g ntol) as [[deact g'] ntol1] eqn:Ev.
    destruct (visit_ok _ _ _ _ _ _ _ _ _ _ Ev (Hrest a (or_introl eq_refl)) Hg) as [Hg' Hfd].
    set (inact1 := if deact then inact ++ [a] else inact) in *.
    assert (Hin1 : forall x, In x inact1 -> NodeOK b x).
    { intros x Hx. unfold inact1 in Hx. destruct deact; [|auto]. apply in_app_or in Hx. destruct Hx as [Hx|[Hx|[]]]; [auto|subst; apply Hrest; left; reflexivity]. }
    assert (Hkeep : forall x, In x (if deact then [] else [a]) -> NodeOK b x /\ forced O P it = false).
    { intros x Hx. destruct deact; [destruct Hx|]. destruct Hx as [Hx|[]]. subst x. split; [apply Hrest; left; reflexivity|].
      destruct (forced O P it); [specialize (Hfd eq_refl); discriminate | reflexivity]. }
    assert (Hcov : In a (if deact then [] else [a]) \/ In a inact1).
    { unfold inact1. destruct deact; [right; apply in_or_app; right; left; reflexivity | left; left; reflexivity]. }
    assert (Hsub : forall x, In x inact -> In x inact1).
    { intros x Hx. unfold inact1. destruct deact; [apply in_or_app; left; exact Hx | exact Hx]. }
    assert (Hrest' : forall x, In x rest -> NodeOK b x) by (intros x Hx; apply Hrest; right; exact Hx).
    destruct (match rest with [] => true | nx :: _ => (S (nLine a) <=? nLine nx)%nat end).
    + destruct (mloop O P items width tol b it cur rest g_empty inact1 ntol1) as [[outr inactr] ntolr] eqn:Em.
      inversion H; subst. destruct (IH _ _ _ _ _ _ Em Hrest' (Gok_empty b) Hin1) as (I1 & I2 & I3).
      split; [| split].
      * intros x Hx. apply in_app_or in Hx. destruct Hx as [Hx|Hx]; [left; apply Hkeep; exact Hx|].
        apply in_app_or in Hx. destruct Hx as [Hx|Hx]; [right; eapply flush_ok; eauto | apply I1; exact Hx].
      * exact I2.
      * intros x [[Hx|Hx]|Hx].
        -- subst x. destruct Hcov as [Hc|Hc]; [left; apply in_or_app; left; exact Hc|].
           destruct (I3 a (or_intror Hc)) as [Hy|Hy]; [left; apply in_or_app; right; apply in_or_app; right; exact Hy | right; exact Hy].
        -- destruct (I3 x (or_introl Hx)) as [Hy|Hy]; [left; apply in_or_app; right; apply in_or_app; right; exact Hy | right; exact Hy].
        -- destruct (I3 x (or_intror (Hsub x Hx))) as [Hy|Hy]; [left; apply in_or_app; right; apply in_or_app; right; exact Hy | right; exact Hy].
    + destruct (mloop O P items width tol b it cur rest g' inact1 ntol1) as [[outr inactr] ntolr] eqn:Em.
      inversion H; subst. destruct (IH _ _ _ _ _ _ Em Hrest' Hg' Hin1) as (I1 & I2 & I3).
      split; [| split].
      * intros x Hx. apply in_app_or in Hx. destruct Hx as [Hx|Hx]; [left; apply Hkeep; exact Hx | apply I1; exact Hx].
      * exact I2.
      * intros x [[Hx|Hx]|Hx].
        -- subst x. destruct Hcov as [Hc|Hc]; [left; apply in_or_app; left; exact Hc|].
           destruct (I3 a (or_intror Hc)) as [Hy|Hy]; [left; apply in_or_app; right; exact Hy | right; exact Hy].
        -- destruct (I3 x (or_introl Hx)) as [Hy|Hy]; [left; apply in_or_app; right; exact Hy | right; exact Hy].
        -- destruct (I3 x (or_intror (Hsub x Hx))) as [Hy|Hy]; [left; apply in_or_app; right; exact Hy | right; exact Hy].
Qed.

(** ---- the legality test of the pass is the specification's ---- *)
Lemma runs_main_legal b it : nth_error items b = Some it -> runs_main O P items b it = Some true -> legal O P items b = true.
Proof.
  intros Hnth H. unfold runs_main in H. unfold legal. rewrite Hnth.
  destruct (ikind it).
  - discriminate.
  - destruct b as [|b']; [discriminate|].
    destruct (nth_error items b') as [p|]; [|discriminate].
    destruct (is_box p) eqn:Eb; [|discriminate].
    destruct (nth_error items (S (S b'))) as [nx|]; [|discriminate].
    inversion H as [H1]. rewrite H1. reflexivity.
  - inversion H. reflexivity.
Qed.

(** ---- overflow fallback ---- *)
Lemma fold_min_some cur : forall l m0 S0,
  (forall x, m0 = Some x -> exists p, S0 p /\ x = nsub O (tW cur) (tW (nSums p))) ->
  (l <> [] \/ m0 <> None) ->
  exists x p, fold_left (fun m p => match m with
                                   | Some x => Some (nmin O x (nsub O (tW cur) (tW (nSums p))))
                                   | None => Some (nsub O (tW cur) (tW (nSums p))) end) l m0 = Some x /\
              (S0 p \/ In p l) /\ x = nsub O (tW cur) (tW (nSums p)).
Proof.
  induction l as [|q l IH]; intros m0 S0 Hm Hne.
  - cbn [fold_left]. destruct m0 as [x|]; [|destruct Hne as [Hne|Hne]; congruence].
    destruct (Hm x eq_refl) as (p & Hp & Hx). exists x, p. auto.
  - cbn [fold_left].
    destruct (IH (match m0 with None => Some (nsub O (tW cur) (tW (nSums q)))
                           | Some x => Some (nmin O x (nsub O (tW cur) (tW (nSums q)))) end)
                 (fun p => S0 p \/ p = q)) as (x & p & Hf & Hp & Hx).
    + intros x Hx. destruct m0 as [y|].
      * inversion Hx; subst x. unfold nmin. destruct (nltb O (nsub O (tW cur) (tW (nSums q))) y).
        -- exists q. auto.
        -- destruct (Hm y eq_refl) as (p & Hp & Hy). exists p. auto.
      * inversion Hx; subst x. exists q. auto.
    + right. destruct m0; discriminate.
    + exists x, p. split; [exact Hf | split; [|exact Hx]]. destruct Hp as [[Hp|Hp]|Hp]; [left; exact Hp | right; left; auto | right; right; exact Hp].
Qed.

Lemma overflow_nodes_ok b cur inact :
  (forall a, In a inact -> NodeOK b a) ->
  (forall a', In a' (overflow_nodes O b cur inact) -> NewOK b a') /\
  (inact <> [] -> overflow_nodes O b cur inact <> []).
Proof.
  intro Hin. unfold overflow_nodes, min_width. cbv zeta. split.
  - intros a' H. destruct (fold_left _ inact None) as [mw|]; [|destruct H].
    apply in_flat_map in H. destruct H as (p & Hp & H).
    destruct (neqb O (nsub O (tW cur) (tW (nSums p))) mw); [|destruct H].
    destruct H as [H|[]]. subst a'. exists p. split; [apply Hin; exact Hp | reflexivity].
  - intro Hne.
    destruct (fold_min_some cur inact None (fun _ => False)) as (x & p & Hf & Hp & Hx).
    + intros x Hx; discriminate.
    + left; exact Hne.
    + rewrite Hf. destruct Hp as [[]|Hp]. intro Hnil.
      assert (Hi : In (mkNode b (S (nLine p)) 1 (tW cur) cur (n0 O) (nadd O (nDem p) (n1000 O)) (brk_of p :: nAnc p))
                      (flat_map (fun p0 => if neqb O (nsub O (tW cur) (tW (nSums p0))) x
                                           then [mkNode b (S (nLine p0)) 1 (tW cur) cur (n0 O) (nadd O (nDem p0) (n1000 O)) (brk_of p0 :: nAnc p0)]
                                           else []) inact)).
      { apply in_flat_map. exists p. split; [exact Hp|]. rewrite Hx, neqb_refl. left; reflexivity. }
      rewrite Hnil in Hi. destruct Hi.
Qed.

(** ---- one pass ---- *)
Lemma not_run_not_forced b it : runs_main O P items b it = Some false -> forced O P it = false.
Proof.
  intro Er. destruct (forced O P it) eqn:Ef; [|reflexivity]. exfalso.
  pose proof (forced_lt_inf it Ef) as Hlt.
  unfold forced in Ef. apply andb_true_iff in Ef. destruct Ef as [Hpen _].
  unfold runs_main in Er. unfold is_pen in Hpen. destruct (ikind it); try discriminate.
  rewrite Hlt in Er. discriminate.
Qed.

Lemma pass_ok tol : forall l b cur act inact ntol ovf actf ovf',
  skipn b items = l -> (b + length l = length items)%nat ->
  act <> [] -> (forall a, In a act -> NodeOK b a) -> (forall a, In a inact -> NodeOK b a) ->
  pass O P items width tol l b cur act inact ntol ovf = PDone actf ovf' ->
  actf <> [] /\ forall a, In a actf -> NodeOK (length items) a.
Proof.
  induction l as [|it l IH]; intros b cur act inact ntol ovf actf ovf' Hsk Hlen Hne Hact Hinact H.
  - cbn [pass] in H. inversion H; subst. simpl in Hlen. replace (length items) with b by lia. split; assumption.
  - cbn [pass] in H. destruct (skipn_cons _ _ _ _ Hsk) as [Hnth Hsk'].
    assert (Hlen' : (S b + length l = length items)%nat) by (simpl in Hlen; lia).
    destruct (runs_main O P items b it) as [doit|] eqn:Er; [|discriminate].
    destruct (if doit then mloop O P items width tol b it cur act g_empty inact ntol else (act, inact, ntol)) as [[act1 inact1] ntol1] eqn:Em.
    assert (Hst : (forall a, In a act1 -> NodeOK (S b) a) /\ (forall a, In a inact1 -> NodeOK b a) /\
                  (act1 = [] -> inact1 <> [] /\ doit = true)).
    { destruct doit.
      - pose proof (runs_main_legal b it Hnth Er) as Hleg.
        destruct (mloop_ok _ _ _ _ _ _ _ _ _ _ _ Em Hact (Gok_empty b) Hinact) as (I1 & I2 & I3).
        split; [| split].
        + intros a Ha. destruct (I1 a Ha) as [[Hok Hf]|Hnew]; [eapply advance_ok; eauto | apply new_node_ok; auto].
        + exact I2.
        + intro Hnil. split; [|reflexivity]. destruct act as [|a0 act0]; [congruence|].
          destruct (I3 a0 (or_introl (or_introl eq_refl))) as [Hx|Hx]; [rewrite Hnil in Hx; destruct Hx|].
          intro Hn. rewrite Hn in Hx. destruct Hx.
      - inversion Em; subst act1 inact1 ntol1. split; [| split].
        + intros a Ha. eapply advance_ok; eauto. apply (not_run_not_forced b it Er).
        + exact Hinact.
        + intro Hnil. congruence. }
    destruct Hst as (S1 & S2 & S3).
    cbv zeta in H.
    assert (Hinact2 : forall a, In a (if forced O P it then [] else inact1) -> NodeOK (S b) a).
    { intros a Ha. destruct (forced O P it) eqn:Ef; [destruct Ha|]. eapply advance_ok; eauto. }
    destruct act1 as [|a1 act1'].
    + destruct (tol_neq O tol ntol1); [discriminate|].
      destruct (S3 eq_refl) as [Hne1 Hdo]. subst doit.
      pose proof (runs_main_legal b it Hnth Er) as Hleg.
      destruct (overflow_nodes_ok b (acc_item O cur it) inact1 S2) as [Hov1 Hov2].
      eapply IH in H; eauto.
      intros a Ha. apply new_node_ok; auto.
    + eapply IH in H; eauto. discriminate.
Qed.

(** ---- the selection and the walk along the parent chain ---- *)
Lemma pick_min_in : forall act, act <> [] -> exists b0, pick_min O act = Some b0 /\ In b0 act.
Proof.
  intros act Hne. unfold pick_min.
  assert (Hgen : forall l (b : option node) (S0 : node -> Prop),
            (forall x, b = Some x -> S0 x) -> (l <> [] \/ b <> None) ->
            exists b0, fold_left (fun b a => match b with None => Some a | Some b1 => if nltb O (nDem a) (nDem b1) then Some a else b end) l b = Some b0
                       /\ (S0 b0 \/ In b0 l)).
  { induction l as [|a l IH]; intros b S0 Hb Hn.
    - destruct b as [x|]; [|destruct Hn; congruence]. exists x. split; [reflexivity | left; auto].
    - cbn [fold_left].
      destruct (IH (match b with None => Some a | Some b1 => if nltb O (nDem a) (nDem b1) then Some a else b end) (fun x => S0 x \/ x = a)) as (b0 & Hf & Hin).
      + intros x Hx. destruct b as [b1|]; [destruct (nltb O (nDem a) (nDem b1)); [inversion Hx; auto | left; apply Hb; exact Hx] | inversion Hx; auto].
      + right. destruct b as [b1|]; [destruct (nltb O (nDem a) (nDem b1))|]; discriminate.
      + exists b0. split; [exact Hf|]. destruct Hin as [[Hin|Hin]|Hin]; [left; auto | right; left; auto | right; right; auto]. }
  destruct (Hgen act None (fun _ => False)) as (b0 & Hf & Hin).
  - intros x Hx; discriminate.
  - left; exact Hne.
  - exists b0. split; [exact Hf|]. destruct Hin as [[]|Hin]. exact Hin.
Qed.

Lemma pick_loose_in looseness : forall act b0, In b0 act -> In (pick_loose O looseness act b0) act.
Proof.
  intros act b0 Hb0. unfold pick_loose.
  set (k := Z.of_nat (nLine b0)).
  assert (Hgen : forall l (sb : Z * node), In (snd sb) act -> (forall x, In x l -> In x act) ->
            In (snd (fold_left (fun (sb : Z * node) a =>
                 let '(s, b) := sb in
                 let delta := (Z.of_nat (nLine a) - k)%Z in
                 if ((looseness <=? delta)%Z && (delta <? s)%Z) || ((s <? delta)%Z && (delta <=? looseness)%Z) then (delta, a)
                 else if (delta =? s)%Z && nltb O (nDem a) (nDem b) then (s, a) else (s, b)) l sb)) act).
  { induction l as [|a l IH]; intros [s b] Hb Hl; [exact Hb|].
    cbn [fold_left]. apply IH; [|intros x Hx; apply Hl; right; exact Hx].
    cbv zeta. destruct (((looseness <=? Z.of_nat (nLine a) - k)%Z && (Z.of_nat (nLine a) - k <? s)%Z) || ((s <? Z.of_nat (nLine a) - k)%Z && (Z.of_nat (nLine a) - k <=? looseness)%Z)).
    - simpl. apply Hl; left; reflexivity.
    - destruct ((Z.of_nat (nLine a) - k =? s)%Z && nltb O (nDem a) (nDem b)); simpl; [apply Hl; left; reflexivity | exact Hb]. }
  apply (Hgen act (0%Z, b0)); auto.
Qed.

(** the records of the real breaks of a node, most recent first, and the root record *)
Fixpoint real (k0 : brk) (anc : list brk) : list brk :=
  match anc with [] => [] | p :: t => k0 :: real p t end.

Lemma real_split : forall anc k0, exists rootb, k0 :: anc = real k0 anc ++ [rootb].
Proof.
  induction anc as [|p t IH]; intro k0.
  - exists k0. reflexivity.
  - destruct (IH p) as (r & Hr). exists r. cbn [real]. rewrite Hr. reflexivity.
Qed.

Lemma real_pos : forall anc k0, map (@bPos num) (real k0 anc) = chain_pos (bPos k0) anc.
Proof.
  induction anc as [|p t IH]; intro k0; [reflexivity|]. cbn [real map chain_pos]. rewrite IH. reflexivity.
Qed.

Lemma post_pos : forall l w, map (@oPos num) (post O P w l) = map (fun k => Z.of_nat (bPos k)) l.
Proof.
  induction l as [|k l IH]; intro w; [reflexivity|]. cbn [post map oPos]. rewrite IH. reflexivity.
Qed.

Lemma finish_ok looseness act ovf bs ok :
  act <> [] -> finish O P items looseness act ovf = Done bs ok ->
  exists b, In b act /\
    ((nchain b <> [] /\ map (@oPos num) bs = map Z.of_nat (rev (nchain b))) \/
     (nchain b = [] /\ map (@oPos num) bs = [Z.of_nat (nPos b)])).
Proof.
  intros Hne H. unfold finish in H.
  destruct (pick_min_in act Hne) as (b0 & Hpm & Hb0). rewrite Hpm in H.
  set (b := if (looseness =? 0)%Z then b0 else pick_loose O looseness act b0) in *.
  assert (Hb : In b act).
  { unfold b. destruct (looseness =? 0)%Z; [exact Hb0 | apply pick_loose_in; exact Hb0]. }
  exists b. split; [exact Hb|].
  inversion H as [[Hbs Hok]]. clear H Hok.
  unfold chain_of.
  destruct (real_split (nAnc b) (brk_of b)) as (rootb & Hsplit).
  rewrite Hsplit, rev_app_distr. cbn [rev app post].
  pose proof (real_pos (nAnc b) (brk_of b)) as Hrp. cbn [brk_of bPos] in Hrp. fold (nchain b) in Hrp.
  destruct (real (brk_of b) (nAnc b)) as [|r0 rs] eqn:Er.
  - right. cbn [map] in Hrp. split; [symmetry; exact Hrp|].
    cbn [rev post map oPos].
    (* the chain is the root alone: b itself *)
    destruct (nAnc b) as [|p t] eqn:Ea; [|cbn [real] in Er; discriminate].
    cbn [app] in Hsplit. inversion Hsplit; subst rootb. reflexivity.
  - left. split; [rewrite <- Hrp; discriminate|].
    set (L := rev (r0 :: rs)) in *.
    assert (HL : L <> []).
    { unfold L. cbn [rev]. intro Hn. apply app_eq_nil in Hn. destruct Hn as [_ Hn]; discriminate. }
    destruct L as [|l0 ls] eqn:EL; [congruence|].
    cbn [post]. rewrite <- Hrp. cbn [map oPos]. rewrite post_pos.
    change (bPos r0 :: map (@bPos num) rs) with (map (@bPos num) (r0 :: rs)).
    rewrite <- map_rev. change (rev (r0 :: rs)) with L. rewrite EL. cbn [map]. rewrite map_map. reflexivity.
Qed.

(** ---- Linebreak ---- *)
Lemma root_ok : NodeOK 0 (root O).
Proof. repeat split. Qed.

Theorem model_breaks_structural looseness : forall fuel tol ovf bs ok,
  lb_loop O P items width looseness fuel tol ovf = Done bs ok ->
  exists ch, chain_struct ch = true /\ hlt ch (length items) /\
             forced_between (hd_error ch) (length items) = false /\
             ((ch <> [] /\ map (@oPos num) bs = map Z.of_nat (rev ch)) \/
              (ch = [] /\ map (@oPos num) bs = [0%Z])).
Proof.
  induction fuel as [|f IH]; intros tol ovf bs ok H; [discriminate|].
  cbn [lb_loop] in H.
  destruct (pass O P items width tol items 0 (t0 O) [root O] [] None ovf) as [|t ovf'|act ovf'] eqn:Ep.
  - discriminate.
  - exact (IH _ _ _ _ H).
  - assert (Hp : act <> [] /\ forall a, In a act -> NodeOK (length items) a).
    { eapply (pass_ok tol items 0); eauto.
      - discriminate.
      - intros a [Ha|[]]. subst a. exact root_ok.
      - intros a []. }
    destruct Hp as [Hne Hok].
    destruct (finish_ok _ _ _ _ _ Hne H) as (b & Hb & Hcase).
    destruct (Hok b Hb) as (H1 & H2 & H3 & H4).
    exists (nchain b). split; [exact H1 | split; [exact H2 | split; [exact H3|]]].
    destruct Hcase as [[Hn Hm]|[Hn Hm]]; [left; auto|]. right. split; [exact Hn|].
    rewrite Hm. (* a node without real breaks has no ancestors: it is the root, at position 0 *)
    assert (Ha : nAnc b = []).
    { unfold nchain in Hn. destruct (nAnc b); [reflexivity | discriminate Hn]. }
    rewrite (H4 Ha). reflexivity.
Qed.

(** the same for [linebreak], and the reading of the result when the paragraph ends in a forced break *)
Theorem model_breaks_legal looseness fuel bs ok :
  linebreak O P items width looseness fuel = Done bs ok ->
  forced_at O P items (length items - 1) = true ->
  exists ch, (map (@oPos num) bs = map Z.of_nat (rev ch)) /\
             (chain_struct ch = true) /\ (hd_error ch = Some (length items - 1)%nat).
Proof.
  intros H Hf. unfold linebreak in H.
  destruct (model_breaks_structural _ _ _ _ _ _ H) as (ch & H1 & H2 & H3 & H4).
  assert (Hn : (length items - 1 < length items)%nat).
  { unfold forced_at in Hf. destruct (nth_error items (length items - 1)) eqn:E; [|discriminate].
    apply nth_error_Some. congruence. }
  destruct (length items) as [|m] eqn:El; [lia|].
  replace (S m - 1)%nat with m in * by lia.
  cbn [KPSpec.forced_between] in H3.
  destruct (prev_lt (hd_error ch) m) eqn:Ep.
  - rewrite Hf in H3. discriminate H3.
  - destruct ch as [|b r]; [discriminate Ep|].
    cbn [hd_error prev_lt] in Ep. apply Nat.ltb_ge in Ep. simpl in H2.
    assert (b = m) by lia. subst b.
    exists (m :: r). destruct H4 as [[_ H4]|[H4 _]]; [|discriminate H4].
    split; [exact H4 | split; [exact H1 | reflexivity]].
Qed.

(** ---- a restart strictly raises the tolerance (the goto START loop makes progress) ---- *)
Definition NtolOK (tol ntol : option num) : Prop :=
  match ntol with None => True | Some x => tol_ltb O tol x = true end.

Lemma visit_ntol tol it cur a g ntol deact g' ntol' :
  visit O P items width tol it cur a g ntol = (deact, g', ntol') -> NtolOK tol ntol -> NtolOK tol ntol'.
Proof.
  unfold visit. intros H Hn. cbv zeta in H.
  destruct (adj_ratio O P width cur it (nSums a)) as [|x]; [inversion H; subst; exact Hn|].
  destruct (nleb O (nm1 O) x && tol_leb O x tol).
  - destruct (line_dem O P it x (flag_at items (nPos a)) (nFit a)) as [dl c].
    destruct (match nth c (gD g) None with Some (d0, _, _) => nltb O (nadd O dl (nDem a)) d0 | None => true end);
      inversion H; subst; exact Hn.
  - destruct (tol_ltb O tol x) eqn:Et; inversion H; subst; [|exact Hn].
    destruct ntol as [t|]; cbn [NtolOK]; [|exact Et].
    unfold nmin. destruct (nltb O x t); [exact Et | exact Hn].
Qed.

Lemma mloop_ntol tol b it cur : forall rest g inact ntol out inact' ntol',
  mloop O P items width tol b it cur rest g inact ntol = (out, inact', ntol') -> NtolOK tol ntol -> NtolOK tol ntol'.
Proof.
  induction rest as [|a rest IH]; intros g inact ntol out inact' ntol' H Hn.
  - cbn [mloop] in H. inversion H; subst. exact Hn.
  - cbn [mloop] in H.
    destruct (visit O P items width tol it cur a g ntol) as [[deact g'] ntol1] eqn:Ev.
    pose proof (visit_ntol _ _ _ _ _ _ _ _ _ Ev Hn) as Hn1.
    destruct (match rest with [] => true | nx :: _ => (S (nLine a) <=? nLine nx)%nat end).
    + destruct (mloop O P items width tol b it cur rest g_empty (if deact then inact ++ [a] else inact) ntol1) as [[outr inactr] ntolr] eqn:Em.
      inversion H; subst. exact (IH _ _ _ _ _ _ Em Hn1).
    + destruct (mloop O P items width tol b it cur rest g' (if deact then inact ++ [a] else inact) ntol1) as [[outr inactr] ntolr] eqn:Em.
      inversion H; subst. exact (IH _ _ _ _ _ _ Em Hn1).
Qed.

(** [pass] asks for a restart only with a tolerance strictly above the current one (a ratio that occurred,
    or +Inf when the current one is finite); with tolerance +Inf it never restarts. *)
Theorem restart_raises_tolerance tol : forall l b cur act inact ntol ovf t ovf',
  NtolOK tol ntol ->
  pass O P items width tol l b cur act inact ntol ovf = PRestart t ovf' ->
  match tol, t with
  | Some a, Some x => nltb O a x = true
  | Some _, None => True
  | None, _ => False
  end.
Proof.
  induction l as [|it l IH]; intros b cur act inact ntol ovf t ovf' Hn H; [discriminate|].
  cbn [pass] in H.
  destruct (runs_main O P items b it) as [doit|]; [|discriminate].
  destruct (if doit then mloop O P items width tol b it cur act g_empty inact ntol else (act, inact, ntol)) as [[act1 inact1] ntol1] eqn:Em.
  assert (Hn1 : NtolOK tol ntol1).
  { destruct doit; [eapply mloop_ntol; eauto | inversion Em; subst; exact Hn]. }
  cbv zeta in H. destruct act1 as [|a1 act1'].
  - destruct (tol_neq O tol ntol1) eqn:Etn.
    + inversion H; subst t ovf'. destruct tol as [a|]; destruct ntol1 as [x|]; cbn in *; auto; discriminate.
    + eapply IH; eauto.
  - eapply IH; eauto.
Qed.

End Model.

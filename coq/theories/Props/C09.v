(** C09 — Length, SplitAt and Reverse are consistent views of the same curve.  Property theorems only. *)
From Coq Require Import ZArith QArith List Bool.
From CV Require Import Geom.Matrix Geom.Bezier Split.Cert.
Import ListNotations.
Open Scope Q_scope.

Theorem C09_sub3_eval : forall a b c d s u t,
  let '(a', b', c', d') := sub3 a b c d s u in bcube a' b' c' d' t == bcube a b c d (s + t * (u - s)).
Proof. exact sub3_eval. Qed.
Print Assumptions C09_sub3_eval.

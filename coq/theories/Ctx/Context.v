(** Model of canvas.Context (canvas.go:226-710): draw state, state stack, view compositions, coordinate
    systems and the draw calls, faithful to what the Go code does.  Numbers are exact in Q.  Colours,
    gradients, patterns, cappers, joiners, fill rules, texts and images are abstract tokens (integers chosen
    by the harness); a path is the list of its commands.  Relational inputs (supplied by the caller, checked
    by the judge where a relation exists): (cos, sin) of Rotate, the length and bounds of a drawn path, the
    bounds of a text, the pixel size of an image.  Definitions only; proofs in Ctx/ContextProofs.v. *)
From Coq Require Import ZArith QArith Qround List Bool.
From CV Require Import Base.Dy Geom.Matrix Ctx.DashCheck.
Import ListNotations.
Open Scope Q_scope.

(** * Style tokens *)

(** Paint{Color, Gradient, Pattern}: colour packed as R<<24|G<<16|B<<8|A; gradient / pattern ids, 0 = nil *)
Record paint := mkPaint { pcol : Z; pgrad : Z; ppat : Z }.
Definition paint_none : paint := mkPaint 0 0 0.
Definition alpha (c : Z) : Z := (c mod 256)%Z.
(** Paint.Has *)
Definition paint_has (p : paint) : bool :=
  negb (alpha (pcol p) =? 0)%Z || negb (pgrad p =? 0)%Z || negb (ppat p =? 0)%Z.

Record style := mkStyle {
  sfill : paint; sstroke : paint; swidth : Q; scap : Z; sjoin : Z; sdoff : Q; sdashes : list Q; srule : Z }.

(** DefaultStyle: black fill, no stroke, width 1, ButtCap (0), MiterJoin (0), no dashes, NonZero (0) *)
Definition default_style : style := mkStyle (mkPaint 255 0 0) paint_none 1 0 0 0 [] 0.

Definition has_fill (s : style) : bool := paint_has (sfill s).
Definition has_stroke (s : style) : bool := paint_has (sstroke s) && Qltb 0 (swidth s).

Definition set_fill (s : style) (p : paint) : style :=
  mkStyle p (sstroke s) (swidth s) (scap s) (sjoin s) (sdoff s) (sdashes s) (srule s).
Definition set_stroke (s : style) (p : paint) : style :=
  mkStyle (sfill s) p (swidth s) (scap s) (sjoin s) (sdoff s) (sdashes s) (srule s).
Definition set_width (s : style) (w : Q) : style :=
  mkStyle (sfill s) (sstroke s) w (scap s) (sjoin s) (sdoff s) (sdashes s) (srule s).
Definition set_cap (s : style) (c : Z) : style :=
  mkStyle (sfill s) (sstroke s) (swidth s) c (sjoin s) (sdoff s) (sdashes s) (srule s).
Definition set_join (s : style) (j : Z) : style :=
  mkStyle (sfill s) (sstroke s) (swidth s) (scap s) j (sdoff s) (sdashes s) (srule s).
Definition set_dashes (s : style) (o : Q) (d : list Q) : style :=
  mkStyle (sfill s) (sstroke s) (swidth s) (scap s) (sjoin s) o d (srule s).
Definition set_rule (s : style) (r : Z) : style :=
  mkStyle (sfill s) (sstroke s) (swidth s) (scap s) (sjoin s) (sdoff s) (sdashes s) r.

(** argument of SetFill / SetStroke (interface{}): the type switch of canvas.go:398-446 *)
Inductive paintarg := PAPaint (p : paint) | PAPattern (id : Z) | PAGradient (id : Z) | PAColor (rgba : Z) | PAOther.
Definition paint_of_arg (a : paintarg) : paint :=
  match a with
  | PAPaint p => p
  | PAPattern id => mkPaint 0 0 id
  | PAGradient id => mkPaint 0 id 0
  | PAColor c => mkPaint c 0 0
  | PAOther => paint_none
  end.

(** * Geometry tokens *)

Record rect := mkR { rx0 : Q; ry0 : Q; rx1 : Q; ry1 : Q }.
Definition rW (r : rect) : Q := rx1 r - rx0 r.
Definition rH (r : rect) : Q := ry1 r - ry0 r.

(** a path: its commands (1 MoveTo, 2 LineTo, 3 Close, ...; end point) *)
Definition ptok := list (Z * Q * Q).
(** a path handed to DrawPath: commands, Length() and Bounds() as computed by Go (relational inputs) *)
Record pathin := mkPI { pi_tok : ptok; pi_len : Q; pi_bounds : rect }.

Inductive obj := OPath (p : ptok) | OText (id : Z) | OImage (id : Z) (wpx hpx : Z).

Inductive csys := CartI | CartII | CartIII | CartIV.

(** Every matrix the model stores or hands on is normalised entry-wise with [Qred] (x == Qred x): Q's arithmetic
    does not reduce fractions and a history of 60 products would otherwise square the denominators 60 times.
    This changes representations only; all statements about matrices are up to [meq]. *)
Definition mnorm (m : mat) : mat := mkM (Qred (ma m)) (Qred (mb m)) (Qred (mc m)) (Qred (md m)) (Qred (me m)) (Qred (mf m)).

(** * State *)

(** ContextState: Style, view, coordView, coordSystem *)
Record cstate := mkCS { cst : style; cview : mat; ccoord : mat; csysm : csys }.
(** Context: current path (commands since the last Fill/Stroke/FillStroke), state, stack (top first) *)
Record ctx := mkCtx { ccur : cstate; cpath : ptok; cstack : list cstate }.

Definition init_state : cstate := mkCS default_style mid mid CartI.
Definition init_ctx : ctx := mkCtx init_state [] [].

Definition with_style (c : ctx) (s : style) : ctx :=
  mkCtx (mkCS s (cview (ccur c)) (ccoord (ccur c)) (csysm (ccur c))) (cpath c) (cstack c).
Definition with_view (c : ctx) (v : mat) : ctx :=
  mkCtx (mkCS (cst (ccur c)) v (ccoord (ccur c)) (csysm (ccur c))) (cpath c) (cstack c).
Definition with_coord (c : ctx) (v : mat) : ctx :=
  mkCtx (mkCS (cst (ccur c)) (cview (ccur c)) v (csysm (ccur c))) (cpath c) (cstack c).
Definition with_sys (c : ctx) (s : csys) : ctx :=
  mkCtx (mkCS (cst (ccur c)) (cview (ccur c)) (ccoord (ccur c)) s) (cpath c) (cstack c).
Definition with_path (c : ctx) (p : ptok) : ctx := mkCtx (ccur c) p (cstack c).

(** * Operations: one constructor per public Context call *)
Inductive op :=
  (* style setters *)
  | SetFill (a : paintarg) | SetFillColor (c : Z) | SetFillGradient (g : Z) | SetFillPattern (p : Z)
  | SetStroke (a : paintarg) | SetStrokeColor (c : Z) | SetStrokeGradient (g : Z) | SetStrokePattern (p : Z)
  | SetStrokeWidth (w : Q) | SetStrokeCapper (c : Z) | SetStrokeJoiner (j : Z)
  | SetDashes (off : Q) (d : list Q) | SetFillRule (r : Z) | ResetStyle
  (* view *)
  | SetView (m : mat) | ResetView | ComposeView (m : mat)
  | Translate (x y : Q) | ReflectX | ReflectXAbout (x : Q) | ReflectY | ReflectYAbout (y : Q)
  | Rotate (c s : Q) | RotateAbout (c s x y : Q)
  | Scale (sx sy : Q) | ScaleAbout (sx sy x y : Q) | Shear (sx sy : Q) | ShearAbout (sx sy x y : Q)
  (* stack *)
  | Push | Pop
  (* coordinates *)
  | SetCoordSystem (cs : csys) | SetCoordView (m : mat) | SetCoordRect (r : rect) (w h : Q)
  (* z-index (forwarded to the renderer when it has SetZIndex) *)
  | SetZIndex (z : Z)
  (* current path: MoveTo / LineTo / Close ... append a command *)
  | PathCmd (t : Z * Q * Q)
  (* draws; Fill/Stroke/FillStroke carry Length()/Bounds() of the current path *)
  | Fill (len : Q) (b : rect) | Stroke (len : Q) (b : rect) | FillStroke (len : Q) (b : rect)
  | DrawPath (x y : Q) (ps : list pathin)
  | DrawText (x y : Q) (id : Z) (empty : bool) (b : rect)
  | DrawImage (x y : Q) (id : Z) (wpx hpx : Z) (res : Q)
  (* FitImage(img, rect, fit): fit 0 ImageFill, 1 ImageContain, 2 ImageCover *)
  | FitImage (r : rect) (fit : Z) (id : Z) (wpx hpx : Z).

(** what is handed to the renderer: RenderPath(path, style, m) / RenderText(text, m) / RenderImage(img, m);
    [rb] is the object's own bounds (path.Bounds() / text.Bounds() / image size), used by Canvas.Fit *)
Record rop := mkRop { robj : obj; rst : style; rm : mat; rb : rect }.

(** * CoordSystemView (canvas.go:289-300) *)
Definition csv (W H : Q) (s : csys) : mat :=
  match s with
  | CartI => mid
  | CartII => mreflectx_about mid (W / 2)
  | CartIII => mreflecty_about (mreflectx_about mid (W / 2)) (H / 2)
  | CartIV => mreflecty_about mid (H / 2)
  end.

Definition flipsY (s : csys) : bool := match s with CartIII | CartIV => true | _ => false end.
Definition flipsX (s : csys) : bool := match s with CartII | CartIII => true | _ => false end.

(** c.CoordSystemView().Mul(c.view).Translate(coord.X, coord.Y) with coord = c.coordView.Dot(x,y) *)
Definition base_matrix (W H : Q) (s : cstate) (x y : Q) : mat :=
  let coord := mdot (ccoord s) (x, y) in
  mnorm (mtranslate (mmul (csv W H (csysm s)) (cview s)) (fst coord) (snd coord)).

(** the matrix each view call post-multiplies onto c.view (built from Identity as in canvas.go:338-395) *)
Definition view_op_matrix (o : op) : option mat :=
  match o with
  | ComposeView m => Some m
  | Translate x y => Some (mtranslate mid x y)
  | ReflectX => Some (mreflectx mid)
  | ReflectXAbout x => Some (mreflectx_about mid x)
  | ReflectY => Some (mreflecty mid)
  | ReflectYAbout y => Some (mreflecty_about mid y)
  | Rotate c s => Some (mrotate_cs mid c s)
  | RotateAbout c s x y => Some (mrotate_about_cs mid c s x y)
  | Scale sx sy => Some (mscale mid sx sy)
  | ScaleAbout sx sy x y => Some (mscale_about mid sx sy x y)
  | Shear sx sy => Some (mshear mid sx sy)
  | ShearAbout sx sy x y => Some (mshear_about mid sx sy x y)
  | _ => None
  end.

(** * DrawPath (canvas.go:635-667) *)

(** the loop over paths: every path starts from the context's style [st]; checkDash (with c.Style.DashOffset and
    c.Style.Dashes) decides the dash offset / array handed on and whether the stroke is kept *)
Definition path_style (st : style) (p : pathin) : style :=
  let '(o', d', ok) := check_dash (pi_len p) (sdoff st) (sdashes st) in
  let st1 := set_dashes st o' d' in
  if ok then st1 else set_stroke st1 paint_none.

Definition draw_paths_loop (m : mat) (st : style) (ps : list pathin) : list rop :=
  map (fun p => mkRop (OPath (pi_tok p)) (path_style st p) m (pi_bounds p)) ps.

Definition draw_path (W H : Q) (s : cstate) (x y : Q) (ps : list pathin) : list rop :=
  if negb (has_fill (cst s)) && negb (has_stroke (cst s)) then []
  else draw_paths_loop (base_matrix W H s x y) (cst s) ps.

(** DrawText (canvas.go:670-687) *)
Definition text_matrix (W H : Q) (s : cstate) (x y : Q) : mat :=
  let m := base_matrix W H s x y in
  let m := if flipsY (csysm s) then mreflecty m else m in
  mnorm (if flipsX (csysm s) then mreflectx m else m).

(** DrawImage (canvas.go:690-710) *)
Definition image_matrix (W H : Q) (s : cstate) (x y : Q) (wpx hpx : Z) (res : Q) : mat :=
  let m := mscale (base_matrix W H s x y) (1 / res) (1 / res) in
  let m := if flipsY (csysm s) then mreflecty_about m (inject_Z hpx / 2) else m in
  mnorm (if flipsX (csysm s) then mreflectx_about m (inject_Z wpx / 2) else m).

(** FitImage (canvas.go:572-633): placement (x, y), resolutions and, for ImageCover, the crop (dx, dy) taken off each side
    of the image (int(v + 0.5) of a non-negative v = floor(v + 1/2)) *)
Definition fit_params (r : rect) (fit : Z) (wpx hpx : Z) : Q * Q * Q * Q * Z * Z :=
  let width := inject_Z wpx in let height := inject_Z hpx in
  let xres := width / rW r in let yres := height / rH r in
  if (fit =? 1)%Z then
    if Qlt_le_dec xres yres then (rx0 r + (rW r - width / yres) / 2, ry0 r, yres, yres, 0%Z, 0%Z)
    else (rx0 r, ry0 r + (rH r - height / xres) / 2, xres, xres, 0%Z, 0%Z)
  else if (fit =? 2)%Z then
    if Qlt_le_dec xres yres then
      let dy := Qfloor ((height - rH r * xres) / 2 + (1 # 2)) in
      let dy := if Qle_bool height (inject_Z (2 * dy)) then (dy - 1)%Z else dy in   (* keep at least one row *)
      (rx0 r, ry0 r, xres, (height - inject_Z (2 * dy)) / rH r, 0%Z, dy)
    else
      let dx := Qfloor ((width - rW r * yres) / 2 + (1 # 2)) in
      let dx := if Qle_bool width (inject_Z (2 * dx)) then (dx - 1)%Z else dx in    (* keep at least one column *)
      (rx0 r, ry0 r, (width - inject_Z (2 * dx)) / rW r, yres, dx, 0%Z)
  else (rx0 r, ry0 r, xres, yres, 0%Z, 0%Z).

(** the matrix handed on with the (cropped) image of wc x hc pixels *)
Definition fit_image_matrix (W H : Q) (s : cstate) (x y xres yres : Q) (wc hc : Z) : mat :=
  let m := mscale (base_matrix W H s x y) (1 / xres) (1 / yres) in
  let m := if flipsY (csysm s) then mreflecty_about m (inject_Z hc / 2) else m in
  mnorm (if flipsX (csysm s) then mreflectx_about m (inject_Z wc / 2) else m).

(** * step: new context, what is handed to the renderer (in order), and the z-index forwarded (if any).
    W, H are what Renderer.Size() returns at the time of the call. *)
Definition ctx_step (W H : Q) (c : ctx) (o : op) : ctx * list rop :=
  let s := ccur c in
  let st := cst s in
  match o with
  | SetFill a => (with_style c (set_fill st (paint_of_arg a)), [])
  | SetFillColor col => (with_style c (set_fill st (mkPaint col 0 0)), [])
  | SetFillGradient g => (with_style c (set_fill st (mkPaint 0 g 0)), [])
  | SetFillPattern p => (with_style c (set_fill st (mkPaint 0 0 p)), [])
  | SetStroke a => (with_style c (set_stroke st (paint_of_arg a)), [])
  | SetStrokeColor col => (with_style c (set_stroke st (mkPaint col 0 0)), [])
  | SetStrokeGradient g => (with_style c (set_stroke st (mkPaint 0 g 0)), [])
  | SetStrokePattern p => (with_style c (set_stroke st (mkPaint 0 0 p)), [])
  | SetStrokeWidth w => (with_style c (set_width st w), [])
  | SetStrokeCapper k => (with_style c (set_cap st k), [])
  | SetStrokeJoiner j => (with_style c (set_join st j), [])
  | SetDashes off d => (with_style c (set_dashes st off d), [])
  | SetFillRule r => (with_style c (set_rule st r), [])
  | ResetStyle => (with_style c default_style, [])
  | SetView m => (with_view c m, [])
  | ResetView => (with_view c mid, [])
  | Push => (mkCtx s (cpath c) (s :: cstack c), [])
  | Pop => match cstack c with
           | [] => (c, [])
           | t :: tl => (mkCtx t (cpath c) tl, [])
           end
  | SetCoordSystem cs => (with_sys c cs, [])
  | SetCoordView m => (with_coord c m, [])
  | SetCoordRect r w h => (with_coord c (mnorm (mscale (mtranslate mid (rx0 r) (ry0 r)) (rW r / w) (rH r / h))), [])
  | SetZIndex _ => (c, [])
  | PathCmd t => (with_path c (cpath c ++ [t]), [])
  | Fill len b =>
      (with_path c [], draw_path W H (mkCS (set_stroke st paint_none) (cview s) (ccoord s) (csysm s)) 0 0 [mkPI (cpath c) len b])
  | Stroke len b =>
      (with_path c [], draw_path W H (mkCS (set_fill st paint_none) (cview s) (ccoord s) (csysm s)) 0 0 [mkPI (cpath c) len b])
  | FillStroke len b => (with_path c [], draw_path W H s 0 0 [mkPI (cpath c) len b])
  | DrawPath x y ps => (c, draw_path W H s x y ps)
  | DrawText x y id empty b =>
      (c, if empty then [] else [mkRop (OText id) default_style (text_matrix W H s x y) b])
  | DrawImage x y id wpx hpx res =>
      (c, if (wpx =? 0)%Z && (hpx =? 0)%Z then []
          else [mkRop (OImage id wpx hpx) default_style (image_matrix W H s x y wpx hpx res)
                      (mkR 0 0 (inject_Z wpx) (inject_Z hpx))])
  | FitImage r fit id wpx hpx =>
      (* img.Bounds().Size().Eq(image.Point{}) || rect.Empty() *)
      (c, if ((wpx =? 0)%Z && (hpx =? 0)%Z) || qequal (rW r) 0 || qequal (rH r) 0 then []
          else let '(x, y, xres, yres, dx, dy) := fit_params r fit wpx hpx in
               let wc := (wpx - 2 * dx)%Z in let hc := (hpx - 2 * dy)%Z in
               [mkRop (OImage id wc hc) default_style (fit_image_matrix W H s x y xres yres wc hc)
                      (mkR 0 0 (inject_Z wc) (inject_Z hc))])
  | _ => match view_op_matrix o with
         | Some q => (with_view c (mnorm (mmul (cview s) q)), [])
         | None => (c, [])
         end
  end.

(** a Context wrapped directly around a renderer of fixed size: everything handed to the renderer, in order *)
Fixpoint ctx_run (W H : Q) (c : ctx) (ops : list op) : ctx * list rop :=
  match ops with
  | [] => (c, [])
  | o :: tl => let '(c1, out1) := ctx_step W H c o in
               let '(c2, out2) := ctx_run W H c1 tl in (c2, out1 ++ out2)
  end.

Definition is_stack_op (o : op) : bool := match o with Push | Pop => true | _ => false end.
Definition is_setter (o : op) : bool :=
  match o with
  | SetFill _ | SetFillColor _ | SetFillGradient _ | SetFillPattern _ | SetStroke _ | SetStrokeColor _
  | SetStrokeGradient _ | SetStrokePattern _ | SetStrokeWidth _ | SetStrokeCapper _ | SetStrokeJoiner _
  | SetDashes _ _ | SetFillRule _ | ResetStyle => true
  | _ => false
  end.

#!/bin/sh
# usage: coqgoal.sh <file.v relative to coq/> <line>   — show the proof state just before <line>
cd /verif/coq
f=$1; n=$2
tmp=$(mktemp -d)
head -n $((n-1)) "$f" > $tmp/G.v
echo "Show. " >> $tmp/G.v
coqc -Q theories CV $tmp/G.v 2>&1 | grep -v "^Error\|Syntax\|There are pending" | tail -${3:-40}
rm -rf $tmp

#!/usr/bin/env python3
"""usage: lib/mutant.py <patch.diff> <Cxx> [<Cyy> ...]  — apply a seeded change to /repo, run the quick checks, undo it.
Prints for each check whether a VIOLATION was reported. Never leaves /repo modified."""
import subprocess, sys, os
patch = os.path.abspath(sys.argv[1])
checks = sys.argv[2:]
st = subprocess.run(["git", "-C", "/repo", "status", "--porcelain", "--untracked-files=no"], capture_output=True, text=True).stdout.strip()
if st:
    sys.exit("/repo is not clean: " + st)
r = subprocess.run(["git", "-C", "/repo", "apply", "--3way", patch], capture_output=True, text=True)
if r.returncode != 0:
    r = subprocess.run(["git", "-C", "/repo", "apply", patch], capture_output=True, text=True)
if r.returncode != 0:
    sys.exit("patch does not apply: " + r.stderr)
try:
    for c in checks:
        p = subprocess.run(["./check", c, "--tier", os.environ.get("TIER", "quick")], cwd="/verif", capture_output=True, text=True)
        viol = [l for l in p.stdout.split("\n") if l.startswith("VIOLATION")]
        print("%s: exit=%d violations=%d %s" % (c, p.returncode, len(viol), (viol[0][:220] if viol else p.stdout.strip().split("\n")[-1][:160])))
finally:
    subprocess.run(["git", "-C", "/repo", "reset", "-q", "--hard", "HEAD"], check=True)
    subprocess.run(["git", "-C", "/repo", "status", "--short", "--untracked-files=no"])

(** C06 — Containment and winding queries agree with the path's winding number.
    Property theorems only; each is closed by [exact] of a lemma proved elsewhere. *)
From Coq Require Import ZArith List Bool.
From CV Require Import Geom.Winding Geom.WindingProofs Geom.WindingSym.
Import ListNotations.
Open Scope Z_scope.

(** For every polygonal path (any number of closed contours, any orientation, self-intersecting, with
    horizontal edges, shared vertices, duplicated contours) and every query point that lies on no edge —
    including points level with vertices and with horizontal edges — the faithful model of Path.Windings
    returns (winding number, boundary = false). *)
Theorem C06_windings_correct : forall P x y,
  on_boundary P (x, y) = false ->
  path_windings P x y 0 false = Some (wn P (x, y), false).
Proof. exact windings_correct. Qed.
Print Assumptions C06_windings_correct.

(** Contains(x,y,rule) = rule.Fills(winding number) for every point off the boundary. *)
Theorem C06_contains_correct : forall P x y rule,
  on_boundary P (x, y) = false ->
  contains_go P x y rule = Some (fills rule (wn P (x, y))).
Proof. exact contains_correct. Qed.
Print Assumptions C06_contains_correct.

(** Points on the boundary are reported as boundary (contours without zero-length edges, which is what the
    path builder produces). *)
Theorem C06_boundary_reported : forall P x y,
  Forall (fun c => no_zero_edges (edges c)) P -> on_boundary P (x, y) = true ->
  exists m, path_windings P x y 0 false = Some (m, true).
Proof. exact windings_boundary. Qed.
Print Assumptions C06_boundary_reported.

(** The spec is invariant under translation, and reversing an edge negates its contribution. *)
Theorem C06_edge_translate : forall p a b dx dy_,
  edge_w (fst p + dx, snd p + dy_) (fst a + dx, snd a + dy_) (fst b + dx, snd b + dy_) = edge_w p a b.
Proof. exact edge_w_translate. Qed.
Print Assumptions C06_edge_translate.

Theorem C06_edge_reverse : forall p a b, snd p <> snd a -> snd p <> snd b -> edge_w p b a = - edge_w p a b.
Proof. exact edge_w_reverse. Qed.
Print Assumptions C06_edge_reverse.

(** the specification is translation invariant for WHOLE paths (any number of contours): moving the path and
    the query point together leaves the winding number unchanged *)
Theorem C06_wn_translate : forall dx dy_ P p, wn (map (map (tr dx dy_)) P) (tr dx dy_ p) = wn P p.
Proof. exact wn_translate. Qed.
Print Assumptions C06_wn_translate.

"""C05 — dashing cuts the path by arc length according to the pattern."""
import json, os
import vlib

META = dict(
    level="proof",
    technique="Coq proof over an exact rational model of dashCanonical/dashStart/the Dash cut loop/piece selection/checkDash + "
              "exact differential run of the Go code against the model (K1) and certified acceptance of Path.Dash's output on "
              "polylines with rational segment lengths (K2), both evaluated inside Coq by vm_compute",
    level_text="Theorems (Coq, closed under the global context): for every dash array on a grid coarser than Epsilon and every "
               "offset (negative, beyond the period) the faithful model of Dash keeps exactly the arc positions s with "
               "on(pattern, offset, s) (cyclic, odd patterns doubled, offset-shifted) up to the explicit Epsilon cut at the end of "
               "the subpath; canonicalisation preserves on; degenerate patterns; checkDash/DrawPath agrees with Dash; closed-path "
               "join rule. The model is tied to the Go code on every run by exact equality on dash arrays x offsets x lengths and "
               "Path.Dash's output on straight-line paths is judged against the specification with certificates re-checked in Coq.",
    level_note="Trusted: Coq kernel + vm_compute; the hand-written model is tied by differential testing (dyadic grid inputs), "
               "not by a proof about Go source. SplitAt's arc-length inversion on Beziers/arcs is not modelled (C09): Dash on curved paths "
               "(K3 one Bezier, K4 one elliptical arc, K5 curves followed by a line) is checked per output against enclosures, not proved.",
    harness=["c05"],
)

HEADER = ("From Coq Require Import ZArith QArith List Bool.\nFrom CV Require Import Base.Dy Dash.DashPhase Split.Cert Corr.C09 Corr.C05.\n"
          "Import ListNotations.\nOpen Scope Q_scope.\n")

K1_FLAGS = {1: "tie:dashCanonical", 2: "tie:dashStart", 4: "tie:checkDash(DrawPath decision)",
            8: "prop:dashStart-phase-wrong", 16: "prop:canonical-pattern-draws-differently",
            32: "prop:DrawPath-decision-differs-from-Dash", 64: "prop:second-path-of-DrawPath-decided-differently",
            128: "prop:caller-dash-array-modified", 256: "prop:panic"}
K1_PROP = 8 | 16 | 32 | 64 | 128 | 256
K1_TIE = 1 | 2 | 4
K2_FLAGS = {1: "tie:Dash-cuts-vs-model", 2: "prop:cut-positions-differ-from-pattern", 4: "prop:piece-not-on-path",
            8: "prop:piece-not-the-subpolyline/out-of-order", 16: "prop:subpaths-not-independent", 32: "prop:panic",
            64: "oracle-selfcheck(drawn_intervals vs on)", 128: "harness:bad-lengths"}
K2_PROP = 2 | 4 | 8 | 16 | 32
K2_TIE = 1 | 64 | 128
K3_FLAGS = {1: "prop:curved-piece-not-a-subcurve", 2: "prop:curved-pieces-out-of-order", 4: "prop:curved-piece-count-differs",
            8: "prop:curved-cut-not-at-prescribed-arc-length(enclosure+-1%)", 32: "prop:panic"}
K3_PROP = 1 | 2 | 4 | 8 | 32
K4_FLAGS = {1: "tie:generated-arc-inconsistent", 2: "prop:arc-dash-not-on-the-same-ellipse/direction", 4: "prop:arc-dashes-out-of-order",
            8: "prop:arc-dash-length-differs-from-pattern(+-2%)", 16: "prop:arc-dash-large-flag-contradicts-its-end-points", 32: "prop:arc-dash-count-differs", 64: "prop:panic"}
K4_PROP = 2 | 4 | 8 | 16 | 32 | 64
K5_FLAGS = {1: "prop:pattern-boundary-on-the-line-after-curves-not-cut-at-its-arc-length", 2: "prop:line-after-curves-cut-where-no-boundary-falls",
            4: "tie:go-length-outside-enclosure", 32: "prop:panic"}
K5_PROP = 1 | 2 | 32
K6_FLAGS = {1: "prop:arc-inside-the-last-dash-not-returned-exactly-once", 2: "prop:arc-inside-the-last-dash-returned-as-another-arc", 32: "prop:panic"}
K6_PROP = 1 | 2 | 32
KNOWN_PANIC = "theta not in elliptic arc range for splitting"   # recorded under C10/C13


def run(ctx):
    pr, obligations, discharged = vlib.proof_stage(ctx, ["theories/Corr/C05.vo", "theories/Dash/DashExamples.vo"])
    if pr["broken"] or not pr["ok"]:
        ctx.violation(dict(kind="proof-obligation-broken", theorem_or_file=pr["broken"], bad_axioms=pr["bad_axioms"], log=pr["log"][-2000:]),
                      "proof obligation no longer checks: %s" % (pr["broken"] or pr["bad_axioms"]), found_input=False)
    ncases = ctx.n(4000, 50000)
    args = ["-seed", str(ctx.seed), "-n", str(ncases)]
    if ctx.replay:
        rp = json.load(open(ctx.replay))
        args = ["-seed", str(rp.get("seed", ctx.seed)), "-n", str(rp.get("index", 0) + 1), "-only", str(rp.get("index", 0))]
    rc, cases, err = vlib.harness_cases("c05", args)
    if rc != 0:
        raise vlib.BuildError("harness c05 exited %d: %s" % (rc, err[-2000:]))
    rows = vlib.coq_eval_shards("c05-%d" % ctx.seed, HEADER, [c["coq"] for c in cases], shard=ctx.n(80, 400))
    flagcount, classes = {}, {}
    prop_fail, tie_fail = [], []
    nk1 = nk2 = nsub = nk3 = nk3pieces = nk4 = nk4pieces = nk5 = nk5cuts = nk6 = 0
    nontrivial = set()
    distinct = set()
    for c, row in zip(cases, rows):
        k1 = c["desc"]["kind"] == "K1"
        k3 = c["desc"]["kind"] == "K3"
        k4 = c["desc"]["kind"] == "K4"
        k5 = c["desc"]["kind"] == "K5"
        k6 = c["desc"]["kind"] == "K6"
        names, pm, tm = (K6_FLAGS, K6_PROP, 0) if k6 else (K5_FLAGS, K5_PROP, 4) if k5 else (K1_FLAGS, K1_PROP, K1_TIE) if k1 else ((K3_FLAGS, K3_PROP, 0) if k3 else ((K4_FLAGS, K4_PROP, 1) if k4 else (K2_FLAGS, K2_PROP, K2_TIE)))
        key = json.dumps([c["desc"].get("path"), c["desc"]["offset"], c["desc"]["dashes"]])
        distinct.add(key)
        fl = 0
        for k in range(len(row) // 3):
            f, a, b = row[3 * k], row[3 * k + 1], row[3 * k + 2]
            fl |= f
            if k6:
                nk6 += 1
                if a >= 1:
                    nontrivial.add(key)
            elif k5:
                nk5 += 1
                nk5cuts += b
                if b >= 1:
                    nontrivial.add(key)
            elif k4:
                nk4 += 1
                nk4pieces += a
                if a >= 2:
                    nontrivial.add(key)
            elif k3:
                nk3 += 1
                nk3pieces += a
                if a >= 2:
                    nontrivial.add(key)
            elif k1:
                classes[a] = classes.get(a, 0) + 1
                if a == 3:
                    nontrivial.add(key)
            else:
                nsub += 1
                if a >= 2:
                    nontrivial.add(key)
                if b:
                    classes["k2-joined"] = classes.get("k2-joined", 0) + 1
        if k1:
            nk1 += 1
        elif not k3 and not k4 and not k5 and not k6:
            nk2 += 1
        for b, name in names.items():
            if fl & b:
                flagcount[name] = flagcount.get(name, 0) + 1
        if fl & pm:
            prop_fail.append((c, fl, names, pm))
        elif fl & tm:
            tie_fail.append((c, fl, names, tm))

    def describe(c, fl, names):
        d = dict(seed=ctx.seed, index=c["i"], family=c["fam"], flags=[n for b, n in names.items() if fl & b])
        d.update({("case_kind" if k == "kind" else k): v for k, v in c["desc"].items()})
        return d

    def size(t):
        c = t[0]
        return (len(c["desc"]["dashes"] or []), len(c["desc"].get("path", "")), abs(c["desc"]["offset"]))

    # known findings (known_findings.json): exact triggers only
    known = {f["key"]: f for f in vlib.known_findings("C05") if f.get("status") == "open"}
    kkey = "arclength-inversion-accuracy-beyond-one-percent"
    rest, nknown, worst = [], 0, (None, 0)
    nknown_arc, worst_arc = 0, (None, 0)
    for t in prop_fail:
        c, fl, names, pm = t
        row = rows[cases.index(c)]
        # accuracy only: every piece is a certified sub-curve of the input, pieces in order, count as prescribed (flags 1, 2, 4 clear),
        # and the worst cut is at most 40/1000 of the path length outside the enclosure of its prescribed position
        if ("arc-dash-arclength-accuracy" in known and c["desc"]["kind"] == "K4" and (fl & pm) in (8, 32) and 0 <= row[2] <= 60
                and ((fl & pm) == 8 or abs(row[1] - c["desc"].get("spec_dashes", -10**9)) <= max(1, c["desc"].get("spec_dashes", 0) // 20))):
            # accuracy only on an arc: right number of dashes, each an arc of the same ellipse, in order, flags consistent
            nknown_arc += 1
            if row[2] >= worst_arc[1]:
                worst_arc = (c, row[2])
        elif kkey in known and c["desc"]["kind"] == "K3" and fl & pm == 8 and 0 <= row[2] <= 40:
            nknown += 1
            if row[2] >= worst[1]:
                worst = (c, row[2])
        else:
            rest.append(t)
    if nknown:
        c = worst[0]
        ctx.known_finding("%s (%d cases this run; worst: a cut %d/1000 of the path length from its prescribed arc length on %s offset=%s dashes=%s)" % (
            known[kkey]["what"], nknown, worst[1], c["desc"].get("path"), c["desc"]["offset"], c["desc"]["dashes"]))
    if nknown_arc:
        c = worst_arc[0]
        ctx.known_finding("%s (%d cases this run; worst: a dash %d/1000 of the path length off its prescribed length on %s offset=%s dashes=%s)" % (
            known["arc-dash-arclength-accuracy"]["what"], nknown_arc, worst_arc[1], c["desc"].get("path"), c["desc"]["offset"], c["desc"]["dashes"]))
    prop_fail = rest
    # one violation per distinct set of property flags, smallest input first
    prop_fail.sort(key=size)
    seen = set()
    for c, fl, names, pm in prop_fail:
        sig = (c["desc"]["kind"], fl & pm)
        if sig in seen or len(seen) >= 6:
            continue
        seen.add(sig)
        dsc = describe(c, fl, names)
        ctx.violation(dict(kind="property-fails-on-implementation", **dsc),
                      "%s: offset=%s dashes=%s on %s" % (",".join(f for f in dsc["flags"] if f.startswith("prop")), c["desc"]["offset"], c["desc"]["dashes"], c["desc"].get("path")))
    if not prop_fail and tie_fail:
        tie_fail.sort(key=size)
        c, fl, names, tm = tie_fail[0]
        ctx.violation(dict(kind="correspondence-broken", correspondence="Corr.C05.judge (model of dashCanonical/dashStart/checkDash/Dash cuts vs Go)",
                           searched="%d cases judged against the specification (on / drawn_intervals): none violates the property" % len(cases),
                           **describe(c, fl, names)), "model/implementation disagree", found_input=False)
    fams = vlib.histogram([":".join(c["fam"].split(":")[:2]) for c in cases])
    offs = vlib.histogram([c["fam"].split(":")[-1] for c in cases])
    cov = dict(
        obligations=obligations, discharged=discharged,
        checker_cmd="make -C coq theories/Props/C05.vo (coqc 8.16.1, full .vo) ; coqc on generated cases files (vm_compute)",
        trusted_base=vlib.trusted_base(pr, ["correspondence harness harness/cmd/c05 (Go): generators, exact dyadic exchange of floats, big.Rat certificates (re-checked by the Coq judge)",
                                            "model written by hand: Dash/DashPhase.v (tied by the differential run below, not proved against Go source)",
                                            "Path.SplitAt / Path.Length / Path.Join are not modelled: their effect is judged on Dash's output (K2, straight-line paths only)"]),
        evaluations=len(cases), distinct_nontrivial=len(nontrivial), distinct=len(distinct),
        rule="one evaluation = one (path, offset, dash array) run through the Go code (dashCanonical, dashStart, Context.DrawPath's decision, Path.Dash) and through the Coq model and spec; distinct by (path, offset, dash array); non-trivial: the model makes at least one cut (K1 class 3) or the specification prescribes at least two pieces on some subpath (K2)",
        k1_cases=nk1, k2_cases=nk2, k2_subpaths=nsub, k3_curved_cases=nk3, k3_curved_pieces_certified=nk3pieces, k4_arc_cases=nk4, k5_curves_then_line_cases=nk5, k5_pattern_boundaries_on_line_judged=nk5cuts, k4_arc_dashes_judged=nk4pieces, known_finding_cases=nknown,
        traces_validated_against_impl=len(cases), disagreements_checked=len(prop_fail) + len(tie_fail),
        k1_classes={"identity": classes.get(0, 0), "nothing": classes.get(1, 0), "first-element-covers": classes.get(2, 0), "cuts": classes.get(3, 0), "fuel": classes.get(9, 0)},
        k2_closed_subpaths_joined=classes.get("k2-joined", 0),
        families=fams, offset_classes=offs, flag_counts=flagcount,
        theorems=pr["theorems"], assumptions_per_theorem=pr["assumptions"],
        samples=[dict(offset=c["desc"]["offset"], dashes=c["desc"]["dashes"], path=c["desc"].get("path"), go=c["desc"]["go"]) for c in cases[:4]],
    )
    return ctx.finish("proof", cov, [
        "dash arrays, offsets and coordinates on the 1/4 mm grid (coarser than Epsilon) so that every Epsilon comparison in the Go code is decided as in the exact model",
        "curved segments: K3 covers one open quadratic / convex cubic Bezier per case (certified sub-curves; every cut's arc-length position vs the pattern within enclosure +-1 % of the path length: checked, not proved); K4 covers one elliptical arc per case (dashes judged against the ellipse by orientation predicates, lengths through Go's own Length of each dash); K5 covers one or two Bezier segments followed by a long line (arc length consumed by uncut curves carried over to the cuts on the line); cusps/loops/inflections (C09 known finding) are not covered",
        "K2 slack 2^-30 mm on point positions (float rounding of Interpolate/Length)"])

(** Semantics of the PDF path construction operators emitted by Path.ToPDF: [x y m], [x y l],
    [x1 y1 x2 y2 x3 y3 c], [h] (PDF 32000-1 table 59).  Operands are pushed, operators pop them. *)
From Coq Require Import ZArith QArith List Bool.
From CV Require Import PathEnc.Enc Formats.Decimal Formats.Geo.
Import ListNotations.
Open Scope Q_scope.

Definition w_m : list Z := [109]%Z.
Definition w_l : list Z := [108]%Z.
Definition w_c : list Z := [99]%Z.
Definition w_h : list Z := [104]%Z.
Definition weqb (a b : list Z) : bool := (length a =? length b)%nat && forallb (fun '(x, y) => (x =? y)%Z) (combine a b).

(** [stack] holds the operands last-pushed-first *)
Fixpoint pdf_run (ts : list tok) (stack : list Q) (cur start : pt) : option (list gp) :=
  match ts with
  | [] => match stack with [] => Some [] | _ => None end
  | TNum v :: r => pdf_run r (v :: stack) cur start
  | TBad :: _ => None
  | TWord w :: r =>
    if weqb w w_m then
      match stack with [y; x] => option_map (cons (GMove (x, y))) (pdf_run r [] (x, y) (x, y)) | _ => None end
    else if weqb w w_l then
      match stack with [y; x] => option_map (cons (GLine cur (x, y))) (pdf_run r [] (x, y) start) | _ => None end
    else if weqb w w_c then
      match stack with
      | [y3; x3; y2; x2; y1; x1] => option_map (cons (GCube cur (x1, y1) (x2, y2) (x3, y3))) (pdf_run r [] (x3, y3) start)
      | _ => None end
    else if weqb w w_h then
      match stack with [] => option_map (cons (GClose cur start)) (pdf_run r [] start start) | _ => None end
    else None
  end.

Definition pdf_sem (b : list Z) : option (list gp) := pdf_run (tokens b) [] (0, 0) (0, 0).

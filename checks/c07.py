"""C07 — affine transformation of a path transforms every point of it; Matrix algebra."""
import json, os
import vlib

META = dict(
    level="proof",
    technique="Coq proofs over Q (matrix algebra, Bézier affine invariance for all t, conic transport and sweep/orientation "
              "theorem for arcs) + go/ast translator regenerating the Matrix methods from util.go with bridging lemmas re-proved "
              "on every run + exact differential run of every Matrix method (K1) + verified acceptance check of Path.Transform (K2)",
    level_text="Theorems (Coq, closed under the global context): Mul composes right-to-left, Dot applies, Inv is a two-sided inverse "
               "exactly when det != 0, T/Det laws, each helper acts as documented and each *About fixes its centre; for every "
               "matrix m, every control polygon of 2-4 points and EVERY parameter t, B(map (Dot m) ctrl) t = Dot m (B ctrl t); for "
               "every invertible m a point X lies on an elliptical arc (centre, quadratic form, start, end, sweep) iff m X lies on "
               "the arc with mapped centre/start/end, transported form m^-T Q m^-1 and the sweep flipped exactly when det m < 0; "
               "Decompose recomposes to m in relational form. The Matrix methods are regenerated from the current util.go by a "
               "translator and proved equal to the model on every run; every method is also run on dyadic inputs against the model; "
               "Path.Transform's output on generated paths is accepted by a checker whose acceptance is the hypothesis of the "
               "theorems (control points = m.ctrl; arc centre/form/flags = transported ones, plus rational sample points).",
    level_note="Trusted: Coq kernel + vm_compute, the translator's rendering of the loop-free subset, the harness. Rotation "
               "angles, Eigen/Sqrt/Atan2 inside Transform's arc arm are not modelled: their results are judged (transported conic "
               "within 2^-20 relative, samples) on generated inputs only. ToSVG's text is parsed by the harness and interpreted by the "
               "SVG transform-list semantics in the judge (8 printed decimals: slack 2^-20).",
    harness=["translator", "c07"],
)

HEADER = ("From Coq Require Import ZArith QArith List Bool.\nFrom CV Require Import Base.Dy Geom.Matrix Geom.Ellipse Corr.C07.\n"
          "Import ListNotations.\nOpen Scope Q_scope.\n")

FLAGS = {1: "prop:Matrix-method-disobeys-the-documented-algebra(model)", 2: "tie:Inv-or-input-arc-centre", 4: "prop:control-point!=m.ctrl", 8: "prop:arc-endpoint!=m.end",
         16: "prop:arc-flags(sweep/large)", 32: "prop:arc-conic/centre!=transported", 64: "prop:arc-sample-off-output-arc",
         128: "prop:panic", 256: "prop:Inv-not-inverse", 512: "prop:Decompose-does-not-recompose", 1024: "rel:cos/sin-relation",
         2048: "gen:inconsistent-generator-arc", 4096: "prop:command-structure-changed-or-non-finite-arc",
         8192: "prop:non-finite-radius-for-image-ellipse-with-eigenvalue-ratio<=2^-33",
         16384: "prop:ToSVG-text-denotes-a-different-transformation",
         32768: "prop:ToSVG-list-form-drops-translate(0,h)-for-a-matrix-without-translation"}
# flag 1: for the loop-free Matrix methods the model IS the documented algebra (matrix product, application, transpose,
# determinant, elementary matrices), so a disagreement of the Go result is a violation of the property itself
PROP_MASK = 1 | 4 | 8 | 16 | 32 | 64 | 128 | 256 | 512 | 4096 | 8192 | 16384 | 32768
TIE_MASK = 2 | 1024 | 2048


def prepare():
    """setup: regenerate Gen/*.v from the current source (translator) so that a fresh checkout builds"""
    ok, log = vlib.run_translator()
    if not ok:
        raise vlib.BuildError("translator failed on the current source:\n" + log[-2000:])


def local_findings():
    """entries proposed by this check for known_findings.json (design/C07.findings.json) until the lead merges them"""
    p = os.path.join(vlib.ROOT, "design", "C07.findings.json")
    return json.load(open(p))["findings"] if os.path.exists(p) else []


def sizes(ctx):
    return dict(n=ctx.n(1200, 15000), paths=ctx.n(250, 3000), per=6)


def run_cases(ctx, seed, sz, only=None):
    args = ["-seed", str(seed), "-n", str(sz["n"]), "-paths", str(sz["paths"]), "-per", str(sz["per"])]
    if only is not None:
        args += ["-only", str(only)]
    rc, cases, err = vlib.harness_cases("c07", args)
    if rc != 0:
        raise vlib.BuildError("harness c07 exited %d: %s" % (rc, err[-2000:]))
    rows = vlib.coq_eval_shards("c07-%d" % seed, HEADER, [c["coq"] for c in cases], shard=40)
    return cases, rows


def describe(ctx, c, fl, seed, sz):
    return dict(seed=seed, index=c["i"], sizes=sz, family=c["fam"], input=c["desc"],
                flags=[n for b, n in FLAGS.items() if fl & b])


def run(ctx):
    broken = []
    ok_tr, trlog = vlib.run_translator()
    if not ok_tr:
        broken.append("translator: " + trlog.strip()[-600:])
    pr, obligations, discharged = vlib.proof_stage(ctx, ["theories/Corr/C07.vo"])
    if pr["broken"] or not pr["ok"]:
        broken.append("proof obligation no longer checks: %s" % (pr["broken"] or pr["bad_axioms"]))
        ok, log = vlib.coq_make(["theories/Corr/C07.vo"])     # the judge does not depend on Gen/
        if not ok:
            raise vlib.BuildError("Corr/C07.v does not build:\n" + log[-3000:])
    sz = sizes(ctx)
    seed = ctx.seed
    only = None
    if ctx.replay:
        rp = json.load(open(ctx.replay))
        seed, only, sz = rp.get("seed", seed), rp.get("index"), rp.get("sizes", sz)
    cases, rows = run_cases(ctx, seed, sz, only)
    extra_searched = 0
    known = vlib.known_findings("C07")
    known += [f for f in local_findings() if f["key"] not in {k["key"] for k in known}]

    def classify(cases, rows):
        pf, tf = [], []
        for c, row in zip(cases, rows):
            fl = row[0]
            if fl & PROP_MASK:
                pf.append((c, fl))
            elif fl & TIE_MASK:
                tf.append((c, fl))
        return pf, tf

    prop_fail, tie_fail = classify(cases, rows)
    search_seed = None
    if (broken or tie_fail) and not prop_fail and not ctx.replay:
        # search phase: a larger generated set, looking for an input on which the property itself fails
        search_seed = seed + 1000
        sz2 = dict(n=sz["n"] * 2, paths=sz["paths"] * 3, per=sz["per"])
        c2, r2 = run_cases(ctx, search_seed, sz2)
        extra_searched = len(c2)
        pf2, _ = classify(c2, r2)
        prop_fail = [(c, fl) for c, fl in pf2]
        if prop_fail:
            seed, sz = search_seed, sz2

    def matches_known(c, fl):
        for f in known:
            if f.get("status") == "open" and f.get("flagmask", 0) and (fl & PROP_MASK) & ~f["flagmask"] == 0:
                fam = f.get("family_contains")
                if fam is None or fam in c["fam"]:
                    return f
        return None

    flagcount, nontrivial, distinct = {}, set(), set()
    inner = 0
    for c, row in zip(cases, rows):
        for b, name in FLAGS.items():
            if row[0] & b:
                flagcount[name] = flagcount.get(name, 0) + 1
        key = json.dumps(c["desc"], sort_keys=True)
        distinct.add(key)
        if row[2] > 0:
            nontrivial.add(key)
        inner += row[2]

    reported = set()
    new_prop = []
    for c, fl in prop_fail:
        f = matches_known(c, fl)
        if f:
            if f["key"] not in reported:
                reported.add(f["key"])
                d = c["desc"]
                eg = ("%s under %s" % (d.get("path"), d.get("matrix"))) if "path" in d else ("m = %s, h = %s -> %r" % (d.get("a"), d.get("h"), d.get("tosvg")))
                ctx.known_finding("%s (e.g. %s)" % (f["what"], eg))
        else:
            new_prop.append((c, fl))
    new_prop.sort(key=lambda t: len(json.dumps(t[0]["desc"])))
    for c, fl in new_prop[:3]:
        d = describe(ctx, c, fl, seed, sz)
        ctx.violation(dict(kind="property-fails-on-implementation", broken_obligations=broken, **d),
                      "%s on %s" % (",".join(d["flags"]), json.dumps(c["desc"])[:300]))
    if not new_prop and (broken or tie_fail):
        extra = {}
        if tie_fail:
            tie_fail.sort(key=lambda t: len(json.dumps(t[0]["desc"])))
            extra = describe(ctx, tie_fail[0][0], tie_fail[0][1], seed, sz)
        ctx.violation(dict(kind="obligation-or-correspondence-broken", broken_obligations=broken,
                           correspondence="Corr.C07.judge (model of the Matrix methods vs Go; Gen/MatrixGen.v = Geom/Matrix.v)",
                           searched="%d cases (+%d in the search phase) judged against the specification: none violates the property" % (len(cases), extra_searched),
                           log=(trlog[-1500:] + "\n" + pr["log"][-2500:]) if broken else "", **extra),
                      "; ".join(broken)[:400] if broken else "model/implementation disagree", found_input=False)

    fams = vlib.histogram([c["fam"] for c in cases])
    kinds = vlib.histogram([c["fam"].split(":")[0] for c in cases])
    mfams = vlib.histogram([c["fam"].split("|")[1] for c in cases if "|" in c["fam"]])
    gen_samples = []
    try:
        g = open(os.path.join(vlib.THEORIES, "Gen", "MatrixGen.v")).read()
        gen_samples = [l for l in g.split("\n") if l.startswith("Definition g_Inv") or l.startswith("Definition g_Mul")]
    except OSError:
        pass
    cov = dict(
        obligations=obligations, discharged=discharged,
        checker_cmd="harness/cmd/translator -> coq/theories/Gen/MatrixGen.v ; make -C coq theories/Props/C07.vo (coqc 8.16.1, full .vo) ; "
                    "coqc on generated cases files (Corr.C07.judge under vm_compute)",
        trusted_base=vlib.trusted_base(pr, [
            "translator harness/cmd/translator (go/ast): rendering of the loop-free Matrix methods of util.go into Gallina; its output is bridged to the model by lemmas re-proved on every run",
            "correspondence harness harness/cmd/c07 (Go): generators, exact (mantissa, exponent) exchange of every binary64 value, hook VerifC07EllipseToCenter",
            "relational inputs supplied by the Go side and constrained by the judge: cos/sin of Rotate's angle and of the output arc's phi (c^2+s^2 = 1 within 2^-40), arc centres derived by ellipseToCenter (end points must lie on the conic around them)",
            "explicit slacks: 2^-40 relative to the sum of |terms| for inexact Matrix methods and mapped points; 2^-20 relative for the transported conic coefficients, centre and sample membership of arcs; 2^-30 for Inv/Decompose recomposition"]),
        evaluations=len(cases), distinct=len(distinct), distinct_nontrivial=len(nontrivial),
        rule="one evaluation = one K1 matrix case (18 method results of the Go code compared with the model, Inv, Decompose, ToSVG) or one (path, matrix) pair through "
             "Path.Transform judged by Corr.C07.judge; distinct by the printed input; non-trivial: the judge certified at least one inner obligation "
             "(a control point equal to m.ctrl, or a decisive arc sample)",
        inner_obligations_certified=inner,
        translator_ok=ok_tr, search_phase_cases=extra_searched,
        case_kinds=kinds, families=fams, matrix_families=mfams, flag_counts=flagcount,
        theorems=pr["theorems"], assumptions_per_theorem=pr["assumptions"],
        generated_definitions_sample=gen_samples,
        samples=[dict(fam=c["fam"], input=c["desc"]) for c in (cases[:1] + cases[-2:])],
    )
    return ctx.finish("proof", cov, [
        "coordinates and matrices on dyadic grids; 'exact' families are chosen so that every binary64 operation of the compared method is exact",
        "arcs have rational centre / rotation / end points (Pythagorean triples); the angle phi handed to the code is the binary64 rounding of the exact angle",
        "Equal(det, 0) is modelled as det == 0: matrices with 0 < |det| <= 1e-10 are not generated (smallest |det| generated: 2^-20)",
        "ToSVG is judged for page heights 0, 10 and 297; rotate() items carry the binary64 cos/sin of the printed angle"])

(** walkers_total: on every encoded path the raw forward walker ends exactly at len(d) and the raw backward
    walker exactly at 0, each after one step per record, with every read inside the slice. *)
From Coq Require Import ZArith QArith List Bool Lia.
From CV Require Import PathEnc.Enc PathEnc.EncProofs PathEnc.Scanner.
Import ListNotations.

Lemma enc_seg_length : forall s, length (enc_seg s) = reclen (seg_cmd s).
Proof. destruct s as [[x y]|[x y]|[cx cy] [x y]|[ax ay] [bx by_] [x y]|rx ry phi fl [x y]|[x y]]; reflexivity. Qed.

Lemma reclen_ge4 : forall c, (4 <= reclen c)%nat.
Proof. destruct c; cbn; lia. Qed.

Lemma enc_seg_head : forall s, exists tl, enc_seg s = cmdval (seg_cmd s) :: tl.
Proof. destruct s as [[x y]|[x y]|[cx cy] [x y]|[ax ay] [bx by_] [x y]|rx ry phi fl [x y]|[x y]]; eexists; reflexivity. Qed.

Lemma enc_seg_last : forall s, exists l, enc_seg s = l ++ [cmdval (seg_cmd s)].
Proof.
  destruct s as [[x y]|[x y]|[cx cy] [x y]|[ax ay] [bx by_] [x y]|rx ry phi fl [x y]|[x y]].
  - exists [cmdval CM; x; y]; reflexivity.
  - exists [cmdval CL; x; y]; reflexivity.
  - exists [cmdval CQ; cx; cy; x; y]; reflexivity.
  - exists [cmdval CC; ax; ay; bx; by_; x; y]; reflexivity.
  - exists [cmdval CA; rx; ry; phi; fl; x; y]; reflexivity.
  - exists [cmdval CZ; x; y]; reflexivity.
Qed.

Lemma inrange_iff : forall d i, inrange d i = true <-> (0 <= i < Z.of_nat (length d))%Z.
Proof. intros d i. unfold inrange. rewrite andb_true_iff, Z.leb_le, Z.ltb_lt. tauto. Qed.

Lemma walk_fwd_from_encode : forall p pre count fuel, (length p < fuel)%nat ->
  walk_fwd_from fuel (pre ++ encode p) (length pre) count = WDone (count + length p) (length (pre ++ encode p)).
Proof.
  induction p as [|s p IH]; intros pre count fuel Hf; destruct fuel as [|f]; try lia; cbn [walk_fwd_from encode].
  - rewrite app_nil_r, Nat.leb_refl. cbn [length]. rewrite Nat.add_0_r. reflexivity.
  - pose proof (enc_seg_length s) as HL. pose proof (reclen_ge4 (seg_cmd s)) as H4.
    destruct (enc_seg_head s) as [tl Htl].
    assert (Hlen : length (pre ++ enc_seg s ++ encode p) = (length pre + reclen (seg_cmd s) + length (encode p))%nat)
      by (rewrite !app_length; lia).
    destruct (length (pre ++ enc_seg s ++ encode p) <=? length pre)%nat eqn:E; [apply Nat.leb_le in E; lia|].
    rewrite nth_error_app2 by lia. rewrite Nat.sub_diag. rewrite Htl at 1. cbn [app nth_error].
    rewrite cmdLen_table.
    assert (R1 : inrange (pre ++ enc_seg s ++ encode p) (Z.of_nat (length pre + reclen (seg_cmd s)) - 3) = true)
      by (apply inrange_iff; lia).
    assert (R2 : inrange (pre ++ enc_seg s ++ encode p) (Z.of_nat (length pre + reclen (seg_cmd s)) - 2) = true)
      by (apply inrange_iff; lia).
    rewrite R1, R2. cbn [andb].
    replace (length pre + reclen (seg_cmd s))%nat with (length (pre ++ enc_seg s)) by (rewrite app_length; lia).
    rewrite app_assoc. rewrite IH by (cbn [length] in Hf; lia). cbn [length]. f_equal. lia.
Qed.

Theorem walk_fwd_total : forall p, walk_fwd (encode p) = WDone (length p) (length (encode p)).
Proof.
  intro p. unfold walk_fwd. 
  assert (H : (length p < S (length (encode p)))%nat).
  { induction p as [|s p IH]; cbn [encode length]; [lia|]. rewrite app_length, enc_seg_length. pose proof (reclen_ge4 (seg_cmd s)). lia. }
  exact (walk_fwd_from_encode p [] 0%nat _ H).
Qed.

Lemma walk_bwd_from_encode : forall p post count fuel, (length p < fuel)%nat ->
  walk_bwd_from fuel (encode p ++ post) (length (encode p)) count = WDone (count + length p) 0.
Proof.
  induction p as [|s p IH] using rev_ind; intros post count fuel Hf; destruct fuel as [|f]; try lia.
  - cbn [walk_bwd_from encode length]. rewrite Nat.add_0_r. reflexivity.
  - rewrite encode_app. cbn [encode]. rewrite app_nil_r.
    pose proof (enc_seg_length s) as HL. pose proof (reclen_ge4 (seg_cmd s)) as H4.
    destruct (enc_seg_last s) as [l Hl].
    assert (Hll : length l = (reclen (seg_cmd s) - 1)%nat).
    { rewrite Hl in HL. rewrite app_length in HL. cbn [length] in HL. lia. }
    rewrite app_length, HL.
    destruct (length (encode p) + reclen (seg_cmd s))%nat as [|i1] eqn:Ei; [lia|].
    cbn [walk_bwd_from].
    assert (Hn : nth_error ((encode p ++ enc_seg s) ++ post) i1 = Some (cmdval (seg_cmd s))).
    { rewrite Hl. rewrite <- !app_assoc. rewrite nth_error_app2 by lia. rewrite nth_error_app2 by lia.
      replace (i1 - length (encode p) - length l)%nat with 0%nat by lia. reflexivity. }
    rewrite Hn, cmdLen_table.
    assert (Hlen : length ((encode p ++ enc_seg s) ++ post) = (length (encode p) + reclen (seg_cmd s) + length post)%nat)
      by (rewrite !app_length; lia).
    assert (R1 : inrange ((encode p ++ enc_seg s) ++ post) (Z.of_nat (S i1) - 3) = true) by (apply inrange_iff; lia).
    assert (R2 : inrange ((encode p ++ enc_seg s) ++ post) (Z.of_nat (S i1) - 2) = true) by (apply inrange_iff; lia).
    rewrite R1, R2. cbn [andb].
    destruct (reclen (seg_cmd s) <=? S i1)%nat eqn:E; [|apply Nat.leb_gt in E; lia].
    replace (S i1 - reclen (seg_cmd s))%nat with (length (encode p)) by lia.
    rewrite <- app_assoc. rewrite IH by (rewrite app_length in Hf; cbn [length] in Hf; lia).
    rewrite app_length. cbn [length]. f_equal. lia.
Qed.

Theorem walk_bwd_total : forall p, walk_bwd (encode p) = WDone (length p) 0.
Proof.
  intro p. unfold walk_bwd.
  assert (H : (length p < S (length (encode p)))%nat).
  { induction p as [|s p IH]; cbn [encode length]; [lia|]. rewrite app_length, enc_seg_length. pose proof (reclen_ge4 (seg_cmd s)). lia. }
  pose proof (walk_bwd_from_encode p [] 0%nat _ H) as W. rewrite app_nil_r in W. exact W.
Qed.

Example walk_example : walk_fwd (encode [SM (0,0); SC (1,0) (1,1) (0,1); SZ (0,0)]) = WDone 3 16
                       /\ walk_bwd (encode [SM (0,0); SC (1,0) (1,1) (0,1); SZ (0,0)]) = WDone 3 0.
Proof. split; vm_compute; reflexivity. Qed.

(** a stray cell makes the forward walker leave the slice: the model reports it instead of looping *)
Example walk_bad : exists i, walk_fwd [cmdval CQ; 0; 0; cmdval CQ] = WOutOfRange i.
Proof. eexists. vm_compute. reflexivity. Qed.

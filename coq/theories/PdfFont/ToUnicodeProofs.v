(** ToUnicode: cmap_roundtrip for (fixed encoder, strict reader) and (either encoder, lenient reader);
    refutation for (original encoder, strict reader). *)
From Coq Require Import ZArith List Bool Lia.
From CV Require Import PdfFont.Widths PdfFont.WidthsProofs PdfFont.Subset PdfFont.ToUnicode.
Import ListNotations.
Open Scope Z_scope.

Definition is_cp (u : Z) : Prop := 0 <= u <= 1114111.

Lemma surr_nonneg : forall u, 0 <= u -> 0 <= surr u.
Proof.
  intros u Hu. unfold surr. destruct ((65536 <=? u) && (u <=? 1114111)); [|exact Hu].
  pose proof (Z.mod_pos_bound ((u - 65536) / 1024) 1024 ltac:(lia)).
  pose proof (Z.mod_pos_bound (u - 65536) 1024 ltac:(lia)). lia.
Qed.

(** a reader recovers the code point from the packed UTF-16 destination *)
Lemma unsurr_surr : forall u, is_cp u -> unsurr (surr u) = u.
Proof.
  intros u [H0 H1]. unfold surr, unsurr.
  destruct (Z.leb_spec 65536 u) as [Hbig|Hsmall]; cbn [andb].
  - destruct (Z.leb_spec u 1114111) as [_|?]; [|lia].
    set (v := u - 65536).
    assert (Hv : 0 <= v < 1048576) by (unfold v; lia).
    assert (Hq : 0 <= v / 1024 < 1024) by (split; [apply Z.div_pos; lia|apply Z.div_lt_upper_bound; lia]).
    rewrite (Z.mod_small (v / 1024) 1024) by exact Hq.
    pose proof (Z.mod_pos_bound v 1024 ltac:(lia)) as Hr.
    set (p := (55296 + v / 1024) * 65536 + 56320 + v mod 1024).
    assert (Hp : p = (55296 + v / 1024) * 65536 + (56320 + v mod 1024)) by (unfold p; ring).
    destruct (Z.ltb_spec p 65536) as [Hlt|_]; [unfold p in Hlt; lia|].
    assert (Hd : p / 65536 = 55296 + v / 1024).
    { rewrite Hp. rewrite Z.div_add_l by lia. rewrite (Z.div_small (56320 + v mod 1024)) by lia. ring. }
    assert (Hm : p mod 65536 = 56320 + v mod 1024).
    { rewrite Hp. rewrite Z.add_comm. rewrite Z.mod_add by lia. apply Z.mod_small. lia. }
    rewrite Hd, Hm. pose proof (Z.div_mod v 1024 ltac:(lia)). unfold v in *. lia.
  - destruct (Z.ltb_spec u 65536); [reflexivity|lia].
Qed.

Lemma hexlen_surr : forall u, is_cp u -> hexlen (surr u) = if surr u <? 65536 then 4 else 8.
Proof.
  intros u [H0 H1]. unfold hexlen.
  destruct (Z.ltb_spec (surr u) 65536) as [|Hge]; [reflexivity|].
  unfold surr in *. destruct (Z.leb_spec 65536 u) as [Hbig|Hsmall]; cbn [andb] in *; [|lia].
  destruct (Z.leb_spec u 1114111) as [_|?]; [|lia].
  pose proof (Z.mod_pos_bound ((u - 65536) / 1024) 1024 ltac:(lia)).
  pose proof (Z.mod_pos_bound (u - 65536) 1024 ltac:(lia)).
  repeat match goal with |- context [?a <? ?b] => destruct (Z.ltb_spec a b); [lia|] end. reflexivity.
Qed.

(** ---------- reader over appended entries ---------- *)
Lemma find_range_app : forall st R1 R2 cid,
  find_range st (R1 ++ R2) cid = match find_range st R1 cid with Some x => Some x | None => find_range st R2 cid end.
Proof.
  induction R1 as [|e R1 IH]; intros R2 cid; [reflexivity|].
  cbn [app find_range]. destruct (dec_range st e cid); [reflexivity|apply IH].
Qed.

Lemma find_char_app : forall C1 C2 cid,
  find_char (C1 ++ C2) cid = match find_char C1 cid with Some x => Some x | None => find_char C2 cid end.
Proof.
  induction C1 as [|[c v] C1 IH]; intros C2 cid; [reflexivity|].
  cbn [app find_char]. destruct (c =? cid); [reflexivity|apply IH].
Qed.

Lemma decode_none : forall st R C cid, decode_cmap st (R, C) cid = None ->
  find_range st R cid = None /\ find_char C cid = None.
Proof.
  intros st R C cid H. unfold decode_cmap in H. cbn [fst snd] in H.
  destruct (find_range st R cid); [discriminate|]. split; [reflexivity|exact H].
Qed.

(** ---------- loop invariant ---------- *)
Section Loop.
Variable split strict : bool.
Hypothesis Hss : strict = true -> split = true.
Variable us : list Z.
Hypothesis Hlen : lenZ us < 65535.
Hypothesis Hus : Forall (fun u => 0 <= u) us.

Let full := 65533 :: map surr us.

Record CInv (k : Z) (s : cst) : Prop := mkCInv {
  ci_ord : 0 <= cG s /\ 1 <= cL s /\ cG s + cL s = k + 1;
  ci_cov : forall cid, 0 <= cid < cG s -> decode_cmap strict (cR s, cC s) cid = Some (Some (nthZ full cid));
  ci_none : forall cid, cG s <= cid -> decode_cmap strict (cR s, cC s) cid = None;
  ci_run : forall m, 0 <= m < cL s -> nthZ full (cG s + m) = cU s + m;
  ci_strict : split = true -> cG s mod 256 + cL s - 1 <= 255 /\ cU s mod 256 + cL s - 1 <= 255;
  ci_upos : 0 <= cU s }.

Lemma u16_small : forall z, 0 <= z < 65536 -> u16 z = z.
Proof. intros z Hz. unfold u16. apply Z.mod_small. exact Hz. Qed.

(** the entries written when the pending group [cG, cG+cL) ends cover exactly that group *)
Lemma flush_spec : forall k s, CInv k s -> k + 1 < 65536 ->
  let '(r, c) := c_flush s in
  (forall cid, 0 <= cid < k + 1 -> decode_cmap strict (r, c) cid = Some (Some (nthZ full cid))) /\
  (forall cid, k + 1 <= cid -> decode_cmap strict (r, c) cid = None).
Proof.
  intros k s [(HG & HL & Hk) Hcov Hnone Hrun Hstr Hup] Hk16.
  unfold c_flush. destruct (Z.ltb_spec 1 (cL s)) as [Hlong|Hone].
  - (* bfrange *)
    rewrite u16_small by lia.
    assert (Hok : strict = true -> range_ok (cG s) (cG s + cL s - 1) (cU s) = true).
    { intros Hst. destruct (Hstr (Hss Hst)) as [H1 H2]. unfold range_ok.
      apply andb_true_intro. split.
      - apply Z.eqb_eq.
        pose proof (Z.div_mod (cG s) 256 ltac:(lia)). pose proof (Z.mod_pos_bound (cG s) 256 ltac:(lia)).
        apply Z.div_unique with (r := cG s mod 256 + cL s - 1); lia.
      - apply Z.leb_le. lia. }
    split.
    + intros cid Hc. unfold decode_cmap. cbn [fst snd]. rewrite find_range_app.
      destruct (Z.lt_ge_cases cid (cG s)) as [Hlo|Hhi].
      * pose proof (Hcov cid ltac:(lia)) as H. unfold decode_cmap in H. cbn [fst snd] in H.
        destruct (find_range strict (cR s) cid) as [x|]; [exact H|].
        cbn [find_range dec_range]. destruct (Z.leb_spec (cG s) cid); [lia|]. cbn [andb]. exact H.
      * destruct (decode_none _ _ _ _ (Hnone cid Hhi)) as [Hr Hc'].
        rewrite Hr. cbn [find_range dec_range].
        destruct (Z.leb_spec (cG s) cid); [|lia]. destruct (Z.leb_spec cid (cG s + cL s - 1)); [|lia]. cbn [andb].
        destruct strict.
        -- rewrite (Hok eq_refl). cbn [andb negb]. do 2 f_equal.
           rewrite <- (Hrun (cid - cG s)) by lia. f_equal. ring.
        -- cbn [andb]. do 2 f_equal. rewrite <- (Hrun (cid - cG s)) by lia. f_equal. ring.
    + intros cid Hc. unfold decode_cmap. cbn [fst snd]. rewrite find_range_app.
      destruct (decode_none _ _ _ _ (Hnone cid ltac:(lia))) as [Hr Hc'].
      rewrite Hr. cbn [find_range dec_range].
      destruct (Z.leb_spec (cG s) cid); [|lia]. destruct (Z.leb_spec cid (cG s + cL s - 1)); [lia|]. cbn [andb]. exact Hc'.
  - (* bfchar *)
    assert (HL1 : cL s = 1) by lia.
    split.
    + intros cid Hc. unfold decode_cmap. cbn [fst snd]. rewrite find_char_app.
      destruct (Z.lt_ge_cases cid (cG s)) as [Hlo|Hhi].
      * pose proof (Hcov cid ltac:(lia)) as H. unfold decode_cmap in H. cbn [fst snd] in H.
        destruct (find_range strict (cR s) cid) as [x|]; [exact H|].
        destruct (find_char (cC s) cid) as [x|]; [exact H|discriminate].
      * destruct (decode_none _ _ _ _ (Hnone cid Hhi)) as [Hr Hc'].
        rewrite Hr, Hc'. cbn [find_char]. assert (cid = cG s) by lia. subst cid. rewrite Z.eqb_refl.
        do 2 f_equal. pose proof (Hrun 0 ltac:(lia)) as H0. rewrite !Z.add_0_r in H0. symmetry. exact H0.
    + intros cid Hc. unfold decode_cmap. cbn [fst snd]. rewrite find_char_app.
      destruct (decode_none _ _ _ _ (Hnone cid ltac:(lia))) as [Hr Hc'].
      rewrite Hr, Hc'. cbn [find_char]. destruct (Z.eqb_spec (cG s) cid); [lia|reflexivity].
Qed.

Lemma c_step_inv : forall k s a, 0 <= k -> k + 2 < 65536 -> 0 <= a ->
  nthZ full (k + 1) = surr a -> CInv k s -> CInv (k + 1) (c_step split s k a).
Proof.
  intros k s a Hk0 Hk16 Ha Hfull HI.
  pose proof (flush_spec k s HI ltac:(lia)) as Hfl.
  destruct HI as [(HG & HL & Hk) Hcov Hnone Hrun Hstr Hup].
  unfold c_step.
  rewrite (u16_small (k + 1)) by lia. rewrite (u16_small (cG s + cL s)) by lia.
  destruct (Z.eqb_spec (k + 1) (cG s + cL s)) as [_|?]; [|lia]. cbn [andb].
  destruct (Z.eqb_spec (surr a) (cU s + cL s)) as [Eu|Nu]; cbn [andb].
  - destruct (negb split || (negb ((k + 1) mod 256 =? 0) && negb (surr a mod 256 =? 0))) eqn:Hcond.
    + (* extend the group *)
      rewrite u16_small by lia.
      constructor; cbn [cG cU cL cR cC].
      * lia.
      * exact Hcov.
      * exact Hnone.
      * intros m Hm. destruct (Z.eq_dec m (cL s)) as [->|Hne]; [|apply Hrun; lia].
        replace (cG s + cL s) with (k + 1) by lia. rewrite Hfull. exact Eu.
      * intros Hsp. destruct (Hstr Hsp) as [H1 H2]. rewrite Hsp in Hcond. cbn [negb orb] in Hcond.
        apply andb_prop in Hcond. destruct Hcond as [Hc1 Hc2].
        apply negb_true_iff in Hc1. apply negb_true_iff in Hc2.
        apply Z.eqb_neq in Hc1. apply Z.eqb_neq in Hc2.
        pose proof (Z.div_mod (cG s) 256 ltac:(lia)). pose proof (Z.mod_pos_bound (cG s) 256 ltac:(lia)).
        pose proof (Z.div_mod (cU s) 256 ltac:(lia)). pose proof (Z.mod_pos_bound (cU s) 256 ltac:(lia)).
        split.
        -- destruct (Z.eq_dec (cG s mod 256 + cL s) 256) as [E|]; [|lia].
           exfalso. apply Hc1. replace (k + 1) with ((cG s / 256 + 1) * 256 + 0) by lia.
           rewrite Z.add_comm. rewrite Z.mod_add by lia. reflexivity.
        -- destruct (Z.eq_dec (cU s mod 256 + cL s) 256) as [E|]; [|lia].
           exfalso. apply Hc2. rewrite Eu. replace (cU s + cL s) with ((cU s / 256 + 1) * 256 + 0) by lia.
           rewrite Z.add_comm. rewrite Z.mod_add by lia. reflexivity.
      * exact Hup.
    + (* consecutive but the low byte would wrap: start a new group *)
      destruct (c_flush s) as [r c]. destruct Hfl as [Hf1 Hf2].
      constructor; cbn [cG cU cL cR cC].
      * lia.
      * intros cid Hc. apply Hf1. lia.
      * intros cid Hc. apply Hf2. lia.
      * intros m Hm. replace m with 0 by lia. rewrite Z.add_0_r, Z.add_0_r. exact Hfull.
      * intros _. pose proof (Z.mod_pos_bound (k + 1) 256 ltac:(lia)). pose proof (Z.mod_pos_bound (surr a) 256 ltac:(lia)). lia.
      * apply surr_nonneg. exact Ha.
  - destruct (c_flush s) as [r c]. destruct Hfl as [Hf1 Hf2].
    constructor; cbn [cG cU cL cR cC].
    * lia.
    * intros cid Hc. apply Hf1. lia.
    * intros cid Hc. apply Hf2. lia.
    * intros m Hm. replace m with 0 by lia. rewrite Z.add_0_r, Z.add_0_r. exact Hfull.
    * intros _. pose proof (Z.mod_pos_bound (k + 1) 256 ltac:(lia)). pose proof (Z.mod_pos_bound (surr a) 256 ltac:(lia)). lia.
    * apply surr_nonneg. exact Ha.
Qed.

Lemma nthZ_full : forall pre a r, us = pre ++ a :: r -> nthZ full (lenZ pre + 1) = surr a.
Proof.
  intros pre a r H. unfold full, nthZ. replace (Z.to_nat (lenZ pre + 1)) with (S (length pre)) by (unfold lenZ; lia).
  cbn [nth]. rewrite H, map_app. cbn [map]. rewrite app_nth2; rewrite map_length; [|lia].
  rewrite Nat.sub_diag. reflexivity.
Qed.

Lemma c_loop_inv : forall rest pre s, us = pre ++ rest -> CInv (lenZ pre) s ->
  CInv (lenZ us) (c_loop split rest (lenZ pre) s).
Proof.
  induction rest as [|a r IH]; intros pre s Hw HI.
  - rewrite app_nil_r in Hw. rewrite Hw. exact HI.
  - cbn [c_loop].
    assert (Hl : lenZ pre + 1 = lenZ (pre ++ [a])) by (rewrite lenZ_app; reflexivity).
    assert (Hlu : lenZ us = lenZ pre + 1 + lenZ r).
    { rewrite Hw, lenZ_app. unfold lenZ. cbn [length]. lia. }
    assert (Ha : 0 <= a).
    { rewrite Forall_forall in Hus. apply Hus. rewrite Hw. apply in_or_app. right. left. reflexivity. }
    rewrite Hl. apply IH.
    + rewrite <- app_assoc. exact Hw.
    + rewrite <- Hl. apply c_step_inv; try exact HI; try exact Ha.
      * unfold lenZ. lia.
      * unfold lenZ in *. lia.
      * eapply nthZ_full. exact Hw.
Qed.

Lemma cmap_roundtrip_packed : forall cid, 0 <= cid <= lenZ us ->
  decode_cmap strict (encode_cmap split us) cid = Some (Some (nthZ full cid)).
Proof.
  intros cid Hc. unfold encode_cmap.
  assert (HI0 : CInv (lenZ (@nil Z)) (mkCst 0 65533 1 [] [])).
  { constructor; cbn [cG cU cL cR cC]; unfold lenZ; cbn [length Z.of_nat].
    - lia.
    - intros c H. lia.
    - intros c H. reflexivity.
    - intros m Hm. replace m with 0 by lia. reflexivity.
    - intros _. cbn. lia.
    - lia. }
  pose proof (c_loop_inv us [] _ eq_refl HI0) as HI.
  change (lenZ (@nil Z)) with 0 in HI.
  pose proof (flush_spec _ _ HI ltac:(lia)) as Hfl.
  destruct (c_flush (c_loop split us 0 (mkCst 0 65533 1 [] []))) as [r c].
  destruct Hfl as [Hf _]. apply Hf. lia.
Qed.
End Loop.

(** cmap_roundtrip: for every list of code points (subset order, < 65535 glyphs) and every CID of a used glyph
    the reader recovers the code point — with the strict reader when the encoder splits at low-byte
    boundaries (the fixed writer), with the lenient reader for both encoders. *)
Theorem cmap_roundtrip_gen : forall split strict us cid,
  (strict = true -> split = true) ->
  lenZ us < 65535 -> Forall is_cp us -> 0 <= cid <= lenZ us ->
  cmap_codepoint strict (encode_cmap split us) cid = Some (cmap_expected us cid).
Proof.
  intros split strict us cid Hss Hlen Hcp Hc.
  assert (Hus : Forall (fun u => 0 <= u) us).
  { eapply Forall_impl; [|exact Hcp]. intros u [H _]. exact H. }
  unfold cmap_codepoint. rewrite (cmap_roundtrip_packed split strict Hss us Hlen Hus cid Hc).
  f_equal. unfold cmap_expected.
  destruct (Z.eq_dec cid 0) as [->|Hnz]; [reflexivity|].
  unfold nthZ. replace (Z.to_nat cid) with (S (Z.to_nat (cid - 1))) by lia. cbn [nth].
  assert (Hn : (Z.to_nat (cid - 1) < length us)%nat) by (unfold lenZ in Hc; lia).
  rewrite (nth_indep (map surr us) 0 (surr 0)) by (rewrite map_length; exact Hn).
  rewrite map_nth. apply unsurr_surr.
  rewrite Forall_forall in Hcp. apply Hcp. apply nth_In. exact Hn.
Qed.

Theorem cmap_roundtrip : forall us cid,
  lenZ us < 65535 -> Forall is_cp us -> 0 <= cid <= lenZ us ->
  cmap_codepoint true (encode_cmap true us) cid = Some (cmap_expected us cid).
Proof. intros. apply cmap_roundtrip_gen; auto. Qed.

Theorem cmap_roundtrip_lenient_partial : forall split us cid,
  lenZ us < 65535 -> Forall is_cp us -> 0 <= cid <= lenZ us ->
  cmap_codepoint false (encode_cmap split us) cid = Some (cmap_expected us cid).
Proof. intros. apply cmap_roundtrip_gen; auto. discriminate. Qed.

(** the loop as it stood at the pinned commit, read by the strict reader: the text "þÿĀ" (U+00FE U+00FF U+0100)
    becomes the single range <0001> <0003> <00FE>, whose last byte overflows at the third code *)
Theorem cmap_roundtrip_unsplit_refuted : exists us cid,
  lenZ us < 65535 /\ Forall is_cp us /\ 0 <= cid <= lenZ us /\
  encode_cmap false us = ([(1, 3, 254)], [(0, 65533)]) /\
  cmap_codepoint true (encode_cmap false us) cid <> Some (cmap_expected us cid).
Proof.
  exists [254; 255; 256], 3. split; [vm_compute; reflexivity|]. split.
  - repeat constructor; unfold is_cp; lia.
  - split; [vm_compute; split; discriminate|]. split; [vm_compute; reflexivity|]. vm_compute. discriminate.
Qed.

(** hypotheses satisfiable, non-trivial: consecutive run crossing a low-byte boundary, an astral pair *)
Example cmap_example :
  encode_cmap true [254; 255; 256; 257; 128512; 128513; 72] =
  ([(1, 2, 254); (3, 4, 256); (5, 6, 3627933184)], [(0, 65533); (7, 72)]).
Proof. vm_compute. reflexivity. Qed.
Example cmap_example_decode :
  map (cmap_codepoint true (encode_cmap true [254; 255; 256; 257; 128512; 128513; 72])) [0; 1; 3; 6; 7]
  = [Some 65533; Some 254; Some 256; Some 128513; Some 72].
Proof. vm_compute. reflexivity. Qed.

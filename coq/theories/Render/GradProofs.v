(** Gradient paints in the PDF writer model (after fix 54818f3): a gradient fill or stroke is painted with alpha 1 whatever
    paint was in force before — the writer resets the shared alpha, and the interpreter paints the path with the gradient's
    pseudo-colour at alpha 1.  Before the fix the alpha of the previous translucent colour stayed in force
    ([grad_fill_inherits_alpha_v0]: the unfixed writer, [set_fill false]). *)
From Coq Require Import QArith ZArith List Bool.
From CV Require Import Base.Dy Render.Sem Render.GState Render.GStateProofs.
Import ListNotations.
Open Scope Q_scope.

Lemma normal_one : normal 1.
Proof. reflexivity. Qed.

Lemma paint_eqb_grad : forall id q, paint_eqb (PGrad id) q = true -> q = PGrad id.
Proof.
  intros id [|c'|id'] H; cbn [paint_eqb] in H; try discriminate. apply Z.eqb_eq in H. subst. reflexivity.
Qed.

Lemma fill_char_grad : forall id w, Norm w ->
  snd (set_fill true (PGrad id) w) = mkPdfw (PGrad id) (wstroke w) 1 (wlw w) (wcap w) (wjoin w) (wml w) (wdash w).
Proof.
  intros id w N. unfold set_fill. destruct (paint_eqb (PGrad id) (wfill w)) eqn:E.
  - rewrite (alpha_char _ w N normal_one). apply paint_eqb_grad in E. rewrite E. reflexivity.
  - pose proof (alpha_char 1 w N normal_one) as H.
    destruct (set_alpha 1 w) as [t2 w2]. cbn [snd] in *. subst w2. reflexivity.
Qed.

Definition grad_fill_part (fixed : bool) (id : Z) (data : geo) (eo : bool) :=
  set_fill fixed (PGrad id) ;; emit [Tpath data; Tpaint (star true false eo 0)].

Theorem grad_fill_opaque : forall id data eo w, Norm w ->
  let w' := mkPdfw (PGrad id) (wstroke w) 1 (wlw w) (wcap w) (wjoin w) (wml w) (wdash w) in
  run (fst (grad_fill_part true id data eo w)) (abs w []) = ([mkPop (KFill eo) data (paint_col (PGrad id)) 1], abs w' [])
  /\ snd (grad_fill_part true id data eo w) = w'.
Proof.
  intros id data eo w N w'. unfold grad_fill_part.
  pose proof (simp_paint (set_fill true (PGrad id)) data (star true false eo 0) (sim_fill true (PGrad id)) w) as H.
  rewrite snd_seq2, snd_emit in H |- *. rewrite (fill_char_grad id w N) in H |- *. fold w' in H |- *.
  split; [|reflexivity]. rewrite H. f_equal. destruct eo; reflexivity.
Qed.

(** the writer before the fix: after a colour with alpha 128/255 a gradient fill is painted at that alpha *)
Example grad_fill_inherits_alpha_v0 :
  let w := mkPdfw PNone (PColor (0, 0, 0, 128)%Z) (Qred (128 # 255)) 1 0%Z 0%Z 10 [0] in
  exists pop, fst (run (fst (grad_fill_part false 1%Z [] false w)) (abs w [])) = [pop] /\ ~ palpha pop == 1.
Proof.
  eexists. split; [vm_compute; reflexivity|]. cbn [palpha]. intro H. vm_compute in H. discriminate.
Qed.

(** C05 — Dashing cuts the path by arc length according to the pattern.
    Property theorems only; each is closed by [exact] of a lemma proved elsewhere. *)
From Coq Require Import ZArith QArith List Bool.
From CV Require Import Dash.DashPhase Dash.DashRefuted.
Import ListNotations.
Open Scope Q_scope.

Theorem C05_dash_start_negative_refuted_v0 :
  exists off d L s, allpos d /\ 0 <= s /\ s + go_eps < L /\
    dres_sel (dash_model_v0 go_eps off d L) s <> on d off s.
Proof. exact dash_start_negative_refuted_v0. Qed.
Print Assumptions C05_dash_start_negative_refuted_v0.

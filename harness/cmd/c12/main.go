// c12: correspondence harness for C12 (SVG/PDF/PS output encodes the drawing the rasteriser renders).
// Random drawing programs (1-12 styled path draws under random views / coordinate systems, styles chosen to collide
// and repeat so that the writers' caches matter) are recorded on a canvas.Canvas; a recording renderer captures the
// layers (path, style, matrix) exactly as every back-end receives them; the PDF (compression off) and PostScript
// back-ends render the same canvas into bytes, which are tokenised (trusted glue; numbers as exact decimals -> Q) into
// operator token lists and handed to the Coq judge together with the layers and the REFERENCE stroke outlines computed by
// the rasteriser's recipe (Dash scaled by the stroke width, Stroke, then Transform).
package main

import (
	"bytes"
	"flag"
	"fmt"
	"image"
	"image/color"
	"math"
	"os"
	"regexp"
	"strconv"
	"strings"

	"github.com/tdewolff/canvas"
	"github.com/tdewolff/canvas/renderers/pdf"
	"github.com/tdewolff/canvas/renderers/ps"
	"github.com/tdewolff/canvas/renderers/svg"

	"verifharness/internal/cq"
	"verifharness/internal/out"
	"verifharness/internal/pd"
	"verifharness/internal/pdftok"
	"verifharness/internal/rng"
)

type layer struct {
	path  *canvas.Path
	style canvas.Style
	m     canvas.Matrix
}

type recorder struct {
	w, h   float64
	layers []layer
}

func (r *recorder) Size() (float64, float64) { return r.w, r.h }
func (r *recorder) RenderPath(p *canvas.Path, s canvas.Style, m canvas.Matrix) {
	s.Dashes = append([]float64{}, s.Dashes...)
	r.layers = append(r.layers, layer{p.Copy(), s, m})
}
func (r *recorder) RenderText(t *canvas.Text, m canvas.Matrix)  {}
func (r *recorder) RenderImage(i image.Image, m canvas.Matrix) {}

// decimal string -> Gallina Q
func decQ(s string) (string, error) {
	neg := false
	t := s
	if strings.HasPrefix(t, "-") {
		neg, t = true, t[1:]
	} else if strings.HasPrefix(t, "+") {
		t = t[1:]
	}
	if t == "" || strings.ContainsAny(t, "eE") {
		return "", fmt.Errorf("bad number %q", s)
	}
	ip, fp := t, ""
	if i := strings.IndexByte(t, '.'); i >= 0 {
		ip, fp = t[:i], t[i+1:]
	}
	digits := strings.TrimLeft(ip+fp, "0")
	if digits == "" {
		digits = "0"
	}
	for _, c := range digits {
		if c < '0' || c > '9' {
			return "", fmt.Errorf("bad number %q", s)
		}
	}
	den := "1" + strings.Repeat("0", len(fp))
	if neg {
		return fmt.Sprintf("((-%s) # %s)", digits, den), nil
	}
	return fmt.Sprintf("(%s # %s)", digits, den), nil
}

func isNum(s string) bool {
	_, err := strconv.ParseFloat(s, 64)
	return err == nil && !strings.ContainsAny(s, "eExXnN")
}

func geoTerm(segs []string) string { return cq.List(segs) }

func segTerm(cmd int, nums []string) string {
	return fmt.Sprintf("(%d%%Z, %s)", cmd, cq.List(nums))
}

// geometry of a canvas path (only M L C Z expected); ok=false otherwise
func pathGeo(p *canvas.Path) (string, bool) {
	segs, err := pd.Decode(p.Data())
	if err != nil {
		return "nil", false
	}
	var out []string
	d := p.Data()
	_ = d
	// pd.Seg carries only the end point; decode the raw data ourselves for control points
	raw := p.Data()
	i := 0
	for i < len(raw) {
		cmd := raw[i]
		switch cmd {
		case canvas.MoveToCmd:
			out = append(out, segTerm(0, []string{cq.F(raw[i+1]), cq.F(raw[i+2])}))
			i += 4
		case canvas.LineToCmd:
			out = append(out, segTerm(1, []string{cq.F(raw[i+1]), cq.F(raw[i+2])}))
			i += 4
		case canvas.CubeToCmd:
			out = append(out, segTerm(2, []string{cq.F(raw[i+1]), cq.F(raw[i+2]), cq.F(raw[i+3]), cq.F(raw[i+4]), cq.F(raw[i+5]), cq.F(raw[i+6])}))
			i += 8
		case canvas.CloseCmd:
			out = append(out, segTerm(3, nil))
			i += 4
		default:
			return "nil", false
		}
	}
	_ = segs
	return geoTerm(out), true
}

// ---- gradients: the canvas' gradients of one drawing program form a pool; a paint is named by its index in the pool (PGrad id).
// What a back-end wrote for a gradient paint is read back (SVG <linearGradient>/<radialGradient> element with its stops; PDF
// shading pattern with its stitched exponential functions), interpreted in canvas coordinates (SVG: y -> H - y; PDF: points ->
// mm) and given the id of the pool gradient it describes: same kind, same circles / end points, same colour at 33 positions
// along the gradient vector.  Anything else (other units, a transformation, no padding, unknown keys) gets the id 99.
type gradDesc struct {
	radial bool
	coords []float64 // linear: x0 y0 x1 y1; radial: x0 y0 r0 x1 y1 r1 (canvas coordinates, mm)
	col    func(t float64) [3]float64
}

var gradPool []canvas.Gradient

func stopsAt(stops canvas.Stops, t float64) [3]float64 {
	// the reference: colours are interpolated linearly between neighbouring stops and held constant outside (opaque stops only)
	f := func(c color.RGBA) [3]float64 { return [3]float64{float64(c.R), float64(c.G), float64(c.B)} }
	if len(stops) == 0 {
		return [3]float64{}
	}
	if t <= stops[0].Offset {
		return f(stops[0].Color)
	}
	for k := 1; k < len(stops); k++ {
		if t <= stops[k].Offset {
			a, b := stops[k-1], stops[k]
			if b.Offset == a.Offset {
				return f(b.Color)
			}
			u := (t - a.Offset) / (b.Offset - a.Offset)
			ca, cb := f(a.Color), f(b.Color)
			return [3]float64{ca[0] + u*(cb[0]-ca[0]), ca[1] + u*(cb[1]-ca[1]), ca[2] + u*(cb[2]-ca[2])}
		}
	}
	return f(stops[len(stops)-1].Color)
}

func poolDesc(g canvas.Gradient) gradDesc {
	switch v := g.(type) {
	case *canvas.LinearGradient:
		st := append(canvas.Stops{}, v.Stops...)
		return gradDesc{false, []float64{v.Start.X, v.Start.Y, v.End.X, v.End.Y}, func(t float64) [3]float64 { return stopsAt(st, t) }}
	case *canvas.RadialGradient:
		st := append(canvas.Stops{}, v.Stops...)
		return gradDesc{true, []float64{v.C0.X, v.C0.Y, v.R0, v.C1.X, v.C1.Y, v.R1}, func(t float64) [3]float64 { return stopsAt(st, t) }}
	}
	return gradDesc{}
}

// gradID: the pool gradient that d describes, or 99
func gradID(d gradDesc) int {
	for j, g := range gradPool {
		w := poolDesc(g)
		if w.radial != d.radial || len(w.coords) != len(d.coords) {
			continue
		}
		ok := true
		for k := range w.coords {
			if math.Abs(w.coords[k]-d.coords[k]) > 1e-5+1e-6*math.Abs(w.coords[k]) {
				ok = false
			}
		}
		for k := 0; ok && k <= 32; k++ {
			a, b := w.col(float64(k)/32), d.col(float64(k)/32)
			for ch := 0; ch < 3; ch++ {
				if math.Abs(a[ch]-b[ch]) > 1.01 {
					ok = false
				}
			}
		}
		if ok {
			return j + 1
		}
	}
	return 99
}

var svgGradRe = regexp.MustCompile(`<(linearGradient|radialGradient)((?: [a-zA-Z0-9-]+="[^"]*")*)>(.*?)</(?:linearGradient|radialGradient)>`)
var svgStopRe = regexp.MustCompile(`<stop((?: [a-zA-Z-]+="[^"]*")*)/>`)
var svgAttrRe2 = regexp.MustCompile(` ([a-zA-Z0-9-]+)="([^"]*)"`)
var svgGrads map[string]int

// svgGradients reads the gradient definitions of an SVG document (height H mm, y pointing down)
func svgGradients(b []byte, H float64) map[string]int {
	ids := map[string]int{}
	for _, m := range svgGradRe.FindAllSubmatch(b, -1) {
		attrs := map[string]string{}
		for _, a := range svgAttrRe2.FindAllSubmatch(m[2], -1) {
			attrs[string(a[1])] = string(a[2])
		}
		id := attrs["id"]
		ids[id] = 99
		if attrs["gradientUnits"] != "userSpaceOnUse" {
			continue
		}
		bad := false
		num := func(k string) float64 {
			v, err := strconv.ParseFloat(attrs[k], 64)
			if err != nil {
				bad = true
			}
			return v
		}
		var d gradDesc
		var keys []string
		if string(m[1]) == "linearGradient" {
			d = gradDesc{radial: false, coords: []float64{num("x1"), H - num("y1"), num("x2"), H - num("y2")}}
			keys = []string{"id", "gradientUnits", "x1", "y1", "x2", "y2"}
		} else {
			// the focal circle (fx, fy, fr) is where the gradient starts, (cx, cy, r) where it ends
			d = gradDesc{radial: true, coords: []float64{num("fx"), H - num("fy"), num("fr"), num("cx"), H - num("cy"), num("r")}}
			keys = []string{"id", "gradientUnits", "fx", "fy", "fr", "cx", "cy", "r"}
		}
		if len(attrs) != len(keys) { // gradientTransform, spreadMethod, href: not interpreted
			bad = true
		}
		var stops canvas.Stops
		for _, sm := range svgStopRe.FindAllSubmatch(m[3], -1) {
			sa := map[string]string{}
			for _, a := range svgAttrRe2.FindAllSubmatch(sm[1], -1) {
				sa[string(a[1])] = string(a[2])
			}
			off, err := strconv.ParseFloat(sa["offset"], 64)
			kind, rgb, alpha, err2 := svgColour(sa["stop-color"])
			if err != nil || err2 != nil || kind != 2 || alpha != "1" || len(sa) != 2 {
				bad = true
				continue
			}
			stops = append(stops, canvas.Stop{Offset: off, Color: color.RGBA{uint8(rgb[0]), uint8(rgb[1]), uint8(rgb[2]), 255}})
		}
		if bad || len(stops) == 0 {
			continue
		}
		d.col = func(t float64) [3]float64 { return stopsAt(stops, t) }
		ids[id] = gradID(d)
	}
	return ids
}

// pdfFunc evaluates a PDF function dictionary (types 2 and 3) with a three-component range at t
func pdfFunc(f pdftok.Val, t float64) ([3]float64, bool) {
	num := func(v pdftok.Val) float64 {
		if v.K == pdftok.Int {
			return float64(v.I)
		}
		return float64(v.I) / float64(v.D)
	}
	arr := func(k string) []float64 {
		v, ok := f.Get(k)
		if !ok || v.K != pdftok.Arr {
			return nil
		}
		var r []float64
		for _, x := range v.A {
			r = append(r, num(x))
		}
		return r
	}
	ft, _ := f.Get("FunctionType")
	dom := arr("Domain")
	if len(dom) != 2 {
		return [3]float64{}, false
	}
	t = math.Max(dom[0], math.Min(dom[1], t))
	switch ft.I {
	case 2:
		c0, c1 := arr("C0"), arr("C1")
		n, ok := f.Get("N")
		if len(c0) != 3 || len(c1) != 3 || !ok {
			return [3]float64{}, false
		}
		u := math.Pow(t, num(n))
		return [3]float64{c0[0] + u*(c1[0]-c0[0]), c0[1] + u*(c1[1]-c0[1]), c0[2] + u*(c1[2]-c0[2])}, true
	case 3:
		fs, ok := f.Get("Functions")
		bounds, enc := arr("Bounds"), arr("Encode")
		if !ok || fs.K != pdftok.Arr || len(bounds) != len(fs.A)-1 || len(enc) != 2*len(fs.A) {
			return [3]float64{}, false
		}
		k := 0
		for k < len(bounds) && t >= bounds[k] {
			k++
		}
		lo, hi := dom[0], dom[1]
		if k > 0 {
			lo = bounds[k-1]
		}
		if k < len(bounds) {
			hi = bounds[k]
		}
		u := enc[2*k]
		if hi > lo {
			u = enc[2*k] + (t-lo)/(hi-lo)*(enc[2*k+1]-enc[2*k])
		}
		return pdfFunc(fs.A[k], u)
	}
	return [3]float64{}, false
}

// pdfPatterns reads the shading patterns in the page's resources: name -> pool id (99: not a description of a pool gradient)
func pdfPatterns(b []byte) map[string]int {
	ids := map[string]int{}
	f, err := pdftok.Parse(b)
	if err != nil {
		return ids
	}
	const ptPerMm = 72.0 / 25.4
	for _, o := range f.Objs {
		if ty, ok := o.Val.Get("Type"); !ok || string(ty.S) != "Page" {
			continue
		}
		res, _ := o.Val.Get("Resources")
		pats, ok := res.Get("Pattern")
		if !ok {
			continue
		}
		for k, name := range pats.Keys {
			pat := pats.Vals[k]
			ids[name] = 99
			pt, _ := pat.Get("PatternType")
			sh, ok := pat.Get("Shading")
			if pt.I != 2 || !ok || len(pat.Keys) != 3 { // a /Matrix or /ExtGState entry is not interpreted
				continue
			}
			st, _ := sh.Get("ShadingType")
			cs, _ := sh.Get("ColorSpace")
			co, _ := sh.Get("Coords")
			ex, _ := sh.Get("Extend")
			fn, okf := sh.Get("Function")
			if string(cs.S) != "DeviceRGB" || !okf || len(ex.A) != 2 || !ex.A[0].B || !ex.A[1].B || len(sh.Keys) != 5 {
				continue
			}
			var coords []float64
			for _, x := range co.A {
				v := float64(x.I)
				if x.K == pdftok.Real {
					v = float64(x.I) / float64(x.D)
				}
				coords = append(coords, v/ptPerMm)
			}
			d := gradDesc{radial: st.I == 3, coords: coords}
			if !(st.I == 2 && len(coords) == 4 || st.I == 3 && len(coords) == 6) {
				continue
			}
			okAll := true
			d.col = func(t float64) [3]float64 {
				c, ok := pdfFunc(fn, t)
				if !ok {
					okAll = false
				}
				return [3]float64{c[0] * 255, c[1] * 255, c[2] * 255}
			}
			id := gradID(d)
			if okAll {
				ids[name] = id
			}
		}
	}
	return ids
}

func paintTerm(p canvas.Paint) string {
	if p.IsGradient() {
		for j, g := range gradPool {
			if g == p.Gradient {
				return fmt.Sprintf("(PGrad %d%%Z)", j+1)
			}
		}
		return "(PGrad 98%Z)"
	}
	if p.IsPattern() {
		return "(PGrad 97%Z)"
	}
	if p.Color.A == 0 {
		return "PNone"
	}
	return fmt.Sprintf("(PColor (%d, %d, %d, %d)%%Z)", p.Color.R, p.Color.G, p.Color.B, p.Color.A)
}

func limTerm(l float64) string {
	if math.IsNaN(l) {
		return "None"
	}
	return "(Some " + cq.F(l) + ")"
}

func gapTerm(j canvas.Joiner) string {
	switch j.(type) {
	case nil:
		return "GNone"
	case canvas.BevelJoiner:
		return "GBevel"
	case canvas.RoundJoiner:
		return "GRound"
	}
	return "GOther"
}

func joinTerm(j canvas.Joiner) string {
	switch v := j.(type) {
	case canvas.BevelJoiner:
		return "JBevel"
	case canvas.RoundJoiner:
		return "JRound"
	case canvas.MiterJoiner:
		return fmt.Sprintf("(JMiter %s %s)", gapTerm(v.GapJoiner), limTerm(v.Limit))
	case canvas.ArcsJoiner:
		return fmt.Sprintf("(JArcs %s %s)", gapTerm(v.GapJoiner), limTerm(v.Limit))
	}
	return "JBevel"
}

func capCode(c canvas.Capper) int {
	switch c.(type) {
	case canvas.RoundCapper:
		return 1
	case canvas.SquareCapper:
		return 2
	}
	return 0
}

// the outline the rasteriser fills for the stroke (rasterizer.go RenderPath), with the back-ends' tolerance
func refOutline(l layer) *canvas.Path {
	s := l.path
	if 0 < len(l.style.Dashes) {
		off, ds := canvas.ScaleDash(l.style.StrokeWidth, l.style.DashOffset, l.style.Dashes)
		s = s.Dash(off, ds...)
	}
	s = s.Stroke(l.style.StrokeWidth, l.style.StrokeCapper, l.style.StrokeJoiner, canvas.Tolerance)
	return s.Transform(l.m)
}

func drawTerm(l layer, outline string) string {
	s := l.style
	var ds []string
	for _, d := range s.Dashes {
		ds = append(ds, cq.F(d))
	}
	st := fmt.Sprintf("(mkStyle %s %s %s %d%%Z %s %s %s %s)", paintTerm(s.Fill), paintTerm(s.Stroke), cq.F(s.StrokeWidth), capCode(s.StrokeCapper),
		joinTerm(s.StrokeJoiner), cq.F(s.DashOffset), cq.List(ds), cq.Bool(s.FillRule == canvas.EvenOdd))
	g, _ := pathGeo(l.path.Copy().Transform(l.m))
	k := math.Sqrt(math.Abs(l.m.Det()))
	return fmt.Sprintf("(mkDraw %s %s %s %s %s)", st, cq.Bool(isSimilarity(l.m)), cq.F(k), g, outline)
}

// ---------------------------------------------------------------------------------------------------------
// tokenisers

var svgPathRe = regexp.MustCompile(`<path d="([^"]*)"((?: [a-z-]+="[^"]*")*)/>`)
var svgAttrRe = regexp.MustCompile(` ([a-z-]+)="([^"]*)"`)

// svgColour reads the colour syntaxes CSSColor writes: #rgb, #rrggbb, rgba(r,g,b,a); kind 1 none, 2 colour, 3 url()
func svgColour(v string) (kind int, rgb [3]int, alpha string, err error) {
	alpha = "1"
	switch {
	case v == "none":
		return 1, rgb, alpha, nil
	case strings.HasPrefix(v, "url("):
		id, ok := svgGrads[strings.TrimSuffix(strings.TrimPrefix(v, "url(#"), ")")]
		if !ok {
			id = 96 // reference to an element that is not a gradient of the document
		}
		return 3, [3]int{id, 0, 0}, alpha, nil
	case strings.HasPrefix(v, "#") && len(v) == 4:
		for k := 0; k < 3; k++ {
			n, e := strconv.ParseUint(v[1+k:2+k], 16, 8)
			if e != nil {
				return 0, rgb, alpha, e
			}
			rgb[k] = int(n * 17)
		}
		return 2, rgb, alpha, nil
	case strings.HasPrefix(v, "#") && len(v) == 7:
		for k := 0; k < 3; k++ {
			n, e := strconv.ParseUint(v[1+2*k:3+2*k], 16, 8)
			if e != nil {
				return 0, rgb, alpha, e
			}
			rgb[k] = int(n)
		}
		return 2, rgb, alpha, nil
	case strings.HasPrefix(v, "rgba(") && strings.HasSuffix(v, ")"):
		f := strings.Split(v[5:len(v)-1], ",")
		if len(f) != 4 {
			return 0, rgb, alpha, fmt.Errorf("bad colour %q", v)
		}
		for k := 0; k < 3; k++ {
			n, e := strconv.Atoi(f[k])
			if e != nil {
				return 0, rgb, alpha, e
			}
			rgb[k] = n
		}
		a, e := decQ(f[3])
		return 2, rgb, a, e
	}
	return 0, rgb, alpha, fmt.Errorf("unknown colour syntax %q", v)
}

// svgElements reads the <path> elements the SVG back-end wrote into svgel terms (Render/Backends.v)
func svgElements(b []byte) ([]string, string, error) {
	var els []string
	var raw []string
	for _, m := range svgPathRe.FindAllSubmatch(b, -1) {
		raw = append(raw, string(m[0]))
		p, err := canvas.ParseSVGPath(string(m[1]))
		if err != nil {
			return nil, "", fmt.Errorf("path data %q: %v", m[1], err)
		}
		geo, ok := pathGeo(p.ReplaceArcs())
		if !ok {
			return nil, "", fmt.Errorf("path data %q: not M/L/C/Z", m[1])
		}
		attrs := map[string]string{}
		for _, a := range svgAttrRe.FindAllSubmatch(m[2], -1) {
			attrs[string(a[1])] = string(a[2])
		}
		if st, ok := attrs["style"]; ok {
			for _, kv := range strings.Split(st, ";") {
				if i := strings.IndexByte(kv, ':'); i > 0 {
					attrs[kv[:i]] = kv[i+1:]
				}
			}
			delete(attrs, "style")
		}
		fk, frgb, fa := 0, [3]int{}, "1"
		sk, srgb, sa := 0, [3]int{}, "1"
		eo := false
		optQ := func(k string) (string, error) {
			v, ok := attrs[k]
			if !ok {
				return "None", nil
			}
			q, err := decQ(v)
			return "(Some " + q + ")", err
		}
		var err2 error
		if v, ok := attrs["fill"]; ok {
			if fk, frgb, fa, err2 = svgColour(v); err2 != nil {
				return nil, "", err2
			}
		}
		if v, ok := attrs["stroke"]; ok {
			if sk, srgb, sa, err2 = svgColour(v); err2 != nil {
				return nil, "", err2
			}
		}
		if v, ok := attrs["fill-rule"]; ok {
			eo = v == "evenodd"
		}
		width, err := optQ("stroke-width")
		if err != nil {
			return nil, "", err
		}
		ml, err := optQ("stroke-miterlimit")
		if err != nil {
			return nil, "", err
		}
		off, err := optQ("stroke-dashoffset")
		if err != nil {
			return nil, "", err
		}
		capT, joinT, dashT := "None", "None", "None"
		switch attrs["stroke-linecap"] {
		case "round":
			capT = "(Some 1%Z)"
		case "square":
			capT = "(Some 2%Z)"
		case "butt":
			capT = "(Some 0%Z)"
		}
		switch attrs["stroke-linejoin"] {
		case "round":
			joinT = "(Some 1%Z)"
		case "bevel":
			joinT = "(Some 2%Z)"
		case "arcs":
			joinT = "(Some 3%Z)"
		case "miter":
			joinT = "(Some 0%Z)"
		}
		if v, ok := attrs["stroke-dasharray"]; ok && v != "none" {
			var ds []string
			for _, f := range strings.FieldsFunc(v, func(r rune) bool { return r == ' ' || r == ',' }) {
				q, err := decQ(f)
				if err != nil {
					return nil, "", err
				}
				ds = append(ds, q)
			}
			dashT = "(Some " + cq.List(ds) + ")"
		}
		for k := range attrs {
			switch k {
			case "fill", "stroke", "fill-rule", "stroke-width", "stroke-miterlimit", "stroke-dashoffset", "stroke-linecap", "stroke-linejoin", "stroke-dasharray":
			default:
				return nil, "", fmt.Errorf("unexpected attribute %q on a path element", k)
			}
		}
		els = append(els, fmt.Sprintf("(mkSvg %s %d%%Z (%d, %d, %d)%%Z %s %s %d%%Z (%d, %d, %d)%%Z %s %s %s %s %s %s %s)", geo, fk, frgb[0], frgb[1], frgb[2], fa, cq.Bool(eo),
			sk, srgb[0], srgb[1], srgb[2], sa, width, capT, joinT, ml, dashT, off))
	}
	return els, strings.Join(raw, "\n"), nil
}

func pdfContent(b []byte) ([]byte, map[string]string, error) {
	// uncompressed single page: first stream object is the page content; ExtGState in the page dictionary
	i := bytes.Index(b, []byte(">>stream\n"))
	if i < 0 {
		return nil, nil, fmt.Errorf("no stream")
	}
	hdr := b[:i]
	m := regexp.MustCompile(`/Length (\d+)`).FindAllSubmatch(hdr, -1)
	if m == nil {
		return nil, nil, fmt.Errorf("no Length")
	}
	n, _ := strconv.Atoi(string(m[len(m)-1][1]))
	data := b[i+9 : i+9+n]
	gs := map[string]string{}
	for _, mm := range regexp.MustCompile(`/(A\d+)<<([^>]*)>>`).FindAllSubmatch(b[i+9+n:], -1) {
		ca := regexp.MustCompile(`/CA ([0-9.]+)`).FindSubmatch(mm[2])
		cb := regexp.MustCompile(`/ca ([0-9.]+)`).FindSubmatch(mm[2])
		if ca == nil || cb == nil || string(ca[1]) != string(cb[1]) {
			return nil, nil, fmt.Errorf("ExtGState %s: CA/ca missing or different", mm[1])
		}
		gs[string(mm[1])] = string(ca[1])
	}
	return data, gs, nil
}

var pdfPats map[string]int

func pdfTokens(data []byte, gs map[string]string) ([]string, string, error) {
	fields := strings.Fields(string(data))
	var toks, stack, segs []string
	raw := []string{}
	flush := func() {
		if segs != nil {
			toks = append(toks, "Tpath "+geoTerm(segs))
			segs = nil
		}
	}
	q := func(k int) ([]string, error) {
		if len(stack) < k {
			return nil, fmt.Errorf("operand stack underflow")
		}
		var r []string
		for _, s := range stack[len(stack)-k:] {
			t, err := decQ(s)
			if err != nil {
				return nil, err
			}
			r = append(r, t)
		}
		stack = stack[:len(stack)-k]
		return r, nil
	}
	var dashArr []string
	inArr := false
	for _, f := range fields {
		// arrays: "[", "[1", "2]", "[]"
		if strings.HasPrefix(f, "[") {
			inArr = true
			dashArr = nil
			f = f[1:]
		}
		if inArr {
			end := strings.HasSuffix(f, "]")
			f = strings.TrimSuffix(f, "]")
			if f != "" {
				t, err := decQ(f)
				if err != nil {
					return nil, "", err
				}
				dashArr = append(dashArr, t)
			}
			if end {
				inArr = false
			}
			continue
		}
		if isNum(f) || strings.HasPrefix(f, "/") {
			stack = append(stack, f)
			continue
		}
		raw = append(raw, f)
		var err error
		var a []string
		switch f {
		case "m", "l":
			if a, err = q(2); err == nil {
				segs = append(segs, segTerm(map[string]int{"m": 0, "l": 1}[f], a))
			}
		case "c":
			if a, err = q(6); err == nil {
				segs = append(segs, segTerm(2, a))
			}
		case "h":
			segs = append(segs, segTerm(3, nil))
		case "f", "f*", "S", "s", "B", "B*", "b", "b*", "S*", "s*":
			if segs == nil {
				segs = []string{}
			}
			flush()
			toks = append(toks, fmt.Sprintf("Tpaint %d%%Z", map[string]int{"f": 0, "f*": 1, "S": 2, "s": 3, "B": 4, "B*": 5, "b": 6, "b*": 7, "S*": 8, "s*": 9}[f]))
		case "g", "G", "w", "M":
			if a, err = q(1); err == nil {
				toks = append(toks, "T"+f+" "+a[0])
			}
		case "rg", "RG":
			if a, err = q(3); err == nil {
				toks = append(toks, "T"+f+" "+strings.Join(a, " "))
			}
		case "J", "j":
			if len(stack) < 1 {
				err = fmt.Errorf("underflow")
			} else {
				toks = append(toks, "T"+f+" "+stack[len(stack)-1]+"%Z")
				stack = stack[:len(stack)-1]
			}
		case "d":
			if a, err = q(1); err == nil {
				toks = append(toks, "Td "+cq.List(dashArr)+" "+a[0])
			}
		case "gs":
			name := strings.TrimPrefix(stack[len(stack)-1], "/")
			stack = stack[:len(stack)-1]
			v, ok := gs[name]
			if !ok {
				err = fmt.Errorf("unknown ExtGState %s", name)
			} else {
				var t string
				if t, err = decQ(v); err == nil {
					toks = append(toks, "Tgs "+t)
				}
			}
		case "cm":
			if a, err = q(6); err == nil {
				if a[0] != a[3] || stack != nil && false {
					toks = append(toks, "Tother")
				} else {
					toks = append(toks, "Tcm "+a[0])
				}
			}
		case "cs", "CS":
			// the colour space of the next scn/SCN: only /Pattern is written
			if len(stack) < 1 || stack[len(stack)-1] != "/Pattern" {
				toks = append(toks, "Tother")
			}
			stack = nil
		case "scn", "SCN":
			if len(stack) != 1 || !strings.HasPrefix(stack[0], "/") {
				toks = append(toks, "Tother")
			} else {
				id, ok := pdfPats[stack[0][1:]]
				if !ok {
					id = 96
				}
				toks = append(toks, fmt.Sprintf("T%s %d%%Z", f, id))
			}
			stack = nil
		default:
			stack = nil
			toks = append(toks, "Tother")
		}
		if err != nil {
			return nil, "", fmt.Errorf("%s: %v", f, err)
		}
	}
	return toks, strings.Join(raw, " "), nil
}

func psTokens(b []byte) ([]string, bool, error) {
	var body []string
	for _, line := range strings.Split(string(b), "\n") {
		if strings.HasPrefix(line, "%") || strings.HasPrefix(line, "/ellipse") {
			continue
		}
		body = append(body, line)
	}
	text := strings.Join(body, " ")
	text = strings.ReplaceAll(text, "[", " [ ")
	text = strings.ReplaceAll(text, "]", " ] ")
	fields := strings.Fields(text)
	var toks, stack, segs, arr []string
	hasArc := false
	flush := func() {
		if segs != nil {
			toks = append(toks, "Ppath "+geoTerm(segs))
			segs = nil
		}
	}
	q := func(k int) ([]string, error) {
		if len(stack) < k {
			return nil, fmt.Errorf("operand stack underflow")
		}
		var r []string
		for _, s := range stack[len(stack)-k:] {
			t, err := decQ(s)
			if err != nil {
				return nil, err
			}
			r = append(r, t)
		}
		stack = stack[:len(stack)-k]
		return r, nil
	}
	inArr := false
	for _, f := range fields {
		if f == "[" {
			inArr, arr = true, nil
			continue
		}
		if f == "]" {
			inArr = false
			continue
		}
		if inArr {
			t, err := decQ(f)
			if err != nil {
				return nil, false, err
			}
			arr = append(arr, t)
			continue
		}
		if isNum(f) {
			stack = append(stack, f)
			continue
		}
		var err error
		var a []string
		switch f {
		case "moveto", "lineto":
			if a, err = q(2); err == nil {
				segs = append(segs, segTerm(map[string]int{"moveto": 0, "lineto": 1}[f], a))
			}
		case "curveto":
			if a, err = q(6); err == nil {
				segs = append(segs, segTerm(2, a))
			}
		case "closepath":
			segs = append(segs, segTerm(3, nil))
		case "ellipse", "ellipsen":
			_, err = q(7)
			hasArc = true
			segs = append(segs, segTerm(7, nil))
		case "fill", "eofill", "stroke", "gsave", "grestore":
			flush()
			toks = append(toks, map[string]string{"fill": "Pfill", "eofill": "Peofill", "stroke": "Pstroke", "gsave": "Pgsave", "grestore": "Pgrestore"}[f])
		case "setgray", "setlinewidth", "setmiterlimit":
			flush()
			if a, err = q(1); err == nil {
				toks = append(toks, map[string]string{"setgray": "Pgray", "setlinewidth": "Plw", "setmiterlimit": "Pml"}[f]+" "+a[0])
			}
		case "setrgbcolor":
			flush()
			if a, err = q(3); err == nil {
				toks = append(toks, "Prgb "+strings.Join(a, " "))
			}
		case "setlinecap", "setlinejoin":
			flush()
			if len(stack) < 1 {
				err = fmt.Errorf("underflow")
			} else {
				toks = append(toks, map[string]string{"setlinecap": "Pcap", "setlinejoin": "Pjoin"}[f]+" "+stack[len(stack)-1]+"%Z")
				stack = stack[:len(stack)-1]
			}
		case "setdash":
			flush()
			if a, err = q(1); err == nil {
				toks = append(toks, "Pdash "+cq.List(arr)+" "+a[0])
			}
		default:
			flush()
			stack = nil
			toks = append(toks, "Pother")
		}
		if err != nil {
			return nil, false, fmt.Errorf("%s: %v", f, err)
		}
	}
	flush()
	return toks, hasArc, nil
}

// ---------------------------------------------------------------------------------------------------------
// generator

var palette = []color.RGBA{
	{0, 0, 0, 255}, {255, 0, 0, 255}, {128, 0, 0, 128}, {100, 0, 0, 128}, {100, 0, 0, 255}, {0, 0, 0, 128},
	{128, 128, 128, 255}, {64, 64, 64, 128}, {0, 0, 255, 255}, {0, 0, 128, 128}, {10, 200, 30, 255}, {199, 0, 0, 255},
}

func genPath(r *rng.R) *canvas.Path {
	p := &canvas.Path{}
	for sp := 0; sp < r.Range(1, 2); sp++ {
		g := func() float64 { return float64(r.Range(-40, 40)) * 0.25 }
		p.MoveTo(g(), g())
		for k := 0; k < r.Range(1, 5); k++ {
			if r.P(1, 4) {
				p.CubeTo(g(), g(), g(), g(), g(), g())
			} else {
				p.LineTo(g(), g())
			}
		}
		if r.Bool() {
			p.Close()
		}
	}
	return p
}

// isSimilarity is the harness's own classification of a view (rows of the linear part orthogonal and of equal length); the
// generated views are far from the border line
func isSimilarity(m canvas.Matrix) bool {
	a := m[0][0]*m[0][0] + m[0][1]*m[0][1]
	b := m[1][0]*m[1][0] + m[1][1]*m[1][1]
	c := m[0][0]*m[1][0] + m[0][1]*m[1][1]
	return math.Abs(a-b) <= 1e-9*math.Max(a, b) && math.Abs(c) <= 1e-9*math.Max(a, b)
}

func genView(r *rng.R) (canvas.Matrix, string) {
	rots := [][2]float64{{1, 0}, {0.6, 0.8}, {0, 1}, {-0.8, 0.6}, {5.0 / 13, 12.0 / 13}, {-1, 0}}
	rot := func(m canvas.Matrix) canvas.Matrix {
		cs := rng.Pick(r, rots)
		return m.Mul(canvas.Matrix{{cs[0], -cs[1], 0}, {cs[1], cs[0], 0}})
	}
	m := canvas.Identity.Translate(float64(r.Range(20, 60)), float64(r.Range(20, 60)))
	switch r.Intn(9) {
	case 0:
		return m, "translate"
	case 8:
		// a diagonal rotation after a non-uniform scale: rows of equal length, columns orthogonal, not a similarity
		m = m.Rotate(rng.Pick(r, []float64{45, 135, 225, 315})).Scale(rng.Pick(r, []float64{2, 0.5, 3}), rng.Pick(r, []float64{1, 1.5, -1}))
		return m, "rotate45+nonuniform"
	case 1:
		return m.Scale(rng.Pick(r, []float64{0.5, 2, 1.5, 0.25}), 1).Scale(1, 1), "nonuniform"
	case 2:
		s := rng.Pick(r, []float64{0.5, 2, 1.5, 3})
		return m.Scale(s, s), "scale"
	case 3:
		return rot(m), "rotate"
	case 4:
		s := rng.Pick(r, []float64{0.5, 2, 1.25})
		return rot(m).Scale(s, s), "rotate+scale"
	case 5:
		return rot(m).ReflectX(), "reflect"
	case 6:
		return m.Shear(rng.Pick(r, []float64{0.5, -0.25, 1}), 0), "shear"
	default:
		return rot(m).Scale(2, 0.5), "rotate+nonuniform"
	}
}

func main() {
	seed := flag.Uint64("seed", 1, "")
	n := flag.Int("n", 100, "")
	only := flag.Int("only", -1, "")
	flag.Parse()
	o := out.New()
	defer o.Close()
	root := rng.New(*seed)
	for i := 0; i < *n; i++ {
		if *only >= 0 && i != *only {
			continue
		}
		r := root.Fork(uint64(i))
		W, H := 100.0, 80.0
		c := canvas.New(W, H)
		ctx := canvas.NewContext(c)
		ctx.SetCoordSystem(rng.Pick(r, []canvas.CoordSystem{canvas.CartesianI, canvas.CartesianI, canvas.CartesianII, canvas.CartesianIII, canvas.CartesianIV}))
		nd := r.Range(1, 12)
		pool := []int{r.Intn(len(palette)), r.Intn(len(palette)), r.Intn(len(palette))} // few colours: they repeat and collide
		widths := []float64{1, 1, 2, 0.5, rng.Pick(r, []float64{0.25, 3, 1.5})}
		var views []string
		// one program in four draws with gradients as well: a pool of 1-3 linear / radial gradients in canvas coordinates, whose
		// circles and end points differ in both coordinates, with 2-4 opaque stops that need not start at 0 or end at 1
		gradPool = nil
		if r.P(1, 4) {
			q4 := func(lo, hi int) float64 { return float64(r.Range(4*lo, 4*hi)) / 4 }
			opaque := []color.RGBA{{255, 0, 0, 255}, {0, 255, 0, 255}, {0, 0, 255, 255}, {255, 255, 0, 255}, {30, 60, 90, 255}, {255, 255, 255, 255}, {0, 0, 0, 255}, {200, 100, 50, 255}}
			for j, ng := 0, r.Range(1, 3); j < ng; j++ {
				var g canvas.Gradient
				offs := rng.Pick(r, [][]float64{{0, 1}, {0, 0.5, 1}, {0.2, 0.8}, {0, 0.25, 0.6, 1}, {0.1, 0.5, 1}})
				if r.Bool() {
					lg := canvas.NewLinearGradient(canvas.Point{X: q4(0, 40), Y: q4(0, 30)}, canvas.Point{X: q4(50, 100), Y: q4(40, 80)})
					for _, o := range offs {
						lg.Add(o, rng.Pick(r, opaque))
					}
					g = lg
				} else {
					r0 := q4(0, 5)
					rg := canvas.NewRadialGradient(canvas.Point{X: q4(20, 50), Y: q4(20, 40)}, r0, canvas.Point{X: q4(30, 70), Y: q4(41, 60)}, r0+q4(5, 40))
					for _, o := range offs {
						rg.Add(o, rng.Pick(r, opaque))
					}
					g = rg
				}
				gradPool = append(gradPool, g)
			}
		}
		var sharedDashes []float64
		if r.P(1, 5) {
			sharedDashes = append(make([]float64, 0, 8), 2, 1)
			ctx.SetCoordSystem(canvas.CartesianI)
		}
		for k := 0; k < nd; k++ {
			kind := r.Intn(4) // 0 fill, 1 stroke, 2 both, 3 both
			fill, stroke := canvas.Transparent, canvas.Transparent
			if kind != 1 {
				fill = palette[rng.Pick(r, pool)]
			}
			if kind != 0 {
				stroke = palette[rng.Pick(r, pool)]
			}
			ctx.SetFillColor(fill)
			ctx.SetStrokeColor(stroke)
			if len(gradPool) > 0 && kind != 1 && r.P(1, 2) {
				ctx.SetFillGradient(rng.Pick(r, gradPool))
			}
			if len(gradPool) > 0 && kind != 0 && r.P(1, 4) {
				ctx.SetStrokeGradient(rng.Pick(r, gradPool))
			}
			ctx.SetStrokeWidth(rng.Pick(r, widths))
			ctx.SetStrokeCapper(rng.Pick(r, []canvas.Capper{canvas.ButtCap, canvas.ButtCap, canvas.SquareCap, canvas.RoundCap}))
			ctx.SetStrokeJoiner(rng.Pick(r, []canvas.Joiner{canvas.BevelJoin, canvas.MiterJoin, canvas.MiterJoin, canvas.RoundJoin,
				canvas.MiterJoiner{GapJoiner: canvas.BevelJoin, Limit: 10}, canvas.MiterJoiner{GapJoiner: canvas.BevelJoin, Limit: 2},
				canvas.MiterClipJoin, canvas.MiterJoiner{GapJoiner: canvas.BevelJoin, Limit: math.NaN()}, canvas.MiterJoiner{GapJoiner: canvas.RoundJoin, Limit: 4}}))
			switch r.Intn(7) {
			case 0:
				ctx.SetDashes(0, 2, 1)
			case 1:
				ctx.SetDashes(rng.Pick(r, []float64{0.5, -0.5, 1, -4}), 2, 1)
			case 2:
				ctx.SetDashes(0.25, 1, 0.5, 2)
			case 3: // odd number of entries with a negative offset: doubled array, phase raised by whole (doubled) periods
				ctx.SetDashes(rng.Pick(r, []float64{-0.5, -1.25, -3, -3.5, -5.25, -7.5}), 1, 0.5, 2)
			case 4:
				ctx.SetDashes(rng.Pick(r, []float64{-0.5, -1, -2.5, 1.5}), 1.5)
			default:
				ctx.SetDashes(0)
			}
			if r.P(1, 4) {
				ctx.SetFillRule(canvas.EvenOdd)
			} else {
				ctx.SetFillRule(canvas.NonZero)
			}
			m, vn := genView(r)
			views = append(views, vn)
			if sharedDashes != nil {
				// styles handed to Canvas.RenderPath directly, all with ONE dash slice (spare capacity) and their own offsets: a
				// back-end must neither write into the caller's slice nor keep it
				st := ctx.Style
				st.Dashes = sharedDashes
				st.DashOffset = rng.Pick(r, []float64{0, 0.5, 1.5, 2.25})
				if !st.HasStroke() {
					st.Dashes = nil
				}
				c.RenderPath(genPath(r), st, m)
				continue
			}
			ctx.SetView(m)
			ctx.DrawPath(0, 0, genPath(r))
		}
		rec := &recorder{w: W, h: H}
		c.RenderTo(rec)
		if len(rec.layers) == 0 {
			continue
		}
		var drawsW, drawsRef, drawsRefSvg, layerDesc []string
		svgRefErr := ""
		arcs := false
		hasGrad := false
		strokePanic := ""
		for _, l := range rec.layers {
			ref := "nil"
			if l.style.HasStroke() {
				var rp *canvas.Path
				func() {
					defer func() {
						if e := recover(); e != nil {
							strokePanic = fmt.Sprintf("Path.Stroke panic: %v (path=%s width=%v cap=%v join=%v dashes=%v)", e, l.path.String(), l.style.StrokeWidth, l.style.StrokeCapper, l.style.StrokeJoiner, l.style.Dashes)
							rp = &canvas.Path{}
						}
					}()
					rp = refOutline(l).ReplaceArcs()
				}()
				var ok bool
				if ref, ok = pathGeo(rp); !ok {
					arcs = true
				}
			}
			drawsW = append(drawsW, drawTerm(l, "((9%Z, nil) :: nil)"))
			drawsRef = append(drawsRef, drawTerm(l, ref))
			// SVG: the reference outline goes through the same printing (8 significant digits) and parsing as the element
			// it is compared with (printing/parsing are C11's subject), in SVG space, and is flipped back
			refS := "nil"
			if l.style.HasStroke() && strokePanic == "" {
				func() {
					defer func() {
						if e := recover(); e != nil {
							svgRefErr = fmt.Sprintf("reference outline for SVG: %v", e)
						}
					}()
					flip := canvas.Identity.ReflectYAbout(H / 2.0)
					s0 := l.path
					if 0 < len(l.style.Dashes) {
						off, ds := canvas.ScaleDash(l.style.StrokeWidth, l.style.DashOffset, l.style.Dashes)
						s0 = s0.Dash(off, ds...)
					}
					s0 = s0.Stroke(l.style.StrokeWidth, l.style.StrokeCapper, l.style.StrokeJoiner, canvas.Tolerance)
					s0 = s0.Transform(flip.Mul(l.m))
					q2, err := canvas.ParseSVGPath(s0.ToSVG())
					if err != nil {
						svgRefErr = "reference outline for SVG: " + err.Error()
						return
					}
					var ok bool
					if refS, ok = pathGeo(q2.ReplaceArcs().Transform(flip)); !ok {
						svgRefErr = "reference outline for SVG: not M/L/C/Z"
					}
				}()
			}
			drawsRefSvg = append(drawsRefSvg, drawTerm(l, refS))
			pdesc := func(p canvas.Paint) string {
				if p.IsGradient() {
					return fmt.Sprintf("gradient%s %+v", paintTerm(p), p.Gradient)
				}
				return fmt.Sprint(p.Color)
			}
			hasGrad = hasGrad || l.style.HasFill() && l.style.Fill.IsGradient() || l.style.HasStroke() && l.style.Stroke.IsGradient()
			layerDesc = append(layerDesc, fmt.Sprintf("path=%s fill=%v stroke=%v width=%v cap=%v join=%v dashes=%v offset=%v rule=%v m=%v",
				l.path.String(), pdesc(l.style.Fill), pdesc(l.style.Stroke), l.style.StrokeWidth, l.style.StrokeCapper, l.style.StrokeJoiner, l.style.Dashes, l.style.DashOffset, l.style.FillRule, l.m))
		}
		desc := map[string]interface{}{"layers": layerDesc, "views": views}
		if os.Getenv("C12_DEBUG") != "" {
			fmt.Fprintln(os.Stderr, strings.Join(layerDesc, "\n"))
		}
		emit := func(fam, ctor string, toks []string, raw string, err error, extra string) {
			d := map[string]interface{}{}
			for k, v := range desc {
				d[k] = v
			}
			d["operators"] = raw
			if err == nil && strokePanic != "" {
				err = fmt.Errorf("%s", strokePanic)
			}
			if err != nil {
				d["harness_error"] = err.Error()
				o.Emit(out.Case{I: i, Fam: fam, Coq: "KBad12", Desc: d})
				return
			}
			term := fmt.Sprintf("%s %s %s %s %s", ctor, cq.List(drawsW), cq.List(drawsRef), cq.List(toks), extra)
			o.Emit(out.Case{I: i, Fam: fam, Coq: term, Desc: d})
		}
		run := func(f func() ([]byte, error)) (b []byte, err error) {
			defer func() {
				if e := recover(); e != nil {
					err = fmt.Errorf("panic: %v", e)
				}
			}()
			return f()
		}
		// PDF
		b, err := run(func() ([]byte, error) {
			buf := &bytes.Buffer{}
			p := pdf.New(buf, W, H, &pdf.Options{Compress: false, SubsetFonts: false, ImageEncoding: canvas.Lossless})
			c.RenderTo(p)
			err := p.Close()
			return buf.Bytes(), err
		})
		var toks []string
		raw := ""
		if err == nil {
			var data []byte
			var gs map[string]string
			if data, gs, err = pdfContent(b); err == nil {
				pdfPats = pdfPatterns(b)
				toks, raw, err = pdfTokens(data, gs)
			}
		}
		emit("pdf", "KPdf", toks, raw, err, cq.Bool(arcs))
		// PS
		b, err = run(func() ([]byte, error) {
			buf := &bytes.Buffer{}
			p := ps.New(buf, W, H, nil)
			c.RenderTo(p)
			err := p.Close()
			return buf.Bytes(), err
		})
		hasArc := false
		raw = ""
		if err == nil {
			toks, hasArc, err = psTokens(b)
			if i0 := bytes.Index(b, []byte("}def\n")); i0 >= 0 {
				raw = string(b[bytes.LastIndex(b, []byte("}def"))+4:])
			}
		}
		psFam := "ps"
		if hasGrad {
			psFam = "ps-gradient" // PostScript output of a program with gradient paints
		}
		emit(psFam, "KPs", toks, raw, err, cq.Bool(arcs || hasArc))
		// SVG (no writer model: the elements are interpreted and judged against the layers)
		b, err = run(func() ([]byte, error) {
			buf := &bytes.Buffer{}
			so := svg.DefaultOptions
			so.Compression = 0
			p := svg.New(buf, W, H, &so)
			c.RenderTo(p)
			err := p.Close()
			return buf.Bytes(), err
		})
		var els []string
		raw = ""
		if err == nil {
			svgGrads = svgGradients(b, H)
			els, raw, err = svgElements(b)
		}
		if err == nil && svgRefErr != "" {
			err = fmt.Errorf("%s", svgRefErr)
		}
		func() {
			d := map[string]interface{}{}
			for k, v := range desc {
				d[k] = v
			}
			d["operators"] = raw
			if err == nil && strokePanic != "" {
				err = fmt.Errorf("%s", strokePanic)
			}
			if err != nil {
				d["harness_error"] = err.Error()
				o.Emit(out.Case{I: i, Fam: "svg", Coq: "KBad12", Desc: d})
				return
			}
			o.Emit(out.Case{I: i, Fam: "svg", Coq: fmt.Sprintf("KSvg %s %s %s", cq.List(drawsRefSvg), cq.List(els), cq.F(H)), Desc: d})
		}()
	}
}

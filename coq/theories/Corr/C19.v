(** Correspondence judge for C19.
    case: the document AST, what ParseSVG returned (canvas size, error) and the layers recorded when the canvas is
    rendered to a recording renderer (path commands, style tokens, matrix), all floats exact as dyadics.
    Tie flags (faithful walker <> Go):      1 size  2 layer count  4 path tokens  8 matrix  16 style tokens
    Property flags (Go <> specification):   1 canvas size  2 number of painted shapes  4 geometry  8 fill/stroke paint
                                            16 stroke width/cap/join  32 ParseSVG returned an error  64 panic / unexpected layer
    Sensitivity bits (which optional features the document exercises, for known-finding triggers):
        1 cascade result depends on selector specificity (not only on rule order)   2 viewBox aspect ratio differs
        4 skew transform present
    Comparisons of computed numbers use the explicit slack [eps] = 2^-30 (relative to 1 + magnitudes): Go computes
    in binary64, the model in Q. *)
From Coq Require Import ZArith QArith Qminmax Qabs List Bool String.
From CV Require Import Base.Dy Geom.Matrix Svg.Import.
Import ListNotations.
Open Scope Q_scope.

Definition eps : Q := 1 # 1073741824.

Definition qclose (a b : Q) : bool := Qle_bool (Qabs (a - b)) (eps * (1 + Qabs a + Qabs b)).
Definition ptclose (p q : qpt) : bool := qclose (fst p) (fst q) && qclose (snd p) (snd q).
Definition qeqb (a b : Q) : bool := Qeq_bool a b.
Definition pteqb (p q : qpt) : bool := qeqb (fst p) (fst q) && qeqb (snd p) (snd q).

Definition mclose (m q : mat) : bool :=
  qclose (ma m) (ma q) && qclose (mb m) (mb q) && qclose (mc m) (mc q) &&
  qclose (md m) (md q) && qclose (me m) (me q) && qclose (mf m) (mf q).
(** linear parts only, scale-aware *)
Definition linclose (m q : mat) : bool :=
  qclose (ma m) (ma q) && qclose (mb m) (mb q) && qclose (md m) (md q) && qclose (me m) (me q).

Record case19 := mkCase19 {
  kDoc : doc; kW : Q; kH : Q; kLayers : list layer; kErr : bool; kBad : bool }.

(* ---- exact comparison of path tokens (K1) ---- *)
Definition gcmd_eqb (a b : gcmd) : bool :=
  match a, b with
  | GM p, GM q | GL p, GL q => pteqb p q
  | GQ c p, GQ c' p' => pteqb c c' && pteqb p p'
  | GC c1 c2 p, GC d1 d2 q => pteqb c1 d1 && pteqb c2 d2 && pteqb p q
  | GA rx ry rot l s p, GA rx' ry' rot' l' s' p' =>
      qeqb rx rx' && qeqb ry ry' && qeqb rot rot' && Bool.eqb l l' && Bool.eqb s s' && pteqb p p'
  | GZ, GZ => true
  | _, _ => false
  end.

Fixpoint list_eqb {A} (f : A -> A -> bool) (l1 l2 : list A) : bool :=
  match l1, l2 with
  | [], [] => true
  | a :: t1, b :: t2 => f a b && list_eqb f t1 t2
  | _, _ => false
  end.

Definition style_eqb (a b : sstyle) : bool :=
  (ssfill a =? ssfill b)%Z && (ssstroke a =? ssstroke b)%Z && qeqb (sswidth a) (sswidth b) &&
  (sscap a =? sscap b)%Z && (ssjoin a =? ssjoin b)%Z.

(* ---- geometry up to start point of a closed outline (K2) ---- *)

(** a segment in canvas coordinates: kind (1 line 2 quad 3 cubic 4 arc), start, controls, end, arc parameters *)
Record seg := mkSeg { skind : Z; sp0 : qpt; sc1 : qpt; sc2 : qpt; sp1 : qpt; sarc : Q * Q * Q * bool * bool }.
Definition noarc : Q * Q * Q * bool * bool := (0, 0, 0, false, false).

Fixpoint segs_of (m : mat) (cur start : qpt) (g : list gcmd) : list seg :=
  match g with
  | [] => []
  | c :: t =>
    match c with
    | GM p => segs_of m (mdot m p) (mdot m p) t
    | GL p => mkSeg 1 cur (0, 0) (0, 0) (mdot m p) noarc :: segs_of m (mdot m p) start t
    | GQ c1 p => mkSeg 2 cur (mdot m c1) (0, 0) (mdot m p) noarc :: segs_of m (mdot m p) start t
    | GC c1 c2 p => mkSeg 3 cur (mdot m c1) (mdot m c2) (mdot m p) noarc :: segs_of m (mdot m p) start t
    | GA rx ry rot l s p => mkSeg 4 cur (0, 0) (0, 0) (mdot m p) (rx, ry, rot, l, s) :: segs_of m (mdot m p) start t
    | GZ => mkSeg 1 cur (0, 0) (0, 0) start noarc :: segs_of m start start t
    end
  end.

Definition zero_line (s : seg) : bool := (skind s =? 1)%Z && ptclose (sp0 s) (sp1 s).
(** two consecutive lines of which the second continues the first in exactly the same direction trace one line (Path.Close
    turns a final LineTo that points straight at the start point into the Close itself: "M29.5 2.25L21.5 10.25L29.5 21.5V3Z"
    is stored as M29.5 2.25L21.5 10.25L29.5 21.5z).  Exact test, so it applies to the specification's rational segments. *)
Definition continues (a b : seg) : bool :=
  (skind a =? 1)%Z && (skind b =? 1)%Z && peq (sp1 a) (sp0 b) && same_dir (psub (sp1 a) (sp0 a)) (psub (sp1 b) (sp0 b)).
Fixpoint merge_lines (l : list seg) : list seg :=
  match l with
  | a :: t =>
      match merge_lines t with
      | b :: t' => if continues a b then mkSeg 1 (sp0 a) (0, 0) (0, 0) (sp1 b) noarc :: t' else a :: b :: t'
      | [] => [a]
      end
  | [] => []
  end.
(** merging is decided in the geometry's own coordinates (exact for the specification; a singular or nearly singular matrix makes
    everything collinear after the transformation, where Go's rounded numbers and the exact ones would be merged differently) *)
Definition xform (m : mat) (s : seg) : seg :=
  mkSeg (skind s) (mdot m (sp0 s)) (if (skind s =? 2)%Z || (skind s =? 3)%Z then mdot m (sc1 s) else sc1 s)
        (if (skind s =? 3)%Z then mdot m (sc2 s) else sc2 s) (mdot m (sp1 s)) (sarc s).
Definition nz_segs (m : mat) (g : list gcmd) : list seg :=
  filter (fun s => negb (zero_line s))
         (map (xform m) (merge_lines (filter (fun s => negb ((skind s =? 1)%Z && peq (sp0 s) (sp1 s))) (segs_of mid (0, 0) (0, 0) g)))).

(** the same ellipse has several (rx, ry, rotation) descriptions: canonical form rx >= ry, rotation in [0,180), 0 for circles *)
Definition arc_norm (a : Q * Q * Q * bool * bool) : Q * Q * Q * bool * bool :=
  let '(rx, ry, rot, l, s) := a in
  let '(rx, ry, rot) := if Qeq_bool rx ry then (rx, ry, 0) else if Qltb rx ry then (ry, rx, rot + 90) else (rx, ry, rot) in
  let rot := if Qle_bool 180 rot then rot - 180 else if Qltb rot 0 then rot + 180 else rot in
  (rx, ry, rot, l, s).

Definition seg_close (a b : seg) : bool :=
  (skind a =? skind b)%Z && ptclose (sp0 a) (sp0 b) && ptclose (sp1 a) (sp1 b) &&
  ptclose (sc1 a) (sc1 b) && ptclose (sc2 a) (sc2 b) &&
  let '(rx, ry, rot, l, s) := arc_norm (sarc a) in let '(rx', ry', rot', l', s') := arc_norm (sarc b) in
  qclose rx rx' && qclose ry ry' && qclose rot rot' && Bool.eqb l l' && Bool.eqb s s'.

Definition rotl {A} (k : nat) (l : list A) : list A := skipn k l ++ firstn k l.

Definition is_closed (g : list gcmd) : bool := match rev g with GZ :: _ => true | _ => false end.
Definition has_arc (g : list gcmd) : bool := existsb (fun c => match c with GA _ _ _ _ _ _ => true | _ => false end) g.
Definition nmoves (g : list gcmd) : nat := List.length (filter (fun c => match c with GM _ => true | _ => false end) g).

(** the drawn outline [g1] under [m1] is the outline [g2] under [m2]: same segments in the same order, for a closed
    single outline up to the choice of the start point; arcs additionally need equal linear parts so that the
    radii mean the same *)
Definition geom_same (g1 : list gcmd) (m1 : mat) (g2 : list gcmd) (m2 : mat) : bool :=
  let s1 := nz_segs m1 g1 in let s2 := nz_segs m2 g2 in
  Bool.eqb (is_closed g1) (is_closed g2) &&
  (negb (has_arc g1 || has_arc g2) || linclose m1 m2) &&
  if is_closed g1 && Nat.eqb (nmoves g1) 1 && Nat.eqb (nmoves g2) 1
  then existsb (fun k => list_eqb seg_close (rotl k s1) s2) (seq 0 (S (List.length s1)))
  else list_eqb seg_close s1 s2.

(** paint: same fill; same stroke when the stroke is visible; stroke parameters when visible *)
Definition paint_same (a b : sstyle) : bool :=
  Bool.eqb (has_fill a) (has_fill b) && (negb (has_fill a) || (ssfill a =? ssfill b)%Z) &&
  Bool.eqb (has_stroke a) (has_stroke b) && (negb (has_stroke a) || (ssstroke a =? ssstroke b)%Z).
Definition stroke_same (a b : sstyle) : bool :=
  negb (has_stroke a && has_stroke b) ||
  (qclose (sswidth a) (sswidth b) && (sscap a =? sscap b)%Z && (ssjoin a =? ssjoin b)%Z).

Definition nonempty (l : layer) : bool := negb (match lgeom l with [] => true | _ => false end).

Definition bit (b : bool) (k : Z) : Z := if b then k else 0%Z.

Fixpoint all2 {A B} (f : A -> B -> bool) (l1 : list A) (l2 : list B) : bool :=
  match l1, l2 with
  | a :: t1, b :: t2 => f a b && all2 f t1 t2
  | _, _ => true
  end.

Definition has_skew_attrs (as_ : list attr) : bool :=
  existsb (fun a => match a with
                    | ATransform ts => existsb (fun t => match t with TfSkewX _ | TfSkewY _ => true | _ => false end) ts
                    | _ => false end) as_.
Fixpoint node_has_skew (n : node) : bool :=
  match n with
  | NGroup _ as_ kids => has_skew_attrs as_ || existsb node_has_skew kids
  | NShape as_ _ _ => has_skew_attrs as_
  | NStyle _ => false
  end.

Definition layer_style_same (a b : layer) : bool := style_eqb (lstyle a) (lstyle b).
Definition sem_same (a b : list layer) : bool :=
  Nat.eqb (List.length a) (List.length b) && all2 (fun x y => paint_same (lstyle x) (lstyle y) && stroke_same (lstyle x) (lstyle y)) a b.

Definition aspect_mismatch (d : doc) : bool :=
  match dviewbox d with
  | Some (_, _, w, h) => Qltb 0 w && Qltb 0 h && negb (Qeq_bool (vp_w d * h) (vp_h d * w))
  | None => false
  end.

Definition judge (c : case19) : list Z :=
  let d := kDoc c in
  let got := kLayers c in
  (* K1 *)
  let '(wW, wH, w) := walk d in
  let wl := wout w in
  let t1 := negb (qclose wW (kW c) && qclose wH (kH c)) in
  let t2 := negb (Nat.eqb (List.length wl) (List.length got)) in
  let t4 := negb (all2 (fun a b => list_eqb gcmd_eqb (lgeom a) (lgeom b)) wl got) in
  let t8 := negb (all2 (fun a b => mclose (lmat a) (lmat b)) wl got) in
  let t16 := negb (all2 layer_style_same wl got) in
  (* K2 *)
  let '(sW, sH, sl) := svg_sem d in
  let gl := filter nonempty got in
  let p1 := negb (qclose sW (kW c) && qclose sH (kH c)) in
  let p2 := negb (Nat.eqb (List.length sl) (List.length gl)) in
  let p4 := negb (all2 (fun s g => geom_same (lgeom g) (lmat g) (lgeom s) (lmat s)) sl gl) in
  let p8 := negb (all2 (fun s g => paint_same (lstyle s) (lstyle g)) sl gl) in
  let p16 := negb (all2 (fun s g => stroke_same (lstyle s) (lstyle g)) sl gl) in
  let ok := negb (kErr c) && negb (kBad c) in
  let sens := (bit (negb (sem_same sl (snd (svg_sem_gen false d)))) 1
              + bit (aspect_mismatch d) 2
              + bit (has_skew_attrs (dattrs d) || existsb node_has_skew (dkids d)) 4)%Z in
  (* the same property flags against the cascade that ignores specificity (rules in order of appearance): 0 = the drawing is
     exactly what that cascade prescribes, which makes the trigger of the known finding css-specificity-ignored exact also when
     the difference makes a shape appear or disappear *)
  let '(oW, oH, ol) := svg_sem_gen false d in
  let o2 := negb (Nat.eqb (List.length ol) (List.length gl)) in
  let o4 := negb (all2 (fun s g => geom_same (lgeom g) (lmat g) (lgeom s) (lmat s)) ol gl) in
  let o8 := negb (all2 (fun s g => paint_same (lstyle s) (lstyle g)) ol gl) in
  let o16 := negb (all2 (fun s g => stroke_same (lstyle s) (lstyle g)) ol gl) in
  [ (if ok then bit p1 1 + bit p2 2 + bit p4 4 + bit p8 8 + bit p16 16 else 0) + bit (kErr c) 32 + bit (kBad c) 64;
    (if ok then bit t1 1 + bit t2 2 + bit t4 4 + bit t8 8 + bit t16 16 else 0);
    sens;
    Z.of_nat (List.length got); Z.of_nat (List.length sl);
    Z.of_nat (List.length (doc_events d));
    (if ok then bit p1 1 + bit o2 2 + bit o4 4 + bit o8 8 + bit o16 16 else 64) ]%Z.

(* ---- library round trip: a drawing, written by renderers/svg, read back by ParseSVG ---- *)
Record rtcase := mkRT { rW : Q; rH : Q; rOrig : list layer; bW : Q; bH : Q; rBack : list layer; rBad : bool }.

(** decimal text with 8 significant digits: coordinates agree within 2^-20 relative *)
Definition eps_rt : Q := 1 # 1048576.
Definition qclose_rt (a b : Q) : bool := Qle_bool (Qabs (a - b)) (eps_rt * (1 + Qabs a + Qabs b)).
Definition ptclose_rt (p q : qpt) : bool := qclose_rt (fst p) (fst q) && qclose_rt (snd p) (snd q).
Definition seg_close_rt (a b : seg) : bool :=
  (skind a =? skind b)%Z && ptclose_rt (sp0 a) (sp0 b) && ptclose_rt (sp1 a) (sp1 b) &&
  ptclose_rt (sc1 a) (sc1 b) && ptclose_rt (sc2 a) (sc2 b).
Definition zero_line_rt (s : seg) : bool := (skind s =? 1)%Z && ptclose_rt (sp0 s) (sp1 s).
Definition segs_rt (l : layer) : list seg := filter (fun s => negb (zero_line_rt s)) (segs_of (lmat l) (0, 0) (0, 0) (lgeom l)).

(** width of a stroke in canvas units: local width times the similarity scale sqrt|det| (relational: compared squared) *)
Definition w2 (l : layer) : Q := sswidth (lstyle l) * sswidth (lstyle l) * Qabs (mdet (lmat l)).

Definition judge_rt (c : rtcase) : list Z :=
  let o := filter nonempty (rOrig c) in
  let b := filter nonempty (rBack c) in
  let p1 := negb (qclose_rt (rW c) (bW c) && qclose_rt (rH c) (bH c)) in
  let p2 := negb (Nat.eqb (List.length o) (List.length b)) in
  let p4 := negb (all2 (fun x y => list_eqb seg_close_rt (segs_rt x) (segs_rt y) && Bool.eqb (is_closed (lgeom x)) (is_closed (lgeom y))) o b) in
  let p8 := negb (all2 (fun x y => paint_same (lstyle x) (lstyle y)) o b) in
  let p16 := negb (all2 (fun x y => negb (has_stroke (lstyle x)) ||
                                   (qclose_rt (w2 x) (w2 y) && (sscap (lstyle x) =? sscap (lstyle y))%Z && (ssjoin (lstyle x) =? ssjoin (lstyle y))%Z)) o b) in
  [ (if rBad c then 64 else bit p1 1 + bit p2 2 + bit p4 4 + bit p8 8 + bit p16 16); 0; 0;
    Z.of_nat (List.length o); Z.of_nat (List.length b); 0 ]%Z.

(** C05 — dash phase bookkeeping of tdewolff/canvas (path.go: dashCanonical, dashStart, checkDash, Dash).
    Exact model over Q.  [eps] is the Go variable [Epsilon]; every comparison the Go code makes is made
    here with the same operands.  FAITHFUL definitions mirror the Go text; SPEC definitions ([on],
    [on_at]) say what the documentation promises.  Proofs are in DashProofs.v / DashCanonProofs.v. *)
From Coq Require Import ZArith QArith Qround List Bool Arith.
Import ListNotations.
Open Scope Q_scope.

(* ---------------------------------------------------------------------------------------------- *)
(** * Generic helpers *)

Fixpoint qsum (l : list Q) : Q := match l with [] => 0 | a :: l' => a + qsum l' end.
Definition prefix (l : list Q) (i : nat) : Q := qsum (firstn i l).
Definition allpos (l : list Q) : Prop := Forall (fun x => 0 < x) l.
Definition nonneg (l : list Q) : Prop := Forall (fun x => 0 <= x) l.

(** x mod p in [0,p) for p > 0 (spec side) *)
Definition qmod (x p : Q) : Q := x - p * inject_Z (Qfloor (x / p)).
(** Go's math.Mod(x, y) for y > 0: result has the sign of x, truncated quotient *)
Definition qtrunc (x : Q) : Z := if Qlt_le_dec x 0 then (- Qfloor (- x))%Z else Qfloor x.
Definition qfmod (x y : Q) : Q := x - y * inject_Z (qtrunc (x / y)).

(** odd-length patterns are doubled *)
Definition dbl (d : list Q) : list Q := if Nat.odd (length d) then d ++ d else d.

(* ---------------------------------------------------------------------------------------------- *)
(** * SPEC: is arc-length position s drawn? *)

(** walk the pattern: [par] is the state (true = dash) of the first element *)
Fixpoint walk (par : bool) (l : list Q) (u : Q) : bool :=
  match l with
  | [] => false
  | a :: l' => if Qlt_le_dec u a then par else walk (negb par) l' (u - a)
  end.

(** position u of the infinitely repeated pattern dd (dd of even length) *)
Definition on_at (dd : list Q) (u : Q) : bool :=
  let P := qsum dd in
  if Qlt_le_dec 0 P then walk true dd (qmod u P) else false.

(** cyclic, odd patterns doubled, offset-shifted: path position s is at pattern position s + offset *)
Definition on (d : list Q) (offset s : Q) : bool := on_at (dbl d) (s + offset).

(* ---------------------------------------------------------------------------------------------- *)
(** * FAITHFUL model *)
Section Faithful.
Variable eps : Q.   (* canvas.Epsilon *)

(** util.go Equal (live branch) *)
Definition equalq (a b : Q) : bool :=
  if Qlt_le_dec a b then (if Qlt_le_dec eps (b - a) then false else true)
  else (if Qlt_le_dec eps (a - b) then false else true).
Definition eq0 (x : Q) : bool := equalq x 0.

(** ** dashCanonical *)

(** "remove zeros except first and last": the loop [for i := 1; i < len(d)-1; i++] with the in-place merge
    d[i-1] += d[i+1]; delete d[i], d[i+1]; i--.  [prev] is d[i-1], [rest] is d[i:]. *)
Fixpoint rm_mid_zeros (prev : Q) (rest : list Q) : list Q :=
  match rest with
  | [] => [prev]
  | x :: rest' =>
    match rest' with
    | [] => [prev; x]
    | y :: tl => if eq0 x then rm_mid_zeros (prev + y) tl else prev :: rm_mid_zeros x rest'
    end
  end.

Fixpoint add_last (a : Q) (l : list Q) : list Q :=
  match l with
  | [] => []
  | [x] => [x + a]
  | x :: l' => x :: add_last a l'
  end.

(** result of a canonicalisation step: early return or continue *)
Inductive cstep := Ret (off : Q) (d : list Q) | Go (off : Q) (d : list Q).

(** "remove first zero, collapse with second and last" *)
Definition step_first (off : Q) (d : list Q) : cstep :=
  match d with
  | x :: tl =>
    if eq0 x then
      match tl with
      | a :: (_ :: _) as tl' => Go (off - a) (add_last a tl')
      | _ => Ret 0 [0]
      end
    else Go off d
  | [] => Go off d
  end.

(** "remove last zero, collapse with first and second to last"; computed on the reversed list *)
Definition step_last (off : Q) (d : list Q) : cstep :=
  match rev d with
  | z :: tl =>
    if eq0 z then
      match tl with
      | y :: (_ :: _) as tl' => Go (off + y) (match rev tl' with x :: r => (x + y) :: r | [] => [] end)
      | _ => Ret 0 []
      end
    else Go off d
  | [] => Ret 0 []
  end.

Fixpoint list_equalq (l1 l2 : list Q) : bool :=
  match l1, l2 with
  | [], _ => true
  | _, [] => true
  | a :: l1', b :: l2' => equalq a b && list_equalq l1' l2'
  end.

(** "remove repeated patterns": the REPEAT loop; fuel = length d suffices (the length halves) *)
Fixpoint rm_repeat (fuel : nat) (d : list Q) : list Q :=
  match fuel with
  | O => d
  | S f =>
    let n := length d in
    if Nat.even n && negb (n =? 0)%nat then
      let mid := Nat.div2 n in
      if list_equalq (firstn mid d) (skipn mid d) then rm_repeat f (firstn mid d) else d
    else d
  end.

Definition dash_canonical (off : Q) (d : list Q) : Q * list Q :=
  match d with
  | [] => (0, [])
  | d0 :: rest =>
    match step_first off (rm_mid_zeros d0 rest) with
    | Ret o r => (o, r)
    | Go off2 d2 =>
      match step_last off2 d2 with
      | Ret o r => (o, r)
      | Go off3 d3 =>
        if existsb (fun x => (if Qlt_le_dec x 0 then true else false) || eq0 x) d3 then (0, [0])
        else (off3, rm_repeat (length d3) d3)
      end
    end
  end.

(** ** dashStart *)

(** one pass of the loop [for d[i0] <= offset { offset -= d[i0]; i0++ }] *)
Fixpoint start_walk (l : list Q) (i : nat) (off : Q) : nat * Q :=
  match l with
  | [] => (0%nat, off)
  | a :: l' => if Qlt_le_dec off a then (i, off) else start_walk l' (S i) (off - a)
  end.

(** the whole loop in closed form (d positive): floor(off/P) full cycles, then one pass.  For off < 0 the
    loop body is never entered. *)
Definition dash_walk (off : Q) (d : list Q) : nat * Q :=
  if Qlt_le_dec off 0 then (0%nat, off)
  else let P := qsum d in start_walk d 0 (off - P * inject_Z (Qfloor (off / P))).

(** unchanged tree (31d4c8a .. c5c8c72):  pos0 = -(dTotal + offset) for a negative offset *)
Definition dash_start_v0 (off : Q) (d : list Q) : nat * Q :=
  let '(i0, o) := dash_walk off d in
  (i0, if Qlt_le_dec o 0 then - (qsum d + o) else - o).

(** after "fix: dashStart reduces negative offsets modulo the period":
    pos0 = -(dTotal + math.Mod(offset, dTotal)) *)
Definition dash_start (off : Q) (d : list Q) : nat * Q :=
  let '(i0, o) := dash_walk off d in
  (i0, if Qlt_le_dec o 0 then - (qsum d + qfmod o (qsum d)) else - o).

(** ** Dash: boundary list t, final index *)

Definition next_idx (n i : nat) : nat := if (S i =? n)%nat then 0%nat else S i.

(** the loop [for pos+d[i]+Epsilon < length { pos += d[i]; if 0 < pos { t = append(t,pos) }; i++ }].
    None = out of fuel (never with [dash_fuel], see dash_loop_fuel). *)
Fixpoint dash_loop (fuel : nat) (d : list Q) (L : Q) (i : nat) (pos : Q) : option (list Q * nat) :=
  let di := nth i d 0 in
  if Qlt_le_dec (pos + di + eps) L then
    match fuel with
    | O => None
    | S f =>
      let pos' := pos + di in
      match dash_loop f d L (next_idx (length d) i) pos' with
      | None => None
      | Some (t, ie) => Some (if Qlt_le_dec 0 pos' then pos' :: t else t, ie)
      end
    end
  else Some ([], i).

Fixpoint qminl (l : list Q) (m : Q) : Q :=
  match l with [] => m | a :: l' => qminl l' (if Qlt_le_dec a m then a else m) end.

Definition dash_fuel (d : list Q) (L pos : Q) : nat :=
  match d with
  | [] => 0%nat
  | a :: l => let m := qminl l a in
              if Qlt_le_dec 0 m then S (Z.to_nat (Qceiling ((L - pos) / m))) else 0%nat
  end.

(** which of the pieces pd[0..nt] (nt = len(t) cuts) are kept *)
Definition j0_of (nt : nat) (ends : bool) : nat :=
  if (Nat.odd nt && ends) || (Nat.even nt && negb ends) then 1%nat else 0%nat.

Definition kept (nt : nat) (ends : bool) (k : nat) : bool :=
  if (k <? nt)%nat then (j0_of nt ends <=? k)%nat && Nat.even (k - j0_of nt ends)
  else (k =? nt)%nat && ends.

(** piece index of position s: number of cuts <= s *)
Fixpoint cnt (t : list Q) (s : Q) : nat :=
  match t with [] => 0%nat | b :: t' => ((if Qlt_le_dec s b then 0 else 1) + cnt t' s)%nat end.

Definition ends_in_dash (ie : nat) : bool := Nat.even ie.

(** is arc position s of a subpath of length L inside a kept piece *)
Definition sel (t : list Q) (ie : nat) (s : Q) : bool := kept (length t) (ends_in_dash ie) (cnt t s).

(** the closed-path join: pd[last].Join(qd) merges iff qd starts with pd[0] (start of the path) *)
Definition join_decision (closed : bool) (t : list Q) (ie : nat) : bool :=
  closed && ends_in_dash ie && (j0_of (length t) (ends_in_dash ie) =? 0)%nat && negb (length t =? 0)%nat.

(** result of Dash on one subpath *)
Inductive dres :=
| DIdentity            (* return p *)
| DNothing             (* return &Path{} *)
| DCuts (t : list Q) (ie : nat)
| DFuel.

Definition is_zero1 (d : list Q) : bool :=
  match d with [x] => Qeq_bool x 0 | _ => false end.
Definition is_nil {A} (d : list A) : bool := match d with [] => true | _ => false end.

Definition dash_gen (start : Q -> list Q -> nat * Q) (off : Q) (d : list Q) (L : Q) : dres :=
  let '(off', c) := dash_canonical off d in
  if is_nil c then DIdentity
  else if is_zero1 c then DNothing
  else
    let dd := dbl c in
    let '(i0, pos0) := start off' dd in
    match dash_loop (dash_fuel dd L pos0) dd L i0 pos0 with
    | Some (t, ie) => DCuts t ie
    | None => DFuel
    end.

Definition dash_model := dash_gen dash_start.
Definition dash_model_v0 := dash_gen dash_start_v0.

Definition dres_sel (r : dres) (s : Q) : bool :=
  match r with
  | DIdentity => true
  | DNothing => false
  | DCuts t ie => sel t ie s
  | DFuel => false
  end.

(** ** checkDash and what Context.DrawPath then draws *)

(** unchanged tree: no doubling, [length <= d[i]-pos], canonical offset dropped *)
Definition check_dash_v0 (off : Q) (d : list Q) (Ltot : Q) : list Q * bool :=
  let '(off', c) := dash_canonical off d in
  if is_nil c then (c, true)
  else if is_zero1 c then ([], false)
  else
    let '(i, pos) := dash_start_v0 off' c in
    if Qlt_le_dec (nth i c 0 - pos) Ltot then (c, true)
    else if Nat.even i then ([], true) else ([], false).

(** after "fix: checkDash ...": doubled pattern for the parity, [length <= d[i]+pos], returns the canonical
    offset as well *)
Definition check_dash (off : Q) (d : list Q) (Ltot : Q) : Q * list Q * bool :=
  let '(off', c) := dash_canonical off d in
  if is_nil c then (off', c, true)
  else if is_zero1 c then (off', [], false)
  else
    let dd := dbl c in
    let '(i, pos) := dash_start off' dd in
    if Qlt_le_dec (nth i dd 0 + pos) Ltot then (off', c, true)
    else if Nat.even i then (off', [], true) else (off', [], false).

(** what DrawPath + renderer draw at arc position s of a subpath of length L <= Ltot:
    no stroke / solid stroke / path.Dash(style.DashOffset, style.Dashes...) *)
Definition drawpath_sel_v0 (off : Q) (d : list Q) (Ltot L s : Q) : bool :=
  let '(d', ok) := check_dash_v0 off d Ltot in
  if negb ok then false else if is_nil d' then true else dres_sel (dash_model_v0 off d' L) s.

Definition drawpath_sel (off : Q) (d : list Q) (Ltot L s : Q) : bool :=
  let '(off', d', ok) := check_dash off d Ltot in
  if negb ok then false else if is_nil d' then true else dres_sel (dash_model off' d' L) s.

End Faithful.

(* ---------------------------------------------------------------------------------------------- *)
(** * SPEC-level drawn intervals (used by the judge as the oracle): the cuts the corrected procedure
      makes with Epsilon = 0; justified by DashProofs.dash_sel_spec (selection = [on]). *)

Fixpoint pieces_from (a : Q) (t : list Q) (L : Q) (k nt : nat) (ends : bool) : list (Q * Q) :=
  match t with
  | [] => if kept nt ends k then [(a, L)] else []
  | b :: t' => (if kept nt ends k then [(a, b)] else []) ++ pieces_from b t' L (S k) nt ends
  end.

Definition intervals_of (r : dres) (L : Q) : list (Q * Q) :=
  match r with
  | DIdentity => [(0, L)]
  | DNothing => []
  | DCuts t ie => pieces_from 0 t L 0 (length t) (ends_in_dash ie)
  | DFuel => []
  end.

Definition drawn_intervals (d : list Q) (off L : Q) : list (Q * Q) :=
  intervals_of (dash_model 0 off d L) L.

Fixpoint ivs_length (l : list (Q * Q)) : Q :=
  match l with [] => 0 | (a, b) :: l' => (b - a) + ivs_length l' end.

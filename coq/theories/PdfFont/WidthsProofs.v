(** Proofs about the /W encoder: W_roundtrip (the spec reader applied to the encoder's output returns every
    glyph's width), well-formedness of the emitted array. *)
From Coq Require Import ZArith List Bool Lia.
From CV Require Import PdfFont.Widths.
Import ListNotations.
Open Scope Z_scope.

(** ---------- list indexing helpers ---------- *)
Lemma nth_skipn_nat : forall (a m : nat) (l : list Z) d, nth m (skipn a l) d = nth (a + m) l d.
Proof.
  induction a as [|a IH]; intros m l d; [reflexivity|].
  destruct l as [|x l].
  - destruct m; reflexivity.
  - cbn [skipn]. change (S a + m)%nat with (S (a + m)). cbn [nth]. apply IH.
Qed.

Lemma nth_firstn_nat : forall (b m : nat) (l : list Z) d, (m < b)%nat -> nth m (firstn b l) d = nth m l d.
Proof.
  induction b as [|b IH]; intros m l d Hm; [lia|].
  destruct l as [|x l]; [destruct m; reflexivity|].
  cbn [firstn]. destruct m as [|m]; [reflexivity|]. cbn [nth]. apply IH. lia.
Qed.

Lemma nthZ_slice : forall l a b m, 0 <= a -> 0 <= m < b - a -> nthZ (slice l a b) m = nthZ l (a + m).
Proof.
  intros l a b m Ha Hm. unfold nthZ, slice.
  rewrite nth_firstn_nat by lia. rewrite nth_skipn_nat. f_equal. lia.
Qed.

Lemma nthZ_slice_from : forall l a m, 0 <= a -> 0 <= m -> nthZ (slice_from l a) m = nthZ l (a + m).
Proof.
  intros l a m Ha Hm. unfold nthZ, slice_from. rewrite nth_skipn_nat. f_equal. lia.
Qed.

Lemma length_slice : forall l a b, 0 <= a -> a <= b -> b <= lenZ l -> lenZ (slice l a b) = b - a.
Proof.
  intros l a b Ha Hab Hb. unfold lenZ, slice in *. rewrite firstn_length, skipn_length. lia.
Qed.

Lemma length_slice_from : forall l a, 0 <= a -> a <= lenZ l -> lenZ (slice_from l a) = lenZ l - a.
Proof.
  intros l a Ha Hb. unfold lenZ, slice_from in *. rewrite skipn_length. lia.
Qed.

Lemma lenZ_app : forall (A : Type) (l1 l2 : list A), lenZ (l1 ++ l2) = lenZ l1 + lenZ l2.
Proof. intros. unfold lenZ. rewrite app_length. lia. Qed.

Lemma nthZ_app_r : forall pre a r, nthZ (pre ++ a :: r) (lenZ pre) = a.
Proof.
  intros pre a r. unfold nthZ, lenZ. rewrite Nat2Z.id. rewrite app_nth2 by lia.
  rewrite Nat.sub_diag. reflexivity.
Qed.

Lemma nthZ_app_l : forall l1 l2 k, 0 <= k < lenZ l1 -> nthZ (l1 ++ l2) k = nthZ l1 k.
Proof. intros l1 l2 k Hk. unfold nthZ, lenZ in *. apply app_nth1. lia. Qed.

(** ---------- readers ---------- *)
Lemma dec_ents_app : forall l1 l2 cid,
  dec_ents (l1 ++ l2) cid = match dec_ents l1 cid with Some w => Some w | None => dec_ents l2 cid end.
Proof.
  induction l1 as [|e l1 IH]; intros l2 cid; [reflexivity|].
  cbn [app dec_ents]. destruct (dec_ent e cid); [reflexivity|apply IH].
Qed.

(** the flat reader of the PDF array equals the structured reader on the groups that were appended *)
Lemma decode_items_flat : forall es cid, decode_items (flat_map flat_ent es) cid = dec_ents es cid.
Proof.
  induction es as [|e es IH]; intros cid; [reflexivity|].
  destruct e as [c ws|a b w]; cbn [flat_map flat_ent app decode_items dec_ents dec_ent].
  - destruct (in_arr c ws cid); [reflexivity|apply IH].
  - destruct ((a <=? cid) && (cid <=? b)); [reflexivity|apply IH].
Qed.

Lemma wf_items_flat : forall es, wf_items (flat_map flat_ent es) = true.
Proof.
  induction es as [|e es IH]; [reflexivity|].
  destruct e as [c ws|a b w]; cbn [flat_map flat_ent app wf_items]; exact IH.
Qed.

Definition dflt (DW : Z) (o : option Z) : Z := match o with Some w => w | None => DW end.

(** ---------- loop invariant ---------- *)
Record Inv (widths : list Z) (DW k : Z) (s : wst) : Prop := mkInv {
  inv_ord : 1 <= wi s /\ wi s <= wj s /\ wj s <= k;
  inv_cov : forall cid, 1 <= cid < wi s -> dflt DW (dec_ents (wout s) cid) = nthZ widths cid;
  inv_none : forall cid, cid < 1 \/ wi s <= cid -> dec_ents (wout s) cid = None;
  inv_run : forall m, wj s <= m < k -> nthZ widths m = nthZ widths (wj s) }.

Lemma w_step_inv : forall widths DW k s,
  1 <= k < lenZ widths -> Inv widths DW k s ->
  Inv widths DW (k + 1) (w_step widths DW s k (nthZ widths k)).
Proof.
  intros widths DW k s Hk [Hord Hcov Hnone Hrun].
  destruct Hord as (Hi & Hij & Hjk).
  unfold w_step.
  destruct (Z.eqb_spec k 0) as [?|_]; [lia|]. cbn [negb andb].
  destruct (Z.eqb_spec (nthZ widths k) (nthZ widths (wj s))) as [E|NE]; cbn [negb].
  - (* run continues *)
    constructor; [lia|exact Hcov|exact Hnone|].
    intros m Hm. destruct (Z.eq_dec m k) as [->|Hne]; [exact E|apply Hrun; lia].
  - destruct (Z.ltb_spec 4 (k - wj s)) as [Hlong|Hshort].
    + (* a run of >= 5 equal widths ended at k-1: flush *)
      set (o1 := if wi s <? wj s then wout s ++ [EArr (wi s) (slice widths (wi s) (wj s))] else wout s).
      set (o2 := if negb (nthZ widths (wj s) =? DW) then o1 ++ [ERange (wj s) (k - 1) (nthZ widths (wj s))] else o1).
      assert (A : forall cid, dec_ents o1 cid =
                match dec_ents (wout s) cid with
                | Some w => Some w
                | None => if (wi s <=? cid) && (cid <? wj s) then Some (nthZ widths cid) else None
                end).
      { intros cid. unfold o1. destruct (Z.ltb_spec (wi s) (wj s)) as [Hlt|Hge].
        - rewrite dec_ents_app. destruct (dec_ents (wout s) cid); [reflexivity|].
          cbn [dec_ents dec_ent]. unfold in_arr. rewrite length_slice by lia.
          replace (wi s + (wj s - wi s)) with (wj s) by ring.
          destruct (Z.leb_spec (wi s) cid) as [H1|H1]; destruct (Z.ltb_spec cid (wj s)) as [H2|H2]; cbn [andb]; try reflexivity.
          rewrite nthZ_slice by lia. do 2 f_equal. ring.
        - destruct (dec_ents (wout s) cid); [reflexivity|].
          destruct (Z.leb_spec (wi s) cid) as [H1|H1]; destruct (Z.ltb_spec cid (wj s)) as [H2|H2]; cbn [andb]; try reflexivity; lia. }
      assert (B : forall cid, dec_ents o2 cid =
                match dec_ents o1 cid with
                | Some w => Some w
                | None => if negb (nthZ widths (wj s) =? DW) && ((wj s <=? cid) && (cid <=? k - 1))
                          then Some (nthZ widths (wj s)) else None
                end).
      { intros cid. unfold o2. destruct (negb (nthZ widths (wj s) =? DW)); cbn [andb].
        - rewrite dec_ents_app. destruct (dec_ents o1 cid); [reflexivity|].
          cbn [dec_ents dec_ent]. destruct ((wj s <=? cid) && (cid <=? k - 1)); reflexivity.
        - destruct (dec_ents o1 cid); reflexivity. }
      constructor; cbn [wi wj wout].
      * lia.
      * intros cid Hc. rewrite B, A.
        destruct (Z.lt_ge_cases cid (wi s)) as [Hlo|Hhi].
        -- specialize (Hcov cid ltac:(lia)).
           destruct (dec_ents (wout s) cid) as [w|]; [exact Hcov|].
           destruct (Z.leb_spec (wi s) cid); [lia|]. cbn [andb].
           destruct (Z.leb_spec (wj s) cid); [lia|]. rewrite andb_false_r. exact Hcov.
        -- rewrite (Hnone cid) by lia.
           destruct (Z.leb_spec (wi s) cid); [|lia]. cbn [andb].
           destruct (Z.ltb_spec cid (wj s)) as [Hin|Hout]; [reflexivity|].
           destruct (Z.leb_spec (wj s) cid); [|lia].
           destruct (Z.leb_spec cid (k - 1)); [|lia]. cbn [andb]. rewrite andb_true_r.
           destruct (Z.eqb_spec (nthZ widths (wj s)) DW) as [Ed|Nd]; cbn [negb dflt].
           ++ rewrite <- Ed. symmetry. apply Hrun. lia.
           ++ symmetry. apply Hrun. lia.
      * intros cid Hc. rewrite B, A. rewrite (Hnone cid) by lia.
        destruct (Z.leb_spec (wi s) cid); destruct (Z.ltb_spec cid (wj s)); cbn [andb]; try lia;
        destruct (Z.leb_spec (wj s) cid); destruct (Z.leb_spec cid (k - 1)); cbn [andb]; try lia;
        rewrite ?andb_false_r; reflexivity.
      * intros m Hm. replace m with k by lia. reflexivity.
    + (* short run: only j moves *)
      constructor; cbn [wi wj wout]; [lia|exact Hcov|exact Hnone|].
      intros m Hm. replace m with k by lia. reflexivity.
Qed.

Lemma w_loop_inv : forall widths DW rest pre s,
  widths = pre ++ rest -> 1 <= lenZ pre -> Inv widths DW (lenZ pre) s ->
  Inv widths DW (lenZ widths) (w_loop widths DW rest (lenZ pre) s).
Proof.
  intros widths DW rest. induction rest as [|a r IH]; intros pre s Hw Hp HI.
  - rewrite app_nil_r in Hw. subst widths. exact HI.
  - cbn [w_loop].
    assert (Hl : lenZ pre + 1 = lenZ (pre ++ [a])) by (rewrite lenZ_app; reflexivity).
    rewrite Hl. apply IH.
    + rewrite <- app_assoc. exact Hw.
    + rewrite <- Hl. lia.
    + rewrite <- Hl.
      assert (Ha : nthZ widths (lenZ pre) = a) by (rewrite Hw; apply nthZ_app_r).
      rewrite <- Ha. apply w_step_inv; [|exact HI].
      split; [exact Hp|]. rewrite Hw, lenZ_app. unfold lenZ. cbn [length]. lia.
Qed.

(** ---------- W_roundtrip ---------- *)
Lemma W_roundtrip_ents : forall ws cid, 0 <= cid < lenZ ws ->
  dflt (fst (encode_W_ents ws)) (dec_ents (snd (encode_W_ents ws)) cid) = nthZ ws cid.
Proof.
  intros ws cid Hc. destruct ws as [|w0 ws']; [unfold lenZ in Hc; cbn in Hc; lia|].
  unfold encode_W_ents. cbn [fst snd].
  set (widths := (w0 :: ws') ++ [0]).
  set (DW := nthZ widths 0).
  assert (Hw : widths = [w0] ++ (ws' ++ [0])) by reflexivity.
  assert (Hstart : w_loop widths DW widths 0 (mkWst 1 1 []) = w_loop widths DW (ws' ++ [0]) (lenZ [w0]) (mkWst 1 1 [])).
  { rewrite Hw at 2. reflexivity. }
  rewrite Hstart.
  assert (HI0 : Inv widths DW (lenZ [w0]) (mkWst 1 1 [])).
  { constructor; cbn [wi wj wout]; unfold lenZ; cbn [length Z.of_nat Pos.of_succ_nat].
    - lia.
    - intros c H. lia.
    - reflexivity.
    - intros m H. lia. }
  pose proof (w_loop_inv widths DW (ws' ++ [0]) [w0] _ Hw ltac:(unfold lenZ; cbn; lia) HI0) as HI.
  set (s := w_loop widths DW (ws' ++ [0]) (lenZ [w0]) (mkWst 1 1 [])) in *.
  destruct HI as [(Hi & Hij & Hjk) Hcov Hnone Hrun].
  assert (HN : lenZ widths = lenZ (w0 :: ws') + 1) by (unfold widths; rewrite lenZ_app; reflexivity).
  assert (Hws : nthZ (w0 :: ws') cid = nthZ widths cid) by (unfold widths; symmetry; apply nthZ_app_l; exact Hc).
  rewrite Hws.
  destruct (Z.ltb_spec (wi s) (lenZ widths)) as [Hlt|Hge].
  - rewrite dec_ents_app.
    destruct (Z.eq_dec cid 0) as [->|Hnz].
    + rewrite (Hnone 0) by lia. cbn [dec_ents dec_ent]. unfold in_arr.
      destruct (Z.leb_spec (wi s) 0); [lia|]. reflexivity.
    + destruct (Z.lt_ge_cases cid (wi s)) as [Hlo|Hhi].
      * specialize (Hcov cid ltac:(lia)).
        destruct (dec_ents (wout s) cid) as [w|]; [exact Hcov|].
        cbn [dec_ents dec_ent]. unfold in_arr.
        destruct (Z.leb_spec (wi s) cid); [lia|]. exact Hcov.
      * rewrite (Hnone cid) by lia. cbn [dec_ents dec_ent]. unfold in_arr.
        rewrite length_slice_from by lia.
        destruct (Z.leb_spec (wi s) cid); [|lia].
        destruct (Z.ltb_spec cid (wi s + (lenZ widths - wi s))); [|lia]. cbn [andb dflt].
        rewrite nthZ_slice_from by lia. f_equal. ring.
  - destruct (Z.eq_dec cid 0) as [->|Hnz].
    + rewrite (Hnone 0) by lia. reflexivity.
    + apply Hcov. lia.
Qed.

(** W_roundtrip: for every list of glyph widths (subset order) and every CID of a used glyph, the PDF-spec
    reader applied to the /DW and /W values the writer emits returns that glyph's width. *)
Theorem W_roundtrip : forall ws cid, 0 <= cid < lenZ ws ->
  decode_W (fst (encode_W ws)) (snd (encode_W ws)) cid = nthZ ws cid.
Proof.
  intros ws cid Hc. unfold encode_W, decode_W.
  pose proof (W_roundtrip_ents ws cid Hc) as H.
  destruct (encode_W_ents ws) as [DW es]. cbn [fst snd] in *.
  rewrite decode_items_flat. exact H.
Qed.

(** the emitted array consists of complete groups only *)
Theorem W_wellformed : forall ws, wf_items (snd (encode_W ws)) = true.
Proof.
  intros ws. unfold encode_W. destruct (encode_W_ents ws) as [DW es]. cbn [snd]. apply wf_items_flat.
Qed.

(** hypotheses satisfiable on a non-trivial value: the widths of "Hello 0123456789 þÿĀ" in DejaVu Serif
    (the array the real writer produced: 1 [872 592 320 602 318] 6 15 636 16 [640 565 722 0]) *)
Example W_example :
  encode_W [600; 872; 592; 320; 602; 318; 636; 636; 636; 636; 636; 636; 636; 636; 636; 636; 640; 565; 722]
  = (600, [WI 1; WA [872; 592; 320; 602; 318]; WI 6; WI 15; WI 636; WI 16; WA [640; 565; 722; 0]]).
Proof. vm_compute. reflexivity. Qed.

Example W_example_decode :
  map (decode_W 600 [WI 1; WA [872; 592; 320; 602; 318]; WI 6; WI 15; WI 636; WI 16; WA [640; 565; 722; 0]]) [0; 3; 10; 18]
  = [600; 320; 636; 722].
Proof. vm_compute. reflexivity. Qed.

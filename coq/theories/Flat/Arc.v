(** C03 — circular arcs (flattenEllipticArc, circle branch) and arc-to-cubic conversion (ellipseToCubicBeziers).
    Relational model: square roots and trigonometric functions never appear; the centre computed by the Go code
    (ellipseToCenter) is part of the certificate and is constrained by polynomial relations checked in Q. *)
From Coq Require Import ZArith QArith Qabs Qminmax List Bool.
From CV Require Import Base.Dy Flat.Curves Flat.Cert.
Import ListNotations.
Open Scope Q_scope.

Record circ_arc := mkCirc { ca_start : pt; ca_end : pt; ca_r : Q; ca_large : bool; ca_sweep : bool; ca_c : pt }.

Definition sgn_ok (sweep : bool) (x : Q) : bool := if sweep then Qltb 0 x else Qltb x 0.

(** squared distance of [v] from the centre lies in [(lo)^2, (hi)^2] (lo may be negative: no lower constraint) *)
Definition in_annulus (c v : pt) (lo hi : Q) : bool :=
  let d := dist2 v c in
  (Qleb lo 0 || Qleb (sqr lo) d) && Qleb d (sqr hi).

(** one chord V -> W of the polyline: both ends inside the outer circle, the supporting line outside the inner
    circle (so every chord point is in the annulus), and the chord advances in the sweep direction by less than
    180 degrees as seen from the centre *)
Definition chk_chord (c : pt) (sweep : bool) (lo hi : Q) (v w : pt) : bool :=
  let a := vsub v c in let b := vsub w c in let e := vsub w v in
  Qleb (nrm2 a) (sqr hi) && Qleb (nrm2 b) (sqr hi) &&
  (Qleb lo 0 || Qleb (sqr lo * nrm2 e) (sqr (vcross a e))) &&
  (sgn_ok sweep (vcross a b) ||
   (* a chord that is a diameter (exactly half a turn) is acceptable when the inner radius is not positive: the tolerance
      exceeds the radius *)
   (Qeq_bool (vcross a b) 0 && Qleb lo 0 && Qltb (vdot a b) 0)).

Fixpoint chk_chords (c : pt) (sweep : bool) (lo hi : Q) (vs : list pt) : bool :=
  match vs with
  | v :: ((w :: _) as vs') => chk_chord c sweep lo hi v w && chk_chords c sweep lo hi vs'
  | _ => true
  end.

(** quadrant of direction b in the frame (a, a rotated by +90 degrees in the sweep direction): 0..3 *)
Definition quadrant (sweep : bool) (a b : pt) : Z :=
  let x := vdot a b in
  let y := if sweep then vcross a b else - vcross a b in
  if Qltb 0 x && Qleb 0 y then 0%Z
  else if Qleb x 0 && Qltb 0 y then 1%Z
  else if Qltb x 0 && Qleb y 0 then 2%Z
  else 3%Z.

(** total number of quadrant boundaries crossed by the directions v_i - c, each step being < 180 degrees in the
    sweep direction; None if a step goes backwards *)
Fixpoint turning (sweep : bool) (a0 c : pt) (vs : list pt) (q acc : Z) : option Z :=
  match vs with
  | [] => Some acc
  | v :: vs' =>
      let q' := quadrant sweep a0 (vsub v c) in
      let d := ((q' - q) mod 4)%Z in
      if (d =? 3)%Z then None else turning sweep a0 c vs' q' (acc + d)%Z
  end.

(** a single chord for the whole arc (Go emits it when the tolerance exceeds the radius, also for a large arc, where the chord
    cannot "advance by less than half a turn"): every circle point is within r + |c - m| of the chord's midpoint m, and every
    chord point within half the chord of an end point, which is an end point of the arc *)
Definition chk_single_chord (c : pt) (r d : Q) (vs : list pt) : bool :=
  match vs with
  | [v; w] => Qleb r d && Qleb (dist2 (lerp v w (1 # 2)) c) (sqr (d - r)) && Qleb (dist2 v w) (sqr (2 * d))
  | _ => false
  end.

Definition chk_flat_circle (a : circ_arc) (vs : list pt) (tol K slack : Q) : bool :=
  let c := ca_c a in let r := ca_r a in
  match vs with
  | v0 :: _ =>
      peqb v0 (ca_start a) && peqb (last vs v0) (ca_end a) && Nat.leb 2 (length vs) && Qltb 0 r &&
      (* the centre is at distance r from both end points (relational model of ellipseToCenter) *)
      in_annulus c (ca_start a) (r - slack) (r + slack) && in_annulus c (ca_end a) (r - slack) (r + slack) &&
      (* every vertex within tol of the circle, every chord point within K tol *)
      forallb (fun v => in_annulus c v (r - slack) (r + tol + slack)) vs &&
      (* a circle so small that every point of it is within K tol of every vertex (|P-V| <= 2r + tol + slack):
         nothing else to check; otherwise chords and turning *)
      (Qleb (2 * r + tol + slack) (K * tol) || chk_single_chord c r (K * tol) vs ||
      chk_chords c (ca_sweep a) (r - K * tol) (r + tol + slack) vs &&
      (* the directions turn monotonically through less than a full turn, and more than half a turn exactly
         when the large-arc flag is set (a half turn, up to slack, satisfies both) *)
      match turning (ca_sweep a) (vsub v0 c) c vs 0%Z 0%Z with
      | None => false
      | Some n =>
          (n <=? 3)%Z &&
          (let x := vcross (vsub v0 c) (vsub (last vs v0) c) in
           let half := Qleb x (slack * sqr r) && Qleb (- x) (slack * sqr r) && (2 <=? n)%Z && (n <=? 2)%Z in
           half || Bool.eqb (ca_large a) (2 <=? n)%Z)
      end)
  | [] => false
  end.

Definition bitz (b : bool) (k : Z) : Z := if b then k else 0%Z.

Fixpoint Qmaxl (l : list Q) : Q := match l with [] => 0 | x :: l' => Qmax x (Qmaxl l') end.

(** diagnostics: 10^6 (max |dist - r| / tol)^2 is not computable without roots; report instead
    10^6 * max( |d^2 - r^2| ) / (2 r tol) squared-free proxy is avoided: we report the accepted K only *)
Definition judge_circ (a : circ_arc) (tol K slack : Q) (ok : bool) (vs : list pt) : list Z :=
  if negb ok then [1%Z; 0%Z; 0%Z; 0%Z; 0%Z] else
  if chk_flat_circle a vs tol K slack then [0%Z; Z.of_nat (length vs - 1); 0%Z; 0%Z; 0%Z]
  else
    let c := ca_c a in let r := ca_r a in
    let ends := match vs with v0 :: _ => negb (peqb v0 (ca_start a) && peqb (last vs v0) (ca_end a) && Nat.leb 2 (length vs)) | [] => true end in
    let ctr := negb (in_annulus c (ca_start a) (r - slack) (r + slack) && in_annulus c (ca_end a) (r - slack) (r + slack)) in
    let vert := negb (forallb (fun v => in_annulus c v (r - slack) (r + tol + slack)) vs) in
    let chords := negb (Qleb (2 * r + tol + slack) (K * tol) || chk_single_chord c r (K * tol) vs ||
                        chk_chords c (ca_sweep a) (r - K * tol) (r + tol + slack) vs) in
    [ (bitz ends 2 + bitz vert 4 + bitz chords 8 + bitz ctr 128 + 32)%Z; Z.of_nat (length vs - 1); 0%Z; 0%Z; 0%Z ].

(** ** Arc -> cubic Beziers: implicit conic of the ellipse with rational centre, radii and rotation
    (cos, sin) (Pythagorean), evaluated on the Bernstein coefficients of each emitted cubic. *)
Record ellipse := mkEll { el_c : pt; el_rx : Q; el_ry : Q; el_cos : Q; el_sin : Q }.

Definition el_u (e : ellipse) (p : pt) : Q := (el_cos e * (px p - px (el_c e)) + el_sin e * (py p - py (el_c e))) / el_rx e.
Definition el_v (e : ellipse) (p : pt) : Q := (- el_sin e * (px p - px (el_c e)) + el_cos e * (py p - py (el_c e))) / el_ry e.
Definition conic (e : ellipse) (p : pt) : Q := sqr (el_u e p) + sqr (el_v e p).

(** degree-6 Bernstein coefficients of u(t)^2 for the cubic with Bernstein coefficients u0..u3 *)
Definition sq6 (u0 u1 u2 u3 : Q) : list Q :=
  [ u0 * u0;
    u0 * u1;
    (6 * (u0 * u2) + 9 * (u1 * u1)) / 15;
    (2 * (u0 * u3) + 18 * (u1 * u2)) / 20;
    (6 * (u1 * u3) + 9 * (u2 * u2)) / 15;
    u2 * u3;
    u3 * u3 ].

Definition bern6 (g : list Q) (t : Q) : Q :=
  match g with
  | [g0; g1; g2; g3; g4; g5; g6] =>
      let s := 1 - t in
      g0 * (s*s*s*s*s*s) + 6 * g1 * (t*s*s*s*s*s) + 15 * g2 * (t*t*s*s*s*s) + 20 * g3 * (t*t*t*s*s*s)
      + 15 * g4 * (t*t*t*t*s*s) + 6 * g5 * (t*t*t*t*t*s) + g6 * (t*t*t*t*t*t)
  | _ => 0
  end.

Definition conic6 (e : ellipse) (q0 q1 q2 q3 : pt) : list Q :=
  map (fun '(a, b) => Qred (a + b))
      (combine (sq6 (el_u e q0) (el_u e q1) (el_u e q2) (el_u e q3))
               (sq6 (el_v e q0) (el_v e q1) (el_v e q2) (el_v e q3))).

Definition within (lo hi : Q) (l : list Q) : bool := forallb (fun g => Qleb lo g && Qleb g hi) l.

(** the cubic is cut into n equal parameter intervals (de Casteljau through the polar form); on each the
    Bernstein coefficients of conic(B(t)) must lie in [1 - eps, 1 + eps] *)
Fixpoint chk_conic_sub (e : ellipse) (p0 p1 p2 p3 : pt) (eps : Q) (n : nat) (k : nat) : bool :=
  match k with
  | O => true
  | S k' =>
      let s := inject_Z (Z.of_nat k') / inject_Z (Z.of_nat n) in
      let u := inject_Z (Z.of_nat k' + 1) / inject_Z (Z.of_nat n) in
      let '(q0, q1, q2, q3) := cube_sub_f p0 p1 p2 p3 s u in
      within (1 - eps) (1 + eps) (conic6 e q0 q1 q2 q3) && chk_conic_sub e p0 p1 p2 p3 eps n k'
  end.

Definition chk_arc_cubic (e : ellipse) (eps : Q) (n : nat) (cub : list pt) : bool :=
  match cub with
  | [p0; p1; p2; p3] => chk_conic_sub e p0 p1 p2 p3 eps n n
  | _ => false
  end.

Fixpoint joined (cs : list (list pt)) : bool :=
  match cs with
  | c1 :: ((c2 :: _) as cs') => peqb (last c1 (0, 0)) (hd (0, 0) c2) && joined cs'
  | _ => true
  end.

Definition arc_eps : Q := 1 # 250.      (* |conic - 1| <= 4e-3, i.e. relative radial error about 2e-3; the kappa of ellipseToCubicBeziers gives 3.93e-3 on a quarter turn *)
Definition arc_sub : nat := 8%nat.

Definition judge_arccube (e : ellipse) (ok : bool) (cubics : list (list pt)) : list Z :=
  if negb ok then [1%Z; 0%Z; 0%Z; 0%Z; 0%Z] else
  let bad := filter (fun c => negb (chk_arc_cubic e arc_eps arc_sub c)) cubics in
  [ ((if joined cubics then 0 else 2) + (match bad with [] => 0 | _ => 8 end))%Z; Z.of_nat (length cubics);
    0%Z; Z.of_nat (length bad); 0%Z ].

(** ** Flattening of a (non-circular) elliptic arc: flattenEllipticArc
    The vertices are judged in the plane of the ellipse's unit circle, u = (el_u, el_v): the point X has distance
    |rho - 1| from the unit circle there (rho = |u|), hence at least rmin |rho - 1| and at most |X - c| |1 - 1/rho| from the
    ellipse (the map back stretches by at least the smaller radius; X/rho is on the ellipse).  A chord between two points
    of the ellipse: an affine map keeps parallelism, so the arc point farthest from the chord line is the image of the
    middle of the circle arc, c + (M - c)/rho_m with M the chord's midpoint and rho_m = |u(M)|; its distance to the chord
    line is h (1 - rho_m)/rho_m with h the distance of the centre from the chord line.  Square roots are bracketed
    (sqrt_lo / sqrt_hi, k = 40).  Three-valued: accepted / definite violation / undecided. *)
From CV Require Import Split.Cert.

Definition el_uv (e : ellipse) (p : pt) : pt := (el_u e p, el_v e p).
Definition rmin (e : ellipse) : Q := Qmin (el_rx e) (el_ry e).

(** vertex: 0 accepted (within tol of the ellipse), 1 definitely farther than tol, 2 undecided *)
Definition ell_vertex (e : ellipse) (tol : Q) (p : pt) : Z :=
  let n := Qred (conic e p) in
  let d := Qabs (n - 1) in
  let rlo := sqrt_lo 40 n in let rhi := sqrt_hi 40 n in
  let xc := sqrt_hi 40 (Qred (dist2 p (el_c e))) in
  if Qleb (xc * d) (tol * rlo * (rlo + 1)) then 0%Z
  else if Qltb (tol * (rhi + 1)) (rmin e * d) then 1%Z else 2%Z.

(** chord v -> w (both accepted vertices): 0 every arc point between them is within K tol of the chord line,
    1 the arc point over the middle of the chord is definitely farther than K tol, 2 undecided *)
Definition ell_chord (e : ellipse) (ktol : Q) (v w : pt) : Z :=
  let m := (((px v + px w) / 2), ((py v + py w) / 2)) in
  let n := Qred (conic e m) in
  let rlo := sqrt_lo 40 n in let rhi := sqrt_hi 40 n in
  let ed := vsub w v in
  let cr := vcross ed (vsub (el_c e) v) in
  let h2 := Qred (sqr cr / nrm2 ed) in
  let hlo := sqrt_lo 40 h2 in let hhi := sqrt_hi 40 h2 in
  if Qleb (nrm2 ed) 0 then 0%Z
  else if Qleb (hhi * (1 - rlo)) (ktol * rlo) then 0%Z
  else if Qltb (ktol * rhi) (hlo * (1 - rhi)) then 1%Z else 2%Z.

Fixpoint ell_chords (e : ellipse) (ktol : Q) (vs : list pt) : list Z :=
  match vs with
  | v :: ((w :: _) as vs') => ell_chord e ktol v w :: ell_chords e ktol vs'
  | _ => []
  end.

(** flags: 1 panic / not a finite polyline, 2 end points not preserved, 4 PROP a vertex is definitely farther than tol from
    the ellipse, 8 PROP an arc point is definitely farther than K tol from its chord, 16 PROP vertices do not advance
    monotonically in the sweep direction through the right number of quadrants, 128 tie: the centre is not the centre of an
    ellipse through both end points, 256 info: some vertex or chord undecided.  Output [flags; chords; undecided; 0; 0] *)
Definition judge_ellflat (e : ellipse) (s t : pt) (large sweep : bool) (tol K slack : Q) (ok : bool) (vs : list pt) : list Z :=
  if negb ok then [1%Z; 0%Z; 0%Z; 0%Z; 0%Z] else
  match vs with
  | v0 :: _ =>
      let ends := negb (close v0 s (1 # 1073741824) && close (last vs v0) t (1 # 1073741824) && Nat.leb 2 (length vs)) in
      let ctr := negb ((ell_vertex e slack s =? 0)%Z && (ell_vertex e slack t =? 0)%Z) in
      let vr := map (ell_vertex e (tol + slack)) vs in
      let cr := ell_chords e (K * tol + slack) vs in
      let us := map (el_uv e) vs in
      let turn := match us with
                  | u0 :: _ =>
                      match turning sweep u0 (0, 0) us 0%Z 0%Z with
                      | None => false
                      | Some n => (n <=? 3)%Z &&
                                  (let x := vcross u0 (last us u0) in
                                   (Qleb (Qabs x) (1 # 1048576)) || Bool.eqb large (2 <=? n)%Z ||
                                   (* a half turn up to rounding satisfies both *) ((n =? 2)%Z && Qleb (Qabs x) (1 # 1024)))
                      end
                  | [] => false
                  end in
      let und := Z.of_nat (length (filter (Z.eqb 2) (vr ++ cr))) in
      [ (bitz ends 2 + bitz (existsb (Z.eqb 1) vr) 4 + bitz (existsb (Z.eqb 1) cr) 8 + bitz (negb turn) 16 + bitz ctr 128 +
         bitz (0 <? und)%Z 256)%Z; Z.of_nat (length vs - 1); und; 0%Z; 0%Z ]
  | [] => [1%Z; 0%Z; 0%Z; 0%Z; 0%Z]
  end.

(** C09 — Length, SplitAt and Reverse are consistent views of the same curve.
    Property theorems only; each is closed by [exact] of a lemma proved elsewhere.
    Models: Split/Reverse.v (faithful Path.Reverse on the structural path of PathEnc/Enc.v), Split/SplitAt.v
    (faithful SplitAt bookkeeping on polylines), Split/Cert.v (sub-curve checker, length enclosures). *)
From Coq Require Import ZArith QArith List Bool.
From CV Require Import Geom.Winding.
From CV Require Import PathEnc.Enc Geom.Matrix Geom.Bezier Split.Reverse Split.SplitAt Split.Cert Split.ReverseProofs Split.ReverseClosed Split.SplitProofs Split.ReversePath.
Import ListNotations.
Open Scope Q_scope.

(** reverse_points — FULL for an open subpath with any mix of LineTo/QuadTo/CubeTo/ArcTo records: Reverse emits
    MoveTo(last point) and then the records in reverse order, same kinds, quadratic control kept, cubic controls
    swapped, arc sweep flag flipped, each ending where its predecessor ended (rev_spec). *)
Theorem C09_reverse_open : forall p0 body, all_draw body ->
  reverse (SM p0 :: body) = SM (seg_end (last body (SM p0))) :: rev_spec (rev body) p0.
Proof. exact reverse_open. Qed.
Print Assumptions C09_reverse_open.

Theorem C09_reverse_points : forall p0 body, all_draw body ->
  map seg_end (reverse (SM p0 :: body)) = rev (map seg_end (SM p0 :: body)).
Proof. exact reverse_points. Qed.
Print Assumptions C09_reverse_points.

(** Reverse works subpath by subpath, for every record type and closed or open subpaths: the last subpath comes first *)
Theorem C09_reverse_subpaths : forall a q body, a <> [] -> no_move body ->
  reverse (a ++ SM q :: body) = reverse (SM q :: body) ++ reverse a.
Proof. exact reverse_app. Qed.
Print Assumptions C09_reverse_subpaths.

(** reverse_closed — FULL for closed polygons (Close of positive length): M p0 L p1 .. L pn z  becomes
    M p0 L pn .. L p1 z: still closed, same start, vertices in reverse order *)
Theorem C09_reverse_closed_polygon : forall p0 p1 ps, pt_eqb p0 (last (p1 :: ps) p0) = false ->
  reverse (SM p0 :: lines (p1 :: ps) ++ [SZ p0]) = SM p0 :: lines (rev (p1 :: ps)) ++ [SZ p0].
Proof. exact reverse_closed_polygon. Qed.
Print Assumptions C09_reverse_closed_polygon.

(** reverse_involutive — PARTIAL: proved for closed polygons in the documented normal form (first edge and closing edge
    of positive length).  Full statement: reverse (reverse p) = nf p for every well-formed p (nf: a LineTo back to the
    start followed by a zero-length Close is a Close), and reverse (reverse (reverse p)) = reverse p.  Open subpaths with
    curves are now FULL (C09_reverse_involutive_open_subpaths below).  Closed subpaths with
    curves in normal form are FULL as well (C09_reverse_involutive_closed).  Missing: the normal-form map nf itself (a LineTo back
    to the start followed by a zero-length Close) and paths mixing open and closed subpaths (C09_reverse_subpaths covers the
    subpath order for those); they are checked on every run (flag 32 of the judge: nf(RR) = nf(p) and RRR = R on the Go output). *)
Theorem C09_reverse_involutive_partial : forall p0 p1 ps,
  pt_eqb p0 (last (p1 :: ps) p0) = false -> pt_eqb p0 p1 = false ->
  reverse (reverse (SM p0 :: lines (p1 :: ps) ++ [SZ p0])) = SM p0 :: lines (p1 :: ps) ++ [SZ p0].
Proof. exact reverse_involutive_polygon. Qed.
Print Assumptions C09_reverse_involutive_partial.

(** reverse_involutive — FULL for every path made of OPEN subpaths with any segment types (lines, quadratic and cubic Béziers,
    arcs with stored flags 0..3): reversing twice gives the path back, record for record (control points swapped back, sweep flags
    flipped back, end points restored).  [flat l] is the concatenation of the subpaths M p body. *)
Theorem C09_reverse_involutive_open_subpaths : forall l, Forall osub_ok l -> reverse (reverse (flat l)) = flat l.
Proof. exact reverse_involutive_open_subpaths. Qed.
Print Assumptions C09_reverse_involutive_open_subpaths.

(** ... and Reverse reverses the order of the subpaths and every subpath on its own *)
Theorem C09_reverse_open_subpaths_each : forall l, Forall osub_ok l -> reverse (flat l) = flat (rev (map rsub l)).
Proof. exact reverse_flat. Qed.
Print Assumptions C09_reverse_open_subpaths_each.

(** reverse_closed / reverse_involutive — FULL for a CLOSED subpath with any segment types in normal form (the closing segment has
    positive length; a first LineTo has positive length): Reverse starts at the same point, runs the closing segment backwards
    first, then the records in reverse order; a first LineTo becomes the Close, a first curve is followed by a zero-length Close;
    reversing twice gives the subpath back record for record. *)
Theorem C09_reverse_closed_general : forall p0 f rest, all_draw (f :: rest) ->
  pt_eqb p0 (end_of (f :: rest) p0) = false ->
  reverse (SM p0 :: (f :: rest) ++ [SZ p0]) =
  SM p0 :: SL (end_of (f :: rest) p0) ::
    (if is_line f then rev_spec (rev rest) (seg_end f) else rev_spec (rev (f :: rest)) p0) ++ [SZ p0].
Proof. exact reverse_closed_general. Qed.
Print Assumptions C09_reverse_closed_general.

Theorem C09_reverse_involutive_closed : forall p0 f rest, all_draw (f :: rest) -> flags_ok (f :: rest) ->
  pt_eqb p0 (end_of (f :: rest) p0) = false ->
  (is_line f = true -> pt_eqb p0 (seg_end f) = false) ->
  reverse (reverse (SM p0 :: (f :: rest) ++ [SZ p0])) = SM p0 :: (f :: rest) ++ [SZ p0].
Proof. exact reverse_involutive_closed. Qed.
Print Assumptions C09_reverse_involutive_closed.

Theorem C09_flip_sweep_involutive : forall fl, In fl [0; 1; 2 # 1; 3 # 1] -> flip_sweep (flip_sweep fl) = fl.
Proof. exact flip_sweep_invol. Qed.
Print Assumptions C09_flip_sweep_involutive.

(** wn_reverse — FULL for one contour and every point not level with a vertex: the reversed polygon
    (v0 vn .. v1, which is what Reverse produces by C09_reverse_closed_polygon) has the negated winding number *)
Theorem C09_wn_reverse : forall v0 vs p, (forall v, In v (v0 :: vs) -> snd p <> snd v) ->
  wn_contour (v0 :: rev vs) p = (- wn_contour (v0 :: vs) p)%Z.
Proof. exact wn_reverse_contour. Qed.
Print Assumptions C09_wn_reverse.

(** wn_reverse lifted to WHOLE paths: for any number of contours (each reversed, and the order of the contours
    reversed as Reverse does) and every point not level with a vertex the winding number is negated *)
Theorem C09_wn_reverse_path : forall P p, (forall c v, In c P -> In v c -> snd p <> snd v) ->
  wn (rev (map rev_contour P)) p = (- wn P p)%Z.
Proof. exact wn_reverse_path. Qed.
Print Assumptions C09_wn_reverse_path.

(** subcurve_cert_sound — FULL: a piece accepted by the checker is, for EVERY parameter t in [0,1], within the slack of
    the input segment at s + t(u-s), with 0 <= s <= u <= 1 (exact blossom identities: C09_sub*_eval for all t) *)
Theorem C09_subcurve_cert_sound_cubic : forall sl a b c d a' b' c' d' s u,
  sub_ok sl [a; b; c; d] [a'; b'; c'; d'] s u = true ->
  0 <= s /\ s <= u /\ u <= 1 /\
  forall t, 0 <= t <= 1 -> near sl (Bcube a' b' c' d' t) (Bcube a b c d (s + t * (u - s))).
Proof. exact sub_ok_sound_cubic. Qed.
Print Assumptions C09_subcurve_cert_sound_cubic.

Theorem C09_subcurve_cert_sound_quad : forall sl a b c a' b' c' s u,
  sub_ok sl [a; b; c] [a'; b'; c'] s u = true ->
  0 <= s /\ s <= u /\ u <= 1 /\
  forall t, 0 <= t <= 1 -> near sl (Bquad a' b' c' t) (Bquad a b c (s + t * (u - s))).
Proof. exact sub_ok_sound_quad. Qed.
Print Assumptions C09_subcurve_cert_sound_quad.

Theorem C09_sub3_eval : forall a b c d s u t,
  let '(a', b', c', d') := sub3 a b c d s u in bcube a' b' c' d' t == bcube a b c d (s + t * (u - s)).
Proof. exact sub3_eval. Qed.
Print Assumptions C09_sub3_eval.

Theorem C09_sub2_eval : forall a b c s u t,
  let '(a', b', c') := sub2 a b c s u in bquad a' b' c' t == bquad a b c (s + t * (u - s)).
Proof. exact sub2_eval. Qed.
Print Assumptions C09_sub2_eval.

(** the square-root brackets used by the length enclosures are sound: lo^2 <= x <= hi^2 *)
Theorem C09_sqrt_bracket : forall k x, 0 <= x -> sqrt_lo k x * sqrt_lo k x <= x /\ x <= sqrt_hi k x * sqrt_hi k x.
Proof. exact sqrt_bracket. Qed.
Print Assumptions C09_sqrt_bracket.

(** splitat_multisubpath — REFUTED on the unchanged tree (993e137): M0 0L10 0M100 100L110 100 split at 5, 15: the point
    (110,100) of the input is on no piece.  After "fix: SplitAt reads each subpath's own data ..." the model of the fixed
    code returns M0 0L5 0 / M5 0L10 0M100 100L105 100 / M105 100L110 100 (SplitProofs.splitat_multisubpath_fixed) and the
    property is judged on every generated multi-subpath input by the certified tiling check. *)
Theorem C09_splitat_multisubpath_refuted_v0 :
  exists sps ts qs, split_at len1 true sps ts = Some qs /\
    exists p, In p (concat sps) /\ forallb (fun q => negb (pt_eqb p q)) (all_points qs) = true.
Proof. exact splitat_multisubpath_refuted_v0. Qed.
Print Assumptions C09_splitat_multisubpath_refuted_v0.

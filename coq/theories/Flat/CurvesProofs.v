(** C03 — algebra of Bezier curves over Q: de Casteljau split (reparametrisation), hull lemma, exact
    chord-deviation identities for quadratics and cubics and the bounds that follow from them. *)
From Coq Require Import QArith Lqa List.
From CV Require Import Flat.Curves.
Open Scope Q_scope.

Lemma Qsq_nonneg x : 0 <= x * x.
Proof. destruct (Qlt_le_dec x 0); [setoid_replace (x*x) with ((-x)*(-x)) by ring|]; apply Qmult_le_0_compat; lra. Qed.

Lemma Qmul_nonneg3 a b c : 0 <= a -> 0 <= b -> 0 <= c -> 0 <= a * b * c.
Proof. intros. apply Qmult_le_0_compat; [apply Qmult_le_0_compat|]; assumption. Qed.

(** squares are monotone on non-negative numbers, in both directions *)
Lemma Qsq_le_mono a b : 0 <= a -> a <= b -> a * a <= b * b.
Proof.
  intros Ha Hab. assert (H: b*b - a*a == (b-a)*(b+a)) by ring.
  assert (0 <= (b-a)*(b+a)) by (apply Qmult_le_0_compat; lra). lra.
Qed.

Lemma Qsq_le_inv a b : 0 <= b -> a * a <= b * b -> a <= b.
Proof.
  intros Hb H. destruct (Qlt_le_dec b a) as [L|L]; [|exact L]. exfalso.
  assert (H1: a*a - b*b == (a-b)*(a+b)) by ring.
  assert (0 < (a-b)*(a+b)) by (apply Qmult_lt_0_compat; lra). lra.
Qed.

Lemma Qabs_sq_le a m : 0 <= m -> - m <= a -> a <= m -> a * a <= m * m.
Proof.
  intros Hm H1 H2. destruct (Qlt_le_dec a 0).
  - setoid_replace (a*a) with ((-a)*(-a)) by ring. apply Qsq_le_mono; lra.
  - apply Qsq_le_mono; lra.
Qed.

(** ** Polar form and de Casteljau split *)
Lemma blq_diag a b c t : blq a b c t t == bq a b c t.
Proof. unfold blq, bq. ring. Qed.

Lemma blc_diag a b c d t : blc a b c d t t t == bc a b c d t.
Proof. unfold blc, bc. ring. Qed.

(** the sub-curve with control values blq s s, blq s u, blq u u, run over sigma in [0,1], is the original
    curve run over s + sigma (u - s) *)
Lemma bq_split a b c s u sg :
  bq (blq a b c s s) (blq a b c s u) (blq a b c u u) sg == bq a b c (s + sg * (u - s)).
Proof. unfold bq, blq. ring. Qed.

Lemma bc_split a b c d s u sg :
  bc (blc a b c d s s s) (blc a b c d s s u) (blc a b c d s u u) (blc a b c d u u u) sg
  == bc a b c d (s + sg * (u - s)).
Proof. unfold bc, blc. ring. Qed.

(** classical de Casteljau at one parameter: left piece = sub-curve on [0,t], right piece on [t,1] *)
Lemma bq_split_left a b c t sg : bq a (lerp1 a b t) (bq a b c t) sg == bq a b c (sg * t).
Proof. unfold bq, lerp1. ring. Qed.
Lemma bq_split_right a b c t sg : bq (bq a b c t) (lerp1 b c t) c sg == bq a b c (t + sg * (1 - t)).
Proof. unfold bq, lerp1. ring. Qed.

Lemma bq_compat a b c t t' : t == t' -> bq a b c t == bq a b c t'.
Proof. intros H. unfold bq. rewrite H. reflexivity. Qed.
Lemma bc_compat a b c d t t' : t == t' -> bc a b c d t == bc a b c d t'.
Proof. intros H. unfold bc. rewrite H. reflexivity. Qed.

Lemma bq_0 a b c : bq a b c 0 == a. Proof. unfold bq. ring. Qed.
Lemma bq_1 a b c : bq a b c 1 == c. Proof. unfold bq. ring. Qed.
Lemma bc_0 a b c d : bc a b c d 0 == a. Proof. unfold bc. ring. Qed.
Lemma bc_1 a b c d : bc a b c d 1 == d. Proof. unfold bc. ring. Qed.

(** ** Hull lemma *)
Lemma bq_hull_lo lo a b c t : lo <= a -> lo <= b -> lo <= c -> 0 <= t -> t <= 1 -> lo <= bq a b c t.
Proof.
  intros Ha Hb Hc H0 H1.
  assert (E: bq a b c t - lo == (a-lo)*((1-t)*(1-t)) + 2*((b-lo)*(t*(1-t))) + (c-lo)*(t*t)) by (unfold bq; ring).
  assert (0 <= (a-lo)*((1-t)*(1-t))) by (apply Qmult_le_0_compat; [lra|apply Qsq_nonneg]).
  assert (0 <= (b-lo)*(t*(1-t))) by (apply Qmult_le_0_compat; [lra|apply Qmult_le_0_compat; lra]).
  assert (0 <= (c-lo)*(t*t)) by (apply Qmult_le_0_compat; [lra|apply Qsq_nonneg]).
  lra.
Qed.

Lemma bq_neg a b c t : bq (-a) (-b) (-c) t == - bq a b c t.
Proof. unfold bq. ring. Qed.

Lemma bq_hull_hi hi a b c t : a <= hi -> b <= hi -> c <= hi -> 0 <= t -> t <= 1 -> bq a b c t <= hi.
Proof.
  intros. assert (- hi <= bq (-a) (-b) (-c) t) by (apply bq_hull_lo; lra). rewrite bq_neg in *. lra.
Qed.

Lemma bc_hull_lo lo a b c d t : lo <= a -> lo <= b -> lo <= c -> lo <= d -> 0 <= t -> t <= 1 -> lo <= bc a b c d t.
Proof.
  intros Ha Hb Hc Hd H0 H1.
  assert (E: bc a b c d t - lo == (a-lo)*((1-t)*(1-t)*(1-t)) + 3*((b-lo)*(t*(1-t)*(1-t))) + 3*((c-lo)*(t*t*(1-t))) + (d-lo)*(t*t*t))
    by (unfold bc; ring).
  assert (0 <= (a-lo)*((1-t)*(1-t)*(1-t))) by (apply Qmult_le_0_compat; [lra|apply Qmul_nonneg3; lra]).
  assert (0 <= (b-lo)*(t*(1-t)*(1-t))) by (apply Qmult_le_0_compat; [lra|apply Qmul_nonneg3; lra]).
  assert (0 <= (c-lo)*(t*t*(1-t))) by (apply Qmult_le_0_compat; [lra|apply Qmul_nonneg3; lra]).
  assert (0 <= (d-lo)*(t*t*t)) by (apply Qmult_le_0_compat; [lra|apply Qmul_nonneg3; lra]).
  lra.
Qed.

Lemma bc_neg a b c d t : bc (-a) (-b) (-c) (-d) t == - bc a b c d t.
Proof. unfold bc. ring. Qed.

Lemma bc_hull_hi hi a b c d t : a <= hi -> b <= hi -> c <= hi -> d <= hi -> 0 <= t -> t <= 1 -> bc a b c d t <= hi.
Proof.
  intros. assert (- hi <= bc (-a) (-b) (-c) (-d) t) by (apply bc_hull_lo; lra). rewrite bc_neg in *. lra.
Qed.

(** ** Chord deviation, quadratic: B(t) - lerp(B s, B u, (t-s)/(u-s)) = -a (t-s)(u-t), a = p0 - 2 p1 + p2 *)
Lemma quad_chord_identity_cross a b c s t u :
  (u - s) * bq a b c t - ((u - t) * bq a b c s + (t - s) * bq a b c u)
  == - (a - 2 * b + c) * (t - s) * (u - t) * (u - s).
Proof. unfold bq. ring. Qed.

Lemma quad_chord_identity a b c s t u : ~ u - s == 0 ->
  bq a b c t - lerp1 (bq a b c s) (bq a b c u) ((t - s) / (u - s)) == - (a - 2 * b + c) * ((t - s) * (u - t)).
Proof. intros H. unfold bq, lerp1. field. exact H. Qed.

Lemma param_product_le_quarter s t u : (t - s) * (u - t) <= (u - s) * (u - s) * (1 # 4).
Proof.
  assert (E: (u - s) * (u - s) * (1 # 4) - (t - s) * (u - t) == ((t-s)-(u-t))*((t-s)-(u-t))*(1#4)) by ring.
  pose proof (Qsq_nonneg ((t-s)-(u-t))). lra.
Qed.

(** squared vector form: for s <= t <= u the deviation from the chord point at the same parameter is at
    most |a| (u-s)^2 / 4 in each coordinate *)
Lemma quad_chord_bound a b c s t u : s < u -> s <= t -> t <= u ->
  sqr (bq a b c t - lerp1 (bq a b c s) (bq a b c u) ((t - s) / (u - s)))
  <= sqr (a - 2 * b + c) * sqr ((u - s) * (u - s) * (1 # 4)).
Proof.
  intros Hsu Hst Htu. unfold sqr. rewrite quad_chord_identity by lra.
  set (A := a - 2*b + c). set (w := (t - s) * (u - t)).
  assert (Hw0: 0 <= w) by (apply Qmult_le_0_compat; lra).
  assert (Hw1: w <= (u - s) * (u - s) * (1 # 4)) by apply param_product_le_quarter.
  setoid_replace (- A * w * (- A * w)) with ((A*A) * (w*w)) by ring.
  apply Qmult_le_compat_nonneg.
  - split; [apply Qsq_nonneg|lra].
  - split; [apply Qsq_nonneg|apply Qsq_le_mono; assumption].
Qed.

(** ** Chord deviation, cubic: the second divided difference of a cubic is linear in s+t+u *)
Lemma cube_chord_identity a b c d s t u : ~ u - s == 0 ->
  bc a b c d t - lerp1 (bc a b c d s) (bc a b c d u) ((t - s) / (u - s))
  == - ((a - 2 * b + c) * (3 - (s + t + u)) + (b - 2 * c + d) * (s + t + u)) * ((t - s) * (u - t)).
Proof. intros H. unfold bc, lerp1. field. exact H. Qed.

Lemma cube_chord_bound a b c d s t u m : 0 <= s -> s < u -> u <= 1 -> s <= t -> t <= u ->
  - m <= a - 2 * b + c -> a - 2 * b + c <= m -> - m <= b - 2 * c + d -> b - 2 * c + d <= m ->
  sqr (bc a b c d t - lerp1 (bc a b c d s) (bc a b c d u) ((t - s) / (u - s)))
  <= sqr (3 * m) * sqr ((u - s) * (u - s) * (1 # 4)).
Proof.
  intros H0 Hsu Hu1 Hst Htu A1l A1h A2l A2h. unfold sqr. rewrite cube_chord_identity by lra.
  set (A1 := a - 2*b + c) in *. set (A2 := b - 2*c + d) in *. set (S := s + t + u).
  set (w := (t - s) * (u - t)).
  assert (HS0: 0 <= S) by (unfold S; lra). assert (HS3: S <= 3) by (unfold S; lra).
  assert (Hw0: 0 <= w) by (apply Qmult_le_0_compat; lra).
  assert (Hw1: w <= (u - s) * (u - s) * (1 # 4)) by apply param_product_le_quarter.
  set (G := A1 * (3 - S) + A2 * S).
  assert (Hm: 0 <= m) by lra.
  assert (G1: G <= 3 * m).
  { assert (0 <= (m - A1) * (3 - S)) by (apply Qmult_le_0_compat; lra).
    assert (0 <= (m - A2) * S) by (apply Qmult_le_0_compat; lra). unfold G. lra. }
  assert (G2: - (3 * m) <= G).
  { assert (0 <= (A1 + m) * (3 - S)) by (apply Qmult_le_0_compat; lra).
    assert (0 <= (A2 + m) * S) by (apply Qmult_le_0_compat; lra). unfold G. lra. }
  setoid_replace (- G * w * (- G * w)) with ((G*G) * (w*w)) by ring.
  apply Qmult_le_compat_nonneg.
  - split; [apply Qsq_nonneg|apply Qabs_sq_le; lra].
  - split; [apply Qsq_nonneg|apply Qsq_le_mono; assumption].
Qed.

(** ** Bernstein basis bounds used by the piece lemmas *)
Lemma t1t_le_quarter t : t * (1 - t) <= 1 # 4.
Proof. pose proof (Qsq_nonneg (1 - 2*t)). lra. Qed.

Lemma b31_le t : 0 <= t -> t <= 1 -> t * (1 - t) * (1 - t) <= 4 # 27.
Proof.
  intros. assert (H1: (4#27) - t*(1-t)*(1-t) == (1-3*t)*(1-3*t)*(4-3*t)*(1#27)) by ring.
  assert (0 <= (1-3*t)*(1-3*t)*(4-3*t)) by (apply Qmult_le_0_compat; [apply Qsq_nonneg|lra]). lra.
Qed.

Lemma b32_le t : 0 <= t -> t <= 1 -> t * t * (1 - t) <= 4 # 27.
Proof.
  intros. assert (E: t*t*(1-t) == (1-t)*(1-(1-t))*(1-(1-t))) by ring. rewrite E. apply b31_le; lra.
Qed.

(** lower bound of a cubic Bernstein polynomial with coefficients (0, a1, a2, e), e >= 0 *)
Lemma bern3_lower a1 a2 e n1 n2 t : 0 <= t -> t <= 1 -> 0 <= e -> 0 <= n1 -> 0 <= n2 -> - n1 <= a1 -> - n2 <= a2 ->
  - ((4 # 9) * (n1 + n2)) <= 3 * (a1 * (t * (1 - t) * (1 - t))) + 3 * (a2 * (t * t * (1 - t))) + e * (t * t * t).
Proof.
  intros H0 H1 He Hn1 Hn2 Ha1 Ha2.
  set (f1 := t * (1 - t) * (1 - t)). set (f2 := t * t * (1 - t)).
  assert (F1: 0 <= f1) by (apply Qmul_nonneg3; lra). assert (F2: 0 <= f2) by (apply Qmul_nonneg3; lra).
  assert (G1: f1 <= 4#27) by (apply b31_le; lra). assert (G2: f2 <= 4#27) by (apply b32_le; lra).
  assert (0 <= (a1 + n1) * f1) by (apply Qmult_le_0_compat; lra).
  assert (0 <= (a2 + n2) * f2) by (apply Qmult_le_0_compat; lra).
  assert (0 <= n1 * ((4#27) - f1)) by (apply Qmult_le_0_compat; lra).
  assert (0 <= n2 * ((4#27) - f2)) by (apply Qmult_le_0_compat; lra).
  assert (0 <= e * (t*t*t)) by (apply Qmult_le_0_compat; [lra|apply Qmul_nonneg3; lra]).
  lra.
Qed.

// c03: correspondence harness for C03 (flattening / ReplaceArcs / XMonotone).
// Runs the real flatteners (through verif_export_c03.go) on generated curves, recovers for every returned
// vertex a curve parameter by untrusted float search and prints one case per (curve, tolerance) for the Coq
// judge, which checks the certificate exactly in Q (Flat/Cert.v) — a wrong parameter is rejected there.
package main

import (
	"flag"
	"fmt"
	"math"
	"os"
	"sort"
	"strings"

	"github.com/tdewolff/canvas"

	"verifharness/internal/cq"
	"verifharness/internal/out"
	"verifharness/internal/pd"
	"verifharness/internal/rng"
)

var tols = []float64{1, 0.1, 0.01, 1e-3}

func safe(f func()) (msg string) {
	defer func() {
		if r := recover(); r != nil {
			msg = fmt.Sprint(r)
		}
	}()
	f()
	return ""
}

// polyline returns the vertices of a path that must consist of one M followed by L's only.
func polyline(p *canvas.Path) (vs []P, ok bool) {
	segs, err := pd.Decode(p.Data())
	if err != nil {
		return nil, false
	}
	for i, s := range segs {
		if (i == 0) != (s.Cmd == 'M') || (i > 0 && s.Cmd != 'L') {
			return nil, false
		}
		vs = append(vs, P{X: s.X, Y: s.Y})
	}
	return vs, true
}

func finite(vs []P) bool {
	for _, v := range vs {
		if math.IsNaN(v.X) || math.IsNaN(v.Y) || math.IsInf(v.X, 0) || math.IsInf(v.Y, 0) {
			return false
		}
	}
	return true
}

func pts(vs []P) string {
	xs := make([]string, len(vs))
	for i, v := range vs {
		xs[i] = cq.Pt(v.X, v.Y)
	}
	return cq.List(xs)
}

func ptsDesc(vs []P) string {
	var sb strings.Builder
	for i, v := range vs {
		if i > 0 {
			sb.WriteByte(' ')
		}
		fmt.Fprintf(&sb, "%g,%g", v.X, v.Y)
	}
	return sb.String()
}

func svgOf(c []P) string {
	if len(c) == 3 {
		return fmt.Sprintf("M%g %gQ%g %g %g %g", c[0].X, c[0].Y, c[1].X, c[1].Y, c[2].X, c[2].Y)
	}
	return fmt.Sprintf("M%g %gC%g %g %g %g %g %g", c[0].X, c[0].Y, c[1].X, c[1].Y, c[2].X, c[2].Y, c[3].X, c[3].Y)
}

func flattenBez(c []P, tol float64) (vs []P, panicMsg string, ok bool) {
	var p *canvas.Path
	panicMsg = safe(func() {
		if len(c) == 3 {
			p = canvas.VerifFlattenQuadraticBezier(c[0], c[1], c[2], tol)
		} else {
			p = canvas.VerifFlattenCubicBezier(c[0], c[1], c[2], c[3], tol)
		}
	})
	if panicMsg != "" {
		return nil, panicMsg, false
	}
	vs, ok = polyline(p)
	return vs, "", ok && finite(vs)
}

type stat struct {
	n                      int
	maxBound, maxSampled   float64
	over1, over2, over4    int
	worst                  string
	nverts                 int
	nfail                  [2]int
	maxRho                 [2]float64
	rhoWorst               [2]string
	noturn                 [2]int
	noturnMax              [2]float64
	noturnEx               [2]string
}

func main() {
	seed := flag.Uint64("seed", 1, "")
	n := flag.Int("n", 100, "")
	only := flag.Int("only", -1, "")
	probe := flag.Bool("probe", false, "print float statistics instead of cases")
	flag.Parse()
	o := out.New()
	defer o.Close()
	root := rng.New(*seed)
	stats := map[string]*stat{}
	if !*probe && (*only < 0 || *only >= 1000000) {
		// corpus: the near-cusp quadratic of DESIGN par. 4 (replayed against the real code on every run)
		for k, cc := range corpus {
			if *only < 0 || *only == 1000000+k {
				emitBezier(o, 1000000+k, cc.bc, cc.tol)
			}
		}
	}
	for i := 0; i < *n; i++ {
		if *only >= 0 && i != *only {
			continue
		}
		r := root.Fork(uint64(i))
		switch r.Intn(10) {
		case 0, 1, 2:
			bezierCase(o, i, genQuad(r), *probe, stats)
		case 3, 4, 5, 6:
			bezierCase(o, i, genCube(r), *probe, stats)
		case 7:
			arcCase(o, i, r, *probe, stats)
		case 8:
			if !*probe {
				xmonoCase(o, i, r)
			}
		default:
			if !*probe {
				publicCase(o, i, r)
			}
		}
	}
	if *probe {
		var keys []string
		for k := range stats {
			keys = append(keys, k)
		}
		sort.Strings(keys)
		for _, k := range keys {
			s := stats[k]
			fmt.Fprintf(os.Stderr, "%-34s n=%4d verts=%6d maxBound/tol=%9.3f maxSampled/tol=%9.3f >1:%d >2:%d >4:%d  %s\n", k, s.n, s.nverts, s.maxBound, s.maxSampled, s.over1, s.over2, s.over4, s.worst)
			fmt.Fprintf(os.Stderr, "      NOTURN K=4: %d max=%.3f %s | K=8: %d max=%.3f %s\n", s.noturn[0], s.noturnMax[0], s.noturnEx[0], s.noturn[1], s.noturnMax[1], s.noturnEx[1])
			fmt.Fprintf(os.Stderr, "      K=4: failing pieces %d max(minRho/tol)=%.4f %s\n      K=8: failing pieces %d max(minRho/tol)=%.4f %s\n", s.nfail[0], s.maxRho[0], s.rhoWorst[0], s.nfail[1], s.maxRho[1], s.rhoWorst[1])
		}
	}
}

func bezierCase(o *out.W, i int, bc bcase, probe bool, stats map[string]*stat) {
	c := bc.ctrl
	kind := "CQuad"
	if len(c) == 4 {
		kind = "CCube"
	}
	for _, tol := range tols {
		vs, pmsg, ok := flattenBez(c, tol)
		var ts []float64
		if ok {
			ts = recoverParams(c, vs)
		}
		if probe {
			if !ok {
				fmt.Fprintf(os.Stderr, "NOT-OK %s %s tol=%g panic=%q\n", bc.fam, svgOf(c), tol, pmsg)
				continue
			}
			key := fmt.Sprintf("%s tol=%g", bc.fam, tol)
			s := stats[key]
			if s == nil {
				s = &stat{}
				stats[key] = s
			}
			s.n++
			s.nverts += len(vs)
			worst := 0.0
			if len(vs) == 1 {
				vs = append(vs, vs[0])
				ts = []float64{0, 1}
			}
			for j := 0; j+1 < len(ts); j++ {
				q := subCurve(c, ts[j], ts[j+1])
				var b float64
				if len(c) == 3 {
					b = quadPieceBound2(q)
				} else {
					b = cubePieceBound2(q)
				}
				worst = math.Max(worst, math.Sqrt(b)/tol)
				for ki, K := range []float64{4, 8} {
					if math.Sqrt(b)/tol > K {
						rho := minRho(c, ts[j], ts[j+1]) / tol
						if minTurnDot(c, ts[j], ts[j+1]) > 0 {
							s.noturn[ki]++
							if math.Sqrt(b)/tol > s.noturnMax[ki] {
								s.noturnMax[ki] = math.Sqrt(b) / tol
								s.noturnEx[ki] = fmt.Sprintf("%s [%g,%g] ratio=%.3f rho/tol=%.3f", svgOf(c), ts[j], ts[j+1], math.Sqrt(b)/tol, rho)
							}
						}
						s.nfail[ki]++
						if rho > s.maxRho[ki] {
							s.maxRho[ki] = rho
							s.rhoWorst[ki] = fmt.Sprintf("%s [%g,%g] ratio=%.3f", svgOf(c), ts[j], ts[j+1], math.Sqrt(b)/tol)
						}
					}
				}
			}
			sd := sampledDev(c, vs, 2000) / tol
			if worst > s.maxBound {
				s.maxBound = worst
				s.worst = svgOf(c)
			}
			s.maxSampled = math.Max(s.maxSampled, sd)
			if worst > 1.0001 {
				s.over1++
			}
			if worst > 2 {
				s.over2++
			}
			if worst > 4 {
				s.over4++
			}
			continue
		}
		_ = pmsg
		_ = ts
		_ = kind
		emitBezier(o, i, bc, tol)
	}
}

// Kof is the constant multiple of the tolerance used by the judge for each degree (Corr/C03.v Kquad, Kcube).
func Kof(c []P) float64 {
	if len(c) == 3 {
		return 2
	}
	return 8
}

// emitBezier runs the flattener on one curve at one tolerance and prints the case with its certificate:
// the recovered parameters and, for pieces whose float bound is above K/2, a pair of parameters inside the piece
// between which the tangent turns by 90 degrees or more (the known trigger), if the sampling finds one.
func emitBezier(o *out.W, i int, bc bcase, tol float64) {
	c := bc.ctrl
	kind := "CQuad"
	if len(c) == 4 {
		kind = "CCube"
	}
	vs, pmsg, ok := flattenBez(c, tol)
	var ts []float64
	var wit []string
	if ok {
		if len(vs) == 1 { // a path that collapsed to its start point: the degenerate segment [v,v]
			vs = append(vs, vs[0])
		}
		ts = roundParams(recoverParams(c, vs))
		for j := 0; j+1 < len(ts); j++ {
			q := subCurve(c, ts[j], ts[j+1])
			var b float64
			if len(c) == 3 {
				b = quadPieceBound2(q)
			} else {
				b = cubePieceBound2(q)
			}
			if math.Sqrt(b) > Kof(c)/2*tol {
				if t1, t2, found := turnWitness(c, ts[j], ts[j+1]); found {
					wit = append(wit, cq.Pair(cq.F(t1), cq.F(t2)))
				}
			}
		}
	}
	term := fmt.Sprintf("%s %s %s false nil nil nil", kind, pts(c), cq.F(tol))
	if ok {
		term = fmt.Sprintf("%s %s %s true %s %s %s", kind, pts(c), cq.F(tol), pts(vs), cq.Floats(ts), cq.List(wit))
	}
	desc := map[string]interface{}{"curve": svgOf(c), "tol": tol, "go_vertices": ptsDesc(vs), "params": ts, "panic": pmsg}
	o.Emit(out.Case{I: i, Fam: bc.fam, Coq: term, Desc: desc, Tags: []string{kind}})
}

// roundParams rounds the recovered parameters to multiples of 2^-24 (keeps the exact arithmetic of the Coq checker
// small); the judge's slack 2^-18 covers |B'| * 2^-25. Rounding is skipped where it would break strict monotonicity.
func roundParams(ts []float64) []float64 {
	out := make([]float64, len(ts))
	copy(out, ts)
	const S = 1 << 24
	for i := 1; i+1 < len(ts); i++ {
		r := math.Round(ts[i]*S) / S
		if r > out[i-1] && r < ts[i+1] && r < 1 && r > 0 {
			out[i] = r
		}
	}
	return out
}

var corpus = []struct {
	bc  bcase
	tol float64
}{
	{bcase{"corpus-nearcusp-quad", []P{{X: 0, Y: 0}, {X: 10, Y: 0.001}, {X: 0, Y: 0.002}}}, 0.01},
	{bcase{"corpus-narrow-arch-quad", []P{{X: -2, Y: 0.375}, {X: -1.875, Y: -7.75}, {X: -1.75, Y: 0.375}}}, 0.1},
	{bcase{"corpus-cusp-cube", []P{{X: 1, Y: -2.5}, {X: 11, Y: 7.5}, {X: 1, Y: 7.5}, {X: 11, Y: -2.5}}}, 0.001},
	// fixed: vertex beyond the end of the curve (first inflection range past t=1 overlapping the second)
	{bcase{"corpus-inflection-range-past-end", []P{{X: 4.482421875, Y: -0.0302734375}, {X: 4.484375, Y: 0.0390625}, {X: 4.4814453125, Y: -0.037109375}, {X: 4.4912109375, Y: 0.03515625}}}, 0.01},
}

#!/usr/bin/env python3
"""Runs the repository's pinned test suite with the verif build tag OFF and compares with
/root/.vp/BASELINE.json stable_pass. Usage: baseline.py [repo]   (exit 0 iff every stable_pass test passes)."""
import json, os, subprocess, sys
repo = sys.argv[1] if len(sys.argv) > 1 else "/repo"
base = json.load(open("/root/.vp/BASELINE.json"))
env = dict(os.environ, GOFLAGS="-mod=mod", GOPROXY="off")
env.pop("GOTOOLCHAIN", None)
passed, failed = set(), set()
for m in [".", "tests/latex", "tests/svg"]:
    d = os.path.join(repo, m)
    if not os.path.isdir(d):
        continue
    p = subprocess.run(["go", "test", "-mod=mod", "-json", "-vet=off", "-count=1", "-timeout", "25m", "./..."], cwd=d, env=env,
                       stdout=subprocess.PIPE, stderr=subprocess.DEVNULL, text=True)
    for line in p.stdout.split("\n"):
        if not line.startswith("{"):
            continue
        try:
            ev = json.loads(line)
        except Exception:
            continue
        a, pkg, t = ev.get("Action"), ev.get("Package", ""), ev.get("Test")
        if t is None or a not in ("pass", "fail"):
            continue
        (passed if a == "pass" else failed).add(pkg + "::" + t)
passed -= failed
missing = [t for t in base["stable_pass"] if t not in passed]
print("baseline: %d stable tests, %d passed now, %d missing/failing" % (len(base["stable_pass"]), len(passed), len(missing)))
for t in missing[:40]:
    print("  NOT PASSING:", t)
sys.exit(1 if missing else 0)

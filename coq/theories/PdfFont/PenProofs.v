(** tj_pen and pen_agreement. *)
From Coq Require Import ZArith List Bool Lia.
From CV Require Import PdfFont.Widths PdfFont.TJ PdfFont.Pen.
Import ListNotations.
Open Scope Z_scope.

(** ---------- TJ ---------- *)
Lemma sumw_app : forall w a b, sumw w (a ++ b) = sumw w a + sumw w b.
Proof. intros w a b. unfold sumw. induction a as [|x a IH]; cbn [app fold_right]; [lia|]. rewrite IH. lia. Qed.

Definition g_disp (upem : Z) (w : Z -> Z) (g : tg) : Z :=
  w (tcode g) + match tj_adj upem g with None => 0 | Some z => - z end.

(** the reader's displacement is the sum of the per-glyph displacements (whatever the string splitting) *)
Lemma tj_disp_ops : forall upem w gs cur,
  tj_disp w (tj_ops upem gs cur) = sumw w cur + fold_right (fun g acc => g_disp upem w g + acc) 0 gs.
Proof.
  intros upem w gs. induction gs as [|g r IH]; intros cur.
  - cbn [tj_ops tj_disp fold_right]. lia.
  - cbn [tj_ops fold_right]. unfold g_disp at 1. destruct (tj_adj upem g) as [z|].
    + cbn [tj_disp]. rewrite IH, sumw_app. cbn [sumw fold_right]. lia.
    + rewrite IH, sumw_app. cbn [sumw fold_right]. lia.
Qed.

(** the codes shown are exactly the glyph codes, in order *)
Lemma tj_codes_ops : forall upem gs cur, tj_codes (tj_ops upem gs cur) = cur ++ map tcode gs.
Proof.
  intros upem gs. induction gs as [|g r IH]; intros cur.
  - cbn [tj_ops tj_codes map]. rewrite !app_nil_r. reflexivity.
  - cbn [tj_ops map]. destruct (tj_adj upem g).
    + cbn [tj_codes]. rewrite IH. cbn [app]. rewrite <- app_assoc. reflexivity.
    + rewrite IH. rewrite <- app_assoc. reflexivity.
Qed.

Lemma width_err : forall upem o, 0 < upem -> 0 <= o ->
  - upem < 2 * (upem * pdf_width upem o) - 2000 * o <= upem.
Proof.
  intros upem o Hu Ho. unfold pdf_width.
  pose proof (Z.div_mod (2000 * o + upem) (2 * upem) ltac:(lia)) as H.
  pose proof (Z.mod_pos_bound (2000 * o + upem) (2 * upem) ltac:(lia)) as Hb.
  set (q := (2000 * o + upem) / (2 * upem)) in *. lia.
Qed.

Lemma round_err : forall upem d, 0 < upem ->
  - upem < 2 * (upem * tj_round upem d) - 2000 * d < 3 * upem.
Proof.
  intros upem d Hu. unfold tj_round.
  pose proof (Z.quot_rem' (2000 * d + upem) (2 * upem)) as H.
  set (q := Z.quot (2000 * d + upem) (2 * upem)) in *.
  set (r := Z.rem (2000 * d + upem) (2 * upem)) in *.
  destruct (Z.le_gt_cases 0 (2000 * d + upem)) as [Hp|Hn].
  - pose proof (Z.rem_bound_pos (2000 * d + upem) (2 * upem) Hp ltac:(lia)) as Hb. fold r in Hb. lia.
  - pose proof (Z.rem_bound_pos (- (2000 * d + upem)) (2 * upem) ltac:(lia) ltac:(lia)) as Hb.
    rewrite Z.rem_opp_l' in Hb. fold r in Hb. lia.
Qed.

(** per glyph: unadjusted |e| <= upem/2, adjusted |e| < 2*upem, where e = upem*disp - 1000*adv *)
Lemma g_err : forall upem w g, 0 < upem -> 0 <= torig g -> w (tcode g) = pdf_width upem (torig g) ->
  2 * Z.abs (upem * g_disp upem w g - 1000 * tadv g) <= upem * (if tadv g =? torig g then 1 else 4).
Proof.
  intros upem w g Hu Ho Hw. unfold g_disp, tj_adj. rewrite Hw.
  pose proof (width_err upem (torig g) Hu Ho) as H1.
  destruct (Z.eqb_spec (tadv g) (torig g)) as [E|NE].
  - rewrite E. lia.
  - pose proof (round_err upem (tadv g - torig g) Hu) as H2.
    rewrite Z.opp_involutive.
    set (W := pdf_width upem (torig g)) in *. set (D := tj_round upem (tadv g - torig g)) in *.
    replace (upem * (W + D)) with (upem * W + upem * D) by ring. lia.
Qed.

(** tj_pen: after any glyph run, the pen of a PDF reader (widths from /W, numbers of the TJ array) differs from the
    laid-out pen Σ advances by at most 1/2 unit of 1/1000 em per unadjusted glyph (rounding of /W) and
    less than 2 units per adjusted glyph.  Stated without division: e = upem*disp − 1000*Σadv. *)
Theorem tj_pen : forall upem w gs, 0 < upem ->
  Forall (fun g => 0 <= torig g /\ w (tcode g) = pdf_width upem (torig g)) gs ->
  2 * Z.abs (upem * tj_disp w (tj_ops upem gs []) - 1000 * sum_adv gs) <= upem * (n_unadj gs + 4 * n_adj gs).
Proof.
  intros upem w gs Hu Hall. rewrite tj_disp_ops. cbn [sumw fold_right]. rewrite Z.add_0_l.
  induction gs as [|g r IH].
  - unfold sum_adv, n_unadj, n_adj. cbn [fold_right]. lia.
  - inversion Hall as [|? ? [Ho Hw] Hr]; subst. specialize (IH Hr).
    pose proof (g_err upem w g Hu Ho Hw) as Hg.
    cbn [fold_right sum_adv n_unadj n_adj]. fold (sum_adv r). fold (n_unadj r). fold (n_adj r).
    set (S := fold_right (fun g0 acc => g_disp upem w g0 + acc) 0 r) in *.
    destruct (tadv g =? torig g); lia.
Qed.

(** the design's first guess "< 1/1000 em per adjusted glyph" does not hold: upem 2048, advance 128 (62.5 → 63),
    laid out 3 units tighter: the reader's pen is off by 1.96/1000 em for this one glyph *)
Theorem tj_pen_one_milli_refuted : exists upem w g,
  0 < upem /\ 0 <= torig g /\ w (tcode g) = pdf_width upem (torig g) /\ tadv g <> torig g /\
  upem < Z.abs (upem * tj_disp w (tj_ops upem [g] []) - 1000 * sum_adv [g]).
Proof.
  exists 2048, (fun _ => 63), (mkTg 1 128 125). vm_compute. repeat split; try discriminate; reflexivity.
Qed.

Example tj_example :
  tj_ops 2048 [mkTg 1 1300 1300; mkTg 2 1212 1100; mkTg 3 651 651; mkTg 3 651 700] [] =
  [TStr [1; 2]; TAdj 54; TStr [3; 3]; TAdj (-24); TStr []].
Proof. vm_compute. reflexivity. Qed.

(** ---------- toPath / textWidth ---------- *)
Lemma wrap32_id : forall z, in32 z -> wrap32 z = z.
Proof. intros z H. unfold wrap32, in32 in *. rewrite Z.mod_small by lia. lia. Qed.

(** glyph k is placed at (XOffset + Σ_{i<k} XAdvance_i + xoff_k, YOffset + Σ_{i<k} YAdvance_i + yoff_k) and the
    returned advance is XOffset + Σ XAdvance *)
Fixpoint placements (x y : Z) (gs : list pg) : list (Z * Z) :=
  match gs with
  | [] => []
  | g :: r => (x + pxo g, y + pyo g) :: placements (x + pxa g) (y + pya g) r
  end.

Lemma topath_spec : forall gs x y, fits x y gs ->
  topath x y gs = (placements x y gs, x + sum_xa gs).
Proof.
  induction gs as [|g r IH]; intros x y Hf.
  - cbn. f_equal. lia.
  - cbn [fits] in Hf. destruct Hf as (H1 & H2 & H3 & H4 & Hr).
    cbn [topath placements sum_xa fold_right]. rewrite !wrap32_id by assumption.
    rewrite (IH _ _ Hr). f_equal. fold (sum_xa r). lia.
Qed.

Lemma nth_placement : forall gs x y k g, nth_error gs k = Some g ->
  nth_error (placements x y gs) k = Some (x + sum_xa (firstn k gs) + pxo g, y + sum_ya (firstn k gs) + pyo g).
Proof.
  induction gs as [|g0 r IH]; intros x y k g H; [destruct k; discriminate|].
  destruct k as [|k].
  - cbn in H. injection H as <-. cbn. do 2 f_equal; lia.
  - cbn [nth_error] in H. cbn [placements nth_error firstn]. rewrite (IH _ _ _ _ H).
    cbn [sum_xa sum_ya fold_right]. fold (sum_xa (firstn k r)). fold (sum_ya (firstn k r)). do 2 f_equal; lia.
Qed.

Fixpoint fitsw (w : Z) (gs : list pg) : Prop :=
  match gs with [] => True | g :: r => in32 (w + pxa g) /\ fitsw (w + pxa g) r end.

Lemma textwidth_spec : forall gs w, Forall (fun g => pvert g = false) gs -> fitsw w gs ->
  textwidth w gs = w + sum_xa gs.
Proof.
  induction gs as [|g r IH]; intros w Hh Hf.
  - cbn. lia.
  - inversion Hh as [|? ? Hg Hr]; subst. cbn [fitsw] in Hf. destruct Hf as [H1 H2].
    cbn [textwidth sum_xa fold_right]. rewrite Hg. rewrite wrap32_id by assumption.
    rewrite (IH _ Hr H2). fold (sum_xa r). lia.
Qed.

Lemma fits_fitsw : forall gs x y, fits x y gs -> fitsw x gs.
Proof.
  induction gs as [|g r IH]; intros x y H; [exact I|].
  cbn [fits] in H. destruct H as (H1 & _ & _ & _ & Hr). split; [exact H1|]. eapply IH. exact Hr.
Qed.

(** pen_agreement: for a horizontal run without int32 overflow, toPath places glyph k at the sum of the preceding
    advances plus the face and glyph offsets, and its returned advance equals XOffset + textWidth; the two agree
    exactly when the face has no X offset. *)
Theorem pen_agreement : forall gs xo yo,
  Forall (fun g => pvert g = false) gs -> fits xo yo gs -> fitsw 0 gs ->
  snd (topath xo yo gs) = xo + textwidth 0 gs /\
  textwidth 0 gs = sum_xa gs /\
  (forall k g, nth_error gs k = Some g ->
     nth_error (fst (topath xo yo gs)) k = Some (xo + sum_xa (firstn k gs) + pxo g, yo + sum_ya (firstn k gs) + pyo g)).
Proof.
  intros gs xo yo Hh Hf Hw. rewrite (topath_spec gs xo yo Hf). cbn [fst snd].
  rewrite (textwidth_spec gs 0 Hh Hw). split; [lia|]. split; [lia|].
  intros k g Hk. apply nth_placement. exact Hk.
Qed.

(** with a face X offset (sub-/superscript variants of fonts whose OS/2 table has ySubscriptXOffset /
    ySuperscriptXOffset <> 0) the advance returned by toPath is not the text width *)
Theorem pen_agreement_xoffset_refuted : exists gs xo yo,
  Forall (fun g => pvert g = false) gs /\ fits xo yo gs /\ fitsw 0 gs /\
  snd (topath xo yo gs) <> textwidth 0 gs.
Proof.
  exists [mkPg 1000 0 0 0 false], 50, 0. split; [repeat constructor|].
  split; [cbn; unfold in32; lia|]. split; [cbn; unfold in32; lia|]. vm_compute. discriminate.
Qed.

(** vertical glyphs: textWidth sums -YAdvance while toPath's returned advance still sums XAdvance *)
Example pen_vertical_example :
  textwidth 0 [mkPg 0 (-2048) 0 0 true; mkPg 0 (-2048) 0 0 true] = 4096 /\
  snd (topath 0 0 [mkPg 0 (-2048) 0 0 true; mkPg 0 (-2048) 0 0 true]) = 0.
Proof. vm_compute. split; reflexivity. Qed.

Example pen_example :
  topath 0 0 [mkPg 1300 0 0 0 false; mkPg 1100 0 (-20) 5 false; mkPg 651 0 0 0 false]
  = ([(0, 0); (1280, 5); (2400, 0)], 3051).
Proof. vm_compute. reflexivity. Qed.

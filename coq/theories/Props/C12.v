(** C12 — SVG, PDF and PostScript output encode the drawing the rasteriser renders.
    Property theorems only; each is closed by [exact] of a lemma proved elsewhere. *)
From Coq Require Import QArith Qabs ZArith List Bool.
From CV Require Import Geom.Matrix Render.Sem Render.GState Render.GStateProofs Render.Backends Render.UnitsProofs Render.PsProofs Render.GradProofs.
Import ListNotations.
Open Scope Q_scope.

(** cache_transparent_pdf + paint_order: for EVERY sequence of styled draws (uniform-colour paints), interpreting what the
    PDF page writer emits from the PDF initial graphics state yields, in emission order, exactly the paint operations
    the draws ask for: every painting operator runs in a graphics state equal to the requested style. *)
Theorem C12_cache_transparent_pdf : forall ds, Forall okdraw ds ->
  exec_pdf (pdf_write true ds pdfw_init) pdfg_init = flat_map pdf_spec ds.
Proof. exact cache_transparent_pdf. Qed.
Print Assumptions C12_cache_transparent_pdf.

(** the writer at the pinned commit: stale alpha (one ExtGState shared by fill and stroke) … *)
Theorem C12_cache_transparent_pdf_alpha_refuted : exists ds, Forall okdraw ds /\
  exec_pdf (pdf_write false ds pdfw_init) pdfg_init <> flat_map pdf_spec ds /\
  map palpha (exec_pdf (pdf_write false ds pdfw_init) pdfg_init) = [128 # 255; 128 # 255; 128 # 255] /\
  map palpha (flat_map pdf_spec ds) = [128 # 255; 1; 128 # 255].
Proof. exact cache_transparent_pdf_alpha_refuted. Qed.
Print Assumptions C12_cache_transparent_pdf_alpha_refuted.

(** … and "S*" for a stroked EvenOdd path *)
Theorem C12_pdf_stroke_evenodd_refuted : exists d, okdraw d /\
  map pk (exec_pdf (pdf_write false [d] pdfw_init) pdfg_init) = [KBad].
Proof. exact pdf_stroke_evenodd_refuted. Qed.
Print Assumptions C12_pdf_stroke_evenodd_refuted.

(** cache_transparent_ps + paint_order: for EVERY sequence of draws with uniform-colour paints (no zero-width native stroke, i.e.
    no singular view) interpreting what the PostScript writer emits from the PLRM initial graphics state (black, width 1, butt,
    miter, limit 10, solid) yields, in order, exactly the paint operations the draws ask for: colour, width, cap, join, miter
    limit and dash pattern of every painting operator are the requested ones, whatever the five caches skipped; gsave/grestore
    around the fill keep the path for the stroke. *)
Theorem C12_cache_transparent_ps : forall ds, Forall okdraw_ps ds ->
  exec_ps (ps_write true ds psw_init) (psg_init, []) = flat_map ps_spec ds.
Proof. exact cache_transparent_ps. Qed.
Print Assumptions C12_cache_transparent_ps.

(** the colour cache alone, over bare histories of setPaint calls *)
Theorem C12_cache_transparent_ps_colour : forall ps, ps <> [] ->
  ps_final_col (ps_paints true ps psw_init) (0, 0, 0) = ps_col (last ps PNone).
Proof. exact cache_transparent_ps_colour. Qed.
Print Assumptions C12_cache_transparent_ps_colour.

Theorem C12_cache_transparent_ps_refuted : exists ps, ps <> [] /\
  ps_final_col (ps_paints false ps psw_init) (0, 0, 0) <> ps_col (last ps PNone) /\
  ps_final_col (ps_paints false ps psw_init) (0, 0, 0) = (199 # 255, 0, 0) /\ ps_col (last ps PNone) = (20 # 51, 0, 0).
Proof. exact cache_transparent_ps_refuted. Qed.
Print Assumptions C12_cache_transparent_ps_refuted.

Theorem C12_similarity_scales_distance : forall m k2 p q, similarity m k2 ->
  dist2 (mdot m p) (mdot m q) == k2 * dist2 p q.
Proof. exact similarity_scales_distance. Qed.
Print Assumptions C12_similarity_scales_distance.

Theorem C12_flip_is_isometry : forall h p q, dist2 (flip h p) (flip h q) == dist2 p q.
Proof. exact flip_is_isometry. Qed.
Print Assumptions C12_flip_is_isometry.

Theorem C12_flip_is_reflecty_about : forall h p, pteq (mdot (mreflecty_about mid (h / 2)) p) (flip h p).
Proof. exact flip_is_reflecty_about. Qed.
Print Assumptions C12_flip_is_reflecty_about.

Theorem C12_fallback_condition : forall d,
  native_stroke d = None <-> fallback_spec (sJoin (dS d)) (dSim d) = true.
Proof. exact fallback_condition. Qed.
Print Assumptions C12_fallback_condition.

Theorem C12_unit_roundtrip : forall x, x * pt_per_mm * mm_per_pt == x.
Proof. exact unit_roundtrip. Qed.
Print Assumptions C12_unit_roundtrip.

Theorem C12_printed_scale_error : Qabs ((28346457 # 10000000) * mm_per_pt - 1) <= 12 # 1000000000.
Proof. exact printed_scale_error. Qed.
Print Assumptions C12_printed_scale_error.

(** gradient_fill_opaque — FULL for the PDF writer model of a gradient fill (after fix 54818f3): from every normalised writer state,
    whatever paints and alpha were in force, the operators written for a gradient fill make the interpreter paint the path once,
    with the gradient, at alpha 1, and leave the writer's cache describing exactly that state. *)
Theorem C12_gradient_fill_opaque : forall id data eo w, Norm w ->
  let w' := mkPdfw (PGrad id) (wstroke w) 1 (wlw w) (wcap w) (wjoin w) (wml w) (wdash w) in
  run (fst (grad_fill_part true id data eo w)) (abs w []) = ([mkPop (KFill eo) data (paint_col (PGrad id)) 1], abs w' [])
  /\ snd (grad_fill_part true id data eo w) = w'.
Proof. exact grad_fill_opaque. Qed.
Print Assumptions C12_gradient_fill_opaque.

(** gradient_fill_opaque — REFUTED for the writer before the fix: after a stroke colour with alpha 128/255 the gradient fill is
    painted at that alpha (witness replayed on the Go code: the thorough tier's first gradient run). *)
Theorem C12_gradient_fill_opaque_refuted_v0 :
  let w := mkPdfw PNone (PColor (0, 0, 0, 128)%Z) (Qred (128 # 255)) 1 0%Z 0%Z 10 [0] in
  exists pop, fst (run (fst (grad_fill_part false 1%Z [] false w)) (abs w [])) = [pop] /\ ~ palpha pop == 1.
Proof. exact grad_fill_inherits_alpha_v0. Qed.
Print Assumptions C12_gradient_fill_opaque_refuted_v0.

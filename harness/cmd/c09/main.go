// c09: correspondence harness for C09 (Length / SplitAt / Reverse).
// R cases: Path.Reverse on every path family incl. arcs: the decoded records of p, Reverse(p), Reverse^2, Reverse^3,
//   Go's own Length/Bounds/Closed before and after, and for integer polygons the contours before/after with sample
//   points for the winding number.
// S cases: Path.SplitAt (and Length) on paths of lines, quadratic and cubic Beziers: every segment of every returned
//   piece gets a certificate (input segment index, parameters s,u) that the Coq judge re-checks with the blossom
//   relation; axis-aligned polylines additionally carry their point lists for the faithful split_at model.
package main

import (
	"flag"
	"fmt"
	"math"
	"sort"

	"github.com/tdewolff/canvas"

	"verifharness/internal/cq"
	"verifharness/internal/gen"
	"verifharness/internal/out"
	"verifharness/internal/pd"
	"verifharness/internal/rng"
)

func safe(f func()) (msg string) {
	defer func() {
		if r := recover(); r != nil {
			msg = fmt.Sprint(r)
		}
	}()
	f()
	return ""
}

func pt(x, y float64) string { return "(" + cq.F(x) + ", " + cq.F(y) + ")" }

func segsTerm(d []float64) (string, int, error) {
	segs, err := pd.Decode(d)
	if err != nil {
		return "", 0, err
	}
	var xs []string
	for _, s := range segs {
		switch s.Cmd {
		case 'M':
			xs = append(xs, "SM "+pt(s.X, s.Y))
		case 'L':
			xs = append(xs, "SL "+pt(s.X, s.Y))
		case 'Z':
			xs = append(xs, "SZ "+pt(s.X, s.Y))
		case 'Q':
			xs = append(xs, "SQ "+pt(s.A[0], s.A[1])+" "+pt(s.X, s.Y))
		case 'C':
			xs = append(xs, "SC "+pt(s.A[0], s.A[1])+" "+pt(s.A[2], s.A[3])+" "+pt(s.X, s.Y))
		case 'A':
			xs = append(xs, fmt.Sprintf("SA %s %s %s %s %s", cq.F(s.A[0]), cq.F(s.A[1]), cq.F(s.A[2]), cq.F(s.A[3]), pt(s.X, s.Y)))
		}
	}
	return cq.List(xs), len(segs), nil
}

// ---- path families -----------------------------------------------------------------------------

type built struct {
	p      *canvas.Path
	fam    string
	lines  bool // only M/L/Z
	axis   bool // axis-aligned polyline
	arcs   bool
	ipoly  bool // integer polygon, all subpaths closed (winding samples)
	bounds [4]int
}

var triples = [][3]int{{3, 4, 5}, {4, 3, 5}, {5, 12, 13}, {12, 5, 13}, {8, 15, 17}}

func build(r *rng.R) built {
	p := &canvas.Path{}
	switch k := r.Intn(10); {
	case k <= 1: // integer polygons (even coordinates), closed, 1-3 contours
		b := built{p: p, fam: "ipoly", lines: true, ipoly: true, bounds: [4]int{-12, -12, 12, 12}}
		for n := r.Range(1, 3); n > 0; n-- {
			m := r.Range(3, 7)
			var last [2]int
			for j := 0; j < m; j++ {
				v := [2]int{2 * r.Range(-6, 6), 2 * r.Range(-6, 6)}
				if j > 0 && v == last {
					v[0] += 2
				}
				last = v
				if j == 0 {
					p.MoveTo(float64(v[0]), float64(v[1]))
				} else {
					p.LineTo(float64(v[0]), float64(v[1]))
				}
			}
			p.Close()
		}
		return b
	case k <= 3: // axis-aligned: stairs / rectangles, multi-subpath, quarter grid
		b := built{p: p, fam: "axis", lines: true, axis: true}
		for n, ox := r.Range(1, 3), 0; n > 0; n, ox = n-1, ox+100 {
			x, y := float64(ox+r.Range(-20, 20))/4, float64(r.Range(-20, 20))/4
			if r.P(1, 3) {
				w, h := float64(r.Range(1, 30))/4, float64(r.Range(1, 30))/4
				p.MoveTo(x, y)
				p.LineTo(x+w, y)
				p.LineTo(x+w, y+h)
				p.LineTo(x, y+h)
				p.Close()
				continue
			}
			p.MoveTo(x, y)
			for j, m := 0, r.Range(1, 5); j < m; j++ {
				if j%2 == 0 {
					x += float64(r.Range(1, 24)) / 4
				} else {
					y += float64(r.Range(1, 24)) / 4 * float64(1-2*r.Intn(2))
				}
				p.LineTo(x, y)
			}
		}
		return b
	case k == 4: // Pythagorean polylines, open or closed triangles
		b := built{p: p, fam: "pyth", lines: true}
		for n, ox := r.Range(1, 2), 0; n > 0; n, ox = n-1, ox+100 {
			x, y := float64(ox+r.Range(-20, 20))/4, float64(r.Range(-20, 20))/4
			p.MoveTo(x, y)
			if r.P(1, 3) {
				t := triples[r.Intn(len(triples))]
				u := float64(r.Range(1, 4)) / 4
				p.LineTo(x+float64(t[0])*u, y)
				p.LineTo(x, y+float64(t[1])*u)
				p.Close()
				continue
			}
			for j, m := 0, r.Range(1, 4); j < m; j++ {
				t := triples[r.Intn(len(triples))]
				u := float64(r.Range(1, 3)) / 4
				x += float64(t[0]) * u
				y += float64(t[1]) * u * float64(1-2*r.Intn(2))
				p.LineTo(x, y)
			}
		}
		return b
	default:
		c := gen.Curved(r)
		b := built{p: p, fam: c.Family}
		p.MoveTo(c.Start[0], c.Start[1])
		for _, s := range c.Segs {
			switch s.Kind {
			case 'M':
				p.MoveTo(s.P[0][0], s.P[0][1])
			case 'L':
				p.LineTo(s.P[0][0], s.P[0][1])
			case 'Q':
				p.QuadTo(s.P[0][0], s.P[0][1], s.P[1][0], s.P[1][1])
			case 'C':
				p.CubeTo(s.P[0][0], s.P[0][1], s.P[1][0], s.P[1][1], s.P[2][0], s.P[2][1])
			case 'A':
				a := s.Arc
				p.ArcTo(a.Rx, a.Ry, a.RotDeg, a.Large, a.Sweep, a.Ex, a.Ey)
				b.arcs = true
			}
		}
		if c.Closed {
			p.Close()
		}
		return b
	}
}

// ---- R -----------------------------------------------------------------------------------------

func contours(p *canvas.Path) (string, bool) {
	segs, err := pd.Decode(p.Data())
	if err != nil {
		return "nil", false
	}
	var cs []string
	for _, sp := range pd.Subpaths(segs) {
		var vs []string
		closed := false
		for _, s := range sp {
			switch s.Cmd {
			case 'M', 'L':
				if s.X != math.Trunc(s.X) || s.Y != math.Trunc(s.Y) {
					return "nil", false
				}
				vs = append(vs, cq.Pair(cq.Z(int64(s.X)), cq.Z(int64(s.Y))))
			case 'Z':
				closed = true
			default:
				return "nil", false
			}
		}
		if !closed {
			return "nil", false
		}
		cs = append(cs, cq.List(vs))
	}
	return cq.List(cs), true
}

func rcase(r *rng.R, i int, o *out.W) {
	b := build(r)
	p := b.p
	var rv, rv2, rv3 *canvas.Path
	var l0, l1, dev float64
	var c0, c1 bool
	msg := safe(func() {
		rv = p.Reverse()
		rv2 = rv.Reverse()
		rv3 = rv2.Reverse()
		l0, l1 = p.Length(), rv.Length()
		b0, b1 := p.Bounds(), rv.Bounds()
		dev = math.Max(math.Max(math.Abs(b0.X0-b1.X0), math.Abs(b0.Y0-b1.Y0)), math.Max(math.Abs(b0.X1-b1.X1), math.Abs(b0.Y1-b1.Y1)))
		c0, c1 = p.Closed(), rv.Closed()
	})
	tol := "(1 # 1000000000)"
	if b.arcs {
		tol = "(1 # 100000)" // the reversed arc recomputes centre and angles: Go's own numbers, float slack
	}
	var term string
	if msg != "" || math.IsNaN(l0+l1+dev) || math.IsInf(l0+l1+dev, 0) {
		if msg == "" {
			msg = "non-finite Length/Bounds"
		}
		term = "CR (mkR nil nil nil nil 0 0 0 false false 0 nil nil nil true)"
	} else {
		t0, n0, _ := segsTerm(p.Data())
		t1, _, e1 := segsTerm(rv.Data())
		t2, _, e2 := segsTerm(rv2.Data())
		t3, _, e3 := segsTerm(rv3.Data())
		if e1 != nil || e2 != nil || e3 != nil {
			msg = "malformed output data"
		}
		_ = n0
		poly, polyr, samples := "nil", "nil", "nil"
		if b.ipoly {
			a, ok1 := contours(p)
			c, ok2 := contours(rv)
			if ok1 && ok2 {
				poly, polyr = a, c
				var ss []string
				for k := 0; k < 12; k++ {
					ss = append(ss, cq.Pair(cq.Z(int64(2*r.Range(-7, 6)+1)), cq.Z(int64(2*r.Range(-7, 6)+1))))
				}
				samples = cq.List(ss)
			}
		}
		term = fmt.Sprintf("CR (mkR %s %s %s %s %s %s %s %s %s %s %s %s %s %s)", t0, t1, t2, t3, cq.F(l0), cq.F(l1), cq.F(dev),
			cq.Bool(c0), cq.Bool(c1), tol, poly, polyr, samples, cq.Bool(msg != ""))
	}
	rs := ""
	if rv != nil {
		rs = rv.String()
	}
	o.Emit(out.Case{I: i, Fam: "R:" + b.fam, Coq: term, Desc: map[string]interface{}{"kind": "R", "path": p.String(), "go": rs, "panic": msg,
		"length": []float64{l0, l1}, "closed": []bool{c0, c1}}})
}

// ---- S -----------------------------------------------------------------------------------------

type dseg struct {
	ctrl [][2]float64 // start, [controls], end
}

// drawSegs lists the drawing records of a path with explicit start points (Close = line to the subpath start).
func drawSegs(d []float64) ([]dseg, error) {
	segs, err := pd.Decode(d)
	if err != nil {
		return nil, err
	}
	var outS []dseg
	var cur, start [2]float64
	for _, s := range segs {
		e := [2]float64{s.X, s.Y}
		switch s.Cmd {
		case 'M':
			start = e
		case 'L':
			outS = append(outS, dseg{[][2]float64{cur, e}})
		case 'Z':
			e = start
			if cur != e {
				outS = append(outS, dseg{[][2]float64{cur, e}})
			}
		case 'Q':
			outS = append(outS, dseg{[][2]float64{cur, {s.A[0], s.A[1]}, e}})
		case 'C':
			outS = append(outS, dseg{[][2]float64{cur, {s.A[0], s.A[1]}, {s.A[2], s.A[3]}, e}})
		default:
			return nil, fmt.Errorf("arc")
		}
		cur = e
	}
	return outS, nil
}

func ctrlTerm(c [][2]float64) string {
	var xs []string
	for _, q := range c {
		xs = append(xs, pt(q[0], q[1]))
	}
	return cq.List(xs)
}

// deriv of the Bezier with control points c at parameter s
func deriv(c [][2]float64, s float64) [2]float64 {
	var d [2]float64
	for k := 0; k < 2; k++ {
		switch len(c) {
		case 2:
			d[k] = c[1][k] - c[0][k]
		case 3:
			d[k] = 2 * ((1-s)*(c[1][k]-c[0][k]) + s*(c[2][k]-c[1][k]))
		case 4:
			d[k] = 3 * ((1-s)*(1-s)*(c[1][k]-c[0][k]) + 2*(1-s)*s*(c[2][k]-c[1][k]) + s*s*(c[3][k]-c[2][k]))
		}
	}
	return d
}

func eval(c [][2]float64, t float64) [2]float64 {
	q := make([][2]float64, len(c))
	copy(q, c)
	for n := len(q) - 1; n > 0; n-- {
		for j := 0; j < n; j++ {
			q[j] = [2]float64{(1-t)*q[j][0] + t*q[j+1][0], (1-t)*q[j][1] + t*q[j+1][1]}
		}
	}
	return q[0]
}

// subCtrl returns the control points of the sub-curve [s,u] of c (de Casteljau twice), in float arithmetic
func subCtrl(c [][2]float64, s, u float64) [][2]float64 {
	split := func(c [][2]float64, t float64) (l, r [][2]float64) {
		q := make([][2]float64, len(c))
		copy(q, c)
		n := len(q)
		l, r = make([][2]float64, n), make([][2]float64, n)
		for k := 0; k < n; k++ {
			l[k], r[n-1-k] = q[0], q[n-1-k]
			for j := 0; j+1 < n-k; j++ {
				q[j] = [2]float64{(1-t)*q[j][0] + t*q[j+1][0], (1-t)*q[j][1] + t*q[j+1][1]}
			}
		}
		return
	}
	l, _ := split(c, u)
	if u == 0 {
		return l
	}
	_, r := split(l, s/u)
	return r
}

func ctrlDev(a, b [][2]float64) float64 {
	d := 0.0
	for k := range a {
		d = math.Max(d, math.Max(math.Abs(a[k][0]-b[k][0]), math.Abs(a[k][1]-b[k][1])))
	}
	return d
}

// endParam recovers u such that piece = sub-curve [s,u] of c: candidates are the parameters at which the curve passes
// through the piece's end point (several on folded or self-intersecting curves); the one whose blossom control points
// match the piece best is returned.  The Coq checker re-validates whatever is returned.
func endParam(c [][2]float64, piece [][2]float64, s float64) float64 {
	if len(c) == 2 { // line: project the end point
		if piece[1] == c[1] {
			return 1
		}
		dx, dy := c[1][0]-c[0][0], c[1][1]-c[0][1]
		return ((piece[1][0]-c[0][0])*dx + (piece[1][1]-c[0][1])*dy) / (dx*dx + dy*dy)
	}
	deg := float64(len(c) - 1)
	e := piece[len(piece)-1]
	best, bu := math.Inf(1), s
	consider := func(u float64) {
		if u < s || u > 1 {
			return
		}
		if d := ctrlDev(subCtrl(c, s, u), piece); d < best {
			best, bu = d, u
		}
	}
	newton := func(u float64) {
		for it := 0; it < 40; it++ {
			b, dd := eval(c, u), deriv(c, u)
			h := dd[0]*dd[0] + dd[1]*dd[1]
			if h == 0 {
				break
			}
			u -= ((b[0]-e[0])*dd[0] + (b[1]-e[1])*dd[1]) / h
		}
		consider(math.Min(u, 1))
	}
	consider(1)
	d := deriv(c, s)
	if n2 := d[0]*d[0] + d[1]*d[1]; n2 > 1e-18 {
		newton(s + deg*((piece[1][0]-piece[0][0])*d[0]+(piece[1][1]-piece[0][1])*d[1])/n2)
	}
	if best > 1e-10 {
		for k := 1; k <= 128; k++ {
			newton(s + (1-s)*float64(k)/128)
		}
	}
	return bu
}

func scase(r *rng.R, i int, o *out.W) {
	var b built
	for {
		b = build(r)
		if !b.arcs {
			break
		}
	}
	p := b.p
	in, err := drawSegs(p.Data())
	if err != nil {
		return
	}
	var L float64
	var ts []float64
	var pieces []*canvas.Path
	msg := safe(func() {
		L = p.Length()
		if math.IsNaN(L) || math.IsInf(L, 0) {
			panic(fmt.Sprintf("Length() = %v", L))
		}
		n := r.Intn(5)
		if b.fam == "collinear" {
			n = 0 // the builder turns collinear remainders into LineTo records: pieces change kind; Length only
		}
		seen := map[float64]bool{}
		for k := 0; k < n; k++ {
			var t float64
			if b.lines {
				t = float64(r.Range(0, int(L*4))) / 4 // quarter grid incl. 0, vertices, possibly Length
				if r.P(1, 12) {
					t = L
				}
			} else {
				t = L * float64(r.Range(1, 31)) / 32
			}
			if !seen[t] {
				seen[t] = true
				ts = append(ts, t)
			}
		}
		if n > 0 && r.P(1, 6) && !seen[0] {
			ts = append(ts, 0) // a cut at the very start (no effect on the pieces)
		}
		// SplitAt sorts its positions: half of the cases hand them over in random order
		us := append([]float64{}, ts...)
		if r.Bool() {
			for k := len(us) - 1; k > 0; k-- {
				j := r.Intn(k + 1)
				us[k], us[j] = us[j], us[k]
			}
		}
		sort.Float64s(ts)
		pieces = p.SplitAt(us...)
	})
	fam := "S:" + b.fam
	if len(ts) == 0 {
		fam += ":nocut"
	}
	var pcS []string
	ncurved := 0
	if msg == "" {
		idx, u := 0, 0.0
		for _, pc := range pieces {
			ds, err := drawSegs(pc.Data())
			if err != nil {
				msg = "malformed piece: " + err.Error()
				break
			}
			var xs []string
			for _, d := range ds {
				// the piece segment continues input segment idx at u, or starts the next one
				if idx < len(in) && (u == 1 || len(in[idx].ctrl) != len(d.ctrl)) {
					if u == 1 {
						idx, u = idx+1, 0
					}
				}
				if idx >= len(in) || len(in[idx].ctrl) != len(d.ctrl) {
					xs = append(xs, fmt.Sprintf("(mkPS %s (-1)%%Z 0 0)", ctrlTerm(d.ctrl)))
					continue
				}
				s := u
				u = endParam(in[idx].ctrl, d.ctrl, s)
				if u > 1-1e-12 { // a cut at (float) Length: the judge still checks the end point against B(1) within its slack
					u = 1
				}
				if u < s {
					u = s
				}
				if len(d.ctrl) > 2 {
					ncurved++
				}
				xs = append(xs, fmt.Sprintf("(mkPS %s %s %s %s)", ctrlTerm(d.ctrl), cq.Z(int64(idx)), cq.F(s), cq.F(u)))
			}
			pcS = append(pcS, cq.List(xs))
		}
	}
	var inS []string
	for _, d := range in {
		inS = append(inS, ctrlTerm(d.ctrl))
	}
	subS := "nil"
	if b.axis {
		segs, _ := pd.Decode(p.Data())
		var sps []string
		for _, sp := range pd.Subpaths(segs) {
			var vs []string
			for _, s := range sp {
				vs = append(vs, pt(s.X, s.Y))
			}
			sps = append(sps, cq.List(vs))
		}
		subS = cq.List(sps)
	}
	if math.IsNaN(L) || math.IsInf(L, 0) {
		if msg == "" {
			msg = "non-finite Length"
		}
		L = 0
	}
	term := fmt.Sprintf("CS (mkS (1 # 1073741824) %s %s %s %s %s %s %s)", cq.List(inS), cq.F(L), cq.Floats(ts), cq.List(pcS),
		cq.Bool(b.axis), subS, cq.Bool(msg != ""))
	var ps []string
	for _, pc := range pieces {
		ps = append(ps, pc.String())
	}
	o.Emit(out.Case{I: i, Fam: fam, Coq: term, Desc: map[string]interface{}{"kind": "S", "path": p.String(), "cuts": ts, "length": L,
		"go": ps, "panic": msg, "curved_piece_segments": ncurved}})
}

// acase: SplitAt on ONE elliptical arc with exact geometry (gen.Arc: rational centre, radii, rotation, end points) at 1..4
// positions; the returned arc records are judged in Coq against the ellipse (orientation predicates in the plane of its unit
// circle): same ellipse and direction, chained from start to end, cut points on the ellipse advancing along the arc, the
// large-arc flag of every piece consistent with its end points, and Go's own lengths.
func acase(r *rng.R, i int, o *out.W) {
	sx, sy := float64(r.Range(-40, 40))/4, float64(r.Range(-40, 40))/4
	a := gen.Arc(r, sx, sy, r.Intn(3))
	p := &canvas.Path{}
	p.MoveTo(a.Sx, a.Sy)
	p.ArcTo(a.Rx, a.Ry, a.RotDeg, a.Large, a.Sweep, a.Ex, a.Ey)
	d := p.Data()
	desc := map[string]interface{}{"kind": "A", "path": p.String(), "go": nil}
	if len(d) != 12 || d[4] != canvas.ArcToCmd {
		return // the builder changed the arc (zero length / radii corrected): not this family's subject
	}
	var L float64
	var ts []float64
	var pieces []*canvas.Path
	msg := safe(func() {
		L = p.Length()
		n := r.Range(1, 4)
		seen := map[float64]bool{}
		for k := 0; k < n; k++ {
			t := L * float64(r.Range(1, 31)) / 32
			if !seen[t] {
				seen[t] = true
				ts = append(ts, t)
			}
		}
		sort.Float64s(ts)
		pieces = p.SplitAt(append([]float64(nil), ts...)...)
	})
	desc["cuts"] = ts
	desc["length"] = L
	fam := "A:arc"
	if a.Rx == a.Ry {
		fam = "A:circle"
	} else if a.SnN != 0 && a.CsN != 0 {
		fam = "A:rotated"
	}
	if a.Large {
		fam += ":large"
	}
	if msg != "" {
		desc["panic"] = msg
		term := fmt.Sprintf("CA (mkA %s 1 1 1 0 %s %s false false 0 nil nil true)", pt(0, 0), pt(0, 0), pt(0, 0))
		o.Emit(out.Case{I: i, Fam: fam, Coq: term, Desc: desc})
		return
	}
	var ps, goS []string
	for _, q := range pieces {
		qd := q.Data()
		goS = append(goS, q.String())
		if len(qd) != 12 || qd[4] != canvas.ArcToCmd {
			// not a single arc record: reported as "not the same ellipse"
			ps = append(ps, fmt.Sprintf("(mkAP false false false %s %s %s)", pt(0, 0), pt(0, 0), cq.F(0)))
			continue
		}
		relEq := func(a, b float64) bool { return math.Abs(a-b) <= math.Abs(b)*0x1p-40 } // ArcTo may rescale radii by 1 + a few ulp
		same := relEq(qd[5], d[5]) && relEq(qd[6], d[6]) && qd[7] == d[7]
		large, sweep := qd[8] == 1 || qd[8] == 3, qd[8] == 2 || qd[8] == 3
		ps = append(ps, fmt.Sprintf("(mkAP %s %s %s %s %s %s)", cq.Bool(same), cq.Bool(large), cq.Bool(sweep), pt(qd[1], qd[2]), pt(qd[9], qd[10]), cq.F(q.Length())))
	}
	desc["go"] = goS
	q := func(n, dn int64) string { return fmt.Sprintf("(%d # %d)", n, dn) }
	cs, sn := q(a.CsN, a.H), q(a.SnN, a.H)
	if a.CsN < 0 {
		cs = fmt.Sprintf("((-%d) # %d)", -a.CsN, a.H)
	}
	term := fmt.Sprintf("CA (mkA %s %s %s %s %s %s %s %s %s %s %s %s false)", pt(a.Cx, a.Cy), cq.F(a.Rx), cq.F(a.Ry), cs, sn, pt(a.Sx, a.Sy), pt(a.Ex, a.Ey),
		cq.Bool(a.Large), cq.Bool(a.Sweep), cq.F(L), cq.Floats(ts), cq.List(ps))
	o.Emit(out.Case{I: i, Fam: fam, Coq: term, Desc: desc})
}

func main() {
	seed := flag.Uint64("seed", 1, "")
	n := flag.Int("n", 100, "")
	only := flag.Int("only", -1, "")
	flag.Parse()
	o := out.New()
	defer o.Close()
	root := rng.New(*seed)
	for i := 0; i < *n; i++ {
		if *only >= 0 && i != *only {
			continue
		}
		r := root.Fork(uint64(i))
		if i%8 == 7 {
			acase(r, i, o)
		} else if i%2 == 0 {
			rcase(r, i, o)
		} else {
			scase(r, i, o)
		}
	}
}

(** Faithful model of the path builder (path.go:284-347, 385-577) on the RAW data.

    Representation: the Go code addresses [p.d] from its END ([p.d[len(p.d)-1]], [-2], [-3], [-4-3] ...), so
    the model keeps the data REVERSED: [rd = rev p.d], head of [rd] = [p.d[len-1]].  Reading
    [p.d[len-k]] is the k-th element of [rd]; [append(p.d, a, b, c)] conses [c; b; a] in front.  The data as
    Go sees it is [data rd = rev rd].  Every function returns [option]: [None] = the Go code would panic
    with an index/slice out of range (never happens from the empty path: theorem builder_wf).

    Numbers are exact ([Q]).  The Go code's float tests that involve sqrt/atan are replaced by exact
    polynomial tests that are EQUIVALENT ON THE HARNESS GRID (coordinates are multiples of 2^-4 with
    |x| <= 64, so a non-zero cross product is >= 2^-8 and every ratio/angle is far above Epsilon = 1e-10;
    all sums and products in the tests are exact in binary64):
      Equal(a,b)                                  ->  a == b
      Equal(div/(|da|*|db|), 0)   (LineTo)         ->  cross da db == 0  /\  da <> 0   (0/0 = NaN is not Equal)
      angleEqual(u.AngleBetween(v), 0),
      Equal(u.AngleBetween(v), 0) (atan2(cross,dot)) -> cross u v == 0 /\ 0 < dot u v   (u, v non-zero)
      math.Signbit(x)                              ->  x < 0      (the grid stream contains no negative zero)
    ArcTo's radius correction and rotation normalisation use sqrt/sincos/mod: the model is RELATIONAL there:
    the values the Go code stored (rx', ry', phi') come with the call as oracle inputs and are constrained
    by [arc_oracle_ok] (checked per case by the judge), everything else of ArcTo is exact.

    [variant]: [Orig] is the code of the pinned commit (LineTo chooses the component for the direction
    test with [da.Y < da.X]); [Fixed] is the repaired code ([|da.Y| < |da.X|]).  See BuilderProofs.v:
    builder_wf holds for [Fixed], is refuted for [Orig]. *)
From Coq Require Import ZArith QArith Qabs Qminmax List Bool Lia.
From CV Require Import PathEnc.Enc.
Import ListNotations.
Open Scope Q_scope.

Inductive variant := Orig | Fixed.

Definition psub (a b : pt) : pt := (fst a - fst b, snd a - snd b).
Definition cross (a b : pt) : Q := fst a * snd b - snd a * fst b.   (* Point.PerpDot *)
Definition dot (a b : pt) : Q := fst a * fst b + snd a * snd b.
Definition is0 (a : pt) : bool := Qeq_bool (fst a) 0 && Qeq_bool (snd a) 0.
Definition signbit (x : Q) : bool := Qltb x 0.

(** u.AngleBetween(v) is (within Epsilon of) zero *)
Definition angle0 (u v : pt) : bool := Qeq_bool (cross u v) 0 && Qltb 0 (dot u v).

Definition vM := cmdval CM.
Definition vL := cmdval CL.
Definition vQ := cmdval CQ.
Definition vC := cmdval CC.
Definition vA := cmdval CA.
Definition vZ := cmdval CZ.

(** Pos (path.go:350): [if 0 < len { return d[len-3], d[len-2] }; return Point{}] *)
Definition pos (rd : list num) : option pt :=
  match rd with
  | [] => Some (0, 0)
  | _ :: y :: x :: _ => Some (x, y)
  | _ => None
  end.

(** StartPos (path.go:358): [for i := len; 0 < i; { cmd := d[i-1]; if cmd == MoveTo { return d[i-3], d[i-2] }; i -= cmdLen(cmd) }; return Point{}]
    [skip] = number of cells still to step over (the index arithmetic [i -= cmdLen(cmd)] done cell by
    cell); running off the front of the slice ends the loop ([0 < i] fails) and returns the zero point. *)
Fixpoint startpos_skip (skip : nat) (rd : list num) : option pt :=
  match rd with
  | [] => Some (0, 0)
  | c :: t =>
    match skip with
    | S k => startpos_skip k t
    | O => if is_cmd CM c then match t with y :: x :: _ => Some (x, y) | _ => None end
           else match cmdLen c with
                | Some (S k) => startpos_skip k t
                | _ => None
                end
    end
  end.
Definition startpos (rd : list num) : option pt := startpos_skip 0 rd.

(** MoveTo (path.go:385) *)
Definition move_to (x y : num) (rd : list num) : option (list num) :=
  match rd with
  | c :: t =>
    if is_cmd CM c then
      match t with
      | _ :: _ :: t' => Some (c :: y :: x :: t')          (* d[len-3] = x; d[len-2] = y *)
      | _ => None
      end
    else Some (vM :: y :: x :: vM :: rd)
  | [] => Some [vM; y; x; vM]
  end.

(** the implicit MoveTo shared by LineTo/QuadTo/CubeTo/ArcTo:
    [if len == 0 { MoveTo(0,0) } else if d[len-1] == Close { MoveTo(d[len-3], d[len-2]) }] *)
Definition implicit_move (rd : list num) : option (list num) :=
  match rd with
  | [] => move_to 0 0 rd
  | c :: t =>
    if is_cmd CZ c then
      match t with
      | y :: x :: _ => move_to x y rd
      | _ => None
      end
    else Some rd
  end.

(** the point before the last LineTo record:
    [prevStart := Point{}; if cmdLen(LineTo) < len { prevStart = d[len-4-3], d[len-4-2] }]
    argument: the data below the last 4 cells *)
Definition prev_start (t : list num) : option pt :=
  match t with
  | [] => Some (0, 0)
  | _ :: y :: x :: _ => Some (x, y)
  | _ => None
  end.

Definition Qabs_ltb (a b : Q) : bool := Qltb (Qabs a) (Qabs b).

(** LineTo's "extends" test (path.go:413-418) *)
Definition extends (v : variant) (da db : pt) : bool :=
  let pick_x := match v with
                | Orig => Qltb (snd da) (fst da)              (* if da.Y < da.X *)
                | Fixed => Qabs_ltb (snd da) (fst da)         (* if |da.Y| < |da.X| *)
                end in
  if pick_x then Bool.eqb (signbit (fst da)) (signbit (fst db))
  else Bool.eqb (signbit (snd da)) (signbit (snd db)).

(** LineTo (path.go:395) *)
Definition line_to (v : variant) (x y : num) (rd : list num) : option (list num) :=
  match pos rd with
  | None => None
  | Some start =>
    let e := (x, y) in
    if pt_eqb start e then Some rd
    else
      let app := match implicit_move rd with
                 | Some rd' => Some (vL :: y :: x :: vL :: rd')
                 | None => None
                 end in
      match rd with
      | c :: _ :: _ :: c2 :: t =>                              (* cmdLen(LineTo) <= len *)
        if is_cmd CL c then
          match prev_start t with
          | None => None
          | Some prev =>
            let da := psub start prev in
            let db := psub e start in
            if Qeq_bool (cross da db) 0 && negb (is0 da) && extends v da db
            then Some (c :: y :: x :: c2 :: t)                 (* d[len-3] = x; d[len-2] = y *)
            else app
          end
        else app
      | _ => app
      end
  end.

(** QuadTo (path.go:437) *)
Definition quad_to (v : variant) (cx cy x y : num) (rd : list num) : option (list num) :=
  match pos rd with
  | None => None
  | Some start =>
    let cp := (cx, cy) in let e := (x, y) in
    if pt_eqb start e && pt_eqb start cp then Some rd
    else if negb (pt_eqb start e)
            && (pt_eqb start cp || angle0 (psub e start) (psub cp start))
            && (pt_eqb e cp || angle0 (psub e start) (psub e cp))
    then line_to v x y rd
    else match implicit_move rd with
         | Some rd' => Some (vQ :: y :: x :: cy :: cx :: vQ :: rd')
         | None => None
         end
  end.

(** CubeTo (path.go:457) *)
Definition cube_to (v : variant) (ax ay bx by_ x y : num) (rd : list num) : option (list num) :=
  match pos rd with
  | None => None
  | Some start =>
    let c1 := (ax, ay) in let c2 := (bx, by_) in let e := (x, y) in
    let online c := pt_eqb start c || pt_eqb e c
                    || (angle0 (psub e start) (psub c start) && angle0 (psub e start) (psub e c)) in
    if pt_eqb start e && pt_eqb start c1 && pt_eqb start c2 then Some rd
    else if negb (pt_eqb start e) && online c1 && online c2
    then line_to v x y rd
    else match implicit_move rd with
         | Some rd' => Some (vC :: y :: x :: by_ :: bx :: ay :: ax :: vC :: rd')
         | None => None
         end
  end.

(** ArcTo (path.go:478), relational in the stored radii and rotation (orx, ory, ophi come from the Go
    result).  fromArcFlags: large -> +1, sweep -> +2. *)
Definition arc_flags (large sweep : bool) : num :=
  inject_Z ((if large then 1 else 0) + (if sweep then 2 else 0)).

Definition arc_to (v : variant) (rx ry : num) (large sweep : bool) (x y : num) (orx ory ophi : num)
           (rd : list num) : option (list num) :=
  match pos rd with
  | None => None
  | Some start =>
    let e := (x, y) in
    if pt_eqb start e then Some rd
    else if Qeq_bool rx 0 || Qeq_bool ry 0 then line_to v x y rd
    else match implicit_move rd with
         | Some rd' => Some (vA :: y :: x :: arc_flags large sweep :: ophi :: ory :: orx :: vA :: rd')
         | None => None
         end
  end.

(** Close (path.go:545) *)
Definition close (rd : list num) : option (list num) :=
  match rd with
  | [] => Some []
  | c :: _ =>
    if is_cmd CZ c then Some rd
    else if is_cmd CM c then
      match rd with _ :: _ :: _ :: _ :: t => Some t | _ => None end      (* d = d[:len-4] *)
    else
      match startpos rd with
      | None => None
      | Some e =>
        let app := Some (vZ :: snd e :: fst e :: vZ :: rd) in
        if is_cmd CL c then
          match rd with
          | _ :: sy :: sx :: _ :: t =>
            if Qeq_bool sx (fst e) && Qeq_bool sy (snd e)
            then Some (vZ :: sy :: sx :: vZ :: t)                          (* LineTo becomes Close *)
            else match prev_start t with
                 | None => None
                 | Some prev =>
                   if angle0 (psub e (sx, sy)) (psub (sx, sy) prev)
                   then Some (vZ :: snd e :: fst e :: vZ :: t)              (* extended to the start *)
                   else app
                 end
          | _ => None
          end
        else app
      end
  end.

(** builder calls *)
Inductive op :=
| OMove (x y : num)
| OLine (x y : num)
| OQuad (cx cy x y : num)
| OCube (ax ay bx by_ x y : num)
| OArc (rx ry : num) (large sweep : bool) (x y : num) (orx ory ophi : num)
| OClose.

Definition step (v : variant) (o : op) (rd : list num) : option (list num) :=
  match o with
  | OMove x y => move_to x y rd
  | OLine x y => line_to v x y rd
  | OQuad cx cy x y => quad_to v cx cy x y rd
  | OCube ax ay bx by_ x y => cube_to v ax ay bx by_ x y rd
  | OArc rx ry l s x y orx ory ophi => arc_to v rx ry l s x y orx ory ophi rd
  | OClose => close rd
  end.

Fixpoint run_from (v : variant) (ops : list op) (rd : list num) : option (list num) :=
  match ops with
  | [] => Some rd
  | o :: r => match step v o rd with Some rd' => run_from v r rd' | None => None end
  end.

Definition run (v : variant) (ops : list op) : option (list num) := run_from v ops [].
Definition data (rd : list num) : list num := rev rd.

(** what the relational ArcTo demands of the oracle values: valid record fields, radii only scaled up,
    ordered major >= minor (the code swaps), and for an unrotated request (rot = 0 is the only rotation the
    K1 generator uses with this check) the exact radius-correction relation
      lambda^2 = (dx/2)^2/rx^2 + (dy/2)^2/ry^2;  lambda <= 1 -> radii unchanged, else radii^2 = lambda^2 * r^2
    up to relative 2^-40 (float rounding of sqrt and the two multiplications). *)
Definition arc_oracle_ok (o : op) : bool :=
  match o with
  | OArc rx ry l s x y orx ory ophi =>
    Qeq_bool rx 0 || Qeq_bool ry 0 ||
    (Qeq_bool orx 0 && Qeq_bool ory 0 && Qeq_bool ophi 0) ||      (* the call stored no record (start = end) *)
    (arc_ok orx ory ophi (arc_flags l s)
     && Qle_bool ory orx
     && Qle_bool (Qmax (Qabs rx) (Qabs ry)) orx && Qle_bool (Qmin (Qabs rx) (Qabs ry)) ory)
  | _ => true
  end.

(** Append (path.go:284) on forward data: [if p.Empty() { p = &Path{} }; for q: if !q.Empty() { p.d = append(p.d, q.d...) }]
    Empty = len <= cmdLen(MoveTo) = 4 *)
Definition empty (d : list num) : bool := (length d <=? 4)%nat.
Definition append1 (p q : list num) : list num :=
  (if empty p then [] else p) ++ (if empty q then [] else q).

(** shape constructors that are plain builder scripts (shapes.go): the script the source performs *)
Inductive shape :=
| ShLine (x y : num)
| ShRect (w h : num)
| ShBevel (w h r : num).

Definition shape_ops (s : shape) : list op :=
  match s with
  | ShLine x y => if Qeq_bool x 0 && Qeq_bool y 0 then [] else [OLine x y]
  | ShRect w h => if Qeq_bool w 0 || Qeq_bool h 0 then []
                  else [OLine w 0; OLine w h; OLine 0 h; OClose]
  | ShBevel w h r0 =>
    if Qeq_bool w 0 || Qeq_bool h 0 then []
    else if Qeq_bool r0 0 then [OLine w 0; OLine w h; OLine 0 h; OClose]
    else let r := Qmin (Qmin (Qabs r0) (w / (2#1))) (h / (2#1)) in
         [OMove 0 r; OLine r 0; OLine (w - r) 0; OLine w r; OLine w (h - r); OLine (w - r) h;
          OLine r h; OLine 0 (h - r); OClose]
  end.

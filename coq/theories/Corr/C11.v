(** Correspondence judge for C11. Tie flags: faithful ParseSVGPath / ParseFloat models vs what Go returned.
    Property flags: Go panicked or hung; String() does not re-parse to the path; ToSVG / ToPDF / ToPS, read by
    the format semantics, do not denote the path's geometry within the explicit slack. *)
From Coq Require Import ZArith QArith Qabs Qminmax List Bool String Ascii.
From CV Require Import Base.Dy PathEnc.Enc PathEnc.Builder Formats.Decimal Formats.SvgPath Formats.Geo
     Formats.SvgSem Formats.PdfOps Formats.PsOps.
Import ListNotations.
Open Scope Z_scope.

(** bytes travel as hex strings *)
Definition hexval (a : ascii) : Z :=
  let n := Z.of_nat (nat_of_ascii a) in
  if (48 <=? n) && (n <=? 57) then n - 48 else if (97 <=? n) && (n <=? 102) then n - 87 else 0.
Fixpoint hexbytes (s : string) : list Z :=
  match s with
  | String a (String b r) => (16 * hexval a + hexval b) :: hexbytes r
  | _ => []
  end.

Inductive case11 :=
| KParse (hex : string) (orc : list (Q * Q * Q)) (gclass gkind gpos : Z) (god : list num) (exact : bool)
| KFloat (hex : string) (glen : Z) (gfin : bool) (gval : Q)
| KPrint (god : list num) (sStr sSvg sPdf sPs : string) (rclass : Z) (rdata : list num) (cs : list (Q * Q)) (rorc : list (Q * Q * Q))
(* the same under a configured canvas.Precision of 8 + dp digits: the printers' tolerances scale by 10^-dp *)
| KPrintP (k : Q) (god : list num) (sStr sSvg sPdf sPs : string) (rclass : Z) (rdata : list num) (cs : list (Q * Q)) (rorc : list (Q * Q * Q))
| KNone.

Definition bit (b : bool) (k : Z) : Z := if b then k else 0.

Definition ABS40 : Q := 1 # 1099511627776.            (* 2^-40 *)
Definition REL50 : Q := 1 # 1125899906842624.         (* 2^-50 *)

Fixpoint data_near (abs rel : Q) (a b : list num) : bool :=
  match a, b with
  | [], [] => true
  | x :: a', y :: b' => near abs rel x y && data_near abs rel a' b'
  | _, _ => false
  end.

(** flags
      1 tie: result class differs            2 tie: error kind/position differs     4 tie: data differs
      8 prop: the Go parser panicked        16 prop: the Go parser did not return (watchdog)
     32 info: outside the modelled range (decimal exponent beyond +-400, or coordinates of magnitude >= 2^40): excluded
     64 tie: the model ran out of fuel     128 tie: ParseFloat length differs      256 tie: ParseFloat value differs
    512 prop: ParseSVGPath(p.String()) is not p      1024 prop: ToSVG does not denote p's geometry
   2048 prop: ToPDF operators do not trace p         4096 prop: ToPS operators do not trace p *)
Definition class_of (r : pres) : Z :=
  match r with POk _ => 0 | PErr _ _ => 1 | PPanic => 2 | PFuel => 3 | PUnmodelled => 4 end.

Definition judge_parse (v : pvariant) (b : list Z) orc gclass gkind gpos god (exact : bool) : Z :=
  let m := parse v b orc in
  match m with
  | PUnmodelled => 32
  | PFuel => 64
  | POk rd =>
      (* coordinates of 2^40 and more next to ordinary ones: binary64 absorbs the small terms of relative moves (points that differ
         exactly come out equal or collinear and the builder merges them), which the exact model does not reproduce: excluded *)
      if existsb (fun x => Qle_bool (inject_Z (2 ^ 40)) (Qabs x)) (data rd) then 32 else
      bit (negb (gclass =? 0)) 1
              + bit ((gclass =? 0) && negb (if exact then data_near 0 0 (data rd) god else data_near ABS40 REL50 (data rd) god)) 4
  | PErr k p => bit (negb (gclass =? 1)) 1 + bit ((gclass =? 1) && negb (((if k =? 6 then 3 else k) =? gkind) && ((k =? 1) || (Z.of_nat p =? gpos)))) 2
  | PPanic => bit (negb (gclass =? 2)) 1
  end.

(** ---- geometry comparison ---- *)
(** relative to the larger coordinate of the two points: used for PDF/PS, where the pen after an arc carries the
    float error of the arc's own scale (ReplaceArcs / ellipse arithmetic), not of the individual coordinate *)
Definition pnear2 (abs rel : Q) (a b : pt) : bool :=
  let m := Qmax (Qmax (Qabs (fst a)) (Qabs (snd a))) (Qmax (Qabs (fst b)) (Qabs (snd b))) in
  Qle_bool (Qabs (fst a - fst b)) (abs + rel * m) && Qle_bool (Qabs (snd a - snd b)) (abs + rel * m).

Definition gp_near_gen (norm : bool) (abs rel : Q) (x y : gp) : bool :=
  let pn := if norm then pnear2 abs rel else pnear abs rel in let nr := near abs rel in
  match x, y with
  | GMove a, GMove b => pn a b
  | GLine a b, GLine a' b' => pn a a' && pn b b'
  | GQuad a c b, GQuad a' c' b' => pn a a' && pn c c' && pn b b'
  | GCube a c d b, GCube a' c' d' b' => pn a a' && pn c c' && pn d d' && pn b b'
  | GClose a b, GClose a' b' => pn a a' && pn b b'
  | GArcE a rx ry rot l s b, GArcE a' rx' ry' rot' l' s' b' =>
    pn a a' && pn b b' && Bool.eqb l l' && Bool.eqb s s' &&
    ((nr rx rx' && nr ry ry' && near (1 # 100000) rel rot rot')                        (* as stored *)
     || (nr rx ry' && nr ry rx' && near (1 # 100000) rel rot (rot' + (90#1))%Q))        (* printed with rx/ry swapped and rot-90 *)
  | _, _ => false
  end.

Definition gp_near := gp_near_gen false.
Definition gp_near2 := gp_near_gen true.

Fixpoint gps_near (abs rel : Q) (l1 l2 : list gp) : bool :=
  match l1, l2 with
  | [], [] => true
  | x :: r1, y :: r2 => gp_near abs rel x y && gps_near abs rel r1 r2
  | _, _ => false
  end.

Definition expected (god : list num) : option (list gp) :=
  if empty god then Some []                      (* ToSVG/ToPDF/ToPS return "" for an Empty() path *)
  else option_map (gp_of_segs (0, 0)%Q (0, 0)%Q) (decode_fwd god).

(** quadratics are emitted as cubics (quadraticToCubicBezier): c1 = p0 + 2/3 (p1-p0), c2 = p2 + 2/3 (p1-p2) *)
Definition REL7 : Q := 1 # 10000000.

Definition q2c (a c b : pt) : gp :=
  let i (p q : pt) := ((fst p + (2#3) * (fst q - fst p))%Q, (snd p + (2#3) * (snd q - snd p))%Q) in
  GCube a (i a c) (i b c) b.

(** PDF: arcs were replaced by chains of cubics (ReplaceArcs): the chain must start at the arc's start and
    end at its end point (how well it approximates the arc is C03/C12's matter). [fuel] bounds the chain. *)
(** ReplaceArcs appends a LineTo to the exact end point when its last cubic ends a float error away from it:
    such a line (both ends at the arc's end point within the slack of the arc's scale) traces nothing new *)
Definition strip_tail (abs : Q) (b : pt) (r : list gp) : list gp :=
  match r with
  | GLine s e :: r' => if pnear2 abs REL7 s b && pnear2 abs REL7 e b then r' else r
  | _ => r
  end.

Fixpoint eat_chain (fuel : nat) (rel abs : Q) (b : pt) (act : list gp) : option (list gp) :=
  match fuel, act with
  | S f, GCube _ _ _ e :: r => if pnear2 abs rel e b then Some (strip_tail abs b r) else eat_chain f rel abs b r
  | S f, GLine _ e :: r => if pnear2 abs rel e b then Some (strip_tail abs b r) else eat_chain f rel abs b r
  | _, _ => None
  end.

Fixpoint pdf_match (rel abs : Q) (exp act : list gp) : bool :=
  match exp with
  | [] => match act with [] => true | _ => false end
  | GArcE a rx ry _ _ _ b :: er =>
    (* the chain is computed in floats (sincos, sqrt) at the arc's own scale: its end may miss the end point by
       2^-36 * radius; ReplaceArcs then adds a line to the exact end point *)
    let abs2 := (abs + (1 # 68719476736) * Qmax (Qabs rx) (Qabs ry))%Q in
    match act with
    | (GCube a' _ _ _ | GLine a' _) :: _ =>
      pnear2 abs rel a a' && match eat_chain 64 rel abs2 b act with Some ar => pdf_match rel abs er ar | None => false end
    | _ => false
    end
  | GQuad a c b :: er => match act with y :: ar => gp_near2 abs rel (q2c a c b) y && pdf_match rel abs er ar | [] => false end
  | x :: er => match act with y :: ar => gp_near2 abs rel x y && pdf_match rel abs er ar | [] => false end
  end.

(** PS: arcs in centre form; (c, s) = (cos phi, sin phi) of the stored rotation come from the harness and
    must be a unit vector; both end points must lie on the printed ellipse, direction and size flags must
    agree with the printed angles. *)
Definition on_ellipse (rel cx cy rx ry c s : Q) (p : pt) : bool :=
  let dx := (fst p - cx)%Q in let dy := (snd p - cy)%Q in
  let u := (c * dx + s * dy)%Q in let v := (- s * dx + c * dy)%Q in
  (* the centre and the point are printed with 8 significant digits: displacement delta = 1e-7 * magnitude;
     the quadratic form moves by about 2*(1+delta/r)*delta/r for the smaller radius r *)
  let delta := (rel * (Qabs cx + Qabs cy + Qabs (fst p) + Qabs (snd p)))%Q in
  let r := Qmin (Qabs rx) (Qabs ry) in
  let t := (delta / r)%Q in
  near ((1 # 100000) + (4#1) * t * (1 + t))%Q 0 ((u * u) / (rx * rx) + (v * v) / (ry * ry))%Q 1.

(** a line whose printed end points coincide within the output precision traces nothing new (ReplaceArcs may leave one behind an arc) *)
Fixpoint drop_null_lines (l : list gp) : list gp :=
  match l with
  | GLine a b :: r => if pnear (1 # 100000000) REL7 a b then drop_null_lines r else GLine a b :: drop_null_lines r
  | x :: r => x :: drop_null_lines r
  | [] => []
  end.

Fixpoint ps_match (rel abs : Q) (exp act : list gp) (cs : list (Q * Q)) : bool :=
  match exp with
  | [] => match act with [] => true | _ => false end
  | GArcE a rx ry rot l s b :: er =>
    match act, cs with
    | GArcC a' cx cy rx' ry' t0 t1 rot' ccw :: ar, (c, sn) :: cs' =>
      pnear2 abs rel a a' && near abs rel rx rx' && near abs rel ry ry' && near (1 # 100000) rel rot rot'
      && Bool.eqb ccw s
      && near (1 # 1000000) 0 (c * c + sn * sn)%Q 1
      && on_ellipse rel cx cy rx' ry' c sn a && on_ellipse rel cx cy rx' ry' c sn b
      && (if ccw then Qle_bool t0 t1 else Qle_bool t1 t0)
      && Qle_bool (Qabs (t1 - t0)) ((360#1) + (1 # 1000))
      && (near (1 # 1000) 0 (Qabs (t1 - t0)) (180#1) || Bool.eqb l (negb (Qle_bool (Qabs (t1 - t0)) (180#1))))
      && ps_match rel abs er ar cs'
    | _, _ => false
    end
  | GQuad a c b :: er => match act with y :: ar => gp_near2 abs rel (q2c a c b) y && ps_match rel abs er ar cs | [] => false end
  | x :: er => match act with y :: ar => gp_near2 abs rel x y && ps_match rel abs er ar cs | [] => false end
  end.

Fixpoint arc_ends (l : list gp) : list pt :=
  match l with
  | GArcE _ _ _ _ _ _ b :: r => b :: arc_ends r
  | _ :: r => arc_ends r
  | [] => []
  end.

(** String() round trip: same cells; the arc rotation cell may differ by the rad->deg->rad slack; all other
    cells within Path.Equals' own tolerance *)
Definition EPS10 : Q := 1 # 10000000000.

Definition judge_print_k (k : Q) (god : list num) (sStr sSvg sPdf sPs : string) (rclass : Z) (rdata : list num) (cs : list (Q * Q)) (rorc : list (Q * Q * Q)) : Z :=
  match expected god with
  | None => 0      (* not decodable: nothing to say here (C10's validator flags it) *)
  | Some ex =>
    let rt := (rclass =? 0) && data_near EPS10 REL50 god rdata
              (* and the string itself denotes p under the format semantics (rotation: rad->deg slack) *)
              && (if empty god then true
                  else match svg_path_sem (hexbytes sStr) with
                       | Some act => gps_near EPS10 REL50 ex act
                       | None => false end) in
    (* K1 on the real String() output: the faithful parser model reads it as the Go parser did *)
    let tie := match parse PFixed (hexbytes sStr) rorc with
               | POk rd => (rclass =? 0) && data_near ABS40 REL50 (data rd) rdata
               | PErr _ _ => rclass =? 1
               | PPanic => rclass =? 2
               | PUnmodelled => true
               | PFuel => false end in
    let svg := match svg_path_sem (hexbytes sSvg) with
               | Some act => gps_near ((1 # 1000000000) * k) ((1 # 10000000) * k) ex act
               | None => false end in
    let pdf := match pdf_sem (hexbytes sPdf) with
               | Some act => pdf_match (REL7 * k) ((1 # 100000000) * k) ex (drop_null_lines act)
               | None => false end in
    let ps := match ps_sem (hexbytes sPs) (arc_ends ex) with
              | Some act => ps_match (REL7 * k) ((1 # 100000000) * k) ex (drop_null_lines act) cs
              | None => false end in
    bit (negb rt) 512 + bit (negb svg) 1024 + bit (negb pdf) 2048 + bit (negb ps) 4096 + bit (negb tie) 4
  end.

Definition judge_print := judge_print_k 1.

Definition judge (c : case11) : list Z :=
  match c with
  | KParse hex orc gclass gkind gpos god exact =>
    let b := hexbytes hex in
    let fl := judge_parse PFixed b orc gclass gkind gpos god exact in
    let flo := judge_parse POrig b orc gclass gkind gpos god exact in
    [fl + bit (gclass =? 2) 8 + bit (gclass =? 3) 16;
     match decode_fwd god with Some p => Z.of_nat (List.length p) | None => -1 end;
     bit ((flo =? 0) && negb (fl =? 0)) 1]
  | KFloat hex glen gfin gval =>
    let r := parse_float (hexbytes hex) in
    match pf_value r with
    | None => [32; 0; 0]
    | Some v =>
      if negb (Qeq_bool v 0) && (Qle_bool (Qabs v) (1 # 2 ^ 1000) || Qle_bool (inject_Z (2 ^ 1000)) (Qabs v))
      then [32 + bit (negb (Z.of_nat (pf_len r) =? glen)) 128; 0; 0]          (* subnormal/overflow range: value not modelled *)
      else
      [bit (negb (Z.of_nat (pf_len r) =? glen)) 128
       + bit (gfin && (Z.of_nat (pf_len r) =? glen) && negb (near 0 REL50 v gval)) 256; Z.of_nat (pf_len r); 0]
    end
  | KPrint god sStr sSvg sPdf sPs rclass rdata cs rorc =>
    [judge_print god sStr sSvg sPdf sPs rclass rdata cs rorc;
     match decode_fwd god with Some p => Z.of_nat (List.length p) | None => -1 end; 0]
  | KPrintP k god sStr sSvg sPdf sPs rclass rdata cs rorc =>
    [judge_print_k k god sStr sSvg sPdf sPs rclass rdata cs rorc;
     match decode_fwd god with Some p => Z.of_nat (List.length p) | None => -1 end; 0]
  | KNone => [0; 0; 0]
  end.

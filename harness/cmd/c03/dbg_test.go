package main

import (
	"fmt"
	"math"
	"testing"
)

func TestDbg(t *testing.T) {
	c := []P{{0, 0}, {0.5, -2}, {0.625, -9.875}, {0.75, 0}}
	tol := 0.001
	vs, _, _ := flattenBez(c, tol)
	ts := recoverParams(c, vs)
	for j := 0; j+1 < len(ts); j++ {
		q := subCurve(c, ts[j], ts[j+1])
		b := math.Sqrt(cubePieceBound2(q)) / tol
		e := sub(bez(c, ts[j]), vs[j])
		if b > 2 || math.Hypot(e.X, e.Y) > 1e-9 {
			fmt.Printf("%d t=[%.17g,%.17g] v=%v..%v bound=%g err=%g\n", j, ts[j], ts[j+1], vs[j], vs[j+1], b, math.Hypot(e.X, e.Y))
		}
	}
	fmt.Println(len(vs))
}

// Package gen holds the structured input generators shared by the property harnesses.
// Every random choice comes from one rng.R, so (seed, case index) replays exactly.
package gen

import (
	"math"
	"sort"

	"verifharness/internal/rng"
)

// IPt is an integer grid point; the float coordinate is X*Scale, exact in binary64.
type IPt struct{ X, Y int }

// IPoly is a set of closed contours on the integer grid with a power-of-two scale.
type IPoly struct {
	Family   string
	Contours [][]IPt
	Scale    float64 // power of two
}

func (p IPoly) NumVerts() int {
	n := 0
	for _, c := range p.Contours {
		n += len(c)
	}
	return n
}

func dedupConsecutive(c []IPt) []IPt {
	out := c[:0:0]
	for i, v := range c {
		if i > 0 && v == c[i-1] {
			continue
		}
		out = append(out, v)
	}
	for len(out) > 1 && out[0] == out[len(out)-1] {
		out = out[:len(out)-1]
	}
	return out
}

// StarContour: vertices at sorted angles around a centre (mostly simple after rounding).
func StarContour(r *rng.R, cx, cy, rad, n int) []IPt {
	angs := make([]float64, n)
	for i := range angs {
		angs[i] = float64(r.Intn(3600)) / 3600 * 2 * math.Pi
	}
	sort.Float64s(angs)
	c := make([]IPt, 0, n)
	for _, a := range angs {
		rr := float64(rad) * (0.3 + 0.7*float64(r.Intn(1000))/1000)
		c = append(c, IPt{cx + int(math.Round(rr*math.Cos(a))), cy + int(math.Round(rr*math.Sin(a)))})
	}
	return dedupConsecutive(c)
}

func RandomContour(r *rng.R, lo, hi, n int) []IPt {
	c := make([]IPt, 0, n)
	for i := 0; i < n; i++ {
		c = append(c, IPt{r.Range(lo, hi), r.Range(lo, hi)})
	}
	return dedupConsecutive(c)
}

// Rectilinear: alternating horizontal/vertical moves (many horizontal edges, collinear overlaps).
func RectilinearContour(r *rng.R, lo, hi, n int) []IPt {
	x, y := r.Range(lo, hi), r.Range(lo, hi)
	c := []IPt{{x, y}}
	for i := 0; i < n; i++ {
		if i%2 == 0 {
			x = r.Range(lo, hi)
		} else {
			y = r.Range(lo, hi)
		}
		c = append(c, IPt{x, y})
	}
	// close rectilinearly
	c = append(c, IPt{c[0].X, y})
	return dedupConsecutive(c)
}

func Reverse(c []IPt) []IPt {
	out := make([]IPt, len(c))
	for i, v := range c {
		out[len(c)-1-i] = v
	}
	return out
}

func Rect(x0, y0, x1, y1 int) []IPt {
	return []IPt{{x0, y0}, {x1, y0}, {x1, y1}, {x0, y1}}
}

// Poly draws one polygonal path from the named families.
func Poly(r *rng.R) IPoly {
	scales := []float64{1, 1, 0.5, 0.25, 2, 0.125}
	p := IPoly{Scale: rng.Pick(r, scales)}
	switch r.Intn(8) {
	case 0:
		p.Family = "star"
		p.Contours = [][]IPt{StarContour(r, r.Range(-5, 5), r.Range(-5, 5), r.Range(4, 30), r.Range(3, 12))}
	case 1:
		p.Family = "random"
		p.Contours = [][]IPt{RandomContour(r, -20, 20, r.Range(3, 10))}
	case 2:
		p.Family = "soup" // tiny range: shared vertices, collinear overlaps, vertical/horizontal edges, spikes
		n := r.Range(1, 3)
		for i := 0; i < n; i++ {
			p.Contours = append(p.Contours, RandomContour(r, 0, 6, r.Range(3, 8)))
		}
	case 3:
		p.Family = "rectilinear"
		n := r.Range(1, 2)
		for i := 0; i < n; i++ {
			p.Contours = append(p.Contours, RectilinearContour(r, -8, 8, r.Range(3, 9)))
		}
	case 4:
		p.Family = "nested" // rectangles/stars inside each other, both orientations
		d := r.Range(2, 4)
		for i := 0; i < d; i++ {
			c := Rect(-20+4*i, -20+4*i, 20-4*i, 20-4*i)
			if r.Bool() {
				c = Reverse(c)
			}
			p.Contours = append(p.Contours, c)
		}
	case 5:
		p.Family = "multi-star"
		n := r.Range(2, 4)
		for i := 0; i < n; i++ {
			c := StarContour(r, r.Range(-15, 15), r.Range(-15, 15), r.Range(4, 20), r.Range(3, 9))
			if r.Bool() {
				c = Reverse(c)
			}
			p.Contours = append(p.Contours, c)
		}
	case 6:
		p.Family = "duplicated" // a contour repeated (coincident edges), possibly reversed
		c := RandomContour(r, -10, 10, r.Range(3, 7))
		p.Contours = [][]IPt{c, c}
		if r.Bool() {
			p.Contours[1] = Reverse(c)
		}
	default:
		p.Family = "spikes" // zero-area spikes: go out and come back
		c := RandomContour(r, -10, 10, r.Range(3, 6))
		k := r.Intn(len(c))
		sp := IPt{r.Range(-10, 10), r.Range(-10, 10)}
		c2 := append([]IPt{}, c[:k+1]...)
		c2 = append(c2, sp, c[k])
		c2 = append(c2, c[k+1:]...)
		p.Contours = [][]IPt{dedupConsecutive(c2)}
	}
	// drop degenerate contours (fewer than 2 distinct vertices)
	out := p.Contours[:0]
	for _, c := range p.Contours {
		if len(c) >= 2 {
			out = append(out, c)
		}
	}
	p.Contours = out
	if len(p.Contours) == 0 {
		p.Contours = [][]IPt{Rect(0, 0, 4, 4)}
		p.Family = "square"
	}
	return p
}

// Bounds of the integer polygon.
func (p IPoly) Bounds() (x0, y0, x1, y1 int) {
	first := true
	for _, c := range p.Contours {
		for _, v := range c {
			if first {
				x0, y0, x1, y1 = v.X, v.Y, v.X, v.Y
				first = false
			}
			if v.X < x0 {
				x0 = v.X
			}
			if v.X > x1 {
				x1 = v.X
			}
			if v.Y < y0 {
				y0 = v.Y
			}
			if v.Y > y1 {
				y1 = v.Y
			}
		}
	}
	return
}

// IsSimple reports whether the closed polygon c (integer vertices, implicitly closed) is simple: no two consecutive vertices
// coincide, adjacent edges share only their common vertex (no spike that folds back onto the previous edge) and non-adjacent
// edges have no point in common.  Exact: all tests are integer orientation tests.
func IsSimple(c []IPt) bool {
	n := len(c)
	if n < 3 {
		return false
	}
	orient := func(a, b, p IPt) int64 {
		return int64(b.X-a.X)*int64(p.Y-a.Y) - int64(b.Y-a.Y)*int64(p.X-a.X)
	}
	sgn := func(v int64) int {
		if v > 0 {
			return 1
		} else if v < 0 {
			return -1
		}
		return 0
	}
	within := func(a, b, p IPt) bool { // p collinear with ab: inside the closed bounding box
		return min(a.X, b.X) <= p.X && p.X <= max(a.X, b.X) && min(a.Y, b.Y) <= p.Y && p.Y <= max(a.Y, b.Y)
	}
	touch := func(a, b, p, q IPt) bool {
		o1, o2, o3, o4 := sgn(orient(a, b, p)), sgn(orient(a, b, q)), sgn(orient(p, q, a)), sgn(orient(p, q, b))
		if o1*o2 < 0 && o3*o4 < 0 {
			return true
		}
		return o1 == 0 && within(a, b, p) || o2 == 0 && within(a, b, q) || o3 == 0 && within(p, q, a) || o4 == 0 && within(p, q, b)
	}
	for i := 0; i < n; i++ {
		a, b := c[i], c[(i+1)%n]
		if a == b {
			return false
		}
		// the next edge may not fold back onto this one
		d := c[(i+2)%n]
		if orient(a, b, d) == 0 && int64(b.X-a.X)*int64(d.X-b.X)+int64(b.Y-a.Y)*int64(d.Y-b.Y) < 0 {
			return false
		}
		for j := i + 2; j < n; j++ {
			if i == 0 && j == n-1 {
				continue // adjacent through the closing vertex
			}
			if touch(a, b, c[j], c[(j+1)%n]) {
				return false
			}
		}
	}
	return true
}

(** C01/C02 — specification layer: the region a path fills is [fills rule (wn P p)]; a Boolean operation
    fills the Boolean combination of the operands' regions (read with the non-zero rule). *)
From Coq Require Import ZArith List Bool Lia.
From CV Require Import Geom.Winding.
Import ListNotations.
Open Scope Z_scope.

(** pathOp (path_intersection.go:84-91): 0 Settle, 1 AND, 2 OR, 3 NOT, 4 XOR, 5 DIV *)
Definition bop (op : Z) (a b : bool) : bool :=
  if op =? 0 then a
  else if op =? 1 then a && b
  else if op =? 2 then a || b
  else if op =? 3 then a && negb b
  else if op =? 4 then xorb a b
  else if op =? 5 then a
  else false.

Definition filled (rule : Z) (P : list (list pt)) (p : pt) : bool := fills rule (wn P p).

Definition region (op : Z) (P Q : list (list pt)) (p : pt) : bool :=
  bop op (filled 0 P p) (filled 0 Q p).

(* ------------------------------------------------------------------ algebraic laws, pointwise *)

Lemma region_and_comm P Q p : region 1 P Q p = region 1 Q P p.
Proof. unfold region, bop; simpl. apply andb_comm. Qed.
Lemma region_or_comm P Q p : region 2 P Q p = region 2 Q P p.
Proof. unfold region, bop; simpl. apply orb_comm. Qed.
Lemma region_xor_comm P Q p : region 4 P Q p = region 4 Q P p.
Proof. unfold region, bop; simpl. apply xorb_comm. Qed.

Lemma region_and_self P p : region 1 P P p = filled 0 P p.
Proof. unfold region, bop; simpl. apply andb_diag. Qed.
Lemma region_or_self P p : region 2 P P p = filled 0 P p.
Proof. unfold region, bop; simpl. apply orb_diag. Qed.
Lemma region_xor_self P p : region 4 P P p = false.
Proof. unfold region, bop; simpl. apply xorb_nilpotent. Qed.
Lemma region_not_self P p : region 3 P P p = false.
Proof. unfold region, bop; simpl. apply andb_negb_r. Qed.
Lemma region_div P Q p : region 5 P Q p = filled 0 P p.
Proof. reflexivity. Qed.

(** pointwise inclusion–exclusion: [P∪Q] + [P∩Q] = [P] + [Q] *)
Lemma region_incl_excl P Q p :
  Z.b2z (region 2 P Q p) + Z.b2z (region 1 P Q p) = Z.b2z (filled 0 P p) + Z.b2z (filled 0 Q p).
Proof. unfold region, bop; simpl. destruct (filled 0 P p), (filled 0 Q p); reflexivity. Qed.

(** XOR = OR minus AND; NOT = AND with the complement *)
Lemma region_xor_or_and P Q p : region 4 P Q p = region 2 P Q p && negb (region 1 P Q p).
Proof. unfold region, bop; simpl. destruct (filled 0 P p), (filled 0 Q p); reflexivity. Qed.
Lemma region_or_split P Q p :
  region 2 P Q p = region 3 P Q p || region 1 P Q p || region 3 Q P p.
Proof. unfold region, bop; simpl. destruct (filled 0 P p), (filled 0 Q p); reflexivity. Qed.

(** a path whose winding number is 0 or 1 at p fills p identically under NonZero, EvenOdd and Positive *)
Lemma canonical_rule_independent w : (w = 0 \/ w = 1) ->
  fills 0 w = fills 1 w /\ fills 0 w = fills 2 w /\ fills 3 w = false.
Proof. intros [->| ->]; repeat split; reflexivity. Qed.

(** Settle is idempotent on the specification level: if R fills under NonZero exactly what P fills under
    [rule], and R' fills under NonZero exactly what R fills under NonZero, then R' fills what P fills *)
Lemma settle_idempotent_region rule P R R' p :
  filled 0 R p = filled rule P p -> filled 0 R' p = filled 0 R p -> filled 0 R' p = filled rule P p.
Proof. congruence. Qed.

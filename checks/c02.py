"""C02 — Settle preserves the filled region and returns a canonical simple path."""
import vlib
from checks import _bo

META = dict(
    level="proof",
    technique="Coq proof of the Settle decision rule on the status column + verified-arithmetic oracle on every Settle output (region at guarded samples, winding 0/1, exact crossing test, idempotence)",
    level_text="Theorems: for Settle and all four fill rules a segment of the status column is kept iff the input's filled status changes "
               "across it, with the windings being the true totals (shared model with C01, tied to the real computeSweepFields by exact "
               "differential run); winding 0/1 implies rule independence; the crossing test is sound. Every generated Settle output is judged "
               "in Coq: region equality with the input at guarded sample points (lattice + hugging every input/result edge), winding number "
               "in {0,1}, no proper crossing between any two output edges (exact coordinates, tolerance 4e-8), and a second Settle keeps "
               "region, contour count and vertices (within tolerance).",
    level_note="partial: 'simple + CCW fills + CW holes implies winding 0/1 everywhere' (Jordan-type) is not proved; it is checked per output at "
               "sample points. The sweep control flow is not modelled (see C01).",
    coq_targets=["theories/Corr/C01.vo"],
    harness=["c01"],
)


def run(ctx):
    pr, obligations, discharged = vlib.proof_stage(ctx, ["theories/Corr/C01.vo"])
    if pr["broken"] or not pr["ok"]:
        ctx.violation(dict(kind="proof-obligation-broken", theorem_or_file=pr["broken"], bad_axioms=pr["bad_axioms"], log=pr["log"][-2000:]),
                      "proof obligation no longer checks: %s" % (pr["broken"] or pr["bad_axioms"]), found_input=False)
    ccases, ctie, cprop = _bo.run_columns(ctx, ctx.n(1500, 30000))
    ccases0 = [c for c in ccases if c["desc"]["op"] == "Settle"]
    cprop = [c for c in cprop if c["desc"]["op"] == "Settle"]
    ctie = [(c, fl) for c, fl in ctie if c["desc"]["op"] == "Settle"]
    cases, live, bad, stats = _bo.run_bo(ctx, ctx.n(110, 4000), "settle")
    known = [f for f in vlib.known_findings("C02") if f.get("status") == "open"]
    for c in cprop[:2]:
        ctx.violation(dict(kind="property-fails-on-implementation", what="sweep fields of the real computeSweepFields/InResult violate the Settle specification on a column",
                           seed=ctx.seed, index=c["i"], mode="col", **c["desc"]), "sweep fields wrong on a status column")
    bad.sort(key=lambda t: len(t[0]["desc"].get("P", "")))
    reported, seen_known = 0, set()
    for c, kind, detail in bad:
        f = _bo.match_known(known, c, kind, detail)
        if f:
            if f["key"] not in seen_known:
                seen_known.add(f["key"])
                ctx.known_finding("%s (e.g. Settle(%s) of %s)" % (f["what"], c["desc"].get("rule"), c["desc"].get("P")))
            continue
        _bo.dump_bad(ctx, c, kind, detail)
        if reported < 3:
            ctx.violation(_bo.describe(ctx, c, kind, detail, "settle"), "%s: Settle(rule %s) of %s" % (kind, c["desc"].get("rule"), c["desc"].get("P")))
        reported += 1
    if not cprop and not reported and ctie:
        c, fl = ctie[0]
        ctx.violation(dict(kind="correspondence-broken", correspondence="Corr.C01.judge_col (model of computeSweepFields/mergeOverlapping vs Go), Settle columns",
                           searched="%d Settle columns and %d Settle outputs judged against the specification: none violates the property" % (len(ccases0), len(live)),
                           seed=ctx.seed, index=c["i"], mode="col", tie_flags=fl, **c["desc"]), "model/implementation disagree", found_input=False)
    distinct = len({(c["desc"].get("rule"), c["desc"].get("P")) for c in live})
    cov = dict(
        obligations=obligations, discharged=discharged,
        checker_cmd="make -C coq theories/Props/C02.vo (coqc 8.16.1, full .vo) ; coqc on generated cases files (vm_compute)",
        trusted_base=vlib.trusted_base(pr, ["harness harness/cmd/c01 -mode settle (Go): generators, rounding of result vertices to 2^-30 for sampling; exact coordinates for the crossing and idempotence tests",
                                            "hand-written model Bool/Sweep.v tied by exact differential run on synthetic columns"]),
        evaluations=len(ccases0) + stats["judged"], distinct_nontrivial=distinct,
        rule="one evaluation per guarded sample point of one Settle(rule, P) output (+ one per Settle status column); distinct = distinct (rule, P); all P have at least one contour of >= 2 vertices",
        programs=len(live), disagreements_checked=len(bad) + len(ctie) + len(cprop), traces_validated_against_impl=len(ccases0),
        settle_outputs=dict(results=len(live), crashed=len(cases) - len(live), families=vlib.histogram([c["fam"] for c in live]), **stats),
        theorems=pr["theorems"], assumptions_per_theorem=pr["assumptions"],
        samples=[dict(rule=c["desc"]["rule"], P=c["desc"]["P"], R=c["desc"].get("R")) for c in live[:3]],
    )
    return ctx.finish("proof", cov, [
        "inputs on power-of-two integer grids; sample points at exact distance >= 2^-12 from every input and output edge",
        "crossing tolerance 4e-8 (4 x the snap grid): a crossing shallower than that is not counted"])

(** C17 — the theorems at the exact (rational) instance, with examples showing their hypotheses are
    satisfiable on a non-trivial paragraph (the witness paragraph of KPWitness.v). *)
From Coq Require Import ZArith QArith Lqa List Bool Lia.
From CV Require Import Base.Dy Text.KPSpec Text.KP Text.KPQ Text.KPProofs Text.KPModelProofs Text.KPWitness.
Import ListNotations.

Lemma Q_neqb_refl x : neqb QO x x = true.
Proof. apply Qeqb_eq. apply Qeq_refl. Qed.

Lemma Q_forced_lt_inf (P : params Q) : (0 < pInf P)%Q ->
  forall it, forced QO P it = true -> nltb QO (ip it) (pInf P) = true.
Proof.
  intros Hpos it Hf. unfold forced in Hf. apply andb_true_iff in Hf. destruct Hf as [_ Hle].
  cbn [nleb nltb QO] in *. apply Qleb_le in Hle. apply Qltb_lt.
  unfold nopp, n0 in Hle. cbn [nsub nofZ QO] in Hle. rewrite Qred_correct in Hle.
  unfold inject_Z in Hle. lra.
Qed.

Section AtQ.
Variable P : params Q.
Hypothesis Hinf : (0 < pInf P)%Q.
Variable items : list (item Q).
Variable width : Q.

(** positions returned by the model, as naturals *)
Definition out_positions (bs : list (obrk (num:=Q))) : list nat := map (fun o => Z.to_nat (oPos o)) bs.

(** Every result of the faithful model on a paragraph that ends in a forced break is a sequence of strictly
    increasing legal breakpoints that skips no forced break and ends at the last item. *)
Theorem model_breaks_legal_Q looseness fuel bs ok :
  linebreak QO P items width looseness fuel = Done bs ok ->
  forced_at QO P items (length items - 1) = true ->
  chain_struct QO P items (rev (out_positions bs)) = true /\
  hd_error (rev (out_positions bs)) = Some (length items - 1)%nat.
Proof.
  intros H Hf.
  destruct (model_breaks_legal QO P Q_neqb_refl (Q_forced_lt_inf P Hinf) items width looseness fuel bs ok H Hf) as (ch & H1 & H2 & H3).
  assert (Hpos : out_positions bs = rev ch).
  { unfold out_positions. rewrite <- (map_map (@oPos Q) Z.to_nat), H1, map_map.
    rewrite <- (map_id (rev ch)) at 2. apply map_ext. intro a. apply Nat2Z.id. }
  rewrite Hpos, rev_involutive. split; assumption.
Qed.

(** PARTIAL (model vs optimum). Full statement wanted:
      Monotone items width -> linebreak ... 0 fuel = Done bs true (no restart) ->
      total demerits of bs = demerits of kp_opt   (the model is optimal).
    Proved here: the half that does not need monotonicity — whenever the model's breaking is feasible at
    tolerance [tol], kp_opt finds a breaking and it is at least as good. Missing: the converse inequality
    under [Monotone] (safety of deactivation, of the Dmin+DemeritsFitness cut and of the per-line grouping);
    it is checked on every generated case by the K2 oracle of Corr/C17.v, not proved. *)
Theorem model_vs_opt_partial looseness fuel bs ok feas f d :
  linebreak QO P items width looseness fuel = Done bs ok ->
  forced_at QO P items (length items - 1) = true ->
  chain_eval QO P items width feas (rev (out_positions bs)) = Some (f, d) ->
  exists dopt ch, kp_opt QO P items width feas = Some (dopt, ch) /\ (dopt <= d)%Q.
Proof.
  intros H Hf Hev.
  destruct (model_breaks_legal_Q looseness fuel bs ok H Hf) as [_ Hhd].
  assert (Hc : complete items (rev (out_positions bs)) = true).
  { unfold complete. rewrite Hhd. apply Nat.eqb_eq.
    unfold forced_at in Hf. destruct (nth_error items (length items - 1)) eqn:E; [|discriminate].
    assert ((length items - 1 < length items)%nat) by (apply nth_error_Some; congruence). lia. }
  destruct (kp_opt_optimal_Q P items width feas) as [H1 H2].
  destruct (kp_opt QO P items width feas) as [[dopt ch]|] eqn:Eo.
  - exists dopt, ch. split; [reflexivity|]. destruct (H1 dopt ch eq_refl) as (_ & _ & Hmin). exact (Hmin _ _ _ Hev Hc).
  - exfalso. exact (H2 eq_refl _ _ _ Hev Hc).
Qed.

End AtQ.

(** ---- the hypotheses are satisfiable: the witness paragraph ---- *)
Example default_inf_pos : (0 < pInf default_params)%Q.
Proof. reflexivity. Qed.

Example model_breaks_legal_ex :
  exists bs, linebreak QO default_params witness_items 100 0 60 = Done bs true /\
             forced_at QO default_params witness_items (length witness_items - 1) = true /\
             out_positions bs = [1; 6]%nat.
Proof. eexists. split; [vm_compute; reflexivity|]. split; vm_compute; reflexivity. Qed.

(** a paragraph on which the model's breaking is feasible at the default tolerance (and equals the optimum) *)
Definition easy_items : list (item Q) :=
  [bx 40; gl 10 5 3; bx 45; gl 10 5 3; bx 40; gl 10 5 3; bx 48; gl 0 1000 0; pn 0 (-1000) false].

Example model_vs_opt_ex :
  exists bs f d, linebreak QO default_params easy_items 100 0 60 = Done bs true /\
    chain_eval QO default_params easy_items 100 (feas_tol QO (Some 2)) (rev (out_positions bs)) = Some (f, d) /\
    exists ch, kp_opt QO default_params easy_items 100 (feas_tol QO (Some 2)) = Some (d, ch).
Proof. eexists. eexists. eexists. split; [vm_compute; reflexivity|]. split; [vm_compute; reflexivity|]. eexists. vm_compute. reflexivity. Qed.

Example kp_opt_ex : exists d, kp_opt QO default_params witness_items 100 (feas_tol QO (Some 2)) = Some (d, [6%nat]).
Proof. exact (proj1 witness_refutes). Qed.

(** a restart does occur on the witness: the hypothesis of [restart_raises_tolerance] is met *)
Example restart_ex :
  pass QO default_params witness_items 100 (Some 2) witness_items 0 (t0 QO) [root QO] [] None false = PRestart (Some 1500) false.
Proof. vm_compute. reflexivity. Qed.

(** [restart_raises_tolerance] from the state a pass starts in (nextTolerance = +Inf) *)
Lemma restart_raises_tolerance_init (num : Type) (O : ops num) (P : params num) (items : list (item num)) (width : num)
  tol l b cur act inact ovf t ovf' :
  pass O P items width tol l b cur act inact None ovf = PRestart t ovf' ->
  match tol, t with
  | Some a, Some x => nltb O a x = true
  | Some _, None => True
  | None, _ => False
  end.
Proof. exact (restart_raises_tolerance O P items width tol l b cur act inact None ovf t ovf' I). Qed.

(** C15 — Context and Canvas apply views, coordinate systems and state as documented.
    Property theorems only; each is closed by [exact] of a lemma proved in Ctx/ContextProofs.v or Ctx/CanvasProofs.v. *)
From Coq Require Import ZArith QArith List Bool Sorted.
From CV Require Import Base.Dy Geom.Matrix Ctx.DashCheck Ctx.Context Ctx.Canvas Ctx.Spec Ctx.ContextProofs Ctx.CanvasProofs.
Import ListNotations.
Open Scope Q_scope.

(** Push, then any history in which Push and Pop are matched (nested arbitrarily; setters, view calls, coordinate
    calls, draws in between), then Pop: style, view, coordinate view, coordinate system and the stack are restored
    exactly. *)
Theorem C15_push_pop_restores : forall W H h, balanced h -> forall c,
  let c' := fst (ctx_run W H c (Push :: h ++ [Pop])) in ccur c' = ccur c /\ cstack c' = cstack c.
Proof. exact push_pop_restores. Qed.
Print Assumptions C15_push_pop_restores.

Theorem C15_balanced_preserves_stack : forall W H h, balanced h -> forall c,
  cstack (fst (ctx_run W H c h)) = cstack c.
Proof. exact balanced_preserves_stack. Qed.
Print Assumptions C15_balanced_preserves_stack.

(** Pop on an empty stack does nothing. *)
Theorem C15_unmatched_pop_noop : forall W H c, cstack c = [] -> ctx_step W H c Pop = (c, []).
Proof. exact unmatched_pop_noop. Qed.
Print Assumptions C15_unmatched_pop_noop.

(** Translate, Rotate, Scale, Shear, Reflect, *About, ComposeView post-multiply the view ... *)
Theorem C15_view_ops_postmultiply : forall W H c o q, view_op_matrix o = Some q ->
  ctx_step W H c o = (with_view c (mnorm (mmul (cview (ccur c)) q)), []).
Proof. exact view_ops_postmultiply. Qed.
Print Assumptions C15_view_ops_postmultiply.

(** ... so a point is moved by the new call first and by the previous view afterwards ... *)
Theorem C15_view_ops_act_first : forall W H c o q p, view_op_matrix o = Some q ->
  pteq (mdot (cview (ccur (fst (ctx_step W H c o)))) p) (mdot (cview (ccur c)) (mdot q p)).
Proof. exact view_ops_act_first. Qed.
Print Assumptions C15_view_ops_act_first.

(** ... and the matrix of each call is the documented geometric map (translation, rotation by the supplied
    (cos, sin), scaling, shear, reflection, each possibly about a point). *)
Theorem C15_view_op_matrix_meaning : forall o q f p,
  view_op_matrix o = Some q -> spec_view_op o = Some f -> pteq (mdot q p) (f p).
Proof. exact view_op_matrix_meaning. Qed.
Print Assumptions C15_view_op_matrix_meaning.

(** The matrix handed to the renderer with every path of DrawPath(x, y, ...) is
    CoordSystemView . view . Translate(coordView . (x,y)) ... *)
Theorem C15_draw_matrix : forall W H c x y ps r,
  In r (snd (ctx_step W H c (DrawPath x y ps))) -> rm r = base_matrix W H (ccur c) x y.
Proof. exact draw_matrix. Qed.
Print Assumptions C15_draw_matrix.

Theorem C15_draw_matrix_formula : forall W H s x y,
  meq (base_matrix W H s x y)
      (mmul (csv W H (csysm s)) (mmul (cview s) (mtranslate mid (fst (mdot (ccoord s) (x, y))) (snd (mdot (ccoord s) (x, y)))))).
Proof. exact base_matrix_formula. Qed.
Print Assumptions C15_draw_matrix_formula.

(** ... i.e. the point p of the path appears at CoordSystemView(view(p + coordView(x,y))). *)
Theorem C15_draw_point : forall W H s x y p,
  pteq (mdot (base_matrix W H s x y) p) (spec_csv W H (csysm s) (mdot (cview s) (padd p (mdot (ccoord s) (x, y))))).
Proof. exact base_matrix_point. Qed.
Print Assumptions C15_draw_point.

(** Fill / Stroke / FillStroke draw the current path at (0,0) with the same matrix. *)
Theorem C15_fill_matrix : forall W H c len b r,
  In r (snd (ctx_step W H c (Fill len b))) \/ In r (snd (ctx_step W H c (Stroke len b))) \/
  In r (snd (ctx_step W H c (FillStroke len b))) ->
  rm r = base_matrix W H (ccur c) 0 0 /\ robj r = OPath (cpath c).
Proof. exact fill_matrix. Qed.
Print Assumptions C15_fill_matrix.

(** Text: same placement, the text's own axes flipped back exactly in the flipped systems; the orientation of a
    text is that of the view alone (never mirrored by the coordinate system), whereas paths are mirrored in
    CartesianII and CartesianIV. *)
Theorem C15_text_matrix_point : forall W H s x y p,
  pteq (mdot (text_matrix W H s x y) p) (mdot (base_matrix W H s x y) (text_flip (csysm s) p)).
Proof. exact text_matrix_point. Qed.
Print Assumptions C15_text_matrix_point.

Theorem C15_text_upright : forall W H s x y, mdet (text_matrix W H s x y) == mdet (cview s).
Proof. exact text_upright. Qed.
Print Assumptions C15_text_upright.

Theorem C15_text_upright_identity_view : forall W H s x y p, meq (cview s) mid ->
  pteq (mdot (text_matrix W H s x y) p) (padd p (spec_csv W H (csysm s) (mdot (ccoord s) (x, y)))).
Proof. exact text_upright_identity_view. Qed.
Print Assumptions C15_text_upright_identity_view.

Theorem C15_path_orientation : forall W H s x y,
  mdet (base_matrix W H s x y) == csys_sign (csysm s) * mdet (cview s).
Proof. exact path_orientation. Qed.
Print Assumptions C15_path_orientation.

(** Images: pixel (px,py) at (px,py)/res from the draw position, mirrored within the image's own box exactly in the
    flipped systems; orientation that of the view alone. *)
Theorem C15_image_matrix_point : forall W H s x y wpx hpx res p, ~ res == 0 ->
  let q := image_flip (csysm s) wpx hpx p in
  pteq (mdot (image_matrix W H s x y wpx hpx res) p) (mdot (base_matrix W H s x y) (fst q / res, snd q / res)).
Proof. exact image_matrix_point. Qed.
Print Assumptions C15_image_matrix_point.

Theorem C15_image_upright : forall W H s x y wpx hpx res, ~ res == 0 ->
  mdet (image_matrix W H s x y wpx hpx res) == mdet (cview s) / (res * res).
Proof. exact image_upright. Qed.
Print Assumptions C15_image_upright.

(** The four coordinate systems put the origin in the bottom-left, bottom-right, top-right, top-left corner ... *)
Theorem C15_origin_corner : forall W H,
  pteq (mdot (csv W H CartI) (0, 0)) (0, 0) /\ pteq (mdot (csv W H CartII) (0, 0)) (W, 0) /\
  pteq (mdot (csv W H CartIII) (0, 0)) (W, H) /\ pteq (mdot (csv W H CartIV) (0, 0)) (0, H).
Proof. exact origin_corner. Qed.
Print Assumptions C15_origin_corner.

(** ... with the axes pointing into the canvas. *)
Theorem C15_coord_system_view : forall W H s p, pteq (mdot (csv W H s) p) (spec_csv W H s p).
Proof. exact csv_meaning. Qed.
Print Assumptions C15_coord_system_view.

Theorem C15_coord_rect_corners : forall W H c r w h, ~ w == 0 -> ~ h == 0 ->
  let m := ccoord (ccur (fst (ctx_step W H c (SetCoordRect r w h)))) in
  pteq (mdot m (0, 0)) (rx0 r, ry0 r) /\ pteq (mdot m (w, h)) (rx1 r, ry1 r).
Proof. exact coord_rect_corners. Qed.
Print Assumptions C15_coord_rect_corners.

(** Style setters hand nothing to the renderer and change nothing but the style; what has been handed to the renderer
    is never revised by later calls; the style handed on with a path is the style at the time of the draw. *)
Theorem C15_setter_only_style : forall W H c o, is_setter o = true ->
  let '(c', out) := ctx_step W H c o in
  out = [] /\ cview (ccur c') = cview (ccur c) /\ ccoord (ccur c') = ccoord (ccur c) /\
  csysm (ccur c') = csysm (ccur c) /\ cstack c' = cstack c /\ cpath c' = cpath c.
Proof. exact setter_only_style. Qed.
Print Assumptions C15_setter_only_style.

Theorem C15_setters_affect_only_later : forall W H c h1 h2,
  snd (ctx_run W H c (h1 ++ h2)) = snd (ctx_run W H c h1) ++ snd (ctx_run W H (fst (ctx_run W H c h1)) h2).
Proof. exact setters_affect_only_later. Qed.
Print Assumptions C15_setters_affect_only_later.

Theorem C15_draw_style_is_current : forall W H c x y ps r,
  In r (snd (ctx_step W H c (DrawPath x y ps))) ->
  exists p, In p ps /\ robj r = OPath (pi_tok p) /\ rst r = path_style (cst (ccur c)) p.
Proof. exact draw_style_is_current. Qed.
Print Assumptions C15_draw_style_is_current.

Theorem C15_path_style_fields : forall st p,
  let st' := path_style st p in
  sfill st' = sfill st /\ swidth st' = swidth st /\ scap st' = scap st /\ sjoin st' = sjoin st /\ srule st' = srule st /\
  (sstroke st' = sstroke st \/ sstroke st' = paint_none) /\
  (sdoff st', sdashes st') = fst (check_dash (pi_len p) (sdoff st) (sdashes st)).
Proof. exact path_style_fields. Qed.
Print Assumptions C15_path_style_fields.

(** Replay: the z-indices ascend and the records of each z-index are those recorded with it, in recording order
    (= the stable sort of the recording order by z-index), for every sequence of recordings and z-index changes. *)
Theorem C15_replay_order : forall W H evs,
  let cv := fold_left cv_ev evs (cv_new W H) in
  StronglySorted Z.le (map fst (tagged cv)) /\
  forall z, filter (zis z) (tagged cv) = filter (zis z) (ev_log 0 evs).
Proof. exact replay_order. Qed.
Print Assumptions C15_replay_order.

Theorem C15_render_view_applies_view : forall cv V,
  cv_render_view cv V = map (fun e => with_m (snd e) (mnorm (mmul V (rm (snd e))))) (tagged cv).
Proof. exact render_view_applies_view. Qed.
Print Assumptions C15_render_view_applies_view.

(** Transform / Clip keep order, z-indices, objects and styles and move every point of every object by the same map. *)
Theorem C15_transform_consistent : forall cv m, Forall2 (moved_by (mdot m)) (tagged cv) (tagged (cv_transform cv m)).
Proof. exact transform_consistent. Qed.
Print Assumptions C15_transform_consistent.

Theorem C15_clip_consistent : forall cv r,
  Forall2 (moved_by (fun p => (fst p - rx0 r, snd p - ry0 r))) (tagged cv) (tagged (cv_clip cv r)) /\
  cvW (cv_clip cv r) == rW r /\ cvH (cv_clip cv r) == rH r.
Proof. exact clip_consistent. Qed.
Print Assumptions C15_clip_consistent.

(** After Fit(margin) the transformed bounds of every layer with non-empty bounds lie in
    [margin, W-margin] x [margin, H-margin] (all recorded matrices regular); the size is the content box plus the
    margins.  Full statement without "non-empty bounds": refuted below (such layers are skipped by the code). *)
Theorem C15_fit_contains_partial : forall cv margin, regular (all_layers cv) ->
  let cv' := cv_fit cv margin in
  forall l', In l' (all_layers cv') -> rempty (layer_bounds l') = false ->
  let b := tbounds l' in
  margin <= rx0 b /\ margin <= ry0 b /\ rx1 b <= cvW cv' - margin /\ ry1 b <= cvH cv' - margin.
Proof. exact fit_contains. Qed.
Print Assumptions C15_fit_contains_partial.

Theorem C15_fit_contains_refuted : exists cv margin l',
  In l' (all_layers (cv_fit cv margin)) /\ rempty (layer_bounds l') = true /\
  cvW (cv_fit cv margin) - margin < rx1 (tbounds l').
Proof. exact fit_contains_refuted_for_empty_bounds. Qed.
Print Assumptions C15_fit_contains_refuted.

Theorem C15_fit_size : forall cv margin,
  let u := fold_left fit_acc (all_layers cv) (mkR 0 0 0 0) in
  cvW (cv_fit cv margin) == rW u + 2 * margin /\ cvH (cv_fit cv margin) == rH u + 2 * margin.
Proof. exact fit_size. Qed.
Print Assumptions C15_fit_size.

(** Context over Canvas: canvas-level calls and z-index changes never touch the Context; a Context call changes the
    canvas only by recording what it hands on, in order, at the current z-index (so C15_replay_order applies to what
    a Context records, and the Context theorems apply when Transform/Clip/Fit are interleaved). *)
Theorem C15_sys_canvas_calls_keep_ctx : forall s o,
  match o with Ctx (SetZIndex _) | CvTransform _ | CvClip _ | CvFit _ => sctx (sys_step s o) = sctx s | _ => True end.
Proof. exact sys_canvas_calls_keep_ctx. Qed.
Print Assumptions C15_sys_canvas_calls_keep_ctx.

Theorem C15_sys_ctx_call_records : forall s o, (forall z, o <> SetZIndex z) ->
  sys_step s (Ctx o) =
  mkSys (fst (ctx_step (cvW (scv s)) (cvH (scv s)) (sctx s) o))
        (fold_left cv_ev (map EvRec (snd (ctx_step (cvW (scv s)) (cvH (scv s)) (sctx s) o))) (scv s)).
Proof. exact sys_ctx_call_records. Qed.
Print Assumptions C15_sys_ctx_call_records.

(** FitImage: pixel p of the (cropped) image goes where the documented placement puts it — at (x, y) + (p'/xres, p'/yres) with p'
    mirrored within the image's own box exactly in the flipped coordinate systems (upright, as for DrawImage) *)
Theorem C15_fit_image_matrix_point : forall W H s x y xres yres wc hc p,
  ~ xres == 0 -> ~ yres == 0 ->
  let q := image_flip (csysm s) wc hc p in
  pteq (mdot (fit_image_matrix W H s x y xres yres wc hc) p) (mdot (base_matrix W H s x y) (fst q / xres, snd q / yres)).
Proof. exact fit_image_matrix_point. Qed.
Print Assumptions C15_fit_image_matrix_point.

Theorem C15_fit_image_upright : forall W H s x y xres yres wc hc,
  ~ xres == 0 -> ~ yres == 0 ->
  mdet (fit_image_matrix W H s x y xres yres wc hc) == mdet (cview s) / (xres * yres).
Proof. exact fit_image_upright. Qed.
Print Assumptions C15_fit_image_upright.

(** ImageFill and ImageCover lay the (cropped) image exactly over the rectangle *)
Theorem C15_fit_fill_cover_box : forall r fit wpx hpx,
  (fit = 0 \/ fit = 2)%Z -> 0 < rW r -> 0 < rH r ->
  let '(x, y, xres, yres, dx, dy) := fit_params r fit wpx hpx in
  let wc := (wpx - 2 * dx)%Z in let hc := (hpx - 2 * dy)%Z in
  x == rx0 r /\ y == ry0 r /\ xres * rW r == inject_Z wc /\ yres * rH r == inject_Z hc.
Proof. exact fit_fill_cover_box. Qed.
Print Assumptions C15_fit_fill_cover_box.

(** ImageContain keeps the aspect ratio (one resolution), stays inside the rectangle and is centred *)
Theorem C15_fit_contain_inside : forall r wpx hpx,
  0 < rW r -> 0 < rH r -> (0 < wpx)%Z -> (0 < hpx)%Z ->
  let '(x, y, xres, yres, dx, dy) := fit_params r 1 wpx hpx in
  xres == yres /\ dx = 0%Z /\ dy = 0%Z /\ 0 < xres /\
  rx0 r <= x /\ x + inject_Z wpx / xres <= rx1 r /\ ry0 r <= y /\ y + inject_Z hpx / yres <= ry1 r /\
  x - rx0 r == rx1 r - (x + inject_Z wpx / xres) /\ y - ry0 r == ry1 r - (y + inject_Z hpx / yres).
Proof. exact fit_contain_inside. Qed.
Print Assumptions C15_fit_contain_inside.

Theorem C15_fit_image_handed_on : forall W H c r fit id wpx hpx rp,
  In rp (snd (ctx_step W H c (FitImage r fit id wpx hpx))) ->
  let '(x, y, xres, yres, dx, dy) := fit_params r fit wpx hpx in
  rm rp = fit_image_matrix W H (ccur c) x y xres yres (wpx - 2 * dx) (hpx - 2 * dy) /\
  robj rp = OImage id (wpx - 2 * dx) (hpx - 2 * dy).
Proof. exact fit_image_handed_on. Qed.
Print Assumptions C15_fit_image_handed_on.

(** ImageCover keeps at least one column and one row of pixels and positive resolutions, so the matrix is finite *)
Theorem C15_fit_cover_keeps_pixels : forall r wpx hpx,
  0 < rW r -> 0 < rH r -> (0 < wpx)%Z -> (0 < hpx)%Z ->
  let '(x, y, xres, yres, dx, dy) := fit_params r 2 wpx hpx in
  (0 < wpx - 2 * dx)%Z /\ (0 < hpx - 2 * dy)%Z /\ 0 < xres /\ 0 < yres.
Proof. exact fit_cover_keeps_pixels. Qed.
Print Assumptions C15_fit_cover_keeps_pixels.

(** quad_to_cubic_exact: the cubic emitted by ToPDF/ToPS for a quadratic segment
    (quadraticToCubicBezier: c1 = p0 + 2/3 (p1 - p0), c2 = p2 + 2/3 (p1 - p2), path_util.go:391)
    is the SAME curve: equal Bernstein polynomials for every parameter t (not only on [0,1]). *)
From Coq Require Import QArith.
Open Scope Q_scope.

Definition quad_at (p0 p1 p2 t : Q) : Q := (1 - t) * (1 - t) * p0 + (2#1) * (1 - t) * t * p1 + t * t * p2.
Definition cube_at (p0 c1 c2 p3 t : Q) : Q :=
  (1 - t) * (1 - t) * (1 - t) * p0 + (3#1) * (1 - t) * (1 - t) * t * c1 + (3#1) * (1 - t) * t * t * c2 + t * t * t * p3.

(** Point.Interpolate(q, t) = (1-t) p + t q *)
Definition interp (p q t : Q) : Q := (1 - t) * p + t * q.

Theorem quad_to_cubic_exact : forall p0 p1 p2 t,
  cube_at p0 (interp p0 p1 (2#3)) (interp p2 p1 (2#3)) p2 t == quad_at p0 p1 p2 t.
Proof. intros. unfold cube_at, quad_at, interp. ring. Qed.

(** the form used by the judge (Corr/C11.v q2c): p + 2/3 (q - p) *)
Lemma interp_alt : forall p q, interp p q (2#3) == p + (2#3) * (q - p).
Proof. intros. unfold interp. ring. Qed.

Example quad_to_cubic_example : cube_at 0 (interp 0 3 (2#3)) (interp 6 3 (2#3)) 6 (1#2) == quad_at 0 3 6 (1#2).
Proof. apply quad_to_cubic_exact. Qed.

(** Theorems about the winding model (C06). *)
From Coq Require Import ZArith List Lia Bool Permutation.
From CV Require Import Geom.Winding.
Import ListNotations.
Open Scope Z_scope.

(* ---------------------------------------------------------------- small facts *)

Lemma zsum_app l1 l2 : zsum (l1 ++ l2) = zsum l1 + zsum l2.
Proof. induction l1 as [|a l1 IH]; simpl; lia. Qed.

Lemma zsum_cons a l : zsum (a :: l) = a + zsum l.
Proof. reflexivity. Qed.

Lemma zsum_perm l1 l2 : Permutation l1 l2 -> zsum l1 = zsum l2.
Proof. induction 1; simpl; lia. Qed.

Definition offb (z : isect) : Prop := iT0z z = false.   (* not at the start of the ray *)

Lemma windings_half_off zs : Forall offb zs ->
  forall n b, windings_half zs n b = (n + zsum (map half_weight zs), b).
Proof.
  induction 1 as [|z zs H0 Hall IH]; intros n b; simpl.
  - f_equal. lia.
  - unfold offb in H0. rewrite H0, IH. f_equal. lia.
Qed.

Lemma insert_perm z l : Permutation (insert_isect z l) (z :: l).
Proof.
  induction l as [|h t IH]; simpl; auto.
  destruct (xlt h z); auto.
  eapply perm_trans; [apply perm_skip, IH | apply perm_swap].
Qed.

Lemma sort_perm l : Permutation (sort_isects l) l.
Proof.
  induction l as [|z l IH]; simpl; auto.
  eapply perm_trans; [apply insert_perm | apply perm_skip, IH].
Qed.

(* ---------------------------------------------------------------- one segment *)

(** [phi p v] = 1 when the vertex v lies on the ray from p, strictly to the right of p *)
Definition phi (p v : pt) : Z := if (snd v =? snd p) && (fst p <? fst v) then 1 else 0.

Ltac bdestruct_all :=
  repeat match goal with
  | |- context [?a <=? ?b] => destruct (Z.leb_spec a b)
  | |- context [?a <? ?b] => destruct (Z.ltb_spec a b)
  | |- context [?a =? ?b] => destruct (Z.eqb_spec a b)
  end.

Ltac bdestruct_hyp H :=
  repeat match type of H with
  | context [?a <=? ?b] => destruct (Z.leb_spec a b)
  | context [?a <? ?b] => destruct (Z.ltb_spec a b)
  | context [?a =? ?b] => destruct (Z.eqb_spec a b)
  end.

Ltac bd1 :=
  match goal with
  | |- context [?a <=? ?b] => destruct (Z.leb_spec a b)
  | |- context [?a <? ?b] => destruct (Z.ltb_spec a b)
  | |- context [?a =? ?b] => destruct (Z.eqb_spec a b)
  | H : context [?a <=? ?b] |- _ => destruct (Z.leb_spec a b)
  | H : context [?a <? ?b] |- _ => destruct (Z.ltb_spec a b)
  | H : context [?a =? ?b] |- _ => destruct (Z.eqb_spec a b)
  end.
Ltac bd := repeat (bd1; try (exfalso; lia); cbn [andb orb negb] in * ).

(** horizontal (or zero-length) segment: exhaustive case analysis over the overlap branches of
    intersectionLineLine *)
Lemma seg_half_horiz x y b0x b0y b1x :
  on_seg (x, y) (b0x, b0y) (b1x, b0y) = false ->
  Forall offb (seg_isects x y (b0x, b0y) (b1x, b0y)) /\
  zsum (map half_weight (seg_isects x y (b0x, b0y) (b1x, b0y))) =
    2 * edge_w (x, y) (b0x, b0y) (b1x, b0y) - phi (x, y) (b0x, b0y) + phi (x, y) (b1x, b0y).
Proof.
  unfold seg_isects, edge_w, on_seg, phi, interval, mk_overlap, offb, t1_of_ratio; cbn [fst snd].
  rewrite !Z.sub_diag, !Z.mul_0_l, !Z.sub_0_r.
  intros Hon.
  bd.
  all: try discriminate.
  all: cbn; unfold offb; cbn.
  all: try (split; [repeat constructor|]; cbn; try lia).
  all: try (split; [repeat constructor; cbn; bd; auto|]; unfold half_weight; cbn; try lia).
Qed.

(** Key lemma.  For a query point not on the segment, no intersection record is at the start of the ray and
    the half-winding weight of the segment's records is twice its half-open crossing contribution, corrected
    by the two endpoint terms that telescope around a closed contour. *)
Lemma seg_half x y b0x b0y b1x b1y :
  on_seg (x, y) (b0x, b0y) (b1x, b1y) = false ->
  Forall offb (seg_isects x y (b0x, b0y) (b1x, b1y)) /\
  zsum (map half_weight (seg_isects x y (b0x, b0y) (b1x, b1y))) =
    2 * edge_w (x, y) (b0x, b0y) (b1x, b1y) - phi (x, y) (b0x, b0y) + phi (x, y) (b1x, b1y).
Proof.
  intros Hon.
  destruct (Z.eq_dec b0y b1y) as [Hh|Hnh].
  - subst b1y. apply seg_half_horiz, Hon.
  - (* non-horizontal segment *)
    unfold seg_isects, edge_w, on_seg, phi, offb in *; cbn [fst snd] in *.
    set (s := (b1x - b0x) * (y - b0y) - (b1y - b0y) * (x - b0x)) in *.
    destruct ((Z.min b0y b1y <=? y) && (y <=? Z.max b0y b1y) && (x <=? Z.max b0x b1x)) eqn:Hf; cbn [negb].
    2:{ split; [constructor|]. cbn [map zsum fold_right].
        apply andb_false_iff in Hf as [Hf|Hf]; [apply andb_false_iff in Hf as [Hf|Hf]|];
          [apply Z.leb_gt in Hf | apply Z.leb_gt in Hf | apply Z.leb_gt in Hf].
        - bd; lia.
        - bd; lia.
        - (* x right of the whole segment: no crossing *)
          assert (Hs : (b0y <= y < b1y -> s <= 0) /\ (b1y <= y < b0y -> 0 <= s)) by (subst s; split; intros; nia).
          destruct Hs as [Hs1 Hs2].
          bd; lia. }
    apply andb_true_iff in Hf as [Hf Hx]. apply andb_true_iff in Hf as [Hlo Hhi].
    apply Z.leb_le in Hx, Hlo, Hhi.
    replace ((b0x =? b1x) && (b0y =? b1y)) with false
      by (symmetry; apply andb_false_iff; right; apply Z.eqb_neq; lia).
    replace (b1y - b0y =? 0) with false by (symmetry; apply Z.eqb_neq; lia).
    assert (Hs0 : s = 0 -> False).
    { intro C. rewrite C in Hon. cbn [Z.eqb andb] in Hon.
      assert (Hxr : Z.min b0x b1x <= x).
      { subst s. destruct (Z_lt_le_dec b0y b1y); destruct (Z_le_dec b0x b1x); nia. }
      assert (Hc : ((Z.min b0x b1x <=? x) && (x <=? Z.max b0x b1x) && (Z.min b0y b1y <=? y) && (y <=? Z.max b0y b1y)) = true).
      { repeat (apply andb_true_iff; split); apply Z.leb_le; lia. }
      rewrite Hc in Hon. discriminate. }
    clear Hon.
    destruct ((x =? b1x) && (y =? b1y)) eqn:He.
    { exfalso. apply andb_true_iff in He as [E1 E2]. apply Z.eqb_eq in E1, E2. subst. apply Hs0. subst s. ring. }
    destruct (b1y - b0y <? 0) eqn:Hneg; [apply Z.ltb_lt in Hneg | apply Z.ltb_ge in Hneg].
    + (* downward edge: b1y < b0y *)
      destruct (x * - (b1y - b0y) <=? - (b0x * (b1y - b0y) + (b1x - b0x) * (y - b0y))) eqn:Hc;
        [apply Z.leb_le in Hc | apply Z.leb_gt in Hc].
      * assert (s < 0) by (subst s; nia).
        split.
        -- constructor; [|constructor]. cbn. apply Z.eqb_neq. subst s; nia.
        -- unfold half_weight, dir_of; cbn.
           replace (b1y - b0y <? 0) with true by (symmetry; apply Z.ltb_lt; lia).
           assert (Hp0 : y = b0y -> x < b0x) by (intros ->; subst s; nia).
           assert (Hp1 : y = b1y -> x < b1x) by (intros ->; subst s; nia).
           bd; lia.
      * assert (0 < s) by (subst s; nia).
        split; [constructor|]. cbn.
        assert (Hp0 : y = b0y -> b0x < x) by (intros ->; subst s; nia).
        assert (Hp1 : y = b1y -> b1x < x) by (intros ->; subst s; nia).
        bd; lia.
    + (* upward edge: b0y < b1y *)
      destruct (x * (b1y - b0y) <=? b0x * (b1y - b0y) + (b1x - b0x) * (y - b0y)) eqn:Hc;
        [apply Z.leb_le in Hc | apply Z.leb_gt in Hc].
      * assert (0 < s) by (subst s; nia).
        split.
        -- constructor; [|constructor]. cbn. apply Z.eqb_neq. subst s; nia.
        -- unfold half_weight, dir_of; cbn.
           replace (b1y - b0y <? 0) with false by (symmetry; apply Z.ltb_ge; lia).
           assert (Hp0 : y = b0y -> x < b0x) by (intros ->; subst s; nia).
           assert (Hp1 : y = b1y -> x < b1x) by (intros ->; subst s; nia).
           bd; lia.
      * assert (s < 0) by (subst s; nia).
        split; [constructor|]. cbn.
        assert (Hp0 : y = b0y -> b0x < x) by (intros ->; subst s; nia).
        assert (Hp1 : y = b1y -> b1x < x) by (intros ->; subst s; nia).
        bd; lia.
Qed.

(* ---------------------------------------------------------------- a whole contour *)

Fixpoint edges_from (start : pt) (vs : list pt) (first : pt) : list (pt * pt) :=
  match vs with
  | [] => [(start, first)]
  | v :: vs' => (start, v) :: edges_from v vs' first
  end.

Lemma edges_from_spec start vs first :
  edges_from start vs first = combine (start :: vs) (vs ++ [first]).
Proof. revert start; induction vs as [|v vs IH]; intros; simpl; [reflexivity|]. now rewrite IH. Qed.

Lemma edges_eq v vs : edges (v :: vs) = edges_from v vs v.
Proof. unfold edges, rot1. now rewrite edges_from_spec. Qed.

Lemma contour_from_half x y : forall vs start first,
  Forall (fun e => on_seg (x, y) (fst e) (snd e) = false) (edges_from start vs first) ->
  Forall offb (contour_isects_from x y start vs first) /\
  zsum (map half_weight (contour_isects_from x y start vs first)) =
  2 * zsum (map (fun e => edge_w (x, y) (fst e) (snd e)) (edges_from start vs first))
  - phi (x, y) start + phi (x, y) first.
Proof.
  induction vs as [|v vs IH]; intros [sx sy] [fx fy] Hon;
    cbn [contour_isects_from edges_from] in *.
  - inversion Hon as [|? ? H1 _]; subst. cbn [fst snd] in H1.
    destruct (seg_half x y sx sy fx fy H1) as [G S].
    split; [exact G|]. rewrite S. cbn [map fst snd]. rewrite zsum_cons. cbn [zsum fold_right]. lia.
  - destruct v as [vx vy].
    inversion Hon as [|? ? H1 Hon']; subst. cbn [fst snd] in H1.
    destruct (seg_half x y sx sy vx vy H1) as [G S].
    destruct (IH (vx, vy) (fx, fy) Hon') as [G' S'].
    split.
    + apply Forall_app; split; assumption.
    + rewrite map_app, zsum_app, S, S'. cbn [map fst snd]. rewrite zsum_cons. lia.
Qed.

Lemma contour_half x y c :
  on_boundary_contour c (x, y) = false ->
  windings_go (sort_isects (contour_isects x y c)) 0 false = Some (wn_contour c (x, y), false).
Proof.
  intros Hb. destruct c as [|v vs].
  - reflexivity.
  - unfold on_boundary_contour in Hb. rewrite edges_eq in Hb.
    assert (Hon : Forall (fun e => on_seg (x, y) (fst e) (snd e) = false) (edges_from v vs v)).
    { apply Forall_forall. intros e He.
      destruct (on_seg (x, y) (fst e) (snd e)) eqn:E; auto.
      assert (existsb (fun e => on_seg (x, y) (fst e) (snd e)) (edges_from v vs v) = true)
        by (apply existsb_exists; exists e; auto). congruence. }
    destruct (contour_from_half x y vs v v Hon) as [G S].
    unfold contour_isects, windings_go.
    rewrite windings_half_off.
    2:{ eapply Permutation_Forall; [apply Permutation_sym, sort_perm | exact G]. }
    rewrite (zsum_perm _ _ (Permutation_map half_weight (sort_perm _))), S.
    unfold wn_contour. rewrite edges_eq.
    f_equal. f_equal.
    set (w := zsum (map (fun e : pt * pt => edge_w (x, y) (fst e) (snd e)) (edges_from v vs v))).
    replace (0 + (2 * w - phi (x, y) v + phi (x, y) v)) with (w * 2) by lia.
    rewrite Z.quot_mul by lia. lia.
Qed.

(** Main theorem: for every polygonal path (closed contours, any number, any orientation, self-intersecting,
    with horizontal edges, repeated vertices or duplicated contours) and every query point that lies on no
    edge, the faithful model of Path.Windings returns the winding number and reports no boundary. *)
Theorem windings_correct P x y :
  on_boundary P (x, y) = false ->
  path_windings P x y 0 false = Some (wn P (x, y), false).
Proof.
  intros Hb.
  assert (G : forall n, path_windings P x y n false = Some (n + wn P (x, y), false)).
  { induction P as [|c P IH]; intros n; simpl.
    - unfold wn; simpl. f_equal. f_equal. lia.
    - simpl in Hb. apply orb_false_iff in Hb as [Hbc HbP].
      rewrite (contour_half x y c Hbc).
      rewrite (IH HbP). unfold wn; simpl. f_equal. f_equal. lia. }
  rewrite G. f_equal.
Qed.

Theorem contains_correct P x y rule :
  on_boundary P (x, y) = false ->
  contains_go P x y rule = Some (fills rule (wn P (x, y))).
Proof.
  intros Hb. unfold contains_go. now rewrite (windings_correct P x y Hb).
Qed.

(** Boundary half: a record at the start of the ray makes windings report the boundary. *)
Lemma windings_half_bnd zs : forall n b, snd (windings_half zs n b) = b || existsb iT0z zs.
Proof.
  induction zs as [|z zs IH]; intros n b; simpl.
  - now rewrite orb_false_r.
  - destruct (iT0z z); rewrite IH; simpl; [now rewrite orb_true_r | reflexivity].
Qed.

Lemma existsb_perm {A} (f : A -> bool) l1 l2 : Permutation l1 l2 -> existsb f l1 = existsb f l2.
Proof.
  induction 1; simpl; auto.
  - now rewrite IHPermutation.
  - destruct (f x), (f y); reflexivity.
  - congruence.
Qed.

(** a non-horizontal edge through the query point produces a record at the start of the ray *)
Lemma seg_on_reports x y b0x b0y b1x b1y :
  b0y <> b1y -> on_seg (x, y) (b0x, b0y) (b1x, b1y) = true ->
  existsb iT0z (seg_isects x y (b0x, b0y) (b1x, b1y)) = true.
Proof.
  intros Hnh Hon.
  unfold seg_isects, on_seg in *; cbn [fst snd] in *.
  set (s := (b1x - b0x) * (y - b0y) - (b1y - b0y) * (x - b0x)) in *.
  apply andb_true_iff in Hon as [Hon H5]. apply andb_true_iff in Hon as [Hon H4].
  apply andb_true_iff in Hon as [Hon H3]. apply andb_true_iff in Hon as [H1 H2].
  apply Z.eqb_eq in H1. apply Z.leb_le in H2, H3, H4, H5.
  replace ((Z.min b0y b1y <=? y) && (y <=? Z.max b0y b1y) && (x <=? Z.max b0x b1x)) with true
    by (symmetry; repeat (apply andb_true_iff; split); apply Z.leb_le; lia).
  cbn [negb].
  replace ((b0x =? b1x) && (b0y =? b1y)) with false
    by (symmetry; apply andb_false_iff; right; apply Z.eqb_neq; lia).
  replace (b1y - b0y =? 0) with false by (symmetry; apply Z.eqb_neq; lia).
  destruct ((x =? b1x) && (y =? b1y)); [reflexivity|].
  destruct (b1y - b0y <? 0) eqn:Hneg; [apply Z.ltb_lt in Hneg | apply Z.ltb_ge in Hneg].
  - replace (x * - (b1y - b0y) <=? - (b0x * (b1y - b0y) + (b1x - b0x) * (y - b0y))) with true
      by (symmetry; apply Z.leb_le; subst s; nia).
    cbn. rewrite orb_false_r. apply Z.eqb_eq. subst s; nia.
  - replace (x * (b1y - b0y) <=? b0x * (b1y - b0y) + (b1x - b0x) * (y - b0y)) with true
      by (symmetry; apply Z.leb_le; subst s; nia).
    cbn. rewrite orb_false_r. apply Z.eqb_eq. subst s; nia.
Qed.

(* ---------------------------------------------------------------- symmetries of the spec *)

Lemma edge_w_translate p a b dx dy_ :
  edge_w (fst p + dx, snd p + dy_) (fst a + dx, snd a + dy_) (fst b + dx, snd b + dy_) = edge_w p a b.
Proof.
  destruct p as [px py], a as [ax ay], b as [bx by_]; unfold edge_w; cbn [fst snd].
  replace ((bx + dx - (ax + dx)) * (py + dy_ - (ay + dy_)) - (by_ + dy_ - (ay + dy_)) * (px + dx - (ax + dx)))
    with ((bx - ax) * (py - ay) - (by_ - ay) * (px - ax)) by ring.
  set (s := (bx - ax) * (py - ay) - (by_ - ay) * (px - ax)).
  bd; lia.
Qed.

(** reversing an edge negates its contribution, as long as the ray does not pass exactly through an
    endpoint level (where the half-open rule assigns the level to one side) *)
Lemma edge_w_reverse p a b : snd p <> snd a -> snd p <> snd b -> edge_w p b a = - edge_w p a b.
Proof.
  destruct p as [px py], a as [ax ay], b as [bx by_]; unfold edge_w; cbn [fst snd]; intros Ha Hb.
  replace ((ax - bx) * (py - by_) - (ay - by_) * (px - bx)) with (- ((bx - ax) * (py - ay) - (by_ - ay) * (px - ax))) by ring.
  set (s := (bx - ax) * (py - ay) - (by_ - ay) * (px - ax)).
  bd; lia.
Qed.

Lemma fills_01 w : (w = 0 \/ w = 1) -> fills 0 w = fills 1 w /\ fills 0 w = fills 2 w.
Proof. intros [->| ->]; split; reflexivity. Qed.

Lemma path_windings_oc_closed P x y : forall n b,
  path_windings_oc (map (fun c => (true, c)) P) x y n b = path_windings P x y n b.
Proof.
  induction P as [|c P IH]; intros n b; simpl; [reflexivity|].
  destruct (windings_go (sort_isects (contour_isects x y c)) 0 false) as [[ni [|]]|]; auto.
Qed.

(* non-vacuity: a ray level with two vertices and a horizontal edge on the ray *)
Example vertex_level_example :
  let P := [[(1, 4); (6, 2); (5, 5); (3, 6); (4, 4)]] in
  on_boundary P (0, 4) = false /\ path_windings P 0 4 0 false = Some (0, false) /\ wn P (0, 4) = 0.
Proof. vm_compute. auto. Qed.

(* ---------------------------------------------------------------- boundary points are reported *)

Lemma seg_on_reports_horiz x y b0x b0y b1x :
  b0x <> b1x -> on_seg (x, y) (b0x, b0y) (b1x, b0y) = true ->
  existsb iT0z (seg_isects x y (b0x, b0y) (b1x, b0y)) = true.
Proof.
  unfold seg_isects, on_seg, interval, mk_overlap, t1_of_ratio; cbn [fst snd].
  rewrite !Z.sub_diag, !Z.mul_0_l, !Z.sub_0_r.
  intros Hne Hon.
  bd.
  all: try discriminate.
  all: cbn; bd; auto.
Qed.

Lemma seg_on_reports_any x y a b :
  a <> b -> on_seg (x, y) a b = true -> existsb iT0z (seg_isects x y a b) = true.
Proof.
  destruct a as [ax ay], b as [bx by_]. intros Hne Hon.
  destruct (Z.eq_dec ay by_) as [->|Hy].
  - apply seg_on_reports_horiz; auto. intro; subst; auto.
  - apply seg_on_reports; auto.
Qed.

(** a zero-length edge a = a through the query point: then the point is the vertex a, which is also an
    endpoint of the neighbouring edges; contours produced by the path builder have no zero-length edges, so
    the boundary theorem assumes [no_zero_edges]. *)
Definition no_zero_edges (es : list (pt * pt)) : Prop := Forall (fun e => fst e <> snd e) es.

Lemma contour_from_reports x y : forall vs start first,
  no_zero_edges (edges_from start vs first) ->
  existsb (fun e => on_seg (x, y) (fst e) (snd e)) (edges_from start vs first) = true ->
  existsb iT0z (contour_isects_from x y start vs first) = true.
Proof.
  induction vs as [|v vs IH]; intros start first Hnz Hex; cbn [contour_isects_from edges_from] in *.
  - inversion Hnz as [|? ? Hne _]; subst. cbn [existsb fst snd] in Hex. rewrite orb_false_r in Hex.
    apply seg_on_reports_any; auto.
  - inversion Hnz as [|? ? Hne Hnz']; subst. cbn [existsb fst snd] in Hex.
    rewrite existsb_app. apply orb_true_iff in Hex as [Hex|Hex].
    + rewrite (seg_on_reports_any x y start v Hne Hex). reflexivity.
    + rewrite (IH v first Hnz' Hex). apply orb_true_r.
Qed.

Lemma contour_boundary x y c :
  no_zero_edges (edges c) -> on_boundary_contour c (x, y) = true ->
  exists n, windings_go (sort_isects (contour_isects x y c)) 0 false = Some (n, true).
Proof.
  intros Hnz Hb. destruct c as [|v vs]; [discriminate|].
  unfold on_boundary_contour in Hb. rewrite edges_eq in *.
  pose proof (contour_from_reports x y vs v v Hnz Hb) as Hex.
  unfold windings_go, contour_isects.
  destruct (windings_half (sort_isects (contour_isects_from x y v vs v)) 0 false) as [h b] eqn:E.
  exists (0 + Z.quot h 2). f_equal. f_equal.
  pose proof (windings_half_bnd (sort_isects (contour_isects_from x y v vs v)) 0 false) as Hs.
  rewrite E in Hs. cbn [snd orb] in Hs. rewrite Hs.
  rewrite (existsb_perm iT0z _ _ (sort_perm _)). exact Hex.
Qed.

Lemma path_windings_bnd_mono P x y : forall n, exists m, path_windings P x y n true = Some (m, true).
Proof.
  induction P as [|c P IH]; intros n; simpl.
  - eauto.
  - unfold windings_go. destruct (windings_half _ 0 false) as [h [|]]; apply IH.
Qed.

(** If the query point lies on an edge, Windings reports the boundary. *)
Theorem windings_boundary P x y :
  Forall (fun c => no_zero_edges (edges c)) P -> on_boundary P (x, y) = true ->
  exists m, path_windings P x y 0 false = Some (m, true).
Proof.
  intros Hnz.
  assert (G : forall n, on_boundary P (x, y) = true -> exists m, path_windings P x y n false = Some (m, true)).
  { induction P as [|c P IH]; intros n Hb; [discriminate|].
    inversion Hnz as [|? ? Hc HP]; subst.
    cbn [on_boundary existsb] in Hb. cbn [path_windings].
    destruct (on_boundary_contour c (x, y)) eqn:Ec.
    - destruct (contour_boundary x y c Hc Ec) as [k Hk]. rewrite Hk. apply path_windings_bnd_mono.
    - cbn [orb] in Hb. rewrite (contour_half x y c Ec). apply (IH HP). exact Hb. }
  apply G.
Qed.

"""C12 — SVG, PDF and PostScript output encode the drawing the rasteriser renders."""
import json, os
import vlib

META = dict(
    level="proof",
    technique="Coq proofs over state-machine models of the PDF page writer (full) and the PostScript writer (colour cache) with format "
              "interpreters; tie on the REAL output: random drawing programs recorded on a Canvas, rendered by the PDF (uncompressed), "
              "PS and SVG back-ends, tokenised and (K1) compared with the model writers' token streams, (K2) interpreted by exec_pdf/exec_ps and "
              "compared with the paint operations of the recorded layers incl. reference stroke outlines (vm_compute)",
    level_text="Theorems (Coq, closed): for every sequence of styled draws the PDF writer's output, interpreted from the PDF initial graphics "
               "state, yields exactly the requested paint operations in order (cache transparency + paint order) — refuted for the writer at "
               "the pinned commit (stale alpha, S*), full after the fixes; the same for the PostScript writer with all five caches (colour, width, cap, join + miter limit, dashes; gsave/grestore around the fill) after the fix, colour cache refuted before; "
               "similarities scale all distances by k, the SVG flip is an isometry, fallback condition, unit conversions.",
    level_note="Partial: the SVG back-end has no writer model (it keeps no state): its <path> elements are interpreted (exec_svg, SVG 1.1 defaults) and judged against the layers, property flags only; gradients, patterns, images, "
               "text and opacity groups are not interpreted; paths "
               "with M/L/C/Z only (arcs and quadratics go through the library's own conversions). PostScript has no alpha (documented) and "
               "the PS back-end writes millimetres as PostScript units (known finding).",
    harness=["c12"],
)

HEADER = ("From Coq Require Import QArith ZArith List Bool.\nFrom CV Require Import Base.Dy Render.Sem Render.GState Render.Backends Corr.C12.\n"
          "Import ListNotations.\nOpen Scope Q_scope.\n")

TIE = {1: "tie:operator tokens != model writer", 512: "harness could not read the output"}
PROP = {2: "prop:number/order of paint operations", 4: "prop:geometry", 8: "prop:stroke parameters", 16: "prop:colour", 32: "prop:alpha",
        64: "prop:invalid operator / wrong kind of paint operation"}


def names(tbl, fl):
    return [n for b, n in tbl.items() if fl & b]


def run(ctx):
    pr, obligations, discharged = vlib.proof_stage(ctx, ["theories/Corr/C12.vo"])
    if pr["broken"] or not pr["ok"]:
        ctx.violation(dict(kind="proof-obligation-broken", theorem_or_file=pr["broken"], bad_axioms=pr["bad_axioms"], log=pr["log"][-2000:]),
                      "proof obligation no longer checks: %s" % (pr["broken"] or pr["bad_axioms"]), found_input=False)
    nprog = ctx.n(140, 1500)
    args = ["-seed", str(ctx.seed), "-n", str(nprog)]
    if ctx.replay:
        rp = json.load(open(ctx.replay))
        args = ["-seed", str(rp.get("seed", ctx.seed)), "-n", str(rp.get("index", 0) + 1), "-only", str(rp.get("index", 0))]
    rc, cases, err = vlib.harness_cases("c12", args, timeout=3000)
    if rc != 0 or not cases:
        ctx.violation(dict(kind="harness-run-failed", rc=rc, stderr=err[-2000:], correspondence="harness/cmd/c12"), "harness run failed", found_input=False)
        cases = []
    rows = vlib.coq_eval_shards("c12-%d" % ctx.seed, HEADER, [c["coq"] for c in cases], shard=6) if cases else []
    flagcount, prop_fail, tie_fail = {}, [], []
    nops = ndraws = nfallback = with_gs = 0
    distinct = set()
    stroke_panics = []
    for c, row in zip(cases, rows):
        tie, prop, no, nd, nf, info = row[:6]
        nops += no
        ndraws += nd
        nfallback += nf
        with_gs += 1 if (c["fam"] == "pdf" and info & 1) else 0
        if c["fam"] == "svg" and "reference outline holds arcs" in str(c["desc"].get("harness_error") or ""):
            continue   # the outline oracle is not available for this program (counted in flag_counts as harness error)
        distinct.add((c["fam"], json.dumps(c["desc"]["layers"])))
        for n in names(TIE, tie) + names(PROP, prop):
            flagcount[c["fam"] + " " + n] = flagcount.get(c["fam"] + " " + n, 0) + 1
        he = str(c["desc"].get("harness_error") or "")
        if "path has NaN or Inf" in he:
            stroke_panics.append((c, he))
            continue
        if prop:
            prop_fail.append((c, tie, prop))
        elif tie:
            tie_fail.append((c, tie, prop))

    def describe(c, tie, prop):
        return dict(seed=ctx.seed, index=c["i"], backend=c["fam"], flags=names(TIE, tie) + names(PROP, prop),
                    layers=c["desc"]["layers"], operators=str(c["desc"].get("operators"))[:3000], harness_error=c["desc"].get("harness_error"))

    # the PostScript back-end writes canvas millimetres as PostScript units (1/72 inch) without a scale: every PS output
    known = {f["key"]: f for f in vlib.known_findings("C12") if f.get("status") == "open"}
    if any(c["fam"] == "ps" for c in cases) and "ps-millimetres-written-as-points" in known:
        ctx.known_finding(known["ps-millimetres-written-as-points"]["what"] + "; every PS output, e.g. a 100x80 mm canvas has BoundingBox 0 0 100 80")
    if any(c["fam"] == "ps-gradient" for c in cases):
        if "ps-gradients-painted-black" in known:
            ctx.known_finding(known["ps-gradients-painted-black"]["what"] + "; %d PostScript outputs of programs with gradient paints in this run"
                              % sum(1 for c in cases if c["fam"] == "ps-gradient"))
        else:
            c0 = [c for c in cases if c["fam"] == "ps-gradient"][0]
            ctx.violation(dict(kind="property-fails-on-implementation", **describe(c0, 0, 0)), "PS output of a program with gradient paints: the gradient is not written")
    if stroke_panics:
        if "outline-fallback-stroke-panic-nan-inf" in known:
            ctx.known_finding("%s (%d of %d programs skipped), e.g. %s" % (known["outline-fallback-stroke-panic-nan-inf"]["what"],
                              len(stroke_panics), len(cases), stroke_panics[0][1][:300]))
        else:
            c, he = stroke_panics[0]
            ctx.violation(dict(kind="property-fails-on-implementation", **describe(c, 0, 0)), "Path.Stroke panics in the outline fallback: %s" % he[:200])
    prop_fail.sort(key=lambda t: len(t[0]["coq"]))
    for c, tie, prop in prop_fail[:3]:
        ctx.violation(dict(kind="property-fails-on-implementation", **describe(c, tie, prop)), "%s (%s)" % (",".join(names(PROP, prop)), c["fam"]))
    if not prop_fail and tie_fail:
        tie_fail.sort(key=lambda t: len(t[0]["coq"]))
        c, tie, prop = tie_fail[0]
        ctx.violation(dict(kind="correspondence-broken", correspondence="Corr.C12.judge (pdf_write / ps_write vs the operators Go wrote)",
                           searched="%d programs judged by exec_pdf/exec_ps against the layers: none violates the property" % len(cases),
                           **describe(c, tie, prop)), "model/implementation disagree: %s" % ",".join(names(TIE, tie)), found_input=False)
    cov = dict(
        obligations=obligations, discharged=discharged,
        checker_cmd="make -C coq theories/Props/C12.vo (coqc 8.16.1, full .vo) ; coqc on generated cases files (vm_compute)",
        trusted_base=vlib.trusted_base(pr, [
            "correspondence harness harness/cmd/c12 (Go): recording renderer, PDF content-stream and PostScript tokenisers (decimal -> Q), ExtGState lookup, "
            "reference outline = Path.Dash/Stroke/Transform/ReplaceArcs following rasterizer.go (C04/C05/C07 cover those functions)",
            "models written by hand: Render/{Sem,GState,Backends}.v (tied by the differential run, not proved against Go source)",
            "comparison slack: absolute 1e-7 + relative 1e-7 (8-decimal printing, page matrix 2.8346457: C12_printed_scale_error)"]),
        evaluations=len(cases), distinct_nontrivial=len(distinct), distinct=len(distinct),
        rule="one evaluation = one drawing program rendered by one back-end, tokenised and judged; distinct by (back-end, recorded layers); every program has "
             "at least one layer",
        programs=len(cases), paint_operations_judged=nops, layers=ndraws, fallback_strokes=nfallback, pdf_programs_with_alpha=with_gs,
        disagreements_checked=len(prop_fail) + len(tie_fail), traces_validated_against_impl=len(cases),
        families=vlib.histogram([c["fam"] for c in cases]), flag_counts=flagcount,
        theorems=pr["theorems"], assumptions_per_theorem=pr["assumptions"],
        samples=[dict(backend=c["fam"], layers=c["desc"]["layers"][:2], operators=str(c["desc"].get("operators"))[:300]) for c in cases[:4]],
    )
    return ctx.finish("proof", cov, [
        "path coordinates on a quarter-millimetre grid, views from exact dyadic / Pythagorean matrices",
        "SVG: elements read back by a regular expression + ParseSVGPath (harness), judged by exec_svg/svg_spec; no tie flag for SVG"])

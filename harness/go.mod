// placeholder that marks the module root; the checks build with -modfile=build/mod-*/go.mod,
// generated from go.mod.tmpl and /repo/go.mod on every run (see lib/vlib.py harness_modfile).
module verifharness

go 1.24.1

(** C17 — Knuth–Plass line breaking: the SPECIFICATION.

    Items (box / glue / penalty), legal breakpoints, running sums, the adjustment ratio, the demerits
    (the formulas and constants of /repo/text/linebreak.go), feasibility of a breaking, its total demerits,
    and a textbook dynamic programme [kp_opt] over (position, fitness class) that neither deactivates nodes
    by ratio nor prunes by [Dmin + DemeritsFitness] nor groups by line number.

    Everything is written once over an abstract number structure [ops num] and instantiated twice:
    with [Q] (exact; all theorems) and with binary64 [PrimFloat] (execution of the faithful model for the
    bit-exact tie with the Go code; no theorem mentions floats).

    Infinity is explicit: the package variable [Infinity] (1000.0) is an ordinary finite number [pInf];
    the true infinities of the Go code ([math.Inf]: initial D/Dmin/nextTolerance/minWidth, a tolerance
    that was relaxed to +Inf, a ratio [negative/0 = -Inf]) are [None] / [NegInf] constructors. *)
From Coq Require Import ZArith List Bool Lia.
Import ListNotations.

Record ops (num : Type) := mkOps {
  nadd : num -> num -> num; nsub : num -> num -> num; nmul : num -> num -> num; ndiv : num -> num -> num;
  nltb : num -> num -> bool; nleb : num -> num -> bool; neqb : num -> num -> bool;
  nofZ : Z -> num }.
Arguments nadd {num}. Arguments nsub {num}. Arguments nmul {num}. Arguments ndiv {num}.
Arguments nltb {num}. Arguments nleb {num}. Arguments neqb {num}. Arguments nofZ {num}.

Inductive ity := TBox | TGlue | TPen.

Record item (num : Type) := mkItem { ikind : ity; iw : num; iy : num; iz : num; ip : num; ifl : bool }.
Arguments mkItem {num}. Arguments ikind {num}. Arguments iw {num}. Arguments iy {num}.
Arguments iz {num}. Arguments ip {num}. Arguments ifl {num}.

(** the global tuning variables of the package that Linebreak reads *)
Record params (num : Type) := mkParams { pTol : num; pDLine : num; pDFlag : num; pDFit : num; pInf : num }.
Arguments mkParams {num}. Arguments pTol {num}. Arguments pDLine {num}. Arguments pDFlag {num}.
Arguments pDFit {num}. Arguments pInf {num}.

(** an adjustment ratio: [-Inf] (overfull line without shrink) or a number *)
Inductive xr (num : Type) := NegInf | Fin (r : num).
Arguments NegInf {num}. Arguments Fin {num}.

Definition is_box {num} (it : item num) := match ikind it with TBox => true | _ => false end.
Definition is_glue {num} (it : item num) := match ikind it with TGlue => true | _ => false end.
Definition is_pen {num} (it : item num) := match ikind it with TPen => true | _ => false end.

Section Spec.
Context {num : Type} (O : ops num) (P : params num).

Definition n0 := nofZ O 0.
Definition n1 := nofZ O 1.
Definition nm1 := nofZ O (-1).
Definition n100 := nofZ O 100.
Definition n1000 := nofZ O 1000.
Definition nhalf := ndiv O n1 (nofZ O 2).
Definition nopp (x : num) := nsub O n0 x.
Definition nmhalf := nopp nhalf.
Definition nabs (x : num) := if nltb O x n0 then nopp x else x.
Definition nmin (a b : num) := if nltb O b a then b else a.     (* math.Min on finite non-NaN values *)
Definition npow2 (x : num) := nmul O x x.                       (* math.Pow(x,2): one rounded product *)
Definition npow3 (x : num) := nmul O x (nmul O x x).            (* math.Pow(x,3): rnd(x*rnd(x*x)) *)

Definition tri := (num * num * num)%type.
Definition t0 : tri := (n0, n0, n0).
Definition tW (t : tri) := fst (fst t).
Definition tY (t : tri) := snd (fst t).
Definition tZ (t : tri) := snd t.

(** forced break: [item.Type == PenaltyType && item.Penalty <= -Infinity] *)
Definition forced (it : item num) : bool := is_pen it && nleb O (ip it) (nopp (pInf P)).

Definition forced_at (items : list (item num)) (k : nat) : bool :=
  match nth_error items k with Some it => forced it | None => false end.

(** legal breakpoint: a penalty below +Infinity, or glue that directly follows a box and does not directly
    precede a penalty (the restriction the Go code adds to the original algorithm). Glue that is the last
    item is not a legal breakpoint (the Go code reads items[b+1] and panics there). *)
Definition legal (items : list (item num)) (b : nat) : bool :=
  match nth_error items b with
  | None => false
  | Some it =>
    match ikind it with
    | TBox => false
    | TPen => nltb O (ip it) (pInf P)
    | TGlue =>
      match b with
      | 0%nat => false
      | S b' => match nth_error items b', nth_error items (S b) with
                | Some p, Some n => is_box p && negb (is_pen n)
                | _, _ => false
                end
      end
    end
  end.

(** running sums: a box adds its width, glue adds width/stretch/shrink, a penalty adds nothing *)
Definition acc_item (acc : tri) (it : item num) : tri :=
  match ikind it with
  | TBox => (nadd O (tW acc) (iw it), tY acc, tZ acc)
  | TGlue => (nadd O (tW acc) (iw it), nadd O (tY acc) (iy it), nadd O (tZ acc) (iz it))
  | TPen => acc
  end.

Definition pref (items : list (item num)) (k : nat) : tri := fold_left acc_item (firstn k items) t0.

(** computeSum: the sums after a break at b — glue following the break (b itself included) up to the next
    box or the next forced break is discarded *)
Fixpoint csum (l : list (item num)) (first : bool) (acc : tri) : tri :=
  match l with
  | [] => acc
  | it :: l' =>
    match ikind it with
    | TBox => acc
    | TPen => if forced it && negb first then acc else csum l' false acc
    | TGlue => csum l' false (acc_item acc it)
    end
  end.

Definition compute_sum (items : list (item num)) (b : nat) (cur : tri) : tri := csum (skipn b items) true cur.

Definition after_sums (items : list (item num)) (b : nat) : tri := compute_sum items b (pref items b).

(** sums at the start of the line that follows the break [prev] ([None] = start of the paragraph) *)
Definition start_sums (items : list (item num)) (prev : option nat) : tri :=
  match prev with None => t0 | Some a => after_sums items a end.

(** computeAdjustmentRatio. [cur] = sums of items[0..b), [it] = items[b], [st] = sums at the start of the line *)
Definition adj_ratio (width : num) (cur : tri) (it : item num) (st : tri) : xr num :=
  let L0 := nsub O (tW cur) (tW st) in
  let L := if is_pen it then nadd O L0 (iw it) else L0 in
  if nltb O L width then
    let dY := nsub O (tY cur) (tY st) in
    if neqb O dY n0 then Fin (nmul O (pInf P) (nadd O n1 (ndiv O (nsub O width L) width)))
    else Fin (nmin (ndiv O (nsub O width L) dY) (pInf P))
  else if nltb O width L then
    let dZ := nsub O (tZ cur) (tZ st) in
    if neqb O dZ n0 then NegInf
    else Fin (nmin (ndiv O (nsub O width L) dZ) (pInf P))
  else Fin (nmin n0 (pInf P)).

(** natural width of the line ending at b (what Linebreak reports as Breakpoint.Width) *)
Definition line_width (cur : tri) (it : item num) (st : tri) : num :=
  let wd := if is_pen it then nadd O (tW cur) (iw it) else tW cur in nsub O wd (tW st).

Definition fitness (r : num) : nat :=
  if nltb O r nmhalf then 0%nat else if nleb O r nhalf then 1%nat else if nleb O r n1 then 2%nat else 3%nat.

Definition far_class (c f : nat) : bool := (1 <? (Nat.max c f - Nat.min c f))%nat.

(** demerits of one line (without the demerits of the lines before it), and its fitness class *)
Definition line_dem (it : item num) (r : num) (prevflag : bool) (prevfit : nat) : num * nat :=
  let badness := nmul O n100 (npow3 (nabs r)) in
  let base :=
    if is_pen it && nleb O n0 (ip it) then npow2 (nadd O (nadd O (pDLine P) badness) (ip it))
    else if is_pen it && nltb O (nopp (pInf P)) (ip it) then nsub O (npow2 (nadd O (pDLine P) badness)) (npow2 (ip it))
    else npow2 (nadd O (pDLine P) badness) in
  let d1 := if prevflag && ifl it then nadd O base (pDFlag P) else base in
  let c := fitness r in
  let d2 := if far_class c prevfit then nadd O d1 (pDFit P) else d1 in
  (d2, c).

(** upper limits of the stretch: [None] = +Inf *)
Definition tol_leb (x : num) (tol : option num) : bool := match tol with None => true | Some t => nleb O x t end.
Definition tol_ltb (tol : option num) (x : num) : bool := match tol with None => false | Some t => nltb O t x end.

(** a line is feasible at tolerance [tol] when -1 <= ratio <= tol *)
Definition feas_tol (tol : option num) (r : xr num) : bool :=
  match r with NegInf => false | Fin x => nleb O nm1 x && tol_leb x tol end.

(** ------------------------------------------------------------------------------------------------
    Breakings. A chain is the list of break positions, most recent first; [] is the start. *)
Section Breaking.
Variable items : list (item num).
Variable width : num.
Variable feas : xr num -> bool.       (* which ratios are allowed *)

Definition prev_lt (prev : option nat) (i : nat) : bool :=
  match prev with None => true | Some a => (a <? i)%nat end.

(** is there a forced break at an index i with prev < i < b ? *)
Fixpoint forced_between (prev : option nat) (b : nat) : bool :=
  match b with
  | 0%nat => false
  | S b' => if prev_lt prev b' then forced_at items b' || forced_between prev b' else false
  end.

(** the break before the first line is not flagged (textbook). *)
Definition prev_flag (prev : option nat) : bool :=
  match prev with
  | None => false
  | Some a => match nth_error items a with Some it => ifl it | None => false end
  end.

Definition line_ratio (prev : option nat) (b : nat) (it : item num) : xr num :=
  adj_ratio width (pref items b) it (start_sums items prev).

(** [chain_eval ch = Some (c, d)]: ch is a sequence of legal breakpoints, strictly increasing, that skips no
    forced break, every line of it is feasible; its last line has fitness class c and its total demerits are d *)
Fixpoint chain_eval (ch : list nat) : option (nat * num) :=
  match ch with
  | [] => Some (1%nat, n0)
  | b :: rest =>
    match chain_eval rest with
    | None => None
    | Some (f0, d0) =>
      let prev := hd_error rest in
      match nth_error items b with
      | None => None
      | Some it =>
        if legal items b && prev_lt prev b && negb (forced_between prev b) then
          let r := line_ratio prev b it in
          if feas r then
            match r with
            | NegInf => None
            | Fin x => let '(dl, c) := line_dem it x (prev_flag prev) f0 in Some (c, nadd O dl d0)
            end
          else None
        else None
      end
    end
  end.

(** a complete breaking ends at the last item *)
Definition complete (ch : list nat) : bool :=
  match hd_error ch with Some b => (S b =? length items)%nat | None => false end.

(** ------------------------------------------------------------------------------------------------
    The dynamic programme. *)
Record entry := mkEntry { eChain : list nat; eFit : nat; eDem : num; eSums : tri }.

Definition root_entry : entry := mkEntry [] 1%nat n0 t0.

Definition cand (it : item num) (cur : tri) (e : entry) : option (nat * num) :=
  let r := adj_ratio width cur it (eSums e) in
  if feas r then
    match r with
    | NegInf => None
    | Fin x => let '(dl, c) := line_dem it x (prev_flag (hd_error (eChain e))) (eFit e) in Some (c, nadd O dl (eDem e))
    end
  else None.

(** the cheapest candidate of class c (the first one among equals) *)
Fixpoint min_by (it : item num) (cur : tri) (c : nat) (T : list entry) (best : option (num * entry)) : option (num * entry) :=
  match T with
  | [] => best
  | e :: T' =>
    let best' :=
      match cand it cur e with
      | Some (c', d) =>
        if (c' =? c)%nat then
          match best with
          | None => Some (d, e)
          | Some (d0, _) => if nltb O d d0 then Some (d, e) else best
          end
        else best
      | None => best
      end in
    min_by it cur c T' best'
  end.

Definition new_entries (b : nat) (it : item num) (cur : tri) (T : list entry) : list entry :=
  flat_map (fun c => match min_by it cur c T None with
                     | Some (d, e) => [mkEntry (b :: eChain e) c d (compute_sum items b cur)]
                     | None => []
                     end) [0; 1; 2; 3]%nat.

Definition dp_step (b : nat) (it : item num) (cur : tri) (T : list entry) : list entry :=
  let new := if legal items b then new_entries b it cur T else [] in
  if forced it then new else T ++ new.

Fixpoint dp (l : list (item num)) (b : nat) (cur : tri) (T : list entry) : list entry :=
  match l with
  | [] => T
  | it :: l' => dp l' (S b) (acc_item cur it) (dp_step b it cur T)
  end.

Fixpoint min_entry (T : list entry) (best : option entry) : option entry :=
  match T with
  | [] => best
  | e :: T' =>
    let best' := if complete (eChain e) then
                   match best with
                   | None => Some e
                   | Some e0 => if nltb O (eDem e) (eDem e0) then Some e else best
                   end
                 else best in
    min_entry T' best'
  end.

(** [kp_opt = Some (d, ch)]: ch (most recent break first) is a complete feasible breaking of minimal total
    demerits d; [None]: no complete feasible breaking exists. *)
Definition kp_opt : option (num * list nat) :=
  match min_entry (dp items 0 t0 [root_entry]) None with
  | Some e => Some (eDem e, eChain e)
  | None => None
  end.

End Breaking.
End Spec.

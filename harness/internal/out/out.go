// Package out writes one JSON line per generated case: the Gallina term handed to the Coq judge, a
// human-readable description (the replay), and classification tags for the input-distribution report.
package out

import (
	"bufio"
	"encoding/json"
	"os"
)

type Case struct {
	I    int         `json:"i"`
	Fam  string      `json:"fam"`
	Coq  string      `json:"coq"`
	Desc interface{} `json:"desc"`
	Tags []string    `json:"tags,omitempty"`
}

type W struct {
	w   *bufio.Writer
	enc *json.Encoder
}

// New writes to the file named by $VERIF_OUT (so that anything the code under test prints to stdout cannot
// corrupt the case stream), or to stdout when it is unset.
func New() *W {
	f := os.Stdout
	if p := os.Getenv("VERIF_OUT"); p != "" {
		var err error
		f, err = os.Create(p)
		if err != nil {
			panic(err)
		}
	}
	w := bufio.NewWriterSize(f, 1<<20)
	e := json.NewEncoder(w)
	e.SetEscapeHTML(false)
	return &W{w, e}
}

func (o *W) Emit(c Case) { o.enc.Encode(c) }
func (o *W) Close()      { o.w.Flush() }

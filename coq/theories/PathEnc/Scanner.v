(** Raw-slice walkers, exactly as the Go loops index [p.d] (forward data, explicit indices):

    forward  (Sane, Len, Coords, Bounds, Length, Transform, Split, String/ToSVG/ToPS/ToPDF, PathScanner):
        for i := 0; i < len(d); { cmd := d[i]; i += cmdLen(cmd); ... d[i-3], d[i-2] ... }
    backward (StartPos, Reverse, PathReverseScanner):
        for i := len(d); 0 < i; { cmd := d[i-1]; i -= cmdLen(cmd); ... d[i] (the leading command), d[i+cmdLen-3], d[i+cmdLen-2] ... }

    A read outside the slice is reported as [WOutOfRange] (Go: index out of range panic), a cell read as a
    command that is not a command value as [WBadCmd]; [WDone count final] = the loop ended normally after
    [count] records with final index [final].  Fuel = len(d)+1 suffices because every step moves by >= 4
    ([WFuel] is never returned: theorem walk_*_total in ScannerProofs.v for well-formed data). *)
From Coq Require Import ZArith QArith List Bool Lia.
From CV Require Import PathEnc.Enc.
Import ListNotations.

Inductive wres :=
| WDone (count final : nat)
| WOutOfRange (i : Z)
| WBadCmd (i : nat)
| WFuel.

Definition inrange (d : list num) (i : Z) : bool := ((0 <=? i) && (i <? Z.of_nat (length d)))%Z.

Fixpoint walk_fwd_from (fuel : nat) (d : list num) (i count : nat) : wres :=
  match fuel with
  | O => WFuel
  | S f =>
    if (length d <=? i)%nat then WDone count i
    else match nth_error d i with
         | None => WOutOfRange (Z.of_nat i)
         | Some c =>
           match cmdLen c with
           | None => WBadCmd i
           | Some l =>
             let i' := (i + l)%nat in
             if inrange d (Z.of_nat i' - 3) && inrange d (Z.of_nat i' - 2)     (* d[i-3], d[i-2] *)
             then walk_fwd_from f d i' (S count)
             else WOutOfRange (Z.of_nat i' - 2)
           end
         end
  end.

Definition walk_fwd (d : list num) : wres := walk_fwd_from (S (length d)) d 0 0.

Fixpoint walk_bwd_from (fuel : nat) (d : list num) (i count : nat) : wres :=
  match fuel with
  | O => WFuel
  | S f =>
    match i with
    | O => WDone count 0
    | S i1 =>                                                   (* 0 < i *)
      match nth_error d i1 with                                 (* d[i-1] *)
      | None => WOutOfRange (Z.of_nat i1)
      | Some c =>
        match cmdLen c with
        | None => WBadCmd i1
        | Some l =>
          if inrange d (Z.of_nat i - 3) && inrange d (Z.of_nat i - 2)          (* end point d[i-3], d[i-2] *)
          then if (l <=? i)%nat
               then walk_bwd_from f d (i - l) (S count)          (* then d[i] is read: in range since i-l >= 0 and < len *)
               else WOutOfRange (Z.of_nat i - Z.of_nat l)        (* PathReverseScanner.Cmd reads d[i] with i < 0 *)
          else WOutOfRange (Z.of_nat i - 3)
        end
      end
    end
  end.

Definition walk_bwd (d : list num) : wres := walk_bwd_from (S (length d)) d (length d) 0.

(** C05 — witnesses on the faithful model of the UNCHANGED tree (c5c8c72): the defects the check found.
    Each is closed by vm_compute on a concrete input that was replayed on the Go code (design/C05.md). *)
From Coq Require Import ZArith QArith List Bool.
From CV Require Import Dash.DashPhase.
Import ListNotations.
Open Scope Q_scope.

Definition go_eps : Q := 7737125245533627 # (2 ^ 86).   (* float64(1e-10) *)

(** dashStart with offset < -period returns a positive start position: M0 0L20 0 dashed [2,1] at offset -4
    is drawn on [0,3) although position 0 is in a gap (offset -1 correctly starts at 1). *)
Lemma dash_start_negative_refuted_v0 :
  exists off d L s, allpos d /\ 0 <= s /\ s + go_eps < L /\
    dres_sel (dash_model_v0 go_eps off d L) s <> on d off s.
Proof.
  exists (-4), [2; 1], 20, 0. split; [|split; [|split]].
  - repeat constructor.
  - discriminate.
  - reflexivity.
  - vm_compute. discriminate.
Qed.

(** checkDash: sign error in [length <= d[i]-pos]: offset 5, [10,10], length 8: DrawPath strokes the whole path,
    Dash draws [0,5) only. *)
Lemma check_dash_agrees_refuted_v0_sign :
  exists off d L s, allpos d /\ 0 <= s /\ s + go_eps < L /\
    drawpath_sel_v0 go_eps off d L L s <> dres_sel (dash_model_v0 go_eps off d L) s.
Proof.
  exists 5, [10; 10], 8, 6. split; [|split; [|split]].
  - repeat constructor.
  - discriminate.
  - reflexivity.
  - vm_compute. discriminate.
Qed.

(** checkDash: parity taken on the un-doubled odd pattern: offset 4, [3], length 1: DrawPath strokes, Dash draws nothing *)
Lemma check_dash_agrees_refuted_v0_parity :
  exists off d L s, allpos d /\ 0 <= s /\ s + go_eps < L /\
    drawpath_sel_v0 go_eps off d L L s <> dres_sel (dash_model_v0 go_eps off d L) s.
Proof.
  exists 4, [3], 1, (1 # 2). split; [|split; [|split]].
  - repeat constructor.
  - discriminate.
  - reflexivity.
  - vm_compute. discriminate.
Qed.

(** checkDash returns the canonical array but DrawPath keeps the original offset: offset 0, [0,1,2], length 20 *)
Lemma check_dash_agrees_refuted_v0_offset :
  exists off d L s, nonneg d /\ 0 <= s /\ s + go_eps < L /\
    drawpath_sel_v0 go_eps off d L L s <> dres_sel (dash_model_v0 go_eps off d L) s.
Proof.
  exists 0, [0; 1; 2], 20, (1 # 2). split; [|split; [|split]].
  - repeat constructor; discriminate.
  - discriminate.
  - reflexivity.
  - vm_compute. discriminate.
Qed.

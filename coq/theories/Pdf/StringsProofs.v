(** Proofs about PDF strings (C13): literal-string round trip through the specification reader, text-string
    round trip (UTF-16BE / PDFDocEncoding), and the refutation witness for the writer before the fix. *)
From Coq Require Import ZArith List Bool Lia.
From CV Require Import Pdf.Strings.
Import ListNotations.
Open Scope Z_scope.

(* ------------------------------------------------------------------------------------------------ *)
(** * Literal strings *)

Lemma eqb_f : forall a b, a <> b -> (a =? b) = false.
Proof. intros a b H. apply Z.eqb_neq. exact H. Qed.

(** a byte that the reader copies unchanged *)
Lemma rd_plain : forall d c t, c <> 92 -> c <> 40 -> c <> 41 -> c <> 13 ->
  rd d (c :: t) = cons' c (rd d t).
Proof.
  intros d c t H1 H2 H3 H4. cbn [rd].
  rewrite (eqb_f _ _ H1), (eqb_f _ _ H2), (eqb_f _ _ H3), (eqb_f _ _ H4). reflexivity.
Qed.

(** backslash followed by a non-octal, non-EOL character *)
Lemma rd_esc : forall d e t, is_oct e = false -> e <> 13 -> e <> 10 ->
  rd d (92 :: e :: t) = cons' (unesc e) (rd d t).
Proof.
  intros d e t Ho H1 H2. cbn [rd]. replace (92 =? 92) with true by reflexivity.
  rewrite Ho, (eqb_f _ _ H1), (eqb_f _ _ H2). reflexivity.
Qed.

Lemma rd_close : forall t, rd 0 (41 :: t) = Some ([], t).
Proof. intros t. reflexivity. Qed.

(** the condition under which a byte survives: with the CR escape every byte does, without it every byte but CR *)
Definition safe (cr : bool) (c : Z) : Prop := cr = true \/ c <> 13.

Lemma rd_esc_byte : forall cr c t, safe cr c ->
  rd 0 (esc cr c ++ t) = cons' c (rd 0 t).
Proof.
  intros cr c t Hs. unfold esc.
  destruct (c =? 92) eqn:E92.
  { apply Z.eqb_eq in E92. subst c. cbn [app]. rewrite rd_esc by (try reflexivity; lia). reflexivity. }
  destruct (c =? 40) eqn:E40.
  { apply Z.eqb_eq in E40. subst c. cbn [app]. rewrite rd_esc by (try reflexivity; lia). reflexivity. }
  destruct (c =? 41) eqn:E41.
  { apply Z.eqb_eq in E41. subst c. cbn [app]. rewrite rd_esc by (try reflexivity; lia). reflexivity. }
  apply Z.eqb_neq in E92. apply Z.eqb_neq in E40. apply Z.eqb_neq in E41.
  destruct (c =? 13) eqn:E13.
  - apply Z.eqb_eq in E13. subst c. destruct Hs as [Hs | Hs]; [| contradiction].
    subst cr. cbn [andb app]. rewrite rd_esc by (try reflexivity; lia). reflexivity.
  - apply Z.eqb_neq in E13. rewrite andb_false_r. cbn [app]. apply rd_plain; assumption.
Qed.

Lemma rd_body : forall cr s rest, Forall (safe cr) s ->
  rd 0 (flat_map (esc cr) s ++ 41 :: rest) = Some (s, rest).
Proof.
  intros cr s rest H. induction H as [| c s Hc Hs IH].
  - cbn [flat_map app]. apply rd_close.
  - cbn [flat_map]. rewrite <- app_assoc. rewrite rd_esc_byte by assumption. rewrite IH. reflexivity.
Qed.

Lemma read_write_gen : forall cr s rest, Forall (safe cr) s ->
  read_literal (write_literal_gen cr s ++ rest) = Some (s, rest).
Proof.
  intros cr s rest H. unfold write_literal_gen, read_literal.
  cbn [app]. replace (40 =? 40) with true by reflexivity.
  rewrite <- app_assoc. cbn [app]. apply rd_body. exact H.
Qed.

(** FULL (current tree): every byte string written as a literal string is read back unchanged by a reader that
    follows the specification, whatever follows the token. *)
Theorem literal_roundtrip : forall s rest, read_literal (write_literal s ++ rest) = Some (s, rest).
Proof.
  intros s rest. apply read_write_gen. apply Forall_forall. intros c _. left. reflexivity.
Qed.

Corollary literal_roundtrip_token : forall s, read_literal_token (write_literal s) = Some s.
Proof.
  intros s. unfold read_literal_token. rewrite <- (app_nil_r (write_literal s)).
  rewrite literal_roundtrip. reflexivity.
Qed.

(** PARTIAL (tree before the fix): round trip for strings without the byte 13 *)
Theorem literal_roundtrip_v0_partial : forall s rest, ~ In 13 s ->
  read_literal (write_literal_v0 s ++ rest) = Some (s, rest).
Proof.
  intros s rest H. apply read_write_gen. apply Forall_forall. intros c Hc. right. intro E. subst c. exact (H Hc).
Qed.

Example literal_roundtrip_v0_partial_sat :   (* UTF-16BE of "(a\" with BOM: parentheses, backslash, LF byte *)
  ~ In 13 [254; 255; 0; 40; 0; 97; 0; 92; 1; 10] /\
  read_literal (write_literal_v0 [254; 255; 0; 40; 0; 97; 0; 92; 1; 10] ++ [32]) = Some ([254; 255; 0; 40; 0; 97; 0; 92; 1; 10], [32]).
Proof. split; [ cbn; lia | vm_compute; reflexivity ]. Qed.

(** REFUTED (tree before the fix): UTF-16BE of U+010D (c with caron) contains the byte 13, which a conforming
    reader normalises to 10, i.e. the title reads back as U+010A. *)
Theorem literal_roundtrip_v0_refuted : exists s,
  read_literal (write_literal_v0 s) <> Some (s, []) /\
  s = encode_text [269] /\
  (match read_literal (write_literal_v0 s) with Some (b, _) => decode_text b | None => None end) = Some [266].
Proof.
  exists [254; 255; 1; 13]. split; [| split].
  - vm_compute. discriminate.
  - vm_compute. reflexivity.
  - vm_compute. reflexivity.
Qed.

(** LF needs no escape: a raw LF is read as LF; CR LF written as "\r" LF is read as CR LF *)
Example crlf_example : read_literal_token (write_literal [97; 13; 10; 98; 10; 13]) = Some [97; 13; 10; 98; 10; 13].
Proof. vm_compute. reflexivity. Qed.

(* ------------------------------------------------------------------------------------------------ *)
(** * Text strings *)

Lemma dec16_bmp : forall c t, 0 <= c < 65536 -> ~ (55296 <= c < 57344) ->
  dec16 (be c ++ t) = ocons c (dec16 t).
Proof.
  intros c t Hr Hs. unfold be. cbn [app dec16].
  assert (E : c / 256 * 256 + c mod 256 = c) by (pose proof (Z.div_mod c 256); lia).
  rewrite E.
  destruct ((55296 <=? c) && (c <? 56320)) eqn:A.
  { apply andb_true_iff in A. destruct A as [A1 A2]. apply Z.leb_le in A1. apply Z.ltb_lt in A2. lia. }
  destruct ((56320 <=? c) && (c <? 57344)) eqn:B.
  { apply andb_true_iff in B. destruct B as [B1 B2]. apply Z.leb_le in B1. apply Z.ltb_lt in B2. lia. }
  reflexivity.
Qed.

Lemma be_recombine : forall u, u / 256 * 256 + u mod 256 = u.
Proof. intros u. pose proof (Z.div_mod u 256). lia. Qed.

Lemma dec16_astral : forall c t, 65536 <= c <= 1114111 ->
  dec16 (be (55296 + (c - 65536) / 1024) ++ be (56320 + (c - 65536) mod 1024) ++ t) = ocons c (dec16 t).
Proof.
  intros c t Hr.
  set (v := c - 65536).
  assert (Hv : 0 <= v < 1048576) by (unfold v; lia).
  assert (Hq : 0 <= v / 1024 < 1024).
  { split; [apply Z.div_pos; lia | apply Z.div_lt_upper_bound; lia]. }
  assert (Hm : 0 <= v mod 1024 < 1024) by (apply Z.mod_pos_bound; lia).
  unfold be. cbn [app dec16].
  rewrite !be_recombine.
  destruct ((55296 <=? 55296 + v / 1024) && (55296 + v / 1024 <? 56320)) eqn:A.
  2:{ apply andb_false_iff in A. destruct A as [A | A]; [apply Z.leb_gt in A | apply Z.ltb_ge in A]; lia. }
  destruct ((56320 <=? 56320 + v mod 1024) && (56320 + v mod 1024 <? 57344)) eqn:B.
  2:{ apply andb_false_iff in B. destruct B as [B | B]; [apply Z.leb_gt in B | apply Z.ltb_ge in B]; lia. }
  replace (65536 + (55296 + v / 1024 - 55296) * 1024 + (56320 + v mod 1024 - 56320)) with c; [reflexivity |].
  pose proof (Z.div_mod v 1024). unfold v in *. lia.
Qed.

Lemma dec16_units : forall s, Forall scalar s ->
  dec16 (flat_map (fun c => flat_map be (utf16_units c)) s) = Some s.
Proof.
  intros s H. induction H as [| c s Hc Hs IH].
  - reflexivity.
  - cbn [flat_map]. unfold utf16_units at 1.
    destruct (c <? 65536) eqn:E.
    + apply Z.ltb_lt in E. cbn [flat_map]. rewrite app_nil_r.
      rewrite dec16_bmp; [rewrite IH; reflexivity | |]; unfold scalar in Hc; lia.
    + apply Z.ltb_ge in E. cbv zeta. cbn [flat_map]. rewrite app_nil_r. rewrite <- app_assoc.
      rewrite dec16_astral; [rewrite IH; reflexivity |]. unfold scalar in Hc. lia.
Qed.

Lemma pdfdoc_ascii : forall c, doc_ascii c -> pdfdoc c = Some c.
Proof.
  intros c H. unfold pdfdoc.
  destruct ((c =? 9) || (c =? 10) || (c =? 13)) eqn:A; [reflexivity |].
  apply orb_false_iff in A. destruct A as [A A3]. apply orb_false_iff in A. destruct A as [A1 A2].
  apply Z.eqb_neq in A1. apply Z.eqb_neq in A2. apply Z.eqb_neq in A3.
  destruct ((32 <=? c) && (c <=? 126)) eqn:B; [reflexivity |].
  apply andb_false_iff in B. unfold doc_ascii in H.
  destruct B as [B | B]; [apply Z.leb_gt in B | apply Z.leb_gt in B]; lia.
Qed.

Lemma dec_pdfdoc_ascii : forall s, Forall doc_ascii s -> dec_pdfdoc s = Some s.
Proof.
  intros s H. induction H as [| c s Hc Hs IH]; [reflexivity |].
  cbn [dec_pdfdoc]. rewrite (pdfdoc_ascii c Hc), IH. reflexivity.
Qed.

(** FULL: what Close stores for a metadata string decodes, as a PDF text string, to that string *)
Theorem text_roundtrip : forall s, text_ok s -> decode_text (encode_text s) = Some s.
Proof.
  intros s [Hsc Hasc]. unfold encode_text.
  destruct (is_ascii s) eqn:E.
  - specialize (Hasc eq_refl).
    assert (Hd : dec_pdfdoc s = Some s) by (apply dec_pdfdoc_ascii; exact Hasc).
    destruct s as [| a [| b t]]; [reflexivity | exact Hd |].
    unfold decode_text.
    destruct ((a =? 254) && (b =? 255)) eqn:F; [| exact Hd].
    apply andb_true_iff in F. destruct F as [F _]. apply Z.eqb_eq in F. subst a.
    cbn in E. discriminate.
  - unfold decode_text. replace ((254 =? 254) && (255 =? 255)) with true by reflexivity.
    apply dec16_units. exact Hsc.
Qed.

Example text_roundtrip_sat :   (* c-caron, an astral character, CR *)
  text_ok [269; 128512; 13] /\ decode_text (encode_text [269; 128512; 13]) = Some [269; 128512; 13].
Proof.
  split; [| vm_compute; reflexivity].
  split.
  - repeat constructor; unfold scalar; lia.
  - intro H. vm_compute in H. discriminate.
Qed.

(** FULL (current tree): metadata -> encode -> literal string -> specification reader -> text-string decoding is
    the identity *)
Theorem info_roundtrip : forall s, text_ok s ->
  match read_literal_token (write_literal (encode_text s)) with
  | Some b => decode_text b
  | None => None
  end = Some s.
Proof.
  intros s H. rewrite literal_roundtrip_token. apply text_roundtrip. exact H.
Qed.

(** REFUTED (tree before the fix) *)
Theorem info_roundtrip_v0_refuted : exists s, text_ok s /\
  match read_literal_token (write_literal_v0 (encode_text s)) with
  | Some b => decode_text b
  | None => None
  end <> Some s.
Proof.
  exists [269]. split.
  - split; [repeat constructor; unfold scalar; lia | intro H; vm_compute in H; discriminate].
  - vm_compute. discriminate.
Qed.

(** Bridge between the definitions regenerated from util.go on every run (Gen/MatrixGen.v, written by
    harness/cmd/translator) and the hand-written model Geom/Matrix.v that the theorems are about.
    Every lemma is closed by ring/field-style tactics, so a harmless re-association of the Go source still
    passes while a semantic edit breaks the obligation (the check then reports the lemma by name). *)
From Coq Require Import QArith Qfield Lqa.
From CV Require Import Geom.Matrix Geom.MatrixProofs Gen.MatrixGen.
Open Scope Q_scope.

Ltac gunfold :=
  unfold g_ReflectXAbout, g_ReflectYAbout, g_ScaleAbout, g_ShearAbout, g_ReflectX, g_ReflectY,
         g_Translate, g_Scale, g_Shear, g_T, g_Det, g_Dot, g_Mul; cbn zeta.
Ltac bridge := gunfold; munfold; repeat split; ring.

Lemma bridge_Mul m q : meq (g_Mul m q) (mmul m q).
Proof. bridge. Qed.
Lemma bridge_Dot m p : pteq (g_Dot m p) (mdot m p).
Proof. bridge. Qed.
Lemma bridge_Det m : g_Det m == mdet m.
Proof. gunfold; munfold; ring. Qed.
Lemma bridge_T m : meq (g_T m) (mT m).
Proof. bridge. Qed.
Lemma bridge_Translate m x y : meq (g_Translate m x y) (mtranslate m x y).
Proof. bridge. Qed.
Lemma bridge_Scale m sx sy : meq (g_Scale m sx sy) (mscale m sx sy).
Proof. bridge. Qed.
Lemma bridge_Shear m sx sy : meq (g_Shear m sx sy) (mshear m sx sy).
Proof. bridge. Qed.
Lemma bridge_ReflectX m : meq (g_ReflectX m) (mreflectx m).
Proof. bridge. Qed.
Lemma bridge_ReflectY m : meq (g_ReflectY m) (mreflecty m).
Proof. bridge. Qed.
Lemma bridge_ScaleAbout m sx sy x y : meq (g_ScaleAbout m sx sy x y) (mscale_about m sx sy x y).
Proof. bridge. Qed.
Lemma bridge_ShearAbout m sx sy x y : meq (g_ShearAbout m sx sy x y) (mshear_about m sx sy x y).
Proof. bridge. Qed.
Lemma bridge_ReflectXAbout m x : meq (g_ReflectXAbout m x) (mreflectx_about m x).
Proof. bridge. Qed.
Lemma bridge_ReflectYAbout m y : meq (g_ReflectYAbout m y) (mreflecty_about m y).
Proof. bridge. Qed.

Definition optmeq (a b : option mat) : Prop :=
  match a, b with Some x, Some y => meq x y | None, None => True | _, _ => False end.

(** Inv: same panic condition (det == 0) and, when defined, the same matrix *)
Lemma bridge_Inv m : optmeq (g_Inv m) (minv m).
Proof.
  unfold g_Inv, minv; cbn zeta.
  pose proof (bridge_Det m) as D.
  destruct (Qeq_bool (g_Det m) 0) eqn:E1; destruct (Qeq_bool (mdet m) 0) eqn:E2; cbn [optmeq]; auto.
  - apply Qeq_bool_iff in E1. rewrite D in E1. apply Qeq_bool_iff in E1. congruence.
  - apply Qeq_bool_iff in E2. rewrite <- D in E2. apply Qeq_bool_iff in E2. congruence.
  - assert (N : ~ mdet m == 0) by (intro C; apply Qeq_bool_iff in C; congruence).
    assert (N' : ~ g_Det m == 0) by (rewrite D; exact N).
    revert N N'. gunfold. munfold. intros N N'. repeat split; field; auto.
Qed.

Lemma bridge_Decompose_E m : g_Decompose_E m == decE m.
Proof. unfold g_Decompose_E, decE. field. Qed.
Lemma bridge_Decompose_F m : g_Decompose_F m == decF m.
Proof. unfold g_Decompose_F, decF. field. Qed.
Lemma bridge_Decompose_G m : g_Decompose_G m == decG m.
Proof. unfold g_Decompose_G, decG. field. Qed.
Lemma bridge_Decompose_H m : g_Decompose_H m == decH m.
Proof. unfold g_Decompose_H, decH. field. Qed.

(** all bridge obligations in one statement (Props/C07.v exports this) *)
Theorem matrix_bridge :
  (forall m q, meq (g_Mul m q) (mmul m q)) /\ (forall m p, pteq (g_Dot m p) (mdot m p)) /\
  (forall m, g_Det m == mdet m) /\ (forall m, meq (g_T m) (mT m)) /\
  (forall m x y, meq (g_Translate m x y) (mtranslate m x y)) /\
  (forall m sx sy, meq (g_Scale m sx sy) (mscale m sx sy)) /\
  (forall m sx sy, meq (g_Shear m sx sy) (mshear m sx sy)) /\
  (forall m, meq (g_ReflectX m) (mreflectx m)) /\ (forall m, meq (g_ReflectY m) (mreflecty m)) /\
  (forall m sx sy x y, meq (g_ScaleAbout m sx sy x y) (mscale_about m sx sy x y)) /\
  (forall m sx sy x y, meq (g_ShearAbout m sx sy x y) (mshear_about m sx sy x y)) /\
  (forall m x, meq (g_ReflectXAbout m x) (mreflectx_about m x)) /\
  (forall m y, meq (g_ReflectYAbout m y) (mreflecty_about m y)) /\
  (forall m, optmeq (g_Inv m) (minv m)) /\
  (forall m, g_Decompose_E m == decE m /\ g_Decompose_F m == decF m /\ g_Decompose_G m == decG m /\ g_Decompose_H m == decH m).
Proof.
  repeat match goal with |- _ /\ _ => split end.
  - apply bridge_Mul. - apply bridge_Dot. - apply bridge_Det. - apply bridge_T.
  - apply bridge_Translate. - apply bridge_Scale. - apply bridge_Shear.
  - apply bridge_ReflectX. - apply bridge_ReflectY. - apply bridge_ScaleAbout. - apply bridge_ShearAbout.
  - apply bridge_ReflectXAbout. - apply bridge_ReflectYAbout. - apply bridge_Inv.
  - intro m. split; [apply bridge_Decompose_E|split; [apply bridge_Decompose_F|split; [apply bridge_Decompose_G|apply bridge_Decompose_H]]].
Qed.

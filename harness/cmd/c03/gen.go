// Generators of the C03 harness. Coordinates come from dyadic grids (multiples of 2^-3 in [-10,10] for the
// ordinary families, 2^-10 offsets for the near-degenerate ones) so that every control point is an exact
// small dyadic rational on the Coq side. The near-cusp ("hairpin") families are kept separate from the
// ordinary ones so that a failure that is not the known step-rule finding stays visible there.
package main

import (
	"verifharness/internal/rng"
)

func g8(i int) float64    { return float64(i) / 8 }
func g1024(i int) float64 { return float64(i) / 1024 }

func rp(r *rng.R, lim int) P { return P{X: g8(r.Range(-lim, lim)), Y: g8(r.Range(-lim, lim))} }

func nz(r *rng.R, lo, hi int) int {
	for {
		v := r.Range(lo, hi)
		if v != 0 {
			return v
		}
	}
}

type bcase struct {
	fam  string
	ctrl []P
}

func genQuad(r *rng.R) bcase {
	switch k := r.Intn(20); {
	case k < 6:
		return bcase{"quad-generic", []P{rp(r, 80), rp(r, 80), rp(r, 80)}}
	case k < 8: // symmetric arch
		a, h := r.Range(1, 80), nz(r, -80, 80)
		o := rp(r, 20)
		return bcase{"quad-arch", []P{{X: o.X - g8(a), Y: o.Y}, {X: o.X, Y: o.Y + g8(h)}, {X: o.X + g8(a), Y: o.Y}}}
	case k < 10: // nearly flat: control point close to the chord, projecting inside it
		dx, dy := nz(r, -10, 10), r.Range(-10, 10)
		m := r.Range(2, 8)
		j := r.Range(1, m-1)
		off := nz(r, -3, 3)
		return bcase{"quad-flat", []P{{}, {X: g8(j*dx) - g8(off*dy)/8, Y: g8(j*dy) + g8(off*dx)/8}, {X: g8(m * dx), Y: g8(m * dy)}}}
	case k < 11: // collinear, control point strictly inside the chord
		dx, dy := nz(r, -10, 10), r.Range(-10, 10)
		m := r.Range(2, 8)
		j := r.Range(1, m-1)
		return bcase{"quad-collinear-inside", []P{{}, {X: g8(j * dx), Y: g8(j * dy)}, {X: g8(m * dx), Y: g8(m * dy)}}}
	case k < 12: // p0=p1 or p1=p2
		a, b := rp(r, 80), rp(r, 80)
		if r.Bool() {
			return bcase{"quad-degenerate", []P{a, a, b}}
		}
		return bcase{"quad-degenerate", []P{a, b, b}}
	case k < 13: // closed: p0 = p2
		a, b := rp(r, 80), rp(r, 80)
		return bcase{"quad-closed", []P{a, b, a}}
	case k < 15: // tiny curves on the 2^-10 grid
		o := rp(r, 80)
		q := func() P { return P{X: o.X + g1024(r.Range(-40, 40)), Y: o.Y + g1024(r.Range(-40, 40))} }
		return bcase{"quad-tiny", []P{q(), q(), q()}}
	case k < 16: // sharp but not hairpin: right-angle and acute corners with long legs
		a, b := r.Range(8, 80), r.Range(8, 80)
		s := nz(r, -40, 40)
		return bcase{"quad-sharp", []P{{X: g8(a), Y: 0}, {}, {X: g8(s), Y: g8(b)}}}
	case k < 18: // near-cusp: long start leg, end point back near the start, tiny perpendicular offsets
		L := r.Range(16, 80)
		d := r.Range(-8, 8)
		e1, e2 := r.Range(-8, 8), r.Range(-16, 16)
		c := []P{{}, {X: g8(L), Y: g1024(e1)}, {X: g8(d), Y: g1024(e2)}}
		if r.Bool() {
			c = []P{{}, {X: g1024(e1), Y: g8(L)}, {X: g1024(e2), Y: g8(d)}}
		}
		return bcase{"quad-nearcusp", c}
	case k < 19: // collinear with the control point outside the chord: the curve overshoots and returns
		dx, dy := nz(r, -10, 10), r.Range(-10, 10)
		m := r.Range(1, 4)
		j := r.Range(m+1, 8)
		if r.Bool() {
			j = -r.Range(1, 6)
		}
		return bcase{"quad-nearcusp-collinear", []P{{}, {X: g8(j * dx), Y: g8(j * dy)}, {X: g8(m * dx), Y: g8(m * dy)}}}
	default: // hairpins of moderate sharpness: tip radius comparable to the tolerances used
		L := r.Range(16, 80)
		d := r.Range(-16, 16)
		e2 := nz(r, -64, 64)
		return bcase{"quad-nearcusp-moderate", []P{{}, {X: g8(L), Y: g8(r.Range(-2, 2)) / 8}, {X: g8(d), Y: g8(e2) / 8}}}
	}
}

func genCube(r *rng.R) bcase {
	switch k := r.Intn(24); {
	case k < 5:
		return bcase{"cube-generic", []P{rp(r, 80), rp(r, 80), rp(r, 80), rp(r, 80)}}
	case k < 7: // convex arch
		a := r.Range(4, 80)
		h1, h2 := r.Range(1, 80), r.Range(1, 80)
		x1, x2 := r.Range(0, a), r.Range(0, a)
		if x2 < x1 {
			x1, x2 = x2, x1
		}
		s := 1.0
		if r.Bool() {
			s = -1
		}
		return bcase{"cube-arch", []P{{}, {X: g8(x1), Y: s * g8(h1)}, {X: g8(x2), Y: s * g8(h2)}, {X: g8(a), Y: 0}}}
	case k < 9: // S shape (one inflection)
		a := r.Range(8, 80)
		h1, h2 := r.Range(1, 80), r.Range(1, 80)
		return bcase{"cube-inflection", []P{{}, {X: g8(r.Range(0, a)), Y: g8(h1)}, {X: g8(r.Range(0, a)), Y: -g8(h2)}, {X: g8(a), Y: 0}}}
	case k < 11: // loop
		a := r.Range(8, 40)
		h := r.Range(8, 80)
		return bcase{"cube-loop", []P{{}, {X: g8(a + r.Range(8, 80)), Y: g8(h)}, {X: -g8(r.Range(8, 80)), Y: g8(h + r.Range(-8, 8))}, {X: g8(a), Y: 0}}}
	case k < 12: // exact cusp at t=1/2
		a := r.Range(2, 80)
		o := rp(r, 20)
		return bcase{"cube-cusp", []P{o, {X: o.X + g8(a), Y: o.Y + g8(a)}, {X: o.X, Y: o.Y + g8(a)}, {X: o.X + g8(a), Y: o.Y}}}
	case k < 13: // collinear, monotone along the line
		dx, dy := nz(r, -10, 10), r.Range(-10, 10)
		j1 := r.Range(0, 3)
		j2 := r.Range(j1, 6)
		m := r.Range(j2, 8)
		if m == 0 {
			m = 1
		}
		return bcase{"cube-collinear-inside", []P{{}, {X: g8(j1 * dx), Y: g8(j1 * dy)}, {X: g8(j2 * dx), Y: g8(j2 * dy)}, {X: g8(m * dx), Y: g8(m * dy)}}}
	case k < 15: // coincident control points
		a, b, c := rp(r, 80), rp(r, 80), rp(r, 80)
		switch r.Intn(5) {
		case 0:
			return bcase{"cube-degenerate", []P{a, a, b, c}}
		case 1:
			return bcase{"cube-degenerate", []P{a, b, c, c}}
		case 2:
			return bcase{"cube-degenerate", []P{a, a, a, b}}
		case 3:
			return bcase{"cube-degenerate", []P{a, b, b, c}}
		default:
			return bcase{"cube-degenerate", []P{a, a, b, b}}
		}
	case k < 16: // closed p0 = p3
		a := rp(r, 80)
		return bcase{"cube-closed", []P{a, rp(r, 80), rp(r, 80), a}}
	case k < 18: // tiny
		o := rp(r, 80)
		q := func() P { return P{X: o.X + g1024(r.Range(-40, 40)), Y: o.Y + g1024(r.Range(-40, 40))} }
		return bcase{"cube-tiny", []P{q(), q(), q(), q()}}
	case k < 19: // nearly flat
		a := r.Range(8, 80)
		return bcase{"cube-flat", []P{{}, {X: g8(r.Range(1, a/2)), Y: g1024(r.Range(-64, 64))}, {X: g8(r.Range(a/2, a-1)), Y: g1024(r.Range(-64, 64))}, {X: g8(a), Y: 0}}}
	case k < 20: // quadratic raised to a cubic (what Path.replace hands to the cubic callbacks never happens for quads, but strokers do)
		p0, p1, p2 := rp(r, 72), rp(r, 72), rp(r, 72)
		// exact on the grid when differences are multiples of 3/8
		p0 = P{X: p0.X * 3, Y: p0.Y * 3}
		p1 = P{X: p1.X * 3, Y: p1.Y * 3}
		p2 = P{X: p2.X * 3, Y: p2.Y * 3}
		c1 := P{X: p0.X + 2*(p1.X-p0.X)/3, Y: p0.Y + 2*(p1.Y-p0.Y)/3}
		c2 := P{X: p2.X + 2*(p1.X-p2.X)/3, Y: p2.Y + 2*(p1.Y-p2.Y)/3}
		s := 1.0 / 4
		return bcase{"cube-raised-quad", []P{{X: p0.X * s, Y: p0.Y * s}, {X: c1.X * s, Y: c1.Y * s}, {X: c2.X * s, Y: c2.Y * s}, {X: p2.X * s, Y: p2.Y * s}}}
	case k < 22: // hairpin: both inner control points far out, end point back near the start
		L := r.Range(16, 80)
		return bcase{"cube-nearcusp", []P{{}, {X: g8(L), Y: g1024(r.Range(-8, 8))}, {X: g8(L + r.Range(-8, 8)), Y: g1024(r.Range(-16, 16))}, {X: g8(r.Range(-8, 8)), Y: g1024(r.Range(-16, 16))}}}
	case k < 23: // collinear with control points outside the chord
		dx, dy := nz(r, -10, 10), r.Range(-10, 10)
		j1, j2, m := r.Range(-6, 8), r.Range(-6, 8), r.Range(1, 3)
		if j1 >= 0 && j1 <= m && j2 >= 0 && j2 <= m {
			j1 = m + 3
		}
		return bcase{"cube-nearcusp-collinear", []P{{}, {X: g8(j1 * dx), Y: g8(j1 * dy)}, {X: g8(j2 * dx), Y: g8(j2 * dy)}, {X: g8(m * dx), Y: g8(m * dy)}}}
	default: // near an exact cusp: the cusp configuration perturbed by 2^-10 steps
		a := r.Range(8, 80)
		e := func() float64 { return g1024(r.Range(-8, 8)) }
		return bcase{"cube-nearcusp-perturbed", []P{{X: e(), Y: e()}, {X: g8(a) + e(), Y: g8(a) + e()}, {X: e(), Y: g8(a) + e()}, {X: g8(a) + e(), Y: e()}}}
	}
}

// Package pd is an independent decoder of canvas.Path.Data(): it does not use any canvas code, only the
// documented layout (command value at both ends of each record).
package pd

import "fmt"

type Seg struct {
	Cmd  byte // 'M','L','Q','C','A','Z'
	X0, Y0 float64 // start point
	A    []float64 // raw arguments between the two command values (coordinates; for A: rx ry phi flags x y)
	X, Y float64 // end point
}

var lens = map[float64]struct {
	c byte
	n int
}{1: {'M', 4}, 2: {'L', 4}, 4: {'Q', 6}, 8: {'C', 8}, 16: {'A', 8}, 32: {'Z', 4}}

// Decode walks the data forward. It returns an error instead of panicking on malformed data.
func Decode(d []float64) ([]Seg, error) {
	var segs []Seg
	var x, y float64
	for i := 0; i < len(d); {
		l, ok := lens[d[i]]
		if !ok {
			return segs, fmt.Errorf("bad command %v at %d", d[i], i)
		}
		if i+l.n > len(d) {
			return segs, fmt.Errorf("truncated record at %d", i)
		}
		if d[i+l.n-1] != d[i] {
			return segs, fmt.Errorf("trailing command mismatch at %d", i)
		}
		s := Seg{Cmd: l.c, X0: x, Y0: y, A: append([]float64{}, d[i+1:i+l.n-1]...)}
		s.X, s.Y = d[i+l.n-3], d[i+l.n-2]
		segs = append(segs, s)
		x, y = s.X, s.Y
		i += l.n
	}
	return segs, nil
}

// Subpaths splits at every M.
func Subpaths(segs []Seg) [][]Seg {
	var out [][]Seg
	for _, s := range segs {
		if s.Cmd == 'M' || len(out) == 0 {
			out = append(out, nil)
		}
		out[len(out)-1] = append(out[len(out)-1], s)
	}
	return out
}

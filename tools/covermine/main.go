// covermine: one-off corpus miner (NOT part of any registered check).  It runs generated operand pairs through the Boolean
// operations and Settle of a canvas tree whose path_intersection.go has been instrumented with `go tool cover -mode=count`
// (see mine.sh) and keeps, for every rarely executed block, a few of the smallest inputs that reach it.  The selected inputs are
// committed as /verif/corpus/c01_pairs.json and judged by the ordinary C01/C02 checks on every run (harness c01 -mode corpus).
package main

import (
	"bufio"
	"encoding/json"
	"flag"
	"fmt"
	"os"
	"sort"
	"time"

	"github.com/tdewolff/canvas"
)

type entry struct {
	P, Q  string
	Box   []int
	Scale float64
	Fam   string
}

type line struct {
	Fam  string `json:"fam"`
	Desc struct {
		P, Q  string
		Box   []int   `json:"box"`
		Scale float64 `json:"scale"`
	} `json:"desc"`
}

func snapshot() []uint32 {
	var s []uint32
	for _, c := range canvas.CoverCounts() {
		s = append(s, c...)
	}
	return s
}

func guarded(f func()) bool {
	done := make(chan bool, 1)
	go func() {
		defer func() { recover(); done <- true }()
		f()
	}()
	select {
	case <-done:
		return true
	case <-time.After(5 * time.Second):
		return false
	}
}

func main() {
	in := flag.String("in", "", "JSON lines of harness c01 -mode pairs")
	outF := flag.String("out", "corpus.json", "")
	rare := flag.Float64("rare", 0.01, "a block is rare when at most this fraction of the inputs reaches it")
	keep := flag.Int("keep", 3, "inputs kept per rare block")
	settleOnly := flag.Bool("settle", false, "Settle of P only (C02 corpus)")
	resF := flag.String("results", "", "also write, per input, the outcome of every operation (panic flag and shoelace area of the result): used to select inputs on which a deliberately broken build behaves differently")
	flag.Parse()
	f, err := os.Open(*in)
	if err != nil {
		panic(err)
	}
	sc := bufio.NewScanner(f)
	sc.Buffer(make([]byte, 1<<24), 1<<24)
	var es []entry
	var outcomes [][]float64
	var hits [][]int
	freq := map[int]int{}
	for sc.Scan() {
		var l line
		if json.Unmarshal(sc.Bytes(), &l) != nil || l.Desc.P == "" {
			continue
		}
		P, e1 := canvas.ParseSVGPath(l.Desc.P)
		Q, e2 := canvas.ParseSVGPath(l.Desc.Q)
		if e1 != nil || e2 != nil || P.String() != l.Desc.P || Q.String() != l.Desc.Q {
			continue
		}
		before := snapshot()
		ok := true
		var outcome []float64
		run := func(f func() *canvas.Path) {
			var r *canvas.Path
			fin := guarded(func() { r = f() })
			ok = ok && fin
			if r == nil {
				outcome = append(outcome, -1e300) // panic
			} else {
				outcome = append(outcome, area(r))
			}
		}
		if !*settleOnly {
			run(func() *canvas.Path { return P.Copy().And(Q.Copy()) })
			run(func() *canvas.Path { return P.Copy().Or(Q.Copy()) })
			run(func() *canvas.Path { return P.Copy().Not(Q.Copy()) })
			run(func() *canvas.Path { return P.Copy().Xor(Q.Copy()) })
			run(func() *canvas.Path { return P.Copy().DivideBy(Q.Copy()) })
		} else {
			for rule := 0; rule < 4; rule++ {
				rr := canvas.FillRule(rule)
				run(func() *canvas.Path { return P.Copy().Settle(rr) })
			}
		}
		outcomes = append(outcomes, outcome)
		if !ok {
			outcomes = outcomes[:len(outcomes)-1]
			continue // hangs are not corpus material (the goroutine keeps counting)
		}
		after := snapshot()
		var h []int
		for k := range after {
			if d := after[k] - before[k]; d != 0 {
				// feature = (block, hit-count bucket 1, 2, 3, 4-7, 8-15, 16-31, 32-127, 128+), as in AFL
				b := 0
				switch {
				case d <= 3:
					b = int(d) - 1
				case d <= 7:
					b = 3
				case d <= 15:
					b = 4
				case d <= 31:
					b = 5
				case d <= 127:
					b = 6
				default:
					b = 7
				}
				f := k*8 + b
				h = append(h, f)
				freq[f]++
			}
		}
		es = append(es, entry{l.Desc.P, l.Desc.Q, l.Desc.Box, l.Desc.Scale, l.Fam})
		hits = append(hits, h)
	}
	if *resF != "" {
		type res struct {
			E entry
			O []float64
		}
		var rs []res
		for i := range es {
			rs = append(rs, res{es[i], outcomes[i]})
		}
		b, _ := json.Marshal(rs)
		os.WriteFile(*resF, b, 0o644)
	}
	n := len(es)
	var blocks []int
	for b, c := range freq {
		if float64(c) <= *rare*float64(n) {
			blocks = append(blocks, b)
		}
	}
	sort.Slice(blocks, func(i, j int) bool { return freq[blocks[i]] < freq[blocks[j]] || freq[blocks[i]] == freq[blocks[j]] && blocks[i] < blocks[j] })
	order := make([]int, n)
	for i := range order {
		order[i] = i
	}
	sort.Slice(order, func(a, b int) bool {
		la, lb := len(es[order[a]].P)+len(es[order[a]].Q), len(es[order[b]].P)+len(es[order[b]].Q)
		return la < lb || la == lb && order[a] < order[b]
	})
	chosen := map[int]bool{}
	covered := map[int]int{}
	hitset := make([]map[int]bool, n)
	for i, h := range hits {
		hitset[i] = map[int]bool{}
		for _, b := range h {
			hitset[i][b] = true
		}
	}
	for _, b := range blocks {
		for _, i := range order {
			if covered[b] >= *keep {
				break
			}
			if hitset[i][b] && !chosen[i] {
				chosen[i] = true
				for _, bb := range hits[i] {
					covered[bb]++
				}
			}
		}
	}
	var outE []entry
	for _, i := range order {
		if chosen[i] {
			outE = append(outE, es[i])
		}
	}
	b, _ := json.MarshalIndent(outE, "", " ")
	os.WriteFile(*outF, b, 0o644)
	total := len(snapshot())
	fmt.Printf("inputs %d, blocks %d, features (block x hit-count bucket) reached %d, rare (<= %.1f%% of the inputs) %d, corpus %d\n", n, total, len(freq), 100**rare, len(blocks), len(outE))
}


// area: sum of the shoelace areas of the (flat) result's subpaths
func area(p *canvas.Path) float64 {
	a := 0.0
	for _, sp := range p.Split() {
		c := sp.Coords()
		for i := range c {
			j := (i + 1) % len(c)
			a += c[i].X*c[j].Y - c[j].X*c[i].Y
		}
	}
	return a / 2
}

(** Correspondence judge for C10: compares what the Go code produced (recorded in the case by the harness)
    with the faithful builder model (tie flags) and with the specification: the verified well-formedness
    validator, the arc-field checker, the geometry oracle and the Grid cell oracle (property flags). *)
From Coq Require Import ZArith QArith Qabs Qminmax List Bool.
From CV Require Import PathEnc.Slices Base.Dy PathEnc.Enc PathEnc.Builder PathEnc.Trace PathEnc.Scanner.
Import ListNotations.
Open Scope Z_scope.

(** K1 on the slice model: a program of re-slicings and appends on one float64 array, run on real Go slices; the cells visible
    through every slice at the end must be the model's *)
Inductive slop := OSub2 (src i j : nat) | OSub3 (src i j k : nat) | OApp (src : nat) (xs : list num).
Definition sl_step (st : heap * list slice) (o : slop) : heap * list slice :=
  let '(h, ss) := st in
  let get k := nth k ss (mkSl 0 0 0 0) in
  match o with
  | OSub2 src i j => (h, ss ++ [sub2 (get src) i j])
  | OSub3 src i j k => (h, ss ++ [sub3 (get src) i j k])
  | OApp src xs => let '(h', r) := Slices.append h (get src) xs in (h', ss ++ [r])
  end.
Definition sl_run (a0 : list num) (len0 : nat) (ops : list slop) : list (list num) :=
  let '(h, ss) := fold_left sl_step ops ([a0], [mkSl 0 0 len0 (length a0)]) in map (view h) ss.

Inductive case10 :=
| KHist (ops : list op) (binop : Z) (ops2 : list op) (god : list num) (panic : bool)
| KShape (s : shape) (god : list num) (panic : bool)
| KData (god : list num) (panic : bool)
| KGrid (w h : num) (nx ny : Z) (r : num) (god : list num) (panic : bool)
| KCmdLen (tab : list (Z * Z))
| KSlice (a0 : list num) (len0 : nat) (ops : list slop) (views : list (list num))
(* Path.Arc after a MoveTo to s: radii, exact rotation (cs, sn), unit-circle points of the start and end angle (multiples of 90
   degrees), number of stored arcs expected, direction; the data Go built *)
| KArcB (s : pt) (rx ry cs sn : Q) (u0 u1 : pt) (narcs : Z) (sweep : bool) (god : list num) (panic : bool)
| KNone.

Fixpoint data_eqb (a b : list num) : bool :=
  match a, b with
  | [], [] => true
  | x :: a', y :: b' => Qeq_bool x y && data_eqb a' b'
  | _, _ => false
  end.

Definition bit (b : bool) (k : Z) : Z := if b then k else 0.
Fixpoint views_eqb (a b : list (list num)) : bool :=
  match a, b with [], [] => true | x :: a', y :: b' => data_eqb x y && views_eqb a' b' | _, _ => false end.

(** flags:  1 tie: model data differs from Data()        2 tie: the model predicts an out-of-range panic
            4 prop: Data() is not well-formed             8 prop: an arc record violates the relational ArcTo contract
           16 prop: Grid cell is not where it was requested  32 info: not canonical (MM / MZ present)
           64 prop: the Go code panicked on finite arguments 128 prop: traced geometry differs from the request
          256 tie: cmdLen table differs                   512 prop: a raw walker leaves the slice on this data
         1024 prop: traced geometry agrees with the request only under the pinned reading of MoveTo+Close
              (the pen position set by the MoveTo is lost) *)
Definition judge_data (god : list num) : Z * Z :=
  let wfok := wf_data god in
  let walk := match walk_fwd god, walk_bwd god with
              | WDone n e, WDone m e' => (n =? m)%nat && (e =? length god)%nat && (e' =? 0)%nat
              | _, _ => false
              end in
  let canon := match decode_fwd god with Some p => canonical p | None => true end in
  (bit (negb wfok) 4 + bit (negb canon) 32 + bit (negb walk) 512,
   match decode_fwd god with Some p => Z.of_nat (length p) | None => -1 end).

Definition model_of (v : variant) (ops : list op) (binop : Z) (ops2 : list op) : option (list num) :=
  match run v ops with
  | None => None
  | Some rd1 =>
    if binop =? 0 then Some (data rd1)
    else match run v ops2 with
         | None => None
         | Some rd2 => Some (append1 (data rd1) (data rd2))
         end
  end.

Definition judge_model (m : option (list num)) (god : list num) : Z :=
  match m with
  | None => 2
  | Some d => bit (negb (data_eqb d god)) 1
  end.

(** Grid(w,h,nx,ny,r): subpath 0 is the outer rectangle, subpath 1 + j*nx + i must be the (reversed) cell
    rectangle with corners (x, y), (x+dx, y+dy), x = r + i*(r+dx), y = r + j*(r+dy),
    dx = (w-(nx+1)r)/nx, dy = (h-(ny+1)r)/ny.  Checked on the bounding box of each subpath. *)
Fixpoint split_subpaths (l : list seg) (cur : list seg) : list (list seg) :=
  match l with
  | [] => match cur with [] => [] | _ => [rev cur] end
  | SM p :: r => match cur with [] => split_subpaths r [SM p] | _ => rev cur :: split_subpaths r [SM p] end
  | s :: r => split_subpaths r (s :: cur)
  end.

Definition bbox (l : list seg) : option (Q * Q * Q * Q) :=
  fold_left (fun acc s => let '(x, y) := seg_end s in
                          match acc with
                          | None => Some (x, y, x, y)
                          | Some (x0, y0, x1, y1) => Some (Qmin x0 x, Qmin y0 y, Qmax x1 x, Qmax y1 y)
                          end) l None.

Definition grid_ok (w h : num) (nx ny : Z) (r : num) (god : list num) : bool :=
  match decode_fwd god with
  | None => false
  | Some p =>
    (* if nx < 1 || ny < 1 || w <= (nx+1)*r || h <= (ny+1)*r { return &Path{} } *)
    if (nx <? 1) || (ny <? 1) || Qle_bool w (inject_Z (nx + 1) * r) || Qle_bool h (inject_Z (ny + 1) * r)
    then match p with [] => true | _ => false end
    else
    let subs := split_subpaths p [] in
    let dx := ((w - inject_Z (nx + 1) * r) / inject_Z nx)%Q in
    let dy := ((h - inject_Z (ny + 1) * r) / inject_Z ny)%Q in
    (Z.of_nat (length subs) =? 1 + nx * ny) &&
    forallb (fun '(k, sp) =>
               if (k =? 0) then true
               else let i := (k - 1) mod nx in let j := (k - 1) / nx in
                    let x := (r + inject_Z i * (r + dx))%Q in let y := (r + inject_Z j * (r + dy))%Q in
                    match bbox sp with
                    | Some (x0, y0, x1, y1) =>
                      Qeq_bool x0 x && Qeq_bool y0 y && Qeq_bool x1 (x + dx)%Q && Qeq_bool y1 (y + dy)%Q
                    | None => false
                    end)
            (combine (map Z.of_nat (seq 0 (length subs))) subs)
  end.

Definition judge (c : case10) : list Z :=
  match c with
  | KHist ops binop ops2 god panic =>
    if panic then [64; 0; 0]
    else
      let '(fl, n) := judge_data god in
      let tie := judge_model (model_of Fixed ops binop ops2) god in
      let tie_orig := judge_model (model_of Orig ops binop ops2) god in
      let arcs := forallb arc_oracle_ok (ops ++ ops2) in
      let geo := if binop =? 0
                 then match decode_fwd god with Some p => geometry_ok true ops p | None => true end
                 else true in
      let geo_svg := if binop =? 0
                 then match decode_fwd god with Some p => geometry_ok false ops p | None => true end
                 else true in
      (* third value: 1 when the Go data agrees with the model of the ORIGINAL LineTo but not with the repaired one *)
      [fl + tie + bit (negb arcs) 8 + bit (negb geo) 128 + bit (geo && negb geo_svg) 1024; n; bit ((tie_orig =? 0) && negb (tie =? 0)) 1]
  | KShape s god panic =>
    if panic then [64; 0; 0]
    else
      let '(fl, n) := judge_data god in
      [fl + judge_model (model_of Fixed (shape_ops s) 0 []) god; n; 0]
  | KData god panic =>
    if panic then [64; 0; 0] else let '(fl, n) := judge_data god in [fl; n; 0]
  | KSlice a0 len0 ops views =>
    [bit (negb (views_eqb (sl_run a0 len0 ops) views)) 1; Z.of_nat (length ops); 0]
  | KArcB s rx ry cs sn u0 u1 narcs sweep god panic =>
    if panic then [64; 0; 0]
    else
      let '(fl, n) := judge_data god in
      let E (u : pt) : pt := ((cs * rx * fst u - sn * ry * snd u)%Q, (sn * rx * fst u + cs * ry * snd u)%Q) in
      let c := ((fst s - fst (E u0))%Q, (snd s - snd (E u0))%Q) in
      let sl := (1 # 1000000000)%Q in
      let on_ell (p : pt) : bool :=
        let dx := (fst p - fst c)%Q in let dy := (snd p - snd c)%Q in
        let x := ((cs * dx + sn * dy) / rx)%Q in let y := ((- sn * dx + cs * dy) / ry)%Q in
        Qle_bool (Qabs (x * x + y * y - 1)%Q) sl in
      let close (a b : pt) : bool :=
        Qle_bool (Qabs (fst a - fst b)%Q) (sl * (1 + Qabs (fst b)))%Q && Qle_bool (Qabs (snd a - snd b)%Q) (sl * (1 + Qabs (snd b)))%Q in
      let ok :=
        match decode_fwd god with
        | Some (SM p0 :: segs) =>
            close p0 s && (Z.of_nat (length segs) =? narcs) &&
            forallb (fun g => match g with
                              | SA rx' ry' _ fl' e =>
                                  (* the radii as requested (ArcTo swaps them for rx < ry and may scale them up by rounding noise) *)
                                  (let near a b := Qle_bool (Qabs (a - b)%Q) (sl * Qabs b)%Q in
                                   (near rx' rx && near ry' ry) || (near rx' ry && near ry' rx)) && on_ell e &&
                                  Bool.eqb (Qeq_bool fl' 2 || Qeq_bool fl' 3) sweep
                              | _ => false end) segs &&
            close (seg_end (last segs (SM p0))) ((fst c + fst (E u1))%Q, (snd c + snd (E u1))%Q)
        | _ => false
        end in
      [fl + bit (negb ok) 2048; n; 0]
  | KGrid w h nx ny r god panic =>
    if panic then [64; 0; 0]
    else let '(fl, n) := judge_data god in [fl + bit (negb (grid_ok w h nx ny r god)) 16; n; 0]
  | KCmdLen tab =>
    [bit (negb (forallb (fun '(v, l) => match cmdLen_bits v with Some k => Z.of_nat k =? l | None => l =? -1 end) tab)) 256;
     Z.of_nat (length tab); 0]
  | KNone => [0; 0; 0]
  end.

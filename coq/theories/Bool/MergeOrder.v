(** C01/C02 — mergeOverlapping on the members of a bundle of coincident segments IN ANY ORDER (the right endpoints of
    coincident segments are processed in whatever order the event queue yields).

    [Bool/Sweep.v] has the faithful pointer model ([pcol], [merge_at]: the Go loop follows the prev links that earlier merges
    redirected).  This file has the *scan* form of the same step on the plain column: from segment k walk down the column,
    skip members of the bundle that were already absorbed (overlapped), absorb the others, stop at the first segment of another
    position.  On every state reachable from a freshly computed column the two agree (the prev link of a live segment points at
    the nearest live segment below it or below its bundle): both are run against the Go code on every check
    (Corr/C01.judge_seq); the theorems of Bool/MergeOrderProofs.v are about the scan form. *)
From Coq Require Import ZArith List Bool.
From CV Require Import Geom.Winding Bool.Region Bool.Sweep.
Import ListNotations.
Open Scope Z_scope.

Definition absorb (s p : sseg) : sseg :=
  if Bool.eqb (sClip s) (sClip p)
  then set_fields s (sW s) (sOW s) (sSelf s + sSelf p) (sOSelf s + sOSelf p) (sIn s) (sOverlapped s)
  else set_fields s (sW s) (sOW s) (sSelf s + sOSelf p) (sOSelf s + sSelf p) (sIn s) (sOverlapped s).
Definition zero (p : sseg) : sseg := set_fields p 0 0 0 0 0 true.

(** [below] nearest first.  Returns the updated s, the updated below, whether anything was absorbed, and the first segment
    of another position (the segment the merged one now rests on) *)
Fixpoint scan (s : sseg) (below : list sseg) : sseg * list sseg * bool * option sseg :=
  match below with
  | [] => (s, [], false, None)
  | p :: rest =>
    if negb (sPos s =? sPos p) then (s, below, false, Some p)
    else if sOverlapped p then
      let '(s', r', a, st) := scan s rest in (s', p :: r', a, st)
    else
      let '(s', r', a, st) := scan (absorb s p) rest in (s', zero p :: r', true, st)
  end.

(** mergeOverlapping on segment k of the column (bottom-to-top) *)
Definition mscan_at (col : list sseg) (k : nat) (op rule : Z) : list sseg :=
  match nth_error col k with
  | None => col
  | Some s =>
    if sOverlapped s then col
    else
      let '(s', below', absorbed, stop) := scan s (rev (firstn k col)) in
      if negb absorbed then col
      else
        let '(w, ow) :=
          match stop with
          | None => (0, 0)
          | Some p => if Bool.eqb (sClip s') (sClip p) then (sW p + sSelf p, sOW p + sOSelf p)
                      else (sOW p + sOSelf p, sW p + sSelf p)
          end in
        let c := set_fields s' w ow (sSelf s') (sOSelf s') 0 (sOverlapped s') in
        rev below' ++ set_fields c w ow (sSelf s') (sOSelf s') (in_result c op rule) (sOverlapped s') :: skipn (S k) col
  end.

Definition mscan_seq (col : list sseg) (ks : list nat) (op rule : Z) : list sseg :=
  fold_left (fun c k => mscan_at c k op rule) ks col.

(** specification of a column in which some segments have been absorbed by merges (checked on Go's output by Corr/C01.judge_seq,
    proved for the scan form in Bool/MergeOrderProofs.v): the
    surviving (not overlapped) segments carry the prefix sums of the contributions below them (the zeroed members
    contribute nothing) and are in the result iff the region differs across them *)
Fixpoint col_spec_ok_ov (below : list sseg) (col : list sseg) (op rule : Z) : bool :=
  match col with
  | [] => true
  | s :: col' =>
    (if sOverlapped s then true else
     (lower_of false s =? total false below) && (lower_of true s =? total true below) &&
     (if sOpen s || sVert s then true
      else if op =? 5 then sIn s =? Z.b2z (fills rule (total false below)) + Z.b2z (fills rule (total false (s :: below)))
      else sIn s =? (if Bool.eqb (bop op (fills rule (total false below)) (fills rule (total true below)))
                                  (bop op (fills rule (total false (s :: below))) (fills rule (total true (s :: below))))
                     then 0 else 1))) &&
    col_spec_ok_ov (s :: below) col' op rule
  end.


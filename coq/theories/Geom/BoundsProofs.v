(** Proofs about Geom/Bounds.v (C08). *)
From Coq Require Import QArith Qminmax Qabs Qfield Lqa List Bool.
From CV Require Import Base.Dy Geom.Matrix Geom.MatrixProofs Geom.Bezier Geom.Ellipse Geom.Bounds.
Import ListNotations.
Open Scope Q_scope.

Lemma inb_iff lo hi x : inb lo hi x = true <-> lo <= x <= hi.
Proof. unfold inb. rewrite andb_true_iff, !Qle_bool_iff. tauto. Qed.

Lemma bquad_compat a b c a' b' c' t : a == a' -> b == b' -> c == c' -> bquad a b c t == bquad a' b' c' t.
Proof. intros H1 H2 H3. unfold bquad. rewrite H1, H2, H3. reflexivity. Qed.
Lemma bcube_compat a b c d a' b' c' d' t :
  a == a' -> b == b' -> c == c' -> d == d' -> bcube a b c d t == bcube a' b' c' d' t.
Proof. intros H1 H2 H3 H4. unfold bcube. rewrite H1, H2, H3, H4. reflexivity. Qed.

(** soundness of the subdivision checker: accepted => the whole coordinate function stays in [lo,hi] on [0,1] *)
Lemma chkq_sound fuel : forall lo hi a b c,
  chkq fuel lo hi a b c = true -> forall t, 0 <= t <= 1 -> lo <= bquad a b c t <= hi.
Proof.
  induction fuel as [|f IH]; intros lo hi a b c H t Ht; cbn [chkq] in H.
  - destruct (inb lo hi a && inb lo hi b && inb lo hi c) eqn:E; [|discriminate].
    apply andb_true_iff in E as [E Ec]. apply andb_true_iff in E as [Ea Eb].
    apply inb_iff in Ea, Eb, Ec. apply hull_quad; assumption.
  - destruct (inb lo hi a && inb lo hi b && inb lo hi c) eqn:E.
    + apply andb_true_iff in E as [E Ec]. apply andb_true_iff in E as [Ea Eb].
      apply inb_iff in Ea, Eb, Ec. apply hull_quad; assumption.
    + destruct (negb (inb lo hi a && inb lo hi c)); [discriminate|].
      unfold qsplit_l, qsplit_r in H. apply andb_true_iff in H as [H1 H2].
      destruct (Qlt_le_dec t (1#2)) as [L|R].
      * pose proof (IH _ _ _ _ _ H1 (2 * t)) as P.
        assert (T : 0 <= 2 * t <= 1) by lra. specialize (P T).
        pose proof (qsplit_l_eval a b c (1#2) (2 * t)) as S. unfold qsplit_l in S.
        rewrite (bquad_compat _ _ _ _ _ _ _ (Qred_correct _) (Qred_correct _) (Qred_correct _)) in P.
        rewrite S in P.
        assert (Et : (1#2) * (2 * t) == t) by ring.
        assert (Eq : bquad a b c ((1#2) * (2 * t)) == bquad a b c t) by (unfold bquad; rewrite Et; reflexivity).
        rewrite Eq in P. exact P.
      * pose proof (IH _ _ _ _ _ H2 (2 * t - 1)) as P.
        assert (T : 0 <= 2 * t - 1 <= 1) by lra. specialize (P T).
        pose proof (qsplit_r_eval a b c (1#2) (2 * t - 1)) as S. unfold qsplit_r in S.
        rewrite (bquad_compat _ _ _ _ _ _ _ (Qred_correct _) (Qred_correct _) (Qred_correct _)) in P.
        rewrite S in P.
        assert (Et : (1#2) + (1 - (1#2)) * (2 * t - 1) == t) by ring.
        assert (Eq : bquad a b c ((1#2) + (1 - (1#2)) * (2 * t - 1)) == bquad a b c t) by (unfold bquad; rewrite Et; reflexivity).
        rewrite Eq in P. exact P.
Qed.

Lemma chkc_sound fuel : forall lo hi a b c d,
  chkc fuel lo hi a b c d = true -> forall t, 0 <= t <= 1 -> lo <= bcube a b c d t <= hi.
Proof.
  induction fuel as [|f IH]; intros lo hi a b c d H t Ht; cbn [chkc] in H.
  - destruct (inb lo hi a && inb lo hi b && inb lo hi c && inb lo hi d) eqn:E; [|discriminate].
    apply andb_true_iff in E as [E Ed]. apply andb_true_iff in E as [E Ec]. apply andb_true_iff in E as [Ea Eb].
    apply inb_iff in Ea, Eb, Ec, Ed. apply hull_cube; assumption.
  - destruct (inb lo hi a && inb lo hi b && inb lo hi c && inb lo hi d) eqn:E.
    + apply andb_true_iff in E as [E Ed]. apply andb_true_iff in E as [E Ec]. apply andb_true_iff in E as [Ea Eb].
      apply inb_iff in Ea, Eb, Ec, Ed. apply hull_cube; assumption.
    + destruct (negb (inb lo hi a && inb lo hi d)); [discriminate|].
      unfold csplit_l, csplit_r in H. apply andb_true_iff in H as [H1 H2].
      destruct (Qlt_le_dec t (1#2)) as [L|R].
      * pose proof (IH _ _ _ _ _ _ H1 (2 * t)) as P.
        assert (T : 0 <= 2 * t <= 1) by lra. specialize (P T).
        pose proof (csplit_l_eval a b c d (1#2) (2 * t)) as S. unfold csplit_l in S.
        rewrite (bcube_compat _ _ _ _ _ _ _ _ _ (Qred_correct _) (Qred_correct _) (Qred_correct _) (Qred_correct _)) in P.
        rewrite S in P.
        assert (Et : (1#2) * (2 * t) == t) by ring.
        assert (Eq : bcube a b c d ((1#2) * (2 * t)) == bcube a b c d t) by (unfold bcube; rewrite Et; reflexivity).
        rewrite Eq in P. exact P.
      * pose proof (IH _ _ _ _ _ _ H2 (2 * t - 1)) as P.
        assert (T : 0 <= 2 * t - 1 <= 1) by lra. specialize (P T).
        pose proof (csplit_r_eval a b c d (1#2) (2 * t - 1)) as S. unfold csplit_r in S.
        rewrite (bcube_compat _ _ _ _ _ _ _ _ _ (Qred_correct _) (Qred_correct _) (Qred_correct _) (Qred_correct _)) in P.
        rewrite S in P.
        assert (Et : (1#2) + (1 - (1#2)) * (2 * t - 1) == t) by ring.
        assert (Eq : bcube a b c d ((1#2) + (1 - (1#2)) * (2 * t - 1)) == bcube a b c d t) by (unfold bcube; rewrite Et; reflexivity).
        rewrite Eq in P. exact P.
Qed.

Lemma in_boxb_iff b p : in_boxb b p = true <-> in_box b p.
Proof. unfold in_boxb, in_box. rewrite andb_true_iff, !inb_iff. tauto. Qed.

(** chk_contains_sound: accepted => for ALL t in [0,1] the point B ctrl t is in the box *)
Theorem chk_contains_sound fuel b ctrl :
  chk_contains fuel b ctrl = true ->
  forall t, 0 <= t <= 1 -> exists p, bez ctrl t = Some p /\ in_box b p.
Proof.
  intros H t Ht.
  destruct ctrl as [|p0 [|p1 [|p2 [|p3 [|p4 r]]]]]; cbn [chk_contains] in H; try discriminate.
  - apply andb_true_iff in H as [H0 H1]. apply in_boxb_iff in H0, H1. destruct H0 as [X0 Y0], H1 as [X1 Y1].
    eexists; split; [reflexivity|]. unfold in_box, Blin; cbn [fst snd]. split; apply hull_lin; assumption.
  - apply andb_true_iff in H as [HX HY].
    eexists; split; [reflexivity|]. unfold in_box, Bquad; cbn [fst snd].
    split; [apply (chkq_sound _ _ _ _ _ _ HX t Ht)|apply (chkq_sound _ _ _ _ _ _ HY t Ht)].
  - apply andb_true_iff in H as [HX HY].
    eexists; split; [reflexivity|]. unfold in_box, Bcube; cbn [fst snd].
    split; [apply (chkc_sound _ _ _ _ _ _ _ HX t Ht)|apply (chkc_sound _ _ _ _ _ _ _ HY t Ht)].
Qed.

Example chk_contains_ex : chk_contains 20 (mkB 0 0 10 7) [(0, 0); (1, 5); (2, 6); (10, 7)] = true.
Proof. vm_compute. reflexivity. Qed.
(** a case that needs subdivision: the control polygon leaves the box, the curve does not *)
Example chk_contains_ex2 : chk_contains 20 (mkB 0 0 4 (3#2)) [(0, 0); (2, 3); (4, 0)] = true.
Proof. vm_compute. reflexivity. Qed.

(** chk_touch_sound: accepted => some point of the segment is within e of the side *)
Theorem chk_touch_sound e b side ctrl t :
  chk_touch e b side ctrl t = true ->
  exists p, 0 <= t <= 1 /\ bez ctrl t = Some p /\ Qabs (coord side p - side_val b side) <= e.
Proof.
  unfold chk_touch. destruct (bez ctrl t) as [p|]; [|discriminate]. intro H.
  apply andb_true_iff in H as [H H3]. apply andb_true_iff in H as [H1 H2].
  apply Qle_bool_iff in H1, H2, H3. exists p. repeat split; assumption.
Qed.

(** ---------------------------------------------------------------------------------------------------
    min / max reasoning: abstract every Qmin / Qmax by a variable constrained by its specification *)
Ltac absmm1 a b :=
  let x := fresh "mn" in let H := fresh "Hmn" in
  destruct (Q.min_spec a b) as [[? H]|[? H]]; set (x := Qmin a b) in *; clearbody x.
Ltac absmx1 a b :=
  let x := fresh "mx" in let H := fresh "Hmx" in
  destruct (Q.max_spec a b) as [[? H]|[? H]]; set (x := Qmax a b) in *; clearbody x.
Ltac absmm :=
  repeat match goal with
         | |- context [Qmin ?a ?b] => absmm1 a b
         | |- context [Qmax ?a ?b] => absmx1 a b
         | _ : context [Qmin ?a ?b] |- _ => absmm1 a b
         | _ : context [Qmax ?a ?b] |- _ => absmx1 a b
         end.

(** FastBounds arms: the new box contains the old box and every control point of the segment *)
Lemma fb_line_spec x0 x1 y0 y1 e :
  let '(a0, a1, b0, b1) := fb_line x0 x1 y0 y1 e in
  a0 <= x0 /\ x1 <= a1 /\ b0 <= y0 /\ y1 <= b1 /\ a0 <= fst e <= a1 /\ b0 <= snd e <= b1.
Proof. unfold fb_line. absmm; lra. Qed.

Lemma fb_quad_spec x0 x1 y0 y1 cp e :
  let '(a0, a1, b0, b1) := fb_quad x0 x1 y0 y1 cp e in
  a0 <= x0 /\ x1 <= a1 /\ b0 <= y0 /\ y1 <= b1 /\
  a0 <= fst cp <= a1 /\ b0 <= snd cp <= b1 /\ a0 <= fst e <= a1 /\ b0 <= snd e <= b1.
Proof. unfold fb_quad. absmm; lra. Qed.

Lemma fb_cube_spec x0 x1 y0 y1 c1 c2 e :
  let '(a0, a1, b0, b1) := fb_cube x0 x1 y0 y1 c1 c2 e in
  a0 <= x0 /\ x1 <= a1 /\ b0 <= y0 /\ y1 <= b1 /\
  a0 <= fst c1 <= a1 /\ b0 <= snd c1 <= b1 /\ a0 <= fst c2 <= a1 /\ b0 <= snd c2 <= b1 /\
  a0 <= fst e <= a1 /\ b0 <= snd e <= b1.
Proof. unfold fb_cube. absmm; lra. Qed.

(** the state invariant of the loop: the current point is in the running box *)
Definition st_in (st : Q * Q * Q * Q) (p : qpt) : Prop :=
  let '(x0, x1, y0, y1) := st in x0 <= fst p <= x1 /\ y0 <= snd p <= y1.
Definition st_sub (a b : Q * Q * Q * Q) : Prop :=   (* a inside b *)
  let '(x0, x1, y0, y1) := a in let '(u0, u1, v0, v1) := b in u0 <= x0 /\ x1 <= u1 /\ v0 <= y0 /\ y1 <= v1.

Lemma st_sub_refl a : st_sub a a.
Proof. destruct a as [[[x0 x1] y0] y1]. cbn. lra. Qed.
Lemma st_sub_trans a b c : st_sub a b -> st_sub b c -> st_sub a c.
Proof.
  destruct a as [[[x0 x1] y0] y1], b as [[[u0 u1] v0] v1], c as [[[w0 w1] z0] z1]. cbn. lra.
Qed.
Lemma st_in_sub a b p : st_sub a b -> st_in a p -> st_in b p.
Proof. destruct a as [[[x0 x1] y0] y1], b as [[[u0 u1] v0] v1]. cbn. lra. Qed.

(** one step: every point of the segment is in the new state, the old state is inside the new one and the
    segment's end point (the next current point) is in the new state — for the line, quad AND cubic arm *)
Lemma fb_step_contains st start s :
  st_in st start ->
  st_sub st (fb_step st s) /\ st_in (fb_step st s) (seg_end s) /\
  forall t, 0 <= t <= 1 -> exists p, bez (seg_ctrl start s) t = Some p /\ st_in (fb_step st s) p.
Proof.
  destruct st as [[[x0 x1] y0] y1]. intros [SX SY].
  destruct s as [e|cp e|c1 c2 e]; cbn [fb_step seg_end seg_ctrl bez].
  - pose proof (fb_line_spec x0 x1 y0 y1 e) as P. destruct (fb_line x0 x1 y0 y1 e) as [[[a0 a1] b0] b1].
    destruct P as (P1 & P2 & P3 & P4 & P5 & P6). cbn [st_sub st_in]. repeat split; try lra.
    intros t Ht. eexists; split; [reflexivity|]. unfold Blin; cbn [fst snd]. split; apply hull_lin; lra.
  - pose proof (fb_quad_spec x0 x1 y0 y1 cp e) as P. destruct (fb_quad x0 x1 y0 y1 cp e) as [[[a0 a1] b0] b1].
    destruct P as (P1 & P2 & P3 & P4 & P5 & P6 & P7 & P8). cbn [st_sub st_in]. repeat split; try lra.
    intros t Ht. eexists; split; [reflexivity|]. unfold Bquad; cbn [fst snd]. split; apply hull_quad; lra.
  - pose proof (fb_cube_spec x0 x1 y0 y1 c1 c2 e) as P. destruct (fb_cube x0 x1 y0 y1 c1 c2 e) as [[[a0 a1] b0] b1].
    destruct P as (P1 & P2 & P3 & P4 & P5 & P6 & P7 & P8 & P9 & P10). cbn [st_sub st_in]. repeat split; try lra.
    intros t Ht. eexists; split; [reflexivity|]. unfold Bcube; cbn [fst snd]. split; apply hull_cube; lra.
Qed.

Lemma fb_loop_mono segs : forall st, st_sub st (fb_loop st segs).
Proof.
  induction segs as [|s r IH]; intro st; cbn [fb_loop]; [apply st_sub_refl|].
  eapply st_sub_trans; [|apply IH].
  destruct st as [[[x0 x1] y0] y1].
  destruct s as [e|cp e|c1 c2 e]; cbn [fb_step].
  - pose proof (fb_line_spec x0 x1 y0 y1 e) as P. destruct (fb_line x0 x1 y0 y1 e) as [[[a0 a1] b0] b1]. cbn. lra.
  - pose proof (fb_quad_spec x0 x1 y0 y1 cp e) as P. destruct (fb_quad x0 x1 y0 y1 cp e) as [[[a0 a1] b0] b1]. cbn. lra.
  - pose proof (fb_cube_spec x0 x1 y0 y1 c1 c2 e) as P. destruct (fb_cube x0 x1 y0 y1 c1 c2 e) as [[[a0 a1] b0] b1]. cbn. lra.
Qed.

Lemma st_in_compat st p q : pteq p q -> st_in st p -> st_in st q.
Proof. destruct st as [[[x0 x1] y0] y1]. intros [E1 E2]. cbn. rewrite E1, E2. tauto. Qed.

Lemma fb_loop_contains segs : forall st start X,
  st_in st start -> on_path start segs X -> st_in (fb_loop st segs) X.
Proof.
  induction segs as [|s r IH]; intros st start X Hin Hon; cbn [on_path] in Hon; [contradiction|].
  cbn [fb_loop]. destruct (fb_step_contains st start s Hin) as (Hsub & Hend & Hall).
  destruct Hon as [(t & Ht & Hb)|Hon].
  - destruct (Hall t Ht) as (p & Hp & Hpin). rewrite Hp in Hb. cbn [opteq] in Hb.
    eapply st_in_sub; [apply fb_loop_mono|]. eapply st_in_compat; eassumption.
  - eapply IH; eassumption.
Qed.

(** fastbounds_contains: FastBounds of a path (lines, quadratics, cubics) contains every point of every segment *)
Theorem fastbounds_contains start segs X :
  on_path start segs X -> in_box (fast_bounds start segs) X.
Proof.
  intro H. unfold fast_bounds.
  assert (I : st_in (fst start, fst start, snd start, snd start) start) by (cbn; lra).
  pose proof (fb_loop_contains segs _ start X I H) as P.
  destruct (fb_loop (fst start, fst start, snd start, snd start) segs) as [[[x0 x1] y0] y1].
  cbn in P. unfold in_box; cbn. exact P.
Qed.

Example fastbounds_contains_ex :
  in_box (fast_bounds (0, 0) [BC (1, 5) (2, 6) (10, 7)]) (Bcube (0, 0) (1, 5) (2, 6) (10, 7) 1).
Proof.
  apply fastbounds_contains. cbn [on_path seg_ctrl bez]. left. exists 1. split; [lra|]. cbn [opteq]. apply pteq_refl.
Qed.

(** the same statement for the cubic arm of the unchanged tree is FALSE: M0 0 C1 5 2 6 10 7 gives (0,0)-(2,6),
    which does not contain the end point (10,7) *)
Theorem fastbounds_cubic_refuted :
  exists start c1 c2 e t,
    0 <= t <= 1 /\
    in_boxb (box_of (fb_cube_unfixed (fst start) (fst start) (snd start) (snd start) c1 c2 e)) (Bcube start c1 c2 e t) = false /\
    box_of (fb_cube_unfixed (fst start) (fst start) (snd start) (snd start) c1 c2 e) = mkB 0 0 2 6.
Proof.
  exists (0, 0), (1, 5), (2, 6), (10, 7), 1. split; [lra|]. split; vm_compute; reflexivity.
Qed.

(** the arc arm: every point of the full ellipse lies in centre +- max(rx, ry) *)
Lemma sq_le_abs x r : 0 <= r -> x * x <= r * r -> - r <= x <= r.
Proof.
  intros Hr H. split.
  - destruct (Qlt_le_dec x (- r)) as [L|G]; [|exact G]. exfalso.
    assert (P : 0 < (- x - r) * (- x + r)) by (apply Qmult_lt_0_compat; lra).
    assert (E : (- x - r) * (- x + r) == x * x - r * r) by ring. lra.
  - destruct (Qlt_le_dec r x) as [L|G]; [|exact G]. exfalso.
    assert (P : 0 < (x - r) * (x + r)) by (apply Qmult_lt_0_compat; lra).
    assert (E : (x - r) * (x + r) == x * x - r * r) by ring. lra.
Qed.

Lemma sq_nonneg x : 0 <= x * x.
Proof.
  destruct (Qlt_le_dec x 0) as [N|P].
  - setoid_replace (x * x) with ((- x) * (- x)) by ring. apply Qmult_le_0_compat; lra.
  - apply Qmult_le_0_compat; assumption.
Qed.

Lemma sq_mono a b : 0 <= a <= b -> a * a <= b * b.
Proof.
  intros [H0 H1]. assert (P : 0 <= (b - a) * (b + a)) by (apply Qmult_le_0_compat; lra).
  assert (E : (b - a) * (b + a) == b * b - a * a) by ring. lra.
Qed.

(** ---------------------------------------------------------------------------------------------------
    translation / reflection equivariance of the model *)
Definition tr_pt (dx dy_ : Q) (p : qpt) : qpt := (fst p + dx, snd p + dy_).
Definition tr_seg (dx dy_ : Q) (s : bseg) : bseg :=
  match s with BL e => BL (tr_pt dx dy_ e) | BQ c e => BQ (tr_pt dx dy_ c) (tr_pt dx dy_ e)
          | BC c1 c2 e => BC (tr_pt dx dy_ c1) (tr_pt dx dy_ c2) (tr_pt dx dy_ e) end.
Definition tr_st (dx dy_ : Q) (st : Q * Q * Q * Q) : Q * Q * Q * Q :=
  let '(x0, x1, y0, y1) := st in (x0 + dx, x1 + dx, y0 + dy_, y1 + dy_).
Definition st_eq (a b : Q * Q * Q * Q) : Prop :=
  let '(x0, x1, y0, y1) := a in let '(u0, u1, v0, v1) := b in x0 == u0 /\ x1 == u1 /\ y0 == v0 /\ y1 == v1.

Lemma min_tr a b d : Qmin (a + d) (b + d) == Qmin a b + d.
Proof. absmm; lra. Qed.
Lemma max_tr a b d : Qmax (a + d) (b + d) == Qmax a b + d.
Proof. absmm; lra. Qed.
Lemma min_neg a b : Qmin (- a) (- b) == - Qmax a b.
Proof. absmm; lra. Qed.
Lemma max_neg a b : Qmax (- a) (- b) == - Qmin a b.
Proof. absmm; lra. Qed.

Lemma fb_step_translate dx dy_ st s : st_eq (fb_step (tr_st dx dy_ st) (tr_seg dx dy_ s)) (tr_st dx dy_ (fb_step st s)).
Proof.
  destruct st as [[[x0 x1] y0] y1].
  destruct s as [e|cp e|c1 c2 e]; cbn [fb_step tr_seg tr_st tr_pt fb_line fb_quad fb_cube st_eq fst snd];
    repeat split; absmm; lra.
Qed.

Lemma fb_step_compat st st' s : st_eq st st' -> st_eq (fb_step st s) (fb_step st' s).
Proof.
  destruct st as [[[x0 x1] y0] y1], st' as [[[u0 u1] v0] v1]. intros (E1 & E2 & E3 & E4).
  destruct s as [e|cp e|c1 c2 e]; cbn [fb_step fb_line fb_quad fb_cube st_eq];
    rewrite E1, E2, E3, E4; repeat split; reflexivity.
Qed.

Lemma st_eq_trans a b c : st_eq a b -> st_eq b c -> st_eq a c.
Proof.
  destruct a as [[[x0 x1] y0] y1], b as [[[u0 u1] v0] v1], c as [[[w0 w1] z0] z1]. cbn.
  intros (A1 & A2 & A3 & A4) (B1 & B2 & B3 & B4). rewrite A1, A2, A3, A4. tauto.
Qed.
Lemma st_eq_refl a : st_eq a a.
Proof. destruct a as [[[x0 x1] y0] y1]. cbn. repeat split; reflexivity. Qed.

Lemma fb_loop_compat segs : forall st st', st_eq st st' -> st_eq (fb_loop st segs) (fb_loop st' segs).
Proof.
  induction segs as [|s r IH]; intros st st' H; cbn [fb_loop]; [exact H|]. apply IH, fb_step_compat, H.
Qed.

(** FastBounds commutes with translation *)
Theorem fastbounds_translate dx dy_ segs : forall st,
  st_eq (fb_loop (tr_st dx dy_ st) (map (tr_seg dx dy_) segs)) (tr_st dx dy_ (fb_loop st segs)).
Proof.
  induction segs as [|s r IH]; intro st; cbn [fb_loop map]; [apply st_eq_refl|].
  eapply st_eq_trans; [apply fb_loop_compat, fb_step_translate|]. apply IH.
Qed.

(** reflection in the y axis (x -> -x): min and max of the x range swap *)
Definition rf_pt (p : qpt) : qpt := (- fst p, snd p).
Definition rf_seg (s : bseg) : bseg :=
  match s with BL e => BL (rf_pt e) | BQ c e => BQ (rf_pt c) (rf_pt e) | BC c1 c2 e => BC (rf_pt c1) (rf_pt c2) (rf_pt e) end.
Definition rf_st (st : Q * Q * Q * Q) : Q * Q * Q * Q := let '(x0, x1, y0, y1) := st in (- x1, - x0, y0, y1).

Lemma fb_step_reflect st s : st_eq (fb_step (rf_st st) (rf_seg s)) (rf_st (fb_step st s)).
Proof.
  destruct st as [[[x0 x1] y0] y1].
  destruct s as [e|cp e|c1 c2 e]; cbn [fb_step rf_seg rf_st rf_pt fb_line fb_quad fb_cube st_eq fst snd];
    repeat split; absmm; lra.
Qed.

Theorem fastbounds_reflect segs : forall st,
  st_eq (fb_loop (rf_st st) (map rf_seg segs)) (rf_st (fb_loop st segs)).
Proof.
  induction segs as [|s r IH]; intro st; cbn [fb_loop map]; [apply st_eq_refl|].
  eapply st_eq_trans; [apply fb_loop_compat, fb_step_reflect|]. apply IH.
Qed.

(** the points of the path are equivariant too (so the tight box is): X on p  <->  X + d on p + d *)
Lemma bez_translate dx dy_ start s t :
  opteq (bez (seg_ctrl (tr_pt dx dy_ start) (tr_seg dx dy_ s)) t) (option_map (tr_pt dx dy_) (bez (seg_ctrl start s) t)).
Proof.
  destruct s as [e|cp e|c1 c2 e]; cbn [seg_ctrl tr_seg bez option_map opteq];
    unfold Blin, Bquad, Bcube, blin, bquad, bcube, tr_pt, pteq; cbn [fst snd]; split; ring.
Qed.

(** ---------------------------------------------------------------------------------------------------
    quad_extremum: the quadratic arm of Bounds (one coordinate) *)
Lemma bquad_vertex a b c t : ~ bq_tden a b c == 0 ->
  bquad a b c t - bquad a b c ((a - b) / bq_tden a b c) ==
  bq_tden a b c * ((t - (a - b) / bq_tden a b c) * (t - (a - b) / bq_tden a b c)).
Proof. intro H. unfold bquad, bq_tden in *. field. exact H. Qed.

Lemma bquad_chord a b c t : bquad a b c t == (1 - t) * a + t * c - t * (1 - t) * bq_tden a b c.
Proof. unfold bquad, bq_tden. ring. Qed.

Lemma bquad_from0 a b c t : bquad a b c t - a == t * (2 * (b - a) + t * bq_tden a b c).
Proof. unfold bquad, bq_tden. ring. Qed.
Lemma bquad_from1 a b c t : bquad a b c t - c == (1 - t) * (2 * (b - c) + (1 - t) * bq_tden a b c).
Proof. unfold bquad, bq_tden. ring. Qed.

Lemma Qltb_false a b : Qltb a b = false -> b <= a.
Proof. unfold Qltb. rewrite negb_false_iff. apply Qle_bool_iff. Qed.

(** quad_extremum: on [0,1] a quadratic coordinate stays between the values the quadratic arm of Path.Bounds
    takes into account: start, end and — when the vertex parameter lies strictly inside (0,1) — the vertex *)
Theorem quad_extremum a b c t : 0 <= t <= 1 -> bq_lo a b c <= bquad a b c t <= bq_hi a b c.
Proof.
  intros Ht. unfold bq_lo, bq_hi.
  set (D := bq_tden a b c).
  assert (ED2 : D == a - 2 * b + c) by reflexivity.
  pose proof (bquad_chord a b c t) as Hch. fold D in Hch.
  assert (Hw : 0 <= t * (1 - t)) by (apply Qmult_le_0_compat; lra).
  assert (lo : Qmin a c <= (1 - t) * a + t * c).
  { apply conv2_lo; [lra|lra|ring|apply Q.le_min_l|apply Q.le_min_r]. }
  assert (hi : (1 - t) * a + t * c <= Qmax a c).
  { apply conv2_hi; [lra|lra|ring|apply Q.le_max_l|apply Q.le_max_r]. }
  destruct (Qeq_bool D 0) eqn:ED.
  - apply Qeq_bool_iff in ED.
    assert (Z : t * (1 - t) * D == 0) by (rewrite ED; ring). lra.
  - assert (ND : ~ D == 0) by (intro C; apply Qeq_bool_iff in C; congruence).
    pose proof (bquad_vertex a b c t ND) as Hv. fold D in Hv.
    set (T := (a - b) / D) in *.
    assert (ET : T * D == a - b) by (unfold T; field; exact ND).
    pose proof (sq_nonneg (t - T)) as Hsq.
    pose proof (bquad_from0 a b c t) as H0. pose proof (bquad_from1 a b c t) as H1. fold D in H0, H1.
    pose proof (Q.le_min_l (Qmin a c) (bquad a b c T)) as M1.
    pose proof (Q.le_min_r (Qmin a c) (bquad a b c T)) as M2.
    pose proof (Q.le_max_l (Qmax a c) (bquad a b c T)) as M3.
    pose proof (Q.le_max_r (Qmax a c) (bquad a b c T)) as M4.
    pose proof (Q.le_min_l a c) as M5. pose proof (Q.le_min_r a c) as M6.
    pose proof (Q.le_max_l a c) as M7. pose proof (Q.le_max_r a c) as M8.
    destruct (Qlt_le_dec 0 D) as [Dpos|Dnp].
    + (* convex *)
      assert (U : 0 <= t * (1 - t) * D) by (apply Qmult_le_0_compat; lra).
      assert (V : 0 <= D * ((t - T) * (t - T))) by (apply Qmult_le_0_compat; lra).
      destruct (Qltb 0 T && Qltb T 1) eqn:EI; [lra|].
      apply andb_false_iff in EI as [EI|EI]; apply Qltb_false in EI.
      * assert (P : 0 <= (- T) * D) by (apply Qmult_le_0_compat; lra).
        assert (P' : (- T) * D == - (T * D)) by ring.
        assert (W : 0 <= t * D) by (apply Qmult_le_0_compat; lra).
        assert (X : 0 <= t * (2 * (b - a) + t * D)) by (apply Qmult_le_0_compat; lra).
        lra.
      * assert (P : 0 <= (T - 1) * D) by (apply Qmult_le_0_compat; lra).
        assert (P' : (T - 1) * D == T * D - D) by ring.
        assert (W : 0 <= (1 - t) * D) by (apply Qmult_le_0_compat; lra).
        assert (X : 0 <= (1 - t) * (2 * (b - c) + (1 - t) * D)) by (apply Qmult_le_0_compat; lra).
        lra.
    + (* concave *)
      assert (Dneg : D < 0).
      { destruct (Qlt_le_dec D 0) as [L|G]; [exact L|]. exfalso. apply ND. lra. }
      assert (U : 0 <= t * (1 - t) * (- D)) by (apply Qmult_le_0_compat; lra).
      assert (U' : t * (1 - t) * (- D) == - (t * (1 - t) * D)) by ring.
      assert (V : 0 <= (- D) * ((t - T) * (t - T))) by (apply Qmult_le_0_compat; lra).
      assert (V' : (- D) * ((t - T) * (t - T)) == - (D * ((t - T) * (t - T)))) by ring.
      destruct (Qltb 0 T && Qltb T 1) eqn:EI; [lra|].
      apply andb_false_iff in EI as [EI|EI]; apply Qltb_false in EI.
      * assert (P : 0 <= (- T) * (- D)) by (apply Qmult_le_0_compat; lra).
        assert (P' : (- T) * (- D) == T * D) by ring.
        assert (W : 0 <= t * (- D)) by (apply Qmult_le_0_compat; lra).
        assert (W' : t * (- D) == - (t * D)) by ring.
        assert (X : 0 <= t * (2 * (a - b) + t * (- D))) by (apply Qmult_le_0_compat; lra).
        assert (X' : t * (2 * (a - b) + t * (- D)) == - (t * (2 * (b - a) + t * D))) by ring.
        lra.
      * assert (P : 0 <= (T - 1) * (- D)) by (apply Qmult_le_0_compat; lra).
        assert (P' : (T - 1) * (- D) == D - T * D) by ring.
        assert (W : 0 <= (1 - t) * (- D)) by (apply Qmult_le_0_compat; lra).
        assert (W' : (1 - t) * (- D) == - ((1 - t) * D)) by ring.
        assert (X : 0 <= (1 - t) * (2 * (c - b) + (1 - t) * (- D))) by (apply Qmult_le_0_compat; lra).
        assert (X' : (1 - t) * (2 * (c - b) + (1 - t) * (- D)) == - ((1 - t) * (2 * (b - c) + (1 - t) * D))) by ring.
        lra.
Qed.

Example quad_extremum_ex : bq_lo 0 3 0 == 0 /\ bq_hi 0 3 0 == 3 # 2.
Proof. split; vm_compute; reflexivity. Qed.

(** ... and the bounds are attained (tightness of the quadratic arm): both are values of the curve on [0,1] *)
Theorem quad_extremum_attained a b c :
  (exists t, 0 <= t <= 1 /\ bquad a b c t == bq_lo a b c) /\ (exists t, 0 <= t <= 1 /\ bquad a b c t == bq_hi a b c).
Proof.
  unfold bq_lo, bq_hi.
  assert (A0 : bquad a b c 0 == a) by apply bquad_0. assert (A1 : bquad a b c 1 == c) by apply bquad_1.
  assert (MN : exists t, 0 <= t <= 1 /\ bquad a b c t == Qmin a c).
  { destruct (Q.min_spec a c) as [[_ H]|[_ H]]; [exists 0|exists 1]; rewrite H; split; try lra; assumption. }
  assert (MX : exists t, 0 <= t <= 1 /\ bquad a b c t == Qmax a c).
  { destruct (Q.max_spec a c) as [[_ H]|[_ H]]; [exists 1|exists 0]; rewrite H; split; try lra; assumption. }
  destruct (Qeq_bool (bq_tden a b c) 0); [split; assumption|].
  set (T := (a - b) / bq_tden a b c).
  destruct (Qltb 0 T && Qltb T 1) eqn:EI; [|split; assumption].
  apply andb_true_iff in EI as [E0 E1]. apply Qltb_lt in E0, E1.
  split.
  - destruct (Q.min_spec (Qmin a c) (bquad a b c T)) as [[_ H]|[_ H]].
    + destruct MN as (t0 & R & E). exists t0. split; [exact R|rewrite H; exact E].
    + exists T. split; [lra|rewrite H; reflexivity].
  - destruct (Q.max_spec (Qmax a c) (bquad a b c T)) as [[_ H]|[_ H]].
    + exists T. split; [lra|rewrite H; reflexivity].
    + destruct MX as (t0 & R & E). exists t0. split; [exact R|rewrite H; exact E].
Qed.

(** the arc arm of FastBounds: every point of the FULL ellipse lies in centre +- max(rx, ry)
    (the centre is the one ellipseToCenter derives; it is not modelled, see Corr/C08.v for its tie) *)
Theorem fastbounds_arc_contains rx ry cs sn c u v :
  0 <= rx -> 0 <= ry -> cs * cs + sn * sn == 1 -> u * u + v * v == 1 ->
  let X := ellipse_pos rx ry cs sn c u v in
  let r := Qmax rx ry in
  fst c - r <= fst X <= fst c + r /\ snd c - r <= snd X <= snd c + r.
Proof.
  intros Hx Hy Hc Hu. cbn zeta.
  pose proof (ellipse_extent_x rx ry cs sn c u v Hu) as EX. cbn zeta in EX.
  pose proof (ellipse_extent_y rx ry cs sn c u v Hu) as EY. cbn zeta in EY.
  set (r := Qmax rx ry).
  assert (R1 : rx <= r) by apply Q.le_max_l. assert (R2 : ry <= r) by apply Q.le_max_r.
  assert (R0 : 0 <= r) by lra.
  assert (S1 : rx * rx <= r * r) by (apply sq_mono; lra).
  assert (S2 : ry * ry <= r * r) by (apply sq_mono; lra).
  pose proof (sq_nonneg cs) as C1. pose proof (sq_nonneg sn) as C2.
  assert (A1 : rx * rx * (cs * cs) <= r * r * (cs * cs)) by (apply Qmult_le_compat_r; assumption).
  assert (A2 : ry * ry * (sn * sn) <= r * r * (sn * sn)) by (apply Qmult_le_compat_r; assumption).
  assert (A3 : rx * rx * (sn * sn) <= r * r * (sn * sn)) by (apply Qmult_le_compat_r; assumption).
  assert (A4 : ry * ry * (cs * cs) <= r * r * (cs * cs)) by (apply Qmult_le_compat_r; assumption).
  assert (E : r * r * (cs * cs) + r * r * (sn * sn) == r * r) by (transitivity (r * r * (cs * cs + sn * sn)); [ring|rewrite Hc; ring]).
  assert (BX : (fst (ellipse_pos rx ry cs sn c u v) - fst c) * (fst (ellipse_pos rx ry cs sn c u v) - fst c) <= r * r) by lra.
  assert (BY : (snd (ellipse_pos rx ry cs sn c u v) - snd c) * (snd (ellipse_pos rx ry cs sn c u v) - snd c) <= r * r) by lra.
  apply (sq_le_abs _ _ R0) in BX. apply (sq_le_abs _ _ R0) in BY. lra.
Qed.

(** satisfiability of hypotheses *)
Example chk_touch_ex : chk_touch (1 # 1024) (mkB 0 0 4 (3#2)) 3 [(0, 0); (2, 3); (4, 0)] (1#2) = true.
Proof. vm_compute. reflexivity. Qed.
Example chkq_needs_split_ex : inb 0 (3#2) 3 = false /\ chkq 20 0 (3#2) 0 3 0 = true.
Proof. split; vm_compute; reflexivity. Qed.
Example fastbounds_arc_contains_ex :
  0 <= 10 /\ 0 <= 5 /\ (3#5) * (3#5) + (4#5) * (4#5) == 1 /\ (5#13) * (5#13) + (12#13) * (12#13) == 1.
Proof. repeat split; try reflexivity; discriminate. Qed.
Example on_path_ex : on_path (0, 0) [BQ (2, 3) (4, 0)] (Bquad (0, 0) (2, 3) (4, 0) (1#2)).
Proof. cbn [on_path seg_ctrl bez]. left. exists (1#2). split; [lra|]. cbn [opteq]. apply pteq_refl. Qed.

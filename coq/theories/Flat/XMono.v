(** C03 — x-monotone splitting of Bezier segments (xmonotoneQuadraticBezier / xmonotoneCubicBezier) and the
    structural summary used for the public Flatten / ReplaceArcs / XMonotone entry points. *)
From Coq Require Import ZArith QArith List Bool.
From CV Require Import Base.Dy Flat.Curves Flat.Cert.
Import ListNotations.
Open Scope Q_scope.

(** all consecutive differences of the x-coordinates are >= -eps, or all are <= eps *)
Fixpoint diffs (xs : list Q) : list Q :=
  match xs with
  | a :: ((b :: _) as xs') => (b - a) :: diffs xs'
  | _ => []
  end.

(** the polynomial with Bernstein coefficients ds is >= -eps on [0,1]: all coefficients >= -eps, or (degree 2, the
    derivative of a cubic) the exact discriminant criterion d0 P(t) = (d0 (1-t) + d1 t)^2 + (d0 d2 - d1^2) t^2 *)
Definition nonneg_poly (eps : Q) (ds : list Q) : bool :=
  match ds with
  | [d0; d1; d2] =>
      Qleb (- eps) d0 && Qleb (- eps) d2 && (Qleb (- eps) d1 || Qleb (d1 * d1) ((d0 + eps) * (d2 + eps)))
  | _ => forallb (fun d => Qleb (- eps) d) ds
  end.

Definition one_sign (eps : Q) (ds : list Q) : bool :=
  nonneg_poly eps ds || nonneg_poly eps (map Qopp ds).

Definition xmono_piece (eps : Q) (piece : list pt) : bool := one_sign eps (diffs (map px piece)).

Definition sub_ctrl (ctrl : list pt) (s u : Q) : list pt :=
  match ctrl with
  | [p0; p1; p2] => let '(q0, q1, q2) := quad_sub_f p0 p1 p2 s u in [q0; q1; q2]
  | [p0; p1; p2; p3] => let '(q0, q1, q2, q3) := cube_sub_f p0 p1 p2 p3 s u in [q0; q1; q2; q3]
  | _ => []
  end.

Fixpoint all_close_pts (a b : list pt) (slack : Q) : bool :=
  match a, b with
  | [], [] => true
  | p :: a', q :: b' => close p q slack && all_close_pts a' b' slack
  | _, _ => false
  end.

(** pieces re-join to the original: piece i is (within slack) the de Casteljau sub-curve on [t_i, t_{i+1}] *)
Fixpoint chk_rejoin (ctrl : list pt) (slack : Q) (ts : list Q) (pieces : list (list pt)) : bool :=
  match ts, pieces with
  | [_], [] => true
  | s :: ((u :: _) as ts'), pc :: pieces' =>
      Qltb s u && all_close_pts (sub_ctrl ctrl s u) pc slack && chk_rejoin ctrl slack ts' pieces'
  | _, _ => false
  end.

Definition chk_xmonotone (ctrl : list pt) (slack : Q) (pieces : list (list pt)) (ts : list Q) : bool :=
  Qeqb (hd 1 ts) 0 && Qeqb (last ts 0) 1 &&
  chk_rejoin ctrl slack ts pieces && forallb (xmono_piece slack) pieces.

Definition judge_xmono (ctrl : list pt) (slack : Q) (ok : bool) (pieces : list (list pt)) (ts : list Q) : list Z :=
  if negb ok then [1%Z; 0%Z; 0%Z; 0%Z; 0%Z] else
  if chk_xmonotone ctrl slack pieces ts then [0%Z; Z.of_nat (length pieces); 0%Z; 0%Z; 0%Z]
  else
    let rj := negb (Qeqb (hd 1 ts) 0 && Qeqb (last ts 0) 1 && chk_rejoin ctrl slack ts pieces) in
    let mono := negb (forallb (xmono_piece slack) pieces) in
    [ ((if rj then 4 else 0) + (if mono then 8 else 0) + 32)%Z; Z.of_nat (length pieces); 0%Z; 0%Z; 0%Z ].

(** ** Public entry points: per-subpath summary (start, end, closed, command kinds bit mask 1 L, 2 Q, 4 C, 8 A) *)
Record subpath_sum := mkSS { ss_start : pt; ss_end : pt; ss_closed : bool; ss_cmds : Z }.

Definition ss_same (slack : Q) (a b : subpath_sum) : Z :=
  ((if close (ss_start a) (ss_start b) slack && close (ss_end a) (ss_end b) slack then 0 else 4)
   + (if Bool.eqb (ss_closed a) (ss_closed b) then 0 else 8))%Z.

Fixpoint zip_flags (slack : Q) (a b : list subpath_sum) : Z :=
  match a, b with
  | x :: a', y :: b' => Z.lor (ss_same slack x y) (zip_flags slack a' b')
  | [], [] => 0%Z
  | _, _ => 2%Z
  end.

(** op 0 Flatten: only lines; op 1 ReplaceArcs: no arcs, nothing else changes kind; op 2 XMonotone: same kinds *)
Definition kinds_ok (op : Z) (a b : subpath_sum) : bool :=
  if (op =? 0)%Z then (Z.land (ss_cmds b) 14 =? 0)%Z
  else if (op =? 1)%Z then (Z.land (ss_cmds b) 8 =? 0)%Z
  else (Z.land (ss_cmds b) (Z.lnot (ss_cmds a)) =? 0)%Z.

Fixpoint kinds_flags (op : Z) (a b : list subpath_sum) : bool :=
  match a, b with
  | x :: a', y :: b' => kinds_ok op x y && kinds_flags op a' b'
  | _, _ => true
  end.

Definition pub_slack : Q := 1 # 1073741824.

Definition judge_pub (op : Z) (ok : bool) (inp out : list subpath_sum) : list Z :=
  if negb ok then [1%Z; 0%Z; 0%Z; 0%Z; 0%Z] else
  [ (zip_flags pub_slack inp out + (if kinds_flags op inp out then 0 else 16))%Z; Z.of_nat (length inp); 0%Z; 0%Z; 0%Z ].

// Package curve is an independent evaluator of path segments (no canvas code): uniform sampling of quadratic and
// cubic Béziers by de Casteljau and of elliptical arcs by the SVG endpoint-to-centre conversion (SVG 1.1 F.6.5).
// It is the oracle side of checks that compare the library with a dense polyline of the same path.
package curve

import (
	"math"

	"verifharness/internal/pd"
)

type Pt struct{ X, Y float64 }

func lerp(a, b Pt, t float64) Pt { return Pt{a.X + (b.X-a.X)*t, a.Y + (b.Y-a.Y)*t} }

func Quad(p0, p1, p2 Pt, t float64) Pt {
	return lerp(lerp(p0, p1, t), lerp(p1, p2, t), t)
}

func Cube(p0, p1, p2, p3 Pt, t float64) Pt {
	a, b, c := lerp(p0, p1, t), lerp(p1, p2, t), lerp(p2, p3, t)
	return lerp(lerp(a, b, t), lerp(b, c, t), t)
}

// ArcCenter converts the endpoint parametrisation to (cx, cy, theta1, dtheta, rx, ry) with radii scaled up if needed.
func ArcCenter(x1, y1, rx, ry, phi float64, large, sweep bool, x2, y2 float64) (cx, cy, th1, dth, rxo, ryo float64) {
	cosp, sinp := math.Cos(phi), math.Sin(phi)
	dx, dy := (x1-x2)/2, (y1-y2)/2
	x1p := cosp*dx + sinp*dy
	y1p := -sinp*dx + cosp*dy
	rx, ry = math.Abs(rx), math.Abs(ry)
	lam := x1p*x1p/(rx*rx) + y1p*y1p/(ry*ry)
	if lam > 1 {
		s := math.Sqrt(lam)
		rx, ry = rx*s, ry*s
	}
	num := rx*rx*ry*ry - rx*rx*y1p*y1p - ry*ry*x1p*x1p
	den := rx*rx*y1p*y1p + ry*ry*x1p*x1p
	co := 0.0
	if den != 0 && num > 0 {
		co = math.Sqrt(num / den)
	}
	if large == sweep {
		co = -co
	}
	cxp := co * rx * y1p / ry
	cyp := -co * ry * x1p / rx
	cx = cosp*cxp - sinp*cyp + (x1+x2)/2
	cy = sinp*cxp + cosp*cyp + (y1+y2)/2
	ang := func(ux, uy, vx, vy float64) float64 {
		a := math.Atan2(ux*vy-uy*vx, ux*vx+uy*vy)
		return a
	}
	th1 = ang(1, 0, (x1p-cxp)/rx, (y1p-cyp)/ry)
	dth = ang((x1p-cxp)/rx, (y1p-cyp)/ry, (-x1p-cxp)/rx, (-y1p-cyp)/ry)
	if !sweep && dth > 0 {
		dth -= 2 * math.Pi
	} else if sweep && dth < 0 {
		dth += 2 * math.Pi
	}
	return cx, cy, th1, dth, rx, ry
}

func ArcAt(cx, cy, rx, ry, phi, th float64) Pt {
	cosp, sinp := math.Cos(phi), math.Sin(phi)
	x, y := rx*math.Cos(th), ry*math.Sin(th)
	return Pt{cx + cosp*x - sinp*y, cy + sinp*x + cosp*y}
}

// Sample returns, per subpath, the dense polyline of the decoded path (n pieces per curved segment) and whether
// the subpath is closed. The closing point is not repeated.
func Sample(segs []pd.Seg, n int) (polys [][]Pt, closed []bool) {
	for _, sp := range pd.Subpaths(segs) {
		var c []Pt
		cl := false
		for _, s := range sp {
			p0 := Pt{s.X0, s.Y0}
			switch s.Cmd {
			case 'M':
				c = append(c, Pt{s.X, s.Y})
			case 'L':
				c = append(c, Pt{s.X, s.Y})
			case 'Q':
				for k := 1; k <= n; k++ {
					c = append(c, Quad(p0, Pt{s.A[0], s.A[1]}, Pt{s.X, s.Y}, float64(k)/float64(n)))
				}
			case 'C':
				for k := 1; k <= n; k++ {
					c = append(c, Cube(p0, Pt{s.A[0], s.A[1]}, Pt{s.A[2], s.A[3]}, Pt{s.X, s.Y}, float64(k)/float64(n)))
				}
			case 'A':
				large, sweep := s.A[3] == 1 || s.A[3] == 3, s.A[3] == 2 || s.A[3] == 3
				cx, cy, th1, dth, rx, ry := ArcCenter(s.X0, s.Y0, s.A[0], s.A[1], s.A[2], large, sweep, s.X, s.Y)
				for k := 1; k < n; k++ {
					c = append(c, ArcAt(cx, cy, rx, ry, s.A[2], th1+dth*float64(k)/float64(n)))
				}
				c = append(c, Pt{s.X, s.Y})
			case 'Z':
				cl = true
				if len(c) > 1 && c[len(c)-1] == c[0] {
					c = c[:len(c)-1]
				}
			}
		}
		if cl && len(c) > 1 && c[len(c)-1] == c[0] {
			c = c[:len(c)-1]
		}
		polys = append(polys, c)
		closed = append(closed, cl)
	}
	return
}

(** parse_total (the parser never loops), parse_no_panic (repaired parser; the pinned one is refuted). *)
From Coq Require Import ZArith QArith List Bool Lia.
From CV Require Import PathEnc.Enc PathEnc.EncProofs PathEnc.Builder PathEnc.BuilderProofs Formats.Decimal Formats.SvgPath.
Import ListNotations.
Open Scope Z_scope.

Lemma skip_ws_le : forall b, (skip_ws b <= length b)%nat.
Proof. induction b as [|c r IH]; cbn [skip_ws length]; [lia|]. destruct (is_ws c); lia. Qed.

Lemma slice_from_some : forall d i, (i <= length d)%nat -> slice_from d i = Some (skipn i d).
Proof. intros d i H. unfold slice_from. apply Nat.leb_le in H. rewrite H. reflexivity. Qed.

Lemma slice_from_inv : forall d i s, slice_from d i = Some s -> (i <= length d)%nat /\ s = skipn i d.
Proof.
  intros d i s H. unfold slice_from in H. destruct (i <=? length d)%nat eqn:E; [|discriminate].
  apply Nat.leb_le in E. inversion H. auto.
Qed.

Lemma skipn_len : forall (d : list Z) i, (i <= length d)%nat -> length (skipn i d) = (length d - i)%nat.
Proof. intros. apply skipn_length. Qed.

(** ---------------- the argument loop: monotone, progresses, stays inside the slice --------------- *)
Lemma read_args_mono : forall d CMD rep k j i acc i2 fs,
  read_args d CMD rep k j i acc = AOk i2 fs -> (i <= i2)%nat.
Proof.
  induction k as [|k IH]; intros j i acc i2 fs H; cbn [read_args] in H.
  - inversion H; subst. lia.
  - destruct ((CMD =? 65) && ((j =? 3)%nat || (j =? 4)%nat)).
    + destruct (nth_error d i) as [c|]; [|discriminate].
      destruct (c =? 49).
      * destruct (slice_from d (S i)); [|discriminate]. apply IH in H. lia.
      * destruct (c =? 48); [|discriminate]. destruct (slice_from d (S i)); [|discriminate]. apply IH in H. lia.
    + destruct (slice_from d i) as [s|]; [|discriminate].
      destruct (pf_len (parse_float s)) as [|n] eqn:En.
      * destruct (rep && (j =? 0)%nat && (i <? length d)%nat); [discriminate|]. destruct (1 <? nargs CMD)%nat; discriminate.
      * destruct (pf_value (parse_float s)); [|discriminate].
        destruct (slice_from d (i + S n)); [|discriminate]. apply IH in H. lia.
Qed.

Lemma read_args_progress : forall d CMD rep k i acc i2 fs,
  read_args d CMD rep (S k) 0 i acc = AOk i2 fs -> (i < i2)%nat.
Proof.
  intros d CMD rep k i acc i2 fs H. cbn [read_args] in H.
  replace ((CMD =? 65) && ((0 =? 3)%nat || (0 =? 4)%nat)) with false in H by (destruct (CMD =? 65); reflexivity).
  destruct (slice_from d i) as [s|]; [|discriminate].
  destruct (pf_len (parse_float s)) as [|n] eqn:En.
  - destruct (rep && (0 =? 0)%nat && (i <? length d)%nat); [discriminate|]. destruct (1 <? nargs CMD)%nat; discriminate.
  - destruct (pf_value (parse_float s)); [|discriminate].
    destruct (slice_from d (i + S n)); [|discriminate]. apply read_args_mono in H. lia.
Qed.

Lemma read_args_inrange : forall d CMD rep k j i acc,
  (i <= length d)%nat ->
  match read_args d CMD rep k j i acc with
  | AOk i2 _ => (i2 <= length d)%nat
  | APanic => False
  | _ => True
  end.
Proof.
  induction k as [|k IH]; intros j i acc Hi; cbn [read_args]; [exact Hi|].
  destruct ((CMD =? 65) && ((j =? 3)%nat || (j =? 4)%nat)).
  - destruct (nth_error d i) as [c|] eqn:En; [|exact I].
    assert (Hlt : (i < length d)%nat) by (apply nth_error_Some; congruence).
    assert (HS : slice_from d (S i) = Some (skipn (S i) d)) by (apply slice_from_some; lia).
    assert (Hn : (S i + skip_ws (skipn (S i) d) <= length d)%nat).
    { pose proof (skip_ws_le (skipn (S i) d)) as P. rewrite skipn_length in P. lia. }
    destruct (c =? 49); [rewrite HS; apply IH; exact Hn|].
    destruct (c =? 48); [rewrite HS; apply IH; exact Hn|exact I].
  - rewrite (slice_from_some d i Hi).
    pose proof (parse_float_len (skipn i d)) as PL. rewrite skipn_length in PL.
    destruct (pf_len (parse_float (skipn i d))) as [|n] eqn:En.
    + destruct (rep && (j =? 0)%nat && (i <? length d)%nat); [exact I|]. destruct (1 <? nargs CMD)%nat; exact I.
    + destruct (pf_value (parse_float (skipn i d))); [|exact I].
      rewrite (slice_from_some d (i + S n)) by lia. apply IH.
      pose proof (skip_ws_le (skipn (i + S n) d)) as P. rewrite skipn_length in P. lia.
Qed.

(** ---------------- commands ---------------- *)
Lemma known_upper : forall c, known_cmd c = true ->
  In (upper c) [77; 90; 76; 72; 86; 67; 83; 81; 84; 65].
Proof.
  intros c H. unfold known_cmd in H. apply existsb_exists in H. destruct H as [x [Hin Hx]].
  apply Z.eqb_eq in Hx. subst x. cbn [In] in Hin.
  repeat (destruct Hin as [Hin|Hin]; [subst c; vm_compute; tauto|]). contradiction.
Qed.

Lemma known_nargs : forall c, known_cmd c = true -> c <> 122 -> c <> 90 -> (1 <= nargs (upper c))%nat.
Proof.
  intros c H N1 N2. unfold known_cmd in H. apply existsb_exists in H. destruct H as [x [Hin Hx]].
  apply Z.eqb_eq in Hx. subst x. cbn [In] in Hin.
  repeat (destruct Hin as [Hin|Hin]; [subst c; try (exfalso; apply N1; reflexivity); try (exfalso; apply N2; reflexivity); vm_compute; lia|]).
  contradiction.
Qed.

(** stored arc values supplied to the relational ArcTo are valid arc fields (any flags) *)
Definition orc_ok (orc : list (Q * Q * Q)) : Prop :=
  Forall (fun o => forall l s, arc_ok (fst (fst o)) (snd (fst o)) (snd o) (arc_flags l s) = true) orc.

Lemma orc_default_ok : forall l s, arc_ok 1%Q 1%Q 0%Q (arc_flags l s) = true.
Proof. destruct l, s; vm_compute; reflexivity. Qed.

Lemma orc_tl : forall orc, orc_ok orc -> orc_ok (tl orc).
Proof. intros orc H. destruct orc; [exact H|]. inversion H; assumption. Qed.

Lemma apply_up_ok : forall CMD rel cmd fs st,
  In CMD [77; 90; 76; 72; 86; 67; 83; 81; 84; 65] ->
  known_cmd cmd = true -> Inv (p_rd st) -> orc_ok (p_orc st) ->
  exists st', apply_up CMD rel cmd fs st = Some st' /\ Inv (p_rd st') /\ orc_ok (p_orc st')
              /\ p_i st' = p_i st /\ known_cmd (p_prev st') = true.
Proof.
  intros CMD rel cmd fs st Hin Hk HI Ho. cbn [In] in Hin.
  unfold apply_up. cbv beta zeta.
  repeat (destruct Hin as [Hin|Hin]; [subst CMD; cbn [Z.eqb Pos.eqb]|]); try contradiction.
  - (* M *) match goal with |- context [move_to ?x ?y (p_rd st)] => destruct (move_to_inv x y _ HI) as [rd' [E HI']] end.
    rewrite E. eexists; split; [reflexivity|]. cbn [p_rd p_orc p_i p_prev]. repeat split; auto. destruct rel; reflexivity.
  - (* Z *) destruct HI as [rs [Erd Hw]]. rewrite Erd, startpos_renc.
    destruct (close_inv (renc rs)) as [rd' [E HI']]; [exists rs; auto|].
    rewrite E. eexists; split; [reflexivity|]. cbn [p_rd p_orc p_i p_prev]. repeat split; auto.
  - (* L *) match goal with |- context [line_to Fixed ?x ?y (p_rd st)] => destruct (line_to_inv x y _ HI) as [rd' [E HI']] end.
    rewrite E. eexists; split; [reflexivity|]. cbn [p_rd p_orc p_i p_prev]. repeat split; auto.
  - (* H *) match goal with |- context [line_to Fixed ?x ?y (p_rd st)] => destruct (line_to_inv x y _ HI) as [rd' [E HI']] end.
    rewrite E. eexists; split; [reflexivity|]. cbn [p_rd p_orc p_i p_prev]. repeat split; auto.
  - (* V *) match goal with |- context [line_to Fixed ?x ?y (p_rd st)] => destruct (line_to_inv x y _ HI) as [rd' [E HI']] end.
    rewrite E. eexists; split; [reflexivity|]. cbn [p_rd p_orc p_i p_prev]. repeat split; auto.
  - (* C *) match goal with |- context [cube_to Fixed ?a ?b ?c ?e ?x ?y (p_rd st)] => destruct (cube_to_inv a b c e x y _ HI) as [rd' [E HI']] end.
    rewrite E. eexists; split; [reflexivity|]. cbn [p_rd p_orc p_i p_prev]. repeat split; auto.
  - (* S *) match goal with |- context [cube_to Fixed ?a ?b ?c ?e ?x ?y (p_rd st)] => destruct (cube_to_inv a b c e x y _ HI) as [rd' [E HI']] end.
    rewrite E. eexists; split; [reflexivity|]. cbn [p_rd p_orc p_i p_prev]. repeat split; auto.
  - (* Q *) match goal with |- context [quad_to Fixed ?a ?b ?x ?y (p_rd st)] => destruct (quad_to_inv a b x y _ HI) as [rd' [E HI']] end.
    rewrite E. eexists; split; [reflexivity|]. cbn [p_rd p_orc p_i p_prev]. repeat split; auto.
  - (* T *) match goal with |- context [quad_to Fixed ?a ?b ?x ?y (p_rd st)] => destruct (quad_to_inv a b x y _ HI) as [rd' [E HI']] end.
    rewrite E. eexists; split; [reflexivity|]. cbn [p_rd p_orc p_i p_prev]. repeat split; auto.
  - (* A *)
    assert (Harc : forall l s, arc_ok (fst (fst (match p_orc st with o :: _ => o | [] => (1%Q, 1%Q, 0%Q) end)))
                                      (snd (fst (match p_orc st with o :: _ => o | [] => (1%Q, 1%Q, 0%Q) end)))
                                      (snd (match p_orc st with o :: _ => o | [] => (1%Q, 1%Q, 0%Q) end)) (arc_flags l s) = true).
    { intros l s. destruct (p_orc st) as [|o r]; [apply orc_default_ok|]. inversion Ho; subst. auto. }
    match goal with |- context [arc_to Fixed ?rx ?ry ?l ?s ?x ?y ?a ?b ?c (p_rd st)] =>
      destruct (arc_to_inv rx ry l s x y a b c _ (Harc l s) HI) as [rd' [E HI']] end.
    rewrite E. eexists; split; [reflexivity|]. cbn [p_rd p_orc p_i p_prev]. repeat split; auto.
    match goal with |- orc_ok (if ?c then _ else _) => destruct c end; [apply orc_tl|]; assumption.
Qed.

(** ---------------- one iteration ---------------- *)
Definition PInv (d : list Z) (st : pst) : Prop :=
  (p_i st <= length d)%nat /\ Inv (p_rd st) /\ orc_ok (p_orc st) /\ known_cmd (p_prev st) = true.

Lemma iter_step : forall d st, PInv d st ->
  match iter d st with
  | inl st' => PInv d st' /\ (p_i st < p_i st')%nat /\ (p_i st < length d)%nat
  | inr r => r <> PPanic /\ r <> PFuel
  end.
Proof.
  intros d st [Hi [HI [Ho Hk]]]. unfold iter.
  rewrite (slice_from_some d (p_i st) Hi).
  pose proof (skip_ws_le (skipn (p_i st) d)) as P. rewrite skipn_length in P.
  set (i := (p_i st + skip_ws (skipn (p_i st) d))%nat) in *.
  destruct (length d <=? i)%nat eqn:El; [split; discriminate|]. apply Nat.leb_gt in El.
  destruct (nth_error d i) as [ci|] eqn:En; [|exfalso; apply nth_error_None in En; lia].
  set (hd := if (p_prev st =? 122) || (p_prev st =? 90) || negb (numeric_start ci)
             then match slice_from d (S i) with
                  | None => None
                  | Some s2 => Some (ci, false, (S i + skip_ws s2)%nat)
                  end
             else Some (p_prev st, true, i)).
  assert (Hhd : exists cmd rep i1, hd = Some (cmd, rep, i1) /\ (i1 <= length d)%nat /\ (i <= i1)%nat /\
                 ((rep = false /\ (i < i1)%nat) \/ (rep = true /\ cmd = p_prev st /\ cmd <> 122 /\ cmd <> 90 /\ i1 = i))).
  { subst hd. destruct ((p_prev st =? 122) || (p_prev st =? 90) || negb (numeric_start ci)) eqn:Ec.
    - rewrite (slice_from_some d (S i)) by lia.
      pose proof (skip_ws_le (skipn (S i) d)) as P2. rewrite skipn_length in P2.
      eexists _, _, _. split; [reflexivity|]. split; [lia|]. split; [lia|]. left. split; [reflexivity|lia].
    - apply orb_false_iff in Ec. destruct Ec as [Ec _]. apply orb_false_iff in Ec. destruct Ec as [E1 E2].
      apply Z.eqb_neq in E1. apply Z.eqb_neq in E2.
      eexists _, _, _. split; [reflexivity|]. split; [lia|]. split; [lia|]. right. repeat split; auto. }
  destruct Hhd as [cmd [rep [i1 [-> [Hi1 [Hii1 Hcase]]]]]].
  pose proof (read_args_inrange d (upper cmd) rep (nargs (upper cmd)) 0 i1 [] Hi1) as RA.
  destruct (read_args d (upper cmd) rep (nargs (upper cmd)) 0 i1 []) as [i2 fs| | |] eqn:Er;
    try (split; discriminate); [|contradiction].
  destruct (known_cmd cmd) eqn:Ekc; [|split; discriminate].
  unfold apply_cmd.
  destruct (apply_up_ok (upper cmd) (97 <=? cmd) cmd fs st (known_upper cmd Ekc) Ekc HI Ho) as [st' [E [HI' [Ho' [Hi' Hk']]]]].
  rewrite E. split; [|split].
  - unfold PInv. cbn [p_i p_rd p_orc p_prev]. auto.
  - cbn [p_i]. subst i.
    destruct Hcase as [[_ Hlt]|[_ [Hc [N1 [N2 Hieq]]]]].
    + apply read_args_mono in Er. lia.
    + pose proof (known_nargs cmd Ekc N1 N2) as Hn.
      destruct (nargs (upper cmd)) as [|k] eqn:Enk; [lia|].
      apply read_args_progress in Er. lia.
  - subst i. lia.
Qed.

Lemma loop_ok : forall fuel d st, PInv d st -> (length d - p_i st < fuel)%nat ->
  loop fuel d st <> PPanic /\ loop fuel d st <> PFuel.
Proof.
  induction fuel as [|f IH]; intros d st HP Hf; [lia|].
  cbn [loop]. pose proof (iter_step d st HP) as S. destruct (iter d st) as [st'|r].
  - destruct S as [HP' [Hlt Hlen]]. apply IH; [exact HP'|lia].
  - exact S.
Qed.

Lemma PInv_start : forall d orc, orc_ok orc -> PInv d (mkP (skip_ws d) [] (0, 0)%Q (0, 0)%Q (0, 0)%Q (0, 0)%Q 122 orc).
Proof.
  intros d orc Ho. unfold PInv. cbn [p_i p_rd p_orc p_prev]. repeat split.
  - apply skip_ws_le. - apply Inv_nil. - exact Ho.
Qed.

(** parse_no_panic: the repaired parser never takes an out-of-range access, for EVERY byte string
    (arcs relational: the stored radii/rotation supplied to the model are valid arc fields). *)
Theorem parse_no_panic : forall d orc, orc_ok orc -> parse PFixed d orc <> PPanic.
Proof.
  intros d orc Ho. unfold parse. destruct d as [|c0 r]; [discriminate|].
  set (d := c0 :: r) in *.
  destruct (length d <=? skip_ws d)%nat eqn:El; [discriminate|]. apply Nat.leb_gt in El.
  destruct (c0 =? 44); [discriminate|].
  destruct (nth_error d (skip_ws d)) as [ci|] eqn:En; [|exfalso; apply nth_error_None in En; lia].
  destruct (ci <? 65); [discriminate|].
  apply loop_ok; [apply PInv_start; exact Ho|cbn [p_i]; lia].
Qed.

(** parse_total: within fuel len+1 the model returns Ok, Err or Panic for EVERY byte string and BOTH variants
    — each loop iteration consumes at least one byte or returns: the Go loop terminates. *)
Theorem parse_total : forall v d orc, orc_ok orc -> parse v d orc <> PFuel.
Proof.
  intros v d orc Ho. unfold parse. destruct d as [|c0 r]; [discriminate|].
  set (d := c0 :: r) in *.
  destruct v.
  - destruct (c0 =? 44); [discriminate|].
    destruct (nth_error d (skip_ws d)) as [ci|] eqn:En; [|discriminate].
    destruct (ci <? 65); [discriminate|].
    apply loop_ok; [apply PInv_start; exact Ho|cbn [p_i]; lia].
  - destruct (length d <=? skip_ws d)%nat; [discriminate|].
    destruct (c0 =? 44); [discriminate|].
    destruct (nth_error d (skip_ws d)) as [ci|] eqn:En; [|discriminate].
    destruct (ci <? 65); [discriminate|].
    apply loop_ok; [apply PInv_start; exact Ho|cbn [p_i]; lia].
Qed.

(** the pinned parser panics on white space only: "   " reads path[3] of a 3-byte slice *)
Theorem parse_no_panic_orig_refuted : exists d, parse POrig d [] = PPanic.
Proof. exists [32; 32; 32]. vm_compute. reflexivity. Qed.

Example parse_fixed_ws : parse PFixed [32; 32; 32] [] = POk [].
Proof. vm_compute. reflexivity. Qed.

Example orc_ok_example : orc_ok [((2#1)%Q, 1%Q, (1#2)%Q)].
Proof. constructor; [|constructor]. intros l s. destruct l, s; vm_compute; reflexivity. Qed.

(** a non-trivial run: relative commands, H/V, reflection, implicit repetition, packed arc flags *)
Example parse_example :
  (* "M1 2h3v-1 2t1 1 2 2A2 1 0 011-2z" *)
  match parse PFixed [77; 49; 32; 50; 104; 51; 118; 45; 49; 32; 50; 116; 49; 32; 49; 32; 50; 32; 50; 65; 50; 32; 49; 32; 48; 32; 48; 49; 49; 45; 50; 122] [((2#1)%Q, 1%Q, 0%Q)] with
  | POk rd => wf_data (data rd) = true /\ (length rd > 20)%nat
  | _ => False
  end.
Proof. vm_compute. split; [reflexivity|lia]. Qed.

// Float-side helpers of the C03 harness: Bezier evaluation, untrusted recovery of the curve parameter of
// each vertex returned by the Go flatteners (the recovered parameters are only a *certificate*: the Coq
// checker re-evaluates B(t) exactly and rejects a wrong one), and float copies of the checker's bounds used
// by -probe to report how far the implementation is from the certified bound.
package main

import (
	"math"

	"github.com/tdewolff/canvas"
)

type P = canvas.Point

func lerp(a, b P, t float64) P { return P{X: a.X + (b.X-a.X)*t, Y: a.Y + (b.Y-a.Y)*t} }
func sub(a, b P) P             { return P{X: a.X - b.X, Y: a.Y - b.Y} }
func dot(a, b P) float64       { return a.X*b.X + a.Y*b.Y }
func crs(a, b P) float64       { return a.X*b.Y - a.Y*b.X }

// bez evaluates a Bezier of degree len(c)-1 by de Casteljau.
func bez(c []P, t float64) P {
	q := append([]P{}, c...)
	for n := len(q) - 1; n > 0; n-- {
		for i := 0; i < n; i++ {
			q[i] = lerp(q[i], q[i+1], t)
		}
	}
	return q[0]
}

func bezDeriv(c []P, t float64) P {
	n := len(c) - 1
	d := make([]P, n)
	for i := 0; i < n; i++ {
		d[i] = P{X: float64(n) * (c[i+1].X - c[i].X), Y: float64(n) * (c[i+1].Y - c[i].Y)}
	}
	return bez(d, t)
}

// sub-curve control points on [s,u] (blossom).
func subCurve(c []P, s, u float64) []P {
	n := len(c) - 1
	out := make([]P, n+1)
	for k := 0; k <= n; k++ {
		// blossom with k arguments u and n-k arguments s
		q := append([]P{}, c...)
		for j := 0; j < n; j++ {
			t := s
			if j < k {
				t = u
			}
			for i := 0; i < n-j; i++ {
				q[i] = lerp(q[i], q[i+1], t)
			}
		}
		out[k] = q[0]
	}
	return out
}

// recoverParams returns for every vertex a parameter t with B(t) ~ v, increasing along the list.
// First vertex 0, last vertex 1. Untrusted search (scan for the first local minimum of |B(t)-v|^2 after the
// previous parameter, then Newton on (B(t)-v).B'(t) = 0).
func recoverParams(c []P, vs []P) []float64 {
	ts := make([]float64, len(vs))
	if len(vs) == 0 {
		return ts
	}
	ts[len(vs)-1] = 1
	ext := 1e-300
	for _, p := range c {
		ext = math.Max(ext, math.Max(math.Abs(p.X-c[0].X), math.Abs(p.Y-c[0].Y)))
	}
	thr := (1e-9 * ext) * (1e-9 * ext)
	prev := 0.0
	const M = 1024
	for i := 1; i+1 < len(vs); i++ {
		v := vs[i]
		f := func(t float64) float64 { d := sub(bez(c, t), v); return dot(d, d) }
		newton := func(t float64) float64 {
			for k := 0; k < 12; k++ {
				d := bezDeriv(c, t)
				e := sub(bez(c, t), v)
				den := dot(d, d)
				if den == 0 {
					break
				}
				nt := t - dot(e, d)/den
				if !(nt >= prev) || nt > 1 || math.IsNaN(nt) {
					break
				}
				if f(nt) <= f(t) {
					t = nt
				} else {
					break
				}
			}
			return t
		}
		best, bestF := prev, math.Inf(1)
		found := false
		try := func(t float64) {
			if found {
				return
			}
			if ft := f(t); ft < bestF {
				best, bestF = t, ft
				if ft <= thr && t > prev {
					found = true
				}
			}
		}
		// 1. the vertex is usually a short step ahead: Gauss-Newton from the previous parameter
		try(newton(prev))
		// 2. scan for the first local minimum of the distance after prev (log-spaced near prev, then uniform)
		var grid []float64
		h := (1 - prev) / M
		for k := 40; k >= 1; k-- { // log-spaced inside the first uniform cell
			grid = append(grid, prev+h*math.Ldexp(1, -k))
		}
		for j := 1; j <= M; j++ {
			grid = append(grid, prev+h*float64(j))
		}
		grid = append([]float64{prev}, grid...)
		for j := 1; j+1 < len(grid) && !found; j++ {
			f0, f1, f2 := f(grid[j-1]), f(grid[j]), f(grid[j+1])
			if f1 <= f0 && f1 <= f2 {
				lo, hi := grid[j-1], grid[j+1]
				for k := 0; k < 80; k++ {
					m1, m2 := lo+(hi-lo)/3, hi-(hi-lo)/3
					if f(m1) < f(m2) {
						hi = m2
					} else {
						lo = m1
					}
				}
				try(newton((lo + hi) / 2))
			}
		}
		if !found {
			// a vertex inside the last cell of the grid (a step that lands just before the end of the curve): the scan above
			// sees the distance fall all the way to t = 1 and no interior minimum
			lo, hi := grid[len(grid)-3], 1.0
			for k := 0; k < 80; k++ {
				m1, m2 := lo+(hi-lo)/3, hi-(hi-lo)/3
				if f(m1) < f(m2) {
					hi = m2
				} else {
					lo = m1
				}
			}
			try(newton((lo + hi) / 2))
		}
		if !found {
			try(1)
		}
		ts[i] = best
		prev = best
	}
	return ts
}

// ---- float copies of the checker's per-piece bounds (probe only) ------------------------------------------

func sq(x float64) float64 { return x * x }

func quadPieceBound2(q []P) float64 {
	c, d1 := sub(q[2], q[0]), sub(q[1], q[0])
	cc := dot(c, c)
	if cc == 0 {
		return dot(d1, d1) / 4
	}
	x, dc := crs(d1, c), dot(d1, c)
	b := x * x / (4 * cc)
	if dc < 0 {
		b += sq(dc*dc) / (cc * sq(cc-2*dc))
	} else if dc > cc {
		e := dc - cc
		b += sq(e*e) / (cc * sq(cc+2*e))
	}
	return b
}

func cubePieceBound2(q []P) float64 {
	c, d1, d2 := sub(q[3], q[0]), sub(q[1], q[0]), sub(q[2], q[0])
	cc := dot(c, c)
	if cc == 0 {
		return 9.0 / 16 * math.Max(dot(d1, d1), dot(d2, d2))
	}
	x1, x2 := crs(d1, c), crs(d2, c)
	m := math.Max(x1*x1, x2*x2)
	var b float64
	if x1*x2 >= 0 {
		b = math.Min(9.0/16*m, 16.0/81*sq(math.Abs(x1)+math.Abs(x2))) / cc
	} else {
		b = 16.0 / 81 * m / cc
	}
	a1, a2 := dot(d1, c), dot(d2, c)
	neg := func(x float64) float64 { return math.Max(0, -x) }
	u := neg(a1) + neg(a2)
	v := neg(cc-a1) + neg(cc-a2)
	o := math.Max(u, v)
	b += 16.0 / 81 * o * o / cc
	return b
}

// sampled one-sided deviation: max over curve samples of the distance to the polyline (probe only).
func ptSegDist2(p, a, b P) float64 {
	ab := sub(b, a)
	l := dot(ab, ab)
	t := 0.0
	if l > 0 {
		t = math.Max(0, math.Min(1, dot(sub(p, a), ab)/l))
	}
	d := sub(p, lerp(a, b, t))
	return dot(d, d)
}

func sampledDev(c []P, vs []P, n int) float64 {
	worst := 0.0
	for i := 0; i <= n; i++ {
		p := bez(c, float64(i)/float64(n))
		best := math.Inf(1)
		for j := 0; j+1 < len(vs); j++ {
			best = math.Min(best, ptSegDist2(p, vs[j], vs[j+1]))
		}
		if len(vs) == 1 {
			d := sub(p, vs[0])
			best = dot(d, d)
		}
		worst = math.Max(worst, best)
	}
	return math.Sqrt(worst)
}

// minRho: smallest radius of curvature |B'|^3/|B' x B''| over samples of [s,u] (0 at a cusp).
func minRho(c []P, s, u float64) float64 {
	n := len(c) - 1
	d1 := make([]P, n)
	for i := 0; i < n; i++ {
		d1[i] = P{X: float64(n) * (c[i+1].X - c[i].X), Y: float64(n) * (c[i+1].Y - c[i].Y)}
	}
	d2 := make([]P, n-1)
	for i := 0; i < n-1; i++ {
		d2[i] = P{X: float64(n-1) * (d1[i+1].X - d1[i].X), Y: float64(n-1) * (d1[i+1].Y - d1[i].Y)}
	}
	best := math.Inf(1)
	for i := 0; i <= 400; i++ {
		t := s + (u-s)*float64(i)/400
		v, a := bez(d1, t), bez(d2, t)
		sp := math.Hypot(v.X, v.Y)
		x := math.Abs(crs(v, a))
		var rho float64
		if sp == 0 {
			rho = 0
		} else if x == 0 {
			rho = math.Inf(1)
		} else {
			rho = sp * sp * sp / x
		}
		best = math.Min(best, rho)
	}
	return best
}

// minTurnDot: min over sample pairs in [s,u] of B'(t1).B'(t2) normalised (cosine); <= 0 means the tangent
// turns by at least 90 degrees inside the piece.
func minTurnDot(c []P, s, u float64) float64 {
	const N = 24
	var d [N + 1]P
	for i := 0; i <= N; i++ {
		d[i] = bezDeriv(c, s+(u-s)*float64(i)/N)
	}
	best := 1.0
	for i := 0; i <= N; i++ {
		for j := i + 1; j <= N; j++ {
			l := math.Hypot(d[i].X, d[i].Y) * math.Hypot(d[j].X, d[j].Y)
			if l == 0 {
				return 0
			}
			best = math.Min(best, dot(d[i], d[j])/l)
		}
	}
	return best
}

// turnWitness looks for t1 <= t2 in [s,u] with B'(t1).B'(t2) <= 0 (most negative cosine over a sample grid).
func turnWitness(c []P, s, u float64) (float64, float64, bool) {
	const N = 32
	var d [N + 1]P
	var t [N + 1]float64
	for i := 0; i <= N; i++ {
		t[i] = s + (u-s)*float64(i)/N
		if i == N {
			t[i] = u
		}
		d[i] = bezDeriv(c, t[i])
	}
	best, bi, bj := math.Inf(1), -1, -1
	for i := 0; i <= N; i++ {
		for j := i + 1; j <= N; j++ {
			l := math.Hypot(d[i].X, d[i].Y) * math.Hypot(d[j].X, d[j].Y)
			v := 0.0
			if l > 0 {
				v = dot(d[i], d[j]) / l
			}
			if v < best {
				best, bi, bj = v, i, j
			}
		}
	}
	if bi < 0 || best > 0 {
		return 0, 0, false
	}
	return t[bi], t[bj], true
}

(** Correspondence judge for C05: compares what the Go code returned (recorded in the case by the harness)
    with the faithful model (tie flags) and with the specification (property flags). *)
From Coq Require Import ZArith QArith Qabs Qround Qround List Bool Arith.
From CV Require Import Base.Dy Dash.DashPhase Geom.Matrix Geom.Bezier Split.Cert.
Import ListNotations.
Open Scope Q_scope.

Definition bit (b : bool) (k : Z) : Z := if b then k else 0%Z.
Definition qeqb := Qeq_bool.
Fixpoint ql_eqb (l1 l2 : list Q) : bool :=
  match l1, l2 with
  | [], [] => true
  | a :: l1', b :: l2' => qeqb a b && ql_eqb l1' l2'
  | _, _ => false
  end.
Definition qabs_le (x s : Q) : bool := Qle_bool x s && Qle_bool (- s) x.

(* ============================================================================================== *)
(** * K1: phase bookkeeping *)

Record k1case := mkK1 {
  k_eps : Q; k_off : Q; k_d : list Q; k_L : Q;
  g_coff : Q; g_cd : list Q;                       (* dashCanonical(off, d) *)
  g_has_start : bool; g_i0 : Z; g_pos0 : Q;        (* dashStart(coff, dbl cd), only for a positive cd *)
  g_ok : bool; g_doff : Q; g_dd : list Q;          (* Context.DrawPath: stroke kept, style.DashOffset, style.Dashes *)
  g_draw_eq : bool;                                (* what DrawPath's decision draws == p.Dash(off, d...) (exact data) *)
  g_second_eq : bool;                              (* DrawPath(p, p): the second decision equals the first *)
  g_mut : bool;                                    (* the caller's dash array was modified *)
  g_panic : bool }.

Definition is_int (x : Q) : bool := qeqb x (inject_Z (Qfloor x)).

(** the phase returned by dashStart is right: element i0 of the pattern begins at path position pos0 <= 0 *)
Definition phase_okb (dd : list Q) (off : Q) (i0 : nat) (pos0 : Q) : bool :=
  (i0 <? length dd)%nat && Qle_bool pos0 0 && is_int ((pos0 + off - prefix dd i0) / qsum dd).

(** sample positions around every boundary of the original (doubled) pattern, one period *)
Fixpoint bounds_of (l : list Q) (acc : Q) : list Q :=
  match l with [] => [] | a :: l' => (acc + a) :: bounds_of l' (acc + a) end.

Definition canon_samples (d : list Q) (off : Q) (h : Q) : list Q :=
  flat_map (fun b => [b - h - off; b + h - off]) (0 :: bounds_of (dbl d) 0).

Definition allposb (l : list Q) : bool := forallb (fun x => negb (Qle_bool x 0)) l.
Definition nonnegb (l : list Q) : bool := forallb (fun x => Qle_bool 0 x) l.

(** flags: 1 tie dashCanonical, 2 tie dashStart, 4 tie checkDash (DrawPath decision),
    8 PROP dashStart phase wrong, 16 PROP canonical pattern draws differently from the original,
    32 PROP DrawPath's decision draws something else than Dash, 64 PROP second path of one DrawPath call decided
    differently, 128 PROP caller's dash array modified, 256 PROP panic.
    class: 0 identity, 1 nothing, 2 first element covers the path, 3 cuts *)
Definition judge_k1 (h : Q) (c : k1case) : list Z :=
  let eps := k_eps c in
  let '(moff, mc) := dash_canonical eps (k_off c) (k_d c) in
  let tie_c := negb (qeqb moff (g_coff c) && ql_eqb mc (g_cd c)) in
  let dd := dbl (g_cd c) in
  let tie_s := g_has_start c &&
               (let '(i0, p0) := dash_start (g_coff c) dd in
                negb ((Z.of_nat i0 =? g_i0 c)%Z && qeqb p0 (g_pos0 c))) in
  let '(xoff, xd, xok) := check_dash eps (k_off c) (k_d c) (k_L c) in
  let tie_k := negb (Bool.eqb xok (g_ok c) && ql_eqb xd (g_dd c) &&
                     (is_nil xd || negb xok || qeqb xoff (g_doff c))) in
  let p_s := g_has_start c && negb (phase_okb dd (g_coff c) (Z.to_nat (g_i0 c)) (g_pos0 c)) in
  let p_c := nonnegb (k_d c) && negb (is_nil (k_d c)) &&
             negb (forallb (fun s => Bool.eqb (on (k_d c) (k_off c) s)
                                       (if is_nil (g_cd c) then true
                                        else if is_zero1 (g_cd c) then false
                                        else on (g_cd c) (g_coff c) s))
                           (canon_samples (k_d c) (k_off c) h)) in
  let r := dash_model eps (k_off c) (k_d c) (k_L c) in
  let cls := match r with
             | DIdentity => 0%Z | DNothing => 1%Z
             | DCuts [] _ => 2%Z | DCuts _ _ => 3%Z | DFuel => 9%Z end in
  let ncuts := match r with DCuts t _ => Z.of_nat (length t) | _ => 0%Z end in
  [ (bit tie_c 1 + bit tie_s 2 + bit tie_k 4 + bit p_s 8 + bit p_c 16 + bit (negb (g_draw_eq c)) 32
     + bit (negb (g_second_eq c)) 64 + bit (g_mut c) 128 + bit (g_panic c) 256)%Z; cls; ncuts ].

(* ============================================================================================== *)
(** * K2: Path.Dash on polylines with rational segment lengths *)

Record cpt := mkP { px : Q; py : Q; pk : Z; pt : Q }.   (* output point; certificate: on segment pk at parameter pt *)
Record sub := mkSub { s_closed : bool; s_verts : list (Q * Q); s_lens : list Q; s_pieces : list (list cpt) }.
Record k2case := mkK2 { c_eps : Q; c_off : Q; c_d : list Q; c_slack : Q;
                        c_concat_ok : bool; c_panic : bool; c_subs : list sub }.

Fixpoint lens_ok (vs : list (Q * Q)) (ls : list Q) : bool :=
  match vs, ls with
  | a :: ((b :: _) as vs'), l :: ls' =>
    Qle_bool 0 l && qeqb (l * l) ((fst b - fst a) * (fst b - fst a) + (snd b - snd a) * (snd b - snd a)) && lens_ok vs' ls'
  | [_], [] => true
  | _, _ => false
  end.

Fixpoint cums (ls : list Q) (acc : Q) : list Q :=
  match ls with [] => [acc] | l :: ls' => acc :: cums ls' (acc + l) end.

(** certificate check: the point is within slack of vertex_k + t (vertex_{k+1} - vertex_k), 0 <= t <= 1;
    returns the arc-length position *)
Definition cert_pos (vs : list (Q * Q)) (ls cs : list Q) (slack : Q) (p : cpt) : option Q :=
  let k := Z.to_nat (pk p) in
  let a := nth k vs (0, 0) in let b := nth (S k) vs (0, 0) in
  let t := pt p in
  if (Z.leb 0 (pk p)) && (S k <? length vs)%nat && Qle_bool 0 t && Qle_bool t 1
     && qabs_le (px p - (fst a + t * (fst b - fst a))) slack
     && qabs_le (py p - (snd a + t * (snd b - snd a))) slack
  then Some (nth k cs 0 + t * nth k ls 0) else None.

Fixpoint opt_all {A} (l : list (option A)) : option (list A) :=
  match l with
  | [] => Some []
  | None :: _ => None
  | Some a :: l' => match opt_all l' with Some r => Some (a :: r) | None => None end
  end.

(** expected vertex positions of the piece that covers [a,b] (a < b), or [a,L] ++ [0,b] when it wraps *)
Definition inner (cs : list Q) (a b : Q) : list Q :=
  filter (fun v => negb (Qle_bool v a) && negb (Qle_bool b v)) cs.
Definition expected_pos (cs : list Q) (L a b : Q) : list Q :=
  if Qle_bool b a then (a :: inner cs a L) ++ (L :: inner cs 0 b) ++ [b]
  else (a :: inner cs a b) ++ [b].

Fixpoint close_lists (s : Q) (l1 l2 : list Q) : bool :=
  match l1, l2 with
  | [], [] => true
  | a :: l1', b :: l2' => qabs_le (a - b) s && close_lists s l1' l2'
  | _, _ => false
  end.

(** the order in which Dash emits the kept pieces of a closed subpath: the last piece first, joined with the
    first piece when the subpath also starts inside a dash *)
Definition closed_order (L : Q) (ivs : list (Q * Q)) : list (Q * Q) :=
  match rev ivs with
  | (a, b) :: (_ :: _) as r' =>
    if qeqb b L then
      match rev r' with
      | (a0, b0) :: mid => if qeqb a0 0 then (a, b0) :: mid else (a, b) :: (a0, b0) :: mid
      | [] => ivs
      end
    else ivs
  | _ => ivs
  end.

Fixpoint close_ivs (L s : Q) (l1 l2 : list (Q * Q)) : bool :=
  match l1, l2 with
  | [], [] => true
  | (a, b) :: l1', (a', b') :: l2' =>
    (qabs_le (a - a') s || (qabs_le (a - L - a') s) || (qabs_le (a + L - a') s)) && qabs_le (b - b') s && close_ivs L s l1' l2'
  | _, _ => false
  end.

(** midpoints of the expected pieces are [on], midpoints of the gaps are not: ties the oracle to the spec *)
Fixpoint mids_ok (d : list Q) (off : Q) (prev : Q) (ivs : list (Q * Q)) (L : Q) : bool :=
  match ivs with
  | [] => Qle_bool L prev || negb (on d off ((prev + L) / 2))
  | (a, b) :: ivs' =>
    (Qle_bool a prev || negb (on d off ((prev + a) / 2))) && on d off ((a + b) / 2) && mids_ok d off b ivs' L
  end.

(** flags: 1 tie (model with Epsilon) 2 PROP cut positions differ from the pattern 4 PROP a piece does not lie on the
    path 8 PROP a piece is not the sub-polyline between its end points / out of order 16 PROP subpaths not dashed
    independently 32 PROP panic 64 oracle self-check (drawn_intervals vs on) 128 bad lengths from the harness.
    Output per subpath: [flags; number of expected pieces; joined?] *)
Definition judge_sub (c : k2case) (s : sub) : list Z :=
  let ls := s_lens s in let vs := s_verts s in
  let cs := cums ls 0 in
  let L := qsum ls in
  let okl := lens_ok vs ls in
  let spec := drawn_intervals (c_d c) (c_off c) L in
  let modl := intervals_of (dash_model (c_eps c) (c_off c) (c_d c) L) L in
  let ord := fun ivs => if s_closed s then closed_order L ivs else ivs in
  let pos := map (fun pc => opt_all (map (cert_pos vs ls cs (c_slack c)) pc)) (s_pieces s) in
  let certs := opt_all pos in
  let self := is_nil (c_d c) || negb (nonnegb (c_d c)) || mids_ok (c_d c) (c_off c) 0 spec L in
  let joined := match c_d c with [] => false | _ =>
                  match dash_model 0 (c_off c) (c_d c) L with DCuts t ie => join_decision (s_closed s) t ie | _ => false end end in
  match certs with
  | None => [ (4 + bit (negb okl) 128 + bit (negb (c_concat_ok c)) 16 + bit (c_panic c) 32)%Z; Z.of_nat (length spec); bit joined 1 ]
  | Some pss =>
    let ivs := map (fun ps => (hd 0 ps, last ps 0)) pss in
    let shape := forallb (fun ps => close_lists (c_slack c) ps (expected_pos cs L (hd 0 ps) (last ps 0))
                                   && (2 <=? length ps)%nat) pss in
    let tie := negb (close_ivs L (c_slack c) ivs (ord modl)) in
    let prop := negb (close_ivs L (c_slack c) ivs (ord spec)) in
    [ (bit tie 1 + bit prop 2 + bit (negb shape) 8 + bit (negb (c_concat_ok c)) 16 + bit (c_panic c) 32
       + bit (negb self) 64 + bit (negb okl) 128)%Z; Z.of_nat (length spec); bit joined 1 ]
  end.

Definition judge_k2 (c : k2case) : list Z :=
  if c_panic c then [32%Z; 0%Z; 0%Z] else flat_map (judge_sub c) (c_subs c).

(* ============================================================================================== *)
(** * K3: Path.Dash on one quadratic / cubic Bézier — CHECKED, NOT PROVED for the lengths (the 1 % is the code's documented
      quadrature accuracy); the sub-curve relation of every piece is certified by Split.Cert.sub_ok (sound by
      SplitProofs.sub_ok_sound_cubic and sub_ok_sound_quad). *)
Record k3case := mkK3 { e_eps : Q; e_off : Q; e_d : list Q; e_slack : Q; e_in : list qpt; e_len : Q;
                        e_pieces : list (list qpt * Q * Q); e_panic : bool }.

Fixpoint ordered (prev : Q) (l : list (list qpt * Q * Q)) : bool :=
  match l with [] => true | (_, s, u) :: r => Qle_bool prev s && Qle_bool s u && ordered u r end.

(** flags: 1 PROP a piece is not a sub-curve of the input, 2 PROP pieces out of order / overlapping,
    4 PROP number of pieces differs from the pattern, 8 PROP a cut is not at the arc length the pattern prescribes: the enclosure
    of the arc length of the input from its start to the certified parameter of the cut, widened by 1 % of the path length (the
    accuracy the code documents for its arc-length inversion), does not contain the prescribed position; 32 PROP panic.
    Output [flags; #pieces; worst distance of a prescribed cut position from the enclosure, in 1/1000 of the path length] *)
(** the certified parameter is rounded down to the 2^-20 grid first (keeps the rationals small); the arc length between the two
    parameters is at most 2^-20 * max|B'| <= 2^-20 * 3 * (length of the control polygon), which widens the enclosure *)
Definition round20 (s : Q) : Q := Qfloor (s * 1048576) # 1048576.
Definition cut_dev (c : k3case) (s a : Q) : Q :=
  let pre := map qred_pt (sub_ctrl (e_in c) 0 (round20 s)) in
  let rnd := (3 # 1048576) * polyline_hi 30 (e_in c) in
  let lo := len_lo 30 8 pre - rnd in let hi := len_hi 30 8 pre + rnd in
  if Qle_bool a lo then lo - a else if Qle_bool hi a then a - hi else 0.
(** The cuts are accurate to [tol] only, so a drawn stretch that ends within [tol] of the start of the path, or starts within
    [tol] of its end, may come out empty (Dash's own remark: "SplitAt measures the segments in its own way and ignores the last
    positions when it comes out shorter than Length").  [alignments] lists the prescribed stretches with such a first and/or
    last stretch left out, whenever that gives the [n] stretches that were returned; no other stretch may be missing. *)
Definition alignments (tol L : Q) (spec : list (Q * Q)) (n : nat) : list (list (Q * Q)) :=
  let first_small := match spec with (_, b) :: _ => Qle_bool b tol | [] => false end in
  let last_small := match rev spec with (a, _) :: _ => Qle_bool (L - tol) a | [] => false end in
  (if (length spec =? n)%nat then [spec] else []) ++
  (if (length spec =? S n)%nat && first_small then [tl spec] else []) ++
  (if (length spec =? S n)%nat && last_small then [removelast spec] else []) ++
  (if (length spec =? S (S n))%nat && first_small && last_small then [removelast (tl spec)] else []).
Definition qmax_list (l : list Q) : Q := fold_right (fun d m => if Qle_bool m d then d else m) 0 l.
Definition qmin_list (d : Q) (l : list Q) : Q := fold_right (fun x m => if Qle_bool x m then x else m) d l.

Definition judge_k3 (c : k3case) : list Z :=
  if e_panic c then [32%Z; 0%Z; 0%Z] else
  let L := e_len c in
  let spec := drawn_intervals (e_d c) (e_off c) L in
  let tol := e_slack c + L * (1 # 100) in
  let cert := forallb (fun x => let '(ctrl, s, u) := x in sub_ok (e_slack c) (e_in c) ctrl s u) (e_pieces c) in
  let ord := ordered 0 (e_pieces c) in
  let als := alignments tol L spec (length (e_pieces c)) in
  let cnt := match als with [] => false | _ => true end in
  let worst_of sp := qmax_list (flat_map (fun xy => let '((_, s, u), (a, b)) := xy in [cut_dev c s a; cut_dev c u b])
                                         (combine (e_pieces c) sp)) in
  let worst := match als with [] => 0 | sp :: r => qmin_list (worst_of sp) (map worst_of r) end in
  let cuts := Qle_bool worst tol in
  [ (bit (negb cert) 1 + bit (negb ord) 2 + bit (negb cnt) 4 + bit (cnt && cert && negb cuts) 8)%Z;
    Z.of_nat (length (e_pieces c));
    (if Qle_bool L 0 then 0 else Qfloor (worst * 1000 / L))%Z ].

(* ============================================================================================== *)
(** * K4: Path.Dash on one elliptical arc with exact geometry — the returned dashes judged against the ellipse with the
      orientation predicates of Corr/C09 (same ellipse and direction, on the ellipse, in order along the arc, large-arc flag
      consistent with the end points) and against the pattern: number of dashes = number of drawn intervals, Go's own length of
      every dash within 2 % of the path length of its prescribed length (two cuts, each documented as accurate to 1 %).
      CHECKED, NOT PROVED (no arc-length function for ellipses in the development). *)
From CV Require Import Geom.Matrix Geom.MatrixProofs Geom.Ellipse Corr.C09.
Record k4case := mkK4 { f_arc : acase; f_off : Q; f_d : list Q }.

(** w lies in the span from u to v up to an angle of about [sl] at either end (Go recomputes the start point of the first dash
    from its angle, which lands some 1e-14 before the start of a large arc) *)
Definition span_ccwb_sl (sl : Q) (u v w : qpt) : bool :=
  if Qle_bool 0 (qcross u v) then Qle_bool (- sl) (qcross u w) && Qle_bool (- sl) (qcross w v)
  else Qle_bool (- sl) (qcross u w) || Qle_bool (- sl) (qcross w v).
Definition in_spanb_sl (sl : Q) (sweep : bool) (u v w : qpt) : bool :=
  if sweep then span_ccwb_sl sl u v w else span_ccwb_sl sl v u w.
Fixpoint dashes_advance (c : acase) (prev : qpt) (ps : list apiece) : bool :=
  let sl := 1 # 1073741824 in
  match ps with
  | [] => true
  | p :: r => in_spanb_sl sl (aSweep c) (circ c prev) (circ c (aE c)) (circ c (ap_s p)) &&
              in_spanb_sl sl (aSweep c) (circ c (ap_s p)) (circ c (aE c)) (circ c (ap_e p)) && dashes_advance c (ap_e p) r
  end.

(** flags: 1 tie (generated arc inconsistent), 2 PROP a dash is not an arc of the same ellipse in the same direction or its
    end points are off the ellipse, 4 PROP dashes out of order along the arc, 8 PROP a dash's length (Go's own) differs from
    the pattern's by more than 2 % of the path length, 16 PROP large-arc flag of a dash contradicts its end points,
    32 PROP number of dashes, 64 PROP panic. Output [flags; #dashes; worst length deviation in 1/1000 of the path length] *)
Definition judge_k4 (k : k4case) : list Z :=
  let c := f_arc k in
  if aPanic c then [64%Z; 0%Z; 0%Z] else
  let sl := 1 # 1073741824 in
  let u := circ c (aS c) in let v := circ c (aE c) in
  let gen_ok := on_unit sl u && on_unit sl v &&
                (Qle_bool (Qabs (qcross u v)) (1 # 1048576) || Bool.eqb (aLarge c) (arc_large (aSweep c) u v)) in
  let ps := aPieces c in
  let L := aLen c in
  let spec := drawn_intervals (f_d k) (f_off k) L in
  let same := forallb (fun p => ap_same p && Bool.eqb (ap_sweep p) (aSweep c) &&
                                on_unit sl (circ c (ap_s p)) && on_unit sl (circ c (ap_e p))) ps in
  let order := dashes_advance c (aS c) ps in
  let larges := forallb (large_ok c) ps in
  let als := alignments (L * (1 # 100) + (1 # 1000000)) L spec (length ps) in
  let cnt := match als with [] => false | _ => true end in
  let worst_of sp := qmax_list (map (fun xy => let '(p, (a, b)) := xy in Qabs (ap_len p - (b - a))) (combine ps sp)) in
  let worst := match als with [] => 0 | sp :: r => qmin_list (worst_of sp) (map worst_of r) end in
  let lens := Qle_bool worst (L * (2 # 100) + (1 # 1000000)) in
  [ (bit (negb gen_ok) 1 + bit (negb same) 2 + bit (same && negb order) 4 + bit (cnt && negb lens) 8 + bit (same && negb larges) 16 +
     bit (negb cnt) 32)%Z; Z.of_nat (length ps); (if Qle_bool L 0 then 0 else Qfloor (worst * 1000 / L))%Z ].

(* ============================================================================================== *)
(** * K5: Path.Dash on a mixed path — one or two Bézier segments followed by a long line. The arc length consumed by the
      curves must be carried over to the line: every pattern boundary that falls on the line must be cut at its prescribed
      arc length minus the (enclosed) length of the curves, and the line must not be cut anywhere else. *)
Record k5case := mkK5 { h_off : Q; h_d : list Q; h_curves : list (list qpt); h_line : Q; h_len : Q;
                        h_cuts : list Q; h_panic : bool }.

(** flags: 1 PROP a pattern boundary on the line has no cut at its prescribed position (enclosure of the curves' length widened
    by 1 % of the path length), 2 PROP the line is cut at a position no pattern boundary prescribes, 4 tie: Go's Length outside
    the enclosure +- 1 %, 32 PROP panic. Output [flags; #cuts on the line; #pattern boundaries on the line] *)
Definition judge_k5 (c : k5case) : list Z :=
  if h_panic c then [32%Z; 0%Z; 0%Z] else
  let lo := fold_right (fun cv a => len_lo 30 8 cv + a) 0 (h_curves c) in
  let hi := fold_right (fun cv a => len_hi 30 8 cv + a) 0 (h_curves c) in
  let L := h_len c in
  let tol := L * (1 # 100) + (1 # 1000000) in
  let lenok := Qle_bool (lo + h_line c - tol) L && Qle_bool L (hi + h_line c + tol) in
  let bnds := flat_map (fun ab => [fst ab; snd ab]) (drawn_intervals (h_d c) (h_off c) L) in
  let online := filter (fun x => Qltb (hi + tol) x && Qltb x (L - tol)) bnds in
  let inner := filter (fun g => Qltb tol g && Qltb g (h_line c - tol)) (h_cuts c) in
  let near x g := Qle_bool (x - hi - tol) g && Qle_bool g (x - lo + tol) in
  let missing := negb (forallb (fun x => existsb (near x) (h_cuts c)) online) in
  let extra := negb (forallb (fun g => existsb (fun x => near x g) bnds) inner) in
  [ (bit missing 1 + bit extra 2 + bit (negb lenok) 4)%Z; Z.of_nat (length (h_cuts c)); Z.of_nat (length online) ].

(* ============================================================================================== *)
(** * K6: a line followed by an elliptical arc, dashed with a pattern whose last boundary on this subpath falls on the line: the
      arc lies wholly inside the last dash and must be part of it as it is (start point, radii, rotation in radians, flags, end
      point as stored), exactly once.  CHECKED against the stored record (1e-9 relative). *)
Record k6case := mkK6 { i_exp : list Q; i_act : list (list Q); i_panic : bool }.
(** flags: 1 PROP the output does not hold exactly one arc, 2 PROP no arc of the output is the input's arc, 32 PROP panic *)
Definition judge_k6 (c : k6case) : list Z :=
  if i_panic c then [32%Z; 0%Z; 0%Z] else
  let close a b := Qle_bool (Qabs (a - b)) ((1 # 1000000000) * (1 + Qabs b)) in
  let same l := (length l =? length (i_exp c))%nat && forallb (fun ab => close (fst ab) (snd ab)) (combine l (i_exp c)) in
  [ (bit (negb (length (i_act c) =? 1)%nat) 1 + bit (negb (existsb same (i_act c))) 2)%Z; Z.of_nat (length (i_act c)); 0%Z ].

Inductive case05 := K1 (h : Q) (c : k1case) | K2 (c : k2case) | K3 (c : k3case) | K4 (c : k4case) | K5 (c : k5case) | K6 (c : k6case).

Definition judge (c : case05) : list Z :=
  match c with K1 h k => judge_k1 h k | K2 k => judge_k2 k | K3 k => judge_k3 k | K4 k => judge_k4 k | K5 k => judge_k5 k | K6 k => judge_k6 k end.

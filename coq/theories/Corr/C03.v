(** Correspondence judge for C03.  A case records what the Go code returned for one generated input together
    with the untrusted certificate recovered by the harness; [judge] runs the verified checkers of Flat/*.v on it
    (accepted = the soundness theorem applies to this very output) and, only when a checker rejects, classifies
    the rejection (which pieces exceed K tol, and whether the known step-rule trigger holds on them). *)
From Coq Require Import ZArith QArith Qabs Qround List Bool.
From CV Require Corr.C09 Geom.Matrix Geom.MatrixProofs.
From CV Require Import Base.Dy Flat.Curves Flat.Cert Flat.Arc Flat.XMono.
Import ListNotations.
Open Scope Q_scope.

Inductive case03 :=
| CQuad (ctrl : list pt) (tol : Q) (ok : bool) (vs : list pt) (ts : list Q) (wit : list (Q * Q))
| CCube (ctrl : list pt) (tol : Q) (ok : bool) (vs : list pt) (ts : list Q) (wit : list (Q * Q))
| CCirc (a : circ_arc) (tol : Q) (ok : bool) (vs : list pt)
| CArcCube (e : ellipse) (ok : bool) (cubics : list (list pt))
| CEll (e : ellipse) (s t : pt) (large sweep : bool) (tol : Q) (ok : bool) (vs : list pt)
| CXArc (a : Corr.C09.acase)
| CXMono (ctrl : list pt) (ok : bool) (pieces : list (list pt)) (ts : list Q)
| CPub (op : Z) (ok : bool) (inp out : list subpath_sum).

Definition slack : Q := 1 # 262144.          (* 2^-18: covers |B'| * 2^-25 for parameters rounded to 2^-24 *)
Definition Kquad : Q := 2.
Definition Kcube : Q := 8.
Definition Kcirc : Q := 2.

Definition bit (b : bool) (k : Z) : Z := if b then k else 0%Z.

(** the known trigger: the tangent turns by 90 degrees or more inside the piece [s,u] — witnessed by two
    parameters s <= a <= b <= u with B'(a).B'(b) <= 0 (the piece ends are always tried) *)
Definition turn_wit (d1 : Q -> pt) (s u : Q) (w : Q * Q) : bool :=
  let '(a, b) := w in Qleb s a && Qleb a b && Qleb b u && Qleb (vdot (d1 a) (d1 b)) 0.

(** diagnostics over the pieces: (pieces, failing with trigger, failing without trigger, max pb) *)
Fixpoint diag (d1 : Q -> pt) (pb : Q -> Q -> Q) (alt : Q -> Q -> bool) (bound : Q) (wit : list (Q * Q)) (ts : list Q)
  : Z * Z * Z * Q :=
  match ts with
  | s :: ((u :: _) as ts') =>
      let '(n, k, f, m) := diag d1 pb alt bound wit ts' in
      let b := pb s u in
      let bad := if Qleb b bound then false else negb (alt s u) in
      let known := if bad then existsb (turn_wit d1 s u) ((s, u) :: wit) else false in
      ((n + 1)%Z, (k + bit known 1)%Z, (f + bit (bad && negb known) 1)%Z, Qmax m b)
  | _ => (0%Z, 0%Z, 0%Z, 0)
  end.

Definition ratio_milli2 (m tol : Q) : Z :=
  if Qleb tol 0 then (-1)%Z else Qfloor (m * 1000000 / (tol * tol)).

Fixpoint increasing (ts : list Q) : bool :=
  match ts with
  | s :: ((u :: _) as ts') => Qltb s u && increasing ts'
  | _ => true
  end.

(** "every vertex it introduces lies on the original curve (within t) in curve order": increasing parameters whose curve points are
    within the tolerance of the vertices (the verified certificate asks for [slack]; this is the property's own allowance, under
    which a vertex that steps back along the curve by less than the tolerance is still in order) *)
Definition all_close (e : Q) (B : Q -> pt) (ts : list Q) (vs : list pt) : bool :=
  forallb (fun '(t, v) => close (B t) v e) (combine ts vs).

(** flags: 1 Go panicked / returned something that is not a finite polyline; 2 end points not preserved or
    parameter list malformed; 4 a vertex is not on the curve (within the tolerance) or vertices out of curve order;
    8 a piece deviates by more than K tol and the known trigger does not hold on it; 16 a piece deviates by more
    than K tol where the known trigger holds; 32 the verified checker rejected (any reason).
    Output: [flags; pieces; failing-known; failing-new; 10^6 * (max deviation bound / tol)^2] *)
Definition judge_bez (B d1 : Q -> pt) (pb : Q -> Q -> Q) (alt : Q -> Q -> bool) (a b : pt) (accepted : bool) (K tol : Q) (ok : bool)
           (vs : list pt) (ts : list Q) (wit : list (Q * Q)) : list Z :=
  if negb ok then [1%Z; 0%Z; 0%Z; 0%Z; 0%Z] else
  if accepted then [0%Z; Z.of_nat (length ts - 1); 0%Z; 0%Z; 0%Z] else
  let '(n, k, f, m) := diag d1 pb alt (sqr (K * tol)) wit ts in
  let ends := negb (Nat.eqb (length ts) (length vs) && chk_ends (combine ts vs) a b) in
  let onc := negb (all_close (slack + tol) B ts vs && increasing ts) in
  let only_alt := negb ends && negb onc && (f =? 0)%Z && (k =? 0)%Z in
  [ (bit ends 2 + bit onc 4 + bit (0 <? f)%Z 8 + bit (0 <? k)%Z 16 + bit (negb only_alt) 32 + bit only_alt 256)%Z; n; k; f; ratio_milli2 m tol ].

(** XMonotone of one elliptical arc (xmonotoneEllipticArc): the returned arcs judged against the ellipse with the orientation
    predicates of Corr/C09 — same ellipse and direction, chained from start to end, cut points on the ellipse and advancing, the
    large-arc flag of every piece consistent with its end points — and x-monotone: neither of the two points of the ellipse with
    a vertical tangent (in the plane of the unit circle: the directions +-(rx cos phi, -ry sin phi)) lies strictly inside a piece.
    flags: 1 tie (generated arc), 2 same ellipse/direction, 4 chain, 8 on ellipse/advancing, 16 large flag, 32 not x-monotone,
    128 panic *)
(** strictly inside, by more than 2^-20 of a radian-like margin (the cut points are computed in floating point) *)
Definition strictly_in (sweep : bool) (u v e : Geom.Matrix.qpt) : bool :=
  let m := (Qabs (fst e) + Qabs (snd e)) * (1 # 1048576) in
  if sweep then Qltb m (Geom.MatrixProofs.qcross u e) && Qltb m (Geom.MatrixProofs.qcross e v)
  else Qltb m (Geom.MatrixProofs.qcross v e) && Qltb m (Geom.MatrixProofs.qcross e u).
Definition judge_xarc (c : Corr.C09.acase) : list Z :=
  let open := Corr.C09.aPanic c in
  if open then [128%Z; 0%Z; 0%Z; 0%Z; 0%Z] else
  let sl := 1 # 1073741824 in
  let u := Corr.C09.circ c (Corr.C09.aS c) in let v := Corr.C09.circ c (Corr.C09.aE c) in
  let gen_ok := Corr.C09.on_unit sl u && Corr.C09.on_unit sl v in
  let ps := Corr.C09.aPieces c in
  let same := forallb (fun p => Corr.C09.ap_same p && Bool.eqb (Corr.C09.ap_sweep p) (Corr.C09.aSweep c)) ps in
  let le := Corr.C09.last_end (Corr.C09.aS c) ps in
  (* the last piece ends at the arc's end point up to rounding: xmonotoneEllipticArc recomputes it from the end angle *)
  let chain := Corr.C09.chained (Corr.C09.aS c) ps && close le (Corr.C09.aE c) sl && negb (Nat.eqb (length ps) 0) in
  let onell := forallb (fun p => Corr.C09.on_unit sl (Corr.C09.circ c (Corr.C09.ap_e p))) ps && Corr.C09.advancing c (Corr.C09.aS c) ps in
  let larges := forallb (Corr.C09.large_ok c) ps in
  let e := (Corr.C09.aRx c * Corr.C09.aCs c, - (Corr.C09.aRy c * Corr.C09.aSn c)) in
  let ne := (- fst e, - snd e) in
  let mono := forallb (fun p => let a := Corr.C09.circ c (Corr.C09.ap_s p) in let b := Corr.C09.circ c (Corr.C09.ap_e p) in
                                negb (strictly_in (Corr.C09.aSweep c) a b e) && negb (strictly_in (Corr.C09.aSweep c) a b ne)) ps in
  [ (bit (negb gen_ok) 1 + bit (negb same) 2 + bit (negb chain) 4 + bit (negb onell) 8 + bit (negb larges) 16 + bit (negb mono) 32)%Z;
    Z.of_nat (length ps); 0%Z; 0%Z; 0%Z ].

Definition judge (c : case03) : list Z :=
  match c with
  | CQuad [p0; p1; p2] tol ok vs ts wit =>
      judge_bez (quadB_f p0 p1 p2) (quad_d1 p0 p1 p2) (quad_pb p0 p1 p2) (fun _ _ => false) p0 p2
                (chk_flat_quad p0 p1 p2 ts vs tol Kquad slack) Kquad tol ok vs ts wit
  | CCube [p0; p1; p2; p3] tol ok vs ts wit =>
      let r := judge_bez (cubeB_f p0 p1 p2 p3) (cube_d1 p0 p1 p2 p3) (cube_pb2 p0 p1 p2 p3 (sqr (Kcube * tol))) (fun _ _ => false) p0 p3
                (chk_flat_cube p0 p1 p2 p3 ts vs tol Kcube slack) Kcube tol ok vs ts wit in
      (* the known finding (a piece inside which the tangent turns by >= 90 degrees) does not cover a whole CLOSED cubic (p0 = p3) replaced by
         its degenerate chord, i.e. dropped: strokeCubicBezier subdivides such a loop (near-closed hairpins, chord > 0, stay under the finding) *)
      match r, ts with
      | fl :: rest, [_; _] =>
          if (0 <? Z.land fl 16)%Z && peqb p0 p3 then (Z.lor (Z.land fl (Z.lnot 16)) 8) :: rest else r
      | _, _ => r
      end
  | CCirc a tol ok vs => judge_circ a tol Kcirc slack ok vs
  | CArcCube e ok cubics => judge_arccube e ok cubics
  | CEll e s t large sweep tol ok vs => judge_ellflat e s t large sweep tol Kcirc slack ok vs
  | CXArc a => judge_xarc a
  | CXMono ctrl ok pieces ts => judge_xmono ctrl slack ok pieces ts
  | CPub op ok inp out => judge_pub op ok inp out
  | _ => [64%Z; 0%Z; 0%Z; 0%Z; 0%Z]
  end.

// c06: correspondence harness for C06 (winding / containment queries).
// Polygon mode: builds integer-grid polygonal paths through the public builder, decodes the path actually
// built, runs Windings/Crossings/Contains and RayIntersections+windings on query points (lattice points,
// half-lattice points, vertices, edge midpoints) and prints one case per path for the Coq judge.
package main

import (
	"flag"
	"fmt"
	"math"
	"strings"

	"github.com/tdewolff/canvas"

	"verifharness/internal/cq"
	"verifharness/internal/gen"
	"verifharness/internal/out"
	"verifharness/internal/pd"
	"verifharness/internal/rng"
)

type query struct {
	X, Y     int // in half-grid units (coordinate = X*scale/2)
	W        int
	Wb       bool
	C        int
	Cb       bool
	Cont     [4]bool
	Panic    string
	Recs     [][][4]int // per subpath: T0zero, T1class(0,1,2), into, same
	RecPanic bool
}

func safe(f func()) (msg string) {
	defer func() {
		if r := recover(); r != nil {
			msg = fmt.Sprint(r)
		}
	}()
	f()
	return ""
}

func b2i(b bool) int {
	if b {
		return 1
	}
	return 0
}

// decode the path data into contours of integer half-grid points; ok=false if a coordinate is off-grid
func decode(p *canvas.Path, half float64) (cs [][]gen.IPt, closed []bool, ok bool) {
	segs, err := pd.Decode(p.Data())
	if err != nil {
		return nil, nil, false
	}
	ok = true
	for _, sp := range pd.Subpaths(segs) {
		var c []gen.IPt
		cl := false
		for _, s := range sp {
			x, y := s.X/half, s.Y/half
			if x != math.Trunc(x) || y != math.Trunc(y) {
				ok = false
			}
			switch s.Cmd {
			case 'M', 'L':
				c = append(c, gen.IPt{X: int(x), Y: int(y)})
			case 'Z':
				cl = true // Close returns to the start: no new vertex
			default:
				ok = false
			}
		}
		cs = append(cs, c)
		closed = append(closed, cl)
	}
	return
}

func main() {
	seed := flag.Uint64("seed", 1, "")
	n := flag.Int("n", 100, "")
	only := flag.Int("only", -1, "")
	open := flag.Bool("open", false, "also generate open subpaths")
	flag.Parse()
	o := out.New()
	defer o.Close()
	root := rng.New(*seed)
	for i := 0; i < *n; i++ {
		if *only >= 0 && i != *only {
			continue
		}
		r := root.Fork(uint64(i))
		ip := gen.Poly(r)
		p := &canvas.Path{}
		s := ip.Scale
		for _, c := range ip.Contours {
			p.MoveTo(float64(c[0].X)*s, float64(c[0].Y)*s)
			for _, v := range c[1:] {
				p.LineTo(float64(v.X)*s, float64(v.Y)*s)
			}
			if !*open || r.P(3, 4) {
				p.Close()
			}
		}
		half := s / 2
		cs, closed, ok := decode(p, half)
		if !ok || len(cs) == 0 {
			continue
		}
		// query points in half-grid units
		x0, y0, x1, y1 := ip.Bounds()
		var qs []query
		add := func(x, y int) { qs = append(qs, query{X: x, Y: y}) }
		nq := 24
		for k := 0; k < nq; k++ {
			switch r.Intn(6) {
			case 0, 1: // generic half-lattice point (odd coordinates: never level with a vertex)
				add(2*r.Range(x0-1, x1)+1, 2*r.Range(y0-1, y1)+1)
			case 2: // lattice point (often level with vertices)
				add(2*r.Range(x0-1, x1+1), 2*r.Range(y0-1, y1+1))
			case 3: // level with a vertex, to the left or right of it
				c := rng.Pick(r, ip.Contours)
				v := rng.Pick(r, c)
				add(2*r.Range(x0-2, x1+1)+r.Intn(2), 2*v.Y)
			case 4: // a vertex itself
				c := rng.Pick(r, ip.Contours)
				v := rng.Pick(r, c)
				add(2*v.X, 2*v.Y)
			default: // edge midpoint (on the boundary)
				c := rng.Pick(r, ip.Contours)
				k := r.Intn(len(c))
				a, b := c[k], c[(k+1)%len(c)]
				add(a.X+b.X, a.Y+b.Y)
			}
		}
		for qi := range qs {
			q := &qs[qi]
			x, y := float64(q.X)*half, float64(q.Y)*half
			q.Panic = safe(func() {
				q.W, q.Wb = p.Windings(x, y)
				q.C, q.Cb = p.Crossings(x, y)
				for rule := 0; rule < 4; rule++ {
					q.Cont[rule] = p.Contains(x, y, canvas.FillRule(rule))
				}
			})
			if msg := safe(func() {
				for _, sp := range p.Split() {
					zs := sp.RayIntersections(x, y)
					var rec [][4]int
					for _, z := range zs {
						t1 := 2
						if z.T[1] == 0.0 {
							t1 = 0
						} else if z.T[1] == 1.0 {
							t1 = 1
						}
						rec = append(rec, [4]int{b2i(z.T[0] == 0.0), t1, b2i(z.Into()), b2i(z.Same)})
					}
					q.Recs = append(q.Recs, rec)
				}
			}); msg != "" {
				q.RecPanic = true
			}
		}
		// Gallina term
		var csS []string
		for _, c := range cs {
			var vs []string
			for _, v := range c {
				vs = append(vs, cq.Pair(cq.Z(int64(v.X)), cq.Z(int64(v.Y))))
			}
			csS = append(csS, cq.List(vs))
		}
		var clS []string
		for _, c := range closed {
			clS = append(clS, cq.Bool(c))
		}
		var qsS []string
		for _, q := range qs {
			var recs []string
			for _, rec := range q.Recs {
				var rs []string
				for _, z := range rec {
					rs = append(rs, fmt.Sprintf("(%s,%s,%s,%s)", cq.Bool(z[0] == 1), cq.Z(int64(z[1])), cq.Bool(z[2] == 1), cq.Bool(z[3] == 1)))
				}
				recs = append(recs, cq.List(rs))
			}
			cont := []string{cq.Bool(q.Cont[0]), cq.Bool(q.Cont[1]), cq.Bool(q.Cont[2]), cq.Bool(q.Cont[3])}
			qsS = append(qsS, fmt.Sprintf("(mkQ06 %s %s %s %s %s %s %s %s %s)", cq.Z(int64(q.X)), cq.Z(int64(q.Y)),
				cq.Z(int64(q.W)), cq.Bool(q.Wb), cq.Z(int64(q.C)), cq.Bool(q.Cb), cq.List(cont), cq.Bool(q.Panic != ""), cq.List(recs)))
		}
		term := fmt.Sprintf("mkCase06 %s %s %s", cq.List(csS), cq.List(clS), cq.List(qsS))
		desc := map[string]interface{}{"path": p.String(), "scale_half": half, "queries_halfgrid": func() [][2]int {
			var v [][2]int
			for _, q := range qs {
				v = append(v, [2]int{q.X, q.Y})
			}
			return v
		}(), "go": func() []string {
			var v []string
			for _, q := range qs {
				v = append(v, fmt.Sprintf("(%g,%g): W=%d b=%v C=%d b=%v contains=%v panic=%q", float64(q.X)*half, float64(q.Y)*half, q.W, q.Wb, q.C, q.Cb, q.Cont, q.Panic))
			}
			return v
		}()}
		o.Emit(out.Case{I: i, Fam: ip.Family + map[bool]string{true: "", false: "+open"}[allTrue(closed)], Coq: term, Desc: desc, Tags: []string{strings.ToLower(ip.Family)}})
	}
}

func allTrue(bs []bool) bool {
	for _, b := range bs {
		if !b {
			return false
		}
	}
	return true
}

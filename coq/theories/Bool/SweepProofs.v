(** Theorems about the sweep decision core (C01/C02). *)
From Coq Require Import ZArith List Bool Lia.
From CV Require Import Geom.Winding Geom.WindingProofs Bool.Region Bool.Sweep.
Import ListNotations.
Open Scope Z_scope.

(** a chain (nearest first) is consistent when every segment's lower windings are the totals of what lies
    below it, for the subject (c = false) and for the clipping path (c = true) *)
Inductive chain_ok : list sseg -> Prop :=
| ok_nil : chain_ok []
| ok_cons p rest : chain_ok rest -> (forall c, lower_of c p = total c rest) -> chain_ok (p :: rest).

Lemma total_cons c p rest : total c (p :: rest) = contrib c p + total c rest.
Proof. reflexivity. Qed.

Lemma upper_lower c p : sVert p = false -> upper_of c p = lower_of c p + contrib c p.
Proof. unfold upper_of, lower_of, contrib. intros ->. destruct (Bool.eqb (sClip p) c); lia. Qed.

Lemma skip_vertical_total below : chain_ok below -> forall c,
  total c below = match skip_vertical below with None => 0 | Some p => upper_of c p end.
Proof.
  induction 1 as [|p rest Hok IH Hp]; intros c; cbn [skip_vertical].
  - reflexivity.
  - rewrite total_cons. destruct (sVert p) eqn:Ev.
    + rewrite <- IH. unfold contrib. rewrite Ev. lia.
    + rewrite (upper_lower c p Ev), Hp. lia.
Qed.

Lemma eqb_negb_false (a c : bool) : Bool.eqb a c = false -> Bool.eqb a (negb c) = true.
Proof. destruct a, c; simpl; congruence. Qed.

Lemma compute_lower cur below op rule : chain_ok below -> forall c,
  lower_of c (compute_fields cur below op rule) = total c below.
Proof.
  intros Hok c. rewrite (skip_vertical_total below Hok c).
  unfold compute_fields. destruct (skip_vertical below) as [p|].
  - destruct (Bool.eqb (sClip cur) (sClip p)) eqn:E; unfold lower_of, upper_of; cbn.
    + apply eqb_prop in E. rewrite E. destruct (Bool.eqb (sClip p) c); reflexivity.
    + destruct (sClip cur), (sClip p), c; cbn in *; try discriminate; reflexivity.
  - unfold lower_of; cbn. destruct (Bool.eqb (sClip cur) c); reflexivity.
Qed.

Lemma compute_ok cur below op rule : chain_ok below -> chain_ok (compute_fields cur below op rule :: below).
Proof. intros H. constructor; [exact H|]. intros c. apply compute_lower, H. Qed.

Lemma fold_ok col op rule : forall acc, chain_ok acc ->
  chain_ok (fold_left (fun below cur => compute_fields cur below op rule :: below) col acc).
Proof.
  induction col as [|cur col IH]; intros acc H; cbn [fold_left]; [exact H|].
  apply IH, compute_ok, H.
Qed.

(** Theorem (winding propagation is a prefix sum): after processing any column bottom-to-top, for every
    segment the recorded windings/otherWindings are the total winding contributions of the non-vertical
    subject resp. clipping segments strictly below it, i.e. the winding numbers of P and Q in the gap
    under the segment. *)
Theorem propagate_is_prefix_sum col op rule : chain_ok (rev (propagate col op rule)).
Proof. unfold propagate. rewrite rev_involutive. apply fold_ok. constructor. Qed.

(** the same, segment by segment *)
Corollary propagate_nth col op rule : forall pre s post,
  rev (propagate col op rule) = pre ++ s :: post -> forall c, lower_of c s = total c post.
Proof.
  intros pre s post E. pose proof (propagate_is_prefix_sum col op rule) as H. rewrite E in H.
  clear E. induction pre as [|a pre IH]; cbn [app] in H.
  - inversion H; subst; assumption.
  - inversion H; subst. apply IH. assumption.
Qed.

(** Theorem (result membership = region boundary): a closed segment is kept exactly when the filled status
    of the operation's region differs between the gap below and the gap above it; for DIV the count is the
    number of sides on which the subject is filled. *)
Theorem in_result_iff_boundary s op rule :
  sOpen s = false -> 0 <= op <= 4 ->
  in_result s op rule =
    if Bool.eqb (bop op (fills rule (lower_of false s)) (fills rule (lower_of true s)))
                (bop op (fills rule (upper_of false s)) (fills rule (upper_of true s)))
    then 0 else 1.
Proof.
  intros Ho Hop. unfold in_result, lower_of, upper_of. rewrite Ho.
  assert (E5 : (op =? 5) = false) by (apply Z.eqb_neq; lia).
  assert (Er : (0 <=? op) && (op <=? 4) = true) by (apply andb_true_iff; split; apply Z.leb_le; lia).
  destruct (sClip s); cbn [Bool.eqb]; rewrite E5, Er;
    match goal with |- context [Bool.eqb ?a ?b] => destruct (Bool.eqb a b) end; reflexivity.
Qed.

Theorem in_result_div s rule :
  sOpen s = false ->
  in_result s 5 rule = Z.b2z (fills rule (lower_of false s)) + Z.b2z (fills rule (upper_of false s)).
Proof.
  intros Ho. unfold in_result, lower_of, upper_of. rewrite Ho.
  destruct (sClip s); cbn [Bool.eqb Z.eqb orb andb];
    match goal with |- context [fills rule ?a && fills rule ?b] => destruct (fills rule a), (fills rule b) end; reflexivity.
Qed.

(** in a processed column: kept <-> boundary of the op-region computed from the totals below / above *)
Corollary column_boundary col op rule pre s post :
  rev (propagate col op rule) = pre ++ s :: post ->
  sOpen s = false -> sVert s = false -> 0 <= op <= 4 ->
  in_result s op rule =
    if Bool.eqb (bop op (fills rule (total false post)) (fills rule (total true post)))
                (bop op (fills rule (total false (s :: post))) (fills rule (total true (s :: post))))
    then 0 else 1.
Proof.
  intros E Ho Hv Hop. rewrite (in_result_iff_boundary s op rule Ho Hop).
  rewrite !(upper_lower _ s Hv), !(propagate_nth col op rule pre s post E), !total_cons.
  replace (total false post + contrib false s) with (contrib false s + total false post) by lia.
  replace (total true post + contrib true s) with (contrib true s + total true post) by lia.
  reflexivity.
Qed.

(* ------------------------------------------------------------------ merging overlapping segments *)

Lemma set_fields_contrib c s w ow self oself inr ov :
  contrib c (set_fields s w ow self oself inr ov) =
  if sVert s then 0 else if Bool.eqb (sClip s) c then self else oself.
Proof. reflexivity. Qed.

(** walking down the coincident run: totals are conserved *)
Lemma merge_walk_total : forall below s s' merged rest,
  merge_walk s below = (s', merged, rest) ->
  sVert s = false -> Forall (fun p => sPos p = sPos s -> sVert p = false) below ->
  sClip s' = sClip s /\ sVert s' = false /\ sPos s' = sPos s /\ sW s' = sW s /\ sOW s' = sOW s /\
  sOverlapped s' = sOverlapped s /\
  (forall c, contrib c s' + total c rest = contrib c s + total c below) /\
  Forall (fun m => sW m = 0 /\ sOW m = 0 /\ sSelf m = 0 /\ sOSelf m = 0 /\ sIn m = 0 /\ sOverlapped m = true) merged /\
  (exists k, rest = skipn k below /\ length merged = k).
Proof.
  induction below as [|p below IH]; intros s s' merged rest E Hv Hall; cbn [merge_walk] in E.
  - inversion E; subst. repeat split; auto. exists 0%nat. auto.
  - destruct (sOverlapped p || negb (sPos s =? sPos p)) eqn:Eb.
    + inversion E; subst. repeat split; auto. exists 0%nat. auto.
    + apply orb_false_iff in Eb as [Eo Ep]. apply negb_false_iff, Z.eqb_eq in Ep.
      inversion Hall as [|? ? Hp Hall']; subst.
      assert (Hvp : sVert p = false) by (apply Hp; lia).
      set (s1 := if Bool.eqb (sClip s) (sClip p)
                 then set_fields s (sW s) (sOW s) (sSelf s + sSelf p) (sOSelf s + sOSelf p) (sIn s) (sOverlapped s)
                 else set_fields s (sW s) (sOW s) (sSelf s + sOSelf p) (sOSelf s + sSelf p) (sIn s) (sOverlapped s)) in *.
      destruct (merge_walk s1 below) as [[s2 merged2] rest2] eqn:E2.
      inversion E; subst s' merged rest. clear E.
      assert (H1 : sClip s1 = sClip s /\ sVert s1 = false /\ sPos s1 = sPos s /\ sW s1 = sW s /\ sOW s1 = sOW s /\ sOverlapped s1 = sOverlapped s).
      { subst s1. destruct (Bool.eqb (sClip s) (sClip p)); cbn; auto 10. }
      destruct H1 as (Hc1 & Hv1 & Hp1 & Hw1 & How1 & Hov1).
      assert (Hall1 : Forall (fun q => sPos q = sPos s1 -> sVert q = false) below).
      { rewrite Hp1. exact Hall'. }
      destruct (IH s1 s2 merged2 rest2 E2 Hv1 Hall1) as (Hc & Hv2 & Hp2 & Hw & How & Hov & Ht & Hm & [k [Hk Hl]]).
      repeat split; try congruence.
      * intros c. rewrite (Ht c), total_cons.
        assert (Hs1 : contrib c s1 = contrib c s + contrib c p).
        { subst s1. unfold contrib. rewrite Hv, Hvp.
          destruct (Bool.eqb (sClip s) (sClip p)) eqn:Ecp; cbn; rewrite Hv.
          - apply eqb_prop in Ecp. rewrite Ecp. destruct (Bool.eqb (sClip p) c); reflexivity.
          - destruct (sClip s), (sClip p), c; cbn in *; try discriminate; reflexivity. }
        lia.
      * constructor; [cbn; auto 10 | exact Hm].
      * exists (S k). cbn [skipn length]. split; congruence.
Qed.

(** Theorem (merging preserves what is seen from above): merging a run of coincident segments into the top
    one leaves the windings seen by every segment above unchanged, keeps the chain consistent and zeroes the
    merged segments — provided the segment now directly below is not vertical (mergeOverlapping reads
    prev.windings + prev.selfWindings without skipping vertical segments). *)
Theorem merge_preserves_above s below op rule s' merged rest :
  chain_ok (s :: below) -> sVert s = false ->
  Forall (fun p => sPos p = sPos s -> sVert p = false) below ->
  merge_overlapping s below op rule = (s', merged, rest) ->
  match rest with p :: _ => sVert p = false | [] => True end ->
  (forall c, upper_of c s' = upper_of c s) /\ chain_ok (s' :: rest) /\
  Forall (fun m => sW m = 0 /\ sOW m = 0 /\ sSelf m = 0 /\ sOSelf m = 0 /\ sIn m = 0 /\ sOverlapped m = true) merged.
Proof.
  intros Hok Hv Hall E Hrest.
  inversion Hok as [|? ? Hokb Hs]; subst.
  unfold merge_overlapping in E.
  destruct (sOverlapped s) eqn:Eov.
  { inversion E; subst. repeat split; auto. }
  destruct (merge_walk s below) as [[s1 merged1] rest1] eqn:Ew.
  destruct (merge_walk_total below s s1 merged1 rest1 Ew Hv Hall)
    as (Hc & Hv1 & Hp & Hw & How & Hov & Ht & Hm & [k [Hk Hl]]).
  destruct merged1 as [|m0 merged1'].
  { inversion E; subst. repeat split; auto. }
  assert (Hokr : chain_ok rest1).
  { subst rest1. clear -Hokb. revert below Hokb. induction k as [|k IH]; intros below H; cbn [skipn]; auto.
    destruct below; auto. inversion H; subst. apply IH. assumption. }
  set (wow := match rest1 with
              | [] => (0, 0)
              | p :: _ => if Bool.eqb (sClip s1) (sClip p) then (sW p + sSelf p, sOW p + sOSelf p)
                          else (sOW p + sOSelf p, sW p + sSelf p)
              end) in *.
  destruct wow as [w ow] eqn:Ewow.
  inversion E; subst s' merged rest. clear E.
  assert (Hlow : forall c, (if Bool.eqb (sClip s1) c then w else ow) = total c rest1).
  { intros c. subst wow. destruct rest1 as [|p rest1'].
    - inversion Ewow; subst. destruct (Bool.eqb (sClip s1) c); reflexivity.
    - inversion Hokr as [|? ? Hok' Hp']; subst.
      rewrite total_cons, <- (Hp' c).
      pose proof (upper_lower c p Hrest) as Hul. unfold upper_of, lower_of in *.
      destruct (Bool.eqb (sClip s1) (sClip p)) eqn:Ecp; inversion Ewow; subst w ow.
      + apply eqb_prop in Ecp. rewrite Ecp. destruct (Bool.eqb (sClip p) c); lia.
      + destruct (sClip s1), (sClip p), c; cbn in *; try discriminate; lia. }
  repeat split.
  - intros c. unfold upper_of at 1. cbn.
    pose proof (Hlow c) as Hl1. pose proof (Ht c) as Ht1.
    rewrite (upper_lower c s Hv), (Hs c).
    unfold contrib in Ht1. rewrite Hv1, Hv in Ht1. unfold contrib. rewrite Hv.
    destruct (Bool.eqb (sClip s1) c) eqn:E1; rewrite Hc in E1; rewrite E1 in *; lia.
  - constructor; [exact Hokr|]. intros c. unfold lower_of; cbn. apply Hlow.
  - exact Hm.
Qed.

(* non-vacuity: a column with two coincident subject segments over a clipping segment *)
Example merge_example :
  let a := mkS true false false true 1 0 0 0 0 0 false in
  let b := mkS false false false true 2 0 0 0 0 0 false in
  let c := mkS false false false false 2 0 0 0 0 0 false in
  match rev (propagate [a; b; c] 1 0) with
  | s :: below =>
    chain_ok (s :: below) /\
    (let '(s', merged, rest) := merge_overlapping s below 1 0 in
     sSelf s' = 0 /\ length merged = 1%nat /\ sIn s' = 0)
  | [] => False
  end.
Proof.
  cbn. split; [|auto].
  repeat constructor; intros [|]; reflexivity.
Qed.

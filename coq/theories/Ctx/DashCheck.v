(** What Context.DrawPath (canvas.go:658-667) needs from path.go: [Equal] (util.go) and [Path.checkDash].
    checkDash / dashStart / dashCanonical are modelled once, in Dash/DashPhase.v (property C05, tied to the Go code by
    C05's own differential run and re-tied here through the styles recorded by the renderer); this file only
    re-exports [check_dash] with the path length first.  [Equal(a,b)] is |a-b| <= Epsilon with Epsilon = 10^-10 (the
    generators keep every compared quantity either exactly equal or >= 2^-10 apart, so Go's binary64 value of 1e-10
    decides identically).  The path length is a relational input. *)
From Coq Require Import ZArith QArith Qabs List Bool.
From CV Require Import Base.Dy.
From CV Require Dash.DashPhase.
Import ListNotations.
Open Scope Q_scope.

Definition eps : Q := 1 # 10000000000.
(** Equal(a, b) *)
Definition qequal (a b : Q) : bool := Qleb (Qabs (a - b)) eps.
Definition qzero (a : Q) : bool := qequal a 0.

(** Path.checkDash(offset, d) for a path of the given length: (canonical offset, dashes handed on, stroke kept).
    Current code: the pattern is doubled when its length is odd (as in Dash), the first dash/gap covers the whole path
    iff [length <= dd[i] + pos], dashStart reduces a negative offset modulo the period, and the canonical offset is
    returned in every case (also when no dash array is handed on, where it has no meaning). *)
Definition check_dash (len offset : Q) (d : list Q) : Q * list Q * bool :=
  DashPhase.check_dash eps offset d len.

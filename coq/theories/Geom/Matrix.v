(** Affine matrices over Q, mirroring util.go:613-760 (Matrix [2][3]float64).
    A matrix is the 6-tuple (a b c; d e f) = rows {a,b,c},{d,e,f}; points are pairs.
    Shared by C07 (matrix algebra / Transform), C12 and C15 (views).  Definitions only; lemmas in
    Geom/MatrixProofs.v (owned by C07) and wherever needed. *)
From Coq Require Import QArith.
Open Scope Q_scope.

Record mat := mkM { ma : Q; mb : Q; mc : Q; md : Q; me : Q; mf : Q }.
Definition qpt := (Q * Q)%type.

Definition mid : mat := mkM 1 0 0 0 1 0.

(** m.Mul(q): the combined transformation applies q first, then m *)
Definition mmul (m q : mat) : mat :=
  mkM (ma m * ma q + mb m * md q) (ma m * mb q + mb m * me q) (ma m * mc q + mb m * mf q + mc m)
      (md m * ma q + me m * md q) (md m * mb q + me m * me q) (md m * mc q + me m * mf q + mf m).

Definition mdot (m : mat) (p : qpt) : qpt :=
  (ma m * fst p + mb m * snd p + mc m, md m * fst p + me m * snd p + mf m).

Definition mtranslate (m : mat) (x y : Q) : mat := mmul m (mkM 1 0 x 0 1 y).
Definition mscale (m : mat) (sx sy : Q) : mat := mmul m (mkM sx 0 0 0 sy 0).
Definition mshear (m : mat) (sx sy : Q) : mat := mmul m (mkM 1 sx 0 sy 1 0).
(** rotation is relational: the caller supplies (cos, sin) *)
Definition mrotate_cs (m : mat) (c s : Q) : mat := mmul m (mkM c (- s) 0 s c 0).
Definition mreflectx (m : mat) : mat := mscale m (-1) 1.
Definition mreflecty (m : mat) : mat := mscale m 1 (-1).
Definition mscale_about (m : mat) (sx sy x y : Q) : mat := mtranslate (mscale (mtranslate m x y) sx sy) (- x) (- y).
Definition mshear_about (m : mat) (sx sy x y : Q) : mat := mtranslate (mshear (mtranslate m x y) sx sy) (- x) (- y).
Definition mrotate_about_cs (m : mat) (c s x y : Q) : mat := mtranslate (mrotate_cs (mtranslate m x y) c s) (- x) (- y).
Definition mreflectx_about (m : mat) (x : Q) : mat := mtranslate (mscale (mtranslate m x 0) (-1) 1) (- x) 0.
Definition mreflecty_about (m : mat) (y : Q) : mat := mtranslate (mscale (mtranslate m 0 y) 1 (-1)) 0 (- y).

Definition mT (m : mat) : mat := mkM (ma m) (md m) (mc m) (mb m) (me m) (mf m).
Definition mdet (m : mat) : Q := ma m * me m - mb m * md m.

(** Inv panics when Equal(det, 0); the model returns None exactly when det == 0 (the guard band
    0 < |det| <= Epsilon is excluded by the generators) *)
Definition minv (m : mat) : option mat :=
  let det := mdet m in
  if Qeq_bool det 0 then None
  else Some (mkM (me m / det) (- mb m / det) (- (me m * mc m - mb m * mf m) / det)
                 (- md m / det) (ma m / det) (- (- md m * mc m + ma m * mf m) / det)).

Definition meq (m q : mat) : Prop :=
  ma m == ma q /\ mb m == mb q /\ mc m == mc q /\ md m == md q /\ me m == me q /\ mf m == mf q.
Definition meqb (m q : mat) : bool :=
  Qeq_bool (ma m) (ma q) && Qeq_bool (mb m) (mb q) && Qeq_bool (mc m) (mc q) &&
  Qeq_bool (md m) (md q) && Qeq_bool (me m) (me q) && Qeq_bool (mf m) (mf q).
Definition pteq (p q : qpt) : Prop := fst p == fst q /\ snd p == snd q.

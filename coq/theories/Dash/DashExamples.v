(** C05 — the hypotheses of the implications in Props/C05.v are satisfiable on non-trivial values. *)
From Coq Require Import ZArith QArith List Bool.
From CV Require Import Dash.DashPhase Dash.DashRefuted.
Import ListNotations.
Open Scope Q_scope.

(** the witness of the refuted statement, on the fixed model: cuts are made, position 0 is in a gap *)
Example ex_cuts : dash_model go_eps (-4) [2; 1] 20 = DCuts [1; 3; 4; 6; 7; 9; 10; 12; 13; 15; 16; 18; 19] 0.
Proof. vm_compute. reflexivity. Qed.

Example ex_canonical : dash_canonical go_eps 0 [0; 2; 3; 1; 0] = (-2, [3; 1; 2]).
Proof. vm_compute. reflexivity. Qed.

Example ex_start : dash_start (-4) [2; 1] = (0%nat, -2).
Proof. vm_compute. reflexivity. Qed.

(** a closed subpath of length 10 dashed [3,1] at offset 1 starts and ends inside a dash: joined *)
Example ex_join : dash_model go_eps 1 [3; 1] 10 = DCuts [2; 3; 6; 7] 0
                  /\ join_decision true [2; 3; 6; 7] 0 = true.
Proof. vm_compute. split; reflexivity. Qed.

(** DrawPath: first dash covers the path / a real cut decision *)
Example ex_check : check_dash go_eps 5 [10; 10] 8 = (5, [10], true)
                   /\ check_dash go_eps 5 [10; 10] 4 = (5, [], true)
                   /\ check_dash go_eps 4 [3] 1 = (4, [], false).
Proof. vm_compute. repeat split; reflexivity. Qed.

Example ex_allzero : dash_model go_eps 3 [0; 0; 0] 10 = DNothing.
Proof. vm_compute. reflexivity. Qed.

(** Correspondence judge for C12: the operator tokens Go wrote (PDF content stream, PostScript program) against the model
    writers (tie) and, interpreted by exec_pdf / exec_ps, against the paint operations the recorded layers ask for
    (property), with the reference stroke outlines computed by the rasteriser's recipe. *)
From Coq Require Import QArith Qabs ZArith List Bool.
From CV Require Import Render.Sem Render.GState Render.Backends Render.UnitsProofs.
Import ListNotations.
Open Scope Q_scope.

Inductive case12 :=
| KPdf (drawsW drawsRef : list draw) (toks : list ptok) (arcs : bool)
| KPs (drawsW drawsRef : list draw) (toks : list pstok) (arcs : bool)
| KSvg (drawsRef : list draw) (els : list svgel) (h : Q)
| KBad12.

(** numbers are printed with 8 decimals (dec): absolute 1e-7 plus relative 1e-7 (page matrix 2.8346457, float rounding) *)
Definition eps : Q := 1 # 10000000.
Definition qclose (a b : Q) : bool := Qle_bool (Qabs (a - b)) (eps + eps * Qabs b).
Fixpoint ql_close (a b : list Q) : bool :=
  match a, b with [], [] => true | x :: a', y :: b' => qclose x y && ql_close a' b' | _, _ => false end.
Definition seg_close (a b : seg) : bool := (fst a =? fst b)%Z && ql_close (snd a) (snd b).
Fixpoint geo_close (a b : geo) : bool :=
  match a, b with [], [] => true | x :: a', y :: b' => seg_close x y && geo_close a' b' | _, _ => false end.
Definition is_wild (g : geo) : bool := match g with [(9%Z, [])] => true | _ => false end.
Definition col_close (a b : col3) : bool :=
  let '(a1, a2, a3) := a in let '(b1, b2, b3) := b in qclose a1 b1 && qclose a2 b2 && qclose a3 b3.

Definition ptok_close (m g : ptok) : bool :=
  match m, g with
  | Tg a, Tg b | TG a, TG b | Tgs a, Tgs b | Tw a, Tw b | TM a, TM b => qclose a b
  | Trg a1 a2 a3, Trg b1 b2 b3 | TRG a1 a2 a3, TRG b1 b2 b3 => qclose a1 b1 && qclose a2 b2 && qclose a3 b3
  | TJ a, TJ b | Tj a, Tj b | Tpaint a, Tpaint b | Tscn a, Tscn b | TSCN a, TSCN b => (a =? b)%Z
  | Td d1 p1, Td d2 p2 => ql_close d1 d2 && qclose p1 p2
  | Tpath a, Tpath b => is_wild a || geo_close a b
  | _, _ => false
  end.
Definition pstok_close (m g : pstok) : bool :=
  match m, g with
  | Pgray a, Pgray b | Plw a, Plw b | Pml a, Pml b => qclose a b
  | Prgb a1 a2 a3, Prgb b1 b2 b3 => qclose a1 b1 && qclose a2 b2 && qclose a3 b3
  | Pcap a, Pcap b | Pjoin a, Pjoin b => (a =? b)%Z
  | Pdash d1 p1, Pdash d2 p2 => ql_close d1 d2 && qclose p1 p2
  | Ppath a, Ppath b => is_wild a || geo_close a b
  | Pfill, Pfill | Peofill, Peofill | Pstroke, Pstroke | Pgsave, Pgsave | Pgrestore, Pgrestore => true
  | _, _ => false
  end.
Fixpoint list_close {A} (f : A -> A -> bool) (a b : list A) : bool :=
  match a, b with [], [] => true | x :: a', y :: b' => f x y && list_close f a' b' | _, _ => false end.

(** dash patterns up to their meaning: odd arrays repeat, the phase counts modulo the period *)
Definition dash_close (d1 : list Q) (p1 : Q) (d2 : list Q) (p2 : Q) : bool :=
  let dbl d := if Nat.odd (length d) then d ++ d else d in
  let d1 := dbl d1 in let d2 := dbl d2 in
  ql_close d1 d2 &&
  match d2 with
  | [] => true
  | _ => let t := qsum d2 in
         if Qle_bool t 0 then qclose p1 p2
         else let d := p1 - p2 in let r := d - t * inject_Z (qfloor (d / t)) in
              Qle_bool r (eps + eps * t) || Qle_bool (t - r) (eps + eps * t)
  end.

Definition bit (b : bool) (k : Z) : Z := if b then k else 0%Z.

(** flags of one paint operation (got, scaled by f into canvas mm) against the expected one *)
Definition scale_geo (f : Q) (g : geo) : geo := map (fun s => (fst s, map (fun x => x * f) (snd s))) g.
(** SVG: y points down on a page of height h *)
Fixpoint flip_ys (h : Q) (l : list Q) : list Q :=
  match l with x :: y :: r => x :: (h - y) :: flip_ys h r | _ => l end.
Definition flip_geo (h : Q) (g : geo) : geo := map (fun s => (fst s, flip_ys h (snd s))) g.
(** translucent colours are printed as rgba(int(R/a), ...): truncated to 1/255 *)
Definition col_close255 (a b : col3) : bool :=
  let '(a1, a2, a3) := a in let '(b1, b2, b3) := b in
  let c x y := Qle_bool (Qabs (x - y)) ((1 # 255) + eps) in c a1 b1 && c a2 b2 && c a3 b3.

(** geometry with an additional absolute slack [ea]: SVG prints y' = h - y with 8 significant digits, so after flipping back
    the error is relative to h, not to the (possibly small) y *)
Definition qclose_e (ea a b : Q) : bool := Qle_bool (Qabs (a - b)) (ea + eps + eps * Qabs b).
Fixpoint ql_close_e (ea : Q) (a b : list Q) : bool :=
  match a, b with [], [] => true | x :: a', y :: b' => qclose_e ea x y && ql_close_e ea a' b' | _, _ => false end.
Fixpoint geo_close_e (ea : Q) (a b : geo) : bool :=
  match a, b with
  | [], [] => true
  | x :: a', y :: b' => (fst x =? fst y)%Z && ql_close_e ea (snd x) (snd y) && geo_close_e ea a' b'
  | _, _ => false
  end.

Definition pop_flags_e (ea f : Q) (skipgeo : bool) (got want : pop) : Z :=
  let kind :=
    match pk got, pk want with
    | KFill a, KFill b => bit (negb (Bool.eqb a b)) 64
    | KStroke c1 w1 cp1 j1 m1 d1 p1, KStroke c2 w2 cp2 j2 m2 d2 p2 =>
        bit (negb (Bool.eqb c1 c2 && qclose (w1 * f) w2 && (cp1 =? cp2)%Z && (j1 =? j2)%Z && qclose m1 m2
                   && dash_close (map (fun x => x * f) d1) (p1 * f) d2 p2)) 8
    | _, _ => 64%Z
    end in
  (kind + bit (negb (skipgeo || geo_close_e ea (scale_geo f (pgeo got)) (pgeo want))) 4
   + bit (negb (col_close (pcol got) (pcol want))) 16 + bit (negb (qclose (palpha got) (palpha want))) 32)%Z.
Definition pop_flags := pop_flags_e 0.
Fixpoint pops_flags_e (ea f : Q) (skipgeo : bool) (got want : list pop) : Z :=
  match got, want with
  | [], [] => 0%Z
  | g :: got', w :: want' => Z.lor (pop_flags_e ea f skipgeo g w) (pops_flags_e ea f skipgeo got' want')
  | _, _ => 2%Z
  end.
Definition pops_flags := pops_flags_e 0.

Definition has_bad (l : list pop) : bool := existsb (fun p => match pk p with KBad => true | _ => false end) l.
Definition n_fallback (ds : list draw) : Z :=
  Z.of_nat (length (filter (fun d => has_stroke (dS d) && match native_stroke d with None => true | _ => false end) ds)).

Definition judge (c : case12) : list Z :=
  match c with
  | KPdf dw dr toks arcs =>
      let s := fold_right (fun t acc => match t with Tcm x => x | _ => acc end) 1 toks in
      let body := filter (fun t => match t with Tcm _ => false | _ => true end) toks in
      let tie := negb (list_close ptok_close (pdf_write true dw pdfw_init) body) in
      let got := exec_pdf toks pdfg_init in
      let want := flat_map pdf_spec dr in
      let pf := pops_flags (s * mm_per_pt) false got want in
      [bit tie 1; Z.lor pf (bit (has_bad got) 64); Z.of_nat (length got); Z.of_nat (length dr); n_fallback dr;
       bit (existsb (fun t => match t with Tgs _ => true | _ => false end) toks) 1]
  | KPs dw dr toks arcs =>
      let tie := negb (list_close pstok_close (ps_write true dw psw_init) toks) in
      let got := exec_ps toks (psg_init, []) in
      let want := flat_map ps_spec dr in
      (* PostScript user space is used as millimetres by the back-end (no scale is written): judged in those units,
         the absolute unit is reported separately *)
      let pf := pops_flags 1 arcs got want in
      [bit tie 1; Z.lor pf (bit (has_bad got) 64); Z.of_nat (length got); Z.of_nat (length dr); n_fallback dr; bit arcs 2]
  | KSvg dr els h =>
      (* no writer model for SVG (no cache): property flags only. The elements are interpreted by exec_svg (SVG 1.1
         defaults), the geometry flipped back to canvas space *)
      let got := map (fun p => mkPop (pk p) (flip_geo h (pgeo p)) (pcol p) (palpha p)) (exec_svg els) in
      let want := flat_map svg_spec dr in
      let pf := pops_flags_e (eps * h) 1 false got want in
      (* colours: exact for opaque ones, within 1/255 for rgba() *)
      let colbad := negb (list_close (fun g w => col_close255 (pcol g) (pcol w)) got want) in
      let pf := Z.lor (Z.land pf (Z.lnot 16)) (bit colbad 16) in
      [0%Z; Z.lor pf (bit (has_bad got) 64); Z.of_nat (length got); Z.of_nat (length dr);
       Z.of_nat (length (filter (fun d => has_stroke (dS d) && match native_stroke_svg d with None => true | _ => false end) dr)); 0%Z]
  | KBad12 => [512%Z; 0%Z; 0%Z; 0%Z; 0%Z; 0%Z]
  end.

(** Correspondence judge for C08 (K2): Bounds() / FastBounds() of a generated path, as returned by the Go code,
    are judged against the specification:
      - every Bézier segment is contained in Bounds grown by the slack, for ALL t, by the verified checker
        [chk_contains] (Geom.BoundsProofs.chk_contains_sound); arcs: rational sample points of the exact arc;
      - each of the four sides is touched: a witness parameter (found by the harness) whose exact point lies
        within the slack of the side ([chk_touch]; arcs: a unit-circle witness with u^2+v^2 = 1 +- 2^-48);
      - FastBounds contains Bounds; both are equivariant under the supplied translations / reflections;
      - K1: for paths without arcs the model [fast_bounds] (the arms bridged to the source) equals Go's FastBounds. *)
From Coq Require Import ZArith QArith Qabs Qminmax List Bool.
From CV Require Import Base.Dy Geom.Matrix Geom.MatrixProofs Geom.Bezier Geom.Ellipse Geom.Bounds.
Import ListNotations.
Open Scope Q_scope.

Definition tol30 : Q := 1 # 1073741824.
Definition tol48 : Q := 1 # 281474976710656.
Definition tol40 : Q := 1 # 1099511627776.
Definition tol20 : Q := 1 # 1048576.
Definition bit (b : bool) (k : Z) : Z := if b then k else 0%Z.

Record arc8 := mkA8 {
  a_c : qpt; a_rx : Q; a_ry : Q; a_cs : Q; a_sn : Q; a_s : qpt; a_e : qpt; a_large : bool; a_sweep : bool;
  a_cgo : qpt;                 (* centre derived by the code's ellipseToCenter *)
  a_samples : list (Q * Q) }.

Inductive seg8 :=
| GB (ctrl : list qpt)         (* line / quadratic / cubic incl. its start point *)
| GA (a : arc8).

(** touch witness: segment index, Bézier parameter or unit-circle point *)
Inductive wit8 := WT (i : nat) (t : Q) | WA (i : nat) (u v : Q) | WN.

(** an equivariance probe: the map (dx, dy, flipx, flipy: p |-> (sx*x + dx, sy*y + dy)), Go's Bounds and FastBounds of the mapped path *)
Record eq8 := mkE8 { e_dx : Q; e_dy : Q; e_fx : bool; e_fy : bool; e_b : box; e_fb : box }.

Record case08 := mkC8 {
  c_segs : list seg8; c_b : box; c_fb : box; c_wits : list wit8;   (* witnesses for sides 0..3 *)
  c_eqs : list eq8; c_hasarc : bool; c_panic : bool }.

Definition n1 (p : qpt) : Q := Qabs (fst p) + Qabs (snd p).
Definition pred (p : qpt) : qpt := (Qred (fst p), Qred (snd p)).
Definition bmax (b : box) : Q := Qmax (Qmax (Qabs (bx0 b)) (Qabs (bx1 b))) (Qmax (Qabs (by0 b)) (Qabs (by1 b))).

Definition box_closeb (e : Q) (a b : box) : bool :=
  Qle_bool (Qabs (bx0 a - bx0 b)) e && Qle_bool (Qabs (by0 a - by0 b)) e &&
  Qle_bool (Qabs (bx1 a - bx1 b)) e && Qle_bool (Qabs (by1 a - by1 b)) e.
Definition box_subb (e : Q) (a b : box) : bool :=   (* a inside b grown by e *)
  Qle_bool (bx0 b - e) (bx0 a) && Qle_bool (by0 b - e) (by0 a) && Qle_bool (bx1 a) (bx1 b + e) && Qle_bool (by1 a) (by1 b + e).
Definition box_eqb (a b : box) : bool :=
  Qeq_bool (bx0 a) (bx0 b) && Qeq_bool (by0 a) (by0 b) && Qeq_bool (bx1 a) (bx1 b) && Qeq_bool (by1 a) (by1 b).

Definition map_box (q : eq8) (b : box) : box :=
  let '(x0, x1) := if e_fx q then (- bx1 b, - bx0 b) else (bx0 b, bx1 b) in
  let '(y0, y1) := if e_fy q then (- by1 b, - by0 b) else (by0 b, by1 b) in
  mkB (x0 + e_dx q) (y0 + e_dy q) (x1 + e_dx q) (y1 + e_dy q).

Definition decisive (u v w : qpt) : bool :=
  Qle_bool (tol20 * (n1 u * n1 w)) (Qabs (qcross u w)) && Qle_bool (tol20 * (n1 w * n1 v)) (Qabs (qcross w v)).

(** per arc: (generator consistent, input centre tie, all decisive in-span samples inside the grown box, #samples used) *)
Definition judge_arc8 (gb : box) (a : arc8) : bool * bool * bool * nat :=
  let c := a_c a in
  let u0 := qsub (a_s a) c in let v0 := qsub (a_e a) c in
  (* the supplied centre is validated: both end points lie on the ellipse around it (exactly for the rational
     families, within 2^-40 relative for binary64 approximations of irrational centres), and the flags agree *)
  let rr := a_rx a * a_rx a * (a_ry a * a_ry a) in
  let gen_ok := Qeq_bool (a_cs a * a_cs a + a_sn a * a_sn a) 1 &&
                Qle_bool (Qabs (ell_resid (a_rx a) (a_ry a) (a_cs a) (a_sn a) u0)) (tol40 * rr) &&
                Qle_bool (Qabs (ell_resid (a_rx a) (a_ry a) (a_cs a) (a_sn a) v0)) (tol40 * rr) &&
                (Qle_bool (Qabs (qcross u0 v0)) (tol20 * (n1 u0 * n1 v0)) || Bool.eqb (arc_large (a_sweep a) u0 v0) (a_large a)) in
  let scale := 1 + n1 c + a_rx a in
  let tie_in := Qle_bool (Qabs (fst (a_cgo a) - fst c)) (tol30 * scale) && Qle_bool (Qabs (snd (a_cgo a) - snd c)) (tol30 * scale) in
  let one (uv : Q * Q) : bool * bool :=
    let X := pred (ellipse_pos (a_rx a) (a_ry a) (a_cs a) (a_sn a) c (fst uv) (snd uv)) in
    let w0 := qsub X c in
    if decisive u0 v0 w0 && in_spanb (a_sweep a) u0 v0 w0 then (true, in_boxb gb X) else (false, true) in
  let rs := map one (a_samples a) in
  (gen_ok, tie_in, forallb snd rs && in_boxb gb (a_s a) && in_boxb gb (a_e a), length (filter fst rs)).

Definition fuel8 : nat := 48.

(** flags:
    1 tie: FastBounds model != Go (paths without arcs)     2 tie: arc centre of ellipseToCenter != generator
    4 prop: a Bézier segment is not contained in Bounds    8 prop: an arc point is outside Bounds
    16 prop: a side of Bounds is not touched               32 prop: FastBounds does not contain Bounds
    64 prop: Bounds not equivariant                        256 prop: FastBounds not equivariant
    128 panic     512 witness relation violated     2048 generator inconsistent *)
Definition model_segs (segs : list seg8) : option (qpt * list bseg) :=
  match segs with
  | GB (s :: _) :: _ =>
      let conv (g : seg8) : option bseg :=
        match g with
        | GB [_; e] => Some (BL e) | GB [_; c; e] => Some (BQ c e) | GB [_; c1; c2; e] => Some (BC c1 c2 e) | _ => None
        end in
      let fix go (l : list seg8) : option (list bseg) :=
        match l with
        | [] => Some []
        | g :: r => match conv g, go r with Some b, Some br => Some (b :: br) | _, _ => None end
        end in
      match go segs with Some l => Some (s, l) | None => None end
  | _ => None
  end.

Definition judge_wit (e : Q) (b : box) (segs : list seg8) (side : Z) (w : wit8) : bool * bool :=   (* (relation ok, touch ok) *)
  match w with
  | WN => (true, false)
  | WT i t => match nth_error segs i with
              | Some (GB ctrl) => (true, chk_touch e b side ctrl t)
              | Some (GA a) =>      (* the end points of an arc: parameter 0 / 1 *)
                  let X := if Qeq_bool t 0 then a_s a else a_e a in
                  (true, (Qeq_bool t 0 || Qeq_bool t 1) && Qle_bool (Qabs (coord side X - side_val b side)) e)
              | None => (true, false)
              end
  | WA i u v => match nth_error segs i with
                | Some (GA a) =>
                    let rel := Qle_bool (Qabs (u * u + v * v - 1)) tol48 in
                    let c := a_c a in
                    let X := pred (ellipse_pos (a_rx a) (a_ry a) (a_cs a) (a_sn a) c u v) in
                    let ins := in_spanb (a_sweep a) (qsub (a_s a) c) (qsub (a_e a) c) (qsub X c) in
                    (rel, ins && Qle_bool (Qabs (coord side X - side_val b side)) e)
                | _ => (true, false)
                end
  end.

Definition judge (c : case08) : list Z :=
  let b := c_b c in let fb := c_fb c in
  let e := tol30 * (1 + bmax b) in
  let gb := grow b e in
  let per (g : seg8) : (bool * bool * bool * bool) * Z :=   (* gen_ok, tie_in, bezier contained, arc contained; inner count *)
    match g with
    | GB ctrl => ((true, true, chk_contains fuel8 gb ctrl, true), 1%Z)
    | GA a => let '(g1, t1, ok, n) := judge_arc8 gb a in ((g1, t1, true, ok), Z.of_nat n)
    end in
  let rs := map per (c_segs c) in
  let gen_ok := forallb (fun r => fst (fst (fst (fst r)))) rs in
  let tie_in := forallb (fun r => snd (fst (fst (fst r)))) rs in
  let bez_ok := forallb (fun r => snd (fst (fst r))) rs in
  let arc_ok := forallb (fun r => snd (fst r)) rs in
  let cnt := fold_left Z.add (map snd rs) 0%Z in
  let ws := map (fun '(side, w) => judge_wit e b (c_segs c) side w) (combine [0%Z; 1%Z; 2%Z; 3%Z] (c_wits c)) in
  let rel_ok := forallb fst ws in
  let touch_ok := forallb snd ws && Nat.eqb (length ws) 4 in
  let fb_ok := box_subb e b fb in
  let eqv (q : eq8) : bool * bool :=
    let ee := tol30 * (1 + bmax (e_b q) + bmax b) in
    (box_closeb ee (e_b q) (map_box q b),
     if c_hasarc c then box_closeb (tol30 * (1 + bmax (e_fb q) + bmax fb)) (e_fb q) (map_box q fb) else box_eqb (e_fb q) (map_box q fb)) in
  let es := map eqv (c_eqs c) in
  let tie_fb := if c_hasarc c then true
                else match model_segs (c_segs c) with
                     | Some (s, l) => box_eqb (fast_bounds s l) fb
                     | None => false
                     end in
  [ (bit (negb tie_fb) 1 + bit (negb tie_in) 2 + bit (negb bez_ok) 4 + bit (negb arc_ok) 8 + bit (negb touch_ok) 16 +
     bit (negb fb_ok) 32 + bit (negb (forallb fst es)) 64 + bit (c_panic c) 128 + bit (negb (forallb snd es)) 256 +
     bit (negb rel_ok) 512 + bit (negb gen_ok) 2048)%Z;
    (if c_hasarc c then 1 else 0)%Z; cnt ].

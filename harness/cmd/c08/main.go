// c08: correspondence harness for C08 (Bounds is the tight bounding box, FastBounds contains it).
// Generated curved paths (exact dyadic geometry, see internal/gen/curves.go) go through Path.Bounds and
// Path.FastBounds of the real code; the boxes, the decoded segments, touch witnesses for the four sides (found here
// in floating point, verified exactly by the Coq judge) and the boxes of translated / reflected copies are handed
// to Corr/C08.v.
package main

import (
	"flag"
	"fmt"
	"math"

	"github.com/tdewolff/canvas"

	"verifharness/internal/cq"
	"verifharness/internal/gen"
	"verifharness/internal/out"
	"verifharness/internal/pd"
	"verifharness/internal/rng"
)

func safe(f func()) (msg string) {
	defer func() {
		if r := recover(); r != nil {
			msg = fmt.Sprint(r)
		}
	}()
	f()
	return ""
}

func build(cp gen.CPath) *canvas.Path {
	p := &canvas.Path{}
	p.MoveTo(cp.Start[0], cp.Start[1])
	for _, s := range cp.Segs {
		switch s.Kind {
		case 'M':
			p.MoveTo(s.P[0][0], s.P[0][1])
		case 'L':
			p.LineTo(s.P[0][0], s.P[0][1])
		case 'Q':
			p.QuadTo(s.P[0][0], s.P[0][1], s.P[1][0], s.P[1][1])
		case 'C':
			p.CubeTo(s.P[0][0], s.P[0][1], s.P[1][0], s.P[1][1], s.P[2][0], s.P[2][1])
		case 'A':
			a := s.Arc
			rrx, rry := a.ReqRadii()
			p.ArcTo(rrx, rry, a.RotDeg, a.Large, a.Sweep, a.Ex, a.Ey)
		}
	}
	if cp.Closed {
		p.Close()
	}
	return p
}

func boxQ(r canvas.Rect) string {
	return fmt.Sprintf("(mkB %s %s %s %s)", cq.F(r.X0), cq.F(r.Y0), cq.F(r.X1), cq.F(r.Y1))
}
func finiteR(r canvas.Rect) bool {
	for _, x := range []float64{r.X0, r.Y0, r.X1, r.Y1} {
		if math.IsNaN(x) || math.IsInf(x, 0) {
			return false
		}
	}
	return true
}
func closeRel(a, b float64) bool   { return math.Abs(a-b) <= math.Abs(b)*0x1p-40 }
func flags(f float64) (bool, bool) { return f == 1 || f == 3, f == 2 || f == 3 }

// segment as seen by the witness search
type wseg struct {
	kind byte
	x, y []float64 // control values incl. start
	arc  *gen.ArcInfo
}

func bez(c []float64, t float64) float64 {
	switch len(c) {
	case 2:
		return (1-t)*c[0] + t*c[1]
	case 3:
		return (1-t)*(1-t)*c[0] + 2*(1-t)*t*c[1] + t*t*c[2]
	default:
		return (1-t)*(1-t)*(1-t)*c[0] + 3*(1-t)*(1-t)*t*c[1] + 3*(1-t)*t*t*c[2] + t*t*t*c[3]
	}
}

// critical parameters of a coordinate function (own float code, not the library's solver)
func crit(c []float64) []float64 {
	ts := []float64{0, 1}
	add := func(t float64) {
		if t > 0 && t < 1 {
			ts = append(ts, t)
		}
	}
	switch len(c) {
	case 3:
		if d := c[0] - 2*c[1] + c[2]; d != 0 {
			add((c[0] - c[1]) / d)
		}
	case 4:
		A := -c[0] + 3*c[1] - 3*c[2] + c[3]
		B := 2 * (c[0] - 2*c[1] + c[2])
		C := c[1] - c[0]
		if A == 0 {
			if B != 0 {
				add(-C / B)
			}
		} else if disc := B*B - 4*A*C; disc >= 0 {
			q := -0.5 * (B + math.Copysign(math.Sqrt(disc), B))
			add(q / A)
			if q != 0 {
				add(C / q)
			}
		}
	}
	return ts
}

func cross(ax, ay, bx, by float64) float64 { return ax*by - ay*bx }

func spanCCW(ux, uy, vx, vy, wx, wy float64) bool {
	if cross(ux, uy, vx, vy) >= 0 {
		return cross(ux, uy, wx, wy) >= 0 && cross(wx, wy, vx, vy) >= 0
	}
	return cross(ux, uy, wx, wy) >= 0 || cross(wx, wy, vx, vy) >= 0
}

// witness search for one side: side 0 left, 1 bottom, 2 right, 3 top.
// Robust candidates (Bézier parameters, arc end points) are verified by the judge by exact evaluation only; fragile
// ones (the extreme directions of an arc, binary64 unit vectors) must in addition pass the judge's EXACT in-span test,
// which a point that coincides with an end point of the arc up to rounding can fail. A robust candidate therefore wins
// whenever it is as good as the best fragile one up to 1e-10 (relative).
func witness(segs []wseg, side int, target float64) string {
	bestR, bestF := math.Inf(1), math.Inf(1)
	wR, wF := "WN", "WN"
	for i, s := range segs {
		if s.kind != 'A' {
			c := s.x
			if side == 1 || side == 3 {
				c = s.y
			}
			for _, t := range crit(c) {
				if d := math.Abs(bez(c, t) - target); d < bestR {
					bestR = d
					wR = fmt.Sprintf("(WT %s %s)", cq.N(i), cq.F(t))
				}
			}
			continue
		}
		a := s.arc
		// the end points of the arc (exact): parameter 0 / 1
		for k, pt := range [][2]float64{{a.Sx, a.Sy}, {a.Ex, a.Ey}} {
			val := pt[0]
			if side == 1 || side == 3 {
				val = pt[1]
			}
			if d := math.Abs(val - target); d < bestR {
				bestR = d
				wR = fmt.Sprintf("(WT %s %d)", cq.N(i), k)
			}
		}
		cs, sn := float64(a.CsN)/float64(a.H), float64(a.SnN)/float64(a.H)
		nx := math.Hypot(a.Rx*cs, a.Ry*sn)
		ny := math.Hypot(a.Rx*sn, a.Ry*cs)
		ext := [][2]float64{{a.Rx * cs / nx, -a.Ry * sn / nx}, {-a.Rx * cs / nx, a.Ry * sn / nx}, {a.Rx * sn / ny, a.Ry * cs / ny}, {-a.Rx * sn / ny, -a.Ry * cs / ny}}
		u0x, u0y := a.Sx-a.Cx, a.Sy-a.Cy
		v0x, v0y := a.Ex-a.Cx, a.Ey-a.Cy
		for _, e := range ext {
			n := math.Hypot(e[0], e[1])
			e[0], e[1] = e[0]/n, e[1]/n
			wx := a.Rx*e[0]*cs - a.Ry*e[1]*sn
			wy := a.Rx*e[0]*sn + a.Ry*e[1]*cs
			in := spanCCW(u0x, u0y, v0x, v0y, wx, wy)
			if !a.Sweep {
				in = spanCCW(v0x, v0y, u0x, u0y, wx, wy)
			}
			if !in {
				continue
			}
			val := a.Cx + wx
			if side == 1 || side == 3 {
				val = a.Cy + wy
			}
			if d := math.Abs(val - target); d < bestF {
				bestF = d
				wF = fmt.Sprintf("(WA %s %s %s)", cq.N(i), cq.F(e[0]), cq.F(e[1]))
			}
		}
	}
	if bestR <= bestF+1e-10*(1+math.Abs(target)) {
		return wR
	}
	return wF
}

// freeArc: an arc with dyadic end points and radii whose centre is irrational in general. The centre is computed
// here (own implementation of the SVG implementation notes, binary64) and VALIDATED by the judge: both end points
// must lie on the ellipse around it within 2^-40 and the flags must agree with the orientation of (start, end).
// A third of the cases have phi = 0, a horizontal chord and |x2-x1| = k*rx with k in {1/2, 1, 3/2}.
func freeArc(r *rng.R) gen.CPath {
	step := 0.25
	g := func(lo, hi int) float64 { return float64(r.Range(lo, hi)) * step }
	for {
		var cs, sn, h int64 = 1, 0, 1
		rx := g(8, 400)
		ry := g(4, 400)
		if ry > rx {
			rx, ry = ry, rx
		}
		if rx == ry && r.Bool() {
			ry = rx / 2
		}
		x1, y1 := g(-200, 200), g(-200, 200)
		var x2, y2 float64
		fam := "arc-free"
		if r.P(1, 3) {
			fam = "arc-chord"
			k := rng.Pick(r, []float64{0.5, 1, 1, 1.5})
			if r.Bool() {
				k = -k
			}
			x2, y2 = x1+k*rx, y1
		} else {
			if rx != ry && r.Bool() {
				t := rng.Pick(r, [][3]int64{{3, 4, 5}, {5, 12, 13}, {8, 15, 17}, {-3, 4, 5}, {4, 3, 5}, {0, 1, 1}})
				cs, sn, h = t[0], t[1], t[2]
			}
			x2, y2 = x1+g(-int(ry*4), int(ry*4)), y1+g(-int(ry*4), int(ry*4))
		}
		if x1 == x2 && y1 == y2 {
			continue
		}
		c, s := float64(cs)/float64(h), float64(sn)/float64(h)
		x1p := c*(x1-x2)/2 + s*(y1-y2)/2
		y1p := -s*(x1-x2)/2 + c*(y1-y2)/2
		if x1p*x1p/(rx*rx)+y1p*y1p/(ry*ry) > 0.9 {
			continue // radii (nearly) too small: ArcTo would rescale them
		}
		large, sweep := r.Bool(), r.Bool()
		sq := (rx*rx*ry*ry - rx*rx*y1p*y1p - ry*ry*x1p*x1p) / (rx*rx*y1p*y1p + ry*ry*x1p*x1p)
		coef := math.Sqrt(sq)
		if large == sweep {
			coef = -coef
		}
		cxp, cyp := coef*rx*y1p/ry, -coef*ry*x1p/rx
		a := &gen.ArcInfo{Rx: rx, Ry: ry, CsN: cs, SnN: sn, H: h, Sx: x1, Sy: y1, Ex: x2, Ey: y2, Large: large, Sweep: sweep, Approx: true}
		a.Cx, a.Cy = c*cxp-s*cyp+(x1+x2)/2, s*cxp+c*cyp+(y1+y2)/2
		a.RotDeg = math.Atan2(float64(sn), float64(cs)) * 180 / math.Pi
		return gen.CPath{Family: fam, Start: [2]float64{x1, y1}, Segs: []gen.CSeg{{Kind: 'A', Arc: a}}}
	}
}

func samples(r *rng.R, n int) string {
	var xs []string
	for k := 0; k < n; k++ {
		q := int64(r.Range(1, 9))
		p := int64(r.Range(-40, 40))
		if r.P(1, 12) {
			xs = append(xs, cq.Pair("(-1)", "0"))
			continue
		}
		den := q*q + p*p
		xs = append(xs, cq.Pair(cq.Q(q*q-p*p, den), cq.Q(2*p*q, den)))
	}
	return cq.List(xs)
}

func main() {
	seed := flag.Uint64("seed", 1, "")
	n := flag.Int("n", 100, "")
	only := flag.Int("only", -1, "")
	svg := flag.String("path", "", "judge this SVG path instead of generated ones (Béziers and lines only)")
	flag.Parse()
	o := out.New()
	defer o.Close()
	root := rng.New(*seed)
	for i := 0; i < *n; i++ {
		if *only >= 0 && i != *only {
			continue
		}
		r := root.Fork(uint64(i))
		var cp gen.CPath
		var p *canvas.Path
		if *svg != "" {
			p = canvas.MustParseSVGPath(*svg)
			cp.Family = "literal"
		} else {
			if r.P(1, 6) {
				cp = freeArc(r)
			} else {
				cp = gen.Curved(r)
			}
			p = build(cp)
		}
		in, err := pd.Decode(p.Data())
		if err != nil || len(in) < 2 {
			continue
		}
		desc := map[string]interface{}{"path": p.String()}
		var b, fb canvas.Rect
		msg := safe(func() { b = p.Bounds(); fb = p.FastBounds() })
		if msg != "" {
			desc["panic"] = msg
		}
		desc["bounds"], desc["fastbounds"] = b.String(), fb.String()
		if !finiteR(b) || !finiteR(fb) {
			desc["non_finite"] = true
			o.Emit(out.Case{I: i, Fam: cp.Family, Coq: "mkC8 nil (mkB 0 0 0 0) (mkB 0 0 0 0) nil nil false true", Desc: desc})
			continue
		}
		var arcs []*gen.ArcInfo
		for _, s := range cp.Segs {
			if s.Kind == 'A' {
				arcs = append(arcs, s.Arc)
			}
		}
		ai := 0
		var segs []string
		var ws []wseg
		hasArc := false
		okCase := true
		for k, s := range in {
			switch s.Cmd {
			case 'M':
				segs = append(segs, fmt.Sprintf("(GB %s)", cq.List([]string{cq.Pt(s.X, s.Y), cq.Pt(s.X, s.Y)})))
				ws = append(ws, wseg{kind: 'L', x: []float64{s.X, s.X}, y: []float64{s.Y, s.Y}})
			case 'L', 'Z':
				segs = append(segs, fmt.Sprintf("(GB %s)", cq.List([]string{cq.Pt(s.X0, s.Y0), cq.Pt(s.X, s.Y)})))
				ws = append(ws, wseg{kind: 'L', x: []float64{s.X0, s.X}, y: []float64{s.Y0, s.Y}})
			case 'Q':
				segs = append(segs, fmt.Sprintf("(GB %s)", cq.List([]string{cq.Pt(s.X0, s.Y0), cq.Pt(s.A[0], s.A[1]), cq.Pt(s.X, s.Y)})))
				ws = append(ws, wseg{kind: 'Q', x: []float64{s.X0, s.A[0], s.X}, y: []float64{s.Y0, s.A[1], s.Y}})
			case 'C':
				segs = append(segs, fmt.Sprintf("(GB %s)", cq.List([]string{cq.Pt(s.X0, s.Y0), cq.Pt(s.A[0], s.A[1]), cq.Pt(s.A[2], s.A[3]), cq.Pt(s.X, s.Y)})))
				ws = append(ws, wseg{kind: 'C', x: []float64{s.X0, s.A[0], s.A[2], s.X}, y: []float64{s.Y0, s.A[1], s.A[3], s.Y}})
			case 'A':
				hasArc = true
				if ai >= len(arcs) {
					okCase = false
					break
				}
				g := arcs[ai]
				ai++
				il, is := flags(s.A[3])
				if !closeRel(s.A[0], g.Rx) || !closeRel(s.A[1], g.Ry) || s.X != g.Ex || s.Y != g.Ey || s.X0 != g.Sx || s.Y0 != g.Sy || il != g.Large || is != g.Sweep {
					desc["builder_changed_arc"] = fmt.Sprint(k, s, *g)
					okCase = false
					break
				}
				cgx, cgy, _, _ := canvas.VerifC07EllipseToCenter(s.X0, s.Y0, s.A[0], s.A[1], s.A[2], il, is, s.X, s.Y)
				if math.IsNaN(cgx) || math.IsNaN(cgy) {
					desc["centre_nan"] = true
					okCase = false
					break
				}
				segs = append(segs, fmt.Sprintf("(GA (mkA8 %s %s %s %s %s %s %s %s %s %s %s))",
					cq.Pt(g.Cx, g.Cy), cq.F(g.Rx), cq.F(g.Ry), cq.Q(g.CsN, g.H), cq.Q(g.SnN, g.H), cq.Pt(g.Sx, g.Sy), cq.Pt(g.Ex, g.Ey),
					cq.Bool(g.Large), cq.Bool(g.Sweep), cq.Pt(cgx, cgy), samples(r, 8)))
				ws = append(ws, wseg{kind: 'A', arc: g})
			}
		}
		if !okCase {
			if _, changed := desc["builder_changed_arc"]; changed {
				// ArcTo stored another arc than the one requested (the generator's, exact; for Shrink arcs after SVG's out-of-range
				// correction): no exact model of the stored record is at hand, but the path still has to trace the requested arc, so
				// points of that arc (own evaluation, float) must lie inside Bounds and FastBounds
				worst, at := 0.0, ""
				for _, g := range arcs {
					cs, sn := float64(g.CsN)/float64(g.H), float64(g.SnN)/float64(g.H)
					t0 := math.Atan2(float64(g.Us[1]), float64(g.Us[0]))
					t1 := math.Atan2(float64(g.Ue[1]), float64(g.Ue[0]))
					d := t1 - t0
					if g.Sweep && d <= 0 {
						d += 2 * math.Pi
					} else if !g.Sweep && d >= 0 {
						d -= 2 * math.Pi
					}
					if g.Us[2] == 0 {
						continue // free arcs carry no unit-circle points
					}
					for k := 0; k <= 64; k++ {
						t := t0 + d*float64(k)/64
						ex, ey := g.Rx*math.Cos(t), g.Ry*math.Sin(t)
						x, y := g.Cx+cs*ex-sn*ey, g.Cy+sn*ex+cs*ey
						for _, bx := range []canvas.Rect{b, fb} {
							out := math.Max(math.Max(bx.X0-x, x-bx.X1), math.Max(bx.Y0-y, y-bx.Y1))
							if out > worst {
								worst, at = out, fmt.Sprintf("(%v, %v)", x, y)
							}
						}
					}
				}
				desc["requested_arc_outside_by"] = worst
				desc["requested_arc_point"] = at
				o.Emit(out.Case{I: i, Fam: cp.Family + "|builder-changed-arc", Coq: "", Desc: desc})
			}
			continue
		}
		wits := []string{witness(ws, 0, b.X0), witness(ws, 1, b.Y0), witness(ws, 2, b.X1), witness(ws, 3, b.Y1)}
		// equivariance probes
		dx, dy := float64(r.Range(-200, 200))*0.25, float64(r.Range(-200, 200))*0.25
		type probe struct {
			dx, dy float64
			fx, fy bool
		}
		var eqs []string
		var eqd []string
		for _, q := range []probe{{dx, dy, false, false}, {0, 0, true, false}, {0, 0, false, true}, {dx, dy, true, true}} {
			sx, sy := 1.0, 1.0
			if q.fx {
				sx = -1
			}
			if q.fy {
				sy = -1
			}
			m := canvas.Matrix{{sx, 0, q.dx}, {0, sy, q.dy}}
			var qb, qfb canvas.Rect
			pm := safe(func() {
				t := p.Copy().Transform(m)
				qb, qfb = t.Bounds(), t.FastBounds()
			})
			if pm != "" || !finiteR(qb) || !finiteR(qfb) {
				desc["probe_panic_or_nonfinite"] = fmt.Sprint(m, pm)
				msg = "probe: " + pm
				continue
			}
			eqs = append(eqs, fmt.Sprintf("(mkE8 %s %s %s %s %s %s)", cq.F(q.dx), cq.F(q.dy), cq.Bool(q.fx), cq.Bool(q.fy), boxQ(qb), boxQ(qfb)))
			eqd = append(eqd, fmt.Sprintf("%v -> bounds %v fast %v", m, qb, qfb))
		}
		desc["probes"] = eqd
		term := fmt.Sprintf("mkC8 %s %s %s %s %s %s %s", cq.List(segs), boxQ(b), boxQ(fb), cq.List(wits), cq.List(eqs), cq.Bool(hasArc), cq.Bool(msg != ""))
		o.Emit(out.Case{I: i, Fam: cp.Family, Coq: term, Desc: desc, Tags: []string{cp.Family}})
	}
}

#!/bin/sh
# usage: lib/coqmake.sh [targets relative to coq/, e.g. theories/Text/KP.vo]   — locked, full .vo build
cd /verif && exec python3 - "$@" <<'PY'
import sys
sys.path.insert(0, '/verif/lib')
import vlib
ok, log = vlib.coq_make(sys.argv[1:] or None)
print(log[-6000:])
sys.exit(0 if ok else 1)
PY

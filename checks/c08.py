"""C08 — Bounds is the tight bounding box and FastBounds contains it."""
import json, os
import vlib

META = dict(
    level="proof",
    technique="Coq proofs over Q (hull lemmas, verified subdivision checker chk_contains, FastBounds loop contains every point of "
              "every line/quadratic/cubic segment, quadratic-vertex and ellipse-extent theorems, equivariance) + go/ast translator "
              "regenerating the arms of Path.FastBounds from path.go with bridging lemmas re-proved on every run + verified "
              "acceptance check (K2) of Bounds()/FastBounds() of generated curved paths",
    level_text="Theorems (Coq, closed under the global context): chk_contains fuel box ctrl = true implies that for ALL t in [0,1] the "
               "point of the line/quadratic/cubic with control polygon ctrl lies in box; the model of the FastBounds loop (whose "
               "line/quadratic/cubic arms are regenerated from the current path.go and proved equal to the model on every run) "
               "contains every point of every segment of every path, is monotone, and commutes with translations and axis "
               "reflections; the cubic arm of the unchanged tree is refuted (M0 0C1 5 2 6 10 7); the quadratic arm of Bounds "
               "(start, end, interior vertex) bounds the curve on [0,1] and is attained; every point of an ellipse lies within "
               "the extents Bounds uses and within centre +- max(rx,ry). Tie: Bounds()/FastBounds() of the real code on generated "
               "paths are judged by the checker with slack 2^-30: containment of every Bézier segment for all t, a touch witness "
               "on each of the four sides, FastBounds contains Bounds, equivariance under dyadic translations and reflections; "
               "for arc-free paths the FastBounds model equals the Go result exactly.",
    level_note="Trusted: Coq kernel + vm_compute, the translator's rendering of the three arms, the harness. The cubic arm of Bounds "
               "(solveQuadraticFormula) and the arc arm (ellipseToCenter, Atan2, angleBetween) are not modelled: their results are "
               "judged per instance (containment for all t by the checker, touch witnesses; arcs by rational sample points of the "
               "exact arc and unit-circle touch witnesses), on generated inputs only.",
    harness=["translator", "c08"],
)

HEADER = ("From Coq Require Import ZArith QArith List Bool.\nFrom CV Require Import Base.Dy Geom.Matrix Geom.Bounds Corr.C08.\n"
          "Import ListNotations.\nOpen Scope Q_scope.\n")

FLAGS = {1: "tie:FastBounds-model!=Go", 2: "tie:input-arc-centre", 4: "prop:bezier-segment-not-contained-in-Bounds",
         8: "prop:arc-point-outside-Bounds", 16: "prop:side-of-Bounds-not-touched", 32: "prop:FastBounds-does-not-contain-Bounds",
         64: "prop:Bounds-not-equivariant", 128: "prop:panic", 256: "prop:FastBounds-not-equivariant",
         512: "rel:witness-not-on-unit-circle", 2048: "gen:inconsistent-generator-arc"}
PROP_MASK = 4 | 8 | 16 | 32 | 64 | 128 | 256
TIE_MASK = 1 | 2 | 512 | 2048

# defects probed on the unchanged tree (DESIGN.md par. 4): judged first, through the same machinery
PROBES = ["M0 0C1 5 2 6 10 7"]


def prepare():
    """setup: regenerate Gen/*.v from the current source (translator) so that a fresh checkout builds"""
    ok, log = vlib.run_translator()
    if not ok:
        raise vlib.BuildError("translator failed on the current source:\n" + log[-2000:])


def local_findings():
    """entries proposed by this check for known_findings.json (design/C08.findings.json) until the lead merges them"""
    p = os.path.join(vlib.ROOT, "design", "C08.findings.json")
    return json.load(open(p))["findings"] if os.path.exists(p) else []


def run_cases(ctx, seed, n, only=None, path=None):
    args = ["-seed", str(seed), "-n", str(n)]
    if only is not None:
        args += ["-only", str(only)]
    if path is not None:
        args = ["-seed", "0", "-n", "1", "-path", path]
    rc, cases, err = vlib.harness_cases("c08", args)
    if rc != 0:
        raise vlib.BuildError("harness c08 exited %d: %s" % (rc, err[-2000:]))
    UNJUDGED.extend(c for c in cases if not c["coq"])
    cases = [c for c in cases if c["coq"]]
    rows = vlib.coq_eval_shards("c08-%d-%s" % (seed, "p" if path else "g"), HEADER, [c["coq"] for c in cases], shard=25)
    return cases, rows


UNJUDGED = []   # cases the harness could not hand to the judge: ArcTo stored another arc than the requested one


def describe(c, fl, seed, n):
    return dict(seed=seed, index=c["i"], n=n, family=c["fam"], input=c["desc"], flags=[nm for b, nm in FLAGS.items() if fl & b])


def run(ctx):
    broken = []
    del UNJUDGED[:]
    ok_tr, trlog = vlib.run_translator()
    if not ok_tr:
        broken.append("translator: " + trlog.strip()[-600:])
    pr, obligations, discharged = vlib.proof_stage(ctx, ["theories/Corr/C08.vo"])
    if pr["broken"] or not pr["ok"]:
        broken.append("proof obligation no longer checks: %s" % (pr["broken"] or pr["bad_axioms"]))
        ok, log = vlib.coq_make(["theories/Corr/C08.vo"])     # the judge does not depend on Gen/
        if not ok:
            raise vlib.BuildError("Corr/C08.v does not build:\n" + log[-3000:])
    n = ctx.n(2500, 60000)
    seed = ctx.seed
    known = [f for f in vlib.known_findings("C08")] + local_findings()
    cases, rows = [], []
    if ctx.replay:
        rp = json.load(open(ctx.replay))
        if rp.get("input", {}).get("path") and rp.get("family") == "literal":
            cases, rows = run_cases(ctx, 0, 1, path=rp["input"]["path"])
        else:
            seed, n = rp.get("seed", seed), rp.get("n", n)
            cases, rows = run_cases(ctx, seed, n, only=rp.get("index"))
    else:
        for pth in PROBES:
            c1, r1 = run_cases(ctx, 0, 1, path=pth)
            cases += c1
            rows += r1
        c2, r2 = run_cases(ctx, seed, n)
        cases += c2
        rows += r2

    def classify(cases, rows):
        pf, tf = [], []
        for c, row in zip(cases, rows):
            if row[0] & PROP_MASK:
                pf.append((c, row[0]))
            elif row[0] & TIE_MASK:
                tf.append((c, row[0]))
        return pf, tf

    prop_fail, tie_fail = classify(cases, rows)
    extra_searched = 0
    if (broken or tie_fail) and not prop_fail and not ctx.replay:
        c3, r3 = run_cases(ctx, seed + 1000, n * 3)
        extra_searched = len(c3)
        prop_fail, _ = classify(c3, r3)
        if prop_fail:
            seed, n = seed + 1000, n * 3

    def matches_known(c, fl):
        for f in known:
            if f.get("status") != "open" or not f.get("flagmask"):
                continue
            if (fl & PROP_MASK) & ~f["flagmask"]:
                continue
            trig = f.get("trigger", {})
            if trig.get("desc_key") and not c["desc"].get(trig["desc_key"]):
                continue
            return f
        return None

    flagcount, nontrivial, distinct = {}, set(), set()
    inner = 0
    for c, row in zip(cases, rows):
        for b, name in FLAGS.items():
            if row[0] & b:
                flagcount[name] = flagcount.get(name, 0) + 1
        key = c["desc"]["path"]
        distinct.add(key)
        if row[2] > 0 and not (row[0] & 128):
            nontrivial.add(key)
        inner += row[2]

    # the builder stored another arc than requested (never on the unchanged tree): the exact model does not apply; the harness sampled
    # the requested arc against Bounds/FastBounds itself
    if UNJUDGED:
        UNJUDGED.sort(key=lambda c: -c["desc"].get("requested_arc_outside_by", 0))
        c = UNJUDGED[0]
        out = c["desc"].get("requested_arc_outside_by", 0)
        if out > 1e-6:
            ctx.violation(dict(kind="property-fails-on-implementation", broken_obligations=broken, seed=seed, index=c["i"], n=n, family=c["fam"], input=c["desc"]),
                          "a point of the requested arc lies %.6g outside Bounds/FastBounds on %s (ArcTo stored another arc than requested)" % (out, c["desc"].get("path")))
        else:
            ctx.violation(dict(kind="obligation-or-correspondence-broken", broken_obligations=broken, correspondence="harness c08: the arc stored by ArcTo is the generator's",
                               seed=seed, index=c["i"], n=n, family=c["fam"], input=c["desc"],
                               searched="%d cases with a changed arc: the requested arc stays inside Bounds and FastBounds in all of them" % len(UNJUDGED)),
                          "ArcTo stored another arc than the one requested: %s" % str(c["desc"].get("builder_changed_arc"))[:200], found_input=False)
    reported, new_prop = set(), []
    for c, fl in prop_fail:
        f = matches_known(c, fl)
        if f:
            if f["key"] not in reported:
                reported.add(f["key"])
                ctx.known_finding("%s (e.g. %s: Bounds %s)" % (f["what"], c["desc"].get("path"), c["desc"].get("bounds")))
        else:
            new_prop.append((c, fl))
    new_prop.sort(key=lambda t: len(t[0]["desc"]["path"]))
    for c, fl in new_prop[:3]:
        d = describe(c, fl, seed, n)
        ctx.violation(dict(kind="property-fails-on-implementation", broken_obligations=broken, **d),
                      "%s on %s bounds=%s fast=%s" % (",".join(d["flags"]), c["desc"]["path"], c["desc"].get("bounds"), c["desc"].get("fastbounds")))
    if not new_prop and (broken or tie_fail):
        extra = {}
        if tie_fail:
            tie_fail.sort(key=lambda t: len(t[0]["desc"]["path"]))
            extra = describe(tie_fail[0][0], tie_fail[0][1], seed, n)
        ctx.violation(dict(kind="obligation-or-correspondence-broken", broken_obligations=broken,
                           correspondence="Corr.C08.judge (FastBounds model vs Go; Gen/FastBoundsGen.v = Geom/Bounds.v arms)",
                           searched="%d cases (+%d in the search phase) judged against the specification: none violates the property" % (len(cases), extra_searched),
                           log=(trlog[-1500:] + "\n" + pr["log"][-2500:]) if broken else "", **extra),
                      "; ".join(broken)[:400] if broken else "model/implementation disagree", found_input=False)

    gen_samples = []
    try:
        g = open(os.path.join(vlib.THEORIES, "Gen", "FastBoundsGen.v")).read()
        gen_samples = [l.strip() for l in g.split("\n") if "v_xmax :=" in l]
    except OSError:
        pass
    cov = dict(
        obligations=obligations, discharged=discharged,
        checker_cmd="harness/cmd/translator -> coq/theories/Gen/FastBoundsGen.v ; make -C coq theories/Props/C08.vo (coqc 8.16.1, full .vo) ; "
                    "coqc on generated cases files (Corr.C08.judge under vm_compute)",
        trusted_base=vlib.trusted_base(pr, [
            "translator harness/cmd/translator (go/ast): rendering of the line/quad/cube arms of Path.FastBounds into Gallina; bridged to the model by lemmas re-proved on every run",
            "correspondence harness harness/cmd/c08 (Go): generators, exact exchange of every binary64 value, float search for touch witnesses (each witness is verified exactly by the judge), hook VerifC07EllipseToCenter",
            "relational inputs: arc centres derived by ellipseToCenter (tie flag when they differ from the generator's exact centre by more than 2^-30 relative), unit-circle witnesses (u^2+v^2 = 1 within 2^-48)",
            "explicit slack: 2^-30 * (1 + max |box coordinate|) for containment, touch, FastBounds >= Bounds and equivariance; FastBounds equivariance and the K1 tie are exact for arc-free paths"]),
        evaluations=len(cases), distinct=len(distinct), distinct_nontrivial=len(nontrivial),
        rule="one evaluation = one generated path whose Bounds()/FastBounds() (and those of 4 translated/reflected copies) are judged by "
             "Corr.C08.judge; distinct by the printed path; non-trivial: at least one segment certified (a Bézier segment contained for all t "
             "by chk_contains, or a decisive in-span arc sample) and no panic",
        inner_obligations_certified=inner, translator_ok=ok_tr, search_phase_cases=extra_searched,
        families=vlib.histogram([c["fam"] for c in cases]), flag_counts=flagcount,
        with_arcs=sum(1 for r in rows if r[1] == 1),
        theorems=pr["theorems"], assumptions_per_theorem=pr["assumptions"],
        generated_definitions_sample=gen_samples,
        samples=[dict(fam=c["fam"], input=c["desc"]) for c in (cases[:2] + cases[-1:])],
    )
    return ctx.finish("proof", cov, [
        "coordinates on dyadic grids (multiples of 2^-3 within +-64 for Béziers); arcs have rational centre / rotation / end points (Pythagorean triples)",
        "the Epsilon comparisons of Bounds (Equal(tdenom,0), IntervalExclusive(t,0,1)) are not modelled; their effect is judged through containment and touch with slack 2^-30",
        "arc containment is judged on rational sample points of the exact arc, not for all points"])

(** C17 — proofs about the specification: the dynamic programme [kp_opt] is sound, complete and optimal.
    Proved for ANY number structure satisfying four order laws (reflexive, transitive, total [<=],
    [<] is the negation of the converse [<=], [+] monotone in its right argument); instantiated at Q below.
    Holds for every admissibility predicate [feas] on ratios, every paragraph, width and tuning parameters. *)
From Coq Require Import ZArith QArith List Bool Lia.
From CV Require Import Base.Dy Text.KPSpec Text.KPQ.
Import ListNotations.

Section Opt.
Context {num : Type} (O : ops num) (P : params num).
Hypothesis leb_refl : forall a, nleb O a a = true.
Hypothesis leb_trans : forall a b c, nleb O a b = true -> nleb O b c = true -> nleb O a c = true.
Hypothesis leb_total : forall a b, nleb O a b = false -> nleb O b a = true.
Hypothesis ltb_leb : forall a b, nltb O a b = negb (nleb O b a).
Hypothesis add_mono : forall c a b, nleb O a b = true -> nleb O (nadd O c a) (nadd O c b) = true.

Variable items : list (item num).
Variable width : num.
Variable feas : xr num -> bool.

Notation chain_eval := (chain_eval O P items width feas).
Notation cand := (cand O P items width feas).
Notation min_by := (min_by O P items width feas).
Notation forced_between := (forced_between O P items).
Notation entry := (@entry num).

Lemma ltb_true_leb a b : nltb O a b = true -> nleb O a b = true.
Proof.
  intro H. rewrite ltb_leb in H. apply negb_true_iff in H. apply leb_total; exact H.
Qed.

Lemma ltb_false_leb a b : nltb O a b = false -> nleb O b a = true.
Proof.
  intro H. rewrite ltb_leb in H. apply negb_false_iff in H. exact H.
Qed.

(** ---- fitness classes are 0..3 ---- *)
Lemma fitness_lt4 r : In (fitness O r) [0; 1; 2; 3]%nat.
Proof.
  unfold fitness.
  destruct (nltb O r (nmhalf O)); [simpl; auto|].
  destruct (nleb O r (nhalf O)); [simpl; auto|].
  destruct (nleb O r (n1 O)); simpl; auto.
Qed.

Lemma line_dem_class it r pf f0 : snd (line_dem O P it r pf f0) = fitness O r.
Proof. reflexivity. Qed.

(** ---- min_by ---- *)
Definition Pbest (it : item num) (cur : tri) (c : nat) (best : option (num * entry)) (Sn : entry -> Prop) : Prop :=
  (forall d e, best = Some (d, e) -> cand it cur e = Some (c, d) /\ Sn e) /\
  (forall e' d', Sn e' -> cand it cur e' = Some (c, d') -> exists d e, best = Some (d, e) /\ nleb O d d' = true).

Lemma Pbest_ext it cur c best (S1 S2 : entry -> Prop) :
  (forall e, S1 e <-> S2 e) -> Pbest it cur c best S1 -> Pbest it cur c best S2.
Proof.
  intros Hext [Ha Hb]. split.
  - intros d e Hbest. destruct (Ha d e Hbest) as [H1 H2]. split; [exact H1 | apply Hext; exact H2].
  - intros e' d' Hs Hc. apply (Hb e' d'); [apply Hext; exact Hs | exact Hc].
Qed.

Lemma min_by_inv it cur c : forall T best Sn,
  Pbest it cur c best Sn -> Pbest it cur c (min_by it cur c T best) (fun e => Sn e \/ In e T).
Proof.
  induction T as [|e0 T IH]; intros best Sn HP.
  - cbn [KPSpec.min_by]. eapply Pbest_ext; [|exact HP]. intro e; simpl; tauto.
  - cbn [KPSpec.min_by].
    eapply Pbest_ext; [| apply (IH _ (fun e => Sn e \/ e = e0))].
    + intro e; simpl; split; intro H; [destruct H as [[H|H]|H]; auto | destruct H as [H|[H|H]]; auto].
    + destruct HP as [Ha Hb].
      destruct (cand it cur e0) as [[c' d0]|] eqn:Ec.
      * destruct (c' =? c)%nat eqn:Ecc.
        -- apply Nat.eqb_eq in Ecc; subst c'.
           destruct best as [[db eb]|].
           ++ destruct (nltb O d0 db) eqn:El.
              ** split.
                 --- intros d e Hbest; inversion Hbest; subst. split; [exact Ec | right; reflexivity].
                 --- intros e' d' [Hs|He] Hc.
                     +++ destruct (Hb e' d' Hs Hc) as (d & e & Hbest & Hle). inversion Hbest; subst d e.
                         exists d0, e0. split; [reflexivity|]. eapply leb_trans; [apply ltb_true_leb; exact El | exact Hle].
                     +++ subst e'. rewrite Ec in Hc. inversion Hc; subst d'. exists d0, e0. split; [reflexivity | apply leb_refl].
              ** split.
                 --- intros d e Hbest. destruct (Ha d e Hbest) as [H1 H2]. split; [exact H1 | left; exact H2].
                 --- intros e' d' [Hs|He] Hc.
                     +++ exact (Hb e' d' Hs Hc).
                     +++ subst e'. rewrite Ec in Hc. inversion Hc; subst d'. exists db, eb. split; [reflexivity | apply ltb_false_leb; exact El].
           ++ split.
              ** intros d e Hbest; inversion Hbest; subst. split; [exact Ec | right; reflexivity].
              ** intros e' d' [Hs|He] Hc.
                 --- destruct (Hb e' d' Hs Hc) as (d & e & Hbest & _). discriminate Hbest.
                 --- subst e'. rewrite Ec in Hc. inversion Hc; subst d'. exists d0, e0. split; [reflexivity | apply leb_refl].
        -- apply Nat.eqb_neq in Ecc. split.
           ++ intros d e Hbest. destruct (Ha d e Hbest) as [H1 H2]. split; [exact H1 | left; exact H2].
           ++ intros e' d' [Hs|He] Hc.
              ** exact (Hb e' d' Hs Hc).
              ** subst e'. rewrite Ec in Hc. inversion Hc. congruence.
      * split.
        -- intros d e Hbest. destruct (Ha d e Hbest) as [H1 H2]. split; [exact H1 | left; exact H2].
        -- intros e' d' [Hs|He] Hc.
           ++ exact (Hb e' d' Hs Hc).
           ++ subst e'. rewrite Ec in Hc. discriminate Hc.
Qed.

Lemma min_by_spec it cur c T :
  (forall d e, min_by it cur c T None = Some (d, e) -> cand it cur e = Some (c, d) /\ In e T) /\
  (forall e' d', In e' T -> cand it cur e' = Some (c, d') -> exists d e, min_by it cur c T None = Some (d, e) /\ nleb O d d' = true).
Proof.
  assert (H0 : Pbest it cur c None (fun _ => False)).
  { split; [intros d e H; discriminate H | intros e' d' []]. }
  destruct (min_by_inv it cur c T None _ H0) as [Ha Hb]. split.
  - intros d e H. destruct (Ha d e H) as [H1 [[]|H2]]. split; assumption.
  - intros e' d' Hin Hc. apply (Hb e' d'); [right; exact Hin | exact Hc].
Qed.

(** ---- prefix sums ---- *)
Lemma firstn_S_nth {A} (l : list A) : forall k x, nth_error l k = Some x -> firstn (S k) l = firstn k l ++ [x].
Proof.
  induction l as [|a l IH]; intros [|k] x H; simpl in *; try discriminate.
  - inversion H; reflexivity.
  - f_equal. apply IH; exact H.
Qed.

Lemma pref_S k it : nth_error items k = Some it -> pref O items (S k) = acc_item O (pref O items k) it.
Proof.
  intro H. unfold pref. rewrite (firstn_S_nth _ _ _ H), fold_left_app. reflexivity.
Qed.

(** ---- chain_eval inversion ---- *)
Lemma chain_eval_cons b rest c d :
  chain_eval (b :: rest) = Some (c, d) ->
  exists f0 d0 it x dl,
    chain_eval rest = Some (f0, d0) /\ nth_error items b = Some it /\
    legal O P items b = true /\ prev_lt (hd_error rest) b = true /\ forced_between (hd_error rest) b = false /\
    line_ratio O P items width (hd_error rest) b it = Fin x /\ feas (Fin x) = true /\
    line_dem O P it x (prev_flag items (hd_error rest)) f0 = (dl, c) /\ d = nadd O dl d0.
Proof.
  cbn [KPSpec.chain_eval]. intro H.
  destruct (chain_eval rest) as [[f0 d0]|]; [|discriminate].
  destruct (nth_error items b) as [it|]; [|discriminate].
  destruct (legal O P items b) eqn:E1; [|discriminate].
  destruct (prev_lt (hd_error rest) b) eqn:E2; [|discriminate].
  destruct (forced_between (hd_error rest) b) eqn:E3; [discriminate|].
  cbn [andb negb] in H.
  destruct (feas (line_ratio O P items width (hd_error rest) b it)) eqn:E4; [|discriminate].
  destruct (line_ratio O P items width (hd_error rest) b it) as [|x] eqn:E5; [discriminate|].
  destruct (line_dem O P it x (prev_flag items (hd_error rest)) f0) as [dl c'] eqn:E6.
  inversion H; subst. exists f0, d0, it, x, dl. repeat split; auto.
Qed.

Lemma chain_eval_cons_intro b rest f0 d0 it x dl c :
  chain_eval rest = Some (f0, d0) -> nth_error items b = Some it ->
  legal O P items b = true -> prev_lt (hd_error rest) b = true -> forced_between (hd_error rest) b = false ->
  line_ratio O P items width (hd_error rest) b it = Fin x -> feas (Fin x) = true ->
  line_dem O P it x (prev_flag items (hd_error rest)) f0 = (dl, c) ->
  chain_eval (b :: rest) = Some (c, nadd O dl d0).
Proof.
  intros H1 H2 H3 H4 H5 H6 H7 H8. cbn [KPSpec.chain_eval].
  rewrite H1, H2, H3, H4, H5. cbn [andb negb]. rewrite H6, H7, H8. reflexivity.
Qed.

(** ---- the invariant of the dynamic programme ---- *)
Definition hd_lt (ch : list nat) (k : nat) : Prop := match ch with [] => True | b :: _ => (b < k)%nat end.

Definition Sound (k : nat) (T : list entry) : Prop :=
  forall e, In e T ->
    chain_eval (eChain e) = Some (eFit e, eDem e) /\ eSums e = start_sums O P items (hd_error (eChain e)) /\
    hd_lt (eChain e) k /\ forced_between (hd_error (eChain e)) k = false.

Definition Complete (k : nat) (T : list entry) : Prop :=
  forall ch f d, chain_eval ch = Some (f, d) -> hd_lt ch k -> forced_between (hd_error ch) k = false ->
    exists e, In e T /\ hd_error (eChain e) = hd_error ch /\ eFit e = f /\ nleb O (eDem e) d = true.

Lemma hd_lt_prev ch k : hd_lt ch k -> prev_lt (hd_error ch) k = true.
Proof.
  destruct ch as [|b t]; simpl; [reflexivity|]. intro H. apply Nat.ltb_lt; exact H.
Qed.

Lemma forced_between_S prev k :
  KPSpec.forced_between O P items prev (S k) =
  if prev_lt prev k then forced_at O P items k || KPSpec.forced_between O P items prev k else false.
Proof. reflexivity. Qed.

Lemma forced_at_nth k it : nth_error items k = Some it -> forced_at O P items k = forced O P it.
Proof. intro H. unfold forced_at. rewrite H. reflexivity. Qed.

Lemma cand_eq k it e :
  eSums e = start_sums O P items (hd_error (eChain e)) ->
  cand it (pref O items k) e =
  (let r := line_ratio O P items width (hd_error (eChain e)) k it in
   if feas r then match r with
                  | NegInf => None
                  | Fin x => let '(dl, c) := line_dem O P it x (prev_flag items (hd_error (eChain e))) (eFit e) in
                             Some (c, nadd O dl (eDem e))
                  end else None).
Proof. intro H. unfold KPSpec.cand, line_ratio. rewrite H. reflexivity. Qed.

Lemma new_entries_in k it cur T e' :
  In e' (new_entries O P items width feas k it cur T) <->
  exists c d e, In c [0; 1; 2; 3]%nat /\ min_by it cur c T None = Some (d, e) /\
                e' = mkEntry (k :: eChain e) c d (compute_sum O P items k cur).
Proof.
  unfold new_entries. rewrite in_flat_map. split.
  - intros (c & Hc & Hin). destruct (min_by it cur c T None) as [[d e]|] eqn:E; [|destruct Hin].
    destruct Hin as [Hin|[]]. exists c, d, e. auto.
  - intros (c & d & e & Hc & Hm & He). exists c. split; [exact Hc|]. rewrite Hm. left. symmetry; exact He.
Qed.

Lemma dp_step_inv k it T :
  nth_error items k = Some it -> Sound k T -> Complete k T ->
  Sound (S k) (dp_step O P items width feas k it (pref O items k) T) /\
  Complete (S k) (dp_step O P items width feas k it (pref O items k) T).
Proof.
  intros Hnth HS HC.
  set (cur := pref O items k).
  assert (Hnew : forall e', In e' (new_entries O P items width feas k it cur T) -> legal O P items k = true ->
            chain_eval (eChain e') = Some (eFit e', eDem e') /\ eSums e' = start_sums O P items (hd_error (eChain e')) /\
            hd_lt (eChain e') (S k) /\ forced_between (hd_error (eChain e')) (S k) = false).
  { intros e' Hin Hleg. apply new_entries_in in Hin. destruct Hin as (c & d & e & Hc & Hm & He). subst e'.
    destruct (min_by_spec it cur c T) as [Ha _]. destruct (Ha d e Hm) as [Hcand HinT].
    destruct (HS e HinT) as (Hev & Hsum & Hlt & Hfb).
    cbn [eChain eFit eDem eSums hd_error].
    unfold cur in Hcand. rewrite (cand_eq k it e Hsum) in Hcand. cbv zeta in Hcand.
    destruct (feas (line_ratio O P items width (hd_error (eChain e)) k it)) eqn:Ef; [|discriminate].
    destruct (line_ratio O P items width (hd_error (eChain e)) k it) as [|x] eqn:Er; [discriminate|].
    destruct (line_dem O P it x (prev_flag items (hd_error (eChain e))) (eFit e)) as [dl c'] eqn:Ed.
    inversion Hcand; subst c' d.
    split; [| split; [| split]].
    - eapply chain_eval_cons_intro; eauto. apply hd_lt_prev; exact Hlt.
    - reflexivity.
    - simpl. lia.
    - rewrite forced_between_S. cbn [prev_lt]. rewrite Nat.ltb_irrefl. reflexivity. }
  unfold dp_step. fold cur.
  destruct (forced O P it) eqn:Efo.
  - (* forced break: only the new entries survive *)
    split.
    + intros e' Hin. destruct (legal O P items k) eqn:Eleg; [|destruct Hin]. apply Hnew; auto.
    + intros ch f d Hev Hlt Hfb.
      destruct ch as [|b rest].
      * (* the start: a forced break at k lies strictly after it *)
        exfalso. rewrite forced_between_S in Hfb. cbn [hd_error prev_lt] in Hfb.
        rewrite (forced_at_nth k it Hnth), Efo in Hfb. discriminate Hfb.
      * simpl in Hlt. assert (Hbk : b = k \/ (b < k)%nat) by lia. destruct Hbk as [Hbk|Hbk].
        -- subst b. destruct (chain_eval_cons _ _ _ _ Hev) as (f0 & d0 & it' & x & dl & H1 & H2 & H3 & H4 & H5 & H6 & H7 & H8 & H9).
           rewrite Hnth in H2. inversion H2; subst it'. rewrite H3.
           assert (Hlt0 : hd_lt rest k).
           { destruct rest as [|b0 r0]; simpl; auto. simpl in H4. apply Nat.ltb_lt in H4; exact H4. }
           destruct (HC rest f0 d0 H1 Hlt0 H5) as (e & HinT & Hhd & Hfit & Hle).
           destruct (HS e HinT) as (Hev' & Hsum & _ & _).
           assert (Hcand : cand it cur e = Some (f, nadd O dl (eDem e))).
           { unfold cur. rewrite (cand_eq k it e Hsum). cbv zeta. rewrite Hhd, H6, H7, Hfit, H8. reflexivity. }
           destruct (min_by_spec it cur f T) as [_ Hb]. destruct (Hb e _ HinT Hcand) as (dm & em & Hm & Hlem).
           exists (mkEntry (k :: eChain em) f dm (compute_sum O P items k cur)).
           split; [| split; [| split]].
           ++ apply new_entries_in. exists f, dm, em. split; [|split; auto].
              replace f with (snd (line_dem O P it x (prev_flag items (hd_error rest)) f0)) by (rewrite H8; reflexivity).
              rewrite line_dem_class. apply fitness_lt4.
           ++ reflexivity.
           ++ reflexivity.
           ++ cbn [eDem]. subst d. eapply leb_trans; [exact Hlem | apply add_mono; exact Hle].
        -- exfalso. rewrite forced_between_S in Hfb. cbn [hd_error prev_lt] in Hfb.
           apply Nat.ltb_lt in Hbk. rewrite Hbk, (forced_at_nth k it Hnth), Efo in Hfb. discriminate Hfb.
  - (* ordinary position: old entries stay usable *)
    split.
    + intros e' Hin. apply in_app_or in Hin. destruct Hin as [Hin|Hin].
      * destruct (HS e' Hin) as (H1 & H2 & H3 & H4). split; [exact H1 | split; [exact H2 | split]].
        -- destruct (eChain e'); simpl in *; auto.
        -- rewrite forced_between_S. destruct (prev_lt (hd_error (eChain e')) k); [|reflexivity].
           rewrite (forced_at_nth k it Hnth), Efo, H4. reflexivity.
      * destruct (legal O P items k) eqn:Eleg; [|destruct Hin]. apply Hnew; auto.
    + intros ch f d Hev Hlt Hfb.
      assert (Hcase : hd_lt ch k \/ exists rest, ch = k :: rest).
      { destruct ch as [|b rest]; [left; exact I|]. simpl in Hlt. assert (Hbk : b = k \/ (b < k)%nat) by lia.
        destruct Hbk as [Hbk|Hbk]; [right; subst; eauto | left; exact Hbk]. }
      destruct Hcase as [Hlt0 | [rest Hch]].
      * assert (Hfb0 : forced_between (hd_error ch) k = false).
        { rewrite forced_between_S, (hd_lt_prev _ _ Hlt0) in Hfb. apply orb_false_iff in Hfb. tauto. }
        destruct (HC ch f d Hev Hlt0 Hfb0) as (e & HinT & He). exists e. split; [apply in_or_app; left; exact HinT | exact He].
      * subst ch. destruct (chain_eval_cons _ _ _ _ Hev) as (f0 & d0 & it' & x & dl & H1 & H2 & H3 & H4 & H5 & H6 & H7 & H8 & H9).
        rewrite Hnth in H2. inversion H2; subst it'. rewrite H3.
        assert (Hlt0 : hd_lt rest k).
        { destruct rest as [|b0 r0]; simpl; auto. simpl in H4. apply Nat.ltb_lt in H4; exact H4. }
        destruct (HC rest f0 d0 H1 Hlt0 H5) as (e & HinT & Hhd & Hfit & Hle).
        destruct (HS e HinT) as (Hev' & Hsum & _ & _).
        assert (Hcand : cand it cur e = Some (f, nadd O dl (eDem e))).
        { unfold cur. rewrite (cand_eq k it e Hsum). cbv zeta. rewrite Hhd, H6, H7, Hfit, H8. reflexivity. }
        destruct (min_by_spec it cur f T) as [_ Hb]. destruct (Hb e _ HinT Hcand) as (dm & em & Hm & Hlem).
        exists (mkEntry (k :: eChain em) f dm (compute_sum O P items k cur)).
        split; [| split; [| split]].
        -- apply in_or_app; right. apply new_entries_in. exists f, dm, em. split; [|split; auto].
           replace f with (snd (line_dem O P it x (prev_flag items (hd_error rest)) f0)) by (rewrite H8; reflexivity).
           rewrite line_dem_class. apply fitness_lt4.
        -- reflexivity.
        -- reflexivity.
        -- cbn [eDem]. subst d. eapply leb_trans; [exact Hlem | apply add_mono; exact Hle].
Qed.

Lemma skipn_cons {A} : forall k (l : list A) x t, skipn k l = x :: t -> nth_error l k = Some x /\ skipn (S k) l = t.
Proof.
  induction k as [|k IH]; intros l x t H.
  - destruct l as [|a l]; simpl in H; [discriminate|]. inversion H; subst. split; reflexivity.
  - destruct l as [|a l]; [simpl in H; discriminate|]. simpl in H. destruct (IH l x t H) as [H1 H2]. split; [exact H1 | exact H2].
Qed.

Lemma dp_inv : forall l k T,
  skipn k items = l -> (k + length l = length items)%nat -> Sound k T -> Complete k T ->
  Sound (length items) (dp O P items width feas l k (pref O items k) T) /\
  Complete (length items) (dp O P items width feas l k (pref O items k) T).
Proof.
  induction l as [|it l IH]; intros k T Hsk Hlen HS HC.
  - cbn [dp]. simpl in Hlen. replace (length items) with k by lia. split; assumption.
  - cbn [dp]. destruct (skipn_cons _ _ _ _ Hsk) as [Hnth Hsk'].
    destruct (dp_step_inv k it T Hnth HS HC) as [HS' HC'].
    rewrite <- (pref_S k it Hnth). apply IH; auto. simpl in Hlen. lia.
Qed.

Lemma init_inv : Sound 0 [root_entry O] /\ Complete 0 [root_entry O].
Proof.
  split.
  - intros e [He|[]]. subst e. cbn. repeat split; reflexivity.
  - intros ch f d Hev Hlt _. destruct ch as [|b rest]; [|simpl in Hlt; lia].
    cbn in Hev. inversion Hev; subst. exists (root_entry O). split; [left; reflexivity|].
    cbn. repeat split; try reflexivity. apply leb_refl.
Qed.

(** ---- the final selection ---- *)
Definition Pmin (best : option entry) (Sn : entry -> Prop) : Prop :=
  (forall e, best = Some e -> Sn e /\ complete items (eChain e) = true) /\
  (forall e', Sn e' -> complete items (eChain e') = true -> exists e, best = Some e /\ nleb O (eDem e) (eDem e') = true).

Lemma min_entry_inv : forall T best (Sn : entry -> Prop),
  Pmin best Sn -> Pmin (min_entry O items T best) (fun e => Sn e \/ In e T).
Proof.
  induction T as [|e0 T IH]; intros best Sn [Ha Hb].
  - cbn [min_entry]. split.
    + intros e H. destruct (Ha e H). split; auto.
    + intros e' [Hs|[]] Hc. exact (Hb e' Hs Hc).
  - cbn [min_entry].
    assert (Hstep : Pmin (if complete items (eChain e0)
                          then match best with
                               | Some e1 => if nltb O (eDem e0) (eDem e1) then Some e0 else best
                               | None => Some e0
                               end else best) (fun e => Sn e \/ e = e0)).
    { destruct (complete items (eChain e0)) eqn:Ec.
      - destruct best as [eb|].
        + destruct (nltb O (eDem e0) (eDem eb)) eqn:El.
          * split.
            -- intros e H; inversion H; subst. split; [right; reflexivity | exact Ec].
            -- intros e' [Hs|He] Hc.
               ++ destruct (Hb e' Hs Hc) as (e & Hbest & Hle). inversion Hbest; subst e. exists e0. split; [reflexivity|].
                  eapply leb_trans; [apply ltb_true_leb; exact El | exact Hle].
               ++ subst e'. exists e0. split; [reflexivity | apply leb_refl].
          * split.
            -- intros e H. destruct (Ha e H). split; auto.
            -- intros e' [Hs|He] Hc.
               ++ exact (Hb e' Hs Hc).
               ++ subst e'. exists eb. split; [reflexivity | apply ltb_false_leb; exact El].
        + split.
          * intros e H; inversion H; subst. split; [right; reflexivity | exact Ec].
          * intros e' [Hs|He] Hc.
            -- destruct (Hb e' Hs Hc) as (e & Hbest & _). discriminate Hbest.
            -- subst e'. exists e0. split; [reflexivity | apply leb_refl].
      - split.
        + intros e H. destruct (Ha e H). split; auto.
        + intros e' [Hs|He] Hc.
          * exact (Hb e' Hs Hc).
          * subst e'. rewrite Ec in Hc. discriminate Hc. }
    destruct (IH _ _ Hstep) as [Ha' Hb']. split.
    + intros e H. destruct (Ha' e H) as [[[H1|H1]|H1] H2]; split; auto; simpl; auto.
    + intros e' [Hs|[He|Hin]] Hc; apply Hb'; auto.
Qed.

Lemma complete_cons b r : complete items (b :: r) = true -> S b = length items.
Proof. unfold complete. cbn [hd_error]. intro H. apply Nat.eqb_eq in H. exact H. Qed.

Lemma complete_nil : complete items [] = false.
Proof. reflexivity. Qed.

Lemma complete_hd ch ch' : hd_error ch = hd_error ch' -> complete items ch = complete items ch'.
Proof. unfold complete. intros ->. reflexivity. Qed.

(** ---- the theorem ---- *)
Theorem kp_opt_sound_optimal :
  (forall d ch, kp_opt O P items width feas = Some (d, ch) ->
     (exists f, chain_eval ch = Some (f, d)) /\ complete items ch = true /\
     (forall ch' f' d', chain_eval ch' = Some (f', d') -> complete items ch' = true -> nleb O d d' = true)) /\
  (kp_opt O P items width feas = None ->
     forall ch' f' d', chain_eval ch' = Some (f', d') -> complete items ch' = true -> False).
Proof.
  destruct init_inv as [HS0 HC0].
  destruct (dp_inv items 0 [root_entry O] eq_refl eq_refl HS0 HC0) as [HS HC].
  change (pref O items 0) with (t0 O) in HS, HC.
  set (T := dp O P items width feas items 0 (t0 O) [root_entry O]) in *.
  assert (H0 : Pmin None (fun _ => False)).
  { split; [intros e H; discriminate H | intros e' []]. }
  destruct (min_entry_inv T None _ H0) as [Ha Hb].
  assert (Hreach : forall ch' f' d', chain_eval ch' = Some (f', d') -> complete items ch' = true ->
            exists e, In e T /\ complete items (eChain e) = true /\ nleb O (eDem e) d' = true).
  { intros ch' f' d' Hev Hc.
    assert (Hlt : hd_lt ch' (length items)).
    { destruct ch' as [|b r]; [exact I|]. apply complete_cons in Hc. simpl. lia. }
    assert (Hfb : forced_between (hd_error ch') (length items) = false).
    { destruct ch' as [|b r]; [rewrite complete_nil in Hc; discriminate|]. apply complete_cons in Hc.
      rewrite <- Hc. rewrite forced_between_S. cbn [hd_error prev_lt]. rewrite Nat.ltb_irrefl. reflexivity. }
    destruct (HC ch' f' d' Hev Hlt Hfb) as (e & Hin & Hhd & _ & Hle).
    exists e. split; [exact Hin | split; [|exact Hle]]. rewrite (complete_hd _ _ Hhd). exact Hc. }
  unfold kp_opt. fold T. split.
  - intros d ch H. destruct (min_entry O items T None) as [e|] eqn:Em; [|discriminate]. inversion H; subst d ch.
    destruct (Ha e eq_refl) as [[[]|Hin] Hc].
    destruct (HS e Hin) as (Hev & _). split; [eauto | split; [exact Hc|]].
    intros ch' f' d' Hev' Hc'. destruct (Hreach ch' f' d' Hev' Hc') as (e1 & Hin1 & Hc1 & Hle1).
    destruct (Hb e1 (or_intror Hin1) Hc1) as (e2 & He2 & Hle2). inversion He2; subst e2.
    eapply leb_trans; eassumption.
  - intros H ch' f' d' Hev' Hc'. destruct (min_entry O items T None) as [e|] eqn:Em; [discriminate|].
    destruct (Hreach ch' f' d' Hev' Hc') as (e1 & Hin1 & Hc1 & _).
    destruct (Hb e1 (or_intror Hin1) Hc1) as (e2 & He2 & _). discriminate He2.
Qed.

End Opt.

(** ---- the exact instance satisfies the laws ---- *)
Lemma Q_leb_refl a : nleb QO a a = true.
Proof. apply Qleb_le. apply Qle_refl. Qed.

Lemma Q_leb_trans a b c : nleb QO a b = true -> nleb QO b c = true -> nleb QO a c = true.
Proof. cbn [nleb QO]. rewrite !Qleb_le. apply Qle_trans. Qed.

Lemma Q_leb_total a b : nleb QO a b = false -> nleb QO b a = true.
Proof.
  cbn [nleb QO]. intro H. apply Qleb_le. destruct (Qlt_le_dec b a) as [Hlt|Hle].
  - apply Qlt_le_weak; exact Hlt.
  - apply Qleb_le in Hle. congruence.
Qed.

Lemma Q_ltb_leb a b : nltb QO a b = negb (nleb QO b a).
Proof. reflexivity. Qed.

Lemma Q_add_mono c a b : nleb QO a b = true -> nleb QO (nadd QO c a) (nadd QO c b) = true.
Proof.
  cbn [nleb nadd QO]. rewrite !Qleb_le. intro H. rewrite !Qred_correct. apply Qplus_le_compat; [apply Qle_refl | exact H].
Qed.

(** [kp_opt] on exact rationals: sound, complete, optimal — all paragraphs, widths, tuning parameters and
    admissibility predicates. *)
Theorem kp_opt_optimal_Q (P : params Q) (items : list (item Q)) (width : Q) (feas : xr Q -> bool) :
  (forall d ch, kp_opt QO P items width feas = Some (d, ch) ->
     (exists f, chain_eval QO P items width feas ch = Some (f, d)) /\ complete items ch = true /\
     (forall ch' f' d', chain_eval QO P items width feas ch' = Some (f', d') -> complete items ch' = true -> (d <= d')%Q)) /\
  (kp_opt QO P items width feas = None ->
     forall ch' f' d', chain_eval QO P items width feas ch' = Some (f', d') -> complete items ch' = true -> False).
Proof.
  destruct (kp_opt_sound_optimal QO P Q_leb_refl Q_leb_trans Q_leb_total Q_ltb_leb Q_add_mono items width feas) as [H1 H2].
  split; [|exact H2].
  intros d ch H. destruct (H1 d ch H) as (Ha & Hb & Hc). split; [exact Ha | split; [exact Hb|]].
  intros ch' f' d' Hev Hcm. apply Qleb_le. exact (Hc ch' f' d' Hev Hcm).
Qed.

(** ---- what a chain that evaluates is, in the words of the property ---- *)
Section Struct.
Context {num : Type} (O : ops num) (P : params num).
Variable items : list (item num).

(** strictly increasing legal breakpoints that skip no forced break *)
Fixpoint chain_struct (ch : list nat) : bool :=
  match ch with
  | [] => true
  | b :: rest => legal O P items b && prev_lt (hd_error rest) b && negb (forced_between O P items (hd_error rest) b) && chain_struct rest
  end.

Lemma chain_eval_struct width feas : forall ch r, chain_eval O P items width feas ch = Some r -> chain_struct ch = true.
Proof.
  induction ch as [|b rest IH]; intros r H; [reflexivity|].
  cbn [KPSpec.chain_eval] in H. cbn [chain_struct].
  destruct (chain_eval O P items width feas rest) as [[f0 d0]|] eqn:E; [|discriminate].
  rewrite (IH _ eq_refl).
  destruct (nth_error items b); [|discriminate].
  destruct (legal O P items b && prev_lt (hd_error rest) b && negb (forced_between O P items (hd_error rest) b)); [reflexivity|discriminate].
Qed.

Lemma chain_struct_legal : forall ch, chain_struct ch = true -> Forall (fun b => legal O P items b = true) ch.
Proof.
  induction ch as [|b rest IH]; intro H; [constructor|].
  cbn [chain_struct] in H. apply andb_true_iff in H. destruct H as [H H4].
  apply andb_true_iff in H. destruct H as [H H3]. apply andb_true_iff in H. destruct H as [H1 H2].
  constructor; auto.
Qed.

(** most recent first: strictly decreasing *)
Lemma chain_struct_sorted : forall ch, chain_struct ch = true -> forall b rest, ch = b :: rest -> Forall (fun a => (a < b)%nat) rest.
Proof.
  induction ch as [|b0 rest0 IH]; intros H b rest Heq; [discriminate|].
  inversion Heq; subst b0 rest0. cbn [chain_struct] in H.
  apply andb_true_iff in H. destruct H as [H H4].
  apply andb_true_iff in H. destruct H as [H H3]. apply andb_true_iff in H. destruct H as [H1 H2].
  destruct rest as [|a r]; [constructor|].
  cbn [hd_error prev_lt] in H2. apply Nat.ltb_lt in H2.
  constructor; [exact H2|].
  specialize (IH H4 a r eq_refl). eapply Forall_impl; [|exact IH]. intros x Hx. cbv beta in Hx. lia.
Qed.

Lemma forced_between_spec prev : forall b i,
  forced_between O P items prev b = false -> prev_lt prev i = true -> (i < b)%nat -> forced_at O P items i = false.
Proof.
  induction b as [|b IH]; intros i Hfb Hp Hi; [lia|].
  cbn [forced_between] in Hfb.
  destruct (prev_lt prev b) eqn:Epb.
  - apply orb_false_iff in Hfb. destruct Hfb as [Hf Hfb]. assert (Hc : i = b \/ (i < b)%nat) by lia.
    destruct Hc as [Hc|Hc]; [subst; exact Hf | apply IH; auto].
  - exfalso. destruct prev as [a|]; [|discriminate]. cbn [prev_lt] in *. apply Nat.ltb_lt in Hp. apply Nat.ltb_ge in Epb. lia.
Qed.

(** every forced break at or before the last break of the chain is one of its breaks *)
Lemma chain_struct_forced : forall ch, chain_struct ch = true ->
  forall i b rest, ch = b :: rest -> (i <= b)%nat -> forced_at O P items i = true -> In i ch.
Proof.
  induction ch as [|b0 rest0 IH]; intros H i b rest Heq Hi Hf; [discriminate|].
  inversion Heq; subst b0 rest0. cbn [chain_struct] in H.
  apply andb_true_iff in H. destruct H as [H H4].
  apply andb_true_iff in H. destruct H as [H H3]. apply andb_true_iff in H. destruct H as [H1 H2].
  apply negb_true_iff in H3.
  assert (Hc : i = b \/ (i < b)%nat) by lia. destruct Hc as [Hc|Hc]; [left; auto|]. right.
  destruct rest as [|a r].
  - exfalso. cbn [hd_error] in H3. rewrite (forced_between_spec None b i H3 eq_refl Hc) in Hf. discriminate.
  - cbn [hd_error] in H3. destruct (le_lt_dec i a) as [Hia|Hia].
    + apply (IH H4 i a r eq_refl Hia Hf).
    + exfalso. assert (Hp : prev_lt (Some a) i = true) by (cbn; apply Nat.ltb_lt; exact Hia).
      rewrite (forced_between_spec (Some a) b i H3 Hp Hc) in Hf. discriminate.
Qed.

End Struct.

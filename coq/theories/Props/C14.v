(** C14 — Rasterisation paints exactly the pixels inside the filled region. Property theorems only. *)
From Coq Require Import ZArith QArith List Bool.
From CV Require Import Geom.Winding Bool.Check Stroke.Dist Raster.Fixed.
Import ListNotations.

(** The scan converter's fixed-point coordinate is within 1.5/64 of a pixel of the real coordinate
    (within 1/128 on the visible, non-negative side). *)
Theorem C14_fixed_error : forall x,
  (- (3 # 128) < inject_Z (fixed26_6 x) * (1 # 64) - x)%Q /\ (inject_Z (fixed26_6 x) * (1 # 64) - x < (3 # 128))%Q.
Proof. exact fixed_error. Qed.
Print Assumptions C14_fixed_error.

Theorem C14_fixed_error_nonneg : forall x, (0 <= x)%Q ->
  (- (1 # 128) < inject_Z (fixed26_6 x) * (1 # 64) - x)%Q /\ (inject_Z (fixed26_6 x) * (1 # 64) - x <= (1 # 128))%Q.
Proof. exact fixed_error_nonneg. Qed.
Print Assumptions C14_fixed_error_nonneg.

(** Fixed-point error in both coordinates + flattening at PixelTolerance = 0.1 px + half a pixel of sampling
    stay below the one-pixel margin of the property. *)
Theorem C14_error_budget : (2 * (3 # 128) + (1 # 10) + (1 # 2) < 1)%Q.
Proof. exact error_budget. Qed.
Print Assumptions C14_error_budget.

(** The vertical axis points up in canvas space: larger canvas y maps to a smaller image row coordinate,
    canvas y = 0 is the bottom edge (row coordinate hpx) and y = hpx/dpmm the top edge (row coordinate 0). *)
Theorem C14_flip_monotone : forall y1 y2 dpmm (hpx : Z), (0 < dpmm)%Q -> (y1 < y2)%Q ->
  (inject_Z hpx - y2 * dpmm < inject_Z hpx - y1 * dpmm)%Q.
Proof. exact flip_monotone. Qed.
Print Assumptions C14_flip_monotone.

Theorem C14_flip_ends : forall dpmm (hpx : Z), (0 < dpmm)%Q ->
  (inject_Z hpx - 0 * dpmm == inject_Z hpx)%Q /\ (inject_Z hpx - (inject_Z hpx / dpmm) * dpmm == 0)%Q.
Proof. exact flip_ends. Qed.
Print Assumptions C14_flip_ends.

(** The image has round(width * resolution) x round(height * resolution) pixels. *)
Theorem C14_image_size_nearest : forall w dpmm, (0 <= w * dpmm)%Q ->
  (- (1 # 2) < inject_Z (image_size w dpmm) - w * dpmm)%Q /\ (inject_Z (image_size w dpmm) - w * dpmm <= (1 # 2))%Q.
Proof. exact image_size_nearest. Qed.
Print Assumptions C14_image_size_nearest.

(** The pixel guard of the oracle excludes the boundary (a pixel is judged only when its centre is more than a
    pixel from every layer's boundary). *)
Theorem C14_guard_off_boundary : forall p a b g2, (0 < g2)%Z -> far_seg p a b g2 = true -> on_seg p a b = false.
Proof. exact far_seg_off. Qed.
Print Assumptions C14_guard_off_boundary.

(** the guard of the sample oracle means what it says: a guarded sample is at squared distance at least g2 from EVERY point
    a + (sn/sd)(b-a), 0 <= sn <= sd, of the edge (scaled by sd^2 to stay in Z) *)
Theorem C14_guard_is_distance : forall p a b g2 sn sd, (0 < sd)%Z -> (0 <= sn <= sd)%Z ->
  far_seg p a b g2 = true -> (g2 * (sd * sd) <= sdist2 p a b sn sd)%Z.
Proof. exact far_seg_sound. Qed.
Print Assumptions C14_guard_is_distance.

(** C12 — PostScript writer (renderers/ps/ps.go) as a state machine with its caches + interpreter; SVG element
    interpreter (renderers/svg/svg.go writes self-contained <path> elements, no cache). *)
From Coq Require Import QArith ZArith List Bool.
From CV Require Import Render.Sem Render.GState.
Import ListNotations.
Open Scope Q_scope.

(** toNRGBA on a color.RGBA: r16 = r*0x101, a16 = a*0x101; uint8(((r16*0xffff)/a16) >> 8) *)
Definition nrgb1 (r a : Z) : Z := if (a =? 0)%Z then 0%Z else ((((r * 257) * 65535) / (a * 257)) / 256)%Z.
Definition nrgb (p : paint) : Z * Z * Z :=
  match p with PColor (r, g, b, a) => (nrgb1 r a, nrgb1 g a, nrgb1 b a) | _ => (0, 0, 0)%Z end.
Definition z3_eqb (a b : Z * Z * Z) : bool :=
  let '(a1, a2, a3) := a in let '(b1, b2, b3) := b in ((a1 =? b1) && (a2 =? b2) && (a3 =? b3))%Z.
(** r.paint.Color.{R,G,B}: the STORED colour is alpha-premultiplied *)
Definition premul_rgb (p : paint) : Z * Z * Z := match p with PColor (r, g, b, _) => (r, g, b) | _ => (0, 0, 0)%Z end.

Inductive pstok :=
| Pgray (x : Q) | Prgb (r g b : Q) | Plw (x : Q) | Pcap (c : Z) | Pjoin (j : Z) | Pml (x : Q) | Pdash (ds : list Q) (off : Q)
| Ppath (g : geo) | Pfill | Peofill | Pstroke | Pgsave | Pgrestore | Pother.

Record psw := mkPsw { rpaint : paint; rlw : Q; rml : Q; rcap : option Z; rjoin : option (Z * option Q);
                      roff : Q; rds : list Q }.
(** New(): only miterLimit: 10.0 is set, everything else is the zero value *)
Definition psw_init : psw := mkPsw PNone 0 10 None None 0 [].

Definition ps_set_paint (fixed : bool) (p : paint) (w : psw) : list pstok * psw :=
  if paint_eqb p (rpaint w) then ([], w)
  else
    let '(r, g, b) := nrgb p in
    let prev := if fixed then nrgb (rpaint w) else premul_rgb (rpaint w) in
    let t := if z3_eqb (r, g, b) prev then []
             else if ((r =? g) && (r =? b))%Z then [Pgray (Qred (r # 255))]
             else [Prgb (Qred (r # 255)) (Qred (g # 255)) (Qred (b # 255))] in
    (t, mkPsw p (rlw w) (rml w) (rcap w) (rjoin w) (roff w) (rds w)).

Definition ps_set_lw (x : Q) (w : psw) : list pstok * psw :=
  if qeqb x (rlw w) then ([], w) else ([Plw x], mkPsw (rpaint w) x (rml w) (rcap w) (rjoin w) (roff w) (rds w)).
Definition ps_set_cap (c : Z) (w : psw) : list pstok * psw :=
  match rcap w with
  | Some c0 => if (c =? c0)%Z then ([], w) else ([Pcap c], mkPsw (rpaint w) (rlw w) (rml w) (Some c) (rjoin w) (roff w) (rds w))
  | None => ([Pcap c], mkPsw (rpaint w) (rlw w) (rml w) (Some c) (rjoin w) (roff w) (rds w))
  end.
Definition join_eqb (a b : Z * option Q) : bool :=
  (fst a =? fst b)%Z && match snd a, snd b with Some x, Some y => qeqb x y | None, None => true | _, _ => false end.
(** setLineJoin: joiner != r.lineJoin (interface comparison: kind and limit); miter also sets the limit *)
Definition ps_set_join (j : Z) (ml : option Q) (w : psw) : list pstok * psw :=
  let same := match rjoin w with Some o => join_eqb (j, ml) o | None => false end in
  if same then ([], w)
  else
    let t1 := [Pjoin j] in
    let '(t2, ml') := match ml with
                      | Some l => if qeqb l (rml w) then ([], rml w) else ([Pml l], l)
                      | None => ([], rml w) end in
    (t1 ++ t2, mkPsw (rpaint w) (rlw w) ml' (rcap w) (Some (j, ml)) (roff w) (rds w)).
Definition ps_set_dashes (off : Q) (ds : list Q) (w : psw) : list pstok * psw :=
  if qlist_eqb ds (rds w) && qeqb off (roff w) then ([], w)
  else ([Pdash ds off], mkPsw (rpaint w) (rlw w) (rml w) (rcap w) (rjoin w) off ds).

Definition ps_draw (fixed : bool) (d : draw) : psw -> list pstok * psw :=
  let s := dS d in
  let ns := native_stroke d in
  let native := has_stroke s && match ns with Some _ => true | None => false end in
  let eo := sEvenOdd s in
  (if has_fill s || native then emit [Ppath (dGeo d)] else emit []) ;;
  (if has_fill s then
     ps_set_paint fixed (sFill s) ;;
     emit ((if native then [Pgsave] else []) ++ [if eo then Peofill else Pfill] ++ (if native then [Pgrestore] else []))
   else emit []) ;;
  (if has_stroke s then
     match ns with
     | Some (w, c, j, ml, off, ds) =>
         ps_set_paint fixed (sStroke s) ;; ps_set_lw w ;; ps_set_cap c ;; ps_set_join j ml ;; ps_set_dashes off ds ;; emit [Pstroke]
     | None => emit [Ppath (dOutline d)] ;; ps_set_paint fixed (sStroke s) ;; emit [Pfill]
     end
   else emit []).

Fixpoint ps_write (fixed : bool) (ds : list draw) (w : psw) : list pstok :=
  match ds with [] => [] | d :: r => let '(t, w1) := ps_draw fixed d w in t ++ ps_write fixed r w1 end.

(** ---- interpreter (PLRM: initial colour black, line width 1, butt, miter, limit 10, solid) ---- *)
Record psg := mkPsg { qcol : col3; qlw : Q; qcap : Z; qjoin : Z; qml : Q; qds : list Q; qoff : Q; qpath : geo }.
Definition psg_init : psg := mkPsg (0, 0, 0) 1 0 0 10 [] 0 [].

Definition ps_step (t : pstok) (st : psg * list psg) : list pop * (psg * list psg) :=
  let '(g, stack) := st in
  let stroke_op := mkPop (KStroke false (qlw g) (qcap g) (qjoin g) (if (qjoin g =? 0)%Z then qml g else 0) (qds g) (qoff g)) (qpath g) (qcol g) 1 in
  match t with
  | Pgray x => ([], (mkPsg (x, x, x) (qlw g) (qcap g) (qjoin g) (qml g) (qds g) (qoff g) (qpath g), stack))
  | Prgb r gg b => ([], (mkPsg (r, gg, b) (qlw g) (qcap g) (qjoin g) (qml g) (qds g) (qoff g) (qpath g), stack))
  | Plw x => ([], (mkPsg (qcol g) x (qcap g) (qjoin g) (qml g) (qds g) (qoff g) (qpath g), stack))
  | Pcap c => ([], (mkPsg (qcol g) (qlw g) c (qjoin g) (qml g) (qds g) (qoff g) (qpath g), stack))
  | Pjoin j => ([], (mkPsg (qcol g) (qlw g) (qcap g) j (qml g) (qds g) (qoff g) (qpath g), stack))
  | Pml x => ([], (mkPsg (qcol g) (qlw g) (qcap g) (qjoin g) x (qds g) (qoff g) (qpath g), stack))
  | Pdash ds off => ([], (mkPsg (qcol g) (qlw g) (qcap g) (qjoin g) (qml g) ds off (qpath g), stack))
  | Ppath p => ([], (mkPsg (qcol g) (qlw g) (qcap g) (qjoin g) (qml g) (qds g) (qoff g) (qpath g ++ p), stack))
  | Pfill => ([mkPop (KFill false) (qpath g) (qcol g) 1], (mkPsg (qcol g) (qlw g) (qcap g) (qjoin g) (qml g) (qds g) (qoff g) [], stack))
  | Peofill => ([mkPop (KFill true) (qpath g) (qcol g) 1], (mkPsg (qcol g) (qlw g) (qcap g) (qjoin g) (qml g) (qds g) (qoff g) [], stack))
  | Pstroke => ([stroke_op], (mkPsg (qcol g) (qlw g) (qcap g) (qjoin g) (qml g) (qds g) (qoff g) [], stack))
  | Pgsave => ([], (g, g :: stack))
  | Pgrestore => match stack with s :: r => ([], (s, r)) | [] => ([mkPop KBad [] (qcol g) 1], (g, [])) end
  | Pother => ([], (g, stack))
  end.
Fixpoint exec_ps (ts : list pstok) (st : psg * list psg) : list pop :=
  match ts with [] => [] | t :: r => let '(o, st1) := ps_step t st in o ++ exec_ps r st1 end.

(** what PostScript can express of the drawing: 8-bit un-premultiplied colour, no alpha, strokes never closed by the
    painting operator (closepath is part of the path) *)
Definition ps_col (p : paint) : col3 := let '(r, g, b) := nrgb p in (Qred (r # 255), Qred (g # 255), Qred (b # 255)).
Definition ps_spec (d : draw) : list pop :=
  let s := dS d in
  (if has_fill s then [mkPop (KFill (sEvenOdd s)) (dGeo d) (ps_col (sFill s)) 1] else []) ++
  (if has_stroke s then
     match native_stroke d with
     | Some (w, c, j, ml, off, ds) =>
         [mkPop (KStroke false w c j (if (j =? 0)%Z then match ml with Some l => l | None => 0 end else 0) ds off) (dGeo d) (ps_col (sStroke s)) 1]
     | None => [mkPop (KFill false) (dOutline d) (ps_col (sStroke s)) 1]
     end
   else []).

(** ================= SVG ================= *)
(** one <path> element as read by the harness: geometry (y still flipped), attributes; None = attribute absent.
    Colours: (r, g, b) 0..255 and alpha; fill/stroke: 0 = absent, 1 = none, 2 = colour, 3 = url(#id) *)
Record svgel := mkSvg { vgeo : geo; vfillk : Z; vfill : Z * Z * Z; vfilla : Q; veo : bool;
                        vstrokek : Z; vstroke : Z * Z * Z; vstrokea : Q;
                        vwidth : option Q; vcap : option Z; vjoin : option Z; vml : option Q;
                        vdash : option (list Q); voff : option Q }.

Definition odef {A} (o : option A) (d : A) : A := match o with Some x => x | None => d end.
Definition col255 (c : Z * Z * Z) : col3 := let '(r, g, b) := c in (Qred (r # 255), Qred (g # 255), Qred (b # 255)).
(** SVG 1.1 §11: fill defaults to black, stroke to none, stroke-width 1, butt, miter, miterlimit 4, no dashes, offset 0;
    the fill is painted before the stroke *)
Definition exec_svg1 (e : svgel) : list pop :=
  (if (vfillk e =? 0)%Z then [mkPop (KFill (veo e)) (vgeo e) (0, 0, 0) 1]
   else if (vfillk e =? 2)%Z then [mkPop (KFill (veo e)) (vgeo e) (col255 (vfill e)) (vfilla e)]
   else if (vfillk e =? 3)%Z then [mkPop (KFill (veo e)) (vgeo e) (paint_col (PGrad (fst (fst (vfill e))))) 1]
   else []) ++
  (if ((vstrokek e =? 2) || (vstrokek e =? 3))%Z then
     let j := odef (vjoin e) 0%Z in
     [mkPop (KStroke false (odef (vwidth e) 1) (odef (vcap e) 0%Z) j
                     (if ((j =? 0) || (j =? 3))%Z then odef (vml e) 4 else 0) (odef (vdash e) []) (odef (voff e) 0))
            (vgeo e)
            (if (vstrokek e =? 3)%Z then paint_col (PGrad (fst (fst (vstroke e)))) else col255 (vstroke e))
            (if (vstrokek e =? 3)%Z then 1 else vstrokea e)]
   else []).
Definition exec_svg (es : list svgel) : list pop := flat_map exec_svg1 es.

(** SVG can also express the arcs join with a finite limit (svg.go: only Arcs with NaN limit is unsupported) *)
Definition join_native_svg (j : joiner) : option (Z * option Q) :=
  match j with
  | JArcs _ (Some l) => Some (3%Z, Some l)
  | _ => join_native j
  end.

(** the stroke the SVG back-end requests natively (svg.go RenderPath): as [native_stroke] with the SVG set of joins *)
Definition native_stroke_svg (d : draw) : option (Q * Z * Z * option Q * Q * list Q) :=
  match join_native_svg (sJoin (dS d)) with
  | Some (j, ml) =>
      if dSim d then
        let w := Qred (sWidth (dS d) * dK d) in
        let '(off, ds) := scale_dash w (sOff (dS d)) (sDashes (dS d)) in
        Some (w, sCap (dS d), j, match ml with Some l => Some (Qred l) | None => None end, off, ds)
      else None
  | None => None
  end.

(** what the drawing asks of the SVG: the fill, then the stroke with its parameters in target space, or (fallback) the
    filled outline; the outline element repeats the fill rule of the style (the outline is a settled path: either rule
    fills the same region) *)
Definition svg_spec (d : draw) : list pop :=
  let s := dS d in
  (if has_fill s then [mkPop (KFill (sEvenOdd s)) (dGeo d) (paint_col (sFill s)) (paint_alpha (sFill s))] else []) ++
  (if has_stroke s then
     match native_stroke_svg d with
     | Some (w, c, j, ml, off, ds) =>
         [mkPop (KStroke false w c j (if ((j =? 0) || (j =? 3))%Z then match ml with Some l => l | None => 0 end else 0) ds off)
                (dGeo d) (paint_col (sStroke s)) (paint_alpha (sStroke s))]
     | None => [mkPop (KFill (sEvenOdd s)) (dOutline d) (paint_col (sStroke s)) (paint_alpha (sStroke s))]
     end
   else []).

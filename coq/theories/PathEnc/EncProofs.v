(** Proofs about the encoding: the cmdLen table and decoding from both ends. *)
From Coq Require Import ZArith QArith List Bool Lia.
From CV Require Import PathEnc.Enc.
Import ListNotations.

(** the exponent-mask trick maps the six command values to the declared record lengths (finite table) *)
Lemma cmdLen_table : forall c, cmdLen (cmdval c) = Some (reclen c).
Proof. destruct c; vm_compute; reflexivity. Qed.

Lemma cmdLen_bits_table :
  map cmdLen_bits [1; 2; 4; 8; 16; 32]%Z = [Some 4; Some 4; Some 6; Some 8; Some 8; Some 4]%nat.
Proof. vm_compute. reflexivity. Qed.

(** the bit patterns themselves (IEEE-754 binary64 of 1, 2, 4, 8, 16, 32) *)
Lemma f64bits_table :
  map f64bits_posint [1; 2; 4; 8; 16; 32]%Z =
  [0x3FF0000000000000; 0x4000000000000000; 0x4010000000000000; 0x4020000000000000; 0x4030000000000000; 0x4040000000000000]%Z.
Proof. vm_compute. reflexivity. Qed.

(** the next power of two is NOT a command: the table index runs off [6]int (Go panics) *)
Lemma cmdLen_64_out_of_range : cmdLen_bits 64 = None.
Proof. vm_compute. reflexivity. Qed.

Lemma cmd_of_cmdval : forall c, cmd_of (cmdval c) = Some c.
Proof. destruct c; vm_compute; reflexivity. Qed.

Lemma is_cmd_cmdval : forall c, is_cmd c (cmdval c) = true.
Proof. destruct c; vm_compute; reflexivity. Qed.

Lemma decode_fwd_app : forall s r, decode_fwd (enc_seg s ++ r) = option_map (cons s) (decode_fwd r).
Proof.
  intros s r.
  destruct s as [[x y]|[x y]|[cx cy] [x y]|[ax ay] [bx by_] [x y]|rx ry phi fl [x y]|[x y]];
    cbn [enc_seg app decode_fwd]; rewrite cmd_of_cmdval; rewrite is_cmd_cmdval; reflexivity.
Qed.

Theorem decode_fwd_encode : forall p, decode_fwd (encode p) = Some p.
Proof.
  induction p as [|s p IH]; [reflexivity|].
  cbn [encode]. rewrite decode_fwd_app, IH. reflexivity.
Qed.

Lemma decode_rev_app : forall s r, decode_rev (rev (enc_seg s) ++ r) = option_map (cons s) (decode_rev r).
Proof.
  intros s r.
  destruct s as [[x y]|[x y]|[cx cy] [x y]|[ax ay] [bx by_] [x y]|rx ry phi fl [x y]|[x y]];
    cbn [enc_seg rev app decode_rev]; rewrite cmd_of_cmdval; rewrite is_cmd_cmdval; reflexivity.
Qed.

Lemma encode_app : forall p q, encode (p ++ q) = encode p ++ encode q.
Proof. induction p as [|s p IH]; intro q; cbn [encode app]; [reflexivity|]. rewrite IH, app_assoc. reflexivity. Qed.

Theorem decode_bwd_encode : forall p, decode_bwd (encode p) = Some (rev p).
Proof.
  unfold decode_bwd. induction p as [|s p IH] using rev_ind; [reflexivity|].
  rewrite encode_app. cbn [encode]. rewrite app_nil_r, rev_app_distr, decode_rev_app, IH, rev_app_distr. reflexivity.
Qed.

(** encoded paths pass the executable validator exactly when they are well-formed *)
Lemma wf_data_encode : forall p, wf_data (encode p) = wf p.
Proof.
  intro p. unfold wf_data. rewrite decode_fwd_encode, decode_bwd_encode, rev_length, Nat.eqb_refl, andb_true_r. reflexivity.
Qed.

(** soundness of the validator used on the Go output: accepted data IS the encoding of a well-formed path.
    [decode_fwd] is injective into [encode]: whatever it accepts re-encodes to data that is cell-wise equal
    (as rationals) to the input. *)
Definition data_eq (a b : list num) : Prop := Forall2 Qeq a b.

Lemma cmd_of_sound : forall v c, cmd_of v = Some c -> Qeq v (cmdval c).
Proof.
  intros v c. unfold cmd_of.
  repeat match goal with |- (if is_cmd ?k v then _ else _) = _ -> _ =>
    let E := fresh "E" in destruct (is_cmd k v) eqn:E;
    [intro H; inversion H; subst; apply Qeq_bool_iff; exact E|] end.
  discriminate.
Qed.

Lemma data_eq_refl : forall a, data_eq a a.
Proof. induction a; constructor; [apply Qeq_refl|assumption]. Qed.

Theorem decode_fwd_sound : forall d p, decode_fwd d = Some p -> data_eq d (encode p).
Proof.
  fix IH 1. intros d p. destruct d as [|c t]; cbn [decode_fwd].
  - intro H. inversion H. constructor.
  - destruct (cmd_of c) as [k|] eqn:Ec; [|discriminate]. apply cmd_of_sound in Ec.
    destruct k.
    + destruct t as [|x [|y [|c' r]]]; try discriminate. destruct (is_cmd CM c') eqn:E2; [|discriminate].
      destruct (decode_fwd r) as [q|] eqn:Er; [|discriminate]. intro H; inversion H; subst.
      apply Qeq_bool_iff in E2. cbn [encode enc_seg app].
      repeat (constructor; try assumption; try apply Qeq_refl). apply IH; assumption.
    + destruct t as [|x [|y [|c' r]]]; try discriminate. destruct (is_cmd CL c') eqn:E2; [|discriminate].
      destruct (decode_fwd r) as [q|] eqn:Er; [|discriminate]. intro H; inversion H; subst.
      apply Qeq_bool_iff in E2. cbn [encode enc_seg app].
      repeat (constructor; try assumption; try apply Qeq_refl). apply IH; assumption.
    + destruct t as [|cx [|cy [|x [|y [|c' r]]]]]; try discriminate. destruct (is_cmd CQ c') eqn:E2; [|discriminate].
      destruct (decode_fwd r) as [q|] eqn:Er; [|discriminate]. intro H; inversion H; subst.
      apply Qeq_bool_iff in E2. cbn [encode enc_seg app].
      repeat (constructor; try assumption; try apply Qeq_refl). apply IH; assumption.
    + destruct t as [|ax [|ay [|bx [|by_ [|x [|y [|c' r]]]]]]]; try discriminate. destruct (is_cmd CC c') eqn:E2; [|discriminate].
      destruct (decode_fwd r) as [q|] eqn:Er; [|discriminate]. intro H; inversion H; subst.
      apply Qeq_bool_iff in E2. cbn [encode enc_seg app].
      repeat (constructor; try assumption; try apply Qeq_refl). apply IH; assumption.
    + destruct t as [|ax [|ay [|bx [|by_ [|x [|y [|c' r]]]]]]]; try discriminate. destruct (is_cmd CA c') eqn:E2; [|discriminate].
      destruct (decode_fwd r) as [q|] eqn:Er; [|discriminate]. intro H; inversion H; subst.
      apply Qeq_bool_iff in E2. cbn [encode enc_seg app].
      repeat (constructor; try assumption; try apply Qeq_refl). apply IH; assumption.
    + destruct t as [|x [|y [|c' r]]]; try discriminate. destruct (is_cmd CZ c') eqn:E2; [|discriminate].
      destruct (decode_fwd r) as [q|] eqn:Er; [|discriminate]. intro H; inversion H; subst.
      apply Qeq_bool_iff in E2. cbn [encode enc_seg app].
      repeat (constructor; try assumption; try apply Qeq_refl). apply IH; assumption.
Qed.

Theorem wf_data_sound : forall d, wf_data d = true -> exists p, data_eq d (encode p) /\ wf p = true.
Proof.
  intros d H. unfold wf_data in H.
  destruct (decode_fwd d) as [p|] eqn:E; [|discriminate].
  destruct (decode_bwd d) as [q|]; [|discriminate].
  apply andb_true_iff in H. destruct H as [H _].
  exists p. split; [apply decode_fwd_sound; exact E|exact H].
Qed.

Example wf_data_example :
  wf_data (encode [SM (0,0); SL (1,0); SQ (1,1) (0,1); SZ (0,0)]) = true.
Proof. vm_compute. reflexivity. Qed.

(** C04 — exact classification of sample points by their distance to a polyline (integers, no roots):
    used by the K2 oracle on the outputs of Stroke and Offset. *)
From Coq Require Import ZArith List Bool Lia.
From CV Require Import Geom.Winding Bool.Check.
Import ListNotations.
Open Scope Z_scope.

(** segments of an open polyline / closed contour *)
Fixpoint open_edges (c : list pt) : list (pt * pt) :=
  match c with
  | a :: ((b :: _) as rest) => (a, b) :: open_edges rest
  | _ => []
  end.
Definition path_edges (closed : bool) (c : list pt) : list (pt * pt) := if closed then edges c else open_edges c.

(** squared distance from p to the segment ab is < t2 *)
Definition near_seg (p a b : pt) (t2 : Z) : bool :=
  let '(px, py) := p in let '(ax, ay) := a in let '(bx, by_) := b in
  let dx := bx - ax in let dy_ := by_ - ay in
  let len2 := dx * dx + dy_ * dy_ in
  let dot := (px - ax) * dx + (py - ay) * dy_ in
  if dot <=? 0 then dist2 p a <? t2
  else if len2 <=? dot then dist2 p b <? t2
  else let cr := dx * (py - ay) - dy_ * (px - ax) in cr * cr <? t2 * len2.

(** p lies inside the slab of the segment with its foot at least sqrt(m2) away from both ends, at squared
    distance < t2 from the segment *)
Definition in_slab (p a b : pt) (t2 m2 : Z) : bool :=
  let '(px, py) := p in let '(ax, ay) := a in let '(bx, by_) := b in
  let dx := bx - ax in let dy_ := by_ - ay in
  let len2 := dx * dx + dy_ * dy_ in
  let dot := (px - ax) * dx + (py - ay) * dy_ in
  (0 <? dot) && (dot <? len2) &&
  (m2 * len2 <=? dot * dot) && (m2 * len2 <=? (len2 - dot) * (len2 - dot)) &&
  (let cr := dx * (py - ay) - dy_ * (px - ax) in cr * cr <? t2 * len2).

Definition near_path (p : pt) (es : list (pt * pt)) (t2 : Z) : bool := existsb (fun e => near_seg p (fst e) (snd e) t2) es.
Definition slab_path (p : pt) (es : list (pt * pt)) (t2 m2 : Z) : bool := existsb (fun e => in_slab p (fst e) (snd e) t2 m2) es.
Definition far_edges (p : pt) (es : list (pt * pt)) (t2 : Z) : bool := forallb (fun e => far_seg p (fst e) (snd e) t2) es.

(** near and far exclude each other (the band between the two thresholds is skipped by the judge) *)
Lemma near_far_seg p a b t2 : near_seg p a b t2 = true -> far_seg p a b t2 = false.
Proof.
  destruct p as [px py], a as [ax ay], b as [bx by_]. unfold near_seg, far_seg.
  destruct ((px - ax) * (bx - ax) + (py - ay) * (by_ - ay) <=? 0).
  - intros H. apply Z.ltb_lt in H. apply Z.leb_gt. exact H.
  - destruct ((bx - ax) * (bx - ax) + (by_ - ay) * (by_ - ay) <=? (px - ax) * (bx - ax) + (py - ay) * (by_ - ay)).
    + intros H. apply Z.ltb_lt in H. apply Z.leb_gt. exact H.
    + intros H. apply Z.ltb_lt in H. apply Z.leb_gt. exact H.
Qed.

(** inside a slab means near that segment *)
Lemma slab_near p a b t2 m2 : in_slab p a b t2 m2 = true -> near_seg p a b t2 = true.
Proof.
  destruct p as [px py], a as [ax ay], b as [bx by_]. unfold in_slab, near_seg.
  intros H. apply andb_true_iff in H as [H Hc]. apply andb_true_iff in H as [H _]. apply andb_true_iff in H as [H _].
  apply andb_true_iff in H as [H0 H1]. apply Z.ltb_lt in H0, H1.
  replace ((px - ax) * (bx - ax) + (py - ay) * (by_ - ay) <=? 0) with false by (symmetry; apply Z.leb_gt; lia).
  replace ((bx - ax) * (bx - ax) + (by_ - ay) * (by_ - ay) <=? (px - ax) * (bx - ax) + (py - ay) * (by_ - ay)) with false
    by (symmetry; apply Z.leb_gt; lia).
  exact Hc.
Qed.

(** the foot of p on the line ab: inside the slab the squared distance to EVERY point of the segment's
    supporting line is at least cr^2/len2, i.e. the slab test is the exact perpendicular distance test:
    for every point q = a + s*(b-a) (s rational, written s = sn/sd) of the line,
      |p - q|^2 * len2 >= cr^2   (Cauchy-Schwarz / Lagrange identity). *)
Lemma perpendicular_is_minimal px py ax ay bx by_ qx qy :
  (* q on the line through a and b *)
  (bx - ax) * (qy - ay) - (by_ - ay) * (qx - ax) = 0 ->
  let dx := bx - ax in let dy_ := by_ - ay in
  let cr := dx * (py - ay) - dy_ * (px - ax) in
  cr * cr <= ((px - qx) * (px - qx) + (py - qy) * (py - qy)) * (dx * dx + dy_ * dy_).
Proof.
  intros Hq dx dy_ cr.
  (* cr = dx*(py-qy) - dy*(px-qx) because q is on the line; then Lagrange's identity *)
  assert (E : cr = dx * (py - qy) - dy_ * (px - qx)) by (subst cr dx dy_; nia).
  rewrite E.
  assert (L : ((px - qx) * (px - qx) + (py - qy) * (py - qy)) * (dx * dx + dy_ * dy_)
              - (dx * (py - qy) - dy_ * (px - qx)) * (dx * (py - qy) - dy_ * (px - qx))
              = (dx * (px - qx) + dy_ * (py - qy)) * (dx * (px - qx) + dy_ * (py - qy))) by ring.
  assert (0 <= (dx * (px - qx) + dy_ * (py - qy)) * (dx * (px - qx) + dy_ * (py - qy))) by apply Z.square_nonneg.
  lia.
Qed.

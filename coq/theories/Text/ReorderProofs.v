(** C16 — reorderSpans (current code): the visual order is a permutation of the span indices and the
    reordering changes only X positions (count, widths and levels of the spans are kept, in logical order). *)
From Coq Require Import ZArith QArith List Bool Lia Permutation.
From CV Require Import Text.Layout.
Import ListNotations.

Lemma rev_runs_perm spans L vis : forall acc, Permutation (rev_runs spans L vis acc) (acc ++ vis).
Proof.
  induction vis as [|i r IH]; intros acc; cbn [rev_runs].
  - rewrite app_nil_r. apply Permutation_refl.
  - destruct (L <=? level_at spans i)%Z.
    + eapply Permutation_trans; [apply IH|]. cbn [app]. apply Permutation_middle.
    + apply Permutation_app_head. apply perm_skip. exact (IH []).
Qed.

Lemma l2_levels_perm spans k : forall vis, Permutation (l2_levels spans k vis) vis.
Proof.
  induction k as [|k IH]; intros vis; cbn [l2_levels]; [apply Permutation_refl|].
  eapply Permutation_trans; [apply IH|]. exact (rev_runs_perm spans _ vis []).
Qed.

(** every span index occurs exactly once in the visual order, for every list of spans and levels *)
Theorem visual_order_perm spans : Permutation (visual_order spans) (seq 0 (length spans)).
Proof. unfold visual_order. apply l2_levels_perm. Qed.

Corollary visual_order_nodup spans : NoDup (visual_order spans) /\ length (visual_order spans) = length spans.
Proof.
  split.
  - eapply Permutation_NoDup; [apply Permutation_sym, visual_order_perm|apply seq_NoDup].
  - rewrite (Permutation_length (visual_order_perm spans)). apply seq_length.
Qed.

Lemma map_snd_combine_seq {A} (l : list A) : forall a, map snd (combine (seq a (length l)) l) = l.
Proof. induction l as [|x l IH]; intros a; cbn; [reflexivity|]. now rewrite IH. Qed.

(** reorderSpans only moves spans: same number of spans, same widths and levels in logical order *)
Theorem reorder_spans_keeps spans :
  length (reorder_spans spans) = length spans /\
  map spW (reorder_spans spans) = map spW spans /\ map spL (reorder_spans spans) = map spL spans.
Proof.
  unfold reorder_spans.
  set (assigns := flat_map _ _). set (c := combine _ _).
  assert (Hc : map snd c = spans) by apply map_snd_combine_seq.
  assert (HW : forall l : list (nat * span3),
     map spW (map (fun ip => let '(i, s) := ip in
         match find (fun a => Nat.eqb (fst a) i) assigns with
         | Some (_, x) => (x, spW s, spL s) | None => s end) l) = map spW (map snd l) /\
     map spL (map (fun ip => let '(i, s) := ip in
         match find (fun a => Nat.eqb (fst a) i) assigns with
         | Some (_, x) => (x, spW s, spL s) | None => s end) l) = map spL (map snd l)).
  { induction l as [|[i s] l [IH1 IH2]]; cbn [map]; [split; reflexivity|].
    rewrite IH1, IH2. destruct (find _ assigns) as [[j x]|]; split; reflexivity. }
  destruct (HW c) as [H1 H2]. rewrite Hc in H1, H2.
  split; [|split; assumption].
  rewrite map_length. unfold c. rewrite combine_length, seq_length. apply Nat.min_id.
Qed.

(** non-trivial instance: levels 0 1 2 1 0 — the visual order is 0 3 2 1 4 *)
Example visual_order_ex :
  visual_order [(0, 1, 0%Z); (1, 2, 1%Z); (3, 3, 2%Z); (6, 4, 1%Z); (10, 5, 0%Z)] = [0; 3; 2; 1; 4]%nat.
Proof. reflexivity. Qed.

(** frame: a line without any span of level >= 1 (pure left-to-right text) is left exactly as it was *)
Lemma max_level_ltr spans : (forall s, In s spans -> (spL s <= 0)%Z) -> max_level spans = 0%Z.
Proof.
  unfold max_level. induction spans as [|s r IH]; intros H; cbn [fold_left]; [reflexivity|].
  rewrite Z.max_l by (apply H; now left). apply IH. intros t Ht. apply H. now right.
Qed.

Lemma runs1_ltr spans : (forall s, In s spans -> (spL s <= 0)%Z) -> forall pos, runs1 spans pos None = [].
Proof.
  induction spans as [|s r IH]; intros H pos; cbn [runs1]; [reflexivity|].
  assert (Hs : (spL s <= 0)%Z) by (apply H; now left).
  destruct (1 <=? spL s)%Z eqn:E; [apply Z.leb_le in E; lia|].
  apply IH. intros t Ht. apply H. now right.
Qed.

Theorem reorder_spans_ltr_identity spans :
  (forall s, In s spans -> (spL s <= 0)%Z) ->
  visual_order spans = seq 0 (length spans) /\ reorder_spans spans = spans.
Proof.
  intros H. split.
  - unfold visual_order. rewrite (max_level_ltr spans H). reflexivity.
  - unfold reorder_spans. rewrite (runs1_ltr spans H 0). cbn [flat_map].
    rewrite <- (map_snd_combine_seq spans 0) at 3.
    apply map_ext. intros [i s]. reflexivity.
Qed.

(** C18 — Embedded fonts and glyph paths reproduce the laid-out text.
    Property theorems only; each is closed by [exact] of a lemma proved elsewhere. *)
From Coq Require Import ZArith List Bool.
From CV Require Import PdfFont.Widths PdfFont.WidthsProofs PdfFont.Subset PdfFont.SubsetProofs
                       PdfFont.ToUnicode PdfFont.ToUnicodeProofs PdfFont.TJ PdfFont.Pen PdfFont.PenProofs.
Import ListNotations.
Open Scope Z_scope.

(** FontSubsetter, over ANY history of Get calls with uint16 glyph ids: .notdef has code 0 and List[0] = 0; the code
    returned for a glyph is returned again after any further history; two glyphs with the same code are the same
    glyph; List[Get g] = g with the code below len(List) and below 65536 (the uint16 wrap of the model is never
    reached: at most 65536 distinct glyph ids exist). *)
Theorem C18_subset_stable_injective : forall h, Forall is_u16 h ->
  (snd (sub_get (sub_after h) 0) = 0 /\ nth_error (sub_list (sub_after h)) 0 = Some 0) /\
  (forall g h2, snd (sub_get (fst (sub_run (fst (sub_get (sub_after h) g)) h2)) g) = snd (sub_get (sub_after h) g)) /\
  (forall g1 g2 c, lookup (idmap (sub_after h)) g1 = Some c -> lookup (idmap (sub_after h)) g2 = Some c -> g1 = g2) /\
  (forall g, is_u16 g -> let '(s', c) := sub_get (sub_after h) g in
                         nth_error (sub_list s') (Z.to_nat c) = Some g /\ 0 <= c < Z.of_nat (length (sub_list s')) /\ c < 65536).
Proof. exact subset_stable_injective. Qed.
Print Assumptions C18_subset_stable_injective.

(** W_roundtrip: for every list of glyph widths and every CID of a used glyph, the reader of ISO 32000-1 §9.7.4.3
    applied to the /DW and /W values written by the loop of writeFont returns that glyph's width. *)
Theorem C18_W_roundtrip : forall ws cid, 0 <= cid < lenZ ws ->
  decode_W (fst (encode_W ws)) (snd (encode_W ws)) cid = nthZ ws cid.
Proof. exact W_roundtrip. Qed.
Print Assumptions C18_W_roundtrip.

Theorem C18_W_wellformed : forall ws, wf_items (snd (encode_W ws)) = true.
Proof. exact W_wellformed. Qed.
Print Assumptions C18_W_wellformed.

(** cmap_roundtrip: for every list of code points (fewer than 65535 glyphs) and every CID, the STRICT CMap reader
    recovers the code point from the bfrange/bfchar lines of the writer (as fixed: ranges end at low-byte boundaries). *)
Theorem C18_cmap_roundtrip : forall us cid,
  lenZ us < 65535 -> Forall is_cp us -> 0 <= cid <= lenZ us ->
  cmap_codepoint true (encode_cmap true us) cid = Some (cmap_expected us cid).
Proof. exact cmap_roundtrip. Qed.
Print Assumptions C18_cmap_roundtrip.

(** the loop as it stood at the pinned commit is correct only for the lenient reader (increment with carry) … *)
Theorem C18_cmap_roundtrip_lenient_partial : forall split us cid,
  lenZ us < 65535 -> Forall is_cp us -> 0 <= cid <= lenZ us ->
  cmap_codepoint false (encode_cmap split us) cid = Some (cmap_expected us cid).
Proof. exact cmap_roundtrip_lenient_partial. Qed.
Print Assumptions C18_cmap_roundtrip_lenient_partial.

(** … and refuted for the strict reader: U+00FE U+00FF U+0100 became the range <0001> <0003> <00FE>. *)
Theorem C18_cmap_roundtrip_unsplit_refuted : exists us cid,
  lenZ us < 65535 /\ Forall is_cp us /\ 0 <= cid <= lenZ us /\
  encode_cmap false us = ([(1, 3, 254)], [(0, 65533)]) /\
  cmap_codepoint true (encode_cmap false us) cid <> Some (cmap_expected us cid).
Proof. exact cmap_roundtrip_unsplit_refuted. Qed.
Print Assumptions C18_cmap_roundtrip_unsplit_refuted.

Theorem C18_unsurr_surr : forall u, is_cp u -> unsurr (surr u) = u.
Proof. exact unsurr_surr. Qed.
Print Assumptions C18_unsurr_surr.

(** tj_pen: for any glyph run, the pen of a PDF reader after the TJ array written by WriteText (glyph widths = the
    rounded /W widths, numbers of the array subtracted) differs from the laid-out pen by at most 1/2 thousandth of an
    em per unadjusted glyph and 2 thousandths per adjusted glyph:  e = upem*disp - 1000*Σadv. *)
Theorem C18_tj_pen : forall upem w gs, 0 < upem ->
  Forall (fun g => 0 <= torig g /\ w (tcode g) = pdf_width upem (torig g)) gs ->
  2 * Z.abs (upem * tj_disp w (tj_ops upem gs []) - 1000 * sum_adv gs) <= upem * (n_unadj gs + 4 * n_adj gs).
Proof. exact tj_pen. Qed.
Print Assumptions C18_tj_pen.

Theorem C18_tj_codes : forall upem gs cur, tj_codes (tj_ops upem gs cur) = cur ++ map tcode gs.
Proof. exact tj_codes_ops. Qed.
Print Assumptions C18_tj_codes.

(** the bound "< 1/1000 em per adjusted glyph" of the design does not hold (int(x+0.5) truncates toward zero) *)
Theorem C18_tj_pen_one_milli_refuted : exists upem w g,
  0 < upem /\ 0 <= torig g /\ w (tcode g) = pdf_width upem (torig g) /\ tadv g <> torig g /\
  upem < Z.abs (upem * tj_disp w (tj_ops upem [g] []) - 1000 * sum_adv [g]).
Proof. exact tj_pen_one_milli_refuted. Qed.
Print Assumptions C18_tj_pen_one_milli_refuted.

(** pen_agreement: horizontal run, no int32 overflow: toPath's advance = XOffset + textWidth = XOffset + Σ XAdvance and
    glyph k is placed at (XOffset + Σ_{i<k} XAdvance_i + xoff_k, YOffset + Σ_{i<k} YAdvance_i + yoff_k). *)
Theorem C18_pen_agreement : forall gs xo yo,
  Forall (fun g => pvert g = false) gs -> fits xo yo gs -> fitsw 0 gs ->
  snd (topath xo yo gs) = xo + textwidth 0 gs /\
  textwidth 0 gs = sum_xa gs /\
  (forall k g, nth_error gs k = Some g ->
     nth_error (fst (topath xo yo gs)) k = Some (xo + sum_xa (firstn k gs) + pxo g, yo + sum_ya (firstn k gs) + pyo g)).
Proof. exact pen_agreement. Qed.
Print Assumptions C18_pen_agreement.

(** with a non-zero face X offset the advance returned by toPath is not the text width *)
Theorem C18_pen_agreement_xoffset_refuted : exists gs xo yo,
  Forall (fun g => pvert g = false) gs /\ fits xo yo gs /\ fitsw 0 gs /\
  snd (topath xo yo gs) <> textwidth 0 gs.
Proof. exact pen_agreement_xoffset_refuted. Qed.
Print Assumptions C18_pen_agreement_xoffset_refuted.

(** C03 — flattening certificates for Bezier curves and their executable checkers over Q.
    A certificate for a flattened quadratic/cubic is the list of curve parameters 0 = t_0 < ... < t_n = 1 of
    the returned vertices.  The checker decides, exactly in Q and without square roots:
      - the first/last vertex are the curve's end points (exactly),
      - every vertex v_i is within [slack] (per coordinate) of B(t_i),
      - for every piece [t_i, t_{i+1}] the *piece bound* is at most (K tol)^2, where the piece bound is an
        upper bound, valid for every parameter of the piece, of the squared distance from the curve point to
        the chord segment B(t_i)B(t_{i+1}) (perpendicular deviation of the de Casteljau control polygon plus
        the overshoot of the curve beyond the chord's ends).
    Soundness (every curve point is within K tol of the polyline) is proved in Flat/CertProofs.v. *)
From Coq Require Import ZArith QArith List Bool.
From CV Require Import Base.Dy Flat.Curves.
Import ListNotations.
Open Scope Q_scope.

Definition close1 (a b slack : Q) : bool := Qleb (a - b) slack && Qleb (b - a) slack.
Definition close (p q : pt) (slack : Q) : bool := close1 (px p) (px q) slack && close1 (py p) (py q) slack.
Definition peqb (p q : pt) : bool := Qeqb (px p) (px q) && Qeqb (py p) (py q).

(** cheap normalisation of dyadic rationals: cancel the common factors of two of numerator and denominator
    (linear time, no gcd; all numbers handled by the checkers are dyadic because float64 values are) *)
Fixpoint strip2 (n d : positive) : positive * positive :=
  match n, d with
  | xO n', xO d' => strip2 n' d'
  | _, _ => (n, d)
  end.

Definition Qstrip (q : Q) : Q :=
  match Qnum q with
  | Z0 => 0
  | Zpos n => let (n', d') := strip2 n (Qden q) in Zpos n' # d'
  | Zneg n => let (n', d') := strip2 n (Qden q) in Zneg n' # d'
  end.

Definition pred (p : pt) : pt := (Qstrip (px p), Qstrip (py p)).

(** de Casteljau evaluation of the polar forms with normalisation after every interpolation step *)
Definition lerp1s (a b t : Q) : Q := Qstrip (a + Qstrip ((b - a) * t)).
Definition blq_f (a b c u v : Q) : Q := lerp1s (lerp1s a b u) (lerp1s b c u) v.
Definition blc_f (a b c d u v w : Q) : Q :=
  let ab := lerp1s a b u in let bc_ := lerp1s b c u in let cd := lerp1s c d u in
  lerp1s (lerp1s ab bc_ v) (lerp1s bc_ cd v) w.

Definition quad_sub_f (p0 p1 p2 : pt) (s u : Q) : pt * pt * pt :=
  ((blq_f (px p0) (px p1) (px p2) s s, blq_f (py p0) (py p1) (py p2) s s),
   (blq_f (px p0) (px p1) (px p2) s u, blq_f (py p0) (py p1) (py p2) s u),
   (blq_f (px p0) (px p1) (px p2) u u, blq_f (py p0) (py p1) (py p2) u u)).

Definition cube_sub_f (p0 p1 p2 p3 : pt) (s u : Q) : pt * pt * pt * pt :=
  let bx := blc_f (px p0) (px p1) (px p2) (px p3) in
  let by_ := blc_f (py p0) (py p1) (py p2) (py p3) in
  ((bx s s s, by_ s s s), (bx s s u, by_ s s u), (bx s u u, by_ s u u), (bx u u u, by_ u u u)).

(** squared overshoot of a quadratic Bernstein polynomial (0, dc/cc, 1) below 0, scaled to lengths:
    (alpha^2/(1-2 alpha))^2 * cc with alpha = dc/cc < 0 *)
Definition ov2 (cc dc : Q) : Q :=
  if Qleb 0 dc then 0 else sqr (dc * dc) / (cc * sqr (cc - 2 * dc)).

Definition quad_piece_bound2 (q0 q1 q2 : pt) : Q :=
  let c := pred (vsub q2 q0) in
  let d := pred (vsub q1 q0) in
  let cc := Qstrip (nrm2 c) in
  if Qleb cc 0 then nrm2 d * (1 # 4)
  else let dc := Qstrip (vdot d c) in
       Qstrip (sqr (Qstrip (vcross d c))) * (1 # 4) / cc + ov2 cc dc + ov2 cc (Qstrip (cc - dc)).

Definition cube_piece_bound2 (q0 q1 q2 q3 : pt) : Q :=
  let c := pred (vsub q3 q0) in
  let d1 := pred (vsub q1 q0) in
  let d2 := pred (vsub q2 q0) in
  let cc := Qstrip (nrm2 c) in
  if Qleb cc 0 then (9 # 16) * Qmax (nrm2 d1) (nrm2 d2)
  else let a1 := Qstrip (vdot d1 c) in
       let a2 := Qstrip (vdot d2 c) in
       ((9 # 16) * Qmax (Qstrip (sqr (Qstrip (vcross d1 c)))) (Qstrip (sqr (Qstrip (vcross d2 c))))
        + (16 # 81) * (Qstrip (sqr (Qstrip (Qneg_part a1 + Qneg_part a2)))
                       + Qstrip (sqr (Qstrip (Qneg_part (Qstrip (cc - a1)) + Qneg_part (Qstrip (cc - a2))))))) / cc.

(** generic walk over the certificate: l = [(t_0,v_0); ...; (t_n,v_n)] *)
Fixpoint chk_pieces (B : Q -> pt) (pb : Q -> Q -> Q) (bound slack : Q) (l : list (Q * pt)) : bool :=
  match l with
  | [] => false
  | (s, v) :: l' =>
      close (B s) v slack &&
      match l' with
      | [] => true
      | (u, _) :: _ => Qltb s u && Qleb (pb s u) bound && chk_pieces B pb bound slack l'
      end
  end.

Definition dflt : Q * pt := (0, (0, 0)).

Definition chk_ends (l : list (Q * pt)) (a b : pt) : bool :=
  Qeqb (fst (hd dflt l)) 0 && peqb (snd (hd dflt l)) a &&
  Qeqb (fst (last l dflt)) 1 && peqb (snd (last l dflt)) b &&
  Nat.leb 2 (length l).

Definition quad_pb (p0 p1 p2 : pt) (s u : Q) : Q :=
  let '(q0, q1, q2) := quad_sub_f p0 p1 p2 s u in quad_piece_bound2 q0 q1 q2.

Definition cube_pb (p0 p1 p2 p3 : pt) (s u : Q) : Q :=
  let '(q0, q1, q2, q3) := cube_sub_f p0 p1 p2 p3 s u in cube_piece_bound2 q0 q1 q2 q3.

Definition quadB_f (p0 p1 p2 : pt) (t : Q) : pt :=
  (blq_f (px p0) (px p1) (px p2) t t, blq_f (py p0) (py p1) (py p2) t t).
Definition cubeB_f (p0 p1 p2 p3 : pt) (t : Q) : pt :=
  (blc_f (px p0) (px p1) (px p2) (px p3) t t t, blc_f (py p0) (py p1) (py p2) (py p3) t t t).

(** Exactly collinear cubic pieces whose control polygon overshoots the chord while the curve may not: the hull-based
    overshoot term of [cube_piece_bound2] is conservative there.  Second certificate: the projection onto the chord
    is the 1-D cubic with Bernstein coefficients (0, a1, a2, cc) (scaled by cc = |c|^2); it is cut into n equal
    parameter intervals by the polar form and every sub-coefficient g must overshoot [0, cc] by at most sqrt(B) in
    length: g >= 0 or g^2 <= B cc, and g <= cc or (g - cc)^2 <= B cc. *)
Definition ovs_ok (cc B g : Q) : bool :=
  (Qleb 0 g || Qleb (g * g) (B * cc)) && (Qleb g cc || Qleb ((g - cc) * (g - cc)) (B * cc)).

Fixpoint sub_hull_ok (a1 a2 cc B : Q) (n k : nat) : bool :=
  match k with
  | O => true
  | S k' =>
      let s := inject_Z (Z.of_nat k') / inject_Z (Z.of_nat n) in
      let u := inject_Z (Z.of_nat k' + 1) / inject_Z (Z.of_nat n) in
      ovs_ok cc B (blc_f 0 a1 a2 cc s s s) && ovs_ok cc B (blc_f 0 a1 a2 cc s s u) &&
      ovs_ok cc B (blc_f 0 a1 a2 cc s u u) && ovs_ok cc B (blc_f 0 a1 a2 cc u u u) &&
      sub_hull_ok a1 a2 cc B n k'
  end.

Definition collinear_ok (q0 q1 q2 q3 : pt) (B : Q) : bool :=
  let c := vsub q3 q0 in let e1 := vsub q1 q0 in let e2 := vsub q2 q0 in
  let cc := Qstrip (nrm2 c) in
  if Qltb 0 cc && Qeqb (vcross e1 c) 0 && Qeqb (vcross e2 c) 0      (* if: vm_compute is strict in && *)
  then sub_hull_ok (Qstrip (vdot e1 c)) (Qstrip (vdot e2 c)) cc B 32 32 else false.

(** piece bound used by the cubic checker: the control-polygon bound, or B itself when that bound exceeds B but the
    collinear certificate shows the piece stays within sqrt(B) of its chord *)
Definition cube_pb2 (p0 p1 p2 p3 : pt) (B s u : Q) : Q :=
  let '(q0, q1, q2, q3) := cube_sub_f p0 p1 p2 p3 s u in
  let b := cube_piece_bound2 q0 q1 q2 q3 in
  if Qleb b B then b else if collinear_ok q0 q1 q2 q3 B then B else b.

Definition chk_flat_quad (p0 p1 p2 : pt) (ts : list Q) (vs : list pt) (tol K slack : Q) : bool :=
  Nat.eqb (length ts) (length vs) &&
  let l := combine ts vs in
  chk_ends l p0 p2 && chk_pieces (quadB_f p0 p1 p2) (quad_pb p0 p1 p2) (sqr (K * tol)) slack l.

Definition chk_flat_cube (p0 p1 p2 p3 : pt) (ts : list Q) (vs : list pt) (tol K slack : Q) : bool :=
  Nat.eqb (length ts) (length vs) &&
  let l := combine ts vs in
  chk_ends l p0 p3 && chk_pieces (cubeB_f p0 p1 p2 p3) (cube_pb2 p0 p1 p2 p3 (sqr (K * tol))) (sqr (K * tol)) slack l.

(** ** The source's step rule (flattenQuadraticBezier), relational in the square root:
    the code takes t = 2 sqrt(tol |D| / |D x (p2-p0)|) with D = p1-p0; a step t obeys the rule when
    t^4 (D x (p2-p0))^2 <= 16 tol^2 |D|^2 (no larger than the rule's step). *)
Definition step_rule_ok (p0 p1 p2 : pt) (tol t : Q) : Prop :=
  let D := vsub p1 p0 in
  0 <= t /\ t <= 1 /\ sqr (t * t) * sqr (vcross D (vsub p2 p0)) <= 16 * sqr tol * nrm2 D.

(** the tangent turns by at most 90 degrees between the ends of the piece [s,u] *)
Definition quad_turn_le_90 (p0 p1 p2 : pt) (s u : Q) : Prop :=
  0 <= vdot (quad_d1 p0 p1 p2 s) (quad_d1 p0 p1 p2 u).

(** FontSubsetter: .notdef at code 0, stable codes over any history, distinct glyphs get distinct codes,
    List[Get g] = g.  The uint16 wrap of the new code is unreachable: glyph IDs are uint16 values, IDs never
    repeats a glyph, so len(IDs) <= 65536 and every code handed out is < 65536 (pigeonhole, proved below). *)
From Coq Require Import ZArith List Bool Lia Permutation.
From CV Require Import PdfFont.Subset.
Import ListNotations.
Open Scope Z_scope.

Definition nth_id (s : sub) (c : Z) : option Z := nth_error (ids s) (Z.to_nat c).

Record WFsub (s : sub) : Prop := mkWF {
  wf_hd : exists t, ids s = 0 :: t;
  wf_rng : Forall is_u16 (ids s);
  wf_nodup : NoDup (ids s);
  wf_map : forall g c, lookup (idmap s) g = Some c <->
                       (0 <= c < Z.of_nat (length (ids s)) /\ nth_id s c = Some g) }.

(** pigeonhole: a duplicate-free list of uint16 values has at most 65536 elements *)
Lemma u16_nodup_length : forall l, Forall is_u16 l -> NoDup l -> Z.of_nat (length l) <= 65536.
Proof.
  intros l Hr Hn.
  set (N := Z.to_nat 65536).
  assert (Hincl : incl l (map Z.of_nat (seq 0 N))).
  { intros g Hg. rewrite Forall_forall in Hr. specialize (Hr g Hg). unfold is_u16 in Hr.
    apply in_map_iff. exists (Z.to_nat g). split; [lia|]. apply in_seq. unfold N. lia. }
  pose proof (NoDup_incl_length Hn Hincl) as H. rewrite map_length, seq_length in H. unfold N in H. lia.
Qed.

Lemma wf_new : WFsub sub_new.
Proof.
  constructor; cbn [sub_new ids idmap].
  - exists []. reflexivity.
  - constructor; [unfold is_u16; lia|constructor].
  - constructor; [intros []|constructor].
  - intros g c. unfold nth_id. cbn [ids lookup length].
    destruct (Z.eqb_spec 0 g) as [<-|Hne].
    + split.
      * intros H. injection H as <-. split; [lia|reflexivity].
      * intros [Hc Hn]. f_equal. lia.
    + split; [discriminate|]. intros [Hc Hn]. replace c with 0 in Hn by lia. cbn in Hn. congruence.
Qed.

Lemma lookup_in_ids : forall s g c, WFsub s -> lookup (idmap s) g = Some c -> In g (ids s).
Proof.
  intros s g c W H. apply (wf_map s W) in H. destruct H as [_ H]. unfold nth_id in H.
  eapply nth_error_In. exact H.
Qed.

Lemma in_ids_lookup : forall s g, WFsub s -> In g (ids s) -> exists c, lookup (idmap s) g = Some c.
Proof.
  intros s g W H. apply In_nth_error in H. destruct H as [n Hn].
  exists (Z.of_nat n). apply (wf_map s W). unfold nth_id. rewrite Nat2Z.id. split; [|exact Hn].
  assert (n < length (ids s))%nat by (apply nth_error_Some; congruence). lia.
Qed.

(** the code computed for a new glyph never wraps *)
Lemma fresh_no_wrap : forall s g, WFsub s -> is_u16 g -> lookup (idmap s) g = None ->
  Z.of_nat (length (ids s)) < 65536.
Proof.
  intros s g W Hg Hl.
  assert (Hnin : ~ In g (ids s)).
  { intros Hin. destruct (in_ids_lookup s g W Hin) as [c Hc]. congruence. }
  assert (Hn : NoDup (g :: ids s)) by (constructor; [exact Hnin|apply (wf_nodup s W)]).
  assert (Hr : Forall is_u16 (g :: ids s)) by (constructor; [exact Hg|apply (wf_rng s W)]).
  pose proof (u16_nodup_length _ Hr Hn) as H. cbn [length] in H. lia.
Qed.

Lemma wf_get : forall s g, WFsub s -> is_u16 g -> WFsub (fst (sub_get s g)).
Proof.
  intros s g W Hg. unfold sub_get. destruct (lookup (idmap s) g) as [c|] eqn:Hl; [exact W|].
  cbn [fst].
  pose proof (fresh_no_wrap s g W Hg Hl) as Hlen.
  assert (Hnin : ~ In g (ids s)).
  { intros Hin. destruct (in_ids_lookup s g W Hin) as [c Hc]. congruence. }
  assert (Hu : u16 (Z.of_nat (length (ids s))) = Z.of_nat (length (ids s))).
  { unfold u16. apply Z.mod_small. lia. }
  constructor; cbn [ids idmap].
  - destruct (wf_hd s W) as [t Ht]. exists (t ++ [g]). rewrite Ht. reflexivity.
  - apply Forall_app. split; [apply (wf_rng s W)|constructor; [exact Hg|constructor]].
  - eapply Permutation_NoDup; [apply Permutation_cons_append|].
    constructor; [exact Hnin|apply (wf_nodup s W)].
  - intros g' c'. unfold nth_id. cbn [ids lookup]. rewrite Hu. rewrite app_length. cbn [length].
    destruct (Z.eqb_spec g g') as [<-|Hne].
    + split.
      * intros H. injection H as <-. split; [lia|].
        rewrite Nat2Z.id. rewrite nth_error_app2 by lia. rewrite Nat.sub_diag. reflexivity.
      * intros [Hc Hn]. f_equal.
        destruct (Z.lt_ge_cases c' (Z.of_nat (length (ids s)))) as [Hlt|Hge]; [|lia].
        rewrite nth_error_app1 in Hn by lia. exfalso. apply Hnin. eapply nth_error_In. exact Hn.
    + rewrite (wf_map s W g' c'). unfold nth_id. split.
      * intros [Hc Hn]. split; [lia|]. rewrite nth_error_app1 by lia. exact Hn.
      * intros [Hc Hn].
        destruct (Z.lt_ge_cases c' (Z.of_nat (length (ids s)))) as [Hlt|Hge].
        -- rewrite nth_error_app1 in Hn by lia. split; [lia|exact Hn].
        -- exfalso. replace (Z.to_nat c') with (length (ids s)) in Hn by lia.
           rewrite nth_error_app2 in Hn by lia. rewrite Nat.sub_diag in Hn. cbn in Hn. congruence.
Qed.

Lemma wf_run : forall h s, WFsub s -> Forall is_u16 h -> WFsub (fst (sub_run s h)).
Proof.
  induction h as [|g h IH]; intros s W Hh; [exact W|].
  cbn [sub_run]. inversion Hh as [|? ? Hg Hh']; subst.
  pose proof (wf_get s g W Hg) as W1. destruct (sub_get s g) as [s1 c]. cbn [fst] in W1.
  specialize (IH s1 W1 Hh'). destruct (sub_run s1 h) as [s2 cs]. exact IH.
Qed.

Lemma wf_after : forall h, Forall is_u16 h -> WFsub (sub_after h).
Proof. intros h Hh. apply wf_run; [apply wf_new|exact Hh]. Qed.

(** after Get g the map holds g -> returned code *)
Lemma get_lookup : forall s g, lookup (idmap (fst (sub_get s g))) g = Some (snd (sub_get s g)).
Proof.
  intros s g. unfold sub_get. destruct (lookup (idmap s) g) as [c|] eqn:Hl; cbn [fst snd]; [exact Hl|].
  cbn [idmap lookup]. rewrite Z.eqb_refl. reflexivity.
Qed.

(** a mapping, once made, is never changed by later calls (any glyph, any history) *)
Lemma get_keeps : forall s g' g c, lookup (idmap s) g = Some c -> lookup (idmap (fst (sub_get s g'))) g = Some c.
Proof.
  intros s g' g c H. unfold sub_get. destruct (lookup (idmap s) g') as [c'|] eqn:Hl; cbn [fst]; [exact H|].
  cbn [idmap lookup]. destruct (Z.eqb_spec g' g) as [->|_]; [congruence|exact H].
Qed.

Lemma run_keeps : forall h s g c, lookup (idmap s) g = Some c -> lookup (idmap (fst (sub_run s h))) g = Some c.
Proof.
  induction h as [|x h IH]; intros s g c H; [exact H|].
  cbn [sub_run]. pose proof (get_keeps s x g c H) as H1. destruct (sub_get s x) as [s1 c1]. cbn [fst] in H1.
  specialize (IH s1 g c H1). destruct (sub_run s1 h) as [s2 cs]. exact IH.
Qed.

(** ---------- the property ---------- *)

(** .notdef is at code 0, in every reachable state *)
Theorem subset_notdef_zero : forall h, Forall is_u16 h ->
  snd (sub_get (sub_after h) 0) = 0 /\ nth_error (sub_list (sub_after h)) 0 = Some 0.
Proof.
  intros h Hh. split.
  - assert (H : lookup (idmap (sub_after h)) 0 = Some 0) by (apply run_keeps; reflexivity).
    unfold sub_get. rewrite H. reflexivity.
  - destruct (wf_hd _ (wf_after h Hh)) as [t Ht]. unfold sub_list. rewrite Ht. reflexivity.
Qed.

(** stability: the code returned for g after history h1 is returned again after any further history h2 *)
Theorem subset_stable : forall h1 h2 g,
  let s1 := fst (sub_get (sub_after h1) g) in
  snd (sub_get (fst (sub_run s1 h2)) g) = snd (sub_get (sub_after h1) g).
Proof.
  intros h1 h2 g s1.
  pose proof (get_lookup (sub_after h1) g) as H. fold s1 in H.
  pose proof (run_keeps h2 s1 g _ H) as H2.
  unfold sub_get at 1. rewrite H2. reflexivity.
Qed.

(** injectivity: in a reachable state two glyphs mapped to the same code are the same glyph *)
Theorem subset_injective : forall h g1 g2 c, Forall is_u16 h ->
  lookup (idmap (sub_after h)) g1 = Some c -> lookup (idmap (sub_after h)) g2 = Some c -> g1 = g2.
Proof.
  intros h g1 g2 c Hh H1 H2. pose proof (wf_after h Hh) as W.
  apply (wf_map _ W) in H1. apply (wf_map _ W) in H2. destruct H1 as [_ H1]. destruct H2 as [_ H2]. congruence.
Qed.

(** List[Get g] = g, and the code is a uint16 below len(List) *)
Theorem subset_list_get : forall h g, Forall is_u16 h -> is_u16 g ->
  let '(s', c) := sub_get (sub_after h) g in
  nth_error (sub_list s') (Z.to_nat c) = Some g /\ 0 <= c < Z.of_nat (length (sub_list s')) /\ c < 65536.
Proof.
  intros h g Hh Hg.
  pose proof (wf_get _ g (wf_after h Hh) Hg) as W.
  pose proof (get_lookup (sub_after h) g) as H.
  destruct (sub_get (sub_after h) g) as [s' c]. cbn [fst snd] in *.
  apply (wf_map _ W) in H. destruct H as [Hc Hn]. unfold sub_list. split; [exact Hn|]. split; [exact Hc|].
  pose proof (u16_nodup_length _ (wf_rng _ W) (wf_nodup _ W)). lia.
Qed.

(** the four parts together: the statement of the property for the subsetter *)
Theorem subset_stable_injective : forall h, Forall is_u16 h ->
  (snd (sub_get (sub_after h) 0) = 0 /\ nth_error (sub_list (sub_after h)) 0 = Some 0) /\
  (forall g h2, snd (sub_get (fst (sub_run (fst (sub_get (sub_after h) g)) h2)) g) = snd (sub_get (sub_after h) g)) /\
  (forall g1 g2 c, lookup (idmap (sub_after h)) g1 = Some c -> lookup (idmap (sub_after h)) g2 = Some c -> g1 = g2) /\
  (forall g, is_u16 g -> let '(s', c) := sub_get (sub_after h) g in
                         nth_error (sub_list s') (Z.to_nat c) = Some g /\ 0 <= c < Z.of_nat (length (sub_list s')) /\ c < 65536).
Proof.
  intros h Hh. split; [apply subset_notdef_zero; exact Hh|]. split.
  - intros g h2. apply (subset_stable h h2 g).
  - split.
    + intros g1 g2 c. apply subset_injective. exact Hh.
    + intros g Hg. apply subset_list_get; assumption.
Qed.

(** the length bound is what rules the wrap out: the model's code for a 65537th entry WOULD wrap … *)
Example u16_wraps : u16 65536 = 0.
Proof. reflexivity. Qed.
(** … and the hypotheses are satisfiable on a non-trivial history *)
Example subset_example :
  sub_run sub_new [36; 72; 79; 79; 82; 0; 36] = (mkSub [0; 36; 72; 79; 82] [(82, 4); (79, 3); (72, 2); (36, 1); (0, 0)], [1; 2; 3; 3; 4; 0; 1]).
Proof. vm_compute. reflexivity. Qed.

// c20: determinism / race harness for C20.
//
// A fixed list of jobs (boolean operations, Settle, Stroke, Offset, Flatten, Dash on generated paths; text
// layout with one shared font face; font loading incl. a font without name records; rendering of distinct
// canvases to SVG/PDF/PS) is run (A) sequentially in order, (B) sequentially in a shuffled order with pool
// pollution by unrelated boolean operations in between, (C) concurrently from G goroutines. Every job must
// return byte-identical results in A, B and C. Built with -race in the thorough tier.
package main

import (
	"sync/atomic"
	"time"
	"strings"
	"bytes"
	"crypto/sha256"
	"encoding/binary"
	"encoding/hex"
	"encoding/json"
	"flag"
	"fmt"
	"image"
	"image/color"
	"os"
	"regexp"
	"sync"

	"github.com/tdewolff/canvas"
	"github.com/tdewolff/canvas/renderers/pdf"
	"github.com/tdewolff/canvas/renderers/ps"
	"github.com/tdewolff/canvas/renderers/svg"

	"verifharness/internal/gen"
	"verifharness/internal/rng"
)

type job struct {
	Name string
	Run  func() []byte
}

func build(ip gen.IPoly, dx int, closeAll bool) *canvas.Path {
	p := &canvas.Path{}
	s := ip.Scale
	for _, c := range ip.Contours {
		p.MoveTo(float64(c[0].X+dx)*s, float64(c[0].Y)*s)
		for _, v := range c[1:] {
			p.LineTo(float64(v.X+dx)*s, float64(v.Y)*s)
		}
		if closeAll {
			p.Close()
		}
	}
	return p
}

var dateRe = regexp.MustCompile(`(CreationDate|ModDate)[^\n]*`)

// Embedded font programs carry the time at which they were written (head.modified, set by the font library),
// so compressed font streams, their Length, the xref offsets behind them and base64 font data in SVG are
// dropped before comparing; everything else (content streams are written uncompressed) is compared bytewise.
var flateRe = regexp.MustCompile(`(?s)<<[^<>]*FlateDecode[^<>]*>>\s*stream.*?endstream`)
var xrefRe = regexp.MustCompile(`(?s)xref\n.*$`)
var dataRe = regexp.MustCompile(`url\(["']?data:[^)]*\)`)

func normPDF(b []byte) []byte {
	b = dateRe.ReplaceAll(b, []byte("DATE"))
	b = flateRe.ReplaceAll(b, []byte("FLATESTREAM"))
	return xrefRe.ReplaceAll(b, []byte("XREF"))
}

func safe(f func() []byte) (out []byte) {
	defer func() {
		if r := recover(); r != nil {
			out = []byte(fmt.Sprint("PANIC: ", r))
		}
	}()
	return f()
}

// unnamed removes the name records 1, 4 and 6 of an SFNT font (by renumbering them)
func unnamed(b []byte) []byte {
	b = append([]byte{}, b...)
	n := int(binary.BigEndian.Uint16(b[4:]))
	for i := 0; i < n; i++ {
		rec := b[12+16*i:]
		if string(rec[:4]) == "name" {
			off := int(binary.BigEndian.Uint32(rec[8:]))
			cnt := int(binary.BigEndian.Uint16(b[off+2:]))
			for k := 0; k < cnt; k++ {
				r := b[off+6+12*k:]
				id := binary.BigEndian.Uint16(r[6:])
				if id == 1 || id == 4 || id == 6 {
					binary.BigEndian.PutUint16(r[6:], 300)
				}
			}
		}
	}
	return b
}

func main() {
	seed := flag.Uint64("seed", 1, "")
	n := flag.Int("n", 60, "number of geometry inputs")
	G := flag.Int("g", 8, "goroutines")
	repo := flag.String("repo", "/repo", "")
	stress := flag.Float64("stress", 0, "seconds of concurrent stress on the sweep-line jobs")
	SG := flag.Int("sg", 48, "goroutines of the stress phase")
	flag.Parse()
	root := rng.New(*seed)

	fontBytes, err := os.ReadFile(*repo + "/resources/DejaVuSerif.ttf")
	if err != nil {
		fmt.Println(`{"error":"cannot read font"}`)
		os.Exit(2)
	}
	shared, err := canvas.LoadFont(fontBytes, 0, canvas.FontRegular)
	if err != nil {
		fmt.Println(`{"error":"cannot load font"}`)
		os.Exit(2)
	}
	family := canvas.NewFontFamily("dejavu")
	if err := family.LoadFont(fontBytes, 0, canvas.FontRegular); err != nil {
		os.Exit(2)
	}
	_ = shared
	noname := unnamed(fontBytes)

	var jobs []job
	add := func(name string, f func() []byte) { jobs = append(jobs, job{name, func() []byte { return safe(f) }}) }
	texts := []string{"The quick brown fox jumps over the lazy dog, twice and thrice.", "Lorem ipsum dolor sit amet, consectetur adipiscing elit. Sed non risus.", "a­b­c soft hy­phens and\nnewlines", "שלום עולם mixed with latin"}
	for i := 0; i < *n; i++ {
		r := root.Fork(uint64(i))
		ipP, ipQ := gen.Poly(r), gen.Poly(r)
		ipQ.Scale = ipP.Scale
		P, Q := build(ipP, 0, true), build(ipQ, r.Range(-2, 2), true)
		O := build(ipP, 0, false)
		id := fmt.Sprintf("%d", i)
		switch i % 6 {
		case 0:
			add("and-"+id, func() []byte { return []byte(P.Copy().And(Q.Copy()).String()) })
			add("xor-"+id, func() []byte { return []byte(P.Copy().Xor(Q.Copy()).String()) })
		case 1:
			add("or-"+id, func() []byte { return []byte(P.Copy().Or(Q.Copy()).String()) })
			add("not-"+id, func() []byte { return []byte(P.Copy().Not(Q.Copy()).String()) })
		case 2:
			add("settle-"+id, func() []byte { return []byte(P.Copy().Settle(canvas.EvenOdd).String()) })
			add("flatten-dash-"+id, func() []byte {
				c := canvas.Circle(float64(3 + i%5)).Translate(1, 2)
				return []byte(c.Flatten(0.01).String() + "|" + O.Dash(0.5, 1, 0.5, 2).String())
			})
		case 3:
			add("stroke-"+id, func() []byte {
				return []byte(O.Stroke(0.75, canvas.RoundCap, canvas.RoundJoin, 0.01).String())
			})
		case 4:
			add("offset-"+id, func() []byte { return []byte(P.Offset(0.5, 0.01).String()) })
			w := 30.0 + float64(i%7)*11
			txt := texts[i%len(texts)]
			add("text-"+id, func() []byte {
				face := family.Face(10.0+float64(i%3), canvas.Black, canvas.FontRegular, canvas.FontNormal)
				t := canvas.NewTextBox(face, txt, w, 0, canvas.Justify, canvas.Top, 0, 0)
				var b bytes.Buffer
				t.WalkSpans(func(x, y float64, span canvas.TextSpan) {
					fmt.Fprintf(&b, "%v %v %v %q;", x, y, span.Width, span.Text)
				})
				fmt.Fprintf(&b, "%v", t.Bounds())
				return b.Bytes()
			})
		default:
			for _, subset := range []bool{false, true} {
				subset := subset
				name := "render-fullfont-"
				if subset {
					name = "render-subsetfont-"
				}
				add(name+id, func() []byte {
					c := canvas.New(100, 80)
					ctx := canvas.NewContext(c)
					ctx.SetFillColor(canvas.Red)
					ctx.SetStrokeColor(canvas.Blue)
					ctx.SetStrokeWidth(0.5)
					ctx.DrawPath(10, 10, P.Copy().Scale(0.5, 0.5))
					face := family.Face(8.0, canvas.Black, canvas.FontRegular, canvas.FontNormal)
					ctx.DrawText(20, 40, canvas.NewTextLine(face, texts[i%len(texts)], canvas.Left))
					var out bytes.Buffer
					var b bytes.Buffer
					so := svg.DefaultOptions
					so.EmbedFonts = subset // embedding writes the font program; without subsetting it is the whole file
					so.SubsetFonts = subset
					c.RenderTo(svg.New(&b, 100, 80, &so))
					out.Write(dataRe.ReplaceAll(b.Bytes(), []byte("FONTDATA")))
					b.Reset()
					pw := pdf.New(&b, 100, 80, &pdf.Options{Compress: false, SubsetFonts: subset})
					c.RenderTo(pw)
					pw.Close()
					out.Write(normPDF(b.Bytes()))
					b.Reset()
					c.RenderTo(ps.New(&b, 100, 80, nil))
					out.Write(dateRe.ReplaceAll(b.Bytes(), []byte("DATE")))
					return out.Bytes()
				})
			}
			add("loadfont-"+id, func() []byte {
				f, err := canvas.LoadFont(fontBytes, 0, canvas.FontRegular)
				if err != nil {
					return []byte(err.Error())
				}
				return []byte(f.Name())
			})
			add("loadfont-unnamed-"+id, func() []byte {
				f, err := canvas.LoadFont(noname, 0, canvas.FontRegular)
				if err != nil {
					return []byte(err.Error())
				}
				return []byte(f.Name())
			})
		}
	}

	// shared inputs: dash patterns held in package-level style slices with spare capacity (a first or last zero, odd lengths, interior
	// zeros: every branch of dashCanonical), used by several jobs and printed with the result; a caller's array must stay untouched
	sharedPats := [][]float64{{0, 1, 2, 3}, {1, 2, 0}, {0, 1, 2}, {1, 0.5, 2}, {0, 2, 1, 0}, {1, 0, 0.5, 2}, {2, 1}}
	for k := range sharedPats {
		sp := make([]float64, len(sharedPats[k]), 16)
		copy(sp, sharedPats[k])
		sharedPats[k] = sp
	}
	line := canvas.MustParseSVGPath("M0 0L40 0L40 30")
	for k := range sharedPats {
		k := k
		for rep := 0; rep < 2; rep++ {
			add(fmt.Sprintf("dash-shared-pattern-%d-%d", k, rep), func() []byte {
				pat := sharedPats[k]
				q := line.Dash(0.25, pat...)
				return []byte(fmt.Sprint(pat, pat[:cap(pat)][len(pat):len(pat)+2]) + "|" + q.String())
			})
		}
	}
	// renderers created with nil options must not share state: one job changes its renderer's image encoding, the others do not
	img := image.NewRGBA(image.Rect(0, 0, 4, 3))
	for k := 0; k < 12; k++ {
		img.Set(k%4, k/4, color.RGBA{uint8(20 * k), uint8(255 - 20*k), 7, 255})
	}
	imgCanvas := func() *canvas.Canvas {
		c := canvas.New(40, 30)
		ctx := canvas.NewContext(c)
		ctx.DrawImage(5, 5, img, canvas.DPMM(1))
		return c
	}
	for k := 0; k < 6; k++ {
		lossy := k == 2 || k == 4
		add(fmt.Sprintf("nil-options-image-%d", k), func() []byte {
			var out, b bytes.Buffer
			pw := pdf.New(&b, 40, 30, nil)
			if lossy {
				pw.SetImageEncoding(canvas.Lossy)
			}
			imgCanvas().RenderTo(pw)
			pw.Close()
			out.WriteString(fmt.Sprint(bytes.Contains(b.Bytes(), []byte("DCTDecode")), ";"))
			b.Reset()
			sw := svg.New(&b, 40, 30, nil)
			if lossy {
				sw.SetImageEncoding(canvas.Lossy)
			}
			imgCanvas().RenderTo(sw)
			sw.Close()
			out.WriteString(fmt.Sprint(bytes.Contains(b.Bytes(), []byte("image/jpeg"))))
			return out.Bytes()
		})
	}

	// a face must not depend on what was asked of its family earlier: a style that is not loaded is requested, then a closer font is
	// loaded, then the style is requested again; a family that had both fonts from the start must hand out the same face
	describe := func(f *canvas.FontFace) string {
		return fmt.Sprintf("%s style=%v fauxBold=%.4f fauxItalic=%.4f size=%.3f", f.Font.Name(), f.Style, f.FauxBold, f.FauxItalic, f.Size)
	}
	for k, want := range []canvas.FontStyle{canvas.FontBold, canvas.FontExtraBold, canvas.FontBold | canvas.FontItalic, canvas.FontLight} {
		want := want
		add(fmt.Sprintf("family-history-%d", k), func() []byte {
			a := canvas.NewFontFamily("hist")
			if err := a.LoadFont(fontBytes, 0, canvas.FontRegular); err != nil {
				return []byte(err.Error())
			}
			first := describe(a.Face(10, canvas.Black, want, canvas.FontNormal))
			if err := a.LoadFont(noname, 0, canvas.FontBold); err != nil {
				return []byte(err.Error())
			}
			second := describe(a.Face(10, canvas.Black, want, canvas.FontNormal))
			b := canvas.NewFontFamily("hist")
			b.LoadFont(fontBytes, 0, canvas.FontRegular)
			b.LoadFont(noname, 0, canvas.FontBold)
			fresh := describe(b.Face(10, canvas.Black, want, canvas.FontNormal))
			res := "first: " + first + " | after loading a bold font: " + second + " | fresh family with both: " + fresh
			if second != fresh {
				res = "HISTORY-MISMATCH " + res
			}
			return []byte(res)
		})
	}

	// two families that load the same font FILE must not share state: the second one changes its name and features
	fontPath := *repo + "/resources/DejaVuSerif.ttf"
	add("fontfile-history-0", func() []byte {
		a := canvas.NewFontFamily("serif-a")
		if err := a.LoadFontFile(fontPath, canvas.FontRegular); err != nil {
			return []byte(err.Error())
		}
		fa := a.Face(10, canvas.Black)
		before := fmt.Sprintf("%s %.6f", fa.Name(), fa.TextWidth("AVATAR To WAVE"))
		b := canvas.NewFontFamily("serif-b")
		if err := b.LoadFontFile(fontPath, canvas.FontRegular); err != nil {
			return []byte(err.Error())
		}
		b.SetFeatures("-kern")
		_ = b.Face(10, canvas.Black).TextWidth("AVATAR To WAVE")
		fa2 := a.Face(10, canvas.Black)
		after := fmt.Sprintf("%s %.6f", fa2.Name(), fa2.TextWidth("AVATAR To WAVE"))
		res := "family a before: " + before + " | after family b loaded the same file and switched kerning off: " + after
		if before != after {
			res = "HISTORY-MISMATCH " + res
		}
		return []byte(res)
	})
	// the system font list installed LAST answers a look-up, whatever was looked up before
	add("systemfont-history-0", func() []byte {
		tmp, err := os.MkdirTemp("", "verif-c20-")
		if err != nil {
			return []byte(err.Error())
		}
		defer os.RemoveAll(tmp)
		var found []string
		for _, sub := range []string{"fonts-a", "fonts-b"} {
			dir := tmp + "/" + sub
			os.MkdirAll(dir, 0o755)
			os.WriteFile(dir+"/DejaVuSerif.ttf", fontBytes, 0o644)
			if err := canvas.CacheSystemFonts(tmp+"/"+sub+".cache", []string{dir}); err != nil {
				return []byte(err.Error())
			}
			fn, ok := canvas.FindSystemFont("DejaVu Serif", canvas.FontRegular)
			found = append(found, fmt.Sprintf("%v:%v", ok, strings.HasPrefix(fn, dir+"/")))
		}
		res := "look-ups after installing list a, then list b (found:in the installed directory): " + strings.Join(found, " ")
		if found[0] != "true:true" || found[1] != "true:true" {
			res = "HISTORY-MISMATCH " + res
		}
		return []byte(res)
	})

	hash := func(b []byte) string { h := sha256.Sum256(b); return hex.EncodeToString(h[:8]) }
	// A: sequential, in order
	A := make([][]byte, len(jobs))
	for i, j := range jobs {
		A[i] = j.Run()
	}
	// B: shuffled order with pollution of the pools in between
	B := make([][]byte, len(jobs))
	perm := make([]int, len(jobs))
	for i := range perm {
		perm[i] = i
	}
	pr := root.Fork(999999)
	for i := len(perm) - 1; i > 0; i-- {
		k := pr.Intn(i + 1)
		perm[i], perm[k] = perm[k], perm[i]
	}
	for _, i := range perm {
		pp := build(gen.Poly(pr), 0, true)
		safe(func() []byte { pp.Settle(canvas.NonZero); pp.Or(pp.Copy().Translate(0.5, 0.25)); return nil })
		B[i] = jobs[i].Run()
	}
	// C: concurrently
	C := make([][]byte, len(jobs))
	var wg sync.WaitGroup
	ch := make(chan int, len(jobs))
	for _, i := range perm {
		ch <- i
	}
	close(ch)
	for g := 0; g < *G; g++ {
		wg.Add(1)
		go func() {
			defer wg.Done()
			for i := range ch {
				C[i] = jobs[i].Run()
			}
		}()
	}
	wg.Wait()

	type mm struct {
		Job, Phase, A, Other string
	}
	var mism []mm
	// D: stress — the sweep-line jobs (boolean operations, Settle, Stroke, Offset: they share the pooled sweep objects) again and
	// again from many goroutines at once for a fixed wall time; every result must equal the one of phase A
	var geo []int
	for i, j := range jobs {
		for _, pre := range []string{"and-", "xor-", "or-", "not-", "settle-", "stroke-", "offset-", "text-", "family-history-"} {
			if strings.HasPrefix(j.Name, pre) {
				geo = append(geo, i)
			}
		}
	}
	stressRuns := int64(0)
	if len(geo) > 0 && *stress > 0 {
		deadline := time.Now().Add(time.Duration(*stress * float64(time.Second)))
		var mu sync.Mutex
		var wg2 sync.WaitGroup
		for g := 0; g < *SG; g++ {
			wg2.Add(1)
			go func(g int) {
				defer wg2.Done()
				for k := g; time.Now().Before(deadline); k += 7 {
					i := geo[k%len(geo)]
					out := jobs[i].Run()
					atomic.AddInt64(&stressRuns, 1)
					if !bytes.Equal(A[i], out) {
						a, b := diffCtx(A[i], out)
						mu.Lock()
						if len(mism) < 20 {
							mism = append(mism, mm{jobs[i].Name, "concurrent-stress", a, b})
						}
						mu.Unlock()
					}
				}
			}(g)
		}
		wg2.Wait()
	}
	kinds := map[string]int{}
	nontrivial := 0
	panics := 0
	for i, j := range jobs {
		k := j.Name[:len(j.Name)-len(fmt.Sprintf("-%s", j.Name[bytes.LastIndexByte([]byte(j.Name), '-')+1:]))]
		kinds[k]++
		if len(A[i]) > 8 {
			nontrivial++
		}
		if bytes.HasPrefix(A[i], []byte("PANIC")) {
			panics++
		}
		if bytes.HasPrefix(A[i], []byte("HISTORY-MISMATCH")) {
			mism = append(mism, mm{j.Name, "same-call-after-other-calls-on-the-same-family", trunc(A[i]), ""})
		}
		if !bytes.Equal(A[i], B[i]) {
			a, b := diffCtx(A[i], B[i])
			mism = append(mism, mm{j.Name, "sequential-after-other-calls", a, b})
		}
		if !bytes.Equal(A[i], C[i]) {
			a, b := diffCtx(A[i], C[i])
			mism = append(mism, mm{j.Name, "concurrent", a, b})
		}
	}
	var samples []string
	for i := 0; i < len(jobs) && i < 3; i++ {
		samples = append(samples, jobs[i].Name+": "+hash(A[i])+" "+trunc(A[i]))
	}
	json.NewEncoder(os.Stdout).Encode(map[string]interface{}{"jobs": len(jobs), "goroutines": *G, "kinds": kinds, "nontrivial": nontrivial, "panics_same_in_all_phases": panics, "mismatches": mism, "samples": samples, "stress_runs": stressRuns, "stress_goroutines": *SG})
}

func trunc(b []byte) string {
	if len(b) > 160 {
		return string(b[:160]) + "..."
	}
	return string(b)
}

// diffCtx returns the surroundings of the first differing byte
func diffCtx(a, b []byte) (string, string) {
	k := 0
	for k < len(a) && k < len(b) && a[k] == b[k] {
		k++
	}
	lo := k - 60
	if lo < 0 {
		lo = 0
	}
	cut := func(x []byte) string {
		hi := k + 100
		if hi > len(x) {
			hi = len(x)
		}
		return fmt.Sprintf("@%d len=%d: %q", k, len(x), x[lo:hi])
	}
	return cut(a), cut(b)
}

(** builder_wf: for EVERY sequence of builder calls the faithful raw-data model (variant [Fixed]) never
    indexes out of range and its data is the encoding of a well-formed structural path.
    The original LineTo ([Orig]) is refuted by a concrete witness. *)
From Coq Require Import ZArith QArith Qabs List Bool Lia Lqa.
From CV Require Import PathEnc.Enc PathEnc.EncProofs PathEnc.Builder.
Import ListNotations.
Open Scope Q_scope.

(** reversed encoding of a reversed segment list (last segment first) *)
Definition renc_seg (s : seg) : list num :=
  match s with
  | SM (x, y) => [vM; y; x; vM]
  | SL (x, y) => [vL; y; x; vL]
  | SQ (cx, cy) (x, y) => [vQ; y; x; cy; cx; vQ]
  | SC (ax, ay) (bx, by_) (x, y) => [vC; y; x; by_; bx; ay; ax; vC]
  | SA rx ry phi fl (x, y) => [vA; y; x; fl; phi; ry; rx; vA]
  | SZ (x, y) => [vZ; y; x; vZ]
  end.

Fixpoint renc (rs : list seg) : list num :=
  match rs with [] => [] | s :: r => renc_seg s ++ renc r end.

Lemma renc_seg_rev : forall s, renc_seg s = rev (enc_seg s).
Proof. destruct s as [[x y]|[x y]|[cx cy] [x y]|[ax ay] [bx by_] [x y]|rx ry phi fl [x y]|[x y]]; reflexivity. Qed.

Lemma renc_rev : forall rs, renc rs = rev (encode (rev rs)).
Proof.
  induction rs as [|s r IH]; [reflexivity|].
  cbn [renc rev]. rewrite encode_app, rev_app_distr. cbn [encode]. rewrite app_nil_r, <- renc_seg_rev, IH. reflexivity.
Qed.

(** scan state and well-formedness on the reversed list *)
Fixpoint st_of (rs : list seg) : wstate :=
  match rs with [] => None | s :: r => seg_next (st_of r) s end.

Fixpoint wfr (rs : list seg) : bool :=
  match rs with [] => true | s :: r => seg_ok (st_of r) s && wfr r end.

Lemma wf_from_snoc : forall l st s,
  wf_from st (l ++ [s]) = wf_from st l && seg_ok (fold_left seg_next l st) s.
Proof.
  induction l as [|a l IH]; intros st s; cbn [app wf_from fold_left].
  - rewrite andb_true_r. reflexivity.
  - rewrite IH, andb_assoc. reflexivity.
Qed.

Lemma st_of_fold : forall rs, st_of rs = fold_left seg_next (rev rs) None.
Proof.
  induction rs as [|s r IH]; [reflexivity|].
  cbn [st_of rev]. rewrite fold_left_app. cbn [fold_left]. rewrite IH. reflexivity.
Qed.

Lemma wfr_wf : forall rs, wfr rs = wf (rev rs).
Proof.
  induction rs as [|s r IH]; [reflexivity|].
  cbn [wfr rev]. unfold wf in *. rewrite wf_from_snoc, <- st_of_fold, IH. apply andb_comm.
Qed.

(** pen position and subpath start read off the structural list *)
Definition cur_of (rs : list seg) : pt := match rs with [] => (0, 0) | s :: _ => seg_end s end.
Fixpoint sp_of (rs : list seg) : pt :=
  match rs with [] => (0, 0) | SM p :: _ => p | _ :: r => sp_of r end.

Lemma pos_renc : forall rs, pos (renc rs) = Some (cur_of rs).
Proof.
  destruct rs as [|s r]; [reflexivity|].
  destruct s as [[x y]|[x y]|[cx cy] [x y]|[ax ay] [bx by_] [x y]|rx ry phi fl [x y]|[x y]]; reflexivity.
Qed.

Lemma is_cmd_val : forall a b, is_cmd a (cmdval b) = (cmdZ a =? cmdZ b)%Z.
Proof. destruct a, b; vm_compute; reflexivity. Qed.

Lemma startpos_renc : forall rs, startpos (renc rs) = Some (sp_of rs).
Proof.
  unfold startpos. induction rs as [|s r IH]; [reflexivity|].
  destruct s as [[x y]|[x y]|[cx cy] [x y]|[ax ay] [bx by_] [x y]|rx ry phi fl [x y]|[x y]];
    cbn [renc renc_seg app sp_of]; unfold vM, vL, vQ, vC, vA, vZ;
    cbn [startpos_skip]; rewrite is_cmd_val; cbn [cmdZ Z.eqb Pos.eqb]; try reflexivity;
    rewrite cmdLen_table; cbn [reclen startpos_skip]; exact IH.
Qed.

Lemma st_cur : forall rs s0 c, st_of rs = Some (s0, c) -> c = cur_of rs.
Proof.
  destruct rs as [|s r]; cbn [st_of]; [discriminate|]. intros s0 c.
  destruct s; cbn [seg_next cur_of seg_end]; destruct (st_of r) as [[a b]|]; intro H; inversion H; reflexivity.
Qed.

Lemma st_start : forall rs s0 c, st_of rs = Some (s0, c) -> s0 = sp_of rs.
Proof.
  induction rs as [|s r IH]; cbn [st_of]; [discriminate|]. intros s0 c.
  destruct s; cbn [seg_next sp_of]; destruct (st_of r) as [[a b]|] eqn:E; intro H; inversion H; subst;
    try reflexivity; eapply IH; reflexivity.
Qed.

(** a well-formed reversed list whose head is neither a close nor absent is inside a subpath *)
Lemma st_some : forall s r, wfr (s :: r) = true -> (forall p, s <> SZ p) -> exists s0, st_of (s :: r) = Some (s0, seg_end s).
Proof.
  intros s r H NZ. cbn [wfr] in H. apply andb_true_iff in H. destruct H as [H _].
  cbn [st_of]. destruct s; cbn [seg_ok seg_next seg_end] in *; try (eexists; reflexivity);
    try (destruct (st_of r) as [[a b]|]; [eexists; reflexivity|discriminate]).
  exfalso. eapply NZ. reflexivity.
Qed.

(** small facts on the boolean point equality *)
Lemma Qeq_bool_sym : forall a b, Qeq_bool a b = Qeq_bool b a.
Proof.
  intros a b. destruct (Qeq_bool a b) eqn:E1, (Qeq_bool b a) eqn:E2; try reflexivity.
  - apply Qeq_bool_iff in E1. symmetry in E1. apply Qeq_bool_iff in E1. congruence.
  - apply Qeq_bool_iff in E2. symmetry in E2. apply Qeq_bool_iff in E2. congruence.
Qed.
Lemma pt_eqb_sym : forall a b, pt_eqb a b = pt_eqb b a.
Proof. intros a b. unfold pt_eqb. rewrite (Qeq_bool_sym (fst a)), (Qeq_bool_sym (snd a)). reflexivity. Qed.
Lemma pt_eqb_refl : forall a, pt_eqb a a = true.
Proof. intro a. unfold pt_eqb. rewrite !Qeq_bool_refl. reflexivity. Qed.

(** the invariant *)
Definition Inv (rd : list num) : Prop := exists rs, rd = renc rs /\ wfr rs = true.

Lemma Inv_nil : Inv [].
Proof. exists []. split; reflexivity. Qed.

(** MoveTo *)
Definition move_rs (p : pt) (rs : list seg) : list seg :=
  match rs with SM _ :: r => SM p :: r | _ => SM p :: rs end.

Lemma move_to_renc : forall x y rs, move_to x y (renc rs) = Some (renc (move_rs (x, y) rs)).
Proof.
  intros x y rs. destruct rs as [|s r]; [reflexivity|].
  destruct s as [[a b]|[a b]|[cx cy] [a b]|[ax ay] [bx by_] [a b]|rx ry phi fl [a b]|[a b]];
    cbn [renc renc_seg app move_to move_rs]; unfold vM, vL, vQ, vC, vA, vZ; rewrite is_cmd_val; reflexivity.
Qed.

Lemma move_rs_wfr : forall p rs, wfr rs = true -> wfr (move_rs p rs) = true.
Proof.
  intros p rs H. destruct rs as [|s r]; [reflexivity|].
  destruct s; cbn [move_rs wfr seg_ok] in *; try exact H.
Qed.

Lemma move_rs_st : forall p rs, st_of (move_rs p rs) = Some (p, p).
Proof. intros p rs. destruct rs as [|s r]; [reflexivity|]. destruct s; reflexivity. Qed.

(** implicit MoveTo *)
Definition imp_rs (rs : list seg) : list seg :=
  match rs with [] => [SM (0, 0)] | SZ p :: _ => SM p :: rs | _ => rs end.

Lemma implicit_move_renc : forall rs, implicit_move (renc rs) = Some (renc (imp_rs rs)).
Proof.
  intros rs. destruct rs as [|s r]; [reflexivity|].
  destruct s as [[a b]|[a b]|[cx cy] [a b]|[ax ay] [bx by_] [a b]|rx ry phi fl [a b]|[a b]];
    cbn [renc renc_seg app implicit_move imp_rs]; unfold vM, vL, vQ, vC, vA, vZ; rewrite is_cmd_val;
    cbn [cmdZ Z.eqb Pos.eqb]; try reflexivity.
Qed.

Lemma imp_rs_ok : forall rs, wfr rs = true ->
  wfr (imp_rs rs) = true /\ exists s0, st_of (imp_rs rs) = Some (s0, cur_of rs).
Proof.
  intros rs H. destruct rs as [|s r].
  - split; [reflexivity|]. eexists; reflexivity.
  - destruct s as [p|p|c p|c1 c2 p|rx ry phi fl p|p]; cbn [imp_rs];
      try (split; [exact H|]; apply st_some; [exact H|intros q E; discriminate]).
Qed.

(** appending one record after the implicit move *)
Lemma append_record : forall rs s,
  wfr rs = true ->
  (forall s0, seg_ok (Some (s0, cur_of rs)) s = true) ->
  Inv (renc_seg s ++ renc (imp_rs rs)).
Proof.
  intros rs s H Hok. destruct (imp_rs_ok rs H) as [Hw [s0 Hs]].
  exists (s :: imp_rs rs). split; [reflexivity|].
  cbn [wfr]. rewrite Hs, Hok, Hw. reflexivity.
Qed.

(** arithmetic core of the merge: a line that extends the previous one does not come back to its start *)
Lemma Qltb_lt : forall a b, Qltb a b = true <-> a < b.
Proof.
  intros a b. unfold Qltb. rewrite negb_true_iff. split; intro H.
  - apply Qnot_le_lt. intro C. apply Qle_bool_iff in C. congruence.
  - destruct (Qle_bool b a) eqn:E; [|reflexivity]. apply Qle_bool_iff in E. exfalso. apply (Qlt_not_le _ _ H E).
Qed.
Lemma Qltb_ge : forall a b, Qltb a b = false <-> b <= a.
Proof.
  intros a b. unfold Qltb. rewrite negb_false_iff. apply Qle_bool_iff.
Qed.

Lemma signbit_neg : forall a, ~ a == 0 -> Bool.eqb (signbit a) (signbit (- a)) = false.
Proof.
  intros a Ha. unfold signbit.
  destruct (Qltb a 0) eqn:E1, (Qltb (- a) 0) eqn:E2; try reflexivity; exfalso.
  - apply Qltb_lt in E1. apply Qltb_lt in E2. lra.
  - apply Qltb_ge in E1. apply Qltb_ge in E2. apply Ha. lra.
Qed.

Lemma signbit_ext : forall a b, a == b -> signbit a = signbit b.
Proof.
  intros a b H. unfold signbit.
  destruct (Qltb a 0) eqn:E1, (Qltb b 0) eqn:E2; try reflexivity; exfalso.
  - apply Qltb_lt in E1. apply Qltb_ge in E2. lra.
  - apply Qltb_ge in E1. apply Qltb_lt in E2. lra.
Qed.

Lemma Qabs_le0_inv : forall a, Qabs a <= 0 -> a == 0.
Proof.
  intros a H. pose proof (Qle_Qabs a) as P1. pose proof (Qle_Qabs (- a)) as P2.
  rewrite Qabs_opp in P2. lra.
Qed.

Lemma extends_not_back : forall dax day dbx dby,
  negb (is0 (dax, day)) = true ->
  dbx == - dax -> dby == - day ->
  extends Fixed (dax, day) (dbx, dby) = false.
Proof.
  intros dax day dbx dby Hn Hx Hy. unfold extends. cbn [fst snd].
  rewrite (signbit_ext dbx (- dax) Hx), (signbit_ext dby (- day) Hy).
  unfold is0 in Hn. cbn [fst snd] in Hn. apply negb_true_iff in Hn.
  unfold Qabs_ltb. destruct (Qltb (Qabs day) (Qabs dax)) eqn:E.
  - apply signbit_neg. intro C. apply Qltb_lt in E.
    assert (A : Qabs dax == 0) by (rewrite C; reflexivity).
    pose proof (Qabs_nonneg day). lra.
  - apply signbit_neg. intro C. apply Qltb_ge in E.
    assert (A : Qabs day == 0) by (rewrite C; reflexivity).
    assert (D : dax == 0) by (apply Qabs_le0_inv; lra).
    apply andb_false_iff in Hn. destruct Hn as [Hn|Hn].
    + assert (Qeq_bool dax 0 = true) by (apply Qeq_bool_iff; assumption). congruence.
    + assert (Qeq_bool day 0 = true) by (apply Qeq_bool_iff; assumption). congruence.
Qed.

(** ------------------------------------------------------------------------------------------------
    every call preserves the invariant and does not panic *)
Lemma prev_start_renc : forall rs, prev_start (renc rs) = Some (cur_of rs).
Proof.
  destruct rs as [|s r]; [reflexivity|].
  destruct s as [[x y]|[x y]|[cx cy] [x y]|[ax ay] [bx by_] [x y]|rx ry phi fl [x y]|[x y]]; reflexivity.
Qed.

Definition Ok (res : option (list num)) : Prop := exists rd', res = Some rd' /\ Inv rd'.

Lemma Ok_same : forall rs, wfr rs = true -> Ok (Some (renc rs)).
Proof. intros rs H. eexists; split; [reflexivity|]. exists rs; auto. Qed.

Lemma pt_eqb_true : forall a b, pt_eqb a b = true -> fst a == fst b /\ snd a == snd b.
Proof. intros a b H. unfold pt_eqb in H. apply andb_true_iff in H. destruct H as [H1 H2]. split; apply Qeq_bool_iff; assumption. Qed.

Lemma line_to_inv : forall x y rd, Inv rd -> Ok (line_to Fixed x y rd).
Proof.
  intros x y rd [rs [-> Hw]].
  unfold line_to. rewrite pos_renc.
  destruct (pt_eqb (cur_of rs) (x, y)) eqn:Ee; [apply Ok_same; exact Hw|].
  rewrite implicit_move_renc.
  assert (App : Ok (Some (vL :: y :: x :: vL :: renc (imp_rs rs)))).
  { eexists; split; [reflexivity|]. apply (append_record rs (SL (x, y))); [exact Hw|].
    intro s0. cbn [seg_ok]. rewrite pt_eqb_sym, Ee. reflexivity. }
  destruct rs as [|s r]; [exact App|].
  destruct s as [[a b]|[a b]|[cx cy] [a b]|[ax ay] [bx by_] [a b]|rx ry phi fl [a b]|[a b]];
    cbn [renc renc_seg app]; unfold vM, vL, vQ, vC, vA, vZ in *; rewrite is_cmd_val; cbn [cmdZ Z.eqb Pos.eqb];
    try exact App.
  rewrite prev_start_renc. cbn [cur_of seg_end].
  match goal with |- Ok (if ?c then _ else _) => destruct c eqn:Ec end; [|exact App].
  apply andb_true_iff in Ec. destruct Ec as [Ec Eext]. apply andb_true_iff in Ec. destruct Ec as [_ En0].
  eexists; split; [reflexivity|]. exists (SL (x, y) :: r). split; [reflexivity|].
  cbn [wfr] in Hw |- *. apply andb_true_iff in Hw. destruct Hw as [Hok Hr]. rewrite Hr, andb_true_r.
  destruct (st_of r) as [[s0 c]|] eqn:Es; cbn [seg_ok] in Hok |- *; [|discriminate].
  pose proof (st_cur r s0 c Es) as Hc. subst c.
  destruct (pt_eqb (x, y) (cur_of r)) eqn:Eb; [|reflexivity]. exfalso.
  apply pt_eqb_true in Eb. cbn [fst snd] in Eb. destruct Eb as [Ex Ey].
  unfold psub in Eext, En0. cbn [fst snd] in Eext, En0.
  rewrite extends_not_back in Eext; [discriminate|exact En0| |]; lra.
Qed.

Lemma quad_to_inv : forall cx cy x y rd, Inv rd -> Ok (quad_to Fixed cx cy x y rd).
Proof.
  intros cx cy x y rd HI. pose proof (line_to_inv x y rd HI) as HL. destruct HI as [rs [-> Hw]].
  unfold quad_to. rewrite pos_renc.
  destruct (pt_eqb (cur_of rs) (x, y) && pt_eqb (cur_of rs) (cx, cy)) eqn:E1; [apply Ok_same; exact Hw|].
  match goal with |- Ok (if ?c then _ else _) => destruct c end; [exact HL|].
  rewrite implicit_move_renc. eexists; split; [reflexivity|].
  apply (append_record rs (SQ (cx, cy) (x, y))); [exact Hw|].
  intro s0. cbn [seg_ok]. rewrite (pt_eqb_sym (x, y)), (pt_eqb_sym (cx, cy)), E1. reflexivity.
Qed.

Lemma cube_to_inv : forall ax ay bx by_ x y rd, Inv rd -> Ok (cube_to Fixed ax ay bx by_ x y rd).
Proof.
  intros ax ay bx by_ x y rd HI. pose proof (line_to_inv x y rd HI) as HL. destruct HI as [rs [-> Hw]].
  unfold cube_to. rewrite pos_renc. cbv beta zeta.
  destruct (pt_eqb (cur_of rs) (x, y) && pt_eqb (cur_of rs) (ax, ay) && pt_eqb (cur_of rs) (bx, by_)) eqn:E1;
    [apply Ok_same; exact Hw|].
  match goal with |- Ok (if ?c then _ else _) => destruct c end; [exact HL|].
  rewrite implicit_move_renc. eexists; split; [reflexivity|].
  apply (append_record rs (SC (ax, ay) (bx, by_) (x, y))); [exact Hw|].
  intro s0. cbn [seg_ok]. rewrite (pt_eqb_sym (x, y)), (pt_eqb_sym (ax, ay)), (pt_eqb_sym (bx, by_)), E1. reflexivity.
Qed.

Lemma arc_to_inv : forall rx ry l s x y orx ory ophi rd,
  arc_ok orx ory ophi (arc_flags l s) = true -> Inv rd -> Ok (arc_to Fixed rx ry l s x y orx ory ophi rd).
Proof.
  intros rx ry l s x y orx ory ophi rd Harc HI. pose proof (line_to_inv x y rd HI) as HL. destruct HI as [rs [-> Hw]].
  unfold arc_to. rewrite pos_renc.
  destruct (pt_eqb (cur_of rs) (x, y)) eqn:E1; [apply Ok_same; exact Hw|].
  match goal with |- Ok (if ?c then _ else _) => destruct c end; [exact HL|].
  rewrite implicit_move_renc. eexists; split; [reflexivity|].
  apply (append_record rs (SA orx ory ophi (arc_flags l s) (x, y))); [exact Hw|].
  intro s0. cbn [seg_ok]. rewrite (pt_eqb_sym (x, y)), E1, Harc. reflexivity.
Qed.

Lemma move_to_inv : forall x y rd, Inv rd -> Ok (move_to x y rd).
Proof.
  intros x y rd [rs [-> Hw]]. rewrite move_to_renc. apply Ok_same. apply move_rs_wfr. exact Hw.
Qed.

(** Close *)
Lemma close_inv : forall rd, Inv rd -> Ok (close rd).
Proof.
  intros rd [rs [-> Hw]].
  destruct rs as [|s r]; [apply (Ok_same []); reflexivity|].
  pose proof (startpos_renc (s :: r)) as Hsp.
  assert (Happ : (forall p, s <> SZ p) ->
                 Ok (Some (vZ :: snd (sp_of (s :: r)) :: fst (sp_of (s :: r)) :: vZ :: renc (s :: r)))).
  { intro NZ. eexists; split; [reflexivity|]. exists (SZ (sp_of (s :: r)) :: s :: r). split.
    - cbn [renc renc_seg]. destruct (sp_of (s :: r)); reflexivity.
    - destruct (st_some s r Hw NZ) as [s0 Hs]. cbn [wfr] in Hw |- *. rewrite Hs. cbn [seg_ok].
      rewrite (st_start _ _ _ Hs), pt_eqb_refl. exact Hw. }
  destruct s as [[a b]|[a b]|[cx cy] [a b]|[ax ay] [bx by_] [a b]|rx ry phi fl [a b]|[a b]];
    unfold close; cbn [renc renc_seg app] in *; unfold vM, vL, vQ, vC, vA, vZ in *; rewrite !is_cmd_val; cbn [cmdZ Z.eqb Pos.eqb].
  - (* M: removed *) eexists; split; [reflexivity|]. exists r. split; [reflexivity|]. cbn [wfr] in Hw. apply andb_true_iff in Hw. tauto.
  - (* L *)
    rewrite Hsp. cbn [wfr] in Hw. apply andb_true_iff in Hw. destruct Hw as [Hok Hr].
    destruct (st_of r) as [[s0 c]|] eqn:Es; cbn [seg_ok] in Hok; [|discriminate].
    assert (Hs0 : s0 = sp_of (SL (a, b) :: r)) by (cbn [sp_of]; eapply st_start; exact Es).
    match goal with |- Ok (if ?c then _ else _) => destruct c eqn:Eq end.
    + eexists; split; [reflexivity|]. exists (SZ (a, b) :: r). split; [reflexivity|].
      cbn [wfr]. rewrite Es, Hr. cbn [seg_ok]. rewrite Hs0. unfold pt_eqb. cbn [fst snd]. rewrite Eq. reflexivity.
    + rewrite prev_start_renc.
      match goal with |- Ok (if ?c then _ else _) => destruct c end.
      * eexists; split; [reflexivity|]. exists (SZ (sp_of (SL (a, b) :: r)) :: r). split.
        -- cbn [renc renc_seg]. destruct (sp_of (SL (a, b) :: r)); reflexivity.
        -- cbn [wfr]. rewrite Es, Hr. cbn [seg_ok]. rewrite Hs0, pt_eqb_refl. reflexivity.
      * apply Happ. intros p E; discriminate.
  - rewrite Hsp. apply Happ. intros p E; discriminate.
  - rewrite Hsp. apply Happ. intros p E; discriminate.
  - rewrite Hsp. apply Happ. intros p E; discriminate.
  - (* Z: already closed *) apply (Ok_same (SZ (a, b) :: r)). exact Hw.
Qed.

(** validity of the relational ArcTo inputs (the values the Go code stored) *)
Definition op_ok (o : op) : bool :=
  match o with
  | OArc _ _ l s _ _ orx ory ophi => arc_ok orx ory ophi (arc_flags l s)
  | _ => true
  end.

Lemma step_inv : forall o rd, op_ok o = true -> Inv rd -> Ok (step Fixed o rd).
Proof.
  intros o rd Ho HI. destruct o; cbn [step].
  - apply move_to_inv; assumption.
  - apply line_to_inv; assumption.
  - apply quad_to_inv; assumption.
  - apply cube_to_inv; assumption.
  - apply arc_to_inv; assumption.
  - apply close_inv; assumption.
Qed.

Lemma run_from_inv : forall ops rd, forallb op_ok ops = true -> Inv rd -> Ok (run_from Fixed ops rd).
Proof.
  induction ops as [|o ops IH]; intros rd Ho HI; cbn [run_from].
  - eexists; split; [reflexivity|exact HI].
  - cbn [forallb] in Ho. apply andb_true_iff in Ho. destruct Ho as [Ho1 Ho2].
    destruct (step_inv o rd Ho1 HI) as [rd' [-> HI']]. apply IH; assumption.
Qed.

(** builder_wf: every history of builder calls (arcs: with valid stored fields) runs without an out-of-range
    access and yields data that is the encoding of a well-formed structural path. *)
Theorem builder_wf : forall ops, forallb op_ok ops = true ->
  exists rd p, run Fixed ops = Some rd /\ data rd = encode p /\ wf p = true.
Proof.
  intros ops Ho. destruct (run_from_inv ops [] Ho Inv_nil) as [rd [Hr [rs [-> Hw]]]].
  exists (renc rs), (rev rs). split; [exact Hr|]. split.
  - unfold data. rewrite renc_rev, rev_involutive. reflexivity.
  - rewrite <- wfr_wf. exact Hw.
Qed.

(** without arcs there is no hypothesis at all *)
Definition no_arc (o : op) : bool := match o with OArc _ _ _ _ _ _ _ _ _ => false | _ => true end.

Corollary builder_wf_no_arcs : forall ops, forallb no_arc ops = true ->
  exists rd p, run Fixed ops = Some rd /\ data rd = encode p /\ wf p = true.
Proof.
  intros ops H. apply builder_wf. rewrite forallb_forall in *. intros o Hin. specialize (H o Hin).
  destruct o; try reflexivity. discriminate.
Qed.

Example builder_wf_example :
  option_map data (run Fixed [OLine 1 0; OLine (2#1) 0; OQuad (2#1) 1 0 1; OClose; OLine (-1) 0; OLine 0 0;
                              OArc 1 1 false true (2#1) 0 1 1 0; OMove 5 5; OClose])
  = Some (encode [SM (0,0); SL (2#1,0); SQ (2#1,1) (0,1); SZ (0,0); SM (0,0); SL (-1,0); SL (0,0);
                  SA 1 1 0 (2#1) (2#1,0)]).
Proof. vm_compute. reflexivity. Qed.

(** the original direction test violates the statement: a line back along a leftward line is merged and the
    record degenerates to zero length (path.go:414 before the fix) *)
Theorem builder_wf_orig_refuted :
  exists ops, forallb no_arc ops = true /\
    exists rd, run Orig ops = Some rd /\ data rd = encode [SM (0, 0); SL (0, 0)] /\ wf [SM (0, 0); SL (0, 0)] = false.
Proof.
  exists [OMove 0 0; OLine (-2#1) 0; OLine 0 0]. split; [reflexivity|].
  eexists. split; [vm_compute; reflexivity|]. split; vm_compute; reflexivity.
Qed.

(** Append (path.go:284) preserves well-formedness *)
Lemma wf_from_any_M : forall l st st', (exists p r, l = SM p :: r) -> wf_from st l = wf_from st' l.
Proof. intros l st st' [p [r ->]]. reflexivity. Qed.

Lemma wf_from_None_any : forall b st, wf_from None b = true -> wf_from st b = true.
Proof.
  intros b st Hb. destruct b as [|t b]; [reflexivity|].
  destruct t; cbn [wf_from seg_ok] in Hb |- *; try discriminate; exact Hb.
Qed.

Lemma wf_from_app : forall a st b, wf_from st a = true -> wf_from None b = true -> wf_from st (a ++ b) = true.
Proof.
  induction a as [|s a IH]; intros st b Ha Hb.
  - cbn [app]. apply wf_from_None_any. exact Hb.
  - cbn [app wf_from] in *. apply andb_true_iff in Ha. destruct Ha as [H1 H2]. rewrite H1. cbn [andb]. apply IH; assumption.
Qed.

Lemma wf_app : forall a b, wf a = true -> wf b = true -> wf (a ++ b) = true.
Proof. unfold wf. intros a b Ha Hb. apply wf_from_app; assumption. Qed.

Lemma empty_encode : forall p, empty (encode p) = true -> wf p = true -> p = [] \/ exists q, p = [SM q].
Proof.
  intros p He Hw. destruct p as [|s p]; [left; reflexivity|right].
  destruct s as [[x y]|[x y]|[cx cy] [x y]|[ax ay] [bx by_] [x y]|rx ry phi fl [x y]|[x y]];
    try (cbn in Hw; discriminate).
  destruct p as [|t p]; [eexists; reflexivity|].
  exfalso. unfold empty in He. cbn [encode enc_seg app length] in He.
  destruct t as [[a b]|[a b]|[c d] [a b]|[c d] [e f] [a b]|r1 r2 r3 r4 [a b]|[a b]]; cbn [enc_seg app length] in He; discriminate.
Qed.

Theorem append_wf : forall p q, wf p = true -> wf q = true ->
  exists r, append1 (encode p) (encode q) = encode r /\ wf r = true.
Proof.
  intros p q Hp Hq. unfold append1.
  exists ((if empty (encode p) then [] else p) ++ (if empty (encode q) then [] else q)). split.
  - rewrite encode_app. destruct (empty (encode p)), (empty (encode q)); reflexivity.
  - apply wf_app; [destruct (empty (encode p))|destruct (empty (encode q))]; try reflexivity; assumption.
Qed.

// c15: correspondence harness for C15 (Context / Canvas state machine).
// One case = one history of 1..60 calls on a canvas.Context wrapped around a canvas.Canvas (setters, view
// compositions, Push/Pop, coordinate settings, z-index changes, draws, interleaved Canvas.Transform/Clip/Fit).
// The same Context calls are made on a second Context wrapped directly around a recording Renderer.  At the end
// the canvas is replayed into a recording renderer through RenderViewTo, then Fit(margin) is applied and the
// canvas is replayed again.  Everything observed (records, final draw state, sizes) is printed as a Gallina term
// for the Coq judge (Corr/C15.v).  All arguments are dyadic rationals (exact as float64 and in Q); Rotate(deg)
// passes Go's own math.Sincos result to the model as a relational input.
package main

import (
	"flag"
	"fmt"
	"image"
	"image/color"
	"math"
	"os"
	"path/filepath"
	"strings"

	"github.com/tdewolff/canvas"

	"verifharness/internal/cq"
	"verifharness/internal/out"
	"verifharness/internal/pd"
	"verifharness/internal/rng"
)

// ---------------------------------------------------------------------------------------------------------
// recording renderer

type item struct {
	kind  int // 0 path, 1 text, 2 image
	toks  string
	text  *canvas.Text
	img   image.Image
	style canvas.Style
	m     canvas.Matrix
}

type recorder struct {
	w, h  float64
	items []item
}

func (r *recorder) Size() (float64, float64) { return r.w, r.h }
func (r *recorder) RenderPath(p *canvas.Path, s canvas.Style, m canvas.Matrix) {
	s.Dashes = append([]float64{}, s.Dashes...)
	r.items = append(r.items, item{kind: 0, toks: pathToks(p), style: s, m: m})
}
func (r *recorder) RenderText(t *canvas.Text, m canvas.Matrix) {
	r.items = append(r.items, item{kind: 1, text: t, m: m})
}
func (r *recorder) RenderImage(img image.Image, m canvas.Matrix) {
	r.items = append(r.items, item{kind: 2, img: img, m: m})
}

// ---------------------------------------------------------------------------------------------------------
// Gallina printers

// qf prints a float64 as the exact dyadic (dy m e) : Q (compact form of cq.F: the arguments of dy are parsed in Z scope)
func qf(f float64) string {
	m, e, ok := cq.MantExp(f)
	if !ok {
		panic(fmt.Sprintf("c15: non-finite %v", f))
	}
	ms, es := fmt.Sprint(m), fmt.Sprint(e)
	if m < 0 {
		ms = "(" + ms + ")"
	}
	if e < 0 {
		es = "(" + es + ")"
	}
	return "(dy " + ms + " " + es + ")"
}

func floatsS(fs []float64) string {
	xs := make([]string, len(fs))
	for i, f := range fs {
		xs[i] = qf(f)
	}
	return cq.List(xs)
}

func matS(m canvas.Matrix) string {
	return fmt.Sprintf("(mkM %s %s %s %s %s %s)", qf(m[0][0]), qf(m[0][1]), qf(m[0][2]), qf(m[1][0]), qf(m[1][1]), qf(m[1][2]))
}

func rectS(r canvas.Rect) string {
	return fmt.Sprintf("(mkR %s %s %s %s)", qf(r.X0), qf(r.Y0), qf(r.X1), qf(r.Y1))
}

func pathToks(p *canvas.Path) string {
	segs, err := pd.Decode(p.Data())
	if err != nil {
		return "((99%Z, 0, 0) :: nil)"
	}
	var ts []string
	for _, s := range segs {
		code := map[byte]int{'M': 1, 'L': 2, 'Z': 3, 'Q': 4, 'C': 5, 'A': 6}[s.Cmd]
		ts = append(ts, tok(code, s.X, s.Y))
	}
	return cq.List(ts)
}

func tok(code int, x, y float64) string {
	return fmt.Sprintf("(%s, %s, %s)", cq.Z(int64(code)), qf(x), qf(y))
}

type world struct {
	grads  []canvas.Gradient
	pats   []canvas.Pattern
	texts  []*canvas.Text
	imgs   []image.Image
	paths  []*canvas.Path
	caps   []canvas.Capper
	joins  []canvas.Joiner
	colors []color.RGBA
}

func packCol(c color.RGBA) int64 {
	return int64(c.R)<<24 | int64(c.G)<<16 | int64(c.B)<<8 | int64(c.A)
}

func (w *world) paintS(p canvas.Paint) string {
	g, pt := 0, 0
	for i, x := range w.grads {
		if p.Gradient == x {
			g = i + 1
		}
	}
	if p.Gradient != nil && g == 0 {
		g = 99
	}
	for i, x := range w.pats {
		if p.Pattern == x {
			pt = i + 1
		}
	}
	if p.Pattern != nil && pt == 0 {
		pt = 99
	}
	return fmt.Sprintf("(mkPaint %s %s %s)", cq.Z(packCol(p.Color)), cq.Z(int64(g)), cq.Z(int64(pt)))
}

func (w *world) styleS(s canvas.Style) string {
	capID, joinID := 99, 99
	for i, c := range w.caps {
		if s.StrokeCapper == c {
			capID = i
		}
	}
	for i, j := range w.joins {
		if s.StrokeJoiner == j {
			joinID = i
		}
	}
	return fmt.Sprintf("(mkStyle %s %s %s %s %s %s %s %s)", w.paintS(s.Fill), w.paintS(s.Stroke), qf(s.StrokeWidth),
		cq.Z(int64(capID)), cq.Z(int64(joinID)), qf(s.DashOffset), floatsS(s.Dashes), cq.Z(int64(s.FillRule)))
}

func (w *world) objS(it item) string {
	switch it.kind {
	case 0:
		return "(OPath " + it.toks + ")"
	case 1:
		id := 99
		for i, t := range w.texts {
			if t == it.text {
				id = i + 1
			}
		}
		return fmt.Sprintf("(OText %s)", cq.Z(int64(id)))
	default:
		id := 99
		for i, im := range w.imgs {
			if im == it.img {
				id = i + 1
			}
		}
		if b := it.img.Bounds(); id == 99 && !b.Empty() {
			// a sub-image (FitImage with ImageCover): every pixel of image k carries k+1 in its red/grey channel
			rr, _, _, _ := it.img.At(b.Min.X, b.Min.Y).RGBA()
			if k := int(rr >> 8); 1 <= k && k <= len(w.imgs) {
				id = k
			}
		}
		sz := it.img.Bounds().Size()
		return fmt.Sprintf("(OImage %s %s %s)", cq.Z(int64(id)), cq.Z(int64(sz.X)), cq.Z(int64(sz.Y)))
	}
}

func (w *world) recsS(items []item) string {
	var xs []string
	for _, it := range items {
		st := "default_style"
		if it.kind == 0 {
			st = w.styleS(it.style)
		}
		xs = append(xs, fmt.Sprintf("(mkG %s %s %s)", w.objS(it), st, matS(it.m)))
	}
	return cq.List(xs)
}

var csNames = []string{"CartI", "CartII", "CartIII", "CartIV"}

func (w *world) stateS(st canvas.Style, view, coord canvas.Matrix, cs canvas.CoordSystem) string {
	return fmt.Sprintf("(mkCS %s %s %s %s)", w.styleS(st), matS(view), matS(coord), csNames[int(cs)])
}

// ---------------------------------------------------------------------------------------------------------
// history builder

type hist struct {
	r    *rng.R
	w    *world
	cv   *canvas.Canvas
	ctx  *canvas.Context
	rec  *recorder
	dctx *canvas.Context
	ops  []string
	desc []string
	mag  float64
	// current path bookkeeping (shadow of Context.path, built by the same builder calls)
	shadow         *canvas.Path
	pstate         int // 0 need MoveTo, 1 after MoveTo, 2 has segments, 3 after Close
	sx, sy, lx, ly float64
	px, py         float64 // start of the last segment
	depth          int
	maxDepth       int
	zs             map[int]bool
	fam            string
}

func (h *hist) see(fs ...float64) {
	for _, f := range fs {
		if a := math.Abs(f); a > h.mag {
			h.mag = a
		}
	}
}

func (h *hist) seeM(m canvas.Matrix) {
	h.see(m[0][0], m[0][1], m[0][2], m[1][0], m[1][1], m[1][2])
}

// add a Context call: performed on both contexts
func (h *hist) ctxOp(coq, desc string, f func(c *canvas.Context)) {
	h.ops = append(h.ops, "Ctx ("+coq+")")
	h.desc = append(h.desc, desc)
	f(h.ctx)
	f(h.dctx)
	h.seeM(h.ctx.View())
	h.seeM(h.ctx.CoordView())
}

func (h *hist) cvOp(coq, desc string, f func(c *canvas.Canvas)) {
	h.ops = append(h.ops, coq)
	h.desc = append(h.desc, desc)
	f(h.cv)
	h.see(h.cv.W, h.cv.H)
}

// dyadic value k/den with lo <= k/den <= hi
func (h *hist) dy(lo, hi, den int) float64 {
	return float64(h.r.Range(lo*den, hi*den)) / float64(den)
}

func (h *hist) smallMatrix() (canvas.Matrix, string) {
	switch h.r.Intn(7) {
	case 0:
		x, y := h.dy(-20, 20, 4), h.dy(-20, 20, 4)
		return canvas.Identity.Translate(x, y), fmt.Sprintf("Identity.Translate(%g,%g)", x, y)
	case 1:
		s := rng.Pick(h.r, []float64{2, 0.5, -1, 1.5, 0.75})
		t := rng.Pick(h.r, []float64{2, 0.5, -1, 1, 1.25})
		return canvas.Identity.Scale(s, t), fmt.Sprintf("Identity.Scale(%g,%g)", s, t)
	case 2: // exact quarter turn
		return canvas.Matrix{{0, -1, 0}, {1, 0, 0}}, "Matrix{{0,-1,0},{1,0,0}}"
	case 3: // Pythagorean rotations (entries are the doubles nearest to 3/5, 4/5, ...)
		ps := [][2]float64{{0.6, 0.8}, {0.8, 0.6}, {5.0 / 13.0, 12.0 / 13.0}, {0.28, 0.96}, {-0.6, 0.8}}
		p := rng.Pick(h.r, ps)
		return canvas.Matrix{{p[0], -p[1], 0}, {p[1], p[0], 0}}, fmt.Sprintf("Matrix{{%g,%g,0},{%g,%g,0}}", p[0], -p[1], p[1], p[0])
	case 4:
		x, y := h.dy(-8, 8, 2), h.dy(-8, 8, 2)
		return canvas.Matrix{{1, 0.5, x}, {0, 1, y}}, fmt.Sprintf("Matrix{{1,0.5,%g},{0,1,%g}}", x, y)
	case 5:
		x, y := h.dy(-8, 8, 2), h.dy(-8, 8, 2)
		return canvas.Matrix{{0, 2, x}, {-0.5, 0.25, y}}, fmt.Sprintf("Matrix{{0,2,%g},{-0.5,0.25,%g}}", x, y)
	default:
		x, y := h.dy(-10, 10, 1), h.dy(-10, 10, 1)
		return canvas.Identity.Translate(x, y).Scale(2, 2), fmt.Sprintf("Identity.Translate(%g,%g).Scale(2,2)", x, y)
	}
}

func (h *hist) angle() float64 {
	switch h.fam {
	case "rot90":
		return float64(h.r.Range(-4, 8)) * 90
	case "rotany":
		return rng.Pick(h.r, []float64{30, 45, 60, 15, -75, 7.5, 123, 200.25, 359, 1})
	}
	if h.r.P(1, 2) {
		return float64(h.r.Range(-4, 8)) * 90
	}
	return rng.Pick(h.r, []float64{30, 45, 60, -15, 7.5, 123})
}

func sincos(deg float64) (float64, float64) { // exactly the expression of Matrix.Rotate
	s, c := math.Sincos(deg * math.Pi / 180.0)
	return s, c
}

func (h *hist) genSetter() {
	w := h.w
	col := func() color.RGBA { return rng.Pick(h.r, w.colors) }
	switch h.r.Intn(17) {
	case 0, 1:
		c := col()
		if h.r.Bool() {
			h.ctxOp("SetFillColor "+cq.Z(packCol(c)), fmt.Sprintf("SetFillColor(%v)", c), func(x *canvas.Context) { x.SetFillColor(c) })
		} else {
			h.ctxOp("SetStrokeColor "+cq.Z(packCol(c)), fmt.Sprintf("SetStrokeColor(%v)", c), func(x *canvas.Context) { x.SetStrokeColor(c) })
		}
	case 2:
		g := h.r.Intn(len(w.grads))
		if h.r.Bool() {
			h.ctxOp("SetFillGradient "+cq.Z(int64(g+1)), fmt.Sprintf("SetFillGradient(g%d)", g+1), func(x *canvas.Context) { x.SetFillGradient(w.grads[g]) })
		} else {
			h.ctxOp("SetStrokeGradient "+cq.Z(int64(g+1)), fmt.Sprintf("SetStrokeGradient(g%d)", g+1), func(x *canvas.Context) { x.SetStrokeGradient(w.grads[g]) })
		}
	case 3:
		p := h.r.Intn(len(w.pats))
		if h.r.Bool() {
			h.ctxOp("SetFillPattern "+cq.Z(int64(p+1)), fmt.Sprintf("SetFillPattern(p%d)", p+1), func(x *canvas.Context) { x.SetFillPattern(w.pats[p]) })
		} else {
			h.ctxOp("SetStrokePattern "+cq.Z(int64(p+1)), fmt.Sprintf("SetStrokePattern(p%d)", p+1), func(x *canvas.Context) { x.SetStrokePattern(w.pats[p]) })
		}
	case 4, 5: // SetFill / SetStroke(interface{})
		var arg interface{}
		var coq, d string
		switch h.r.Intn(6) {
		case 0:
			c, g := col(), h.r.Intn(len(w.grads)+1)
			p := canvas.Paint{Color: c}
			gi := 0
			if g < len(w.grads) && h.r.P(1, 3) {
				p.Gradient = w.grads[g]
				gi = g + 1
			}
			arg, coq, d = p, fmt.Sprintf("(PAPaint (mkPaint %s %s 0%%Z))", cq.Z(packCol(c)), cq.Z(int64(gi))), fmt.Sprintf("Paint{Color:%v,Gradient:g%d}", c, gi)
		case 1:
			p := h.r.Intn(len(w.pats))
			arg, coq, d = w.pats[p], fmt.Sprintf("(PAPattern %s)", cq.Z(int64(p+1))), fmt.Sprintf("p%d", p+1)
		case 2:
			g := h.r.Intn(len(w.grads))
			arg, coq, d = w.grads[g], fmt.Sprintf("(PAGradient %s)", cq.Z(int64(g+1))), fmt.Sprintf("g%d", g+1)
		case 3, 4:
			c := col()
			arg, coq, d = c, fmt.Sprintf("(PAColor %s)", cq.Z(packCol(c))), fmt.Sprintf("%v", c)
		default:
			arg, coq, d = 5, "PAOther", "5"
		}
		if h.r.Bool() {
			h.ctxOp("SetFill "+coq, "SetFill("+d+")", func(x *canvas.Context) { x.SetFill(arg) })
		} else {
			h.ctxOp("SetStroke "+coq, "SetStroke("+d+")", func(x *canvas.Context) { x.SetStroke(arg) })
		}
	case 6, 7:
		wd := rng.Pick(h.r, []float64{0, 0.5, 1, 2, 3, 0.25, -1})
		h.ctxOp("SetStrokeWidth "+qf(wd), fmt.Sprintf("SetStrokeWidth(%g)", wd), func(x *canvas.Context) { x.SetStrokeWidth(wd) })
	case 8:
		k := h.r.Intn(len(w.caps))
		h.ctxOp("SetStrokeCapper "+cq.Z(int64(k)), fmt.Sprintf("SetStrokeCapper(#%d)", k), func(x *canvas.Context) { x.SetStrokeCapper(w.caps[k]) })
	case 9:
		k := h.r.Intn(len(w.joins))
		h.ctxOp("SetStrokeJoiner "+cq.Z(int64(k)), fmt.Sprintf("SetStrokeJoiner(#%d)", k), func(x *canvas.Context) { x.SetStrokeJoiner(w.joins[k]) })
	case 10, 11, 12, 13:
		h.genDashes()
	case 14:
		k := h.r.Intn(4)
		h.ctxOp("SetFillRule "+cq.Z(int64(k)), fmt.Sprintf("SetFillRule(%d)", k), func(x *canvas.Context) { x.SetFillRule(canvas.FillRule(k)) })
	default:
		h.ctxOp("ResetStyle", "ResetStyle()", func(x *canvas.Context) { x.ResetStyle() })
	}
}

func (h *hist) genDashes() {
	var d []float64
	switch h.r.Intn(4) {
	case 0: // plain patterns
		d = append([]float64{}, rng.Pick(h.r, [][]float64{{}, {2, 1}, {3}, {2, 1, 2, 1}, {1, 2, 3}, {0.5, 0.5}, {60, 5}, {4, 50}})...)
	case 1: // literal patterns with zeros
		d = append([]float64{}, rng.Pick(h.r, [][]float64{{2, 0, 3, 1}, {0, 2, 3, 1}, {2, 1, 0}, {0, 2, 0}, {0}, {0, 0}, {2, 1, 3, 0}, {0, 2, 3}, {1, 0, 1, 0, 1, 2}, {1, -1}})...)
	default: // random
		n := h.r.Range(1, 6)
		for i := 0; i < n; i++ {
			d = append(d, rng.Pick(h.r, []float64{0, 0, 0.5, 1, 2, 3, 1, 2, 8}))
		}
	}
	minPos, allPos := math.Inf(1), true
	for _, x := range d {
		if x <= 0 {
			allPos = false
		} else if x < minPos {
			minPos = x
		}
	}
	off := rng.Pick(h.r, []float64{0, 0, 0.5, 1, 2.5, 7, 40})
	if h.r.P(1, 4) { // negative offsets, also below minus one period (dashStart reduces them modulo the period)
		off = rng.Pick(h.r, []float64{-0.25, -1, -2.5, -7, -40, -minPos / 2})
		if math.IsInf(off, 0) {
			off = -3
		}
	}
	if allPos && len(d) >= 2 && h.r.P(1, 4) { // start inside the first gap: short paths lose their stroke
		off = d[0] + d[1]/4
	}
	h.ctxOp(fmt.Sprintf("SetDashes %s %s", qf(off), floatsS(d)), fmt.Sprintf("SetDashes(%g, %v...)", off, d),
		func(x *canvas.Context) { x.SetDashes(off, append([]float64{}, d...)...) })
}

func (h *hist) genView() {
	switch h.r.Intn(16) {
	case 0:
		m, d := h.smallMatrix()
		h.ctxOp("SetView "+matS(m), "SetView("+d+")", func(x *canvas.Context) { x.SetView(m) })
	case 1:
		h.ctxOp("ResetView", "ResetView()", func(x *canvas.Context) { x.ResetView() })
	case 2, 3:
		m, d := h.smallMatrix()
		h.ctxOp("ComposeView "+matS(m), "ComposeView("+d+")", func(x *canvas.Context) { x.ComposeView(m) })
	case 4, 5:
		x, y := h.dy(-20, 20, 4), h.dy(-20, 20, 4)
		h.ctxOp(fmt.Sprintf("Translate %s %s", qf(x), qf(y)), fmt.Sprintf("Translate(%g,%g)", x, y), func(c *canvas.Context) { c.Translate(x, y) })
	case 6:
		h.ctxOp("ReflectX", "ReflectX()", func(c *canvas.Context) { c.ReflectX() })
	case 7:
		x := h.dy(-20, 20, 4)
		h.ctxOp("ReflectXAbout "+qf(x), fmt.Sprintf("ReflectXAbout(%g)", x), func(c *canvas.Context) { c.ReflectXAbout(x) })
	case 8:
		h.ctxOp("ReflectY", "ReflectY()", func(c *canvas.Context) { c.ReflectY() })
	case 9:
		y := h.dy(-20, 20, 4)
		h.ctxOp("ReflectYAbout "+qf(y), fmt.Sprintf("ReflectYAbout(%g)", y), func(c *canvas.Context) { c.ReflectYAbout(y) })
	case 10:
		deg := h.angle()
		s, c := sincos(deg)
		h.ctxOp(fmt.Sprintf("Rotate %s %s", qf(c), qf(s)), fmt.Sprintf("Rotate(%g)", deg), func(x *canvas.Context) { x.Rotate(deg) })
	case 11:
		deg := h.angle()
		s, c := sincos(deg)
		x, y := h.dy(-20, 20, 2), h.dy(-20, 20, 2)
		h.ctxOp(fmt.Sprintf("RotateAbout %s %s %s %s", qf(c), qf(s), qf(x), qf(y)), fmt.Sprintf("RotateAbout(%g,%g,%g)", deg, x, y), func(cc *canvas.Context) { cc.RotateAbout(deg, x, y) })
	case 12:
		sx := rng.Pick(h.r, []float64{2, 0.5, -1, 1.5, 0.75, 1, -2})
		sy := rng.Pick(h.r, []float64{2, 0.5, -1, 1, 1.25, -0.5})
		h.ctxOp(fmt.Sprintf("Scale %s %s", qf(sx), qf(sy)), fmt.Sprintf("Scale(%g,%g)", sx, sy), func(c *canvas.Context) { c.Scale(sx, sy) })
	case 13:
		sx := rng.Pick(h.r, []float64{2, 0.5, -1, 1.5, 1})
		sy := rng.Pick(h.r, []float64{2, 0.5, -1, 1, 0.75})
		x, y := h.dy(-20, 20, 2), h.dy(-20, 20, 2)
		h.ctxOp(fmt.Sprintf("ScaleAbout %s %s %s %s", qf(sx), qf(sy), qf(x), qf(y)), fmt.Sprintf("ScaleAbout(%g,%g,%g,%g)", sx, sy, x, y), func(c *canvas.Context) { c.ScaleAbout(sx, sy, x, y) })
	case 14:
		sx := rng.Pick(h.r, []float64{0, 0.5, -0.5, 1, 0.25})
		sy := rng.Pick(h.r, []float64{0, 0.5, -1, 0.25})
		h.ctxOp(fmt.Sprintf("Shear %s %s", qf(sx), qf(sy)), fmt.Sprintf("Shear(%g,%g)", sx, sy), func(c *canvas.Context) { c.Shear(sx, sy) })
	default:
		sx := rng.Pick(h.r, []float64{0, 0.5, -0.5, 1})
		sy := rng.Pick(h.r, []float64{0, 0.5, -1, 0.25})
		x, y := h.dy(-20, 20, 2), h.dy(-20, 20, 2)
		h.ctxOp(fmt.Sprintf("ShearAbout %s %s %s %s", qf(sx), qf(sy), qf(x), qf(y)), fmt.Sprintf("ShearAbout(%g,%g,%g,%g)", sx, sy, x, y), func(c *canvas.Context) { c.ShearAbout(sx, sy, x, y) })
	}
	// keep the view well conditioned and bounded (bounds the rounding error and keeps every recorded matrix regular)
	v := h.ctx.View()
	det := v.Det()
	big := false
	for _, row := range v {
		for _, e := range row {
			if math.Abs(e) > 1024 {
				big = true
			}
		}
	}
	if big || math.Abs(det) < 1.0/1024 {
		h.ctxOp("ResetView", "ResetView()", func(x *canvas.Context) { x.ResetView() })
	}
}

func (h *hist) genStack() {
	if h.r.P(11, 20) {
		h.ctxOp("Push", "Push()", func(c *canvas.Context) { c.Push() })
		h.depth++
		if h.depth > h.maxDepth {
			h.maxDepth = h.depth
		}
	} else {
		h.ctxOp("Pop", "Pop()", func(c *canvas.Context) { c.Pop() })
		if h.depth > 0 {
			h.depth--
		}
	}
}

func (h *hist) genCoord() {
	switch h.r.Intn(5) {
	case 0, 1, 2:
		k := h.r.Intn(4)
		h.ctxOp("SetCoordSystem "+csNames[k], fmt.Sprintf("SetCoordSystem(%d)", k), func(c *canvas.Context) { c.SetCoordSystem(canvas.CoordSystem(k)) })
	case 3:
		var m canvas.Matrix
		var d string
		if h.r.P(1, 4) {
			m, d = canvas.Identity, "Identity"
		} else {
			m, d = h.smallMatrix()
		}
		h.ctxOp("SetCoordView "+matS(m), "SetCoordView("+d+")", func(c *canvas.Context) { c.SetCoordView(m) })
	default:
		x0, y0 := h.dy(-10, 30, 2), h.dy(-10, 30, 2)
		rc := canvas.Rect{X0: x0, Y0: y0, X1: x0 + h.dy(1, 60, 2), Y1: y0 + h.dy(1, 60, 2)}
		wd := rng.Pick(h.r, []float64{1, 2, 8, 64, 0.5})
		ht := rng.Pick(h.r, []float64{1, 4, 16, 128, 0.25})
		h.ctxOp(fmt.Sprintf("SetCoordRect %s %s %s", rectS(rc), qf(wd), qf(ht)), fmt.Sprintf("SetCoordRect(%v,%g,%g)", rc, wd, ht), func(c *canvas.Context) { c.SetCoordRect(rc, wd, ht) })
	}
}

func (h *hist) genZ() {
	z := h.r.Range(-2, 3)
	h.zs[z] = true
	h.ctxOp("SetZIndex "+cq.Z(int64(z)), fmt.Sprintf("SetZIndex(%d)", z), func(c *canvas.Context) { c.SetZIndex(z) })
}

func (h *hist) newPoint() (float64, float64) {
	for {
		x, y := h.dy(-12, 40, 2), h.dy(-12, 40, 2)
		if (x != h.lx || y != h.ly) && (x != h.sx || y != h.sy) {
			return x, y
		}
	}
}

// extends reports whether segment b is collinear with segment a and points the same way
func extends(ax, ay, bx, by float64) bool {
	return ax*by-ay*bx == 0 && ax*bx+ay*by > 0
}

func (h *hist) pathCmd() {
	switch {
	case h.pstate == 0 || h.pstate == 3:
		x, y := h.dy(-12, 40, 2), h.dy(-12, 40, 2)
		h.ctxOp("PathCmd "+tok(1, x, y), fmt.Sprintf("MoveTo(%g,%g)", x, y), func(c *canvas.Context) { c.MoveTo(x, y) })
		h.shadow.MoveTo(x, y)
		h.sx, h.sy, h.lx, h.ly = x, y, x, y
		h.pstate = 1
	case h.pstate == 1 || h.r.P(2, 3) || extends(h.lx-h.px, h.ly-h.py, h.sx-h.lx, h.sy-h.ly): // (Close merges an equidirectional last segment too)
		var x, y float64
		for try := 0; ; try++ {
			x, y = h.newPoint()
			if h.r.P(1, 2) && try < 20 { // axis-aligned segment: exact length
				if h.r.Bool() {
					x = h.lx
				} else {
					y = h.ly
				}
			}
			if (x == h.lx && y == h.ly) || (x == h.sx && y == h.sy) {
				continue
			}
			// Path.LineTo merges a segment that extends the previous one in the same direction (intended path
			// builder behaviour, property C10): the model appends commands verbatim, so such extensions are not
			// generated; reversing collinear segments are kept as they are and are generated
			if h.pstate == 2 && extends(h.lx-h.px, h.ly-h.py, x-h.lx, y-h.ly) {
				continue
			}
			break
		}
		h.ctxOp("PathCmd "+tok(2, x, y), fmt.Sprintf("LineTo(%g,%g)", x, y), func(c *canvas.Context) { c.LineTo(x, y) })
		h.shadow.LineTo(x, y)
		h.px, h.py = h.lx, h.ly
		h.lx, h.ly = x, y
		h.pstate = 2
	default:
		sx, sy := h.sx, h.sy
		h.ctxOp("PathCmd "+tok(3, sx, sy), "Close()", func(c *canvas.Context) { c.Close() })
		h.shadow.Close()
		h.lx, h.ly = sx, sy
		h.pstate = 3
	}
}

func (h *hist) genDraw() {
	w := h.w
	switch h.r.Intn(13) {
	case 0, 1, 2, 3: // DrawPath with 1..3 paths
		n := 1
		if h.r.P(1, 3) {
			n = h.r.Range(2, 3)
		}
		x, y := h.dy(-10, 40, 2), h.dy(-10, 40, 2)
		var ps []*canvas.Path
		var pis, ds []string
		for i := 0; i < n; i++ {
			k := h.r.Intn(len(w.paths))
			if n > 1 && i == 0 && h.r.P(1, 2) {
				k = 8 // a very short path first
			}
			p := w.paths[k]
			ps = append(ps, p)
			pis = append(pis, fmt.Sprintf("(mkPI %s %s %s)", pathToks(p), qf(p.Length()), rectS(p.Bounds())))
			ds = append(ds, fmt.Sprintf("%q", p.String()))
		}
		h.ctxOp(fmt.Sprintf("DrawPath %s %s %s", qf(x), qf(y), cq.List(pis)), fmt.Sprintf("DrawPath(%g,%g,%s)", x, y, strings.Join(ds, ",")),
			func(c *canvas.Context) { c.DrawPath(x, y, ps...) })
		if h.r.P(1, 3) {
			// the same paths drawn again as an outline: a wide stroke on geometry that earlier content already covers
			c := rng.Pick(h.r, w.colors)
			wd := rng.Pick(h.r, []float64{2, 3, 6})
			h.ctxOp("SetStrokeColor "+cq.Z(packCol(c)), fmt.Sprintf("SetStrokeColor(%v)", c), func(x *canvas.Context) { x.SetStrokeColor(c) })
			h.ctxOp("SetStrokeWidth "+qf(wd), fmt.Sprintf("SetStrokeWidth(%g)", wd), func(x *canvas.Context) { x.SetStrokeWidth(wd) })
			h.ctxOp(fmt.Sprintf("DrawPath %s %s %s", qf(x), qf(y), cq.List(pis)), fmt.Sprintf("DrawPath(%g,%g,%s)", x, y, strings.Join(ds, ",")),
				func(c *canvas.Context) { c.DrawPath(x, y, ps...) })
		}
	case 4, 5, 6: // Fill / Stroke / FillStroke of the current path
		if h.pstate == 1 { // a bare MoveTo: add a segment first
			h.pathCmd()
		}
		ln, b := h.shadow.Length(), h.shadow.Bounds()
		args := fmt.Sprintf("%s %s", qf(ln), rectS(b))
		switch h.r.Intn(3) {
		case 0:
			h.ctxOp("Fill "+args, "Fill()", func(c *canvas.Context) { c.Fill() })
		case 1:
			h.ctxOp("Stroke "+args, "Stroke()", func(c *canvas.Context) { c.Stroke() })
		default:
			h.ctxOp("FillStroke "+args, "FillStroke()", func(c *canvas.Context) { c.FillStroke() })
		}
		h.shadow = &canvas.Path{}
		h.pstate = 0
	case 7, 8: // DrawText
		k := h.r.Intn(len(w.texts) + 1)
		x, y := h.dy(-10, 40, 2), h.dy(-10, 40, 2)
		if k == len(w.texts) {
			t := &canvas.Text{}
			h.ctxOp(fmt.Sprintf("DrawText %s %s 0%%Z true (mkR 0 0 0 0)", qf(x), qf(y)), fmt.Sprintf("DrawText(%g,%g,<empty>)", x, y),
				func(c *canvas.Context) { c.DrawText(x, y, t) })
		} else {
			t := w.texts[k]
			h.ctxOp(fmt.Sprintf("DrawText %s %s %s %s %s", qf(x), qf(y), cq.Z(int64(k+1)), cq.Bool(t.Empty()), rectS(t.Bounds())), fmt.Sprintf("DrawText(%g,%g,t%d)", x, y, k+1),
				func(c *canvas.Context) { c.DrawText(x, y, t) })
		}
	case 9, 10: // DrawImage
		k := h.r.Intn(len(w.imgs))
		im := w.imgs[k]
		sz := im.Bounds().Size()
		x, y := h.dy(-10, 40, 2), h.dy(-10, 40, 2)
		res := rng.Pick(h.r, []float64{1, 2, 4, 0.5, 8})
		h.ctxOp(fmt.Sprintf("DrawImage %s %s %s %s %s %s", qf(x), qf(y), cq.Z(int64(k+1)), cq.Z(int64(sz.X)), cq.Z(int64(sz.Y)), qf(res)),
			fmt.Sprintf("DrawImage(%g,%g,img%d %dx%d,DPMM(%g))", x, y, k+1, sz.X, sz.Y, res),
			func(c *canvas.Context) { c.DrawImage(x, y, im, canvas.DPMM(res)) })
	case 11: // FitImage
		k := h.r.Intn(len(w.imgs))
		im := w.imgs[k]
		sz := im.Bounds().Size()
		x0, y0 := h.dy(-10, 40, 2), h.dy(-10, 40, 2)
		rw, rh := h.dy(1, 40, 2), h.dy(1, 40, 2)
		if h.r.P(1, 12) {
			rw = 0
		}
		fit := h.r.Intn(3)
		if _, ok := im.(interface {
			SubImage(image.Rectangle) image.Image
		}); !ok && fit == 2 {
			fit = 1
		}
		rc := canvas.Rect{X0: x0, Y0: y0, X1: x0 + rw, Y1: y0 + rh}
		h.ctxOp(fmt.Sprintf("FitImage %s %s%%Z %s %s %s", rectS(rc), cq.Z(int64(fit)), cq.Z(int64(k+1)), cq.Z(int64(sz.X)), cq.Z(int64(sz.Y))),
			fmt.Sprintf("FitImage(img%d %dx%d, %v, %s)", k+1, sz.X, sz.Y, rc, []string{"ImageFill", "ImageContain", "ImageCover"}[fit]),
			func(c *canvas.Context) { c.FitImage(im, rc, canvas.ImageFit(fit)) })
	default:
		h.pathCmd()
	}
}

func (h *hist) genCanvasOp() {
	switch h.r.Intn(4) {
	case 0, 1:
		m, d := h.smallMatrix()
		h.cvOp("CvTransform "+matS(m), "canvas.Transform("+d+")", func(c *canvas.Canvas) { c.Transform(m) })
	case 2:
		x0, y0 := h.dy(-10, 30, 2), h.dy(-10, 30, 2)
		rc := canvas.Rect{X0: x0, Y0: y0, X1: x0 + h.dy(8, 120, 2), Y1: y0 + h.dy(8, 120, 2)}
		h.cvOp("CvClip "+rectS(rc), fmt.Sprintf("canvas.Clip(%v)", rc), func(c *canvas.Canvas) { c.Clip(rc) })
	default:
		mg := rng.Pick(h.r, []float64{0, 1, 2.5, 10})
		h.cvOp("CvFit "+qf(mg), fmt.Sprintf("canvas.Fit(%g)", mg), func(c *canvas.Canvas) { c.Fit(mg) })
	}
}

var families = []string{"mixed", "dyadic", "rot90", "rotany", "pyth", "dash", "stack", "zorder", "canvasops", "coord", "short"}

// weights: setter, view, stack, coord, z, draw, canvasop
var weights = map[string][7]int{
	"mixed":     {4, 5, 3, 2, 2, 6, 1},
	"dyadic":    {2, 7, 2, 2, 1, 6, 0},
	"rot90":     {1, 8, 2, 2, 1, 6, 0},
	"rotany":    {1, 8, 2, 2, 1, 6, 0},
	"pyth":      {1, 8, 2, 2, 1, 6, 1},
	"dash":      {9, 1, 2, 0, 0, 8, 0},
	"stack":     {4, 4, 9, 3, 1, 5, 0},
	"zorder":    {2, 1, 1, 1, 8, 9, 1},
	"canvasops": {2, 3, 1, 2, 3, 7, 5},
	"coord":     {1, 4, 2, 8, 1, 7, 1},
	"short":     {3, 3, 2, 2, 1, 5, 1},
}

func (h *hist) genOp() {
	wt := weights[h.fam]
	tot := 0
	for _, x := range wt {
		tot += x
	}
	k := h.r.Intn(tot)
	i := 0
	for ; i < 7; i++ {
		if k < wt[i] {
			break
		}
		k -= wt[i]
	}
	switch i {
	case 0:
		h.genSetter()
	case 1:
		h.genView()
	case 2:
		h.genStack()
	case 3:
		h.genCoord()
	case 4:
		h.genZ()
	case 5:
		h.genDraw()
	default:
		h.genCanvasOp()
	}
}

func newWorld(repo string) *world {
	w := &world{}
	g1 := canvas.NewLinearGradient(canvas.Point{X: 0, Y: 0}, canvas.Point{X: 10, Y: 0})
	g1.Add(0, canvas.Red)
	g1.Add(1, canvas.Blue)
	g2 := canvas.NewRadialGradient(canvas.Point{X: 0, Y: 0}, 1, canvas.Point{X: 0, Y: 0}, 5)
	g2.Add(0, canvas.Black)
	g2.Add(1, canvas.White)
	w.grads = []canvas.Gradient{g1, g2}
	w.pats = []canvas.Pattern{
		canvas.NewLineHatch(canvas.Black, 45, 2, 0.5), canvas.NewCrossHatch(canvas.Red, 0, 90, 2, 2, 0.25),
	}
	w.caps = []canvas.Capper{canvas.ButtCap, canvas.RoundCap, canvas.SquareCap}
	w.joins = []canvas.Joiner{canvas.MiterJoin, canvas.BevelJoin, canvas.RoundJoin, canvas.ArcsJoin}
	w.colors = []color.RGBA{{0, 0, 0, 255}, {255, 0, 0, 255}, {0, 0, 255, 255}, {64, 0, 0, 128}, {0, 0, 0, 0}, {0, 32, 0, 32}}
	fontFile := filepath.Join(repo, "resources", "DejaVuSerif.ttf")
	if font, err := canvas.LoadFontFile(fontFile, canvas.FontRegular); err == nil {
		face := font.Face(12.0, canvas.Black)
		w.texts = append(w.texts, canvas.NewTextLine(face, "ab", canvas.Left), canvas.NewTextLine(face, "Hg q", canvas.Center),
			canvas.NewTextBox(face, "two lines of text", 30, 0, canvas.Left, canvas.Top, 0, 0))
	} else {
		fmt.Fprintln(os.Stderr, "c15: no font, texts disabled:", err)
	}
	w.imgs = []image.Image{image.NewRGBA(image.Rect(0, 0, 8, 6)), image.NewRGBA(image.Rect(2, 3, 18, 7)), image.NewRGBA(image.Rect(0, 0, 0, 0)), image.NewGray(image.Rect(0, 0, 1, 1)),
		image.NewRGBA(image.Rect(0, 0, 40, 10)), image.NewRGBA(image.Rect(1, 1, 10, 38))}
	for k, im := range w.imgs {
		switch v := im.(type) {
		case *image.RGBA:
			for i := 0; i+3 < len(v.Pix); i += 4 {
				v.Pix[i], v.Pix[i+3] = uint8(k+1), 255
			}
		case *image.Gray:
			for i := range v.Pix {
				v.Pix[i] = uint8(k + 1)
			}
		}
	}
	mk := func(s string) *canvas.Path { return canvas.MustParseSVGPath(s) }
	w.paths = []*canvas.Path{
		canvas.Rectangle(10, 6), canvas.Rectangle(1, 1), mk("M0 0L20 0"), mk("M0 0L0 5"), mk("M0 0L3 4"), mk("M1 1L4 1L4 5z"),
		mk("M0 0L2 0L2 2L0 2zM5 5L9 5L9 8z"), mk("M-4 -2L4 -2L4 2L-4 2z"), mk("M0 0L0.5 0"), &canvas.Path{},
	}
	return w
}

func main() {
	seed := flag.Uint64("seed", 1, "")
	n := flag.Int("n", 100, "")
	only := flag.Int("only", -1, "")
	repo := flag.String("repo", os.Getenv("VERIF_REPO"), "repository root (for resources/DejaVuSerif.ttf)")
	flag.Parse()
	if *repo == "" {
		*repo = "/repo"
	}
	o := out.New()
	defer o.Close()
	w := newWorld(*repo)
	root := rng.New(*seed)
	for i := 0; i < *n; i++ {
		if *only >= 0 && i != *only {
			continue
		}
		r := root.Fork(uint64(i))
		fam := families[i%len(families)]
		W := rng.Pick(r, []float64{64, 100, 128, 210, 37.5})
		H := rng.Pick(r, []float64{48, 80, 297, 100, 20.25})
		h := &hist{r: r, w: w, fam: fam, shadow: &canvas.Path{}, zs: map[int]bool{0: true}}
		h.cv = canvas.New(W, H)
		h.ctx = canvas.NewContext(h.cv)
		h.rec = &recorder{w: W, h: H}
		h.dctx = canvas.NewContext(h.rec)
		h.see(W, H, 1)
		nops := r.Range(1, 60)
		if fam == "short" {
			nops = r.Range(1, 8)
		}
		for len(h.ops) < nops {
			h.genOp()
		}
		// final replay through a view
		V := canvas.Identity
		vd := "Identity"
		if r.P(1, 2) {
			V, vd = h.smallMatrix()
		}
		rp := &recorder{w: h.cv.W, h: h.cv.H}
		h.cv.RenderViewTo(rp, V)
		cvW, cvH, cvZ := h.cv.W, h.cv.H, canvas.VerifCanvasZIndex(h.cv)
		// final state of the canvas-backed context
		var stk []string
		gostack := canvas.VerifStack(h.ctx)
		for k := len(gostack) - 1; k >= 0; k-- { // model: top first
			v, cvw, cs := canvas.VerifStateViews(gostack[k])
			stk = append(stk, w.stateS(gostack[k].Style, v, cvw, cs))
			h.seeM(v)
			h.seeM(cvw)
		}
		cur := w.stateS(h.ctx.Style, h.ctx.View(), h.ctx.CoordView(), canvas.VerifCoordSystem(h.ctx))
		dcur := w.stateS(h.dctx.Style, h.dctx.View(), h.dctx.CoordView(), canvas.VerifCoordSystem(h.dctx))
		// Fit and replay again
		mg := rng.Pick(r, []float64{0, 1, 2.5, 10})
		h.cv.Fit(mg)
		fp := &recorder{w: h.cv.W, h: h.cv.H}
		h.cv.RenderTo(fp)
		for _, its := range [][]item{h.rec.items, rp.items, fp.items} {
			for _, it := range its {
				h.seeM(it.m)
			}
		}
		h.see(h.cv.W, h.cv.H, cvW, cvH)
		h.seeM(V)
		_, K := math.Frexp(h.mag) // mag < 2^K
		term := fmt.Sprintf("mkCase15 %s %s %s %s %s %s %s %s %s %s %s %s %s %s %s %s %s",
			qf(W), qf(H), cq.Z(int64(K)), cq.List(h.ops), matS(V),
			w.recsS(h.rec.items), w.recsS(rp.items), cur, cq.List(stk), dcur,
			qf(cvW), qf(cvH), cq.Z(int64(cvZ)),
			qf(mg), w.recsS(fp.items), qf(h.cv.W), qf(h.cv.H))
		desc := map[string]interface{}{
			"W": W, "H": H, "ops": h.desc, "replay_view": vd, "fit_margin": mg,
			"direct_records": len(h.rec.items), "replay_records": len(rp.items),
			"max_stack_depth": h.maxDepth, "distinct_z": len(h.zs),
			"size_after_fit": []float64{h.cv.W, h.cv.H},
			"go_direct":      describe(h.rec.items), "go_replay": describe(rp.items),
		}
		o.Emit(out.Case{I: i, Fam: fam, Coq: term, Desc: desc})
	}
}

func describe(items []item) []string {
	var xs []string
	for _, it := range items {
		switch it.kind {
		case 0:
			xs = append(xs, fmt.Sprintf("path fill=%v stroke=%v w=%g off=%g dashes=%v m=%v", it.style.Fill.Has(), it.style.Stroke.Has(), it.style.StrokeWidth, it.style.DashOffset, it.style.Dashes, it.m))
		case 1:
			xs = append(xs, fmt.Sprintf("text m=%v", it.m))
		default:
			xs = append(xs, fmt.Sprintf("image m=%v", it.m))
		}
	}
	return xs
}

(** Correspondence judge for C16 (text layout).
    KLayout: the public observables of RichText.ToText judged against the property (K2 oracle [chk_layout]) and,
             through the re-derived glyph/item/break inputs, against the line-construction model (tie).
    KTextLine: NewTextLine spans: oracle (disjoint, aligned) + tie to the model of its placement loop.
    KItems: text.GlyphsToItems = the faithful model (binary64 instance), Size partition.
    KReorder: reorderSpans = the model. *)
From Coq Require Import ZArith QArith Qabs List Bool Floats Uint63.
From CV Require Import Base.Dy Text.KPSpec Text.Layout Corr.C17.
Import ListNotations.

Record span16 := mkS16 { sX : Q; sW : Q; sAc : Z; sLen : Z; sLevel : Z; sRtl : bool; sFace : Z; sTextOk : bool;
                         sGl : list (Z * Z * Z) }.      (* glyphs: cluster, rune, XAdvance *)
Definition line16 := (Q * list span16)%type.            (* y as passed to the WalkLines callback (= -line.y) *)
Definition face16 := (Q * Q * Q * Q * Z)%type.          (* Ascent, Descent, LineGap, MmPerEm, advance of '-' *)

Record case16 := mkC16 {
  cText : list Z; cFaces : list face16; cWidth : Q; cHalign : Z; cValign : Z; cIndent : Q; cStretch : Q; cHeight : Q;
  cOvf : bool; cPanic : bool; cBounds : Q * Q * Q * Q; cHeights : Q * Q; cLines : list line16;
  cGlyphs : list (Z * Z * Z * Z);                       (* logical glyphs: cluster, rune, XAdvance, id *)
  cRuns : list (Z * Z * bool * Z);                      (* first glyph, level, rtl, face *)
  cItems : list (Z * Q * Q * Q * Z * bool);             (* type, width, stretch, shrink, Size, forced *)
  cBreaks : list (Z * Q * Q) }.                         (* Position, Ratio, Width *)

Inductive kase :=
| KLayout (c : case16)
(* cov: the span texts, line by line in logical order, are the input without its line separators (compared by the harness) *)
| KTextLine (halign : Z) (panic : bool) (cov : bool) (lines : list line16)
| KItems (glyphs : list (Z * Z * bool * bool)) (align indent : Z) (french : bool) (hyadv : Z) (panic : bool)
         (items : list (Z * Q * Q * Q * Q * bool * Z))
| KReorder (spans : list (Z * Z * Z)) (panic : bool) (xs : list Z).

Definition bit (b : bool) (k : Z) : Z := if b then k else 0%Z.
Definition slack : Q := 1 # 1073741824.                 (* 2^-30 mm, absolute *)
Definition qle (a b : Q) : bool := Qle_bool a (b + slack).
Definition qeq (a b : Q) : bool := qle a b && qle b a.
Definition qmax (a b : Q) : Q := if Qle_bool a b then b else a.
Definition qmin (a b : Q) : Q := if Qle_bool a b then a else b.

(** ---- the input text: (byte offset, rune) ---- *)
Fixpoint offsets (l : list Z) (o : Z) : list (Z * Z) :=
  match l with [] => [] | r :: t => (o, r) :: offsets t (o + utf8_len r)%Z end.
Definition text_len (l : list Z) : Z := fold_left (fun o r => (o + utf8_len r)%Z) l 0%Z.

Definition droppable (r : Z) : bool := is_space r || is_newline r || (r =? zwsp)%Z.

(** all characters with offset in [a, b) satisfy p *)
Definition range_all (txt : list (Z * Z)) (a b : Z) (p : Z -> bool) : bool :=
  forallb (fun or => let '(o, r) := or in if (a <=? o)%Z && (o <? b)%Z then p r else true) txt.
Definition range_any (txt : list (Z * Z)) (a b : Z) (p : Z -> bool) : bool :=
  existsb (fun or => let '(o, r) := or in (a <=? o)%Z && (o <? b)%Z && p r) txt.
Definition rune_at (txt : list (Z * Z)) (o : Z) : Z :=
  match find (fun or => (fst or =? o)%Z) txt with Some (_, r) => r | None => (-1)%Z end.

(** insertion sort of spans by first byte *)
Fixpoint ins_ac (s : span16) (l : list span16) : list span16 :=
  match l with [] => [s] | t :: r => if (sAc s <=? sAc t)%Z then s :: l else t :: ins_ac s r end.
Definition sort_ac (l : list span16) : list span16 := fold_right ins_ac [] l.
Fixpoint ins_x (s : span16) (l : list span16) : list span16 :=
  match l with [] => [s] | t :: r => if Qle_bool (sX s) (sX t) then s :: l else t :: ins_x s r end.
Definition sort_x (l : list span16) : list span16 := fold_right ins_x [] l.

Definition span_end (s : span16) : Z := (sAc s + sLen s)%Z.

(** coverage: walking the spans in logical order; [pos] = end of the previous span; [sameline] = the previous
    span is on the same line (then no character may be skipped at all) *)
Fixpoint cover_line (txt : list (Z * Z)) (sps : list span16) (pos : Z) (sameline : bool) : bool * Z :=
  match sps with
  | [] => (true, pos)
  | s :: r =>
    let ok := sTextOk s && (pos <=? sAc s)%Z && (0 <? sLen s)%Z &&
              (if sameline then (pos =? sAc s)%Z else range_all txt pos (sAc s) droppable) in
    let '(ok', p') := cover_line txt r (span_end s) true in (ok && ok', p')
  end.

Fixpoint cover_lines (txt : list (Z * Z)) (ls : list line16) (pos : Z) : bool * Z :=
  match ls with
  | [] => (true, pos)
  | (_, sps) :: r =>
    let '(ok, p) := cover_line txt (sort_ac sps) pos false in
    let '(ok', p') := cover_lines txt r p in (ok && ok', p')
  end.

Definition chk_cover (txt : list (Z * Z)) (n : Z) (ls : list line16) : bool :=
  let '(ok, p) := cover_lines txt ls 0%Z in ok && range_all txt p n droppable.

(** glyph clusters lie inside their span's byte range *)
Definition chk_clusters (ls : list line16) : bool :=
  forallb (fun l => forallb (fun s => forallb (fun g => let '(c, _, _) := g in (sAc s <=? c)%Z && (c <? span_end s)%Z) (sGl s)) (snd l)) ls.

(** soft hyphens: shown as '-' exactly when they are the logically last glyph of a line *)
Definition line_glyphs (l : line16) : list (Z * Z * Z) := flat_map sGl (snd l).
Definition max_cluster (gs : list (Z * Z * Z)) : Z := fold_left (fun m g => Z.max m (fst (fst g))) gs (-1)%Z.
Definition chk_shy (txt : list (Z * Z)) (ls : list line16) : bool :=
  forallb (fun l =>
    let gs := line_glyphs l in
    let mc := max_cluster gs in
    forallb (fun g => let '(c, r, _) := g in
                      if (rune_at txt c =? shy)%Z then Bool.eqb (r =? hyphen)%Z (c =? mc)%Z else true) gs) ls.

(** newlines: no line covers a newline character; there are at least (#separators + 1) lines *)
Fixpoint count_seps (l : list Z) : Z :=
  match l with
  | [] => 0
  | r :: t => if is_newline r then
                (match t with n :: _ => if (r =? 13)%Z && (n =? 10)%Z then 0 else 1 | [] => 1 end + count_seps t)%Z
              else count_seps t
  end.
Definition line_lo (l : line16) : Z := fold_left (fun m s => Z.min m (sAc s)) (snd l) 1000000000%Z.
Definition line_hi (l : line16) : Z := fold_left (fun m s => Z.max m (span_end s)) (snd l) (-1)%Z.
Definition chk_newline (runes : list Z) (txt : list (Z * Z)) (ls : list line16) : bool :=
  forallb (fun l => negb (range_any txt (line_lo l) (line_hi l) is_newline)) ls &&
  (match runes with [] => true | _ => (count_seps runes + 1 <=? Z.of_nat (length ls))%Z end).

(** ---- geometry ---- *)
Definition face_at (fs : list face16) (k : Z) : face16 := nth (Z.to_nat k) fs (0, 0, 0, 0, 0%Z).
Definition fAsc (f : face16) : Q := let '(a, _, _, _, _) := f in a.
Definition fDesc (f : face16) : Q := let '(_, d, _, _, _) := f in d.
Definition fGap (f : face16) : Q := let '(_, _, g, _, _) := f in g.
Definition fMm (f : face16) : Q := let '(_, _, _, m, _) := f in m.

Definition line_asc (fs : list face16) (l : line16) : Q := fold_left (fun m s => qmax m (fAsc (face_at fs (sFace s)))) (snd l) 0.
Definition line_desc (fs : list face16) (l : line16) : Q := fold_left (fun m s => qmax m (fDesc (face_at fs (sFace s)))) (snd l) 0.
Definition line_bot (fs : list face16) (l : line16) : Q :=
  fold_left (fun m s => let f := face_at fs (sFace s) in qmax m (fDesc f + fGap f)) (snd l) 0.

(** candidates (ascent, bottom) for a line: of its spans, or of any face for an empty line *)
Definition line_ab (fs : list face16) (l : line16) : list (Q * Q) :=
  match snd l with
  | [] => map (fun f => (fAsc f, fDesc f + fGap f)) fs
  | _ => [(line_asc fs l, line_bot fs l)]
  end.

(** y_{j+1} - y_j = bottom_j*(1+stretch) + ascent_{j+1}*(1+stretch)  (Y = -y observed); for vertical Justify >= *)
Fixpoint chk_stack (fs : list face16) (ls : Q) (vjust : bool) (lines : list line16) : bool :=
  match lines with
  | l1 :: ((l2 :: _) as r) =>
    let d := (- fst l2) - (- fst l1) in
    Qle_bool 0 d &&
    existsb (fun ab1 => existsb (fun ab2 =>
        let e := snd ab1 * ls + fst ab2 * ls in
        if vjust then qle e d else qeq d e) (line_ab fs l2)) (line_ab fs l1) &&
    chk_stack fs ls vjust r
  | _ => true
  end.

Definition sp3 (s : span16) : span3 := (sX s, sW s, sLevel s).

Definition chk_disjoint (lines : list line16) : bool :=
  forallb (fun l => let fix go (sps : list span16) : bool :=
                      match sps with
                      | a :: ((b :: _) as r) => qle (sX a + sW a) (sX b) && go r
                      | _ => true
                      end in go (sort_x (snd l))) lines.

Definition line_minx (l : line16) : Q := match snd l with [] => 0 | s :: r => fold_left (fun m t => qmin m (sX t)) r (sX s) end.
Definition line_maxx (l : line16) : Q :=
  match snd l with [] => 0 | s :: r => fold_left (fun m t => qmax m (sX t + sW t)) r (sX s + sW s) end.

(** half a font unit per glyph of the line: the proved bound on the rounding of the glue adjustment *)
Definition unit_bound (fs : list face16) (l : line16) : Q :=
  fold_left (fun b s => b + fMm (face_at fs (sFace s)) * inject_Z (Z.of_nat (length (sGl s))) / 2) (snd l) slack.

Definition chk_inside (fs : list face16) (width : Q) (lines : list line16) : bool :=
  forallb (fun l => match snd l with
                    | [] => true
                    | _ => Qle_bool (- slack) (line_minx l) && Qle_bool (line_maxx l) (width + unit_bound fs l)
                    end) lines.

(** per line: does the alignment equation hold? *)
Definition align_ok (halign : Z) (width ind : Q) (l : line16) : bool :=
  match snd l with
  | [] => true
  | _ =>
    (* Right/Center are relative to the box: not judged when the width is unspecified (0) *)
    if (halign =? 1)%Z then Qeq_bool width 0 || qeq (line_maxx l) width
    else if (halign =? 2)%Z then Qeq_bool width 0 || qeq (line_minx l - ind) (width - line_maxx l)
    else qeq (line_minx l) ind
  end.

(** exact trigger of the known finding "break width counts whitespace that is dropped at the line end":
    the characters dropped after the line (up to the next non-empty line) hold a space and at least one more
    droppable character (space before an explicit newline, consecutive spaces, ...) *)
Definition next_lo (rest : list line16) (n : Z) : Z :=
  fold_right (fun l acc => match snd l with [] => acc | _ => line_lo l end) n rest.
Definition count_in (txt : list (Z * Z)) (a b : Z) (p : Z -> bool) : nat :=
  length (filter (fun or => let '(o, r) := or in (a <=? o)%Z && (o <? b)%Z && p r) txt).
Definition trailing_ws_trigger (txt : list (Z * Z)) (n : Z) (l : line16) (rest : list line16) : bool :=
  let a := line_hi l in let b := next_lo rest n in
  (1 <=? count_in txt a b is_space)%nat && (2 <=? count_in txt a b droppable)%nat.

(** (some line fails without excuse, some line fails with the trailing-whitespace excuse) *)
Fixpoint chk_align (txt : list (Z * Z)) (n : Z) (halign : Z) (width indent : Q) (first : bool) (lines : list line16) : bool * bool :=
  match lines with
  | [] => (false, false)
  | l :: r =>
    let '(bad, exc) := chk_align txt n halign width indent false r in
    if align_ok halign width (if first then indent else 0) l then (bad, exc)
    else if ((halign =? 1)%Z || (halign =? 2)%Z) && trailing_ws_trigger txt n l r then (bad, true)
    else (true, exc)
  end.

(** justified lines: (items, breaks) tell which lines end a paragraph and which ratio the breaker chose *)
Definition item_forced (its : list (Z * Q * Q * Q * Z * bool)) (p : Z) : bool :=
  match nth_error its (Z.to_nat p) with Some (_, _, _, _, _, f) => f | None => true end.

Definition orig_adv (gl : list (Z * Z * Z * Z)) (c : Z) : option Z :=
  match find (fun g => let '(c', _, _, _) := g in (c' =? c)%Z) gl with Some (_, _, a, _) => Some a | None => None end.

Definition unstretched (txt : list (Z * Z)) (gl : list (Z * Z * Z * Z)) (l : line16) : bool :=
  forallb (fun g => let '(c, r, a) := g in
                    if (rune_at txt c =? shy)%Z && (r =? hyphen)%Z then true
                    else match orig_adv gl c with Some a0 => (a =? a0)%Z | None => true end) (line_glyphs l).

Fixpoint chk_justify (c : case16) (txt : list (Z * Z)) (lines : list line16) (brs : list (Z * Q * Q)) : bool :=
  match lines, brs with
  | l :: lr, (p, ratio, _) :: br =>
    (match snd l with
     | [] => true
     | _ =>
       if item_forced (cItems c) p then true
       else if Qeq_bool ratio 0 then unstretched txt (cGlyphs c) l
       else Qle_bool (Qabs (line_maxx l - cWidth c)) (unit_bound (cFaces c) l)
     end) && chk_justify c txt lr br
  | _, _ => true
  end.

Definition chk_bounds (c : case16) : bool :=
  let '(x0, y0, x1, y1) := cBounds c in
  let '(top, bottom) := cHeights c in
  forallb (fun l => forallb (fun s =>
      let f := face_at (cFaces c) (sFace s) in
      qle x0 (sX s) && qle (sX s + sW s) x1 && qle y0 (fst l - fDesc f) && qle (fst l + fAsc f) y1 &&
      qle (fst l + fAsc f) top && qle (- bottom) (fst l - fDesc f)) (snd l)) (cLines c).

(** tie of the line-loop bookkeeping model (Layout.line_step): the number of glyphs in the spans of every line *)
Definition kind_of (k : Z) : ity := if (k =? 0)%Z then TBox else if (k =? 1)%Z then TGlue else TPen.
Fixpoint model_counts (rest : list bitem) (gl : list (Z * Z * Z * Z)) (ai ag : nat) (brs : list (Z * Q * Q)) : list nat :=
  match brs with
  | [] => []
  | (p, _, _) :: r =>
    let k := (Z.to_nat p - ai)%nat in
    let bgpos := (ag + sizes (firstn k rest))%nat in
    let hyph := match nth_error rest k with
                | Some (TPen, 1%nat) => match nth_error gl bgpos with Some (_, ru, _, _) => (ru =? shy)%Z | None => false end
                | _ => false
                end in
    let '(rg, rest', ag') := line_step rest hyph ag k in
    (rB1 rg - rA1 rg)%nat :: model_counts rest' gl (ai + (length rest - length rest'))%nat ag' r
  end.
Definition chk_counts (c : case16) : bool :=
  let its := map (fun t => let '(k, _, _, _, sz, _) := t in (kind_of k, Z.to_nat sz)) (cItems c) in
  let m := model_counts its (cGlyphs c) 0 0 (cBreaks c) in
  let g := map (fun l => length (line_glyphs l)) (cLines c) in
  (length m =? length g)%nat && forallb (fun p => Nat.eqb (fst p) (snd p)) (combine m g).

(** flags of a layout case:
    1 characters not covered exactly once in logical order (or a non-droppable character skipped / skipped inside a line)
    2 tie: number of lines differs from the number of breaks / glyph cluster outside its span / glyphs per line differ
      from the line-loop bookkeeping model run on the real items and breaks
    4 soft hyphen not shown as hyphen at a break (or shown elsewhere)
    8 lines not stacked by their heights        16 spans on a line overlap
    32 line leaves the box although Overflows is false     64 alignment equation fails
    128 justified line neither ends at the width nor is left unstretched
    256 explicit newline does not start a new line         512 Bounds/Heights do not enclose a span
    1024 panic / non-finite value
    2048 (known finding) Right/Center line misplaced by whitespace dropped at its end that the break width counted
    4096 (known finding, C17 overflow-fallback-width) Right/Center line misplaced in a layout that reports Overflows
    8192 (same known finding) justified line not at the width in a layout that reports Overflows *)
Definition chk_layout (c : case16) : Z :=
  if cPanic c then 1024%Z else
  let txt := offsets (cText c) 0%Z in
  let n := text_len (cText c) in
  let ls := cLines c in
  let vj := (cValign c =? 6)%Z in
  (bit (negb (chk_cover txt n ls)) 1
   + bit (negb (chk_clusters ls && (length ls =? length (cBreaks c))%nat && chk_counts c)) 2
   + bit (negb (chk_shy txt ls)) 4
   + bit (negb (chk_stack (cFaces c) (1 + cStretch c) vj ls)) 8
   + bit (negb (chk_disjoint ls)) 16
   + bit (negb (cOvf c) && negb (Qeq_bool (cWidth c) 0) && negb (chk_inside (cFaces c) (cWidth c) ls)) 32
   + (let '(bad, exc) := chk_align txt n (cHalign c) (cWidth c) (cIndent c) true ls in
      let rc := (cHalign c =? 1)%Z || (cHalign c =? 2)%Z in
      bit (bad && negb (rc && cOvf c)) 64 + bit exc 2048 + bit (bad && rc && cOvf c) 4096)
   + (let jbad := (cHalign c =? 3)%Z && negb (Qeq_bool (cWidth c) 0) && negb (chk_justify c txt ls (cBreaks c)) in
      bit (jbad && negb (cOvf c)) 128 + bit (jbad && cOvf c) 8192)
   + bit (negb (chk_newline (cText c) txt ls)) 256
   + bit (negb (chk_bounds c)) 512)%Z.

(** ---- NewTextLine ---- *)
(* reorderSpans changes X only: the slice order handed to WalkLines is the logical order *)
Definition line_spans_logical (l : line16) : list span16 := snd l.

(** flags: 16 spans overlap, 64 alignment (Left: starts at 0, Right: ends at 0, Center: symmetric about 0),
           1 tie: X of the spans differ from the model of the placement loop, 1024 panic *)
Definition chk_textline (halign : Z) (panic : bool) (lines : list line16) : Z :=
  if panic then 1024%Z else
  let tie := forallb (fun l =>
      let lg := line_spans_logical l in
      let m := textline_spans true halign (map (fun s => (sW s, sLevel s)) lg) in
      (length m =? length lg)%nat && forallb (fun p => qeq (spX (fst p)) (sX (snd p))) (combine m lg)) lines in
  let al := forallb (fun l => match snd l with
                              | [] => true
                              | _ => if (halign =? 1)%Z then qeq (line_maxx l) 0
                                     else if (halign =? 2)%Z then qeq (- line_minx l) (line_maxx l)
                                     else qeq (line_minx l) 0
                              end) lines in
  (bit (negb tie) 1 + bit (negb (chk_disjoint lines)) 16 + bit (negb al) 64)%Z.

(** ---- reorderSpans ---- *)
Definition chk_reorder (spans : list (Z * Z * Z)) (panic : bool) (xs : list Z) : Z :=
  if panic then 1024%Z else
  let m := reorder_spans (map (fun t => let '(x, w, l) := t in (inject_Z x, inject_Z w, l)) spans) in
  bit (negb ((length m =? length xs)%nat && forallb (fun p => Qeq_bool (spX (fst p)) (inject_Z (snd p))) (combine m xs))) 1.

(** ---- GlyphsToItems: the model on binary64 (instance FO of Corr/C17.v) = what Go returned, field by field;
        and the Size partition on Go's items ---- *)
Definition f_of_q (q : Q) : float :=        (* the harness sends dyadic rationals: numerator / 2^k *)
  PrimFloat.div (fofZ (Qnum q)) (fofZ (Zpos (Qden q))).

Definition kind_code (k : ity) : Z := match k with TBox => 0 | TGlue => 1 | TPen => 2 end.

Definition chk_items (gl : list (Z * Z * bool * bool)) (align indent : Z) (french : bool) (hy : Z) (panic : bool)
                     (its : list (Z * Q * Q * Q * Q * bool * Z)) : Z :=
  if panic then 1024%Z else
  let g := map (fun t => let '(r, a, sl, up) := t in mkGlyph r (fofZ a) sl up (fofZ hy)) gl in
  let m := glyphs_to_items FO french g (fofZ indent) align in
  let same := (length m =? length its)%nat &&
              forallb (fun p => let '(it, (k, w, y, z, pe, fl, sz)) := p in
                         (kind_code (lk it) =? k)%Z && PrimFloat.eqb (lw it) (f_of_q w) && PrimFloat.eqb (ly it) (f_of_q y) &&
                         PrimFloat.eqb (lz it) (f_of_q z) && PrimFloat.eqb (lp it) (f_of_q pe) && Bool.eqb (lfl it) fl &&
                         (Z.of_nat (lsize it) =? sz)%Z) (combine m its) in
  let total := fold_left (fun s t => let '(_, _, _, _, _, _, sz) := t in (s + sz)%Z) its 0%Z in
  let has_disc := existsb (fun t => let '(r, _, _, _) := t in (r =? shy)%Z || (r =? zwsp)%Z) gl in
  (* Size partition: every glyph is counted in exactly one item (known exception: Centered drops soft hyphens) *)
  let part := (total =? Z.of_nat (length gl))%Z || ((align =? 2)%Z && has_disc) in
  (bit (negb same) 1 + bit (negb part) 2)%Z.

(** judge: [kind; flags; size info...] *)
Definition judge (k : kase) : list Z :=
  match k with
  | KLayout c => [0; chk_layout c; Z.of_nat (length (cLines c)); Z.of_nat (length (flat_map snd (cLines c)));
                  bit (existsb (fun l => existsb sRtl (snd l)) (cLines c)) 1]%Z
  | KTextLine h p cov ls => [1; (chk_textline h p ls + bit (negb p && negb cov) 4)%Z; Z.of_nat (length ls); Z.of_nat (length (flat_map snd ls));
                         bit (existsb (fun l => (1 <? length (snd l))%nat) ls) 1]%Z
  | KItems gl al ind fr hy p its => [2; chk_items gl al ind fr hy p its; Z.of_nat (length gl); Z.of_nat (length its); 0]%Z
  | KReorder sp p xs => [3; chk_reorder sp p xs; Z.of_nat (length sp); 0; 0]%Z
  end.

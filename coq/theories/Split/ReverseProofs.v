(** C09 — proofs about the faithful model of Path.Reverse. *)
From Coq Require Import ZArith QArith List Bool Lia.
From CV Require Import PathEnc.Enc Split.Reverse.
Import ListNotations.
Open Scope Q_scope.

(** records that draw (no MoveTo, no Close) *)
Definition draws (s : seg) : bool := match s with SM _ | SZ _ => false | _ => true end.
Definition all_draw (l : list seg) : Prop := Forall (fun s => draws s = true) l.

(** the reversed record: same kind, controls swapped, sweep flipped, new end point *)
Definition retarget (s : seg) (e : pt) : seg :=
  match s with
  | SM _ => SM e | SZ _ => SZ e
  | SL _ => SL e
  | SQ c _ => SQ c e
  | SC c1 c2 _ => SC c2 c1 e
  | SA rx ry phi fl _ => SA rx ry phi (flip_sweep fl) e
  end.

(** specification of the reversed body of an open subpath that started at p0; [rs] = body, last record first *)
Fixpoint rev_spec (rs : list seg) (p0 : pt) : list seg :=
  match rs with
  | [] => []
  | x :: r => retarget x (match r with [] => p0 | y :: _ => seg_end y end) :: rev_spec r p0
  end.

Lemma prev_end_app r p0 : prev_end (r ++ [SM p0]) = match r with [] => p0 | y :: _ => seg_end y end.
Proof. destruct r; reflexivity. Qed.

Lemma at0_app r (x : seg) : at0 (r ++ [x]) = false.
Proof. destruct r; reflexivity. Qed.

(** open subpath: with no Close pending the loop emits exactly [rev_spec] *)
Lemma rev_go_open rs : forall p0 first start, all_draw rs ->
  rev_go (rs ++ [SM p0]) false first start = rev_spec rs p0.
Proof.
  induction rs as [|x r IH]; intros p0 first start Hd.
  - reflexivity.
  - inversion Hd as [|? ? Hx Hr]; subst.
    change ((x :: r) ++ [SM p0]) with (x :: (r ++ [SM p0])).
    destruct x; try discriminate; cbn [rev_go rev_spec retarget andb]; rewrite prev_end_app;
      f_equal; apply IH; assumption.
Qed.

(** reverse_points (open subpath, every segment type): Reverse(M p0 body) = M (last point) followed by the records of
    the body in reverse order, each with swapped control points / flipped sweep and ending where its predecessor ended *)
Theorem reverse_open p0 body : all_draw body ->
  reverse (SM p0 :: body) = SM (seg_end (last body (SM p0))) :: rev_spec (rev body) p0.
Proof.
  intro Hd. unfold reverse. cbn [rev]. 
  assert (Hr : all_draw (rev body)) by (apply Forall_rev; exact Hd).
  destruct (rev body) as [|x r] eqn:E.
  - assert (body = []) by (apply (f_equal (@rev seg)) in E; rewrite rev_involutive in E; exact E).
    subst. reflexivity.
  - cbn [app]. 
    assert (Hl : last body (SM p0) = x).
    { apply (f_equal (@rev seg)) in E. rewrite rev_involutive in E. subst body. cbn [rev].
      apply last_last. }
    rewrite Hl. f_equal. change (x :: r ++ [SM p0]) with ((x :: r) ++ [SM p0]). apply rev_go_open. exact Hr.
Qed.

(** the on-curve points come out in reverse order *)
Lemma rev_spec_ends rs p0 : map seg_end (rev_spec rs p0) = tl (map seg_end (rs ++ [SM p0])).
Proof.
  induction rs as [|x r IH]; [reflexivity|].
  cbn [rev_spec map app tl]. rewrite IH.
  destruct r as [|y r']; destruct x; reflexivity.
Qed.

Theorem reverse_points p0 body : all_draw body ->
  map seg_end (reverse (SM p0 :: body)) = rev (map seg_end (SM p0 :: body)).
Proof.
  intro Hd. rewrite (reverse_open p0 body Hd). rewrite <- map_rev. cbn [rev].
  change (map seg_end (SM (seg_end (last body (SM p0))) :: rev_spec (rev body) p0))
    with (seg_end (last body (SM p0)) :: map seg_end (rev_spec (rev body) p0)).
  rewrite rev_spec_ends.
  destruct (rev body) as [|x r] eqn:E.
  - assert (body = []) by (apply (f_equal (@rev seg)) in E; rewrite rev_involutive in E; exact E).
    subst. reflexivity.
  - assert (Hl : last body (SM p0) = x).
    { apply (f_equal (@rev seg)) in E. rewrite rev_involutive in E. subst body. cbn [rev]. apply last_last. }
    rewrite Hl. reflexivity.
Qed.

(** Reverse works subpath by subpath: the subpaths come out in reverse order, each reversed on its own.
    [b] is the last subpath (starts with a MoveTo, contains no other MoveTo), [a] everything before it. *)
Definition no_move (l : list seg) : Prop := Forall (fun s => match s with SM _ => False | _ => True end) l.

Lemma rev_go_app l : forall q r closed first start, no_move l -> r <> [] ->
  rev_go (l ++ SM q :: r) closed first start =
  rev_go (l ++ [SM q]) closed first start ++ SM (prev_end r) :: rev_go r false (prev_end r) (prev_end r).
Proof.
  induction l as [|x l IH]; intros q r closed first start Hn Hr.
  - cbn [app rev_go]. destruct r as [|y r']; [congruence|]. cbn [at0 prev_end close_if app].
    destruct closed; cbn [close_if app]; rewrite ?app_nil_r; reflexivity.
  - inversion Hn as [|? ? Hx Hl]; subst.
    change ((x :: l) ++ SM q :: r) with (x :: (l ++ SM q :: r)).
    change ((x :: l) ++ [SM q]) with (x :: (l ++ [SM q])).
    assert (E1 : prev_end (l ++ SM q :: r) = prev_end (l ++ [SM q])) by (destruct l; reflexivity).
    assert (E2 : at0 (l ++ SM q :: r) = false) by (destruct l; reflexivity).
    assert (E3 : at0 (l ++ [SM q]) = false) by (destruct l; reflexivity).
    assert (E4 : prev_is_move (l ++ SM q :: r) = prev_is_move (l ++ [SM q])) by (destruct l; reflexivity).
    destruct x; try contradiction; cbn [rev_go]; rewrite E1, ?E2, ?E3, ?E4.
    + destruct (closed && (false || prev_is_move (l ++ [SM q]))); cbn [app]; f_equal; apply IH; assumption.
    + cbn [app]. f_equal. apply IH; assumption.
    + cbn [app]. f_equal. apply IH; assumption.
    + cbn [app]. f_equal. apply IH; assumption.
    + rewrite <- app_assoc. f_equal. apply IH; assumption.
Qed.

Theorem reverse_app a q body : a <> [] -> no_move body ->
  reverse (a ++ SM q :: body) = reverse (SM q :: body) ++ reverse a.
Proof.
  intros Ha Hn. unfold reverse.
  rewrite rev_app_distr. cbn [rev]. rewrite <- !app_assoc. cbn [app].
  assert (Hra : rev a <> []).
  { intro H. apply Ha. apply (f_equal (@rev seg)) in H. rewrite rev_involutive in H. exact H. }
  assert (Hnb : no_move (rev body)) by (apply Forall_rev; exact Hn).
  destruct (rev a) as [|y ra] eqn:Ea; [congruence|].
  destruct (rev body) as [|x rb] eqn:Eb.
  - cbn [app rev_go at0 prev_end close_if]. reflexivity.
  - cbn [app]. f_equal.
    change (x :: rb ++ SM q :: y :: ra) with ((x :: rb) ++ SM q :: y :: ra).
    rewrite rev_go_app by (auto; congruence).
    change (x :: rb ++ [SM q]) with ((x :: rb) ++ [SM q]). reflexivity.
Qed.

(** flipping the sweep flag twice gives the flag back (flags 0..3 as stored by ArcTo) *)
Lemma flip_sweep_invol fl : In fl [0; 1; 2 # 1; 3 # 1] -> flip_sweep (flip_sweep fl) = fl.
Proof. intros [H|[H|[H|[H|[]]]]]; subst; reflexivity. Qed.

(** reverse_closed: a path ends with a Close after reversal iff ... for a single closed polygon
    M p0 L p1 .. L pn z: Reverse = M p0 L pn .. L p1 z (normal form: Close of positive length) *)
Fixpoint lines (ps : list pt) : list seg := match ps with [] => [] | p :: r => SL p :: lines r end.

Lemma lines_app a b : lines (a ++ b) = lines a ++ lines b.
Proof. induction a as [|x a IH]; [reflexivity|]. cbn [app lines]. rewrite IH. reflexivity. Qed.

Lemma rev_lines ps : rev (lines ps) = lines (rev ps).
Proof. induction ps as [|p r IH]; [reflexivity|]. cbn [lines rev]. rewrite IH, lines_app. reflexivity. Qed.

(** the loop on the (reversed) LineTo records of a closed polygon: all but the first original LineTo are re-targeted,
    the first one becomes the Close *)
Lemma rev_go_closed_lines ps : forall p0 first start, ps <> [] ->
  rev_go (lines ps ++ [SM p0]) true first start = lines (tl ps) ++ [SZ first].
Proof.
  induction ps as [|p r IH]; intros p0 first start Hne; [congruence|].
  destruct r as [|p' r'].
  - cbn. reflexivity.
  - change (lines (p :: p' :: r') ++ [SM p0]) with (SL p :: (lines (p' :: r') ++ [SM p0])).
    remember (lines (p' :: r') ++ [SM p0]) as rr eqn:Err.
    assert (H1 : at0 rr = false) by (subst rr; reflexivity).
    assert (H2 : prev_is_move rr = false) by (subst rr; reflexivity).
    assert (H3 : prev_end rr = p') by (subst rr; reflexivity).
    cbn [rev_go]. rewrite H1, H2, H3. cbn [andb orb].
    subst rr. rewrite IH by congruence. reflexivity.
Qed.

Theorem reverse_closed_polygon p0 p1 ps : pt_eqb p0 (last (p1 :: ps) p0) = false ->
  reverse (SM p0 :: lines (p1 :: ps) ++ [SZ p0]) = SM p0 :: lines (rev (p1 :: ps)) ++ [SZ p0].
Proof.
  intro Hne. unfold reverse. cbn [rev]. rewrite rev_app_distr. cbn [rev app].
  cbn [seg_end]. f_equal. cbn [rev_go].
  rewrite rev_lines.
  set (rp := rev (p1 :: ps)).
  assert (Hrp : rp <> []) by (unfold rp; cbn [rev]; destruct (rev ps); cbn; congruence).
  assert (Hpe : prev_end (lines rp ++ [SM p0]) = last (p1 :: ps) p0).
  { unfold rp. cbn [rev]. clear. generalize p1. induction ps as [|x r IH] using rev_ind; intro q.
    - reflexivity.
    - rewrite rev_app_distr. cbn [rev app lines prev_end seg_end].
      change (q :: r ++ [x]) with ((q :: r) ++ [x]). rewrite last_last. reflexivity. }
  rewrite Hpe, Hne.
  rewrite rev_go_closed_lines by exact Hrp.
  destruct rp as [|z rz] eqn:Ez; [congruence|].
  cbn [tl lines app]. f_equal.
  - f_equal. (* z = last point *)
    assert (z = last (p1 :: ps) p0).
    { unfold rp in Ez. clear -Ez. revert z rz Ez. generalize p1. induction ps as [|x r IH] using rev_ind; intros q z rz Ez.
      - cbn in Ez. inversion Ez. reflexivity.
      - change (q :: r ++ [x]) with ((q :: r) ++ [x]) in *. rewrite rev_app_distr in Ez. cbn in Ez. inversion Ez; subst.
        rewrite last_last. reflexivity. }
    subst z. unfold rp in Ez. cbn [rev] in Ez. rewrite Ez. reflexivity.
Qed.

(** reverse_involutive on closed polygons in normal form (Close of positive length, first edge of positive length) *)
Theorem reverse_involutive_polygon p0 p1 ps :
  pt_eqb p0 (last (p1 :: ps) p0) = false -> pt_eqb p0 p1 = false ->
  reverse (reverse (SM p0 :: lines (p1 :: ps) ++ [SZ p0])) = SM p0 :: lines (p1 :: ps) ++ [SZ p0].
Proof.
  intros H1 H2. rewrite (reverse_closed_polygon p0 p1 ps H1).
  destruct (rev (p1 :: ps)) as [|q1 qs] eqn:E.
  - exfalso. apply (f_equal (@length pt)) in E. rewrite rev_length in E. cbn in E. lia.
  - rewrite reverse_closed_polygon.
    + rewrite <- E, rev_involutive. reflexivity.
    + rewrite <- E. cbn [rev]. rewrite last_last. exact H2.
Qed.

(** ---------------------------------------------------------------------------------------------------------
    Reverse is an involution on paths of OPEN subpaths with every segment type (lines, quadratics, cubics, arcs). *)
Definition flag_ok (s : seg) : Prop :=
  match s with SA _ _ _ fl _ => In fl [0; 1; 2 # 1; 3 # 1] | _ => True end.
Definition flags_ok (l : list seg) : Prop := Forall flag_ok l.

Lemma retarget_draws s e : draws (retarget s e) = draws s.
Proof. destruct s; reflexivity. Qed.
Lemma retarget_end s e : seg_end (retarget s e) = e.
Proof. destruct s; reflexivity. Qed.
Lemma retarget_flag_ok s e : flag_ok s -> flag_ok (retarget s e).
Proof.
  destruct s; cbn [retarget flag_ok]; auto.
  intros [H|[H|[H|[H|[]]]]]; subst; vm_compute; auto 6.
Qed.
Lemma retarget_retarget s a : draws s = true -> flag_ok s -> retarget (retarget s a) (seg_end s) = s.
Proof.
  destruct s; cbn [draws]; try discriminate; intros _ Hf; cbn [retarget seg_end]; try reflexivity.
  cbn [flag_ok] in Hf. rewrite (flip_sweep_invol _ Hf). reflexivity.
Qed.

(** the reversed body, read forwards: every record re-targeted to its own START point *)
Fixpoint to_starts (b : list seg) (p0 : pt) : list seg :=
  match b with [] => [] | s :: r => retarget s p0 :: to_starts r (seg_end s) end.

Lemma rev_spec_snoc rs x p0 : rev_spec (rs ++ [x]) p0 = rev_spec rs (seg_end x) ++ [retarget x p0].
Proof.
  induction rs as [|y r IH]; [reflexivity|].
  cbn [app rev_spec]. rewrite IH. destruct r; reflexivity.
Qed.

Lemma rev_rev_spec b : forall p0, rev (rev_spec (rev b) p0) = to_starts b p0.
Proof.
  induction b as [|s r IH]; intro p0; [reflexivity|].
  cbn [rev to_starts]. rewrite rev_spec_snoc, rev_app_distr. cbn [rev app]. rewrite IH. reflexivity.
Qed.

Definition end_of (b : list seg) (p0 : pt) : pt := seg_end (last b (SM p0)).

Lemma last_default (l : list seg) : forall d d', l <> [] -> last l d = last l d'.
Proof.
  induction l as [|x r IH]; intros d d' H; [congruence|].
  destruct r as [|y r']; [reflexivity|]. cbn [last]. apply IH. congruence.
Qed.
Lemma end_of_cons s r p0 : end_of (s :: r) p0 = end_of r (seg_end s).
Proof.
  unfold end_of. destruct r as [|y r']; [reflexivity|].
  change (last (s :: y :: r') (SM p0)) with (last (y :: r') (SM p0)).
  f_equal. apply last_default. congruence.
Qed.

Lemma rev_spec_to_starts b : forall p0, all_draw b -> flags_ok b ->
  rev_spec (to_starts b p0) (end_of b p0) = b.
Proof.
  induction b as [|s r IH]; intros p0 Hd Hf; [reflexivity|].
  inversion Hd as [|? ? Hs Hr]; subst. inversion Hf as [|? ? Fs Fr]; subst.
  cbn [to_starts rev_spec]. rewrite end_of_cons. rewrite (IH (seg_end s) Hr Fr). f_equal.
  destruct r as [|y r'].
  - cbn [to_starts]. unfold end_of. cbn [last seg_end]. apply retarget_retarget; assumption.
  - cbn [to_starts]. rewrite retarget_end. apply retarget_retarget; assumption.
Qed.

Lemma all_draw_rev_spec rs p0 : all_draw rs -> all_draw (rev_spec rs p0).
Proof.
  induction rs as [|x r IH]; intro H; [constructor|].
  inversion H; subst. cbn [rev_spec]. constructor; [rewrite retarget_draws; assumption | apply IH; assumption].
Qed.
Lemma flags_ok_rev_spec rs p0 : flags_ok rs -> flags_ok (rev_spec rs p0).
Proof.
  induction rs as [|x r IH]; intro H; [constructor|].
  inversion H; subst. cbn [rev_spec]. constructor; [apply retarget_flag_ok; assumption | apply IH; assumption].
Qed.

Lemma last_rev_spec_end rs p0 e : rs <> [] -> seg_end (last (rev_spec rs p0) (SM e)) = p0.
Proof.
  induction rs as [|x r IH]; intro H; [congruence|].
  destruct r as [|y r'].
  - cbn [rev_spec last]. apply retarget_end.
  - change (rev_spec (x :: y :: r') p0) with (retarget x (seg_end y) :: rev_spec (y :: r') p0).
    assert (Hn : rev_spec (y :: r') p0 <> []) by (cbn [rev_spec]; congruence).
    assert (IH' : seg_end (last (rev_spec (y :: r') p0) (SM e)) = p0) by (apply IH; congruence).
    remember (rev_spec (y :: r') p0) as L eqn:EL. destruct L as [|z zs]; [congruence|].
    cbn [last]. exact IH'.
Qed.

(** one open subpath *)
Theorem reverse_involutive_open p0 body : all_draw body -> flags_ok body ->
  reverse (reverse (SM p0 :: body)) = SM p0 :: body.
Proof.
  intros Hd Hf. rewrite (reverse_open p0 body Hd).
  assert (Hd' : all_draw (rev_spec (rev body) p0)) by (apply all_draw_rev_spec, Forall_rev; exact Hd).
  rewrite (reverse_open _ _ Hd'). rewrite rev_rev_spec.
  destruct body as [|s r].
  - reflexivity.
  - f_equal.
    + f_equal. apply last_rev_spec_end. cbn [rev]. destruct (rev r); cbn; congruence.
    + change (seg_end (last (s :: r) (SM p0))) with (end_of (s :: r) p0). apply rev_spec_to_starts; assumption.
Qed.

(** any number of open subpaths: Reverse reverses the order of the subpaths and each subpath on its own *)
Notation sub := (pt * list seg)%type.
Definition flat (l : list sub) : list seg := flat_map (fun x => SM (fst x) :: snd x) l.
Definition rsub (x : sub) : sub := (end_of (snd x) (fst x), rev_spec (rev (snd x)) (fst x)).
Definition osub_ok (x : sub) : Prop := all_draw (snd x) /\ flags_ok (snd x).

Lemma all_draw_no_move b : all_draw b -> no_move b.
Proof. intro H. induction H as [|x l Hx Hl IH]; constructor; [destruct x; cbn in Hx; try discriminate; exact I | exact IH]. Qed.

Lemma flat_app a b : flat (a ++ b) = flat a ++ flat b.
Proof. unfold flat. apply flat_map_app. Qed.

Lemma reverse_flat l : Forall osub_ok l -> reverse (flat l) = flat (rev (map rsub l)).
Proof.
  induction l as [|x r IH] using rev_ind; intro H; [reflexivity|].
  apply Forall_app in H as [Hr Hx]. inversion Hx as [|? ? [Hd Hf] _]; subst.
  destruct x as [p0 b]. cbn [fst snd] in Hd, Hf.
  assert (E1 : flat [(p0, b)] = SM p0 :: b) by (unfold flat; cbn [flat_map fst snd]; apply app_nil_r).
  assert (E2 : flat (rev (map rsub (r ++ [(p0, b)]))) = (SM (end_of b p0) :: rev_spec (rev b) p0) ++ flat (rev (map rsub r))).
  { rewrite map_app, rev_app_distr. cbn [map rev app]. unfold flat, rsub. cbn [flat_map fst snd]. reflexivity. }
  rewrite E2, flat_app, E1.
  destruct r as [|y r'].
  - cbn [flat flat_map app map rev]. rewrite app_nil_r. apply (reverse_open p0 b Hd).
  - rewrite reverse_app.
    + rewrite (reverse_open p0 b Hd). rewrite IH by exact Hr. reflexivity.
    + unfold flat. destruct y. cbn [flat_map app]. congruence.
    + apply all_draw_no_move. exact Hd.
Qed.

Lemma rsub_ok x : osub_ok x -> osub_ok (rsub x).
Proof.
  intros [Hd Hf]. split; cbn [rsub snd].
  - apply all_draw_rev_spec, Forall_rev; exact Hd.
  - apply flags_ok_rev_spec, Forall_rev; exact Hf.
Qed.

Lemma rsub_rsub x : osub_ok x -> rsub (rsub x) = x.
Proof.
  intros [Hd Hf]. destruct x as [p0 b]. unfold rsub. cbn [fst snd].
  rewrite rev_rev_spec. f_equal.
  - destruct b as [|s r]; [reflexivity|]. unfold end_of at 1. apply last_rev_spec_end. cbn [rev]. destruct (rev r); cbn; congruence.
  - apply rev_spec_to_starts; assumption.
Qed.

Theorem reverse_involutive_open_subpaths l : Forall osub_ok l -> reverse (reverse (flat l)) = flat l.
Proof.
  intro H. rewrite (reverse_flat l H).
  assert (H' : Forall osub_ok (rev (map rsub l))).
  { apply Forall_rev. apply Forall_forall. intros y Hy. apply in_map_iff in Hy as [x [<- Hx]].
    apply rsub_ok. rewrite Forall_forall in H. apply H. exact Hx. }
  rewrite (reverse_flat _ H'). rewrite map_rev, rev_involutive, map_map.
  f_equal. rewrite <- (map_id l) at 2. apply map_ext_in. intros x Hx. apply rsub_rsub.
  rewrite Forall_forall in H. apply H. exact Hx.
Qed.

Example reverse_involutive_open_ex :
  let p := [SM (0, 0); SL (1, 0); SQ (2, 1) (3, 0); SM (5, 5); SC (6, 6) (7, 7) (8, 5); SA 1 (2 # 1) 0 1 (9, 9)] in
  reverse (reverse p) = p /\ Forall osub_ok [((0, 0), [SL (1, 0); SQ (2, 1) (3, 0)]); ((5, 5), [SC (6, 6) (7, 7) (8, 5); SA 1 (2 # 1) 0 1 (9, 9)])].
Proof.
  split; [vm_compute; reflexivity|].
  repeat (apply Forall_cons || apply Forall_nil); unfold osub_ok, all_draw, flags_ok; cbn [fst snd];
    (split; repeat (apply Forall_cons || apply Forall_nil); cbn; auto 8).
Qed.

Example reverse_ex :
  reverse [SM (0, 0); SL (1, 0); SL (1, 1); SZ (0, 0); SM (5, 5); SQ (6, 6) (7, 5); SA 1 (2 # 1) 0 1 (9, 9)]
  = [SM (9, 9); SA 1 (2 # 1) 0 (3 # 1) (7, 5); SQ (6, 6) (5, 5); SM (0, 0); SL (1, 1); SL (1, 0); SZ (0, 0)].
Proof. vm_compute. reflexivity. Qed.

(** minified_forms_denote (the part proved): the shorthand choices of ToSVG denote the same piece under the
    format semantics.
    - H x / V y denote the line L x cur.y / L cur.x y;
    - an arc printed with rx/ry swapped and rot-90 (ToSVG does this when 90 <= rot) lies on the same conic:
      with (c, s) the cosine/sine of the stored rotation, the rotation by -90 degrees has (c', s') = (s, -c),
      and the implicit quadratic forms coincide for every point (relational in the angle: no trigonometry);
    - packed arc flags "01x y" are read as the two flags 0 and 1 followed by the number x (example). *)
From Coq Require Import ZArith QArith List Bool.
From CV Require Import PathEnc.Enc Formats.Geo Formats.SvgPath Formats.SvgSem.
Import ListNotations.
Open Scope Q_scope.

Lemma H_denotes_line : forall x st,
  option_map fst (sem_cmd 72%Z [x] st) = option_map fst (sem_cmd 76%Z [x; snd (ss_cur st)] st).
Proof. intros. reflexivity. Qed.

Lemma V_denotes_line : forall y st,
  option_map fst (sem_cmd 86%Z [y] st) = option_map fst (sem_cmd 76%Z [fst (ss_cur st); y] st).
Proof. intros. reflexivity. Qed.

Definition conic (rx ry c s dx dy : Q) : Q :=
  (c * dx + s * dy) * (c * dx + s * dy) / (rx * rx) + (- s * dx + c * dy) * (- s * dx + c * dy) / (ry * ry).

Theorem arc_swap_same_conic : forall rx ry c s dx dy, ~ rx == 0 -> ~ ry == 0 ->
  conic ry rx s (- c) dx dy == conic rx ry c s dx dy.
Proof. intros rx ry c s dx dy Hx Hy. unfold conic. field. split; assumption. Qed.

Example arc_swap_example : conic (2#1) 1 (3#5) (4#5) 1 (1#2) == conic 1 (2#1) (4#5) (-(3#5)) 1 (1#2).
Proof. symmetry. apply arc_swap_same_conic; intro H; discriminate. Qed.

(** "M0 0A1 2 0 013 4": flags without separators *)
Example packed_flags :
  svg_path_sem [77; 48; 32; 48; 65; 49; 32; 50; 32; 48; 32; 48; 49; 51; 32; 52]%Z
  = Some [GMove (0, 0); GArcE (0, 0) 1 (2#1) 0 false true (3#1, 4#1)].
Proof. vm_compute. reflexivity. Qed.

(** C16 — Text layout places every character once, inside the box, on ordered lines.
    Property theorems only; each is closed by [exact] of a lemma proved elsewhere. *)
From Coq Require Import ZArith QArith List Bool.
From Coq Require Import Permutation.
From CV Require Import Base.Dy Text.KPSpec Text.KPQ Text.Layout Text.LayoutProofs Text.ReorderProofs.
Import ListNotations.

(** F. items_size_partition: for every number structure, glyph list, indent, FrenchSpacing and alignment
    (0 Left, 1 Right, 2 Centered, 3 Justified; except Centered with soft hyphens / zero-width spaces) the Sizes of
    the items produced by the faithful model of text.GlyphsToItems add up to the number of glyphs. *)
Theorem C16_items_size_partition : forall (num : Type) (O : ops num) (french : bool) (gl : list (glyph num)) indent align,
  (0 <= align <= 3)%Z -> centered_disc gl align = false ->
  total_size (glyphs_to_items O french gl indent align) = length gl.
Proof. exact @items_size_partition. Qed.
Print Assumptions C16_items_size_partition.

(** R. ... and Centered does drop the Size of a soft hyphen. *)
Theorem C16_items_size_partition_centered_refuted :
  exists gl, total_size (glyphs_to_items QO false gl 0 2) <> length gl.
Proof. exact items_size_partition_centered_refuted. Qed.
Print Assumptions C16_items_size_partition_centered_refuted.

(** F. lines_cover_once: the glyph ranges of consecutive lines (skipped at the line start, spans, dropped at the
    line end) tile [ag, agf) in order, for every item list, admissible break list and choice of hyphenated breaks. *)
Theorem C16_lines_cover_once : forall brs rest ag rgs restf agf,
  ok_breaks rest brs -> lines_ranges rest brs ag = (rgs, restf, agf) ->
  tiles rgs ag agf /\ (agf + sizes restf = ag + sizes rest)%nat.
Proof. exact lines_cover_once. Qed.
Print Assumptions C16_lines_cover_once.

Theorem C16_lines_cover_all : forall brs its rgs agf,
  ok_breaks its brs -> lines_ranges its brs 0 = (rgs, [], agf) -> tiles rgs 0 (sizes its).
Proof. exact lines_cover_all. Qed.
Print Assumptions C16_lines_cover_all.

(** F. spans placed one after the other do not overlap. *)
Theorem C16_spans_consecutive_disjoint : forall wl x,
  Forall (fun wlv => 0 <= fst wlv) wl -> pairwise_disjoint (fst (place_from x wl)) = true.
Proof. exact place_from_disjoint. Qed.
Print Assumptions C16_spans_consecutive_disjoint.

(** R (before the fix). NewTextLine Center/Right stacked all spans of a line at one X. *)
Theorem C16_textline_center_overlap_refuted :
  exists wl, Forall (fun wlv => 0 < fst wlv) wl /\ pairwise_disjoint (textline_spans false 2 wl) = false.
Proof. exact textline_center_overlap_refuted. Qed.
Print Assumptions C16_textline_center_overlap_refuted.

(** R (before the fix). reorderSpans put spans on their neighbours where the level rises by two; the current one does not. *)
Theorem C16_reorder_old_overlap_refuted :
  pairwise_disjoint jump_spans = true /\ pairwise_disjoint (reorder_spans_old jump_spans) = false /\
  pairwise_disjoint (reorder_spans jump_spans) = true.
Proof. exact reorder_old_overlap_refuted. Qed.
Print Assumptions C16_reorder_old_overlap_refuted.

(** F. reorderSpans (current code), for every list of spans and every assignment of bidi levels: the visual
    order computed by rule L2 contains every span index exactly once ... *)
Theorem C16_visual_order_permutation : forall spans,
  Permutation (visual_order spans) (seq 0 (length spans)).
Proof. exact visual_order_perm. Qed.
Print Assumptions C16_visual_order_permutation.

(** ... and reordering only moves spans: their number, widths and levels are kept in logical order. *)
Theorem C16_reorder_keeps_spans : forall spans,
  length (reorder_spans spans) = length spans /\
  map spW (reorder_spans spans) = map spW spans /\ map spL (reorder_spans spans) = map spL spans.
Proof. exact reorder_spans_keeps. Qed.
Print Assumptions C16_reorder_keeps_spans.

(** F (frame). A line in which no span has level >= 1 is not reordered and not moved at all. *)
Theorem C16_reorder_ltr_identity : forall spans, (forall s, In s spans -> (spL s <= 0)%Z) ->
  visual_order spans = seq 0 (length spans) /\ reorder_spans spans = spans.
Proof. exact reorder_spans_ltr_identity. Qed.
Print Assumptions C16_reorder_ltr_identity.

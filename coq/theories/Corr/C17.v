(** Correspondence judge for C17 (Knuth–Plass line breaking).
    K1 (tie): what text.Linebreak returned = the faithful model KP.linebreak evaluated on binary64
        (Coq primitive floats: the same IEEE-754 operations in the same order as the Go code), bit for bit.
    K2 (property oracle): the Go result judged directly against the exact specification KPSpec
        (rationals): legality, forced breaks, reported widths/ratios, feasibility, optimal demerits ([kp_opt]),
        minimal relaxation of the tolerance, overflow only when unavoidable. *)
From Coq Require Import ZArith QArith Qabs List Bool Floats Uint63.
From CV Require Import Base.Dy Text.KPSpec Text.KP Text.KPQ.
Import ListNotations.

(** ---- the binary64 instance (execution only; no theorem mentions it) ---- *)
Definition fofZ (z : Z) : float :=
  if (z <? 0)%Z then PrimFloat.opp (PrimFloat.of_uint63 (Uint63.of_Z (- z))) else PrimFloat.of_uint63 (Uint63.of_Z z).
Definition FO : ops float :=
  mkOps float PrimFloat.add PrimFloat.sub PrimFloat.mul PrimFloat.div PrimFloat.ltb PrimFloat.leb PrimFloat.eqb fofZ.

Definition dyad := (Z * Z)%type.                (* m * 2^e, exact exchange of a float64 *)
Definition fdy (d : dyad) : float := Z.ldexp (fofZ (fst d)) (snd d).
Definition qdy (d : dyad) : Q := Qred (dy (fst d) (snd d)).

(** ---- cases ---- *)
Definition gitem := (Z * dyad * dyad * dyad * dyad * bool)%type.       (* kind 0/1/2, w, y, z, p, flagged *)
Definition gbrk := (Z * Z * Z * dyad * dyad * dyad)%type.             (* Position, Line, Fitness, Ratio, Width, Demerits *)
Record case17 := mkCase17 {
  cItems : list gitem; cWidth : dyad; cLoose : Z;
  cPar : list dyad;                       (* Tolerance, DemeritsLine, DemeritsFlagged, DemeritsFitness, Infinity *)
  cPanic : bool; cOk : bool; cBreaks : list gbrk }.

Definition to_item {num} (cv : dyad -> num) (g : gitem) : item num :=
  let '(k, w, y, z, p, f) := g in
  mkItem (if (k =? 0)%Z then TBox else if (k =? 1)%Z then TGlue else TPen) (cv w) (cv y) (cv z) (cv p) f.

Definition to_params {num} (cv : dyad -> num) (l : list dyad) : params num :=
  let g k := cv (nth k l (0, 0)%Z) in mkParams (g 0%nat) (g 1%nat) (g 2%nat) (g 3%nat) (g 4%nat).

Definition bit (b : bool) (k : Z) : Z := if b then k else 0%Z.

(** ---- K1 ---- *)
Definition obrk_eqs (o : obrk (num:=float)) (g : gbrk) : bool * bool * bool :=
  let '(p, l, f, r, w, d) := g in
  ((oPos o =? p)%Z,
   PrimFloat.eqb (oRatio o) (fdy r) && PrimFloat.eqb (oWidth o) (fdy w),
   (oLine o =? l)%Z && (oFit o =? f)%Z && PrimFloat.eqb (oDem o) (fdy d)).

Fixpoint cmp_breaks (m : list (obrk (num:=float))) (g : list gbrk) : bool * bool * bool :=
  match m, g with
  | [], [] => (true, true, true)
  | o :: m', b :: g' =>
    let '(a1, a2, a3) := obrk_eqs o b in
    let '(b1, b2, b3) := cmp_breaks m' g' in (a1 && b1, a2 && b2, a3 && b3)
  | _, _ => (false, true, true)
  end.

Definition fuel_for (n : nat) : nat := S (S (n * S n)).

Definition tie_flags (c : case17) : Z :=
  let its := map (to_item fdy) (cItems c) in
  let par := to_params fdy (cPar c) in
  match linebreak FO par its (fdy (cWidth c)) (cLoose c) (fuel_for (length its)) with
  | Panic => bit (negb (cPanic c)) 1
  | OutOfFuel => 1%Z
  | Done bs ok =>
    if cPanic c then 1%Z else
    let '(e1, e2, e3) := cmp_breaks bs (cBreaks c) in
    (bit (negb (Bool.eqb ok (cOk c))) 2 + bit (negb e1) 4 + bit (negb e2) 8 + bit (negb e3) 16)%Z
  end.

(** ---- K2 (exact) ---- *)
Section K2.
Variable P : params Q.
Variable items : list (item Q).
Variable width : Q.

Definition slack : Q := 1 # 1099511627776.      (* 2^-40 *)
Definition close (a b : Q) : bool := Qleb (Qabs (a - b)) (slack * (1 + Qabs b)).

Definition xr_lt_m1 (r : xr Q) : bool := match r with NegInf => true | Fin x => Qltb x (-1) end.
Definition xr_in_tol (r : xr Q) : bool := match r with NegInf => false | Fin x => Qleb (-1) x && Qleb x (pTol P) end.

Definition item_at (b : nat) : item Q := nth b items (mkItem TBox 0 0 0 0 false).

Definition ratio_of (prev : option nat) (b : nat) : xr Q := line_ratio QO P items width prev b (item_at b).

(** per line of the Go breaking: (legal & increasing, no forced break skipped, ratio, width) *)
Fixpoint judge_lines (prev : option nat) (bs : list nat) : list (bool * bool * xr Q * Q) :=
  match bs with
  | [] => []
  | b :: t =>
    (legal QO P items b && prev_lt prev b, negb (forced_between QO P items prev b), ratio_of prev b,
     line_width QO (pref QO items b) (item_at b) (start_sums QO P items prev)) :: judge_lines (Some b) t
  end.

Definition reported_ok (ln : bool * bool * xr Q * Q) (g : gbrk) : bool :=
  let '(_, _, r, w) := ln in
  let '(_, _, _, gr, gw, _) := g in
  let expect := match r with NegInf => 0 | Fin x => if xr_in_tol r then x else 0 end in
  close (qdy gr) expect && close (qdy gw) w.

Fixpoint all2 {A B} (f : A -> B -> bool) (l : list A) (m : list B) : bool :=
  match l, m with
  | [], [] => true
  | a :: l', b :: m' => f a b && all2 f l' m'
  | _, _ => false
  end.

Definition max_ratio (lns : list (bool * bool * xr Q * Q)) : option Q :=
  fold_left (fun m ln => match snd (fst ln) with
                         | NegInf => m
                         | Fin x => match m with None => Some x | Some y => Some (if Qltb y x then x else y) end
                         end) lns None.

(** exact trigger of the known finding: deactivation at ratio < -1 is safe iff
    "once a line from a given start is too long at b, it is too long at every later breakpoint b'" *)
Definition starts : list (option nat) :=
  None :: map Some (filter (legal QO P items) (seq 0 (length items))).

Definition monotone_from (prev : option nat) : bool :=
  let bs := filter (fun b => legal QO P items b && prev_lt prev b && negb (forced_between QO P items prev b))
                   (seq 0 (length items)) in
  (* scanning in increasing order: after the first too-long line every later one must be too long *)
  snd (fold_left (fun (st : bool * bool) b =>
         let '(seen, ok) := st in
         let tl := xr_lt_m1 (ratio_of prev b) in
         (seen || tl, ok && (negb seen || tl))) bs (false, true)).

Definition monotoneb : bool := forallb monotone_from starts.

Definition sum_pen2 : Q := fold_left (fun s it => if is_pen it then s + ip it * ip it else s) items 0.

Definition prop_flags (loose : Z) (ok : bool) (gbs : list gbrk) : Z * list Z :=
  let n := length items in
  let bs := map (fun g => let '(p, _, _, _, _, _) := g in Z.to_nat p) gbs in
  let nonneg := forallb (fun g => let '(p, _, _, _, _, _) := g in (0 <=? p)%Z) gbs in
  let lns := judge_lines None bs in
  let f_legal := negb (nonneg && forallb (fun ln => fst (fst (fst ln))) lns) in
  let f_forced := negb (forallb (fun ln => snd (fst (fst ln))) lns
                        && match rev bs with b :: _ => (S b =? n)%nat | [] => false end) in
  let f_report := negb (all2 reported_ok lns gbs) in
  let go_feasT := forallb (fun ln => xr_in_tol (snd (fst ln))) lns in
  let go_ge_m1 := forallb (fun ln => negb (xr_lt_m1 (snd (fst ln)))) lns in
  let optT := kp_opt QO P items width (feas_tol QO (Some (pTol P))) in
  let f_feas := match optT with Some _ => negb go_feasT | None => false end in
  let dgo := chain_eval QO P items width (fun _ => true) (rev bs) in
  let f_opt := match optT, dgo with
               | Some (dopt, _), Some (_, d) =>
                 (loose =? 0)%Z && go_feasT &&
                 Qltb (dopt + slack * (1 + Qabs dopt + Qabs d + sum_pen2)) d
               | _, _ => false
               end in
  let f_relax := match optT with
                 | Some _ => false
                 | None =>
                   ok && go_ge_m1 &&
                   match max_ratio lns with
                   | None => false
                   | Some tau =>
                     match kp_opt QO P items width
                             (fun r => match r with NegInf => false
                                               | Fin x => Qleb (-1) x && (Qleb x (pTol P) || Qltb x tau) end) with
                     | Some _ => true | None => false end
                   end
                 end in
  let f_ovf := if ok then negb go_ge_m1
               else match optT with
                    | Some _ => true
                    | None => match kp_opt QO P items width (feas_tol QO None) with Some _ => true | None => false end
                    end in
  let fl := (bit f_legal 64 + bit f_forced 128 + bit (f_report && ok) 256 + bit f_feas 512 + bit f_opt 1024
             + bit f_relax 2048 + bit f_ovf 4096 + bit (f_report && negb ok) 8192)%Z in
  let mono := if ((fl mod 8192) / 512 =? 0)%Z then 1%Z else bit monotoneb 1 in
  (fl, [mono; Z.of_nat (length bs); match optT with Some _ => 1 | None => 0 end]%Z).

(** does the exact instance of the faithful model return the same positions as Go? (informational) *)
Definition qmodel_same (loose : Z) (ok : bool) (gbs : list gbrk) : Z :=
  match linebreak QO P items width loose (fuel_for (length items)) with
  | Done bs ok' =>
    bit (Bool.eqb ok ok' && all2 (fun (o : obrk (num:=Q)) (g : gbrk) => let '(p, _, _, _, _, _) := g in (oPos o =? p)%Z) bs gbs) 1
  | _ => 0%Z
  end.

End K2.

(** the property is stated for paragraphs that end in a forced break, on a positive width *)
Definition in_domain (P : params Q) (items : list (item Q)) (width : Q) : bool :=
  Qltb 0 width && match rev items with it :: _ => forced QO P it | [] => false end.

(** judge: [flags; in_domain; monotone; #lines; feasible at Tolerance; exact model agrees; restarts; first item flagged]
    flags: 1 tie panic/fuel, 2 tie ok flag, 4 tie positions, 8 tie ratios/widths, 16 tie line/fitness/demerits,
           32 Go panicked on an in-domain input, 64 illegal / non-increasing breakpoint, 128 forced break
           skipped or last break is not the final item, 256 reported ratio/width is not the line's,
           512 a breaking within [-1,Tolerance] exists but the returned one is not, 1024 (looseness 0) total
           demerits above the optimum, 2048 tolerance relaxed further than needed, 4096 overflow reported
           although every line could be shrunk to fit (or not reported although a line sticks out),
           8192 as 256 but in a run that reports overflow (ok = false) *)
Definition judge (c : case17) : list Z :=
  let tf := tie_flags c in
  let par := to_params qdy (cPar c) in
  let its := map (to_item qdy) (cItems c) in
  let w := qdy (cWidth c) in
  let dom := in_domain par its w in
  let flag0 := match its with it :: _ => ifl it | [] => false end in
  let rs := Z.of_nat (restarts FO (to_params fdy (cPar c)) (map (to_item fdy) (cItems c)) (fdy (cWidth c))
                              (fuel_for (length its)) (Some (pTol (to_params fdy (cPar c)))) false) in
  if negb dom then [tf; 0; 1; Z.of_nat (length (cBreaks c)); 0; 0; rs; bit flag0 1]%Z
  else if cPanic c then [(tf + 32)%Z; 1; 1; 0; 0; 0; rs; bit flag0 1]%Z
  else
    let '(pf, info) := prop_flags par its w (cLoose c) (cOk c) (cBreaks c) in
    ((tf + pf)%Z :: 1%Z :: info) ++ [qmodel_same par its w (cLoose c) (cOk c) (cBreaks c); rs; bit flag0 1].

(** Proofs about the Canvas model (Ctx/Canvas.v): replay order, Transform/Clip consistency, Fit containment. *)
From Coq Require Import ZArith QArith Qabs Qminmax List Bool Lia Permutation Sorted Lqa.
From CV Require Import Base.Dy Geom.Matrix Ctx.DashCheck Ctx.Context Ctx.Canvas Ctx.Spec Ctx.ContextProofs.
Import ListNotations.
Open Scope Q_scope.

(** * sort.Ints *)
Lemma zinsert_perm z l : Permutation (zinsert z l) (z :: l).
Proof.
  induction l as [|a l IH]; cbn [zinsert]; [reflexivity|].
  destruct (z <=? a)%Z; [reflexivity|]. rewrite IH. apply perm_swap.
Qed.
Lemma zsort_perm l : Permutation (zsort l) l.
Proof.
  induction l as [|a l IH]; cbn [zsort fold_right]; [reflexivity|].
  fold (zsort l). rewrite zinsert_perm. constructor. assumption.
Qed.

Lemma zinsert_sorted z l : StronglySorted Z.le l -> StronglySorted Z.le (zinsert z l).
Proof.
  induction 1 as [|a l S IH F]; cbn [zinsert]; [repeat constructor|].
  destruct (z <=? a)%Z eqn:E.
  - apply Z.leb_le in E. constructor; [constructor; assumption|].
    constructor; [assumption|]. eapply Forall_impl; [|exact F]. intros; lia.
  - apply Z.leb_gt in E. constructor; [assumption|].
    rewrite zinsert_perm. constructor; [lia|assumption].
Qed.
Lemma zsort_sorted l : StronglySorted Z.le (zsort l).
Proof.
  induction l as [|a l IH]; cbn [zsort fold_right]; [constructor|]. apply zinsert_sorted. exact IH.
Qed.

(** * Replay order *)

(** what the replay visits: (z-index, layer) in replay order, before the view is applied *)
Definition tagged_of (al : list (Z * list layer)) (ks : list Z) : list (Z * layer) :=
  flat_map (fun z => map (pair z) (al_lookup al z)) ks.
Definition tagged (cv : canvas) : list (Z * layer) :=
  tagged_of (cvlayers cv) (zsort (map fst (cvlayers cv))).

Lemma cv_render_z_tagged cv V :
  cv_render_z cv V = map (fun e => (fst e, with_m (snd e) (mnorm (mmul V (rm (snd e)))))) (tagged cv).
Proof.
  unfold cv_render_z, tagged, tagged_of. induction (zsort (map fst (cvlayers cv))) as [|z ks IH]; cbn [flat_map map].
  - reflexivity.
  - rewrite map_app, IH, map_map. reflexivity.
Qed.

(** recording events on a canvas: RenderPath/RenderText/RenderImage and SetZIndex *)
Inductive cev := EvRec (l : layer) | EvZ (z : Z).
Definition cv_ev (cv : canvas) (e : cev) : canvas :=
  match e with EvRec l => cv_record cv l | EvZ z => cv_setz cv z end.
(** the recording order, each record tagged with the z-index in force *)
Fixpoint ev_log (z : Z) (evs : list cev) : list (Z * layer) :=
  match evs with
  | [] => []
  | EvRec l :: tl => (z, l) :: ev_log z tl
  | EvZ z' :: tl => ev_log z' tl
  end.

Definition zis (z : Z) (e : Z * layer) : bool := (fst e =? z)%Z.
Lemma zis_pair z k (a : layer) : zis z (k, a) = (k =? z)%Z.
Proof. reflexivity. Qed.

Definition cv_inv (cv : canvas) (log : list (Z * layer)) : Prop :=
  NoDup (map fst (cvlayers cv)) /\
  forall z, al_lookup (cvlayers cv) z = map snd (filter (zis z) log).

Lemma al_lookup_notin al z : ~ In z (map fst al) -> al_lookup al z = [].
Proof.
  induction al as [|[k ls] al IH]; cbn [al_lookup map fst In]; [reflexivity|]. intro N.
  destruct (k =? z)%Z eqn:E; [apply Z.eqb_eq in E; exfalso; apply N; left; exact E|].
  apply IH. intro I. apply N. right. exact I.
Qed.

Lemma al_append_keys al z l :
  map fst (al_append al z l) = if in_dec Z.eq_dec z (map fst al) then map fst al else map fst al ++ [z].
Proof.
  induction al as [|[k ls] al IH]; cbn [al_append map fst]; [reflexivity|].
  destruct (k =? z)%Z eqn:E.
  - apply Z.eqb_eq in E. subst k. cbn [map fst]. clear IH.
    destruct (in_dec Z.eq_dec z (z :: map fst al)) as [_|N]; [reflexivity|].
    exfalso; apply N; left; reflexivity.
  - apply Z.eqb_neq in E. cbn [map fst]. rewrite IH.
    destruct (in_dec Z.eq_dec z (map fst al)) as [I|N]; destruct (in_dec Z.eq_dec z (k :: map fst al)) as [I'|N']; try reflexivity.
    + exfalso; apply N'; right; exact I.
    + destruct I' as [I'|I']; [congruence|contradiction].
Qed.

Lemma al_lookup_append al z l z' :
  al_lookup (al_append al z l) z' = if (z' =? z)%Z then al_lookup al z ++ [l] else al_lookup al z'.
Proof.
  induction al as [|[k ls] al IH]; cbn [al_append al_lookup].
  - rewrite (Z.eqb_sym z z'). destruct (z' =? z)%Z; reflexivity.
  - destruct (k =? z)%Z eqn:E; cbn [al_lookup].
    + apply Z.eqb_eq in E. subst k. rewrite (Z.eqb_sym z z'). destruct (z' =? z)%Z eqn:E'; [|reflexivity].
      rewrite ?Z.eqb_refl. reflexivity.
    + destruct (k =? z')%Z eqn:E'.
      * apply Z.eqb_eq in E'. subst k. rewrite E. reflexivity.
      * rewrite IH. reflexivity.
Qed.

Lemma cv_inv_record cv log l : cv_inv cv log -> cv_inv (cv_record cv l) (log ++ [(cvz cv, l)]).
Proof.
  intros [ND LK]. split; cbn [cv_record cvlayers].
  - rewrite al_append_keys. destruct (in_dec _ _ _) as [I|N]; [exact ND|].
    apply (Permutation_NoDup (l := cvz cv :: map fst (cvlayers cv))).
    + rewrite Permutation_app_comm. reflexivity.
    + constructor; assumption.
  - intro z. rewrite al_lookup_append, filter_app, map_app. cbn [filter]. rewrite zis_pair.
    rewrite (Z.eqb_sym (cvz cv) z). destruct (z =? cvz cv)%Z eqn:E.
    + apply Z.eqb_eq in E. subst z. rewrite LK. reflexivity.
    + rewrite LK, app_nil_r. reflexivity.
Qed.

Lemma cv_inv_run evs : forall cv log,
  cv_inv cv log -> cv_inv (fold_left cv_ev evs cv) (log ++ ev_log (cvz cv) evs).
Proof.
  induction evs as [|[l|z] evs IH]; intros cv log I; cbn [fold_left ev_log cv_ev].
  - rewrite app_nil_r. exact I.
  - replace (log ++ (cvz cv, l) :: ev_log (cvz cv) evs) with ((log ++ [(cvz cv, l)]) ++ ev_log (cvz (cv_record cv l)) evs)
      by (rewrite <- app_assoc; reflexivity).
    apply IH. apply cv_inv_record. exact I.
  - apply (IH (cv_setz cv z) log). exact I.
Qed.

Lemma filter_same z (ls : list layer) : filter (zis z) (map (pair z) ls) = map (pair z) ls.
Proof.
  induction ls as [|a ls IH]; cbn [map filter]; [reflexivity|]. rewrite zis_pair, Z.eqb_refl, IH. reflexivity.
Qed.
Lemma filter_other z k (ls : list layer) : k <> z -> filter (zis z) (map (pair k) ls) = [].
Proof.
  intro N. induction ls as [|a ls IH]; cbn [map filter]; [reflexivity|]. rewrite zis_pair.
  destruct (k =? z)%Z eqn:E; [apply Z.eqb_eq in E; contradiction|exact IH].
Qed.

Lemma filter_tagged_notin al ks z : ~ In z ks -> filter (zis z) (tagged_of al ks) = [].
Proof.
  unfold tagged_of. induction ks as [|k ks IH]; cbn [flat_map]; [reflexivity|]. intro N.
  rewrite filter_app, IH by (intro I; apply N; right; exact I). rewrite app_nil_r.
  apply filter_other. intro E; apply N; left; exact E.
Qed.

Lemma filter_tagged_in al ks z :
  NoDup ks -> In z ks -> filter (zis z) (tagged_of al ks) = map (pair z) (al_lookup al z).
Proof.
  unfold tagged_of. induction 1 as [|k ks N ND IH]; [intros []|]. intro I. cbn [flat_map]. rewrite filter_app.
  destruct (Z.eq_dec k z) as [E|E].
  - subst k. fold (tagged_of al ks). rewrite filter_tagged_notin by exact N. rewrite app_nil_r. apply filter_same.
  - destruct I as [I|I]; [contradiction|]. rewrite IH by exact I. rewrite filter_other by exact E. reflexivity.
Qed.

Lemma map_pair_filter z (log : list (Z * layer)) : map (pair z) (map snd (filter (zis z) log)) = filter (zis z) log.
Proof.
  induction log as [|[k l] log IH]; cbn [filter]; rewrite ?zis_pair; [reflexivity|].
  destruct (k =? z)%Z eqn:E; [|exact IH]. apply Z.eqb_eq in E. subst k. cbn [map snd]. rewrite IH. reflexivity.
Qed.

Lemma cv_inv_stable cv log z : cv_inv cv log -> filter (zis z) (tagged cv) = filter (zis z) log.
Proof.
  intros [ND LK]. unfold tagged.
  destruct (in_dec Z.eq_dec z (map fst (cvlayers cv))) as [I|N].
  - rewrite filter_tagged_in.
    + rewrite LK. apply map_pair_filter.
    + apply (Permutation_NoDup (l := map fst (cvlayers cv))); [symmetry; apply zsort_perm|exact ND].
    + apply (Permutation_in (l := map fst (cvlayers cv))); [symmetry; apply zsort_perm|exact I].
  - rewrite filter_tagged_notin.
    + rewrite <- map_pair_filter, <- LK, al_lookup_notin by exact N. reflexivity.
    + intro I. apply N. apply (Permutation_in (l := zsort (map fst (cvlayers cv)))); [apply zsort_perm|exact I].
Qed.

Lemma tagged_sorted al ks : StronglySorted Z.le ks -> StronglySorted Z.le (map fst (tagged_of al ks)).
Proof.
  unfold tagged_of. induction 1 as [|k ks S IH F]; cbn [flat_map map]; [constructor|].
  rewrite map_app, map_map. cbn [fst].
  assert (G : Forall (fun z => (k <= z)%Z) (map fst (flat_map (fun z => map (pair z) (al_lookup al z)) ks))).
  { clear IH S. induction F as [|k' ks' L F IHF]; cbn [flat_map map]; [constructor|].
    rewrite map_app, map_map. cbn [fst]. apply Forall_app. split; [|exact IHF].
    apply Forall_forall. intros x I. apply in_map_iff in I. destruct I as (_ & E & _). subst x. exact L. }
  induction (al_lookup al k) as [|a ls IHl]; cbn [map app]; [exact IH|].
  constructor; [exact IHl|]. apply Forall_app. split; [|exact G].
  apply Forall_forall. intros x I. apply in_map_iff in I. destruct I as (_ & E & _). subst x. lia.
Qed.

(** replay order = stable sort of the recording order by z-index: the z-indices visited ascend, and the records of
    each z-index are exactly those recorded with that z-index, in recording order (which also makes the replay a
    permutation of the recording) *)
Theorem replay_order W H evs :
  let cv := fold_left cv_ev evs (cv_new W H) in
  StronglySorted Z.le (map fst (tagged cv)) /\
  forall z, filter (zis z) (tagged cv) = filter (zis z) (ev_log 0 evs).
Proof.
  cbn zeta. split.
  - apply tagged_sorted, zsort_sorted.
  - intro z. apply cv_inv_stable.
    apply (cv_inv_run evs (cv_new W H) []). split; [constructor|reflexivity].
Qed.

Example replay_order_ex :
  let l1 := mkRop (OText 1) default_style mid (mkR 0 0 1 1) in
  let l2 := mkRop (OText 2) default_style mid (mkR 0 0 1 1) in
  let l3 := mkRop (OText 3) default_style mid (mkR 0 0 1 1) in
  map snd (tagged (fold_left cv_ev [EvZ 1; EvRec l1; EvZ (-1); EvRec l2; EvZ 1; EvRec l3] (cv_new 10 10))) = [l2; l1; l3].
Proof. reflexivity. Qed.

(** what RenderViewTo hands to the renderer is the replay sequence with view.Mul(l.m) *)
Theorem render_view_applies_view cv V :
  cv_render_view cv V = map (fun e => with_m (snd e) (mnorm (mmul V (rm (snd e))))) (tagged cv).
Proof. unfold cv_render_view. rewrite cv_render_z_tagged, map_map. reflexivity. Qed.

(** the system records through cv_record / cv_setz only *)
Lemma fold_record_events out cv : fold_left cv_record out cv = fold_left cv_ev (map EvRec out) cv.
Proof. revert cv; induction out as [|l out IH]; intro cv; cbn [fold_left map cv_ev]; [reflexivity|apply IH]. Qed.

(** * Transform / Clip *)

Definition tr_layer (m : mat) (l : layer) : layer := with_m l (mnorm (mmul m (rm l))).

Lemma al_lookup_transform al m z :
  al_lookup (map (fun '(k, ls) => (k, map (tr_layer m) ls)) al) z = map (tr_layer m) (al_lookup al z).
Proof.
  induction al as [|[k ls] al IH]; cbn [map al_lookup]; [reflexivity|]. destruct (k =? z)%Z; [reflexivity|exact IH].
Qed.
Lemma keys_transform (al : list (Z * list layer)) m : map fst (map (fun '(k, ls) => (k, map (tr_layer m) ls)) al) = map fst al.
Proof. rewrite map_map. apply map_ext. intros [k ls]; reflexivity. Qed.

Lemma tagged_transform cv m :
  tagged (cv_transform cv m) = map (fun e => (fst e, tr_layer m (snd e))) (tagged cv).
Proof.
  unfold tagged, cv_transform; cbn [cvlayers]. fold (tr_layer m). rewrite keys_transform.
  unfold tagged_of. induction (zsort (map fst (cvlayers cv))) as [|z ks IH]; cbn [flat_map map]; [reflexivity|].
  rewrite map_app, IH, al_lookup_transform, !map_map. reflexivity.
Qed.

Lemma Forall2_map_same {A B C} (R : B -> C -> Prop) (f : A -> B) (g : A -> C) l :
  (forall x, R (f x) (g x)) -> Forall2 R (map f l) (map g l).
Proof. intro Hx. induction l; cbn [map]; constructor; auto. Qed.

Lemma Forall2_weaken {A B} (R R' : A -> B -> Prop) l l' :
  (forall a b, R a b -> R' a b) -> Forall2 R l l' -> Forall2 R' l l'.
Proof. intros Hx F. induction F; constructor; auto. Qed.

(** Transform(m) keeps the replay order, z-indices, objects, styles; every point of every object is moved by m *)
Definition moved_by (f : pfn) (a b : Z * layer) : Prop :=
  fst a = fst b /\ robj (snd a) = robj (snd b) /\ rst (snd a) = rst (snd b) /\ rb (snd a) = rb (snd b) /\
  forall p, pteq (mdot (rm (snd b)) p) (f (mdot (rm (snd a)) p)).

Theorem transform_consistent cv m :
  Forall2 (moved_by (mdot m)) (tagged cv) (tagged (cv_transform cv m)).
Proof.
  rewrite tagged_transform. rewrite <- (map_id (tagged cv)) at 1. apply Forall2_map_same.
  intros [z l]. unfold moved_by, tr_layer, with_m; cbn [fst snd robj rst rb rm].
  do 4 (split; [reflexivity|]).
  intro p. eapply pteq_trans; [apply mdot_mnorm | apply mdot_mmul].
Qed.

(** rendering the transformed canvas through V is rendering the original through V.m *)
Theorem transform_then_render cv m V :
  Forall2 (fun a b => robj a = robj b /\ rst a = rst b /\ rb a = rb b /\ meq (rm a) (rm b))
          (cv_render_view (cv_transform cv m) V) (cv_render_view cv (mmul V m)).
Proof.
  rewrite !render_view_applies_view, tagged_transform, map_map. apply Forall2_map_same.
  intros [z l]. unfold tr_layer, with_m; cbn [fst snd robj rst rb rm]. do 3 (split; [reflexivity|]).
  eapply meq_trans; [apply mnorm_meq|]. eapply meq_trans; [|apply meq_sym, mnorm_meq].
  eapply meq_trans; [apply mmul_meq; [apply meq_refl | apply mnorm_meq]|]. apply meq_sym, mmul_assoc.
Qed.

(** Clip(rect): every point moves by -(X0,Y0), the size becomes the rectangle's *)
Theorem clip_consistent cv r :
  Forall2 (moved_by (fun p => (fst p - rx0 r, snd p - ry0 r))) (tagged cv) (tagged (cv_clip cv r)) /\
  cvW (cv_clip cv r) == rW r /\ cvH (cv_clip cv r) == rH r.
Proof.
  split; [|split; cbn [cv_clip cvW cvH]; apply Qred_correct].
  assert (T : tagged (cv_clip cv r) = tagged (cv_transform cv (mtranslate mid (- rx0 r) (- ry0 r)))) by reflexivity.
  rewrite T. eapply Forall2_weaken; [|apply transform_consistent].
  intros a b (A & B & C & D & E). do 4 (split; [assumption|]).
  intro p. eapply pteq_trans; [apply E|].
  unfold pteq, mdot, mtranslate, mmul, mid; cbn [ma mb mc md me mf fst snd]. split; ring.
Qed.

(** * Fit *)

Definition rpos (r : rect) : Prop := eps < rW r /\ eps < rH r.
Definition rcontains (u b : rect) : Prop := rx0 u <= rx0 b /\ ry0 u <= ry0 b /\ rx1 b <= rx1 u /\ ry1 b <= ry1 u.

Lemma eps_pos : 0 < eps.
Proof. reflexivity. Qed.

Lemma qequal0_false a : 0 <= a -> qequal a 0 = false -> eps < a.
Proof.
  unfold qequal, Qleb. intros P E. apply Qnot_le_lt. intro L.
  assert (T : Qle_bool (Qabs (a - 0)) eps = true).
  { apply Qle_bool_iff. setoid_replace (a - 0) with a by ring. rewrite Qabs_pos; assumption. }
  congruence.
Qed.
Lemma qequal0_pos a : eps < a -> qequal a 0 = false.
Proof.
  unfold qequal, Qleb. intro L. destruct (Qle_bool (Qabs (a - 0)) eps) eqn:E; [|reflexivity].
  apply Qle_bool_iff in E. setoid_replace (a - 0) with a in E by ring.
  assert (P : 0 <= a) by (apply Qlt_le_weak; eapply Qlt_trans; [apply eps_pos|exact L]).
  rewrite Qabs_pos in E by exact P. exfalso. apply (Qlt_not_le _ _ L E).
Qed.

Lemma rpos_nonempty r : rpos r -> rempty r = false.
Proof. intros [A B]. unfold rempty. rewrite (qequal0_pos _ A), (qequal0_pos _ B). reflexivity. Qed.

Lemma qmin4_le a b c d : qmin4 a b c d <= a /\ qmin4 a b c d <= b /\ qmin4 a b c d <= c /\ qmin4 a b c d <= d.
Proof.
  unfold qmin4. repeat split.
  - apply Q.le_min_l.
  - eapply Qle_trans; [apply Q.le_min_r|apply Q.le_min_l].
  - eapply Qle_trans; [apply Q.le_min_r|]. eapply Qle_trans; [apply Q.le_min_r|apply Q.le_min_l].
  - eapply Qle_trans; [apply Q.le_min_r|]. eapply Qle_trans; [apply Q.le_min_r|apply Q.le_min_r].
Qed.
Lemma qmax4_ge a b c d : a <= qmax4 a b c d /\ b <= qmax4 a b c d /\ c <= qmax4 a b c d /\ d <= qmax4 a b c d.
Proof.
  unfold qmax4. repeat split.
  - apply Q.le_max_l.
  - eapply Qle_trans; [|apply Q.le_max_r]. apply Q.le_max_l.
  - eapply Qle_trans; [|apply Q.le_max_r]. eapply Qle_trans; [|apply Q.le_max_r]. apply Q.le_max_l.
  - eapply Qle_trans; [|apply Q.le_max_r]. eapply Qle_trans; [|apply Q.le_max_r]. apply Q.le_max_r.
Qed.
Lemma qmin4_glb x a b c d : x <= a -> x <= b -> x <= c -> x <= d -> x <= qmin4 a b c d.
Proof. intros. unfold qmin4. repeat apply Q.min_glb; assumption. Qed.
Lemma qmax4_lub x a b c d : a <= x -> b <= x -> c <= x -> d <= x -> qmax4 a b c d <= x.
Proof. intros. unfold qmax4. repeat apply Q.max_lub; assumption. Qed.

Lemma rtransform_nonneg b m : 0 <= rW (rtransform b m) /\ 0 <= rH (rtransform b m).
Proof.
  unfold rW, rH, rtransform; cbn [rx0 ry0 rx1 ry1]. split.
  - destruct (qmin4_le (fst (mdot m (rx0 b, ry0 b))) (fst (mdot m (rx1 b, ry0 b))) (fst (mdot m (rx1 b, ry1 b))) (fst (mdot m (rx0 b, ry1 b)))) as (A & _).
    destruct (qmax4_ge (fst (mdot m (rx0 b, ry0 b))) (fst (mdot m (rx1 b, ry0 b))) (fst (mdot m (rx1 b, ry1 b))) (fst (mdot m (rx0 b, ry1 b)))) as (B & _).
    lra.
  - destruct (qmin4_le (snd (mdot m (rx0 b, ry0 b))) (snd (mdot m (rx1 b, ry0 b))) (snd (mdot m (rx1 b, ry1 b))) (snd (mdot m (rx0 b, ry1 b)))) as (A & _).
    destruct (qmax4_ge (snd (mdot m (rx0 b, ry0 b))) (snd (mdot m (rx1 b, ry0 b))) (snd (mdot m (rx1 b, ry1 b))) (snd (mdot m (rx0 b, ry1 b)))) as (B & _).
    lra.
Qed.

Lemma rtransform_nonempty_pos b m : rempty (rtransform b m) = false -> rpos (rtransform b m).
Proof.
  unfold rempty. intro E. apply orb_false_iff in E. destruct E as [E1 E2].
  destruct (rtransform_nonneg b m) as [P1 P2]. split; apply qequal0_false; assumption.
Qed.

Lemma radd_contains_l u b : rcontains (radd u b) u.
Proof. unfold rcontains, radd; cbn [rx0 ry0 rx1 ry1]. repeat split; try apply Q.le_min_l; apply Q.le_max_l. Qed.
Lemma radd_contains_r u b : rcontains (radd u b) b.
Proof. unfold rcontains, radd; cbn [rx0 ry0 rx1 ry1]. repeat split; try apply Q.le_min_r; apply Q.le_max_r. Qed.
Lemma rcontains_trans a b c : rcontains a b -> rcontains b c -> rcontains a c.
Proof. unfold rcontains. intros (A1 & A2 & A3 & A4) (B1 & B2 & B3 & B4). repeat split; eapply Qle_trans; eassumption. Qed.
Lemma rcontains_refl a : rcontains a a.
Proof. unfold rcontains. repeat split; apply Qle_refl. Qed.
Lemma rpos_radd u b : rpos u -> rpos (radd u b).
Proof.
  intros [A B]. destruct (radd_contains_l u b) as (C1 & C2 & C3 & C4). unfold rpos, rW, rH in *. split; lra.
Qed.

(** the transformed Fit bounds of a layer *)
Definition tbounds (l : layer) : rect := rtransform (layer_bounds l) (rm l).
(** hypothesis of the containment theorem: no layer with non-empty bounds is flattened to an empty box by its matrix
    (all recorded matrices regular) *)
Definition regular (ls : list layer) : Prop :=
  forall l, In l ls -> rempty (layer_bounds l) = false -> rempty (tbounds l) = false.

Lemma fit_fold_inv ls : forall acc,
  regular ls ->
  (rpos acc \/ acc = mkR 0 0 0 0) ->
  let u := fold_left fit_acc ls acc in
  (rpos u \/ (u = mkR 0 0 0 0 /\ forall l, In l ls -> rempty (layer_bounds l) = true)) /\
  (rpos acc -> rcontains u acc) /\
  forall l, In l ls -> rempty (layer_bounds l) = false -> rcontains u (tbounds l).
Proof.
  induction ls as [|l ls IH]; intros acc R A; cbn zeta; cbn [fold_left].
  - split; [|split].
    + destruct A as [A|A]; [left; exact A|right; split; [exact A|intros l []]].
    + intros _. apply rcontains_refl.
    + intros l [].
  - assert (R' : regular ls) by (intros l' I; apply R; right; exact I).
    assert (FA : fit_acc acc l = if rempty (layer_bounds l) then acc
                                 else if rempty acc then tbounds l else radd acc (tbounds l)) by reflexivity.
    destruct (rempty (layer_bounds l)) eqn:E.
    + rewrite FA. destruct (IH acc R' A) as (I1 & I2 & I3). split; [|split].
      * destruct I1 as [I1|[I1 I1']]; [left; exact I1|right; split; [exact I1|]].
        intros l' [<-|I]; [exact E|apply I1'; exact I].
      * exact I2.
      * intros l' [<-|I] N; [congruence|apply I3; assumption].
    + assert (P : rpos (tbounds l)) by (apply rtransform_nonempty_pos, R; [left; reflexivity|exact E]).
      destruct A as [A|A].
      * rewrite (rpos_nonempty _ A) in FA. rewrite FA.
        destruct (IH (radd acc (tbounds l)) R' (or_introl (rpos_radd _ _ A))) as (I1 & I2 & I3).
        assert (C := I2 (rpos_radd _ _ A)). split; [|split].
        -- destruct I1 as [I1|[I1 _]]; [left; exact I1|].
           exfalso. rewrite I1 in C. destruct C as (C1 & _ & C3 & _). destruct (rpos_radd acc (tbounds l) A) as [W _].
           unfold rW in W. cbn [rx0 rx1] in C1, C3. pose proof eps_pos. lra.
        -- intros _. eapply rcontains_trans; [exact C|apply radd_contains_l].
        -- intros l' [<-|I] N; [eapply rcontains_trans; [exact C|apply radd_contains_r]|apply I3; assumption].
      * subst acc. replace (rempty (mkR 0 0 0 0)) with true in FA by reflexivity. rewrite FA.
        destruct (IH (tbounds l) R' (or_introl P)) as (I1 & I2 & I3). split; [|split].
        -- destruct I1 as [I1|[I1 _]]; [left; exact I1|].
           exfalso. assert (C := I2 P). rewrite I1 in C. destruct C as (C1 & _ & C3 & _). destruct P as [W _].
           unfold rW in W. cbn [rx0 rx1] in C1, C3. pose proof eps_pos. lra.
        -- intros [W _]. exfalso. unfold rW in W; cbn [rx0 rx1] in W. pose proof eps_pos. lra.
        -- intros l' [<-|I] N; [apply I2; exact P|apply I3; assumption].
Qed.

Lemma all_layers_transform cv m : all_layers (cv_transform cv m) = map (tr_layer m) (all_layers cv).
Proof.
  unfold all_layers, cv_transform; cbn [cvlayers]. fold (tr_layer m).
  induction (cvlayers cv) as [|[k ls] al IH]; cbn [map flat_map snd]; [reflexivity|].
  rewrite map_app, IH. reflexivity.
Qed.

(** after Fit(margin) the transformed bounds of every layer with non-empty bounds lie within
    [margin, W-margin] x [margin, H-margin] of the new size *)
Theorem fit_contains cv margin :
  regular (all_layers cv) ->
  let cv' := cv_fit cv margin in
  forall l', In l' (all_layers cv') -> rempty (layer_bounds l') = false ->
  let b := tbounds l' in
  margin <= rx0 b /\ margin <= ry0 b /\ rx1 b <= cvW cv' - margin /\ ry1 b <= cvH cv' - margin.
Proof.
  intros R. cbn zeta. intros l' I N.
  unfold cv_fit, cv_clip in I. unfold all_layers in I; cbn [cvlayers] in I. fold (all_layers (cv_transform cv (mtranslate mid (- rx0 (fit_rect cv margin)) (- ry0 (fit_rect cv margin))))) in I.
  rewrite all_layers_transform in I. apply in_map_iff in I. destruct I as (l & E & I). subst l'.
  assert (LB : layer_bounds (tr_layer (mtranslate mid (- rx0 (fit_rect cv margin)) (- ry0 (fit_rect cv margin))) l) = layer_bounds l) by reflexivity.
  rewrite LB in N.
  destruct (fit_fold_inv (all_layers cv) (mkR 0 0 0 0) R (or_intror eq_refl)) as (_ & _ & C).
  specialize (C l I N). set (u := fold_left fit_acc (all_layers cv) (mkR 0 0 0 0)) in *.
  destruct C as (C1 & C2 & C3 & C4).
  assert (WE : cvW (cv_fit cv margin) == rx1 u + margin - (rx0 u - margin)).
  { unfold cv_fit, cv_clip; cbn [cvW]. rewrite Qred_correct. unfold fit_rect, rexpand, rW; cbn [rx0 rx1]. reflexivity. }
  assert (HE : cvH (cv_fit cv margin) == ry1 u + margin - (ry0 u - margin)).
  { unfold cv_fit, cv_clip; cbn [cvH]. rewrite Qred_correct. unfold fit_rect, rexpand, rH; cbn [ry0 ry1]. reflexivity. }
  rewrite WE, HE. unfold tbounds. rewrite LB.
  unfold tr_layer, with_m; cbn [rm].
  set (b := layer_bounds l) in *. set (m := rm l) in *.
  set (T := mtranslate mid (- rx0 (fit_rect cv margin)) (- ry0 (fit_rect cv margin))).
  assert (PT : forall p, fst (mdot (mnorm (mmul T m)) p) == fst (mdot m p) - (rx0 u - margin) /\
                         snd (mdot (mnorm (mmul T m)) p) == snd (mdot m p) - (ry0 u - margin)).
  { intro p. destruct (pteq_trans _ _ _ (mdot_mnorm (mmul T m) p) (mdot_mmul T m p)) as [P1 P2].
    rewrite P1, P2. unfold T, mdot, mtranslate, mmul, mid, fit_rect, rexpand; cbn [ma mb mc md me mf fst snd rx0 ry0].
    fold u. split; ring. }
  unfold tbounds in C1, C2, C3, C4. fold b m in C1, C2, C3, C4.
  unfold rtransform in *; cbn [rx0 ry0 rx1 ry1] in *.
  destruct (qmin4_le (fst (mdot m (rx0 b, ry0 b))) (fst (mdot m (rx1 b, ry0 b))) (fst (mdot m (rx1 b, ry1 b))) (fst (mdot m (rx0 b, ry1 b)))) as (X1 & X2 & X3 & X4).
  destruct (qmin4_le (snd (mdot m (rx0 b, ry0 b))) (snd (mdot m (rx1 b, ry0 b))) (snd (mdot m (rx1 b, ry1 b))) (snd (mdot m (rx0 b, ry1 b)))) as (Y1 & Y2 & Y3 & Y4).
  destruct (qmax4_ge (fst (mdot m (rx0 b, ry0 b))) (fst (mdot m (rx1 b, ry0 b))) (fst (mdot m (rx1 b, ry1 b))) (fst (mdot m (rx0 b, ry1 b)))) as (X1' & X2' & X3' & X4').
  destruct (qmax4_ge (snd (mdot m (rx0 b, ry0 b))) (snd (mdot m (rx1 b, ry0 b))) (snd (mdot m (rx1 b, ry1 b))) (snd (mdot m (rx0 b, ry1 b)))) as (Y1' & Y2' & Y3' & Y4').
  destruct (PT (rx0 b, ry0 b)) as [Pa Pb]. destruct (PT (rx1 b, ry0 b)) as [Pc Pd].
  destruct (PT (rx1 b, ry1 b)) as [Pe Pf]. destruct (PT (rx0 b, ry1 b)) as [Pg Ph].
  repeat split.
  - apply qmin4_glb; rewrite ?Pa, ?Pc, ?Pe, ?Pg; lra.
  - apply qmin4_glb; rewrite ?Pb, ?Pd, ?Pf, ?Ph; lra.
  - apply qmax4_lub; rewrite ?Pa, ?Pc, ?Pe, ?Pg; lra.
  - apply qmax4_lub; rewrite ?Pb, ?Pd, ?Pf, ?Ph; lra.
Qed.

(** the hypotheses are satisfiable on a non-trivial canvas *)
Example fit_contains_ex :
  let l1 := mkRop (OPath [(1%Z, 0, 0); (2%Z, 4, 3)]) default_style (mkM 2 0 10 0 2 (-5)) (mkR 0 0 4 3) in
  let l2 := mkRop (OText 1) default_style (mkM 0 (-1) 3 1 0 7) (mkR 0 (-2) 9 5) in
  let cv := mkCv [(0%Z, [l1]); (2%Z, [l2])] 0 100 100 in
  regular (all_layers cv) /\ cvW (cv_fit cv 1) == 22 /\ cvH (cv_fit cv 1) == 23.
Proof.
  cbn zeta. split; [|split; reflexivity].
  intros l [<-|[<-|[]]] _; reflexivity.
Qed.

(** partial: layers whose own bounds are Empty() (zero width or height, e.g. a filled horizontal hairline without
    stroke) are skipped by Fit and may end up outside; witness: *)
Theorem fit_contains_refuted_for_empty_bounds :
  exists cv margin l', In l' (all_layers (cv_fit cv margin)) /\ rempty (layer_bounds l') = true /\
                       cvW (cv_fit cv margin) - margin < rx1 (tbounds l').
Proof.
  exists (mkCv [(0%Z, [mkRop (OPath [(1%Z, 0, 0); (2%Z, 4, 3)]) default_style mid (mkR 0 0 4 3);
                       mkRop (OPath [(1%Z, 0, 0); (2%Z, 10, 0)]) default_style (mkM 1 0 100 0 1 100) (mkR 0 0 10 0)])] 0 200 200).
  exists 1. eexists. split; [right; left; reflexivity|]. split; reflexivity.
Qed.

(** the size after Fit: content box plus the margin on every side *)
Theorem fit_size cv margin :
  let u := fold_left fit_acc (all_layers cv) (mkR 0 0 0 0) in
  cvW (cv_fit cv margin) == rW u + 2 * margin /\ cvH (cv_fit cv margin) == rH u + 2 * margin.
Proof.
  cbn zeta. unfold cv_fit, cv_clip; cbn [cvW cvH]. rewrite !Qred_correct.
  unfold fit_rect, rexpand, rW, rH; cbn [rx0 ry0 rx1 ry1]. split; ring.
Qed.

(** * The system: Context over Canvas *)

(** canvas-level calls and z-index changes never touch the Context (so the Context theorems, which hold for every
    W, H, apply unchanged when Transform/Clip/Fit/SetZIndex are interleaved) *)
Theorem sys_canvas_calls_keep_ctx s o :
  match o with Ctx (SetZIndex _) | CvTransform _ | CvClip _ | CvFit _ => sctx (sys_step s o) = sctx s | _ => True end.
Proof. destruct o as [o| | |]; try reflexivity. destruct o; exact I || reflexivity. Qed.

(** a Context call acts on the Context as [ctx_step] with the canvas' current size and changes the canvas only by
    recording what [ctx_step] hands on, in order, at the current z-index *)
Theorem sys_ctx_call_records s o :
  (forall z, o <> SetZIndex z) ->
  sys_step s (Ctx o) =
  mkSys (fst (ctx_step (cvW (scv s)) (cvH (scv s)) (sctx s) o))
        (fold_left cv_ev (map EvRec (snd (ctx_step (cvW (scv s)) (cvH (scv s)) (sctx s) o))) (scv s)).
Proof.
  intro N. rewrite <- fold_record_events.
  destruct o; try (exfalso; eapply N; reflexivity);
    unfold sys_step; destruct (ctx_step (cvW (scv s)) (cvH (scv s)) (sctx s) _) as [c' out]; reflexivity.
Qed.

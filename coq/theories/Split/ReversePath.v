(** C09 — "Reverse negates the winding number around every point", lifted from one contour to whole paths
    (any number of contours; Reverse also reverses the ORDER of the subpaths, which a sum does not see). *)
From Coq Require Import ZArith List Bool Lia.
From CV Require Import Geom.Winding Split.SplitProofs.
Import ListNotations.
Open Scope Z_scope.

(** what Reverse does to a closed polygonal contour (C09_reverse_closed_polygon): v0 v1..vn -> v0 vn..v1 *)
Definition rev_contour (c : list pt) : list pt := match c with [] => [] | v0 :: vs => v0 :: rev vs end.

Lemma zsum_app l1 l2 : zsum (l1 ++ l2) = zsum l1 + zsum l2.
Proof. unfold zsum. induction l1 as [|a l1 IH]; cbn [app fold_right]; [reflexivity|]. rewrite IH. ring. Qed.

Lemma zsum_rev l : zsum (rev l) = zsum l.
Proof. induction l as [|a l IH]; cbn [rev]; [reflexivity|]. rewrite zsum_app, IH. unfold zsum; cbn. ring. Qed.

Lemma wn_contour_nil p : wn_contour [] p = 0.
Proof. reflexivity. Qed.

Lemma zsum_map_opp {A} (f g : A -> Z) (l : list A) :
  (forall x, In x l -> f x = - g x) -> zsum (map f l) = - zsum (map g l).
Proof.
  induction l as [|x l IH]; intros H; [reflexivity|].
  cbn [map]. unfold zsum in *. cbn [fold_right].
  rewrite (H x) by now left. rewrite IH by (intros y Hy; apply H; now right). ring.
Qed.

Lemma wn_rev_contour c p : (forall v, In v c -> snd p <> snd v) -> wn_contour (rev_contour c) p = - wn_contour c p.
Proof.
  destruct c as [|v0 vs]; intros H; [reflexivity|]. cbn [rev_contour]. now apply wn_reverse_contour.
Qed.

Theorem wn_reverse_path P p :
  (forall c v, In c P -> In v c -> snd p <> snd v) ->
  wn (rev (map rev_contour P)) p = - wn P p.
Proof.
  intros H. unfold wn. rewrite map_rev, zsum_rev, map_map.
  apply zsum_map_opp. intros c Hc. apply wn_rev_contour. intros v Hv. exact (H c v Hc Hv).
Qed.

(** non-trivial instance: a CCW square with a CW hole; the point between them has winding 1, reversed -1 *)
Example wn_reverse_path_ex :
  let P := [[(0,0); (10,0); (10,10); (0,10)]; [(3,3); (3,7); (7,7); (7,3)]] in
  wn P (1,1) = 1 /\ wn (rev (map rev_contour P)) (1,1) = -1 /\ wn P (5,5) = 0.
Proof. repeat split; reflexivity. Qed.

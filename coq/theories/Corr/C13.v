(** Correspondence judge for C13.  A case carries the script-level prediction (writer history, renderer call
    skeleton per page, metadata inputs) and the object table of the file the Go renderer wrote.
    Tie flags  (model <> implementation):
       1 object numbers / printing order   2 xref offsets   4 startxref, Size, contiguity of the body
       8 BT/ET/q/Q skeleton of a page      16 raw Info/Lang literal <> write_literal (encode_text input)
      32 Kids / Count <> model
    Property flags (the file violates C13, judged on the Go output alone): the bits of [check_file]
       1 header 2 startxref/EOF 4 xref 8 trailer 16 unresolved reference 32 stream Length/filter/atoms
      64 page tree 128 resource names 256 content structure/arity 512 function dictionaries
    plus 1024 an Info field does not decode (by the specification reader) to the input, 2048 Lang,
    4096 panic, 8192 the tokeniser could not read the file. *)
From Coq Require Import ZArith List Bool String.
From CV Require Import Pdf.Strings Pdf.Objects Pdf.Check Pdf.TextObj Pdf.Meta.
Import ListNotations.
Open Scope Z_scope.

Record case13 := mkCase13 {
  kPanic : bool; kTokErr : bool; kSubset : bool;
  kHist : list op;
  kSkel : list (list rsk);
  kMeta : list (list Z);          (* title subject keywords author creator lang, as code points *)
  kFile : option pfile }.

Fixpoint str_list_eqb (a b : list string) : bool :=
  match a, b with
  | [], [] => true
  | x :: a', y :: b' => String.eqb x y && str_list_eqb a' b'
  | _, _ => false
  end.

Definition info_dict (f : pfile) : list (string * pval) :=
  match vget "Info" (fTrailer f) with
  | Some r => match resolve (fObjs f) r with VDict d => d | _ => [] end
  | None => []
  end.

Definition catalog_dict (f : pfile) : list (string * pval) :=
  match vget "Root" (fTrailer f) with
  | Some r => match resolve (fObjs f) r with VDict d => d | _ => [] end
  | None => []
  end.

Definition info_keys : list string := ["Title"; "Subject"; "Keywords"; "Author"; "Creator"]%string.

Definition meta_nth (m : list (list Z)) (i : nat) : list Z := nth i m [].

Definition info_all (chk : list (string * pval) -> string -> list Z -> bool) (f : pfile) (m : list (list Z)) : bool :=
  let d := info_dict f in
  forallb (fun ik => chk d (snd ik) (meta_nth m (fst ik))) (combine (seq 0 5) info_keys).

Definition pages_root_dict (f : pfile) : list (string * pval) :=
  match root_pages f with
  | Some n => match find_obj n (fObjs f) with Some o => match oVal o with VDict d => d | _ => [] end | None => [] end
  | None => []
  end.

Definition skel_tie (f : pfile) (sk : list (list rsk)) : bool :=
  match page_list f with
  | Some leaves =>
      Nat.eqb (List.length leaves) (List.length sk) &&
      forallb (fun ns =>
        match page_ops (fObjs f) (fst ns) with
        | Some (_, ops) => str_list_eqb (skeleton ops) (flat_map skeleton_of (snd ns))
        | None => false
        end) (combine leaves sk)
  | None => false
  end.

Definition contiguous (f : pfile) : bool :=
  (fix go (p : Z) (os : list pobj) : bool :=
     match os with
     | [] => p =? fXrefPos f
     | o :: t => (oOff o =? p) && go (oEnd o) t
     end) (fBodyStart f) (fObjs f).

Definition judge_file (c : case13) (f : pfile) : list Z :=
  let os := fObjs f in
  let m := run_doc (fBodyStart f) (map (fun o => oEnd o - oOff o) os) (kHist c) (kSubset c) in
  let t1 := negb (list_eqb (map num (cWr m)) (map oNum os)) in
  let t2 := negb (list_eqb (cTable m) (map xOff (tl (fXref f)))) || negb (list_eqb (map epos (cWr m)) (map oOff os)) in
  let t4 := negb (cXrefPos m =? fStartxref f) || negb (cSize m =? fXCount f) || negb (contiguous f) in
  let t8 := negb (skel_tie f (kSkel c)) in
  let t16 := negb (info_all field_tie f (kMeta c)) || negb (field_tie (catalog_dict f) "Lang" (meta_nth (kMeta c) 5)) in
  let prd := pages_root_dict f in
  let t32 := negb (match dget "Kids" prd with Some kv => match ref_list kv with Some l => list_eqb l (cKids m) | None => false end | None => false end)
             || negb (match dget "Count" prd with Some (VInt n) => n =? cCount m | _ => false end) in
  let p := check_file f
           + bit (negb (info_all field_ok f (kMeta c))) 1024
           + bit (negb (field_ok (catalog_dict f) "Lang" (meta_nth (kMeta c) 5))) 2048 in
  let nops := fold_right (fun o acc => match oStream o with Some s => match sOps s with Some l => Z.of_nat (List.length l) + acc | None => acc end | None => acc end) 0 os in
  [ p;
    bit t1 1 + bit t2 2 + bit t4 4 + bit t8 8 + bit t16 16 + bit t32 32;
    Z.of_nat (List.length os);
    match page_list f with Some l => Z.of_nat (List.length l) | None => -1 end;
    nops;
    Z.of_nat (List.length (all_refs f));
    Z.of_nat (List.length (filter (fun o => match oStream o with Some _ => true | None => false end) os)) ].

Definition judge (c : case13) : list Z :=
  match kFile c with
  | Some f => match judge_file c f with
              | p :: rest => (p + bit (kPanic c) 4096 + bit (kTokErr c) 8192) :: rest
              | [] => []
              end
  | None => [bit (kPanic c) 4096 + bit (kTokErr c) 8192; 0; 0; 0; 0; 0; 0]
  end.

(** C17 — further invariants of the faithful model of Linebreak (KP.v):
    - every node built without the overflow fallback is REGULAR: its width, its sums and its ratio are those of
      the line from its parent to its position (hence the reported widths/ratios are those of the returned lines);
    - nextTolerance is always one of finitely many ratios, so the goto-START loop terminates (fuel bound);
    - a node is dropped from the active list only when its line has become too long or at a forced break, and a
      new node is created whenever some active node offers a feasible line (used for completeness under Monotone). *)
From Coq Require Import ZArith List Bool Lia.
From CV Require Import Text.KPSpec Text.KP Text.KPProofs Text.KPModelProofs.
Import ListNotations.

Section Reg.
Context {num : Type} (O : ops num) (P : params num).
Variable items : list (item num).
Variable width : num.
Variable tol : option num.

Notation node := (@node num).
Notation brk := (@brk num).
Notation tri := (@tri num).

Definition feasR (x : num) : bool := nleb O (nm1 O) x && tol_leb O x tol.
Definition lt_m1 (r : xr num) : bool := match r with NegInf => true | Fin x => nltb O x (nm1 O) end.
Definition feasX (r : xr num) : bool := match r with NegInf => false | Fin x => feasR x end.

Lemma feasX_feas_tol r : feasX r = feas_tol O tol r.
Proof. destruct r; reflexivity. Qed.

Definition wd_at (b : nat) (it : item num) : num :=
  if is_pen it then nadd O (tW (pref O items b)) (iw it) else tW (pref O items b).

(** sums at the start of the line that follows the break p, whose own ancestors are [rest] ([] = p is the root) *)
Definition st_of (rest : list brk) (p : brk) : tri :=
  match rest with [] => t0 O | _ => after_sums O P items (bPos p) end.

Fixpoint chain_reg (l : list brk) : Prop :=
  match l with
  | [] => False
  | k :: tl =>
    match tl with
    | [] => k = brk_of (root O)
    | p :: rest =>
      chain_reg tl /\ bW k = tW (after_sums O P items (bPos k)) /\ (bPos k < length items)%nat /\
      exists it, nth_error items (bPos k) = Some it /\ bWidth k = wd_at (bPos k) it /\
                 adj_ratio O P width (pref O items (bPos k)) it (st_of rest p) = Fin (bRatio k) /\ feasR (bRatio k) = true
    end
  end.

Definition RegNode (a : node) : Prop :=
  chain_reg (brk_of a :: nAnc a) /\ nSums a = st_of (nAnc a) (brk_of a).

Lemma root_reg : RegNode (root O).
Proof. split; reflexivity. Qed.

(** the finite set of ratios a pass can ever see *)
Definition starts : list tri := t0 O :: map (after_sums O P items) (seq 0 (length items)).
Definition ratios_at (b : nat) : list num :=
  match nth_error items b with
  | None => []
  | Some it => flat_map (fun st => match adj_ratio O P width (pref O items b) it st with Fin x => [x] | NegInf => [] end) starts
  end.
Definition all_ratios : list num := flat_map ratios_at (seq 0 (length items)).

Lemma reg_start a : RegNode a -> In (nSums a) starts.
Proof.
  intros [Hc Hs]. rewrite Hs. unfold st_of. destruct (nAnc a) as [|p rest] eqn:Ea; [left; reflexivity|].
  right. cbn [chain_reg] in Hc. destruct Hc as (_ & _ & Hlt & _).
  apply in_map. apply in_seq. cbn [brk_of bPos] in *. lia.
Qed.

Lemma ratio_in b it a x :
  nth_error items b = Some it -> RegNode a ->
  adj_ratio O P width (pref O items b) it (nSums a) = Fin x -> In x all_ratios.
Proof.
  intros Hn Ha Hr. unfold all_ratios. apply in_flat_map. exists b. split.
  - apply in_seq. assert (b < length items)%nat by (apply nth_error_Some; congruence). lia.
  - unfold ratios_at. rewrite Hn. apply in_flat_map. exists (nSums a). split; [apply reg_start; exact Ha|]. rewrite Hr. left; reflexivity.
Qed.

(** nextTolerance: +Inf, or one of the ratios, above the tolerance *)
Definition NtolS (ntol : option num) : Prop :=
  match ntol with None => True | Some x => tol_ltb O tol x = true /\ In x all_ratios end.

(** ---- per fitness class accumulators ---- *)
Lemma length_upd {A} (v : A) : forall l c, length (upd c v l) = length l.
Proof. induction l as [|x l IH]; intros [|c]; simpl; auto. Qed.

Lemma nth_upd_same {A} (v d : A) : forall l c, (c < length l)%nat -> nth c (upd c v l) d = v.
Proof. induction l as [|x l IH]; intros [|c] H; simpl in *; try lia; auto. apply IH. lia. Qed.

Lemma nth_upd_other {A} (v d : A) : forall l c c', c' <> c -> nth c' (upd c v l) d = nth c' l d.
Proof. induction l as [|x l IH]; intros [|c] [|c'] H; simpl; auto; try congruence. Qed.

Definition Gall (b : nat) (it : item num) (g : @gacc num) : Prop :=
  length (gD g) = 4%nat /\
  (forall c d a r, nth c (gD g) None = Some (d, a, r) ->
     RegNode a /\ adj_ratio O P width (pref O items b) it (nSums a) = Fin r /\ feasR r = true) /\
  (forall m, gDmin g = Some m -> exists c a r, nth c (gD g) None = Some (m, a, r)) /\
  (forall c v, nth c (gD g) None = Some v -> gDmin g <> None).

Lemma Gall_empty b it : Gall b it g_empty.
Proof.
  split; [reflexivity|]. split; [|split].
  - intros c d a r H. destruct c as [|[|[|[|[|c]]]]]; simpl in H; discriminate.
  - intros m H; discriminate.
  - intros c v H. destruct c as [|[|[|[|[|c]]]]]; simpl in H; discriminate.
Qed.

Definition ratio_of (b : nat) (it : item num) (a : node) : xr num := adj_ratio O P width (pref O items b) it (nSums a).

Lemma visit_all b it a g ntol deact g' ntol' :
  nth_error items b = Some it ->
  visit O P items width tol it (pref O items b) a g ntol = (deact, g', ntol') ->
  RegNode a -> Gall b it g -> NtolS ntol ->
  deact = lt_m1 (ratio_of b it a) || forced O P it /\ Gall b it g' /\ NtolS ntol' /\
  (feasX (ratio_of b it a) = true -> gDmin g' <> None) /\ (gDmin g <> None -> gDmin g' <> None).
Proof.
  intros Hn H Ha Hg Hnt. unfold visit in H. cbv zeta in H. unfold ratio_of.
  destruct (adj_ratio O P width (pref O items b) it (nSums a)) as [|x] eqn:Er.
  - inversion H; subst. cbn [lt_m1 feasX]. split; [reflexivity|]. split; [exact Hg|]. split; [exact Hnt|]. split; [intro Hx; discriminate Hx | auto].
  - cbn [lt_m1 feasX]. fold (feasR x) in H. destruct (feasR x) eqn:Ef.
    + destruct (line_dem O P it x (flag_at items (nPos a)) (nFit a)) as [dl c] eqn:Ed.
      assert (Hc : (c < 4)%nat).
      { pose proof (line_dem_class O P it x (flag_at items (nPos a)) (nFit a)) as Hcl. rewrite Ed in Hcl. cbn [snd] in Hcl.
        pose proof (fitness_lt4 O x) as Hin. rewrite <- Hcl in Hin. simpl in Hin. lia. }
      destruct Hg as (G1 & G2 & G3 & G4).
      destruct (match nth c (gD g) None with Some (d0, _, _) => nltb O (nadd O dl (nDem a)) d0 | None => true end) eqn:Elt.
      * inversion H; subst; clear H. split; [reflexivity|]. split; [|split; [exact Hnt|split]].
        -- split; [cbn [gD]; rewrite length_upd; exact G1|]. split; [|split].
           ++ intros c' d' a' r' Hn'. cbn [gD] in Hn'. destruct (Nat.eq_dec c' c) as [->|Hne].
              ** rewrite nth_upd_same in Hn' by lia. inversion Hn'; subst. auto.
              ** rewrite nth_upd_other in Hn' by exact Hne. exact (G2 _ _ _ _ Hn').
           ++ intros m Hm. cbn [gDmin gD] in *.
              destruct (opt_ltb O (nadd O dl (nDem a)) (gDmin g)) eqn:Eo.
              ** inversion Hm; subst m. exists c, a, x. apply nth_upd_same. lia.
              ** destruct (G3 m Hm) as (c0 & a0 & r0 & H0). destruct (Nat.eq_dec c0 c) as [->|Hne].
                 --- exfalso. rewrite H0 in Elt. rewrite Hm in Eo. cbn [opt_ltb] in Eo. congruence.
                 --- exists c0, a0, r0. rewrite nth_upd_other by exact Hne. exact H0.
           ++ intros c' v Hv. cbn [gDmin]. destruct (opt_ltb O (nadd O dl (nDem a)) (gDmin g)) eqn:Eo; [discriminate|].
              destruct (gDmin g); [discriminate | cbn in Eo; discriminate].
        -- intros _. cbn [gDmin]. destruct (opt_ltb O (nadd O dl (nDem a)) (gDmin g)) eqn:Eo; [discriminate|].
           destruct (gDmin g); [discriminate | cbn in Eo; discriminate].
        -- intros Hd. cbn [gDmin]. destruct (opt_ltb O (nadd O dl (nDem a)) (gDmin g)); [discriminate | exact Hd].
      * inversion H; subst; clear H. split; [reflexivity|]. split; [exact (conj G1 (conj G2 (conj G3 G4)))|]. split; [exact Hnt|]. split; [|auto].
        intros _. destruct (nth c (gD g') None) as [v|] eqn:Ev; [exact (G4 c v Ev) | discriminate Elt].
    + destruct (tol_ltb O tol x) eqn:Et; inversion H; subst; clear H; (split; [reflexivity|]); (split; [exact Hg|]); (split; [|split; [intro; discriminate | auto]]).
      * destruct ntol as [t|]; cbn [NtolS].
        -- unfold nmin. destruct Hnt as [Ht Hi]. destruct (nltb O x t); [split; [exact Et | eapply ratio_in; eauto] | split; assumption].
        -- split; [exact Et | eapply ratio_in; eauto].
      * exact Hnt.
Qed.

Hypothesis leb_dfit : forall a, nleb O a (nadd O a (pDFit P)) = true.

Lemma flush_all b it g :
  nth_error items b = Some it -> Gall b it g ->
  (forall a', In a' (flush O P items b it (pref O items b) g) -> RegNode a' /\ nPos a' = b /\ nAnc a' <> []) /\
  (gDmin g <> None -> flush O P items b it (pref O items b) g <> []).
Proof.
  intros Hn (G1 & G2 & G3 & G4). unfold flush. split.
  - intros a' Hin. destruct (gDmin g) as [dmin|]; [|destruct Hin].
    apply in_flat_map in Hin. destruct Hin as (c & _ & Hin).
    destruct (nth c (gD g) None) as [[[d a] r]|] eqn:E; [|destruct Hin].
    destruct (nleb O d (nadd O dmin (pDFit P))); [|destruct Hin].
    destruct Hin as [Hin|[]]. subst a'. destruct (G2 _ _ _ _ E) as ((Hc & Hs) & Hr & Hf).
    split; [|split; [reflexivity | discriminate]].
    match goal with |- RegNode ?n => set (a' := n) end.
    unfold RegNode. change (nAnc a') with (brk_of a :: nAnc a).
    split.
    + cbn [chain_reg]. split; [exact Hc|]. split; [reflexivity|].
      split; [change (b < length items)%nat; apply nth_error_Some; congruence|].
      exists it. split; [exact Hn|]. split; [reflexivity|].
      split; [change (adj_ratio O P width (pref O items b) it (st_of (nAnc a) (brk_of a)) = Fin r); rewrite <- Hs; exact Hr | exact Hf].
    + reflexivity.
  - intro Hd. destruct (gDmin g) as [dmin|] eqn:Em; [|congruence].
    destruct (G3 dmin eq_refl) as (c & a & r & Hc).
    assert (Hc4 : (c < 4)%nat).
    { destruct (le_lt_dec 4 c) as [Hge|]; [|assumption]. rewrite nth_overflow in Hc by lia. discriminate. }
    intro Hnil.
    assert (Hin : In (mkNode b (S (nLine a)) c (if is_pen it then nadd O (tW (pref O items b)) (iw it) else tW (pref O items b))
                             (compute_sum O P items b (pref O items b)) r dmin (brk_of a :: nAnc a))
                     (flat_map (fun c0 => match nth c0 (gD g) None with
                                          | Some (d, a0, r0) => if nleb O d (nadd O dmin (pDFit P))
                                                                then [mkNode b (S (nLine a0)) c0 (if is_pen it then nadd O (tW (pref O items b)) (iw it) else tW (pref O items b))
                                                                             (compute_sum O P items b (pref O items b)) r0 d (brk_of a0 :: nAnc a0)] else []
                                          | None => [] end) [0; 1; 2; 3]%nat)).
    { apply in_flat_map. exists c. split; [simpl; lia|]. rewrite Hc, leb_dfit. left; reflexivity. }
    rewrite Hnil in Hin. destruct Hin.
Qed.

Lemma mloop_all b it : nth_error items b = Some it ->
  forall rest g inact ntol out inact' ntol',
  mloop O P items width tol b it (pref O items b) rest g inact ntol = (out, inact', ntol') ->
  (forall a, In a rest -> RegNode a) -> Gall b it g -> (forall a, In a inact -> RegNode a) -> NtolS ntol ->
  (forall a, In a out -> RegNode a) /\ (forall a, In a inact' -> RegNode a) /\ NtolS ntol' /\
  (forall a, In a rest -> lt_m1 (ratio_of b it a) || forced O P it = false -> In a out) /\
  (gDmin g <> None \/ (exists a, In a rest /\ feasX (ratio_of b it a) = true) ->
     exists a', In a' out /\ nPos a' = b /\ nAnc a' <> []).
Proof.
  intros Hn. induction rest as [|a rest IH]; intros g inact ntol out inact' ntol' H Hrest Hg Hin Hnt.
  - cbn [mloop] in H. inversion H; subst. destruct (flush_all b it g Hn Hg) as [F1 F2].
    split; [intros a Ha; apply F1; exact Ha|]. split; [exact Hin|]. split; [exact Hnt|]. split; [intros a []|].
    intros [Hd|(a & [] & _)]. specialize (F2 Hd).
    destruct (flush O P items b it (pref O items b) g) as [|a' t] eqn:Ef; [congruence|].
    exists a'. split; [left; reflexivity|]. destruct (F1 a' (or_introl eq_refl)) as (_ & E1 & E2). auto.
  - cbn [mloop] in H.
    destruct (visit O P items width tol it (pref O items b) a g ntol) as [[deact g'] ntol1] eqn:Ev.
    destruct (visit_all b it a g ntol deact g' ntol1 Hn Ev (Hrest a (or_introl eq_refl)) Hg Hnt) as (Vd & Vg & Vn & Vf & Vm).
    assert (Hrest' : forall x, In x rest -> RegNode x) by (intros x Hx; apply Hrest; right; exact Hx).
    assert (Hin1 : forall x, In x (if deact then inact ++ [a] else inact) -> RegNode x).
    { intros x Hx. destruct deact; [|auto]. apply in_app_or in Hx. destruct Hx as [Hx|[Hx|[]]]; [auto | subst; apply Hrest; left; reflexivity]. }
    destruct (flush_all b it g' Hn Vg) as [F1 F2].
    destruct (match rest with [] => true | nx :: _ => (S (nLine a) <=? nLine nx)%nat end).
    + destruct (mloop O P items width tol b it (pref O items b) rest g_empty (if deact then inact ++ [a] else inact) ntol1) as [[outr inactr] ntolr] eqn:Em.
      inversion H; subst; clear H.
      destruct (IH _ _ _ _ _ _ Em Hrest' (Gall_empty b it) Hin1 Vn) as (I1 & I2 & I3 & I4 & I5).
      split; [|split; [exact I2|split; [exact I3|split]]].
      * intros x Hx. apply in_app_or in Hx. destruct Hx as [Hx|Hx].
        -- destruct (lt_m1 (ratio_of b it a) || forced O P it); [destruct Hx|]. destruct Hx as [Hx|[]]. subst. apply Hrest; left; reflexivity.
        -- apply in_app_or in Hx. destruct Hx as [Hx|Hx]; [apply F1; exact Hx | apply I1; exact Hx].
      * intros x [Hx|Hx] Hk.
        -- subst x. apply in_or_app; left. try rewrite Vd. rewrite Hk. left; reflexivity.
        -- apply in_or_app; right. apply in_or_app; right. apply I4; assumption.
      * intros Hc.
        assert (Hd' : gDmin g' <> None \/ exists x, In x rest /\ feasX (ratio_of b it x) = true).
        { destruct Hc as [Hd|(x & [Hx|Hx] & Hf)]; [left; auto | subst; left; auto | right; eauto]. }
        destruct Hd' as [Hd'|Hd'].
        -- specialize (F2 Hd'). destruct (flush O P items b it (pref O items b) g') as [|a' t] eqn:Ef; [congruence|].
           exists a'. split; [apply in_or_app; right; apply in_or_app; left; left; reflexivity|].
           destruct (F1 a' (or_introl eq_refl)) as (_ & E1 & E2). auto.
        -- destruct (I5 (or_intror Hd')) as (a' & Ha' & E1 & E2). exists a'. split; [apply in_or_app; right; apply in_or_app; right; exact Ha' | auto].
    + destruct (mloop O P items width tol b it (pref O items b) rest g' (if deact then inact ++ [a] else inact) ntol1) as [[outr inactr] ntolr] eqn:Em.
      inversion H; subst; clear H.
      destruct (IH _ _ _ _ _ _ Em Hrest' Vg Hin1 Vn) as (I1 & I2 & I3 & I4 & I5).
      split; [|split; [exact I2|split; [exact I3|split]]].
      * intros x Hx. apply in_app_or in Hx. destruct Hx as [Hx|Hx]; [|apply I1; exact Hx].
        destruct (lt_m1 (ratio_of b it a) || forced O P it); [destruct Hx|]. destruct Hx as [Hx|[]]. subst. apply Hrest; left; reflexivity.
      * intros x [Hx|Hx] Hk.
        -- subst x. apply in_or_app; left. try rewrite Vd. rewrite Hk. left; reflexivity.
        -- apply in_or_app; right. apply I4; assumption.
      * intros Hc.
        assert (Hd' : gDmin g' <> None \/ exists x, In x rest /\ feasX (ratio_of b it x) = true).
        { destruct Hc as [Hd|(x & [Hx|Hx] & Hf)]; [left; auto | subst; left; auto | right; eauto]. }
        destruct (I5 Hd') as (a' & Ha' & E1 & E2). exists a'. split; [apply in_or_app; right; exact Ha' | auto].
Qed.

(** ---- one pass ---- *)
Definition NoGood : Prop := tol = None \/ exists a x, tol = Some a /\ nltb O a x = true /\ neqb O a x = true.

Lemma nogood_of ntol1 : NtolS ntol1 -> tol_neq O tol ntol1 = false -> NoGood.
Proof.
  unfold NoGood, NtolS, tol_neq. destruct tol as [a|]; [|intros; left; reflexivity].
  destruct ntol1 as [x|]; [|intros _ H; discriminate H]. intros [C1 _] Etn. apply negb_false_iff in Etn.
  right. exists a, x. split; [reflexivity|]. split; [exact C1 | exact Etn].
Qed.

Lemma pass_all : forall l b act inact ntol ovf,
  skipn b items = l -> (b + length l = length items)%nat ->
  (ovf = false -> (forall a, In a act -> RegNode a) /\ (forall a, In a inact -> RegNode a) /\ NtolS ntol) ->
  match pass O P items width tol l b (pref O items b) act inact ntol ovf with
  | PPanic => True
  | PRestart t o => (ovf = true -> o = true) /\ (o = true -> ovf = true \/ NoGood) /\ (o = false -> NtolS t)
  | PDone actf o => (ovf = true -> o = true) /\ (o = true -> ovf = true \/ NoGood) /\
                    (o = false -> forall a, In a actf -> RegNode a)
  end.
Proof.
  induction l as [|it l IH]; intros b act inact ntol ovf Hsk Hlen Hinv.
  - cbn [pass]. split; [auto|]. split; [auto|]. intro Ho. destruct (Hinv Ho) as (A & _ & _). exact A.
  - cbn [pass]. destruct (skipn_cons _ _ _ _ Hsk) as [Hnth Hsk'].
    assert (Hlen' : (S b + length l = length items)%nat) by (simpl in Hlen; lia).
    destruct (runs_main O P items b it) as [doit|]; [|exact I].
    destruct (if doit then mloop O P items width tol b it (pref O items b) act g_empty inact ntol else (act, inact, ntol)) as [[act1 inact1] ntol1] eqn:Em.
    assert (Hst : ovf = false -> (forall a, In a act1 -> RegNode a) /\ (forall a, In a inact1 -> RegNode a) /\ NtolS ntol1).
    { intro Ho. destruct (Hinv Ho) as (A & B & C). destruct doit.
      - destruct (mloop_all b it Hnth _ _ _ _ _ _ _ Em A (Gall_empty b it) B C) as (I1 & I2 & I3 & _). auto.
      - inversion Em; subst. auto. }
    cbv zeta. rewrite <- (pref_S O items b it Hnth).
    assert (Hinact2 : ovf = false -> forall a, In a (if forced O P it then [] else inact1) -> RegNode a).
    { intros Ho a Ha. destruct (forced O P it); [destruct Ha|]. destruct (Hst Ho) as (_ & B & _). auto. }
    destruct act1 as [|a1 act1'].
    + destruct (tol_neq O tol ntol1) eqn:Etn.
      * split; [auto|]. split; [auto|]. intro Ho. destruct (Hst Ho) as (_ & _ & C). exact C.
      * specialize (IH (S b) (overflow_nodes O b (pref O items (S b)) inact1) (if forced O P it then [] else inact1) ntol1 true Hsk' Hlen').
        assert (Hv : true = false -> (forall a, In a (overflow_nodes O b (pref O items (S b)) inact1) -> RegNode a) /\
                                     (forall a, In a (if forced O P it then [] else inact1) -> RegNode a) /\ NtolS ntol1) by (intro Hx; discriminate Hx).
        specialize (IH Hv).
        assert (Hng : ovf = false -> NoGood).
        { intro Ho. destruct (Hst Ho) as (_ & _ & C). exact (nogood_of ntol1 C Etn). }
        destruct (pass O P items width tol l (S b) (pref O items (S b)) (overflow_nodes O b (pref O items (S b)) inact1)
                       (if forced O P it then [] else inact1) ntol1 true) as [|t o|actf o]; [exact I| |].
        -- destruct IH as (A & _ & _). specialize (A eq_refl). subst o. split; [auto|]. split; [|intro Hx; discriminate Hx].
           intros _. destruct ovf; [left; reflexivity | right; apply Hng; reflexivity].
        -- destruct IH as (A & _ & _). specialize (A eq_refl). subst o. split; [auto|]. split; [|intro Hx; discriminate Hx].
           intros _. destruct ovf; [left; reflexivity | right; apply Hng; reflexivity].
    + apply IH; auto. intro Ho. destruct (Hst Ho) as (A & _ & C). split; [exact A|]. split; [apply Hinact2; exact Ho | exact C].
Qed.

(** ---- the post-processing of the chosen node ---- *)
Notation obrk := (@obrk num).

Fixpoint outs (l : list brk) : list obrk :=
  match l with
  | k :: tl =>
    match tl with
    | p :: _ => mkO (Z.of_nat (bPos k)) (Z.of_nat (bLine k)) (Z.of_nat (bFit k)) (out_ratio O P (bRatio k))
                    (nsub O (bWidth k) (bW p)) (bDem k) :: outs tl
    | [] => []
    end
  | [] => []
  end.

Lemma post_app : forall l1 l2 w,
  post O P w (l1 ++ l2) = post O P w l1 ++ post O P (fold_left (fun _ k => Some (bW k)) l1 w) l2.
Proof. induction l1 as [|k l1 IH]; intros l2 w; [reflexivity|]. cbn [app post fold_left]. rewrite IH. reflexivity. Qed.

Lemma post_rev : forall L, L <> [] -> exists o0, post O P None (rev L) = o0 :: rev (outs L).
Proof.
  induction L as [|k tl IH]; intro Hne; [congruence|].
  destruct tl as [|p rest].
  - cbn. eexists. reflexivity.
  - destruct (IH ltac:(discriminate)) as (o0 & Ho). exists o0.
    change (rev (k :: p :: rest)) with (rev (p :: rest) ++ [k]). rewrite post_app, Ho.
    change (fold_left (fun _ k0 => Some (bW k0)) (rev (p :: rest)) None) with (fold_left (fun (_ : option num) k0 => Some (bW k0)) (rev rest ++ [p]) None). rewrite fold_left_app. cbn [fold_left].
    change (outs (k :: p :: rest)) with (mkO (Z.of_nat (bPos k)) (Z.of_nat (bLine k)) (Z.of_nat (bFit k)) (out_ratio O P (bRatio k))
                                              (nsub O (bWidth k) (bW p)) (bDem k) :: outs (p :: rest)).
    cbn [post]. change (rev (?x :: outs (p :: rest))) with (rev (outs (p :: rest)) ++ [x]). reflexivity.
Qed.

(** the specification of what is reported for a sequence of returned breakpoints (most recent first):
    Width = natural width of the line, Ratio = the line's adjustment ratio (clamped to 0 outside [-1, Tolerance]),
    and that ratio was feasible for the tolerance [tol] of the final pass *)
Fixpoint rep_desc (os : list obrk) : Prop :=
  match os with
  | [] => True
  | o :: t =>
    let b := Z.to_nat (oPos o) in
    let prev := match t with [] => None | o' :: _ => Some (Z.to_nat (oPos o')) end in
    (exists it x, nth_error items b = Some it /\
                  oWidth o = line_width O (pref O items b) it (start_sums O P items prev) /\
                  line_ratio O P items width prev b it = Fin x /\ feasR x = true /\ oRatio o = out_ratio O P x) /\
    rep_desc t
  end.

Lemma outs_rep : forall L, chain_reg L -> rep_desc (outs L).
Proof.
  induction L as [|k tl IH]; intro H; [exact I|].
  destruct tl as [|p rest]; [exact I|].
  cbn [chain_reg] in H. destruct H as (Htl & Hw & Hlt & it & Hn & Hwd & Hr & Hf).
  assert (Htail : rep_desc (outs (p :: rest))) by (apply IH; exact Htl).
  destruct rest as [|q rest'].
  - cbn [chain_reg] in Htl. subst p.
    cbn [outs rep_desc oPos oWidth oRatio]. rewrite Nat2Z.id. split; [|exact I].
    exists it, (bRatio k). split; [exact Hn|]. split; [|split; [exact Hr | split; [exact Hf | reflexivity]]].
    unfold line_width. rewrite Hwd. reflexivity.
  - assert (Hbw : bW p = tW (after_sums O P items (bPos p))).
    { cbn [chain_reg] in Htl. destruct Htl as (_ & Hwp & _). exact Hwp. }
    change (outs (k :: p :: q :: rest')) with
      (mkO (Z.of_nat (bPos k)) (Z.of_nat (bLine k)) (Z.of_nat (bFit k)) (out_ratio O P (bRatio k)) (nsub O (bWidth k) (bW p)) (bDem k)
       :: outs (p :: q :: rest')).
    change (outs (p :: q :: rest')) with
      (mkO (Z.of_nat (bPos p)) (Z.of_nat (bLine p)) (Z.of_nat (bFit p)) (out_ratio O P (bRatio p)) (nsub O (bWidth p) (bW q)) (bDem p)
       :: outs (q :: rest')) in *.
    cbn [rep_desc oPos oWidth oRatio]. split; [|exact Htail]. rewrite !Nat2Z.id.
    exists it, (bRatio k). split; [exact Hn|]. cbn [st_of] in Hr. cbn [start_sums].
    split; [unfold line_width; rewrite Hwd, Hbw; reflexivity|].
    split; [exact Hr | split; [exact Hf | reflexivity]].
Qed.

End Reg.

(** ================================================================================================== *)
Section Loop.
Context {num : Type} (O : ops num) (P : params num).
Hypothesis neqb_refl : forall x, neqb O x x = true.
Hypothesis forced_lt_inf : forall it, forced O P it = true -> nltb O (ip it) (pInf P) = true.
Hypothesis leb_dfit : forall a, nleb O a (nadd O a (pDFit P)) = true.
Variable items : list (item num).
Variable width : num.
Variable looseness : Z.

Lemma finish_shape act ovf bs ok :
  act <> [] -> finish O P items looseness act ovf = Done bs ok ->
  ok = negb ovf /\ exists b, In b act /\
    bs = (let l := post O P None (chain_of b) in match l with _ :: (_ :: _) as tl => tl | _ => l end).
Proof.
  intros Hne H. unfold finish in H. destruct (pick_min_in O act Hne) as (b0 & Hpm & Hb0). rewrite Hpm in H.
  inversion H; subst; clear H. split; [reflexivity|].
  exists (if (looseness =? 0)%Z then b0 else pick_loose O looseness act b0). split; [|reflexivity].
  destruct (looseness =? 0)%Z; [exact Hb0 | apply pick_loose_in; exact Hb0].
Qed.

(** F (reported_widths_ratios). Whenever the model returns with ok = true on a paragraph that ends in a forced
    break, every returned breakpoint reports the natural width of its line and the line's adjustment ratio
    (set to 0 when outside [-1, Tolerance]); [tolf] is the tolerance of the pass that produced the result. *)
Theorem reported_widths_ratios : forall fuel tol bs,
  lb_loop O P items width looseness fuel tol false = Done bs true ->
  forced_at O P items (length items - 1) = true ->
  exists tolf, rep_desc O P items width tolf (rev bs).
Proof.
  induction fuel as [|f IH]; intros tol bs H Hf; [discriminate|].
  cbn [lb_loop] in H.
  pose proof (pass_all O P items width tol leb_dfit items 0 [root O] [] None false eq_refl eq_refl) as Hp.
  destruct (pass O P items width tol items 0 (t0 O) [root O] [] None false) as [|t o|act o] eqn:Ep; [discriminate| |].
  - change (pref O items 0) with (t0 O) in Hp. rewrite Ep in Hp.
    destruct o.
    + (* a restart after an overflow cannot end with ok = true: the flag only goes up *)
      exfalso. clear IH Hp.
      assert (Hmono : forall fuel tol bs ok, lb_loop O P items width looseness fuel tol true = Done bs ok -> ok = false).
      { intros fuelx. induction fuelx as [|f0 IH0]; intros tol0 bs0 ok0 H0; [discriminate|]. cbn [lb_loop] in H0.
        pose proof (pass_all O P items width tol0 leb_dfit items 0 [root O] [] None true eq_refl eq_refl) as Hp0.
        change (pref O items 0) with (t0 O) in Hp0.
        destruct (pass O P items width tol0 items 0 (t0 O) [root O] [] None true) as [|t1 o1|act1 o1]; [discriminate| |].
        - assert (o1 = true) by (apply Hp0; [intro Hx; discriminate Hx | reflexivity]). subst o1. exact (IH0 _ _ _ H0).
        - assert (o1 = true) by (apply Hp0; [intro Hx; discriminate Hx | reflexivity]). subst o1.
          unfold finish in H0. destruct (pick_min O act1); inversion H0; reflexivity. }
      specialize (Hmono _ _ _ _ H). discriminate.
    + exact (IH _ _ H Hf).
  - change (pref O items 0) with (t0 O) in Hp. rewrite Ep in Hp.
    assert (Hroot : false = false -> (forall a, In a [root O] -> RegNode O P items width tol a) /\
                                     (forall a : node, In a [] -> RegNode O P items width tol a) /\ NtolS O P items width tol None).
    { intros _. split; [intros a [Ha|[]]; subst; apply root_reg|]. split; [intros a []|exact I]. }
    destruct (Hp Hroot) as (_ & _ & Hreg).
    destruct (pass_ok O P neqb_refl forced_lt_inf items width tol items 0 (t0 O) [root O] [] None false act o eq_refl eq_refl
                      ltac:(discriminate) ltac:(intros a [Ha|[]]; subst; apply root_ok) ltac:(intros a []) Ep) as [Hne Hok].
    destruct (finish_shape act o bs true Hne H) as (Hoo & b & Hb & Hbs).
    assert (o = false) by (destruct o; [discriminate Hoo | reflexivity]). subst o.
    exists tol. specialize (Hreg eq_refl b Hb). destruct Hreg as [Hc Hs].
    destruct (Hok b Hb) as (N1 & N2 & N3 & N4).
    (* the chosen node is not the root: the last item is a forced break *)
    assert (Hanc : nAnc b <> []).
    { intro Ha. unfold nchain in N3. rewrite Ha in N3. cbn [chain_pos hd_error] in N3.
      destruct (length items) as [|m] eqn:El; [cbn in Hf; unfold forced_at in Hf; destruct (nth_error items 0) eqn:E0; [apply nth_error_In in E0; destruct items; [destruct E0 | discriminate El] | discriminate Hf]|].
      replace (S m - 1)%nat with m in Hf by lia. cbn [KPSpec.forced_between prev_lt] in N3. rewrite Hf in N3. discriminate N3. }
    destruct (post_rev O P (brk_of b :: nAnc b) ltac:(discriminate)) as (o0 & Hpost).
    unfold chain_of in Hbs. rewrite Hpost in Hbs.
    destruct (nAnc b) as [|p rest] eqn:Ea; [congruence|].
    assert (Houts : outs O P (brk_of b :: p :: rest) <> []) by (cbn [outs]; discriminate).
    destruct (rev (outs O P (brk_of b :: p :: rest))) as [|r0 rs] eqn:Er.
    + exfalso. apply Houts. apply (f_equal (@rev _)) in Er. rewrite rev_involutive in Er. exact Er.
    + subst bs. rewrite <- Er, rev_involutive. apply outs_rep. exact Hc.
Qed.

End Loop.

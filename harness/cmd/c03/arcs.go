package main

import (
	"fmt"
	"math"

	"github.com/tdewolff/canvas"

	"verifharness/internal/cq"
	"verifharness/internal/gen"
	"verifharness/internal/out"
	"verifharness/internal/pd"
	"verifharness/internal/rng"
)

// Pythagorean directions with a common hypotenuse: (a,b)/h are exact rational points of the unit circle.
type dirSet struct {
	h    int
	dirs [][2]int
}

func signed(ds [][2]int) [][2]int {
	var o [][2]int
	seen := map[[2]int]bool{}
	for _, d := range ds {
		for _, s := range [][2]int{{1, 1}, {-1, 1}, {1, -1}, {-1, -1}} {
			for _, sw := range []bool{false, true} {
				v := [2]int{s[0] * d[0], s[1] * d[1]}
				if sw {
					v = [2]int{v[1], v[0]}
				}
				if !seen[v] {
					seen[v] = true
					o = append(o, v)
				}
			}
		}
	}
	return o
}

var dirSets = []dirSet{
	{5, signed([][2]int{{5, 0}, {3, 4}})},
	{25, signed([][2]int{{25, 0}, {7, 24}, {15, 20}})},
	{65, signed([][2]int{{65, 0}, {16, 63}, {33, 56}, {25, 60}, {39, 52}})},
}

func b2s(b bool) string { return cq.Bool(b) }

func arcCase(o *out.W, i int, r *rng.R, probe bool, stats map[string]*stat) {
	if probe {
		return
	}
	if r.P(3, 5) {
		circleCase(o, i, r)
	} else {
		ellipseCase(o, i, r)
	}
	xarcCase(o, i, r)
}

// xarcCase: xmonotoneEllipticArc on one arc with exact geometry (gen.Arc); the returned arcs are judged in Coq (Corr.C03.judge_xarc)
func xarcCase(o *out.W, i int, r *rng.R) {
	sx, sy := float64(r.Range(-40, 40))/4, float64(r.Range(-40, 40))/4
	a := gen.Arc(r, sx, sy, r.Intn(3))
	ref := &canvas.Path{}
	ref.MoveTo(a.Sx, a.Sy)
	ref.ArcTo(a.Rx, a.Ry, a.RotDeg, a.Large, a.Sweep, a.Ex, a.Ey)
	d := ref.Data()
	if len(d) != 12 || d[4] != canvas.ArcToCmd {
		return
	}
	phi := d[7] // as stored by ArcTo (radians, canonical)
	large, sweep := d[8] == 1 || d[8] == 3, d[8] == 2 || d[8] == 3
	var q *canvas.Path
	msg := safe(func() { q = canvas.VerifXMonotoneEllipticArc(P{X: a.Sx, Y: a.Sy}, d[5], d[6], phi, large, sweep, P{X: a.Ex, Y: a.Ey}) })
	fam := "xmono-arc"
	if a.Large {
		fam += "-large"
	}
	desc := map[string]interface{}{"arc": ref.String(), "panic": msg}
	pt := func(x, y float64) string { return cq.Pt(x, y) }
	if msg != "" || q == nil {
		o.Emit(out.Case{I: i, Fam: fam, Coq: fmt.Sprintf("CXArc (Corr.C09.mkA %s 1 1 1 0 %s %s false false 0 nil nil true)", pt(0, 0), pt(0, 0), pt(0, 0)), Desc: desc, Tags: []string{"CXArc"}})
		return
	}
	desc["go"] = q.String()
	var ps []string
	qd := q.Data()
	// records: M, then arcs
	prev := [2]float64{}
	for k := 0; k < len(qd); {
		switch qd[k] {
		case canvas.MoveToCmd:
			prev = [2]float64{qd[k+1], qd[k+2]}
			k += 4
		case canvas.ArcToCmd:
			// ArcTo rescales radii that come out a rounding error too small for the recomputed end points (by 1 + a few ulp)
			relEq := func(a, b float64) bool { return math.Abs(a-b) <= math.Abs(b)*0x1p-40 }
			same := relEq(qd[k+1], d[5]) && relEq(qd[k+2], d[6]) && qd[k+3] == d[7]
			lg, sw := qd[k+4] == 1 || qd[k+4] == 3, qd[k+4] == 2 || qd[k+4] == 3
			ps = append(ps, fmt.Sprintf("(Corr.C09.mkAP %s %s %s %s %s 0)", b2s(same), b2s(lg), b2s(sw), pt(prev[0], prev[1]), pt(qd[k+5], qd[k+6])))
			prev = [2]float64{qd[k+5], qd[k+6]}
			k += 8
		default:
			ps = append(ps, fmt.Sprintf("(Corr.C09.mkAP false false false %s %s 0)", pt(0, 0), pt(0, 0)))
			k = len(qd)
		}
	}
	qn := func(n, dn int64) string {
		if n < 0 {
			return fmt.Sprintf("((-%d) # %d)", -n, dn)
		}
		return fmt.Sprintf("(%d # %d)", n, dn)
	}
	term := fmt.Sprintf("CXArc (Corr.C09.mkA %s %s %s %s %s %s %s %s %s 0 nil %s false)", pt(a.Cx, a.Cy), cq.F(a.Rx), cq.F(a.Ry), qn(a.CsN, a.H), qn(a.SnN, a.H),
		pt(a.Sx, a.Sy), pt(a.Ex, a.Ey), b2s(a.Large), b2s(a.Sweep), cq.List(ps))
	o.Emit(out.Case{I: i, Fam: fam, Coq: term, Desc: desc, Tags: []string{"CXArc"}})
}

func circleCase(o *out.W, i int, r *rng.R) {
	ds := rng.Pick(r, dirSets)
	fam := "circle"
	den := 8 * ds.h / 5 // unit = 1/den: radius = j*h/den
	j := r.Range(1, 16)
	if ds.h == 65 {
		den = 64
		j = r.Range(1, 10)
	} else if ds.h == 25 {
		den = 32
		j = r.Range(1, 12)
	}
	if r.P(1, 8) {
		den *= 8
		j = r.Range(1, 3)
		fam = "circle-small-radius"
	}
	unit := 1 / float64(den)
	rad := float64(j*ds.h) * unit
	c := rp(r, 40)
	d0 := rng.Pick(r, ds.dirs)
	d1 := rng.Pick(r, ds.dirs)
	for d1 == d0 {
		d1 = rng.Pick(r, ds.dirs)
	}
	start := P{X: c.X + float64(j*d0[0])*unit, Y: c.Y + float64(j*d0[1])*unit}
	end := P{X: c.X + float64(j*d1[0])*unit, Y: c.Y + float64(j*d1[1])*unit}
	large, sweep := r.Bool(), r.Bool()
	phi := 0.0
	if r.P(1, 4) {
		phi = float64(r.Range(-24, 24)) / 8
		fam += "+phi"
	}
	rGiven := rad
	if r.P(1, 10) { // radius too small: the code scales it up to half the chord
		rGiven = rad / float64(r.Range(2, 5))
		fam = "circle-radius-scaled"
		// choose a diameter so that the scaled circle is known: end opposite to start
		end = P{X: c.X - float64(j*d0[0])*unit, Y: c.Y - float64(j*d0[1])*unit}
	}
	if fam == "circle-radius-scaled" {
		// Path.ArcTo corrects radii that are too small when the path is built; flattenEllipticArc relies on that.
		// Go through the builder and hand the corrected radii to the flattener, as Path.Flatten does.
		bp := &canvas.Path{}
		bp.MoveTo(start.X, start.Y)
		bp.ArcTo(rGiven, rGiven, phi*180/math.Pi, large, sweep, end.X, end.Y)
		segs, err := pd.Decode(bp.Data())
		if err != nil || len(segs) != 2 || segs[1].Cmd != 'A' {
			return
		}
		rGiven = segs[1].A[0]
		if segs[1].A[1] != rGiven {
			return
		}
		phi = segs[1].A[2]
	}
	for _, tol := range tols {
		var p *canvas.Path
		var cx, cy float64
		pmsg := safe(func() {
			p = canvas.VerifFlattenEllipticArc(start, rGiven, rGiven, phi, large, sweep, end, tol)
			cx, cy, _, _ = canvas.VerifEllipseToCenter(start.X, start.Y, rGiven, rGiven, phi, large, sweep, end.X, end.Y)
		})
		var vs []P
		ok := pmsg == ""
		if ok {
			vs, ok = polyline(p)
			ok = ok && finite(vs) && !math.IsNaN(cx) && !math.IsNaN(cy)
		}
		term := fmt.Sprintf("CCirc (mkCirc %s %s %s %s %s %s) %s false nil", cq.Pt(start.X, start.Y), cq.Pt(end.X, end.Y), cq.F(rad), b2s(large), b2s(sweep), cq.Pt(0, 0), cq.F(tol))
		if ok {
			term = fmt.Sprintf("CCirc (mkCirc %s %s %s %s %s %s) %s true %s", cq.Pt(start.X, start.Y), cq.Pt(end.X, end.Y), cq.F(rad), b2s(large), b2s(sweep), cq.Pt(cx, cy), cq.F(tol), pts(vs))
		}
		desc := map[string]interface{}{"arc": fmt.Sprintf("M%g %gA%g %g %g %v %v %g %g", start.X, start.Y, rGiven, rGiven, phi*180/math.Pi, large, sweep, end.X, end.Y),
			"true_centre": []float64{c.X, c.Y}, "true_radius": rad, "go_centre": []float64{cx, cy}, "tol": tol, "go_vertices": ptsDesc(vs), "panic": pmsg}
		o.Emit(out.Case{I: i, Fam: fam, Coq: term, Desc: desc, Tags: []string{"CCirc"}})
	}
}

var rots = [][3]int{{1, 0, 1}, {0, 1, 1}, {3, 4, 5}, {4, 3, 5}, {-3, 4, 5}, {7, 24, 25}, {24, 7, 25}}

func ellipseCase(o *out.W, i int, r *rng.R) {
	rot := rng.Pick(r, rots)
	fam := "ellipse-axis"
	if rot[2] != 1 {
		fam = "ellipse-rotated"
	}
	cosphi, sinphi := float64(rot[0])/float64(rot[2]), float64(rot[1])/float64(rot[2])
	phi := math.Atan2(float64(rot[1]), float64(rot[0]))
	// radii multiples of 25*5/16 resp. 5/8 keep the end points dyadic
	unit := 5.0 / 8
	if rot[2] == 5 {
		unit = 25.0 / 16
	} else if rot[2] == 25 {
		unit = 125.0 / 32
	}
	jx, jy := r.Range(1, 8), r.Range(1, 8)
	for jx == jy {
		jy = r.Range(1, 8)
	}
	if r.P(1, 6) {
		jx, jy = r.Range(8, 16), 1 // large radii ratio
		fam += "-thin"
	}
	rx, ry := float64(jx)*unit, float64(jy)*unit
	c := rp(r, 40)
	ds := dirSets[0] // (3,4,5) parameter directions
	d0 := rng.Pick(r, ds.dirs)
	d1 := rng.Pick(r, ds.dirs)
	for d1 == d0 {
		d1 = rng.Pick(r, ds.dirs)
	}
	pos := func(d [2]int) P {
		u, v := rx*float64(d[0])/5, ry*float64(d[1])/5
		return P{X: c.X + cosphi*u - sinphi*v, Y: c.Y + sinphi*u + cosphi*v}
	}
	start, end := pos(d0), pos(d1)
	large, sweep := r.Bool(), r.Bool()
	var bz [][4]P
	var gcx, gcy float64
	pmsg := safe(func() {
		bz = canvas.VerifEllipseToCubicBeziers(start, rx, ry, phi, large, sweep, end)
		gcx, gcy, _, _ = canvas.VerifEllipseToCenter(start.X, start.Y, rx, ry, phi, large, sweep, end.X, end.Y)
	})
	// start, end, radii and rotation leave two candidate centres; the flags pick one. The centre the code computed is
	// part of the certificate (relational model): the conic through it must pass through every emitted cubic.
	if pmsg == "" && !math.IsNaN(gcx) && !math.IsNaN(gcy) {
		c = P{X: gcx, Y: gcy}
	}
	ok := pmsg == "" && len(bz) > 0
	var cubs []string
	for _, b := range bz {
		if !finite(b[:]) {
			ok = false
		}
	}
	if ok {
		for _, b := range bz {
			cubs = append(cubs, pts(b[:]))
		}
	}
	ell := fmt.Sprintf("(mkEll %s %s %s %s %s)", cq.Pt(c.X, c.Y), cq.F(rx), cq.F(ry), cq.Q(int64(rot[0]), int64(rot[2])), cq.Q(int64(rot[1]), int64(rot[2])))
	term := fmt.Sprintf("CArcCube %s %s %s", ell, b2s(ok), cq.List(cubs))
	desc := map[string]interface{}{"arc": fmt.Sprintf("M%g %gA%g %g %g %v %v %g %g", start.X, start.Y, rx, ry, phi*180/math.Pi, large, sweep, end.X, end.Y),
		"centre": []float64{c.X, c.Y}, "cos_sin": []float64{cosphi, sinphi}, "cubics": len(bz), "panic": pmsg}
	o.Emit(out.Case{I: i, Fam: fam, Coq: term, Desc: desc, Tags: []string{"CArcCube"}})
	// flattenEllipticArc itself on the non-circular ellipse, for each tolerance: vertices and chords judged against the
	// ellipse in the plane of its unit circle (Flat/Arc.v judge_ellflat)
	if pmsg == "" && !math.IsNaN(gcx) {
		for _, tol := range []float64{1, 0.1, 0.01, 0.001, 0.0001} {
			var vs []P
			var fp *canvas.Path
			msg := safe(func() { fp = canvas.VerifFlattenEllipticArc(start, rx, ry, phi, large, sweep, end, tol) })
			okf := msg == "" && fp != nil
			if okf {
				for _, c := range fp.Coords() {
					vs = append(vs, c)
				}
				okf = finite(vs) && len(vs) >= 2
			}
			d2 := map[string]interface{}{"arc": desc["arc"], "tolerance": tol, "vertices": len(vs), "panic": msg}
			t2 := fmt.Sprintf("CEll %s %s %s %s %s %s false nil", ell, cq.Pt(start.X, start.Y), cq.Pt(end.X, end.Y), b2s(large), b2s(sweep), cq.F(tol))
			if okf {
				t2 = fmt.Sprintf("CEll %s %s %s %s %s %s true %s", ell, cq.Pt(start.X, start.Y), cq.Pt(end.X, end.Y), b2s(large), b2s(sweep), cq.F(tol), pts(vs))
			}
			o.Emit(out.Case{I: i, Fam: fam + "-flatten", Coq: t2, Desc: d2, Tags: []string{"CEll"}})
		}
	}
	// flattenEllipticArc on a non-circular ellipse is arcToCube(...).Flatten(tol): certify the flattening of each emitted cubic
	if ok {
		tol := rng.Pick(r, tols)
		for _, b := range bz {
			emitBezier(o, i, bcase{"cube-from-arc", b[:]}, tol)
		}
	}
	// the same ellipse with four more pairs of end directions and flags, conversion to cubics only (cheap to judge): the angular
	// extents between the twelve directions cover every residue of the quarter turn the conversion cuts at (16, 37, 53, 74 degrees
	// beyond a multiple of 90)
	for k := 0; k < 4; k++ {
		e0 := rng.Pick(r, ds.dirs)
		e1 := rng.Pick(r, ds.dirs)
		for e1 == e0 {
			e1 = rng.Pick(r, ds.dirs)
		}
		s2, e2 := pos(e0), pos(e1)
		lg, sw := r.Bool(), r.Bool()
		var bz2 [][4]P
		var cx2, cy2 float64
		msg := safe(func() {
			bz2 = canvas.VerifEllipseToCubicBeziers(s2, rx, ry, phi, lg, sw, e2)
			cx2, cy2, _, _ = canvas.VerifEllipseToCenter(s2.X, s2.Y, rx, ry, phi, lg, sw, e2.X, e2.Y)
		})
		ok2 := msg == "" && len(bz2) > 0 && !math.IsNaN(cx2) && !math.IsNaN(cy2)
		var cubs2 []string
		for _, b := range bz2 {
			if !finite(b[:]) {
				ok2 = false
			}
		}
		if ok2 {
			for _, b := range bz2 {
				cubs2 = append(cubs2, pts(b[:]))
			}
		}
		ell2 := fmt.Sprintf("(mkEll %s %s %s %s %s)", cq.Pt(cx2, cy2), cq.F(rx), cq.F(ry), cq.Q(int64(rot[0]), int64(rot[2])), cq.Q(int64(rot[1]), int64(rot[2])))
		if !ok2 {
			ell2 = ell
		}
		d3 := map[string]interface{}{"arc": fmt.Sprintf("M%g %gA%g %g %g %v %v %g %g", s2.X, s2.Y, rx, ry, phi*180/math.Pi, lg, sw, e2.X, e2.Y),
			"centre": []float64{cx2, cy2}, "cos_sin": []float64{cosphi, sinphi}, "cubics": len(bz2), "panic": msg}
		o.Emit(out.Case{I: i, Fam: fam + "-more", Coq: fmt.Sprintf("CArcCube %s %s %s", ell2, b2s(ok2), cq.List(cubs2)), Desc: d3, Tags: []string{"CArcCube"}})
	}
}

// ---- x-monotone splitting -------------------------------------------------------------------------------

func xmonoCase(o *out.W, i int, r *rng.R) {
	var bc bcase
	if r.Bool() {
		bc = genQuad(r)
	} else {
		bc = genCube(r)
	}
	c := bc.ctrl
	var p *canvas.Path
	pmsg := safe(func() {
		if len(c) == 3 {
			p = canvas.VerifXMonotoneQuadraticBezier(c[0], c[1], c[2])
		} else {
			p = canvas.VerifXMonotoneCubicBezier(c[0], c[1], c[2], c[3])
		}
	})
	ok := pmsg == ""
	var pieces [][]P
	var junctions []P
	if ok {
		segs, err := pd.Decode(p.Data())
		ok = err == nil && len(segs) >= 1 && segs[0].Cmd == 'M'
		if ok {
			junctions = append(junctions, P{X: segs[0].X, Y: segs[0].Y})
			for _, s := range segs[1:] {
				pc := []P{{X: s.X0, Y: s.Y0}}
				switch {
				case s.Cmd == 'Q' && len(c) == 3:
					pc = append(pc, P{X: s.A[0], Y: s.A[1]}, P{X: s.X, Y: s.Y})
				case s.Cmd == 'C' && len(c) == 4:
					pc = append(pc, P{X: s.A[0], Y: s.A[1]}, P{X: s.A[2], Y: s.A[3]}, P{X: s.X, Y: s.Y})
				case s.Cmd == 'L': // the builder turns a straight Bezier into a line: same control polygon, evenly spaced
					for k := 1; k < len(c); k++ {
						pc = append(pc, lerp(P{X: s.X0, Y: s.Y0}, P{X: s.X, Y: s.Y}, float64(k)/float64(len(c)-1)))
					}
					ok = false // cannot be compared control point by control point: skip (counted)
				default:
					ok = false
				}
				if !finite(pc) {
					ok = false
				}
				pieces = append(pieces, pc)
				junctions = append(junctions, P{X: s.X, Y: s.Y})
			}
		}
	}
	fam := "xmono-" + bc.fam
	if pmsg == "" && !ok {
		// degenerate output (lines): not judged, reported as skipped
		o.Emit(out.Case{I: i, Fam: fam + "/skipped-line-output", Coq: "CXMono nil true nil (0 :: 1 :: nil)", Desc: map[string]interface{}{"curve": svgOf(c), "out": p.String()}, Tags: []string{"skip"}})
		return
	}
	var ts []float64
	var pcs []string
	if ok {
		ts = recoverParams(c, junctions)
		for _, pc := range pieces {
			pcs = append(pcs, pts(pc))
		}
	}
	term := fmt.Sprintf("CXMono %s %s %s %s", pts(c), b2s(ok), cq.List(pcs), cq.Floats(ts))
	outS := ""
	if p != nil {
		outS = p.String()
	}
	o.Emit(out.Case{I: i, Fam: fam, Coq: term, Desc: map[string]interface{}{"curve": svgOf(c), "out": outS, "params": ts, "panic": pmsg}, Tags: []string{"CXMono"}})
}

// ---- public entry points: structure ------------------------------------------------------------------------

func summarise(p *canvas.Path) (string, int, bool) {
	segs, err := pd.Decode(p.Data())
	if err != nil {
		return "nil", 0, false
	}
	var xs []string
	for _, sp := range pd.Subpaths(segs) {
		if len(sp) == 0 || sp[0].Cmd != 'M' {
			return "nil", 0, false
		}
		kinds := 0
		closed := false
		for _, s := range sp[1:] {
			switch s.Cmd {
			case 'L':
				kinds |= 1
			case 'Q':
				kinds |= 2
			case 'C':
				kinds |= 4
			case 'A':
				kinds |= 8
			case 'Z':
				closed = true
			}
		}
		last := sp[len(sp)-1]
		if !finite([]P{{X: sp[0].X, Y: sp[0].Y}, {X: last.X, Y: last.Y}}) {
			return "nil", 0, false
		}
		xs = append(xs, fmt.Sprintf("(mkSS %s %s %s %s)", cq.Pt(sp[0].X, sp[0].Y), cq.Pt(last.X, last.Y), b2s(closed), cq.Z(int64(kinds))))
	}
	return cq.List(xs), len(xs), true
}

func publicCase(o *out.W, i int, r *rng.R) {
	p := &canvas.Path{}
	nsub := r.Range(1, 4)
	for s := 0; s < nsub; s++ {
		st := rp(r, 80)
		p.MoveTo(st.X, st.Y)
		nseg := r.Range(1, 5)
		for k := 0; k < nseg; k++ {
			switch r.Intn(5) {
			case 0:
				e := rp(r, 80)
				p.LineTo(e.X, e.Y)
			case 1:
				a, e := rp(r, 80), rp(r, 80)
				p.QuadTo(a.X, a.Y, e.X, e.Y)
			case 2:
				a, b, e := rp(r, 80), rp(r, 80), rp(r, 80)
				p.CubeTo(a.X, a.Y, b.X, b.Y, e.X, e.Y)
			default:
				e := rp(r, 80)
				rot := float64(r.Range(0, 11)) * 30
				p.ArcTo(g8(r.Range(1, 80)), g8(r.Range(1, 80)), rot, r.Bool(), r.Bool(), e.X, e.Y)
			}
		}
		if r.Bool() {
			p.Close()
		}
	}
	in, _, okIn := summarise(p)
	if !okIn {
		return
	}
	src := p.String()
	for op := 0; op < 3; op++ {
		var q *canvas.Path
		tol := rng.Pick(r, tols)
		pmsg := safe(func() {
			switch op {
			case 0:
				q = p.Flatten(tol)
			case 1:
				q = p.ReplaceArcs()
			default:
				q = p.XMonotone()
			}
		})
		ok := pmsg == ""
		outS, res := "nil", ""
		if ok {
			outS, _, ok = summarise(q)
			res = q.String()
			if len(res) > 400 {
				res = res[:400] + "..."
			}
		}
		if p.String() != src {
			ok = false // the receiver was modified
			pmsg = "receiver modified"
		}
		term := fmt.Sprintf("CPub %s %s %s %s", cq.Z(int64(op)), b2s(ok), in, outS)
		o.Emit(out.Case{I: i, Fam: []string{"public-Flatten", "public-ReplaceArcs", "public-XMonotone"}[op], Coq: term,
			Desc: map[string]interface{}{"path": src, "op": op, "tol": tol, "result": res, "panic": pmsg}, Tags: []string{"CPub"}})
	}
}

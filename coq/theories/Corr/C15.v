(** Correspondence judge for C15.
    Tie (K1): what Go delivered to the recording renderers / left in the Context equals the faithful model
    (Ctx/Context.v, Ctx/Canvas.v) — objects, order and style tokens exactly, matrices and sizes within the explicit
    slack 2^(K-36) where 2^K bounds every magnitude that occurred in the run (binary64 rounding of Go's matrix
    products; the model computes exactly in Q on the same dyadic inputs).
    Property oracle (K2): the Go output is judged directly against the documented semantics, written
    independently of the matrix algebra as point maps ([spec_*] below): a point p of an object drawn at (x,y)
    appears at CoordSystemView(view(p + coordView(x,y))), view calls compose on the right, Push/Pop is a stack,
    the replay order is the stable sort of the drawing order by z-index, Transform/Clip/Fit move every object by the
    same map, after Fit(margin) every non-empty object lies within the margins and the size is tight. *)
From Coq Require Import ZArith QArith Qabs Qminmax Qround List Bool.
From CV Require Import Base.Dy Geom.Matrix Ctx.DashCheck Ctx.Context Ctx.Canvas Ctx.Spec.
Import ListNotations.
Open Scope Q_scope.

Record grec := mkG { g_obj : obj; g_st : style; g_m : mat }.

Record case15 := mkCase15 {
  kW : Q; kH : Q; kK : Z;
  kops : list sop;
  kV : mat;
  kdirect : list grec;          (* received by a recorder wrapped directly by a Context (Ctx calls only) *)
  kreplay : list grec;          (* received from Canvas.RenderViewTo(recorder, V) *)
  kcur : cstate; kstack : list cstate;   (* final draw state and stack (top first) of the canvas-backed Context *)
  kdcur : cstate;               (* final draw state of the directly wrapped Context *)
  kcvW : Q; kcvH : Q; kcvz : Z; (* canvas size and z-index before the final Fit *)
  kmargin : Q;
  kfit : list grec;             (* RenderTo after Fit(margin) *)
  kfitW : Q; kfitH : Q }.

(** * equality tests *)
Fixpoint list_eqb {A B} (eqb : A -> B -> bool) (l1 : list A) (l2 : list B) : bool :=
  match l1, l2 with
  | [], [] => true
  | a :: l1', b :: l2' => eqb a b && list_eqb eqb l1' l2'
  | _, _ => false
  end.

Definition paint_eqb (a b : paint) : bool :=
  (pcol a =? pcol b)%Z && (pgrad a =? pgrad b)%Z && (ppat a =? ppat b)%Z.
Definition style_eqb (a b : style) : bool :=
  paint_eqb (sfill a) (sfill b) && paint_eqb (sstroke a) (sstroke b) && Qeq_bool (swidth a) (swidth b) &&
  (scap a =? scap b)%Z && (sjoin a =? sjoin b)%Z && Qeq_bool (sdoff a) (sdoff b) &&
  list_eqb Qeq_bool (sdashes a) (sdashes b) && (srule a =? srule b)%Z.
(** the style handed to the renderer as the specification sees it: a dash offset has a meaning only together with a
    non-empty dash array, so it is compared only then *)
Definition style_eqb_handed (a b : style) : bool :=
  paint_eqb (sfill a) (sfill b) && paint_eqb (sstroke a) (sstroke b) && Qeq_bool (swidth a) (swidth b) &&
  (scap a =? scap b)%Z && (sjoin a =? sjoin b)%Z &&
  list_eqb Qeq_bool (sdashes a) (sdashes b) &&
  (match sdashes a with [] => true | _ => Qeq_bool (sdoff a) (sdoff b) end) && (srule a =? srule b)%Z.
Definition tok_eqb (a b : Z * Q * Q) : bool :=
  let '(c1, x1, y1) := a in let '(c2, x2, y2) := b in (c1 =? c2)%Z && Qeq_bool x1 x2 && Qeq_bool y1 y2.
Definition obj_eqb (a b : obj) : bool :=
  match a, b with
  | OPath p, OPath q => list_eqb tok_eqb p q
  | OText i, OText j => (i =? j)%Z
  | OImage i w h, OImage j w' h' => (i =? j)%Z && (w =? w')%Z && (h =? h')%Z
  | _, _ => false
  end.
Definition csys_eqb (a b : csys) : bool :=
  match a, b with CartI, CartI | CartII, CartII | CartIII, CartIII | CartIV, CartIV => true | _, _ => false end.
Definition is_path (o : obj) : bool := match o with OPath _ => true | _ => false end.

Definition qclose (sl a b : Q) : bool := Qleb (Qabs (a - b)) sl.
Definition mat_close (sl : Q) (a b : mat) : bool :=
  qclose sl (ma a) (ma b) && qclose sl (mb a) (mb b) && qclose sl (mc a) (mc b) &&
  qclose sl (md a) (md b) && qclose sl (me a) (me b) && qclose sl (mf a) (mf b).
Definition mat_err (a b : mat) : Q :=
  Qmax (Qabs (ma a - ma b)) (Qmax (Qabs (mb a - mb b)) (Qmax (Qabs (mc a - mc b))
  (Qmax (Qabs (md a - md b)) (Qmax (Qabs (me a - me b)) (Qabs (mf a - mf b)))))).
Definition pt_close (sl : Q) (p q : qpt) : bool := qclose sl (fst p) (fst q) && qclose sl (snd p) (snd q).

Definition bit (b : bool) (k : Z) : Z := if b then k else 0%Z.

(** * tie: Go records vs model records *)
Definition cmp_recs (sl : Q) (go : list grec) (model : list rop) : bool * bool * bool * Z * Q :=
  (* (objects/order equal, styles equal, matrices within slack, number of exactly equal matrices, max error) *)
  let okobj := list_eqb (fun g r => obj_eqb (g_obj g) (robj r)) go model in
  let pairs := combine go model in
  let okst := forallb (fun '(g, r) => negb (is_path (robj r)) || style_eqb (g_st g) (rst r)) pairs in
  let okm := forallb (fun '(g, r) => mat_close sl (g_m g) (rm r)) pairs in
  let nexact := fold_left (fun n '(g, r) => if meqb (g_m g) (rm r) then (n + 1)%Z else n) pairs 0%Z in
  let err := fold_left (fun e '(g, r) => Qmax e (mat_err (g_m g) (rm r))) pairs 0 in
  (okobj, okst, okm, nexact, err).

Definition cstate_tie (sl : Q) (g m : cstate) : bool * bool :=
  (style_eqb (cst g) (cst m) && csys_eqb (csysm g) (csysm m),
   mat_close sl (cview g) (cview m) && mat_close sl (ccoord g) (ccoord m)).

(** * specification as point maps (K2): [pfn], [spec_view_op], [spec_csv] are in Ctx/Spec.v *)
Record sstate := mkSS { ss_st : style; ss_view : pfn; ss_coord : pfn; ss_sys : csys }.
Record sitem := mkSI { si_z : Z; si_obj : obj; si_st : style; si_fn : pfn; si_b : rect }.
Record spec := mkSpec { sp_cur : sstate; sp_path : ptok; sp_stack : list sstate; sp_z : Z; sp_W : Q; sp_H : Q;
                        sp_items : list sitem (* drawing order *) }.

Definition ss_with_st (s : sstate) (st : style) : sstate := mkSS st (ss_view s) (ss_coord s) (ss_sys s).
Definition sp_with_cur (s : spec) (c : sstate) : spec :=
  mkSpec c (sp_path s) (sp_stack s) (sp_z s) (sp_W s) (sp_H s) (sp_items s).
Definition sp_emit (s : spec) (its : list sitem) : spec :=
  mkSpec (sp_cur s) (sp_path s) (sp_stack s) (sp_z s) (sp_W s) (sp_H s) (sp_items s ++ its).
Definition sp_set_path (s : spec) (p : ptok) : spec :=
  mkSpec (sp_cur s) p (sp_stack s) (sp_z s) (sp_W s) (sp_H s) (sp_items s).

(** a point of an object drawn at (x,y) appears at CoordSystemView(view(p + coordView(x,y))) *)
Definition spec_place (s : spec) (c : sstate) (x y : Q) : pfn :=
  fun p => pnorm (spec_csv (sp_W s) (sp_H s) (ss_sys c) (ss_view c (pnorm (padd p (ss_coord c (x, y)))))).

(** every path of a DrawPath call is drawn with the current style, dashes normalised for that path alone *)
Definition spec_path_style (st : style) (p : pathin) : style :=
  let '(o', d', ok) := check_dash (pi_len p) (sdoff st) (sdashes st) in
  let st1 := set_dashes st o' d' in if ok then st1 else set_stroke st1 paint_none.

Definition spec_draw_paths (s : spec) (c : sstate) (x y : Q) (ps : list pathin) : spec :=
  if negb (has_fill (ss_st c)) && negb (has_stroke (ss_st c)) then s
  else sp_emit s (map (fun p => mkSI (sp_z s) (OPath (pi_tok p)) (spec_path_style (ss_st c) p)
                                     (spec_place s c x y) (pi_bounds p)) ps).

Definition spec_style_op (st : style) (o : op) : option style :=
  match o with
  | SetFill a => Some (set_fill st (paint_of_arg a))
  | SetFillColor col => Some (set_fill st (mkPaint col 0 0))
  | SetFillGradient g => Some (set_fill st (mkPaint 0 g 0))
  | SetFillPattern p => Some (set_fill st (mkPaint 0 0 p))
  | SetStroke a => Some (set_stroke st (paint_of_arg a))
  | SetStrokeColor col => Some (set_stroke st (mkPaint col 0 0))
  | SetStrokeGradient g => Some (set_stroke st (mkPaint 0 g 0))
  | SetStrokePattern p => Some (set_stroke st (mkPaint 0 0 p))
  | SetStrokeWidth w => Some (set_width st w)
  | SetStrokeCapper k => Some (set_cap st k)
  | SetStrokeJoiner j => Some (set_join st j)
  | SetDashes off d => Some (set_dashes st off d)
  | SetFillRule r => Some (set_rule st r)
  | ResetStyle => Some default_style
  | _ => None
  end.

Definition spec_ctx_step (s : spec) (o : op) : spec :=
  let c := sp_cur s in
  match spec_style_op (ss_st c) o with
  | Some st => sp_with_cur s (ss_with_st c st)
  | None =>
  match spec_view_op o with
  | Some f => sp_with_cur s (mkSS (ss_st c) (fun p => ss_view c (pnorm (f p))) (ss_coord c) (ss_sys c))
  | None =>
  match o with
  | SetView m => sp_with_cur s (mkSS (ss_st c) (mdot m) (ss_coord c) (ss_sys c))
  | ResetView => sp_with_cur s (mkSS (ss_st c) (fun p => p) (ss_coord c) (ss_sys c))
  | Push => mkSpec c (sp_path s) (c :: sp_stack s) (sp_z s) (sp_W s) (sp_H s) (sp_items s)
  | Pop => match sp_stack s with
           | [] => s
           | t :: tl => mkSpec t (sp_path s) tl (sp_z s) (sp_W s) (sp_H s) (sp_items s)
           end
  | SetCoordSystem cs => sp_with_cur s (mkSS (ss_st c) (ss_view c) (ss_coord c) cs)
  | SetCoordView m => sp_with_cur s (mkSS (ss_st c) (ss_view c) (mdot m) (ss_sys c))
  | SetCoordRect r w h =>
      (* (0,0)--(w,h) is mapped onto r *)
      sp_with_cur s (mkSS (ss_st c) (ss_view c)
                          (fun p => (rx0 r + fst p * (rW r / w), ry0 r + snd p * (rH r / h))) (ss_sys c))
  | SetZIndex z => mkSpec c (sp_path s) (sp_stack s) z (sp_W s) (sp_H s) (sp_items s)
  | PathCmd t => sp_set_path s (sp_path s ++ [t])
  | Fill len b =>
      sp_set_path (spec_draw_paths s (ss_with_st c (set_stroke (ss_st c) paint_none)) 0 0 [mkPI (sp_path s) len b]) []
  | Stroke len b =>
      sp_set_path (spec_draw_paths s (ss_with_st c (set_fill (ss_st c) paint_none)) 0 0 [mkPI (sp_path s) len b]) []
  | FillStroke len b => sp_set_path (spec_draw_paths s c 0 0 [mkPI (sp_path s) len b]) []
  | DrawPath x y ps => spec_draw_paths s c x y ps
  | DrawText x y id empty b =>
      if empty then s
      else (* text keeps its upright orientation: its own axes are flipped back in the flipped systems *)
        let flip : pfn := fun p => (if flipsX (ss_sys c) then - fst p else fst p, if flipsY (ss_sys c) then - snd p else snd p) in
        sp_emit s [mkSI (sp_z s) (OText id) default_style (fun p => spec_place s c x y (flip p)) b]
  | DrawImage x y id wpx hpx res =>
      if (wpx =? 0)%Z && (hpx =? 0)%Z then s
      else (* pixel (px,py) lies at (px/res, py/res) mm from (x,y); the image is mirrored within its own box in the
              flipped systems so that it stays upright *)
        let flip : pfn := fun p => (if flipsX (ss_sys c) then inject_Z wpx - fst p else fst p,
                                    if flipsY (ss_sys c) then inject_Z hpx - snd p else snd p) in
        sp_emit s [mkSI (sp_z s) (OImage id wpx hpx) default_style
                        (fun p => let q := flip p in spec_place s c x y (fst q / res, snd q / res))
                        (mkR 0 0 (inject_Z wpx) (inject_Z hpx))]
  | FitImage r fit id wpx hpx =>
      if ((wpx =? 0)%Z && (hpx =? 0)%Z) || qequal (rW r) 0 || qequal (rH r) 0 then s
      else
        (* documented meaning, written independently of fit_params: the image (cropped for ImageCover) is laid over a box
           inside / equal to the rectangle and mirrored within that box in the flipped systems.
           ImageFill: box = rectangle. ImageContain: the largest box of the image's aspect ratio inside the rectangle,
           centred. ImageCover: box = rectangle, the image cropped symmetrically (whole pixels, rounded half up) on the axis
           on which it is too long for the rectangle's aspect ratio. *)
        let w := inject_Z wpx in let h := inject_Z hpx in
        let wide := Qle_bool (h * rW r) (w * rH r) in   (* image is relatively wider than the rectangle: w/h >= rW/rH *)
        let '(bx, by_, bw, bh, wc, hc) :=
          if (fit =? 1)%Z then
            if wide then (rx0 r, ry0 r + (rH r - rW r * h / w) / 2, rW r, rW r * h / w, wpx, hpx)
            else (rx0 r + (rW r - rH r * w / h) / 2, ry0 r, rH r * w / h, rH r, wpx, hpx)
          else if (fit =? 2)%Z then
            (* at least one column / row of pixels is kept *)
            if wide then let dx := Qfloor ((w - rW r * (h / rH r)) / 2 + (1 # 2)) in
                         let dx := if (wpx <=? 2 * dx)%Z then (dx - 1)%Z else dx in (rx0 r, ry0 r, rW r, rH r, (wpx - 2 * dx)%Z, hpx)
            else let dy := Qfloor ((h - rH r * (w / rW r)) / 2 + (1 # 2)) in
                 let dy := if (hpx <=? 2 * dy)%Z then (dy - 1)%Z else dy in (rx0 r, ry0 r, rW r, rH r, wpx, (hpx - 2 * dy)%Z)
          else (rx0 r, ry0 r, rW r, rH r, wpx, hpx) in
        let flip : pfn := fun p => (if flipsX (ss_sys c) then inject_Z wc - fst p else fst p,
                                    if flipsY (ss_sys c) then inject_Z hc - snd p else snd p) in
        sp_emit s [mkSI (sp_z s) (OImage id wc hc) default_style
                        (fun p => let q := flip p in spec_place s c bx by_ (fst q * bw / inject_Z wc, snd q * bh / inject_Z hc))
                        (mkR 0 0 (inject_Z wc) (inject_Z hc))]
  | _ => s
  end end end.

Definition si_move (f : pfn) (i : sitem) : sitem := mkSI (si_z i) (si_obj i) (si_st i) (fun p => pnorm (f (si_fn i p))) (si_b i).

Definition si_bounds (i : sitem) : rect :=
  if is_path (si_obj i) && has_stroke (si_st i) then rexpand (si_b i) (swidth (si_st i) / 2) else si_b i.
(** box around the images of the four corners *)
Definition si_box (i : sitem) : rect :=
  let b := si_bounds i in
  let p0 := si_fn i (rx0 b, ry0 b) in let p1 := si_fn i (rx1 b, ry0 b) in
  let p2 := si_fn i (rx1 b, ry1 b) in let p3 := si_fn i (rx0 b, ry1 b) in
  mkR (qmin4 (fst p0) (fst p1) (fst p2) (fst p3)) (qmin4 (snd p0) (snd p1) (snd p2) (snd p3))
      (qmax4 (fst p0) (fst p1) (fst p2) (fst p3)) (qmax4 (snd p0) (snd p1) (snd p2) (snd p3)).

Definition spec_clip (s : spec) (r : rect) : spec :=
  mkSpec (sp_cur s) (sp_path s) (sp_stack s) (sp_z s) (Qred (rW r)) (Qred (rH r))
         (map (si_move (fun p => (fst p - rx0 r, snd p - ry0 r))) (sp_items s)).

Definition spec_fit_rect (s : spec) (margin : Q) : rect :=
  let boxes := map si_box (filter (fun i => negb (rempty (si_bounds i))) (sp_items s)) in
  match boxes with
  | [] => rexpand (mkR 0 0 0 0) margin
  | b :: tl => rexpand (fold_left radd tl b) margin
  end.

Definition spec_step (s : spec) (o : sop) : spec :=
  match o with
  | Ctx o => spec_ctx_step s o
  | CvTransform m => mkSpec (sp_cur s) (sp_path s) (sp_stack s) (sp_z s) (sp_W s) (sp_H s) (map (si_move (mdot m)) (sp_items s))
  | CvClip r => spec_clip s r
  | CvFit margin => spec_clip s (spec_fit_rect s margin)
  end.

Definition spec_init (W H : Q) : spec :=
  mkSpec (mkSS default_style (fun p => p) (fun p => p) CartI) [] [] 0 W H [].

(** stable sort by z-index: insertion from the right, an element goes before the first strictly larger one *)
Fixpoint si_insert (i : sitem) (l : list sitem) : list sitem :=
  match l with
  | [] => [i]
  | a :: tl => if (si_z a <? si_z i)%Z then a :: si_insert i tl else i :: l
  end.
Definition si_sort (l : list sitem) : list sitem := fold_right si_insert [] l.

Definition is_ctx_op (o : sop) : bool := match o with Ctx (SetZIndex _) => false | Ctx _ => true | _ => false end.

Definition probes : list qpt := [(0, 0); (1, 0); (0, 1)].
(** Go record vs specification item *)
Definition cmp_spec (sl : Q) (go : list grec) (sp : list sitem) : bool * bool * bool :=
  let okobj := list_eqb (fun g i => obj_eqb (g_obj g) (si_obj i)) go sp in
  let pairs := combine go sp in
  let okst := forallb (fun '(g, i) => negb (is_path (si_obj i)) || style_eqb_handed (g_st g) (si_st i)) pairs in
  let okm := forallb (fun '(g, i) => forallb (fun p => pt_close sl (mdot (g_m g) p) (si_fn i p)) probes) pairs in
  (okobj, okst, okm).

(** the relational inputs of Rotate: c^2 + s^2 = 1 within 2^-40 *)
Definition rot_ok (o : sop) : bool :=
  match o with
  | Ctx (Rotate c s) | Ctx (RotateAbout c s _ _) => qclose (1 # 1099511627776) (c * c + s * s) 1
  | _ => true
  end.

Definition two_pow (k : Z) : Q := match k with Zpos p => inject_Z (Z.pow_pos 2 p) | Z0 => 1 | Zneg p => 1 # (Pos.pow 2 p) end.

(** Go's records after Fit(margin): every object with non-empty bounds lies within the margins of the new size, and
    the size is tight (some object touches each margin) *)
Definition fit_ok (sl margin W H : Q) (go : list grec) (bounds : list rect) : bool * bool :=
  let boxes := map (fun '(g, b) => rtransform b (g_m g)) (filter (fun '(g, b) => negb (rempty b)) (combine go bounds)) in
  let inside := forallb (fun r => Qleb (margin - sl) (rx0 r) && Qleb (margin - sl) (ry0 r) &&
                                  Qleb (rx1 r) (W - margin + sl) && Qleb (ry1 r) (H - margin + sl)) boxes in
  let tight := match boxes with
               | [] => qclose sl W (2 * margin) && qclose sl H (2 * margin)
               | b :: tl => let u := fold_left radd tl b in
                            qclose sl (rx0 u) margin && qclose sl (ry0 u) margin &&
                            qclose sl (rx1 u) (W - margin) && qclose sl (ry1 u) (H - margin)
               end in
  (inside, tight).

(** judge: [tie flags; property flags; direct records; replay records; exactly equal matrices; compared matrices;
            ceil(max matrix error * 2^60); input-validity flags]
    tie: 1 direct objects/order, 2 direct styles, 4 direct matrices, 8 replay objects/order, 16 replay styles,
         32 replay matrices, 64 final style/coord system/stack depth, 128 final views, 256 canvas W/H/z,
         512 size after Fit, 1024 records after Fit
    property: 1 direct objects/order, 2 direct styles, 4 direct placement, 8 replay order (stable by z), 16 replay
         styles, 32 replay placement, 64 Push/Pop discipline (final state), 128 Fit containment, 256 Fit tightness,
         512 Fit replay placement/order
    validity: 1 a Rotate input violates c^2+s^2=1 *)
Definition judge (c : case15) : list Z :=
  let sl := two_pow (kK c - 36) in
  let W := kW c in let H := kH c in
  (* model *)
  let cops := flat_map (fun o => match o with Ctx o' => [o'] | _ => [] end) (kops c) in
  let '(dctx, dout) := ctx_run W H init_ctx cops in
  let s := sys_run (sys_init W H) (kops c) in
  let replay := cv_render_view (scv s) (kV c) in
  let sfit := cv_fit (scv s) (kmargin c) in
  let fitout := cv_render sfit in
  let '(d_obj, d_st, d_m, d_ex, d_err) := cmp_recs sl (kdirect c) dout in
  let '(r_obj, r_st, r_m, r_ex, r_err) := cmp_recs sl (kreplay c) replay in
  let '(f_obj, f_st, f_m, f_ex, f_err) := cmp_recs sl (kfit c) fitout in
  let '(fs1, fv1) := cstate_tie sl (kcur c) (ccur (sctx s)) in
  let '(fs2, fv2) := cstate_tie sl (kdcur c) (ccur dctx) in
  let stk := combine (kstack c) (cstack (sctx s)) in
  let stk_len := Nat.eqb (length (kstack c)) (length (cstack (sctx s))) in
  let stk_s := forallb (fun '(g, m) => fst (cstate_tie sl g m)) stk in
  let stk_v := forallb (fun '(g, m) => snd (cstate_tie sl g m)) stk in
  let cvok := qclose sl (kcvW c) (cvW (scv s)) && qclose sl (kcvH c) (cvH (scv s)) && (kcvz c =? cvz (scv s))%Z in
  let fitsz := qclose sl (kfitW c) (cvW sfit) && qclose sl (kfitH c) (cvH sfit) in
  let tie :=
    (bit (negb d_obj) 1 + bit (negb d_st) 2 + bit (negb d_m) 4 + bit (negb r_obj) 8 + bit (negb r_st) 16 +
     bit (negb r_m) 32 + bit (negb (fs1 && fs2 && stk_len && stk_s)) 64 + bit (negb (fv1 && fv2 && stk_v)) 128 +
     bit (negb cvok) 256 + bit (negb fitsz) 512 + bit (negb (f_obj && f_st && f_m)) 1024)%Z in
  (* specification *)
  let sl2 := sl * 4 in
  let dspec := fold_left spec_ctx_step (filter (fun o => match o with SetZIndex _ => false | _ => true end) cops) (spec_init W H) in
  let '(pd_obj, pd_st, pd_m) := cmp_spec sl2 (kdirect c) (sp_items dspec) in
  let sspec := fold_left spec_step (kops c) (spec_init W H) in
  let rspec := map (si_move (mdot (kV c))) (si_sort (sp_items sspec)) in
  let '(pr_obj, pr_st, pr_m) := cmp_spec sl2 (kreplay c) rspec in
  let fspec := si_sort (sp_items (spec_step sspec (CvFit (kmargin c)))) in
  let '(pf_obj, pf_st, pf_m) := cmp_spec sl2 (kfit c) fspec in
  let sp_state_ok (g : cstate) (t : sstate) :=
    style_eqb (cst g) (ss_st t) && csys_eqb (csysm g) (ss_sys t) &&
    forallb (fun p => pt_close sl2 (mdot (cview g) p) (ss_view t p) && pt_close sl2 (mdot (ccoord g) p) (ss_coord t p)) probes in
  let p_stack := sp_state_ok (kcur c) (sp_cur sspec) && sp_state_ok (kdcur c) (sp_cur dspec) &&
                 Nat.eqb (length (kstack c)) (length (sp_stack sspec)) &&
                 forallb (fun '(g, t) => sp_state_ok g t) (combine (kstack c) (sp_stack sspec)) in
  let '(fit_in, fit_tight) := fit_ok sl2 (kmargin c) (kfitW c) (kfitH c) (kfit c) (map si_bounds fspec) in
  let prop :=
    (bit (negb pd_obj) 1 + bit (negb pd_st) 2 + bit (negb pd_m) 4 + bit (negb pr_obj) 8 + bit (negb pr_st) 16 +
     bit (negb pr_m) 32 + bit (negb p_stack) 64 + bit (negb (fit_in || negb pf_obj)) 128 +
     bit (negb (fit_tight || negb pf_obj)) 256 + bit (negb (pf_obj && pf_st && pf_m)) 512)%Z in
  let err := Qmax d_err (Qmax r_err f_err) in
  let errz := Qceiling (err * two_pow 60) in
  let ncmp := Z.of_nat (length (kdirect c) + length (kreplay c) + length (kfit c)) in
  [ tie; prop; Z.of_nat (length dout); Z.of_nat (length replay); (d_ex + r_ex + f_ex)%Z; ncmp; errz;
    bit (negb (forallb rot_ok (kops c))) 1 ].

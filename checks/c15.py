"""C15 — Context and Canvas apply views, coordinate systems and state as documented."""
import json, os
import vlib

META = dict(
    level="proof",
    technique="Coq proof over an exact rational model of canvas.Context / canvas.Canvas (state, stack, view compositions, "
              "coordinate systems, draw matrices, layers, replay, Transform/Clip/Fit) + differential run of the Go code "
              "(recording Renderer) against the model and against a point-map specification evaluated by vm_compute",
    level_text="Theorems (Coq, closed under the global context) over all histories of Context calls and all four coordinate "
               "systems: Push/Pop restore style, view, coordinate view and coordinate system exactly for any nesting of "
               "balanced histories and an unmatched Pop is a no-op; every view call post-multiplies and its matrix is the "
               "documented geometric map; the matrix handed to the renderer is CoordSystemView . view . "
               "Translate(coordView(x,y)) (a point p appears at CoordSystemView(view(p + coordView(x,y)))), with the extra "
               "reflections for text and images exactly in the flipped systems so that their orientation is that of the view "
               "alone; each coordinate system puts the origin in its documented corner; setters change only the style and "
               "never what was already handed on; the replay order is the stable sort of the recording order by z-index; "
               "Transform/Clip move every point of every object by the same map; after Fit(margin) every layer with "
               "non-empty bounds lies within the margins (partial: layers with Empty() bounds are skipped, refutation "
               "witness proved). The model is tied to the Go code on every run by exact comparison of the recorded "
               "sequences (objects, order, style tokens; matrices and sizes within 2^(K-36)) and the Go output is judged "
               "directly against the point-map specification.",
    level_note="Trusted: Coq kernel + vm_compute; the hand-written model (Ctx/Context.v, Ctx/Canvas.v; checkDash from C05's Dash/DashPhase.v) is tied "
               "by differential testing on generated histories, not by a proof about Go source. Rotate's (cos, sin), path "
               "lengths/bounds, text bounds and image sizes are relational inputs taken from Go. Matrices are compared within "
               "an explicit rational slack because Go rounds to binary64 and the model is exact. Colour conversion "
               "(rgbaColor), patterns'/gradients' own views, NaN/Inf arguments and singular views are not covered.",
    harness=["c15"],
)

HEADER = ("From Coq Require Import ZArith QArith List Bool.\n"
          "From CV Require Import Base.Dy Geom.Matrix Ctx.DashCheck Ctx.Context Ctx.Canvas Ctx.Spec Corr.C15.\n"
          "Import ListNotations.\nOpen Scope Q_scope.\n")

TIE = {1: "tie:direct-objects/order", 2: "tie:direct-styles", 4: "tie:direct-matrices", 8: "tie:replay-objects/order",
       16: "tie:replay-styles", 32: "tie:replay-matrices", 64: "tie:final-style/coordsystem/stack", 128: "tie:final-views",
       256: "tie:canvas-size/z", 512: "tie:size-after-Fit", 1024: "tie:records-after-Fit"}
PROP = {1: "prop:direct-objects/order", 2: "prop:style-handed-to-renderer", 4: "prop:placement!=CSV(view(p+coordView(x,y)))",
        8: "prop:replay-order-not-stable-by-z", 16: "prop:replay-style", 32: "prop:replay-placement",
        64: "prop:Push/Pop-or-final-state", 128: "prop:Fit-content-outside-margin", 256: "prop:Fit-size-not-tight",
        512: "prop:after-Fit-placement/order"}


def names(table, fl):
    return [n for b, n in table.items() if fl & b]


def run(ctx):
    pr, obligations, discharged = vlib.proof_stage(ctx, ["theories/Corr/C15.vo"])
    if pr["broken"] or not pr["ok"]:
        ctx.violation(dict(kind="proof-obligation-broken", theorem_or_file=pr["broken"], bad_axioms=pr["bad_axioms"], log=pr["log"][-2000:]),
                      "proof obligation no longer checks: %s" % (pr["broken"] or pr["bad_axioms"]), found_input=False)
    ncases = ctx.n(330, 5000)
    args = ["-seed", str(ctx.seed), "-n", str(ncases), "-repo", vlib.REPO]
    if ctx.replay:
        rp = json.load(open(ctx.replay))
        args = ["-seed", str(rp.get("seed", ctx.seed)), "-n", str(rp.get("index", 0) + 1), "-only", str(rp.get("index", 0)), "-repo", vlib.REPO]
    rc, cases, err = vlib.harness_cases("c15", args)
    if rc != 0 or not cases:
        ctx.violation(dict(kind="harness-failed", rc=rc, stderr=err[-2000:]), "harness c15 failed (rc=%s)" % rc, found_input=False)
        return ctx.finish("proof", dict(obligations=obligations, discharged=discharged), [])
    rows = vlib.coq_eval_shards("c15-%d" % ctx.seed, HEADER, [c["coq"] for c in cases], shard=ctx.n(7, 25))
    known = vlib.known_findings("C15")
    prop_fail, tie_fail, invalid = [], [], []
    flagcount = {}
    nrec = nreplay = nexact = ncmp = 0
    maxerr = 0
    distinct, nontrivial = set(), set()
    depth_hist, z_hist = {}, {}
    for c, row in zip(cases, rows):
        tie, prop, nd, nr, nex, ncm, errz, inv = row[:8]
        nrec += nd
        nreplay += nr
        nexact += nex
        ncmp += ncm
        maxerr = max(maxerr, errz)
        key = json.dumps([c["desc"]["W"], c["desc"]["H"], c["desc"]["ops"]])
        distinct.add(key)
        if nd > 0:
            nontrivial.add(key)
        d = min(c["desc"]["max_stack_depth"], 6)
        depth_hist[d] = depth_hist.get(d, 0) + 1
        z = c["desc"]["distinct_z"]
        z_hist[z] = z_hist.get(z, 0) + 1
        for n in names(TIE, tie) + names(PROP, prop):
            flagcount[n] = flagcount.get(n, 0) + 1
        if inv:
            invalid.append(c)
        if prop:
            prop_fail.append((c, tie, prop))
        elif tie:
            tie_fail.append((c, tie, prop))

    def describe(c, tie, prop):
        return dict(seed=ctx.seed, index=c["i"], family=c["fam"], W=c["desc"]["W"], H=c["desc"]["H"], ops=c["desc"]["ops"],
                    replay_view=c["desc"]["replay_view"], fit_margin=c["desc"]["fit_margin"],
                    go_direct=c["desc"]["go_direct"], go_replay=c["desc"]["go_replay"], size_after_fit=c["desc"]["size_after_fit"],
                    flags=names(TIE, tie) + names(PROP, prop))

    def matches_known(c, tie, prop):
        for f in known:
            if f.get("status") == "open" and f.get("propmask", 0) and prop & ~f["propmask"] == 0 and f.get("cond") == "any":
                return f
        return None

    reported = set()
    new_prop = []
    for c, tie, prop in prop_fail:
        f = matches_known(c, tie, prop)
        if f:
            if f["key"] not in reported:
                reported.add(f["key"])
                ctx.known_finding("%s (e.g. seed %d case %d)" % (f["what"], ctx.seed, c["i"]))
        else:
            new_prop.append((c, tie, prop))
    new_prop.sort(key=lambda t: len(t[0]["desc"]["ops"]))      # smallest failing histories first
    for c, tie, prop in new_prop[:3]:
        ctx.violation(dict(kind="property-fails-on-implementation", **describe(c, tie, prop)),
                      "%s on a history of %d calls (family %s)" % (",".join(names(PROP, prop)), len(c["desc"]["ops"]), c["fam"]))
    if not new_prop and tie_fail:
        tie_fail.sort(key=lambda t: len(t[0]["desc"]["ops"]))
        c, tie, prop = tie_fail[0]
        ctx.violation(dict(kind="correspondence-broken", correspondence="Corr.C15.judge (model of Context/Canvas vs Go)",
                           searched="%d histories judged against the point-map specification: none violates the property" % len(cases),
                           **describe(c, tie, prop)), "model/implementation disagree: %s" % ",".join(names(TIE, tie)), found_input=False)
    if invalid:
        c = invalid[0]
        ctx.violation(dict(kind="relational-input-invalid", what="math.Sincos result violates c^2+s^2=1 within 2^-40", **describe(c, 0, 0)),
                      "Rotate's relational input invalid", found_input=False)
    fams = vlib.histogram([c["fam"] for c in cases])
    cov = dict(
        obligations=obligations, discharged=discharged,
        checker_cmd="make -C coq theories/Props/C15.vo (coqc 8.16.1, full .vo) ; coqc on generated cases files (vm_compute)",
        trusted_base=vlib.trusted_base(pr, [
            "correspondence harness harness/cmd/c15 (Go): recording canvas.Renderer, exact dyadic exchange of all float64 values",
            "models written by hand: Ctx/Context.v, Ctx/Canvas.v, and Dash/DashPhase.v (C05) for checkDash (tied by the differential run below, not proved against Go source)",
            "relational inputs taken from Go: math.Sincos for Rotate (checked c^2+s^2=1 within 2^-40), Path.Length/Bounds, Text.Bounds, image sizes",
            "matrix/size comparisons within the explicit slack 2^(K-36), 2^K > every magnitude in the run (binary64 rounding vs exact Q)"]),
        evaluations=len(cases), distinct=len(distinct), distinct_nontrivial=len(nontrivial),
        rule="one evaluation = one history (1..60 Context/Canvas calls) run on the Go code (Context over Canvas, Context over a "
             "recording Renderer, RenderViewTo, Fit, RenderTo) and through the Coq model and the point-map specification; distinct by "
             "(W, H, call sequence); non-trivial: at least one object reached the renderer",
        programs=len(cases), records_direct=nrec, records_replayed=nreplay,
        matrices_compared=ncmp, matrices_bit_exact=nexact, max_matrix_error="%d * 2^-60" % maxerr,
        traces_validated_against_impl=len(cases), disagreements_checked=len(prop_fail) + len(tie_fail),
        max_stack_depth_histogram=dict(sorted(depth_hist.items())), distinct_z_histogram=dict(sorted(z_hist.items())),
        families=fams, flag_counts=flagcount,
        theorems=pr["theorems"], assumptions_per_theorem=pr["assumptions"],
        samples=[dict(ops=c["desc"]["ops"][:12], go_direct=c["desc"]["go_direct"][:3]) for c in cases[:3]],
    )
    return ctx.finish("proof", cov, [
        "all arguments dyadic (exact in binary64 and in Q); views kept regular (|det| >= 2^-10) and bounded (entries <= 2^10) by the generator",
        "checkDash/dashStart/dashCanonical are C05's model (Dash/DashPhase.v); the property oracle compares the dash offset handed to the renderer only together with a non-empty dash array",
        "segments that extend the previous one in the same direction are not generated (Path.LineTo/Close merge them by design; the model appends path commands verbatim)",
        "colours are valid premultiplied RGBA (rgbaColor is the identity on them); non-finite arguments are not exercised",
        "Go's map iteration order in Fit is irrelevant as long as no transformed bounds is Empty (regular matrices)"])

(** C06 — symmetry of the winding-number specification lifted from edges to whole paths:
    translating the path and the query point by the same vector leaves the winding number unchanged. *)
From Coq Require Import ZArith List Bool Lia.
From CV Require Import Geom.Winding Geom.WindingProofs.
Import ListNotations.
Open Scope Z_scope.

Definition tr (dx dy_ : Z) (q : pt) : pt := (fst q + dx, snd q + dy_).

Lemma combine_map2 {A B} (f : A -> B) (l1 l2 : list A) :
  combine (map f l1) (map f l2) = map (fun e => (f (fst e), f (snd e))) (combine l1 l2).
Proof.
  revert l2; induction l1 as [|a l1 IH]; intros [|b l2]; cbn; try reflexivity. now rewrite IH.
Qed.

Lemma rot1_map (f : pt -> pt) c : rot1 (map f c) = map f (rot1 c).
Proof. destruct c as [|v vs]; cbn; [reflexivity|]. now rewrite map_app. Qed.

Lemma wn_contour_translate dx dy_ c p : wn_contour (map (tr dx dy_) c) (tr dx dy_ p) = wn_contour c p.
Proof.
  unfold wn_contour, edges. rewrite rot1_map, combine_map2, map_map. f_equal.
  apply map_ext. intros [a b]. cbn [fst snd]. apply edge_w_translate.
Qed.

Theorem wn_translate dx dy_ P p : wn (map (map (tr dx dy_)) P) (tr dx dy_ p) = wn P p.
Proof.
  unfold wn. rewrite map_map. f_equal. apply map_ext. intros c. apply wn_contour_translate.
Qed.

(** non-trivial instance: the unit-ish square shifted by (7,-3), query point shifted along *)
Example wn_translate_ex :
  wn [[(0,0); (4,0); (4,4); (0,4)]] (1,1) = 1 /\
  wn (map (map (tr 7 (-3))) [[(0,0); (4,0); (4,4); (0,4)]]) (tr 7 (-3) (1,1)) = 1.
Proof. split; reflexivity. Qed.

// Package cq prints Go values as Gallina terms. Floats are exchanged exactly: a finite float64 is the
// dyadic rational m*2^e and is printed as (dy m e) with m, e : Z; there is no decimal rounding anywhere.
package cq

import (
	"fmt"
	"math"
	"strings"
)

// Z prints an integer as a Z literal.
func Z(i int64) string {
	if i < 0 {
		return fmt.Sprintf("(%d)%%Z", i)
	}
	return fmt.Sprintf("%d%%Z", i)
}

func N(i int) string { return fmt.Sprintf("%d%%nat", i) }

func Bool(b bool) string {
	if b {
		return "true"
	}
	return "false"
}

// MantExp returns m, e with f = m*2^e exactly (m odd or zero), ok=false for NaN/Inf.
func MantExp(f float64) (m int64, e int, ok bool) {
	if math.IsNaN(f) || math.IsInf(f, 0) {
		return 0, 0, false
	}
	if f == 0 {
		return 0, 0, true
	}
	fr, ex := math.Frexp(f) // f = fr*2^ex, 0.5<=|fr|<1
	m = int64(fr * (1 << 53))
	e = ex - 53
	for m%2 == 0 {
		m /= 2
		e++
	}
	return m, e, true
}

// F prints a float64 as the exact dyadic (dy m e) : Q; NaN/Inf are printed as dyNaN (a tagged error value
// is never silently totalised: models take `fl` = option-like inputs where non-finite values matter).
func F(f float64) string {
	m, e, ok := MantExp(f)
	if !ok {
		panic(fmt.Sprintf("cq.F: non-finite %v", f))
	}
	return fmt.Sprintf("(dy %s %s)", Z(m), Z(int64(e)))
}

// Q prints num/den.
func Q(num, den int64) string { return fmt.Sprintf("(%s # %d)", zraw(num), den) }

func zraw(i int64) string {
	if i < 0 {
		return fmt.Sprintf("(%d)", i)
	}
	return fmt.Sprintf("%d", i)
}

func List(xs []string) string {
	if len(xs) == 0 {
		return "nil"
	}
	return "(" + strings.Join(xs, " :: ") + " :: nil)"
}

func Pair(a, b string) string { return "(" + a + ", " + b + ")" }

func Pt(x, y float64) string { return "(" + F(x) + ", " + F(y) + ")" }

func Floats(fs []float64) string {
	xs := make([]string, len(fs))
	for i, f := range fs {
		xs[i] = F(f)
	}
	return List(xs)
}

func Ints(is []int) string {
	xs := make([]string, len(is))
	for i, v := range is {
		xs[i] = Z(int64(v))
	}
	return List(xs)
}

(** C12 — reference semantics of a recorded layer: the ordered paint operations the library's own rasteriser
    performs for (path, style, view matrix) (renderers/rasterizer/rasterizer.go RenderPath):
      fill   = path.Transform(m), filled with the style's paint (drawn first);
      stroke = path.Dash(offset*W, dashes*W).Stroke(W, cap, join).Transform(m), filled NonZero with the stroke paint
               (dash lengths are multiples of the stroke width: ScaleDash(style.StrokeWidth, ...)).
    A back-end may express the stroke natively in target space (width*k, dashes*W*k) when the view is a similarity of
    scale k (Units.similarity_scales_distance) and the cap/join exists in the format; otherwise it must paint the
    outline.  Paint operations are expressed in canvas millimetres. *)
From Coq Require Import QArith ZArith List Bool.
Import ListNotations.
Open Scope Q_scope.

Inductive gapk := GBevel | GRound | GNone | GOther.
Inductive joiner := JBevel | JRound | JMiter (g : gapk) (lim : option Q) | JArcs (g : gapk) (lim : option Q).
(** limit = None stands for NaN *)

Definition rgba := (Z * Z * Z * Z)%type.          (* alpha-premultiplied 0..255, as color.RGBA *)
Inductive paint := PNone | PColor (c : rgba) | PGrad (id : Z).

(** path geometry: (command, operands); 0 = M x y, 1 = L x y, 2 = C x1 y1 x2 y2 x y, 3 = Z *)
Definition seg := (Z * list Q)%type.
Definition geo := list seg.

Record style := mkStyle { sFill : paint; sStroke : paint; sWidth : Q; sCap : Z; sJoin : joiner;
                          sOff : Q; sDashes : list Q; sEvenOdd : bool }.

Definition paint_has (p : paint) : bool := match p with PNone => false | PColor (_, _, _, a) => negb (a =? 0)%Z | PGrad _ => true end.
Definition has_fill (s : style) : bool := paint_has (sFill s).
Definition has_stroke (s : style) : bool := paint_has (sStroke s) && negb (Qle_bool (sWidth s) 0).
Definition is_dashed (s : style) : bool := negb (Nat.eqb (length (sDashes s)) 0).

(** un-premultiplied colour as the back-ends print it: R/255/(A/255) = R/A; gradients are structural (id only) *)
Definition col3 := (Q * Q * Q)%type.
Definition paint_col (p : paint) : col3 :=
  match p with
  | PColor (r, g, b, a) => (Qred (r # Z.to_pos a), Qred (g # Z.to_pos a), Qred (b # Z.to_pos a))
  | PGrad id => (inject_Z (- id - 1), 0, 0)
  | PNone => (0, 0, 0)
  end.
Definition paint_alpha (p : paint) : Q :=
  match p with PColor (_, _, _, a) => Qred (a # 255) | _ => 1 end.

(** paint operation.  join codes: 0 miter (limit ml), 1 round, 2 bevel, 3 arcs *)
Inductive pkind :=
| KFill (evenodd : bool)
| KStroke (closed : bool) (w : Q) (cap join : Z) (ml : Q) (dashes : list Q) (phase : Q)
| KBad.
Record pop := mkPop { pk : pkind; pgeo : geo; pcol : col3; palpha : Q }.

(** stroke expressible natively in PDF / PS: bevel, round, or miter with bevel gap and a finite limit *)
Definition join_native (j : joiner) : option (Z * option Q) :=
  match j with
  | JBevel => Some (2%Z, None)
  | JRound => Some (1%Z, None)
  | JMiter GBevel (Some l) => Some (0%Z, Some l)
  | _ => None
  end.

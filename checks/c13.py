"""C13 — every PDF produced is a structurally valid PDF file."""
import hashlib, json, os
import vlib

META = dict(
    level="proof",
    technique="Coq proofs over an executable model of the PDF writer's object table, text-object machine, literal-string/"
              "text-string encoding and document-information dictionaries + per-document differential run (K1) of the Go "
              "renderer against the model and certified acceptance (K2) of the bytes written by a Coq structure checker "
              "(vm_compute)",
    level_text="Theorems (Coq, closed under the global context): for every writer history ending in Close the xref table lists "
               "for each object number the position at which its header was printed, each number is printed exactly once, "
               "Size = #objects+1, /Count = |Kids| = number of pages started; for every call sequence the text-object machine "
               "prints alternating BT/ET and the renderer's call pattern never panics and yields content that passes the "
               "checker's structure test (itself proved sound w.r.t. a counting specification); literal strings written by the "
               "writer are read back unchanged by a reader following ISO 32000-1 7.3.4.2, metadata of Unicode scalar values "
               "round-trips through UTF-16BE/PDFDocEncoding, Info fields and Lang hold their inputs. The model is tied to the Go "
               "code on every run (object numbers/offsets/startxref, Kids/Count, BT/ET/q/Q skeleton, raw Info literals) and every "
               "generated PDF is judged by the Coq checker (header, startxref, xref offsets vs 'k 0 obj', trailer, reference "
               "resolution, stream Length, page tree, resource names, operator arity/balance, stitching functions) and by the "
               "specification reader for the Info/Lang fields.",
    level_note="Trusted: Coq kernel + vm_compute; the Go tokeniser harness/internal/pdftok that slices the file into the object "
               "table (it takes no validity decision), Go's zlib/jpeg for 'filters decode'; the hand-written models are tied by "
               "differential runs on generated documents, not by a proof about Go source. Not covered: font program / CMap / W "
               "array contents (C18), drawing semantics (C12), inline images, object streams, encryption (not produced).",
    harness=["c13"],
)

HEADER = ("From Coq Require Import ZArith List Bool String.\n"
          "From CV Require Import Pdf.Strings Pdf.Objects Pdf.Check Pdf.TextObj Pdf.Meta Corr.C13.\n"
          "Import ListNotations.\nOpen Scope string_scope.\nOpen Scope Z_scope.\n")

PROP = {1: "prop:header", 2: "prop:startxref/EOF", 4: "prop:xref-table", 8: "prop:trailer", 16: "prop:unresolved-reference",
        32: "prop:stream-Length/filter/atoms", 64: "prop:page-tree", 128: "prop:resource-name-undefined",
        256: "prop:content-structure/operator", 512: "prop:function-dictionary", 1024: "prop:Info-field!=input",
        2048: "prop:Lang!=language", 4096: "prop:panic", 8192: "prop:unreadable-file"}
TIE = {1: "tie:object-numbering", 2: "tie:xref-offsets", 4: "tie:startxref/Size/contiguity", 8: "tie:BT-ET-q-Q-skeleton",
       16: "tie:Info/Lang-literal", 32: "tie:Kids/Count"}


DUMMY = "mkCase13 false false true nil nil nil None"


def evaluate(name, cases):
    """judge every case in Coq. Terms range from 0.1 to 60 kB: cases are dealt round-robin (largest first) into
    equally sized buckets, padded with a trivial case, so that every parallel coqc run gets a similar load."""
    if not cases:
        return []
    total = sum(len(c["coq"]) for c in cases)
    nb = max(1, min(len(cases), max(vlib.NCPU, total // 250000 + 1)))
    order = sorted(range(len(cases)), key=lambda i: -len(cases[i]["coq"]))
    buckets = [[] for _ in range(nb)]
    for k, i in enumerate(order):
        buckets[k % nb].append(i)
    sz = max(len(b) for b in buckets)
    items, where = [], []
    for b in buckets:
        for j in range(sz):
            if j < len(b):
                items.append(cases[b[j]]["coq"])
                where.append(b[j])
            else:
                items.append(DUMMY)
                where.append(None)
    res = vlib.coq_eval_shards(name, HEADER, items, shard=sz, timeout=1800)
    rows = [None] * len(cases)
    for i, r in zip(where, res):
        if i is not None:
            rows[i] = r
    return rows


def run_batch(ctx, seed, n, only=None, nodirected=False):
    args = ["-seed", str(seed), "-n", str(n), "-repo", vlib.REPO]
    if only is not None:
        args += ["-only", str(only)]
    if nodirected:
        args += ["-nodirected"]
    rc, cases, err = vlib.harness_cases("c13", args, timeout=3000)
    if rc != 0:
        raise vlib.BuildError("harness c13 exited with %d: %s" % (rc, err[-2000:]))
    rows = evaluate("c13-%d" % seed, cases)
    for c in cases:
        c["seed"] = seed
        c["nodirected"] = bool(nodirected)
    return cases, rows


def describe(c, row):
    d = dict(c["desc"])
    return dict(seed=c["seed"], index=c["i"], nodirected=c["nodirected"], family=c["fam"], script=d,
                flags=[n for b, n in PROP.items() if row[0] & b] + [n for b, n in TIE.items() if row[1] & b],
                replay_hint="harness/cmd/c13 -seed %d -n %d -only %d%s -dump out.pdf" % (c["seed"], c["i"] + 1, c["i"], " -nodirected" if c["nodirected"] else ""))


def size_of(c):
    return sum(len(p["items"] or []) for p in c["desc"]["pages"]) + len(c["desc"]["pages"])


def run(ctx):
    pr, obligations, discharged = vlib.proof_stage(ctx, ["theories/Corr/C13.vo"])
    if pr["broken"] or not pr["ok"]:
        ctx.violation(dict(kind="proof-obligation-broken", theorem_or_file=pr["broken"], bad_axioms=pr["bad_axioms"], log=pr["log"][-2000:]),
                      "proof obligation no longer checks: %s" % (pr["broken"] or pr["bad_axioms"]), found_input=False)
    known = [f for f in vlib.known_findings("C13")]
    # entry proposals of design/C13.findings.json apply until the lead has moved them into known_findings.json
    prop_file = os.path.join(vlib.ROOT, "design", "C13.findings.json")
    if os.path.exists(prop_file):
        have = {f["key"] for f in known}
        known += [f for f in json.load(open(prop_file))["findings"] if f["property"] == "C13" and f["key"] not in have]
    known = [f for f in known if f.get("status") == "open"]
    total = ctx.n(300, 10000)
    chunk = 1000
    batches = []
    if ctx.replay:
        rp = json.load(open(ctx.replay))
        batches.append((rp.get("seed", ctx.seed), rp.get("index", 0) + 1, rp.get("index", 0), bool(rp.get("nodirected", False))))
    else:
        k = 0
        while total > 0:
            n = min(chunk, total)
            batches.append((ctx.seed if k == 0 else ctx.seed * 1000003 + k, n, None, k > 0))
            total -= n
            k += 1
    cases, rows = [], []
    for seed, n, only, nodir in batches:
        cs, rs = run_batch(ctx, seed, n, only, nodir)
        for c in cs:   # drop the big terms as soon as they are judged
            c.pop("coq", None)
        cases += cs
        rows += rs
    prop_fail = [(c, r) for c, r in zip(cases, rows) if r[0]]
    tie_fail = [(c, r) for c, r in zip(cases, rows) if r[1] and not r[0]]
    flagcount = {}
    for c, r in zip(cases, rows):
        for b, nme in PROP.items():
            if r[0] & b:
                flagcount[nme] = flagcount.get(nme, 0) + 1
        for b, nme in TIE.items():
            if r[1] & b:
                flagcount[nme] = flagcount.get(nme, 0) + 1

    def matches_known(c, r):
        for f in known:   # exact trigger: only the listed flag, and the panic message of the finding
            if f.get("flagmask", 0) and (r[0] & ~f["flagmask"]) == 0 and f.get("cond", "").startswith("panic:") \
                    and c["desc"].get("panic", "") == f["cond"][len("panic:"):]:
                return f
        return None

    new_prop, reported = [], set()
    for c, r in prop_fail:
        f = matches_known(c, r)
        if f:
            if f["key"] not in reported:
                reported.add(f["key"])
                ctx.known_finding("%s (e.g. seed %d case %d)" % (f["what"], c["seed"], c["i"]))
        else:
            new_prop.append((c, r))
    # one violation per distinct flag set, smallest script first
    new_prop.sort(key=lambda t: size_of(t[0]))
    seen_flags = set()
    for c, r in new_prop:
        if r[0] in seen_flags or len(seen_flags) >= 6:
            continue
        seen_flags.add(r[0])
        d = describe(c, r)
        ctx.violation(dict(kind="property-fails-on-implementation", **d),
                      "%s on seed %d case %d (%s)" % (",".join(f for f in d["flags"] if f.startswith("prop:")), c["seed"], c["i"],
                                                      (c["desc"]["panic"] or c["desc"]["tokeniser_error"] or "see replay")[:100]))
    searched = 0
    if not new_prop and tie_fail and not ctx.replay:
        # the model and the implementation disagree although every file judged so far is valid: look further
        cs2, rs2 = run_batch(ctx, ctx.seed * 7919 + 17, ctx.n(1500, 5000), None, True)
        searched = len(cs2)
        found = [(c, r) for c, r in zip(cs2, rs2) if r[0] and not matches_known(c, r)]
        found.sort(key=lambda t: size_of(t[0]))
        if found:
            c, r = found[0]
            d = describe(c, r)
            ctx.violation(dict(kind="property-fails-on-implementation", found_by="search after a broken correspondence", **d),
                          "%s on seed %d case %d" % (",".join(d["flags"]), c["seed"], c["i"]))
        else:
            tie_fail.sort(key=lambda t: size_of(t[0]))
            c, r = tie_fail[0]
            ctx.violation(dict(kind="correspondence-broken",
                               correspondence="Corr.C13.judge: " + ",".join(n for b, n in TIE.items() if r[1] & b) + " (models Pdf/Objects.v, Pdf/TextObj.v, Pdf/Strings.v, Pdf/Meta.v vs renderers/pdf)",
                               searched="%d + %d documents judged by the Coq checker and the specification reader: none violates the property" % (len(cases), searched),
                               **describe(c, r)), "model/implementation disagree", found_input=False)
    # ---- evidence
    distinct, nontrivial = set(), set()
    nobj = npages = nops = nrefs = nstreams = 0
    tags = []
    for c, r in zip(cases, rows):
        h = hashlib.sha1(json.dumps(c["desc"], sort_keys=True, default=str).encode()).hexdigest()
        distinct.add(h)
        if len(r) >= 7:
            nobj += r[2]
            npages += max(r[3], 0)
            nops += r[4]
            nrefs += r[5]
            nstreams += r[6]
            d = c["desc"]
            if r[2] > 5 or any(ord(ch) > 127 for k in ("title", "subject", "keywords", "author", "creator") for ch in d[k]) or r[4] > 1:
                nontrivial.add(h)
        tags += c.get("tags", [])
    cov = dict(
        obligations=obligations, discharged=discharged,
        checker_cmd="make -C coq theories/Props/C13.vo theories/Corr/C13.vo (coqc 8.16.1, full .vo) ; coqc on generated cases files (vm_compute of Corr.C13.judge)",
        trusted_base=vlib.trusted_base(pr, [
            "tokeniser harness/internal/pdftok (Go): slices the file into objects, dictionaries, raw string tokens, stream byte counts, content operators; takes no validity decision; a construct it cannot read is reported as a malformed file",
            "Go compress/zlib and image/jpeg decide 'the stream's filters decode'",
            "correspondence harness harness/cmd/c13 (script generator, prediction of the writer history and renderer call skeleton from the script through public API only: Text.WalkSpans, image alpha scan)",
            "models written by hand: Pdf/Objects.v, Pdf/TextObj.v, Pdf/Strings.v, Pdf/Meta.v (tied by the differential run below, not proved against Go source); PDF specification transcribed by hand: literal-string syntax 7.3.4.2, PDFDocEncoding D.2, operator arities Annex A"]),
        evaluations=len(cases), distinct=len(distinct), distinct_nontrivial=len(nontrivial),
        rule="one evaluation = one generated document rendered by the Go PDF renderer and judged in Coq (K1 tie of object table, skeleton, Info literals; K2 structure checker; specification reader on Info/Lang); distinct by the hash of the script description; non-trivial: more than the five objects of an empty one-page document, or more than one content operator, or non-ASCII metadata",
        programs=len(cases), disagreements_checked=len(prop_fail) + len(tie_fail), searched_after_tie_break=searched,
        traces_validated_against_impl=len([r for r in rows if len(r) >= 7 and r[2] > 0]),
        inner_obligations=dict(objects_offset_checked=nobj, pages=npages, content_operators_checked=nops, references_resolved=nrefs, streams_length_checked=nstreams),
        families=vlib.histogram([c["fam"] for c in cases]), features=vlib.histogram(tags), flag_counts=flagcount,
        theorems=pr["theorems"], assumptions_per_theorem=pr["assumptions"],
        samples=[dict(seed=c["seed"], index=c["i"], family=c["fam"], pages=c["desc"]["pages"][:2], bytes=c["desc"]["bytes"], judge=r) for c, r in list(zip(cases, rows))[6:9]],
    )
    return ctx.finish("proof", cov, [
        "metadata strings are valid UTF-8 (Unicode scalar values); pure-ASCII metadata consists of printable characters, TAB, LF, CR (other C0 controls have no PDFDocEncoding code)",
        "gradients have at least two stops; fonts come from /repo/resources (emptied files skipped)",
        "'filters decode' is decided by Go's zlib/jpeg, not inside Coq"])

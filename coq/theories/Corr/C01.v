(** Correspondence judges for C01 (Boolean operations) and C02 (Settle). *)
From Coq Require Import ZArith List Bool.
From CV Require Import Geom.Winding Bool.Region Bool.Sweep Bool.Check Bool.MergeOrder.
Import ListNotations.
Open Scope Z_scope.

(* ------------------------------------------------------------------ K1: status column *)

Definition gout := (Z * Z * Z * Z * Z * bool)%type.  (* W, OW, Self, OSelf, In, Overlapped *)

Record colcase := mkCol {
  kOp : Z; kRule : Z; kSegs : list sseg; kMergeAt : Z;
  kComputed : list gout; kMerged : list gout }.

Definition out_of (s : sseg) : gout := (sW s, sOW s, sSelf s, sOSelf s, sIn s, sOverlapped s).
Definition gout_eqb (a b : gout) : bool :=
  let '(a1, a2, a3, a4, a5, a6) := a in let '(b1, b2, b3, b4, b5, b6) := b in
  (a1 =? b1) && (a2 =? b2) && (a3 =? b3) && (a4 =? b4) && (a5 =? b5) && Bool.eqb a6 b6.

Fixpoint list_eqb {A} (eqb : A -> A -> bool) (l1 l2 : list A) : bool :=
  match l1, l2 with
  | [], [] => true
  | a :: l1', b :: l2' => eqb a b && list_eqb eqb l1' l2'
  | _, _ => false
  end.

(** rebuild segments carrying Go's fields, to judge Go's output against the specification directly *)
Definition with_out (s : sseg) (o : gout) : sseg :=
  let '(w, ow, self, oself, inres, ov) := o in set_fields s w ow self oself inres ov.

(** specification of a computed column, checked on Go's own output: windings are prefix sums of the
    non-vertical contributions below, and a closed non-vertical segment is in the result iff the operation's
    region differs between the gap below and the gap above *)
Fixpoint col_spec_ok (below : list sseg) (col : list sseg) (op rule : Z) : bool :=
  match col with
  | [] => true
  | s :: col' =>
    (lower_of false s =? total false below) && (lower_of true s =? total true below) &&
    (if sOpen s || sVert s then true
     else if op =? 5 then sIn s =? Z.b2z (fills rule (total false below)) + Z.b2z (fills rule (total false (s :: below)))
     else sIn s =? (if Bool.eqb (bop op (fills rule (total false below)) (fills rule (total true below)))
                                 (bop op (fills rule (total false (s :: below))) (fills rule (total true (s :: below))))
                    then 0 else 1)) &&
    col_spec_ok (s :: below) col' op rule
  end.

Definition nth_seg (l : list sseg) (k : nat) : option sseg := nth_error l k.

Definition judge_col (c : colcase) : list Z :=
  let m := propagate (kSegs c) (kOp c) (kRule c) in
  let tie1 := negb (list_eqb gout_eqb (map out_of m) (kComputed c)) in
  let gsegs := map (fun so => with_out (fst so) (snd so)) (combine (kSegs c) (kComputed c)) in
  let spec := negb (col_spec_ok [] gsegs (kOp c) (kRule c)) in
  (* merge: model applied to the model's own computed column *)
  let tie2 :=
    if kMergeAt c <? 0 then false
    else
      let k := Z.to_nat (kMergeAt c) in
      match nth_error m k with
      | None => false
      | Some s =>
        let below := rev (firstn k m) in
        let '(s', merged, rest) := merge_overlapping s below (kOp c) (kRule c) in
        let nm := length merged in
        (* column after the merge, bottom-to-top: untouched rest, zeroed merged, s', segments above *)
        let after := rev rest ++ rev merged ++ s' :: skipn (S k) m in
        negb (list_eqb gout_eqb (map out_of after) (kMerged c))
      end in
  [ (if tie1 then 1 else 0) + (if tie2 then 2 else 0) + (if spec then 4 else 0);
    Z.of_nat (length (kSegs c)) ].

(* ------------------------------------------------------------------ K1: status column, merges in any order *)

Record seqcase := mkSeq {
  qOp : Z; qRule : Z; qSegs : list sseg; qMerges : list Z;
  qFinal : list gout; qPrev : list Z }.       (* Go: fields and prev index (-1 = nil) of every segment afterwards *)

(** every member of every bundle (maximal run of equal positions) occurs in the merge sequence *)
Definition in_bundle (segs : list sseg) (k : nat) : bool :=
  match nth_error segs k with
  | None => false
  | Some s =>
    (match k with O => false | S j => match nth_error segs j with Some p => sPos p =? sPos s | None => false end end) ||
    (match nth_error segs (S k) with Some n => sPos n =? sPos s | None => false end)
  end.
Definition all_merged (segs : list sseg) (ks : list nat) : bool :=
  forallb (fun k => negb (in_bundle segs k) || existsb (Nat.eqb k) ks) (seq 0 (length segs)).

(** [flags; #segments; #merges]: 1 tie fields, 2 tie prev links, 4 PROP Go's final fields violate the prefix-sum /
    region-boundary specification (judged only when every bundle member was merged and no segment is vertical or open
    and the initial otherSelf fields are zero: the setting of the theorems) *)
Definition judge_seq (c : seqcase) : list Z :=
  let m := propagate (qSegs c) (qOp c) (qRule c) in
  let ks := map Z.to_nat (qMerges c) in
  let fin := merge_seq (link m) ks (qOp c) (qRule c) in
  let tie1 := negb (list_eqb gout_eqb (map (fun x => out_of (fst x)) fin) (qFinal c)) in
  let tie2 := negb (list_eqb Z.eqb (map (fun x => match snd x with None => -1 | Some j => Z.of_nat j end) fin) (qPrev c)) in
  let clean := forallb (fun s => negb (sVert s) && negb (sOpen s) && (sOSelf s =? 0)) (qSegs c) in
  let gsegs := map (fun so => with_out (fst so) (snd so)) (combine (qSegs c) (qFinal c)) in
  let spec := clean && all_merged (qSegs c) ks && negb (col_spec_ok_ov [] gsegs (qOp c) (qRule c)) in
  (* the scan form of the merge (Bool/MergeOrder.v), which the any-order theorems are about, against Go *)
  let tie3 := negb (list_eqb gout_eqb (map out_of (mscan_seq m ks (qOp c) (qRule c))) (qFinal c)) in
  [ (if tie1 then 1 else 0) + (if tie2 then 2 else 0) + (if spec then 4 else 0) + (if tie3 then 8 else 0);
    Z.of_nat (length (qSegs c)); Z.of_nat (length ks) ].

(* ------------------------------------------------------------------ K2: end to end *)

Record bocase := mkBo {
  bOp : Z; bRule : Z;
  bP : list (list pt); bQ : list (list pt);   (* operands, flattened by Go when curved *)
  bR : list (list pt);                         (* result, coordinates rounded to the sample grid *)
  bRx : list (list pt);                        (* result, exact coordinates (finer scale), for the crossing test *)
  bG2 : Z; bT2 : Z;
  bSamples : list pt;
  bR2 : list (list pt);                        (* Settle of the result, rounded like bR (C02: idempotence) *)
  bR2x : list (list pt) }.                     (* the same, exact coordinates at the scale of bRx *)

(** per sample [flags; class]: flags 4 = region differs from the Boolean combination, 8 = winding number of
    the result not in {0,1}; class 0 = judged, 9 = skipped (closer than the guard to some edge) *)
Definition judge_sample (c : bocase) (p : pt) : list Z :=
  if negb (far_path p (bP c) (bG2 c) && far_path p (bQ c) (bG2 c) && far_path p (bR c) (bG2 c)) then [0; 9]
  else
    let expected := if bOp c =? 0 then filled (bRule c) (bP c) p else region (bOp c) (bP c) (bQ c) p in
    let w := wn (bR c) p in
    let got := fills 0 w in
    [ (if Bool.eqb expected got then 0 else 4) + (if (w =? 0) || (w =? 1) then 0 else 8);
      if expected then 1 else 0 ].

(** C02 idempotence: settling the settled path keeps the region at every guarded sample and keeps the
    canonical form: same number of contours, and every vertex of either path is within the tolerance of a
    vertex of the other.  flags: 16 region changed, 32 contour count changed, 64 vertex moved beyond tolerance *)
Definition near_some (v : pt) (vs : list pt) (t2 : Z) : bool := existsb (fun u => dist2 v u <=? t2) vs.
Definition judge_idem (c : bocase) : list Z :=
  if bT2 c <=? 0 then [0; 6]
  else
    let chg := existsb (fun p =>
      far_path p (bR c) (bG2 c) && far_path p (bR2 c) (bG2 c) &&
      negb (Bool.eqb (fills 0 (wn (bR c) p)) (fills 0 (wn (bR2 c) p)))) (bSamples c) in
    let v1 := concat (bRx c) in let v2 := concat (bR2x c) in
    let moved := negb (forallb (fun v => near_some v v2 (bT2 c)) v1 && forallb (fun v => near_some v v1 (bT2 c)) v2) in
    [ (if chg then 16 else 0) + (if Nat.eqb (length (bRx c)) (length (bR2x c)) then 0 else 32) + (if moved then 64 else 0); 6 ].

Definition judge_bo (c : bocase) : list Z :=
  flat_map (judge_sample c) (bSamples c) ++
  [ (if bT2 c <=? 0 then 0 else count_crossings (all_edges (bRx c)) (bT2 c)); 7 ] ++ judge_idem c.

(* GENERATED on every run by harness/cmd/translator from path.go (Path.FastBounds, the per-command arms of the
   switch; the arc arm uses ellipseToCenter and is outside the subset) — never edit, never commit.
   d1..d6 are the record fields p.d[i+1..i+6]; math.Min/Max -> Qmin/Qmax. *)
From Coq Require Import QArith Qminmax Qabs.
From CV Require Import Geom.Matrix.
Open Scope Q_scope.

(* path.go:1049 *)
Definition g_FastBounds_line (v_start v_end : qpt) (v_xmin v_xmax v_ymin v_ymax : Q) (d1 d2 d3 d4 d5 d6 : Q) : qpt * (Q * Q * Q * Q) :=
  let v_end := (d1, d2) in
  let v_xmin := (Qmin v_xmin (fst v_end)) in
  let v_xmax := (Qmax v_xmax (fst v_end)) in
  let v_ymin := (Qmin v_ymin (snd v_end)) in
  let v_ymax := (Qmax v_ymax (snd v_end)) in
  (v_end, (v_xmin, v_xmax, v_ymin, v_ymax)).

(* path.go:1055 *)
Definition g_FastBounds_quad (v_start v_end : qpt) (v_xmin v_xmax v_ymin v_ymax : Q) (d1 d2 d3 d4 d5 d6 : Q) : qpt * (Q * Q * Q * Q) :=
  let v_cp := (d1, d2) in
  let v_end := (d3, d4) in
  let v_xmin := (Qmin v_xmin (Qmin (fst v_cp) (fst v_end))) in
  let v_xmax := (Qmax v_xmax (Qmax (fst v_cp) (fst v_end))) in
  let v_ymin := (Qmin v_ymin (Qmin (snd v_cp) (snd v_end))) in
  let v_ymax := (Qmax v_ymax (Qmax (snd v_cp) (snd v_end))) in
  (v_end, (v_xmin, v_xmax, v_ymin, v_ymax)).

(* path.go:1062 *)
Definition g_FastBounds_cube (v_start v_end : qpt) (v_xmin v_xmax v_ymin v_ymax : Q) (d1 d2 d3 d4 d5 d6 : Q) : qpt * (Q * Q * Q * Q) :=
  let v_cp1 := (d1, d2) in
  let v_cp2 := (d3, d4) in
  let v_end := (d5, d6) in
  let v_xmin := (Qmin v_xmin (Qmin (fst v_cp1) (Qmin (fst v_cp2) (fst v_end)))) in
  let v_xmax := (Qmax v_xmax (Qmax (fst v_cp1) (Qmax (fst v_cp2) (fst v_end)))) in
  let v_ymin := (Qmin v_ymin (Qmin (snd v_cp1) (Qmin (snd v_cp2) (snd v_end)))) in
  let v_ymax := (Qmax v_ymax (Qmax (snd v_cp1) (Qmax (snd v_cp2) (snd v_end)))) in
  (v_end, (v_xmin, v_xmax, v_ymin, v_ymax)).


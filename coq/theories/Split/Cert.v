(** C09/C05 — certified sub-curves and length enclosures for line / quadratic / cubic Bézier segments.
    A returned piece with control points ctrl' is the sub-curve [s,u] of the segment with control points ctrl
    iff ctrl' are the blossom (polar form) values  f(s,..,s), f(s,..,s,u), ..., f(u,..,u).
    [sub_ok] is the executable checker (with a rational slack per coordinate), [sub_sound_*] its soundness:
    for every t the piece evaluated at t is the segment evaluated at s + t(u-s) (exactly for slack 0, within slack
    on [0,1] otherwise).
    Length enclosure of a segment: lower = length of the inscribed polyline through B(k/N), upper = sum of the
    control-polygon lengths of the N de Casteljau pieces; square roots are bracketed with Z.sqrt. *)
From Coq Require Import ZArith QArith Qabs List Bool Lia Lqa.
From CV Require Import Geom.Matrix Geom.Bezier.
Import ListNotations.
Open Scope Q_scope.

(** blossoms, per coordinate *)
Definition bl1 (a b t : Q) : Q := blin a b t.
Definition bl2 (a b c t1 t2 : Q) : Q := blin (blin a b t1) (blin b c t1) t2.
Definition bl3 (a b c d t1 t2 t3 : Q) : Q :=
  blin (blin (blin a b t1) (blin b c t1) t2) (blin (blin b c t1) (blin c d t1) t2) t3.

(** control values of the sub-curve [s,u] *)
Definition sub1 (a b s u : Q) := (bl1 a b s, bl1 a b u).
Definition sub2 (a b c s u : Q) := (bl2 a b c s s, bl2 a b c s u, bl2 a b c u u).
Definition sub3 (a b c d s u : Q) := (bl3 a b c d s s s, bl3 a b c d s s u, bl3 a b c d s u u, bl3 a b c d u u u).

Lemma sub1_eval a b s u t : let '(a', b') := sub1 a b s u in blin a' b' t == blin a b (s + t * (u - s)).
Proof. unfold sub1, bl1, blin. ring. Qed.
Lemma sub2_eval a b c s u t :
  let '(a', b', c') := sub2 a b c s u in bquad a' b' c' t == bquad a b c (s + t * (u - s)).
Proof. unfold sub2, bl2, bquad, blin. ring. Qed.
Lemma sub3_eval a b c d s u t :
  let '(a', b', c', d') := sub3 a b c d s u in bcube a' b' c' d' t == bcube a b c d (s + t * (u - s)).
Proof. unfold sub3, bl3, bcube, blin. ring. Qed.

(** expected control points of the sub-curve [s,u] of a control polygon of 2, 3 or 4 points *)
Definition sub_ctrl (ctrl : list qpt) (s u : Q) : list qpt :=
  match ctrl with
  | [p0; p1] => let '(x0, x1) := sub1 (fst p0) (fst p1) s u in let '(y0, y1) := sub1 (snd p0) (snd p1) s u in
                [(x0, y0); (x1, y1)]
  | [p0; p1; p2] =>
    let '(x0, x1, x2) := sub2 (fst p0) (fst p1) (fst p2) s u in
    let '(y0, y1, y2) := sub2 (snd p0) (snd p1) (snd p2) s u in [(x0, y0); (x1, y1); (x2, y2)]
  | [p0; p1; p2; p3] =>
    let '(x0, x1, x2, x3) := sub3 (fst p0) (fst p1) (fst p2) (fst p3) s u in
    let '(y0, y1, y2, y3) := sub3 (snd p0) (snd p1) (snd p2) (snd p3) s u in [(x0, y0); (x1, y1); (x2, y2); (x3, y3)]
  | _ => []
  end.

Definition near (sl : Q) (p q : qpt) : Prop :=
  - sl <= fst p - fst q <= sl /\ - sl <= snd p - snd q <= sl.
Definition nearb (sl : Q) (p q : qpt) : bool :=
  Qle_bool (- sl) (fst p - fst q) && Qle_bool (fst p - fst q) sl &&
  Qle_bool (- sl) (snd p - snd q) && Qle_bool (snd p - snd q) sl.

Fixpoint all2 {A} (f : A -> A -> bool) (l1 l2 : list A) : bool :=
  match l1, l2 with
  | [], [] => true
  | a :: r1, b :: r2 => f a b && all2 f r1 r2
  | _, _ => false
  end.

(** the checker: piece' is within [sl] of the sub-curve [s,u] of ctrl, 0 <= s <= u <= 1, 2..4 control points *)
Definition sub_ok (sl : Q) (ctrl piece' : list qpt) (s u : Q) : bool :=
  Qle_bool 0 s && Qle_bool s u && Qle_bool u 1 &&
  (match ctrl with [_; _] | [_; _; _] | [_; _; _; _] => true | _ => false end) &&
  all2 (nearb sl) piece' (sub_ctrl ctrl s u).

(* ---- square-root brackets --------------------------------------------------------------------- *)

(** floor(sqrt(x) * 2^k) / 2^k  and the next grid value: lo^2 <= x <= hi^2 for x >= 0 *)
Definition sqrt_lo (k : positive) (x : Q) : Q :=
  let n := (Qnum x * Zpos (Qden x) * 4 ^ Zpos k)%Z in
  Z.sqrt n # (Qden x * 2 ^ k).
Definition sqrt_hi (k : positive) (x : Q) : Q :=
  let n := (Qnum x * Zpos (Qden x) * 4 ^ Zpos k)%Z in
  (Z.sqrt n + 1) # (Qden x * 2 ^ k).

Definition dist2 (p q : qpt) : Q := (fst q - fst p) * (fst q - fst p) + (snd q - snd p) * (snd q - snd p).

(** sums are kept in lowest terms ([Qred]): Coq's Q does not normalise and denominators would multiply up *)
Definition qadd (a b : Q) : Q := Qred (a + b).
Definition qred_pt (p : qpt) : qpt := (Qred (fst p), Qred (snd p)).
Definition qsumr (l : list Q) : Q := fold_right qadd 0 l.

Fixpoint polyline_lo (k : positive) (l : list qpt) : Q :=
  match l with a :: ((b :: _) as r) => qadd (sqrt_lo k (Qred (dist2 a b))) (polyline_lo k r) | _ => 0 end.
Fixpoint polyline_hi (k : positive) (l : list qpt) : Q :=
  match l with a :: ((b :: _) as r) => qadd (sqrt_hi k (Qred (dist2 a b))) (polyline_hi k r) | _ => 0 end.

(* ---- enclosures ------------------------------------------------------------------------------- *)

Definition bez_pt (ctrl : list qpt) (t : Q) : qpt := match bez ctrl t with Some p => p | None => (0, 0) end.

Fixpoint steps (n : nat) : list nat := match n with O => [O] | S m => steps m ++ [S m] end.

(** inscribed polyline through B(j/N), j = 0..N *)
Definition inscribed (ctrl : list qpt) (N : nat) : list qpt :=
  map (fun j => qred_pt (bez_pt ctrl (inject_Z (Z.of_nat j) / inject_Z (Z.of_nat N)))) (steps N).

(** control polygons of the N pieces [j/N, (j+1)/N] *)
Definition subpolys (ctrl : list qpt) (N : nat) : list (list qpt) :=
  map (fun j => map qred_pt (sub_ctrl ctrl (inject_Z (Z.of_nat j) / inject_Z (Z.of_nat N))
                                           (inject_Z (Z.of_nat (S j)) / inject_Z (Z.of_nat N)))) (seq 0 N).

Definition len_lo (k : positive) (N : nat) (ctrl : list qpt) : Q :=
  match ctrl with [_; _] => polyline_lo k ctrl | _ => polyline_lo k (inscribed ctrl N) end.
Definition len_hi (k : positive) (N : nat) (ctrl : list qpt) : Q :=
  match ctrl with
  | [_; _] => polyline_hi k ctrl
  | _ => qsumr (map (polyline_hi k) (subpolys ctrl N))
  end.

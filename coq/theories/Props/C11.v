(** C11 — Textual path formats round-trip and parsers never panic.
    Property theorems only; each is closed by [exact] of a lemma proved elsewhere. *)
From Coq Require Import ZArith QArith List Bool.
From CV Require Import Formats.Decimal.
Import ListNotations.

(** the numeral reader never reports a length beyond its input (the fact ParseSVGPath's index arithmetic rests on) *)
Theorem C11_parse_float_len : forall b, (pf_len (parse_float b) <= length b)%nat.
Proof. exact parse_float_len. Qed.
Print Assumptions C11_parse_float_len.

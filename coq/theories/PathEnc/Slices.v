(** C10 — a small model of Go slices, for the aliasing half of the property: "methods documented as returning a new path
    leave the receiver and the arguments unchanged".  Path.Split (path.go) returns the subpaths as views p.d[i:j:j] of the
    receiver's own array: the third index limits the capacity to the length, so that a later append to a subpath must
    allocate and cannot write into the cells of the following subpath.  Path.replace and Path.Join rely on the same device.

    A heap is a list of arrays; a slice is (array, offset, length, capacity).  [append] follows the Go specification:
    when the capacity suffices the new elements are written in place behind the length, otherwise a new array is
    allocated (its spare capacity is irrelevant here: a fixed 0 is used for the growth).  Definitions only. *)
From Coq Require Import List Arith Bool QArith.
Import ListNotations.
Local Open Scope nat_scope.

Definition heap := list (list Q).
Record slice := mkSl { s_arr : nat; s_off : nat; s_len : nat; s_cap : nat }.

Definition arr (h : heap) (a : nat) : list Q := nth a h [].
(** the cells visible through the slice *)
Definition view (h : heap) (s : slice) : list Q := firstn (s_len s) (skipn (s_off s) (arr h (s_arr s))).
Definition wfs (h : heap) (s : slice) : Prop :=
  s_arr s < length h /\ s_len s <= s_cap s /\ s_off s + s_cap s <= length (arr h (s_arr s)).

(** s[i:j] keeps the capacity up to the end of s's capacity; s[i:j:k] limits it to k - i *)
Definition sub2 (s : slice) (i j : nat) : slice := mkSl (s_arr s) (s_off s + i) (j - i) (s_cap s - i).
Definition sub3 (s : slice) (i j k : nat) : slice := mkSl (s_arr s) (s_off s + i) (j - i) (k - i).

(** overwrite l from position pos with xs (as far as l reaches) *)
Fixpoint write_at (l : list Q) (pos : nat) (xs : list Q) : list Q :=
  match l, pos with
  | [], _ => []
  | y :: r, S p => y :: write_at r p xs
  | y :: r, O => match xs with [] => l | x :: xs' => x :: write_at r O xs' end
  end.
Fixpoint set_arr (h : heap) (a : nat) (l : list Q) : heap :=
  match h, a with
  | [], _ => []
  | _ :: r, O => l :: r
  | y :: r, S b => y :: set_arr r b l
  end.

Definition append (h : heap) (s : slice) (xs : list Q) : heap * slice :=
  if s_len s + length xs <=? s_cap s
  then (set_arr h (s_arr s) (write_at (arr h (s_arr s)) (s_off s + s_len s) xs),
        mkSl (s_arr s) (s_off s) (s_len s + length xs) (s_cap s))
  else (h ++ [view h s ++ xs], mkSl (length h) 0 (s_len s + length xs) (s_len s + length xs)).

(** Path.Split: the subpaths of a path whose data occupies s, cut at the given increasing boundaries 0 = b0 < b1 < ... <= len;
    [limited] = true is the code (d[i:j:j]), false the variant without the third index (d[i:j]) *)
Fixpoint split_at (limited : bool) (s : slice) (bounds : list nat) : list slice :=
  match bounds with
  | i :: ((j :: _) as r) => (if limited then sub3 s i j j else sub2 s i j) :: split_at limited s r
  | _ => []
  end.

(** Correspondence judge for C04 (Stroke, Offset): the implementation's output region (flattened by Go at a
    tolerance that is part of the margin) is judged at sample points classified by their EXACT distance to
    the input polyline. *)
From Coq Require Import ZArith List Bool.
From CV Require Import Geom.Winding Bool.Check Stroke.Dist.
Import ListNotations.
Open Scope Z_scope.

Record scase := mkSC {
  sClosed : bool; sPath : list pt;
  sCap : Z;        (* 0 butt, 1 round, 2 square *)
  sJoin : Z;       (* 0 bevel, 1 round, 2 miter, 3 miter-clip, 4 arcs, 5 arcs-clip *)
  sIn2 : Z;        (* (hw - margin)^2 *)
  sOut2 : Z;       (* (hw + margin)^2 *)
  sJoinZone2 : Z;  (* (limit*hw + margin)^2 for miter-type joins, else 0 *)
  sCapZone2 : Z;   (* (sqrt2*hw + margin)^2 for square caps, else 0 *)
  sM2 : Z;         (* margin^2 *)
  sHw2 : Z;        (* hw^2 *)
  sClipZone2 : Z;  (* (sqrt((limit*hw)^2 + hw^2) + margin)^2 for clipped miter/arcs joins, else 0 *)
  sR : list (list pt);
  sSamples : list pt }.

Definition interior_vertices (closed : bool) (c : list pt) : list pt :=
  if closed then c else removelast (tl c).
Definition end_vertices (closed : bool) (c : list pt) : list pt :=
  if closed then [] else match c with [] => [] | v :: _ => [v; last c v] end.

Definition near_any (p : pt) (vs : list pt) (t2 : Z) : bool := existsb (fun v => dist2 p v <? t2) vs.

(** per sample [flags; class]
    flags: 4 = a point closer than hw - margin to the path is not filled; 8 = a point farther than hw + margin,
           outside every join/cap zone, is filled; 16 = corner point (closest to an interior vertex only) not
           filled under a non-round join (bevel semantics)
    class: 0 in the margin band (skipped), 1 inner judged (inside a segment's slab), 2 outer judged,
           3 inner corner/cap judged, 5 corner under a non-round join, 6 beyond a butt cut (skipped),
           7 outer but inside a join/cap zone (skipped), 8 outer inside the corner radius of a clipped miter *)
Definition seg_len2 (e : pt * pt) : Z := dist2 (fst e) (snd e).

(** flags 32 = outer point filled, farther than limit*hw from every vertex but within the corner radius of a
    CLIPPED miter (the clip line is at limit*hw along the bisector, its corners lie beyond that radius);
    64 (added to 4) = the path has a segment shorter than hw *)
Definition judge_sample (c : scase) (p : pt) : list Z :=
  let es := path_edges (sClosed c) (sPath c) in
  let filled := fills 0 (wn (sR c) p) in
  let short := existsb (fun e => seg_len2 e <? sHw2 c) es in
  let miss := if short then 4 + 64 else 4 in
  if near_path p es (sIn2 c) then
    if slab_path p es (sIn2 c) (sM2 c) then [ (if filled then 0 else miss); 1 ]
    else
      let nearI := near_any p (interior_vertices (sClosed c) (sPath c)) (sIn2 c) in
      let nearE := near_any p (end_vertices (sClosed c) (sPath c)) (sIn2 c) in
      if nearE && negb nearI then
        (if sCap c =? 0 then [0; 6] else [ (if filled then 0 else miss); 3 ])
      else if sJoin c =? 1 then [ (if filled then 0 else miss); 3 ]
      else [ (if filled then 0 else 16); 5 ]
  else if far_edges p es (sOut2 c) then
    let iv := interior_vertices (sClosed c) (sPath c) in
    let allowed :=
      ((0 <? sJoinZone2 c) && near_any p iv (sJoinZone2 c)) ||
      ((0 <? sCapZone2 c) && near_any p (end_vertices (sClosed c) (sPath c)) (sCapZone2 c)) in
    if allowed then [0; 7]
    else if (0 <? sClipZone2 c) && near_any p iv (sClipZone2 c) then [ (if filled then 32 else 0); 8 ]
    else [ (if filled then 8 else 0); 2 ]
  else [0; 0].

Definition judge (c : scase) : list Z := flat_map (judge_sample c) (sSamples c).

(** Offset of a closed contour by d (moves the boundary to the right-hand side): expected region
      grow  (CCW, d > 0 / CW, d < 0):  inside P  or  dist < |d|
      shrink(CCW, d < 0 / CW, d > 0):  inside P and dist > |d|  *)
Record ocase := mkOC {
  oPath : list pt; oGrow : bool; oIn2 : Z; oOut2 : Z; oR : list (list pt); oSamples : list pt }.

Definition judge_osample (c : ocase) (p : pt) : list Z :=
  let es := edges (oPath c) in
  let inside := negb (wn [oPath c] p =? 0) in
  let filled := negb (wn (oR c) p =? 0) in
  let near := near_path p es (oIn2 c) in
  let far := far_edges p es (oOut2 c) in
  if oGrow c then
    if (inside && far) || near then [ (if filled then 0 else 4); 1 ]      (* must be covered *)
    else if negb inside && far then [ (if filled then 8 else 0); 2 ]
    else [0; 0]
  else
    if inside && far then [ (if filled then 0 else 4); 1 ]
    else if negb inside && far || near then [ (if filled then 8 else 0); 2 ]
    else [0; 0].

(** the region formula is for simple contours: a contour with two properly crossing edges is skipped
    (class 9, counted) *)
Definition judge_o (c : ocase) : list Z :=
  if 0 <? count_crossings (edges (oPath c)) 0 then flat_map (fun _ => [0; 9]) (oSamples c)
  else flat_map (judge_osample c) (oSamples c).

(** Offset of a path of several closed contours (a plate with a hole: every contour is moved to its own right-hand side): with
    F = the region filled under the non-zero rule, grow: F or dist < |d|; shrink: F and dist > |d| (distance to all edges) *)
Record ocase2 := mkOC2 {
  o2Paths : list (list pt); o2Grow : bool; o2In2 : Z; o2Out2 : Z; o2R : list (list pt); o2Samples : list pt }.

Definition judge_o2sample (c : ocase2) (p : pt) : list Z :=
  let es := flat_map edges (o2Paths c) in
  let inside := negb (wn (o2Paths c) p =? 0) in
  let filled := negb (wn (o2R c) p =? 0) in
  let near := near_path p es (o2In2 c) in
  let far := far_edges p es (o2Out2 c) in
  if o2Grow c then
    if (inside && far) || near then [ (if filled then 0 else 4); 1 ]
    else if negb inside && far then [ (if filled then 8 else 0); 2 ]
    else [0; 0]
  else
    if inside && far then [ (if filled then 0 else 4); 1 ]
    else if negb inside && far || near then [ (if filled then 8 else 0); 2 ]
    else [0; 0].

Definition judge_o2 (c : ocase2) : list Z :=
  if 0 <? count_crossings (flat_map edges (o2Paths c)) 0 then flat_map (fun _ => [0; 9]) (o2Samples c)
  else flat_map (judge_o2sample c) (o2Samples c).

Inductive ocasex := O1 (c : ocase) | O2 (c : ocase2).
Definition judge_ox (c : ocasex) : list Z := match c with O1 k => judge_o k | O2 k => judge_o2 k end.

(** Object-table bookkeeping of renderers/pdf/writer.go (C13).

    The writer keeps [pos] (bytes written so far), [objOffsets] (entry k-1 = byte offset of object k) and
    [pages].  Objects 1,2,3 (catalog, info, page tree) are reserved by [newPDFWriter] (objOffsets = [0;0;0]) and
    written by [Close]; an embedded font reserves its number in [getFont] (append 0) and is written by
    [writeFont] from [Close] (after its ToUnicode / font-file / CIDToGIDMap objects, which take fresh numbers);
    everything else goes through [writeObject] (append pos, print "k 0 obj ...").

    Byte lengths of the printed objects are inputs of the model: [lens] is consumed one entry per printed object,
    in printing order.  The model records every printed object header in [wr] as (number, position, kind). *)
From Coq Require Import ZArith List Bool Lia.
Import ListNotations.
Open Scope Z_scope.

Inductive kind := KObj | KContent | KPage | KFont | KCatalog | KInfo | KPages.

Definition kind_eqb (a b : kind) : bool :=
  match a, b with
  | KObj, KObj | KContent, KContent | KPage, KPage | KFont, KFont
  | KCatalog, KCatalog | KInfo, KInfo | KPages, KPages => true
  | _, _ => false
  end.

Record st := mkSt {
  pos : Z;
  offs : list Z;                   (* objOffsets *)
  wr : list (Z * Z * kind);        (* printed object headers: number, position, kind — ghost *)
  resH : list (Z * bool);          (* fontsH in ref order: ref, has a font-file object *)
  resV : list (Z * bool);          (* fontsV in ref order *)
  pages : list Z;                  (* w.pages *)
  havePage : bool;                 (* w.page != nil *)
  lens : list Z                    (* remaining byte lengths (input) *)
}.

Definition nobj (s : st) : Z := Z.of_nat (length (offs s)).
Definition num (e : Z * Z * kind) : Z := fst (fst e).
Definition epos (e : Z * Z * kind) : Z := snd (fst e).
Definition ekind (e : Z * Z * kind) : kind := snd e.
Definition nums (s : st) : list Z := map num (wr s).

Fixpoint upd (i : nat) (v : Z) (l : list Z) : list Z :=
  match l, i with
  | [], _ => []
  | _ :: t, O => v :: t
  | h :: t, S j => h :: upd j v t
  end.

(** writeObject: objOffsets = append(objOffsets, pos); print "len(objOffsets) 0 obj ... endobj" *)
Definition p_write (k : kind) (s : st) : st :=
  mkSt (pos s + hd 0 (lens s)) (offs s ++ [pos s]) (wr s ++ [(nobj s + 1, pos s, k)])
       (resH s) (resV s) (pages s) (havePage s) (tl (lens s)).

(** getFont (embedded font, first use): objOffsets = append(objOffsets, 0) *)
Definition p_reserve (s : st) : st :=
  mkSt (pos s) (offs s ++ [0]) (wr s) (resH s) (resV s) (pages s) (havePage s) (lens s).

(** objOffsets[n-1] = pos; print "n 0 obj ... endobj"  (writeFont tail; catalog, info, page tree in Close) *)
Definition p_fill (n : Z) (k : kind) (s : st) : st :=
  mkSt (pos s + hd 0 (lens s)) (upd (Z.to_nat (n - 1)) (pos s) (offs s)) (wr s ++ [(n, pos s, k)])
       (resH s) (resV s) (pages s) (havePage s) (tl (lens s)).

(** writePage: content stream object, page object; the page's ref is appended to w.pages by the caller *)
Definition write_page (s : st) : st :=
  let s2 := p_write KPage (p_write KContent s) in
  mkSt (pos s2) (offs s2) (wr s2) (resH s2) (resV s2) (pages s2 ++ [nobj s2]) (havePage s2) (lens s2).

Definition set_page (s : st) : st :=
  mkSt (pos s) (offs s) (wr s) (resH s) (resV s) (pages s) true (lens s).

Definition add_res (v : bool) (r : Z * bool) (s : st) : st :=
  if v then mkSt (pos s) (offs s) (wr s) (resH s) (resV s ++ [r]) (pages s) (havePage s) (lens s)
  else mkSt (pos s) (offs s) (wr s) (resH s ++ [r]) (resV s) (pages s) (havePage s) (lens s).

(** what the renderer makes the writer do *)
Inductive op :=
| OWrite                              (* any writeObject *)
| ONewPage                            (* pdfWriter.NewPage: closes the current page if there is one *)
| OImage (mask : bool)                (* embedImage of a new image: SMask object (if any alpha), image object *)
| OFontStd                            (* getFont of a new standard-14 font: writeObject immediately *)
| OFontRes (vertical hasfile : bool). (* getFont of a new embedded font: reserve *)

Definition step (s : st) (o : op) : st :=
  match o with
  | OWrite => p_write KObj s
  | ONewPage => set_page (if havePage s then write_page s else s)
  | OImage m => p_write KObj (if m then p_write KObj s else s)
  | OFontStd => p_write KObj s
  | OFontRes v f => let s1 := p_reserve s in add_res v (nobj s1, f) s1
  end.

(** writeFont: ToUnicode stream, font file (TrueType or CFF), CIDToGIDMap (only without subsetting), then the
    reserved Type0 font dictionary *)
Definition write_font (subset : bool) (s : st) (r : Z * bool) : st :=
  let s1 := p_write KObj s in
  let s2 := if snd r then p_write KObj s1 else s1 in
  let s3 := if subset then s2 else p_write KObj s2 in
  p_fill (fst r) KFont s3.

Record closed := mkClosed {
  cXrefPos : Z;        (* value printed after startxref *)
  cTable : list Z;     (* the n-entries of the xref table, entry k-1 for object k *)
  cSize : Z;           (* xref subsection count and trailer /Size *)
  cKids : list Z;      (* /Kids of the page tree *)
  cCount : Z;          (* /Count *)
  cWr : list (Z * Z * kind)
}.

Definition close_st (subset : bool) (s : st) : st :=
  let s0 := if havePage s then write_page s else s in
  let s1 := fold_left (write_font subset) (resH s0) s0 in
  let s2 := fold_left (write_font subset) (resV s0) s1 in
  p_fill 3 KPages (p_fill 2 KInfo (p_fill 1 KCatalog s2)).

Definition close (subset : bool) (s : st) : closed :=
  let f := close_st subset s in
  mkClosed (pos f) (offs f) (nobj f + 1) (pages f) (Z.of_nat (length (pages f))) (wr f).

(** newPDFWriter: header of [hl] bytes, objOffsets = [0;0;0] *)
Definition init (hl : Z) (ls : list Z) : st := mkSt hl [0; 0; 0] [] [] [] [] false ls.

Definition run (hl : Z) (ls : list Z) (ops : list op) : st := fold_left step ops (init hl ls).

Definition run_doc (hl : Z) (ls : list Z) (ops : list op) (subset : bool) : closed :=
  close subset (run hl ls ops).

Definition is_newpage (o : op) : bool := match o with ONewPage => true | _ => false end.
Definition is_page_ev (e : Z * Z * kind) : bool := kind_eqb (ekind e) KPage.

#!/bin/bash
# usage: tools/harness_coverage.sh [Cxx ...]      (development aid, not a registered check)
# Runs the quick tier of the named checks (default: all) with coverage-instrumented harness binaries and lists the functions of the
# library that no harness reached.  Evidence and replays of these runs go to a scratch directory.
cd /verif
D=/tmp/verif-cover; rm -rf $D; mkdir -p $D/cov $D/ev
ids="$@"; [ -z "$ids" ] && ids=$(cat claimed.txt)
for c in $ids; do
  VERIF_COVERDIR=$D/cov VERIF_EVIDENCE_DIR=$D/ev VERIF_REPLAY_DIR=$D/ev ./check $c > $D/$c.txt 2>&1
  tail -1 $D/$c.txt
done
export GOFLAGS=-mod=mod GOPROXY=off
go tool covdata func -i=$D/cov > $D/func.txt 2>$D/err.txt
grep -v "100.0%" $D/func.txt | awk '$NF=="0.0%"' | sed 's#github.com/tdewolff/canvas/##' > $D/unreached.txt
wc -l $D/func.txt $D/unreached.txt

(** Elliptical arcs in implicit (conic) form over Q, their transport under an affine map, and the
    orientation (sweep) predicate.  No square roots or trigonometry: an ellipse is a centre and a quadratic
    form, an arc is an ellipse plus start/end points and a direction; rotations are given by (cos, sin)
    pairs constrained by c*c + s*s == 1. *)
From Coq Require Import QArith Qfield Lqa Bool.
From CV Require Import Geom.Matrix Geom.MatrixProofs.
Open Scope Q_scope.

(** quadratic form  A x^2 + 2 B x y + C y^2 *)
Record conic := mkC { qA : Q; qB : Q; qC : Q }.
Definition qf (k : conic) (w : qpt) : Q :=
  qA k * (fst w * fst w) + 2 * qB k * (fst w * snd w) + qC k * (snd w * snd w).
Definition on_conic (c : qpt) (k : conic) (X : qpt) : Prop := qf k (qsub X c) == 1.
Definition ceq (k k' : conic) : Prop := qA k == qA k' /\ qB k == qB k' /\ qC k == qC k'.

Lemma qf_compat k w w' : pteq w w' -> qf k w == qf k w'.
Proof. intros [H1 H2]. unfold qf. rewrite H1, H2. reflexivity. Qed.

(** the ellipse with radii rx, ry whose major axis direction is (cs, sn) — Q0 = R diag(1/rx^2,1/ry^2) R^T *)
Definition ellipse_conic (rx ry cs sn : Q) : conic :=
  mkC (cs * cs / (rx * rx) + sn * sn / (ry * ry))
      (cs * sn / (rx * rx) - cs * sn / (ry * ry))
      (sn * sn / (rx * rx) + cs * cs / (ry * ry)).

(** the centre parametrisation used by the Go code (EllipsePos): c + R (rx u, ry v) with (u,v) on the unit circle *)
Definition ellipse_pos (rx ry cs sn : Q) (c : qpt) (u v : Q) : qpt :=
  (fst c + rx * u * cs - ry * v * sn, snd c + rx * u * sn + ry * v * cs).

Lemma ellipse_pos_on rx ry cs sn c u v :
  ~ rx == 0 -> ~ ry == 0 -> cs * cs + sn * sn == 1 -> u * u + v * v == 1 ->
  on_conic c (ellipse_conic rx ry cs sn) (ellipse_pos rx ry cs sn c u v).
Proof.
  intros Hx Hy Hc Hu. unfold on_conic, qf, ellipse_conic, ellipse_pos, qsub; cbn [qA qB qC fst snd].
  transitivity ((cs * cs + sn * sn) * (cs * cs + sn * sn) * (u * u + v * v)).
  - field. split; assumption.
  - rewrite Hc, Hu. ring.
Qed.

Example ellipse_pos_on_ex : on_conic (1, 2) (ellipse_conic 10 5 (3#5) (4#5)) (ellipse_pos 10 5 (3#5) (4#5) (1, 2) (5#13) (12#13)).
Proof. apply ellipse_pos_on; try (intro H; discriminate H); reflexivity. Qed.

(** division-free residual in the ellipse's own frame (used by the executable checkers: all denominators stay
    powers of two): resid = (qf - 1) * rx^2 ry^2 *)
Definition frame (cs sn : Q) (w : qpt) : qpt := (cs * fst w + sn * snd w, cs * snd w - sn * fst w).
Definition ell_resid (rx ry cs sn : Q) (w : qpt) : Q :=
  let f := frame cs sn w in
  fst f * fst f * (ry * ry) + snd f * snd f * (rx * rx) - rx * rx * (ry * ry).

Lemma ell_resid_eq rx ry cs sn w :
  ~ rx == 0 -> ~ ry == 0 ->
  ell_resid rx ry cs sn w == (qf (ellipse_conic rx ry cs sn) w - 1) * (rx * rx * (ry * ry)).
Proof.
  intros Hx Hy. unfold ell_resid, frame, qf, ellipse_conic; cbn [qA qB qC fst snd]. field. split; assumption.
Qed.

Lemma ell_resid_zero rx ry cs sn c X :
  ~ rx == 0 -> ~ ry == 0 ->
  (ell_resid rx ry cs sn (qsub X c) == 0 <-> on_conic c (ellipse_conic rx ry cs sn) X).
Proof.
  intros Hx Hy. unfold on_conic. rewrite (ell_resid_eq _ _ _ _ _ Hx Hy).
  assert (N : ~ rx * rx * (ry * ry) == 0).
  { intro C. apply Qmult_integral in C as [C|C]; apply Qmult_integral in C as [C|C]; contradiction. }
  split; intro H.
  - apply Qmult_integral in H as [H|H]; [lra|contradiction].
  - rewrite H. ring.
Qed.

(** full extent of the ellipse (Bounds uses dx = sqrt(rx^2 cos^2 + ry^2 sin^2), dy likewise): every point of
    the ellipse has |x - cx|^2 <= rx^2 cs^2 + ry^2 sn^2 (Cauchy–Schwarz), and |y - cy|^2 <= rx^2 sn^2 + ry^2 cs^2 *)
Lemma ellipse_extent_x rx ry cs sn c u v :
  u * u + v * v == 1 ->
  let X := ellipse_pos rx ry cs sn c u v in
  (fst X - fst c) * (fst X - fst c) <= rx * rx * (cs * cs) + ry * ry * (sn * sn).
Proof.
  intros Hu. cbn zeta. unfold ellipse_pos; cbn [fst snd].
  assert (E : rx * rx * (cs * cs) + ry * ry * (sn * sn)
              - (fst c + rx * u * cs - ry * v * sn - fst c) * (fst c + rx * u * cs - ry * v * sn - fst c)
              == (rx * cs * v + ry * sn * u) * (rx * cs * v + ry * sn * u)).
  { transitivity ((rx * rx * (cs * cs) + ry * ry * (sn * sn)) * (u * u + v * v)
                  - (rx * u * cs - ry * v * sn) * (rx * u * cs - ry * v * sn)); [rewrite Hu; ring|ring]. }
  assert (S : 0 <= (rx * cs * v + ry * sn * u) * (rx * cs * v + ry * sn * u)).
  { destruct (Qlt_le_dec (rx * cs * v + ry * sn * u) 0) as [N|P].
    - setoid_replace ((rx * cs * v + ry * sn * u) * (rx * cs * v + ry * sn * u))
        with ((- (rx * cs * v + ry * sn * u)) * (- (rx * cs * v + ry * sn * u))) by ring.
      apply Qmult_le_0_compat; lra.
    - apply Qmult_le_0_compat; assumption. }
  lra.
Qed.

Lemma ellipse_extent_y rx ry cs sn c u v :
  u * u + v * v == 1 ->
  let X := ellipse_pos rx ry cs sn c u v in
  (snd X - snd c) * (snd X - snd c) <= rx * rx * (sn * sn) + ry * ry * (cs * cs).
Proof.
  intros Hu. cbn zeta. unfold ellipse_pos; cbn [fst snd].
  assert (E : rx * rx * (sn * sn) + ry * ry * (cs * cs)
              - (snd c + rx * u * sn + ry * v * cs - snd c) * (snd c + rx * u * sn + ry * v * cs - snd c)
              == (rx * sn * v - ry * cs * u) * (rx * sn * v - ry * cs * u)).
  { transitivity ((rx * rx * (sn * sn) + ry * ry * (cs * cs)) * (u * u + v * v)
                  - (rx * u * sn + ry * v * cs) * (rx * u * sn + ry * v * cs)); [rewrite Hu; ring|ring]. }
  assert (S : 0 <= (rx * sn * v - ry * cs * u) * (rx * sn * v - ry * cs * u)).
  { destruct (Qlt_le_dec (rx * sn * v - ry * cs * u) 0) as [N|P].
    - setoid_replace ((rx * sn * v - ry * cs * u) * (rx * sn * v - ry * cs * u))
        with ((- (rx * sn * v - ry * cs * u)) * (- (rx * sn * v - ry * cs * u))) by ring.
      apply Qmult_le_0_compat; lra.
    - apply Qmult_le_0_compat; assumption. }
  lra.
Qed.

(** transport of a quadratic form by the inverse i of the map: w |-> Q (i w), i.e. Q' = i^T Q i.
    (Path.Transform computes  invT.T().Mul(Q).Mul(invT).) *)
Definition conic_pull (i : mat) (k : conic) : conic :=
  mkC (qA k * (ma i * ma i) + 2 * qB k * (ma i * md i) + qC k * (md i * md i))
      (qA k * (ma i * mb i) + qB k * (ma i * me i + mb i * md i) + qC k * (md i * me i))
      (qA k * (mb i * mb i) + 2 * qB k * (mb i * me i) + qC k * (me i * me i)).

Lemma qf_pull i k w : qf (conic_pull i k) w == qf k (mvec i w).
Proof. unfold qf, conic_pull, mvec; cbn [qA qB qC fst snd]. ring. Qed.

(** the matrix expression of the Go code has conic_pull as its 2x2 part (and is symmetric) *)
Definition conic_mat (k : conic) : mat := mkM (qA k) (qB k) 0 (qB k) (qC k) 0.
Lemma conic_pull_as_mul i k :
  meq (mlin (mmul (mmul (mT i) (conic_mat k)) i)) (conic_mat (conic_pull i k)).
Proof. unfold mlin, conic_mat, conic_pull; munfold; cbn [qA qB qC]. repeat split; ring. Qed.

Lemma mvec_compat m u u' : pteq u u' -> pteq (mvec m u) (mvec m u').
Proof. intros [H1 H2]. unfold mvec, pteq; cbn [fst snd]. rewrite H1, H2. split; reflexivity. Qed.

Lemma mvec_inv m i u : minv m = Some i -> pteq (mvec i (mvec m u)) u.
Proof.
  intro H. pose proof (inv_left _ _ H) as L. revert L. unfold mvec. munfold.
  intros (A & B & C & D & E & F). split.
  - transitivity ((ma i * ma m + mb i * md m) * fst u + (ma i * mb m + mb i * me m) * snd u); [ring|].
    rewrite A, B. ring.
  - transitivity ((md i * ma m + me i * md m) * fst u + (md i * mb m + me i * me m) * snd u); [ring|].
    rewrite D, E. ring.
Qed.

(** conic_transport: X lies on the ellipse (c, Q) iff m X lies on (m c, i^T Q i) *)
Theorem conic_transport m i c k X :
  minv m = Some i -> (on_conic c k X <-> on_conic (mdot m c) (conic_pull i k) (mdot m X)).
Proof.
  intro H. unfold on_conic.
  assert (E : qf (conic_pull i k) (qsub (mdot m X) (mdot m c)) == qf k (qsub X c)).
  { rewrite qf_pull. apply qf_compat.
    eapply pteq_trans; [apply mvec_compat, sub_dot|]. apply mvec_inv; exact H. }
  rewrite E. tauto.
Qed.

(** ------------------------------------------------------------------------------------------------
    direction: the angular span of an arc, by orientation predicates around the centre.
    u, v, w are the vectors centre->start, centre->end, centre->X.  ccw span from u to v: *)
Definition span_ccw (u v w : qpt) : Prop :=
  (0 <= qcross u v /\ 0 <= qcross u w /\ 0 <= qcross w v) \/
  (qcross u v < 0 /\ (0 <= qcross u w \/ 0 <= qcross w v)).
(** sweep = true is counter clockwise (canvas' convention, Cartesian axes); the clockwise arc from u to v
    is, as a point set, the counter clockwise arc from v to u *)
Definition in_span (sweep : bool) (u v w : qpt) : Prop :=
  if sweep then span_ccw u v w else span_ccw v u w.

Definition span_ccwb (u v w : qpt) : bool :=
  if Qle_bool 0 (qcross u v) then Qle_bool 0 (qcross u w) && Qle_bool 0 (qcross w v)
  else Qle_bool 0 (qcross u w) || Qle_bool 0 (qcross w v).
Definition in_spanb (sweep : bool) (u v w : qpt) : bool :=
  if sweep then span_ccwb u v w else span_ccwb v u w.

Lemma span_ccwb_iff u v w : span_ccwb u v w = true <-> span_ccw u v w.
Proof.
  unfold span_ccwb, span_ccw. destruct (Qle_bool 0 (qcross u v)) eqn:E.
  - apply Qle_bool_iff in E. rewrite andb_true_iff, !Qle_bool_iff. split.
    + intros [A B]. left. tauto.
    + intros [(A & B & C)|(A & B)]; [tauto|lra].
  - assert (N : qcross u v < 0).
    { apply Qnot_le_lt. intro C. apply Qle_bool_iff in C. congruence. }
    rewrite orb_true_iff, !Qle_bool_iff. split.
    + intros A. right. tauto.
    + intros [(A & B & C)|(A & B)]; [lra|tauto].
Qed.

Lemma in_spanb_iff sw u v w : in_spanb sw u v w = true <-> in_span sw u v w.
Proof. destruct sw; apply span_ccwb_iff. Qed.

Lemma qcross_antisym u v : qcross u v == - qcross v u.
Proof. unfold qcross. ring. Qed.

Lemma scale_nonneg k x : 0 < k -> (0 <= k * x <-> 0 <= x).
Proof.
  intro Hk. split; intro H.
  - destruct (Qlt_le_dec x 0) as [N|P]; [|exact P]. exfalso.
    assert (0 < k * (- x)) by (apply Qmult_lt_0_compat; lra).
    assert (k * (- x) == - (k * x)) by ring. lra.
  - apply Qmult_le_0_compat; lra.
Qed.
Lemma scale_neg k x : 0 < k -> (k * x < 0 <-> x < 0).
Proof.
  intro Hk. split; intro H.
  - destruct (Qlt_le_dec x 0) as [N|P]; [exact N|]. exfalso.
    assert (0 <= k * x) by (apply Qmult_le_0_compat; lra). lra.
  - assert (0 < k * (- x)) by (apply Qmult_lt_0_compat; lra).
    assert (k * (- x) == - (k * x)) by ring. lra.
Qed.

Lemma span_ccw_scale k u v w u' v' w' :
  0 < k -> qcross u' v' == k * qcross u v -> qcross u' w' == k * qcross u w -> qcross w' v' == k * qcross w v ->
  (span_ccw u' v' w' <-> span_ccw u v w).
Proof.
  intros Hk E1 E2 E3. unfold span_ccw. rewrite E1, E2, E3.
  rewrite !(scale_nonneg k _ Hk), (scale_neg k _ Hk). tauto.
Qed.

(** orientation-preserving maps keep the span, orientation-reversing maps turn it into the span of the
    opposite sweep: this is why Path.Transform must flip the sweep flag exactly when det m < 0 *)
Theorem span_transport_pos m sw u v w :
  0 < mdet m -> (in_span sw (mvec m u) (mvec m v) (mvec m w) <-> in_span sw u v w).
Proof.
  intro Hd. destruct sw; cbn [in_span]; apply (span_ccw_scale (mdet m)); try exact Hd; apply cross_vec.
Qed.

Theorem span_transport_neg m sw u v w :
  mdet m < 0 -> (in_span (negb sw) (mvec m u) (mvec m v) (mvec m w) <-> in_span sw u v w).
Proof.
  intro Hd.
  assert (K : 0 < - mdet m) by lra.
  assert (X : forall a b, qcross (mvec m a) (mvec m b) == - mdet m * qcross b a).
  { intros a b. rewrite cross_vec, (qcross_antisym a b). ring. }
  destruct sw; cbn [in_span negb].
  - (* ccw u->v maps to cw (mu)->(mv) = ccw (mv)->(mu) *)
    unfold span_ccw. rewrite !X. rewrite !(scale_nonneg _ _ K), (scale_neg _ _ K). tauto.
  - unfold span_ccw. rewrite !X. rewrite !(scale_nonneg _ _ K), (scale_neg _ _ K). tauto.
Qed.

(** ------------------------------------------------------------------------------------------------
    arcs as point sets *)
Record arc := mkArc { a_c : qpt; a_k : conic; a_s : qpt; a_e : qpt; a_sw : bool }.
Definition on_arc (a : arc) (X : qpt) : Prop :=
  on_conic (a_c a) (a_k a) X /\ in_span (a_sw a) (qsub (a_s a) (a_c a)) (qsub (a_e a) (a_c a)) (qsub X (a_c a)).

(** the image arc: centre, start and end are mapped, the form is transported, the sweep flips iff det < 0 *)
Definition arc_map (m i : mat) (a : arc) : arc :=
  mkArc (mdot m (a_c a)) (conic_pull i (a_k a)) (mdot m (a_s a)) (mdot m (a_e a))
        (if Qle_bool 0 (mdet m) then a_sw a else negb (a_sw a)).

Lemma in_span_compat sw u v w u' v' w' :
  pteq u u' -> pteq v v' -> pteq w w' -> (in_span sw u v w <-> in_span sw u' v' w').
Proof.
  intros [U1 U2] [V1 V2] [W1 W2].
  destruct sw; cbn [in_span]; unfold span_ccw, qcross; rewrite U1, U2, V1, V2, W1, W2; tauto.
Qed.

(** arc_affine: X is a point of the arc iff m X is a point of the image arc — for every invertible m,
    including shears, non-uniform scales and reflections *)
Theorem arc_affine m i a X :
  minv m = Some i -> (on_arc a X <-> on_arc (arc_map m i a) (mdot m X)).
Proof.
  intro H. unfold on_arc, arc_map; cbn [a_c a_k a_s a_e a_sw].
  rewrite <- (conic_transport m i (a_c a) (a_k a) X H).
  assert (D : ~ mdet m == 0).
  { intro C. apply (minv_none m) in C. congruence. }
  assert (S : in_span (if Qle_bool 0 (mdet m) then a_sw a else negb (a_sw a))
                (qsub (mdot m (a_s a)) (mdot m (a_c a))) (qsub (mdot m (a_e a)) (mdot m (a_c a)))
                (qsub (mdot m X) (mdot m (a_c a)))
              <-> in_span (a_sw a) (qsub (a_s a) (a_c a)) (qsub (a_e a) (a_c a)) (qsub X (a_c a))).
  { rewrite (in_span_compat _ _ _ _ _ _ _ (sub_dot m (a_s a) (a_c a)) (sub_dot m (a_e a) (a_c a)) (sub_dot m X (a_c a))).
    destruct (Qle_bool 0 (mdet m)) eqn:E.
    - apply Qle_bool_iff in E. apply span_transport_pos.
      destruct (Qlt_le_dec 0 (mdet m)) as [P|N]; [exact P|]. exfalso. apply D. lra.
    - apply span_transport_neg. apply Qnot_le_lt. intro C. apply Qle_bool_iff in C. congruence. }
  rewrite S. tauto.
Qed.

Example arc_affine_ex :
  let a := mkArc (0, 0) (ellipse_conic 2 1 1 0) (2, 0) (0, 1) true in
  on_arc a (ellipse_pos 2 1 1 0 (0, 0) (3#5) (4#5)) /\
  on_arc (arc_map (mkM (-1) 0 0 0 1 0) (mkM (-1) 0 0 0 1 0) a) (mdot (mkM (-1) 0 0 0 1 0) (ellipse_pos 2 1 1 0 (0, 0) (3#5) (4#5))).
Proof.
  cbn zeta. split; (split; [vm_compute; reflexivity|]); apply in_spanb_iff; vm_compute; reflexivity.
Qed.

(** the "large" flag of the endpoint parametrisation is determined by the geometry: the ccw arc from u to v
    is longer than a half turn iff cross u v < 0; it is preserved by every invertible map together with the
    sweep rule above (cross (mu) (mv) = det * cross u v and the direction flips with the sign of det) *)
Definition arc_large (sweep : bool) (u v : qpt) : bool :=
  if sweep then negb (Qle_bool 0 (qcross u v)) else negb (Qle_bool 0 (qcross v u)).

Lemma arc_large_transport m sw u v :
  ~ mdet m == 0 ->
  arc_large (if Qle_bool 0 (mdet m) then sw else negb sw) (mvec m u) (mvec m v) = arc_large sw u v.
Proof.
  intro D.
  assert (B : forall x y, (0 <= x <-> 0 <= y) -> Qle_bool 0 x = Qle_bool 0 y).
  { intros x y Hxy. destruct (Qle_bool 0 x) eqn:E1, (Qle_bool 0 y) eqn:E2; auto.
    - apply Qle_bool_iff in E1. apply Hxy in E1. apply Qle_bool_iff in E1. congruence.
    - apply Qle_bool_iff in E2. apply Hxy in E2. apply Qle_bool_iff in E2. congruence. }
  destruct (Qle_bool 0 (mdet m)) eqn:E.
  - apply Qle_bool_iff in E. assert (P : 0 < mdet m).
    { destruct (Qlt_le_dec 0 (mdet m)) as [P|N]; [exact P|]. exfalso. apply D. lra. }
    destruct sw; cbn [arc_large]; f_equal; apply B; rewrite cross_vec; apply scale_nonneg; exact P.
  - assert (N : mdet m < 0) by (apply Qnot_le_lt; intro C; apply Qle_bool_iff in C; congruence).
    assert (K : 0 < - mdet m) by lra.
    destruct sw; cbn [arc_large negb]; f_equal; apply B; rewrite cross_vec.
    + rewrite (qcross_antisym v u).
      setoid_replace (mdet m * - qcross u v) with (- mdet m * qcross u v) by ring. apply scale_nonneg; exact K.
    + rewrite (qcross_antisym u v).
      setoid_replace (mdet m * - qcross v u) with (- mdet m * qcross v u) by ring. apply scale_nonneg; exact K.
Qed.

(** satisfiability of the hypotheses of the transport theorems on non-trivial values *)
Example span_transport_pos_ex :
  0 < mdet (mkM 2 1 0 0 3 0) /\ in_span true (mvec (mkM 2 1 0 0 3 0) (1, 0)) (mvec (mkM 2 1 0 0 3 0) (0, 1)) (mvec (mkM 2 1 0 0 3 0) (1, 1)).
Proof. split; [reflexivity|]. apply in_spanb_iff. vm_compute. reflexivity. Qed.
Example span_transport_neg_ex :
  mdet (mkM 0 1 0 1 0 0) < 0 /\ in_span (negb true) (mvec (mkM 0 1 0 1 0 0) (1, 0)) (mvec (mkM 0 1 0 1 0 0) (0, 1)) (mvec (mkM 0 1 0 1 0 0) (1, 1)).
Proof. split; [reflexivity|]. apply in_spanb_iff. vm_compute. reflexivity. Qed.
Example conic_transport_ex :
  minv (mkM 2 1 3 0 3 (-1)) = Some (mkM (3 / 6) (- (1) / 6) (- (3 * 3 - 1 * -1) / 6) (- 0 / 6) (2 / 6) (- (- 0 * 3 + 2 * -1) / 6)) /\
  on_conic (1, 2) (ellipse_conic 10 5 (3#5) (4#5)) (ellipse_pos 10 5 (3#5) (4#5) (1, 2) (5#13) (12#13)).
Proof. split; [reflexivity|apply ellipse_pos_on_ex]. Qed.
Example ellipse_extent_ex :
  let X := ellipse_pos 10 5 (3#5) (4#5) (1, 2) (5#13) (12#13) in
  (fst X - 1) * (fst X - 1) <= 10 * 10 * ((3#5) * (3#5)) + 5 * 5 * ((4#5) * (4#5)).
Proof. apply (ellipse_extent_x 10 5 (3#5) (4#5) (1, 2) (5#13) (12#13)). reflexivity. Qed.
Example arc_large_transport_ex : ~ mdet (mkM 0 1 0 1 0 0) == 0.
Proof. intro H; discriminate H. Qed.
